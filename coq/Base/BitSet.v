(** Finite subsets of [0..n-1] as non-negative [Z] (bit i = member i), as the
    [bitsets] package and the library use Python ints. *)
From Coq Require Import ZArith List Bool Lia.
From Concepts Require Import Base.PyInt.
Import ListNotations.
Open Scope Z_scope.

Definition mem (s : Z) (i : nat) : bool := Z.testbit s (Z.of_nat i).

Definition in_range (n : nat) (s : Z) : Prop :=
  0 <= s /\ forall i, (n <= i)%nat -> mem s i = false.

Definition bit (i : nat) : Z := Z.shiftl 1 (Z.of_nat i).
Definition ones (n : nat) : Z := Z.shiftl 1 (Z.of_nat n) - 1.   (* (1 << n) - 1 *)

Definition subsetb (a b : Z) : bool := Z.land a b =? a.
Definition subset (a b : Z) : Prop := forall i, mem a i = true -> mem b i = true.

(** set comprehension { i < n | p i } *)
Fixpoint of_pred_from (start : nat) (len : nat) (p : nat -> bool) : Z :=
  match len with
  | O => 0
  | S len' => Z.lor (if p start then bit start else 0) (of_pred_from (S start) len' p)
  end.
Definition of_pred (n : nat) (p : nat -> bool) : Z := of_pred_from 0 n p.

Definition members (n : nat) (s : Z) : list nat := filter (mem s) (seq 0 n).
Definition of_list (l : list nat) : Z := fold_right (fun i acc => Z.lor (bit i) acc) 0 l.
Definition card (n : nat) (s : Z) : nat := length (members n s).

(** * membership lemmas *)

Lemma mem_0 i : mem 0 i = false.
Proof. apply Z.testbit_0_l. Qed.

Lemma mem_bit i j : mem (bit i) j = Nat.eqb i j.
Proof.
  unfold mem, bit. rewrite Z.shiftl_1_l.
  destruct (Nat.eqb_spec i j) as [->|Hne].
  - apply Z.pow2_bits_true; lia.
  - apply Z.pow2_bits_false; lia.
Qed.

Lemma mem_land a b i : mem (Z.land a b) i = mem a i && mem b i.
Proof. apply Z.land_spec. Qed.
Lemma mem_lor a b i : mem (Z.lor a b) i = mem a i || mem b i.
Proof. apply Z.lor_spec. Qed.
Lemma mem_lnot a i : mem (Z.lnot a) i = negb (mem a i).
Proof. unfold mem. apply Z.lnot_spec; lia. Qed.
Lemma mem_ldiff a b i : mem (Z.ldiff a b) i = mem a i && negb (mem b i).
Proof. apply Z.ldiff_spec. Qed.
Lemma mem_lxor a b i : mem (Z.lxor a b) i = xorb (mem a i) (mem b i).
Proof. apply Z.lxor_spec. Qed.

Lemma mem_ones n i : mem (ones n) i = (i <? n)%nat.
Proof.
  unfold mem, ones. rewrite Z.shiftl_1_l.
  change (2 ^ Z.of_nat n - 1) with (Z.pred (2 ^ Z.of_nat n)).
  rewrite <- Z.ones_equiv.
  destruct (Nat.ltb_spec i n).
  - apply Z.ones_spec_low; lia.
  - apply Z.ones_spec_high; lia.
Qed.

Lemma mem_shiftr a k i : mem (Z.shiftr a (Z.of_nat k)) i = mem a (i + k).
Proof. unfold mem. rewrite Z.shiftr_spec by lia. f_equal. lia. Qed.

Lemma mem_of_pred_from start len p i :
  mem (of_pred_from start len p) i = ((start <=? i)%nat && (i <? start + len)%nat && p i).
Proof.
  revert start; induction len as [|len IH]; intros start; cbn [of_pred_from].
  - rewrite mem_0. destruct (Nat.leb_spec start i), (Nat.ltb_spec i (start + 0)); cbn; try reflexivity; lia.
  - rewrite mem_lor, IH.
    destruct (Nat.eq_dec start i) as [->|Hne].
    + destruct (p i) eqn:Hp; [rewrite mem_bit, Nat.eqb_refl|rewrite mem_0].
      * destruct (Nat.leb_spec i i), (Nat.ltb_spec i (i + S len)); cbn; try reflexivity; lia.
      * rewrite andb_false_r. cbn [orb].
        destruct (Nat.leb_spec (S i) i); [lia|]. cbn [andb]. rewrite andb_false_r. reflexivity.
    + assert (mem (if p start then bit start else 0) i = false) as ->.
      { destruct (p start); [rewrite mem_bit; apply Nat.eqb_neq; exact Hne|apply mem_0]. }
      cbn [orb].
      destruct (Nat.leb_spec (S start) i), (Nat.leb_spec start i),
        (Nat.ltb_spec i (S start + len)), (Nat.ltb_spec i (start + S len)); cbn; try reflexivity; lia.
Qed.

Lemma mem_of_pred n p i : mem (of_pred n p) i = ((i <? n)%nat && p i).
Proof. unfold of_pred. rewrite mem_of_pred_from. cbn. reflexivity. Qed.

(** * range *)

Lemma of_pred_from_nonneg start len p : 0 <= of_pred_from start len p.
Proof.
  revert start; induction len as [|len IH]; intros start; cbn [of_pred_from]; [lia|].
  apply Z.lor_nonneg. split; [|apply IH].
  destruct (p start); [|lia]. unfold bit. rewrite Z.shiftl_1_l. apply Z.pow_nonneg; lia.
Qed.

Lemma in_range_of_pred n p : in_range n (of_pred n p).
Proof.
  split; [apply of_pred_from_nonneg|].
  intros i Hi. rewrite mem_of_pred. destruct (Nat.ltb_spec i n); [lia|reflexivity].
Qed.

Lemma in_range_0 n : in_range n 0.
Proof. split; [lia|intros; apply mem_0]. Qed.

Lemma ones_nonneg n : 0 <= ones n.
Proof.
  unfold ones. rewrite Z.shiftl_1_l.
  assert (0 < 2 ^ Z.of_nat n) by (apply Z.pow_pos_nonneg; lia). lia.
Qed.

Lemma in_range_ones n : in_range n (ones n).
Proof.
  split; [apply ones_nonneg|].
  intros i Hi. rewrite mem_ones. destruct (Nat.ltb_spec i n); [lia|reflexivity].
Qed.

Lemma in_range_land_l n a b : in_range n a -> 0 <= b -> in_range n (Z.land a b).
Proof.
  intros [Ha Hr] Hb. split; [apply Z.land_nonneg; auto|].
  intros i Hi. rewrite mem_land, Hr by exact Hi. reflexivity.
Qed.

Lemma in_range_land n a b : in_range n a -> in_range n b -> in_range n (Z.land a b).
Proof. intros Ha [Hb _]. apply in_range_land_l; assumption. Qed.

Lemma in_range_lor n a b : in_range n a -> in_range n b -> in_range n (Z.lor a b).
Proof.
  intros [Ha Hra] [Hb Hrb]. split; [apply Z.lor_nonneg; auto|].
  intros i Hi. rewrite mem_lor, Hra, Hrb by exact Hi. reflexivity.
Qed.

Lemma bit_nonneg i : 0 <= bit i.
Proof. unfold bit. rewrite Z.shiftl_1_l. apply Z.pow_nonneg; lia. Qed.

Lemma in_range_bit n i : (i < n)%nat -> in_range n (bit i).
Proof.
  intros Hi. split; [apply bit_nonneg|].
  intros j Hj. rewrite mem_bit. apply Nat.eqb_neq. lia.
Qed.

Lemma in_range_weaken n m s : (n <= m)%nat -> in_range n s -> in_range m s.
Proof. intros Hnm [H0 Hr]. split; [exact H0|]. intros i Hi. apply Hr. lia. Qed.

(** extensionality *)
Lemma bitset_ext_nonneg a b : 0 <= a -> 0 <= b -> (forall i, mem a i = mem b i) -> a = b.
Proof.
  intros Ha Hb H. apply Z.bits_inj'. intros n Hn.
  specialize (H (Z.to_nat n)). unfold mem in H. rewrite Z2Nat.id in H by lia. exact H.
Qed.

Lemma bitset_ext n a b :
  in_range n a -> in_range n b -> (forall i, (i < n)%nat -> mem a i = mem b i) -> a = b.
Proof.
  intros [Ha Hra] [Hb Hrb] H. apply bitset_ext_nonneg; try assumption.
  intros i. destruct (Nat.lt_ge_cases i n) as [Hlt|Hge]; [apply H; exact Hlt|].
  rewrite Hra, Hrb by exact Hge. reflexivity.
Qed.

Lemma mem_lt_of_in_range n s i : in_range n s -> mem s i = true -> (i < n)%nat.
Proof.
  intros [_ Hr] Hm. destruct (Nat.lt_ge_cases i n) as [Hlt|Hge]; [exact Hlt|].
  rewrite Hr in Hm by exact Hge. discriminate.
Qed.

(** subset test as the code writes it: [a & b == a] *)
Lemma subsetb_spec a b : 0 <= a -> (subsetb a b = true <-> subset a b).
Proof.
  intros Ha. unfold subsetb, subset. rewrite Z.eqb_eq. split.
  - intros H i Hi. rewrite <- H, mem_land in Hi. apply andb_prop in Hi. tauto.
  - intros H. apply bitset_ext_nonneg; [| exact Ha |].
    + apply Z.land_nonneg. left. exact Ha.
    + intros i. rewrite mem_land. destruct (mem a i) eqn:E; [rewrite (H i E)|]; reflexivity.
Qed.

(** superset test as the code writes it: [a | b == a] *)
Lemma supersetb_spec a b : 0 <= a -> 0 <= b -> (Z.lor a b =? a) = true <-> subset b a.
Proof.
  intros Ha Hb. unfold subset. rewrite Z.eqb_eq. split.
  - intros H i Hi. rewrite <- H, mem_lor, Hi. apply orb_true_r.
  - intros H. apply bitset_ext_nonneg; [apply Z.lor_nonneg; auto| exact Ha |].
    intros i. rewrite mem_lor. destruct (mem b i) eqn:E; [rewrite (H i E); reflexivity|apply orb_false_r].
Qed.

Lemma eqb_ext n a b : in_range n a -> in_range n b ->
  (a =? b) = true <-> (forall i, (i < n)%nat -> mem a i = mem b i).
Proof.
  intros Ha Hb. rewrite Z.eqb_eq. split; [intros -> i _; reflexivity|apply bitset_ext; assumption].
Qed.

Lemma zero_iff_empty a : 0 <= a -> a = 0 <-> (forall i, mem a i = false).
Proof.
  intros Ha. split; [intros -> i; apply mem_0|].
  intros H. apply bitset_ext_nonneg; [exact Ha|lia|]. intros i. rewrite H, mem_0. reflexivity.
Qed.

(** members *)
Lemma In_members n s i : In i (members n s) <-> (i < n)%nat /\ mem s i = true.
Proof.
  unfold members. rewrite filter_In, in_seq. split; intros [H1 H2]; split; auto; lia.
Qed.

Lemma of_list_nonneg l : 0 <= of_list l.
Proof.
  induction l as [|x l IH]; cbn; [lia|]. apply Z.lor_nonneg. split; [apply bit_nonneg|exact IH].
Qed.

Lemma mem_of_list l i : mem (of_list l) i = existsb (Nat.eqb i) l.
Proof.
  induction l as [|x l IH]; cbn [of_list fold_right existsb]; [apply mem_0|].
  fold (of_list l). rewrite mem_lor, mem_bit, IH, Nat.eqb_sym. reflexivity.
Qed.

Lemma mem_of_list_In l i : mem (of_list l) i = true <-> In i l.
Proof.
  rewrite mem_of_list, existsb_exists. split.
  - intros [x [Hx E]]. apply Nat.eqb_eq in E. subst. exact Hx.
  - intros H. exists i. split; [exact H|apply Nat.eqb_refl].
Qed.

Lemma in_range_of_list n l : Forall (fun i => (i < n)%nat) l -> in_range n (of_list l).
Proof.
  intros H. split; [apply of_list_nonneg|].
  intros i Hi. destruct (mem (of_list l) i) eqn:E; [|reflexivity].
  apply mem_of_list_In in E. rewrite Forall_forall in H. specialize (H i E). lia.
Qed.

Lemma of_list_members n s : in_range n s -> of_list (members n s) = s.
Proof.
  intros Hs. apply (bitset_ext n); [apply in_range_of_list | exact Hs |].
  - apply Forall_forall. intros i Hi. apply In_members in Hi. tauto.
  - intros i Hi. destruct (mem s i) eqn:E.
    + apply mem_of_list_In, In_members. auto.
    + destruct (mem (of_list (members n s)) i) eqn:E2; [|reflexivity].
      apply mem_of_list_In, In_members in E2. destruct E2; congruence.
Qed.

Lemma in_range_of_bound n s : 0 <= s < 2 ^ Z.of_nat n -> in_range n s.
Proof.
  intros [H0 Hlt]. split; [exact H0|]. intros i Hi. unfold mem.
  destruct (Z.eq_dec s 0) as [->|Hne]; [apply Z.testbit_0_l|].
  apply Z.bits_above_log2; [exact H0|].
  apply Z.log2_lt_pow2; [lia|].
  apply Z.lt_le_trans with (1 := Hlt). apply Z.pow_le_mono_r; lia.
Qed.
