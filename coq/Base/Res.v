(** Results with Python exceptions, fuelled loops, indexing. *)
From Coq Require Import ZArith List Bool Lia.
Import ListNotations.
Open Scope Z_scope.

Inductive exn := KeyError | ValueError | IndexError | TypeError | StopIteration | OutOfFuel.

Inductive res (A : Type) : Type :=
| Ok (a : A)
| Raise (e : exn).
Arguments Ok {A} a.
Arguments Raise {A} e.

Definition bind {A B} (r : res A) (f : A -> res B) : res B :=
  match r with Ok a => f a | Raise e => Raise e end.

Notation "'do' x <- r ;; k" := (bind r (fun x => k))
  (at level 200, x name, r at level 100, k at level 200, right associativity).
Notation "'do' ' p <- r ;; k" := (bind r (fun x => match x with p => k end))
  (at level 200, p pattern, r at level 100, k at level 200, right associativity).

Definition exn_eqb (a b : exn) : bool :=
  match a, b with
  | KeyError, KeyError | ValueError, ValueError | IndexError, IndexError
  | TypeError, TypeError | StopIteration, StopIteration | OutOfFuel, OutOfFuel => true
  | _, _ => false
  end.

Definition is_ok {A} (r : res A) : bool := match r with Ok _ => true | _ => false end.

(** [while cond: body] with explicit fuel; running out of fuel is an error value. *)
Fixpoint while_fuel {S : Type} (fuel : nat) (cond : S -> bool) (body : S -> res S) (s : S) : res S :=
  if cond s then
    match fuel with
    | O => Raise OutOfFuel
    | Datatypes.S f => bind (body s) (while_fuel f cond body)
    end
  else Ok s.

(** [for x in xs: body] threading a state. *)
Fixpoint for_fold {S X : Type} (body : S -> X -> res S) (xs : list X) (s : S) : res S :=
  match xs with
  | [] => Ok s
  | x :: xs' => bind (body s x) (for_fold body xs')
  end.

(** Python sequence indexing [l[i]] (negative indexes count from the end). *)
Definition py_getitem {A} (l : list A) (i : Z) : res A :=
  let n := Z.of_nat (length l) in
  let j := if i <? 0 then i + n else i in
  if (j <? 0) || (n <=? j) then Raise IndexError
  else match nth_error l (Z.to_nat j) with Some a => Ok a | None => Raise IndexError end.

Lemma py_getitem_nth {A} (l : list A) (i : nat) (a : A) :
  nth_error l i = Some a -> py_getitem l (Z.of_nat i) = Ok a.
Proof.
  intros H. unfold py_getitem.
  assert (Hlt : (i < length l)%nat) by (apply nth_error_Some; congruence).
  destruct (Z.of_nat i <? 0) eqn:E1; [lia|].
  destruct (Z.of_nat i <? 0) eqn:E2; [lia|].
  destruct (Z.of_nat (length l) <=? Z.of_nat i) eqn:E3; [lia|].
  cbn [orb]. rewrite Nat2Z.id, H. reflexivity.
Qed.

Lemma bind_ok {A B} (r : res A) (f : A -> res B) b :
  bind r f = Ok b -> exists a, r = Ok a /\ f a = Ok b.
Proof. destruct r; cbn; intros H; [eauto|discriminate]. Qed.

Lemma for_fold_app {S X} (body : S -> X -> res S) xs ys s :
  for_fold body (xs ++ ys) s = bind (for_fold body xs s) (for_fold body ys).
Proof.
  revert s; induction xs as [|x xs IH]; intros s; cbn; [reflexivity|].
  destruct (body s x); cbn; auto.
Qed.
