(** Python [int] as [Z]: truthiness, bit_length, lowest set bit. *)
From Coq Require Import ZArith List Bool Lia.
Import ListNotations.
Open Scope Z_scope.

Definition bit_length (z : Z) : Z := if z =? 0 then 0 else Z.log2 (Z.abs z) + 1.
Definition truthy (z : Z) : bool := negb (z =? 0).

(** number of trailing zero bits of a positive *)
Fixpoint ctz (p : positive) : nat :=
  match p with
  | xO q => S (ctz q)
  | _ => O
  end.

Lemma land_neg_odd (p : positive) : Z.land (Z.pos p~1) (- Z.pos p~1) = 1.
Proof.
  apply Z.bits_inj'. intros n Hn.
  rewrite Z.land_spec.
  replace (- Z.pos p~1) with (Z.lnot (Z.pos p~1 - 1)) by (unfold Z.lnot; lia).
  replace (Z.pos p~1 - 1) with (2 * Z.pos p) by lia.
  destruct (Z.eq_dec n 0) as [->|Hn0].
  - reflexivity.
  - replace n with (Z.succ (n - 1)) by lia.
    rewrite Z.lnot_spec by lia.
    change (Z.pos p~1) with (2 * Z.pos p + 1).
    rewrite Z.testbit_odd_succ, Z.testbit_even_succ by lia.
    rewrite andb_negb_r.
    change 1 with (2 * 0 + 1). rewrite Z.testbit_odd_succ by lia.
    symmetry; apply Z.testbit_0_l.
Qed.

Lemma land_neg_double (a : Z) : Z.land (2 * a) (- (2 * a)) = 2 * Z.land a (- a).
Proof.
  replace (- (2 * a)) with (2 * (- a)) by lia.
  assert (E : forall x, 2 * x = Z.shiftl x 1)
    by (intros x; rewrite Z.shiftl_mul_pow2 by lia; lia).
  rewrite !E. apply eq_sym, Z.shiftl_land.
Qed.

Lemma lowbit_pos (p : positive) : Z.land (Z.pos p) (- Z.pos p) = 2 ^ Z.of_nat (ctz p).
Proof.
  induction p as [p IH|p IH|].
  - apply land_neg_odd.
  - change (Z.pos p~0) with (2 * Z.pos p).
    rewrite land_neg_double, IH. cbn [ctz].
    rewrite Nat2Z.inj_succ, Z.pow_succ_r by lia. reflexivity.
  - reflexivity.
Qed.

Lemma bit_length_pow2 (k : Z) : 0 <= k -> bit_length (2 ^ k) = k + 1.
Proof.
  intros Hk. unfold bit_length.
  assert (0 < 2 ^ k) by (apply Z.pow_pos_nonneg; lia).
  destruct (2 ^ k =? 0) eqn:E; [lia|].
  rewrite Z.abs_eq by lia. rewrite Z.log2_pow2 by lia. reflexivity.
Qed.

(** the code's expression [(b & -b).bit_length() - 1] *)
Definition tz_expr (b : Z) : Z := bit_length (Z.land b (- b)) - 1.

Lemma tz_expr_pos (p : positive) : tz_expr (Z.pos p) = Z.of_nat (ctz p).
Proof. unfold tz_expr. rewrite lowbit_pos, bit_length_pow2 by lia. lia. Qed.

Lemma ctz_low_false (p : positive) (j : nat) :
  (j < ctz p)%nat -> Z.testbit (Z.pos p) (Z.of_nat j) = false.
Proof.
  revert j; induction p as [p IH|p IH|]; intros j Hj; cbn [ctz] in Hj; try lia.
  destruct j as [|j]; [reflexivity|].
  rewrite Nat2Z.inj_succ. change (Z.pos p~0) with (2 * Z.pos p).
  rewrite Z.testbit_even_succ by lia. apply IH; lia.
Qed.

Lemma ctz_bit_true (p : positive) : Z.testbit (Z.pos p) (Z.of_nat (ctz p)) = true.
Proof.
  induction p as [p IH|p IH|]; cbn [ctz]; try reflexivity.
  rewrite Nat2Z.inj_succ. change (Z.pos p~0) with (2 * Z.pos p).
  rewrite Z.testbit_even_succ by lia. exact IH.
Qed.

Lemma ctz_zero_iff_odd (p : positive) : ctz p = O <-> Z.testbit (Z.pos p) 0 = true.
Proof. destruct p; cbn; split; intros; try reflexivity; try discriminate. Qed.

Lemma bit_length_nonneg z : 0 <= bit_length z.
Proof.
  unfold bit_length. destruct (z =? 0); [lia|].
  pose proof (Z.log2_nonneg (Z.abs z)). lia.
Qed.

Lemma bit_length_shiftr_lt (b : Z) (k : Z) :
  0 < b -> 0 < k -> bit_length (Z.shiftr b k) < bit_length b.
Proof.
  intros Hb Hk. unfold bit_length.
  assert (Hs : 0 <= Z.shiftr b k) by (apply Z.shiftr_nonneg; lia).
  destruct (b =? 0) eqn:E; [lia|].
  destruct (Z.shiftr b k =? 0) eqn:E2.
  - pose proof (Z.log2_nonneg (Z.abs b)). lia.
  - rewrite !Z.abs_eq by lia.
    rewrite Z.log2_shiftr by lia.
    assert (0 < Z.shiftr b k) by lia.
    assert (Z.log2 b - k >= 0).
    { destruct (Z_lt_le_dec (Z.log2 b) k) as [Hlt|]; [|lia].
      rewrite Z.shiftr_eq_0 in * by lia. lia. }
    lia.
Qed.

Lemma bits_above_bit_length (b : Z) (n : Z) :
  0 <= b -> bit_length b <= n -> Z.testbit b n = false.
Proof.
  intros Hb Hn. unfold bit_length in Hn.
  destruct (b =? 0) eqn:E.
  - apply Z.eqb_eq in E. subst. apply Z.testbit_0_l.
  - apply Z.bits_above_log2; [lia|]. rewrite Z.abs_eq in Hn by lia. lia.
Qed.

Lemma truthy_pos z : 0 < z -> truthy z = true.
Proof. intros H. unfold truthy. destruct (Z.eqb_spec z 0); [lia|reflexivity]. Qed.
Lemma truthy_true_iff z : truthy z = true <-> z <> 0.
Proof. unfold truthy. destruct (Z.eqb_spec z 0); cbn; split; intros; try congruence; try discriminate. Qed.
Lemma truthy_false_iff z : truthy z = false <-> z = 0.
Proof. unfold truthy. destruct (Z.eqb_spec z 0); cbn; split; intros; try congruence; try discriminate. Qed.
