(** heapq as a priority queue on (key, payload) entries with integer keys: pop extracts an
    entry of minimal key (the first such in the list).  Entries of equal key are compared by
    payload in Python; the callers only ever have equal keys for identical payloads. *)
From Coq Require Import ZArith List Bool.
From Concepts Require Import Base.Res.
Import ListNotations.
Open Scope Z_scope.

Definition nonempty {A} (l : list A) : bool := match l with [] => false | _ => true end.

Definition heapify {A} (h : list (Z * A)) : list (Z * A) := h.
Definition heappush {A} (h : list (Z * A)) (x : Z * A) : list (Z * A) := x :: h.

Fixpoint hmin_aux {A} (best : Z * A) (acc rest : list (Z * A)) : (Z * A) * list (Z * A) :=
  match rest with
  | [] => (best, acc)
  | x :: rest' => if fst x <? fst best then hmin_aux x (best :: acc) rest' else hmin_aux best (x :: acc) rest'
  end.

Definition heappop {A} (h : list (Z * A)) : res ((Z * A) * list (Z * A)) :=
  match h with
  | [] => Raise IndexError
  | x :: r => Ok (hmin_aux x [] r)
  end.
