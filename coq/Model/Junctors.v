(** Model of junctors.Relations: unary classification, pairs of contingent properties,
    dispatch on the set of occurring combinations, Replication -> Implication swap, sort. *)
From Coq Require Import ZArith List Bool.
From Concepts Require Import Base.Res Base.PyInt Base.BitSet Spec.Context Model.JunctorsTables Model.Lattice.
Import ListNotations.
Open Scope Z_scope.

Definition bool_eqb (a b : bool) : bool := Bool.eqb a b.
Definition pair_bool_eqb (p q : bool * bool) : bool := Bool.eqb (fst p) (fst q) && Bool.eqb (snd p) (snd q).

(** frozenset equality of a pattern (duplicate-free list) and a collection of values *)
Definition same_set {A} (eqb : A -> A -> bool) (pattern : list A) (vals : list A) : bool :=
  forallb (fun p => existsb (eqb p) vals) pattern && forallb (fun v => existsb (eqb v) pattern) vals.

Definition lookup_table {A} (eqb : A -> A -> bool) (table : list (list A * list Z * Z)) (vals : list A)
  : res (list Z * Z) :=
  match find (fun row => same_set eqb (fst (fst row)) vals) table with
  | Some (_, kind, order) => Ok (kind, order)
  | None => Raise KeyError
  end.

(** entry: kind name, left item, right item (None for unary), order *)
Definition entry := (list Z * nat * option nat * Z)%type.

Definition column_bools (nG : nat) (col : Z) : list bool := map (mem col) (seq 0 nG).

Definition kind_contingency : list Z := [99; 111; 110; 116; 105; 110; 103; 101; 110; 99; 121].
Definition kind_replication : list Z := [114; 101; 112; 108; 105; 99; 97; 116; 105; 111; 110].
Definition kind_implication : list Z := [105; 109; 112; 108; 105; 99; 97; 116; 105; 111; 110].
Definition zlist_eqb (a b : list Z) : bool :=
  (fix go (a b : list Z) : bool := match a, b with [] , [] => true | x :: a', y :: b' => (x =? y) && go a' b' | _, _ => false end) a b.

Fixpoint combinations2 {A} (l : list A) : list (A * A) :=
  match l with
  | [] => []
  | x :: r => map (fun y => (x, y)) r ++ combinations2 r
  end.

Definition implication_order : Z :=
  match find (fun row => zlist_eqb (snd (fst row)) kind_implication) binary_table with
  | Some (_, _, o) => o | None => 0 end.

Definition relations (nG : nat) (cols : list Z) (include_unary : bool) : res (list entry) :=
  let items := combine (seq 0 (length cols)) (map (column_bools nG) cols) in
  do unary <- map_res (fun '(i, bools) =>
                 do '(kind, order) <- lookup_table bool_eqb unary_table bools ;;
                 Ok ((kind, i, None, order) : entry, bools)) items ;;
  let contingent := filter (fun '((kind, _, _, _), _) => zlist_eqb kind kind_contingency) unary in
  do binary <- map_res (fun '(((_, l, _, _), lbools), ((_, r, _, _), rbools)) =>
                 do '(kind, order) <- lookup_table pair_bool_eqb binary_table (combine lbools rbools) ;;
                 if zlist_eqb kind kind_replication
                 then Ok ((kind_implication, r, Some l, implication_order) : entry)
                 else Ok ((kind, l, Some r, order) : entry)) (combinations2 contingent) ;;
  let members := if include_unary then map fst unary ++ binary else binary in
  Ok (sort_by (fun e : entry => let '(_, _, _, o) := e in (o, 0)) members).
