(** Executable models of the text formats of concepts/formats/ (table.py, cxt.py, csv_context.py,
    fimi.py, wiki_table.py, base.py) over code-point lists.

    A Python [str] is a [list Z] of code points.  Every function below is total.

    Modelled Python paths
    - [Format.dumps]: [io.StringIO(newline=cls.newline)]; for newline=None (table, cxt, wiki-table) every
      single [write] call translates '\r\n' and '\r' to '\n' ([print_line]: [print(x, file=f)] is the two
      writes [x] and '\n'); for newline='' (csv, fimi) nothing is translated; [dumps_rstrip].
    - [Format.loads]: [io.StringIO(source)], i.e. newline='\n': no translation, lines end at '\n' only.
    - csv: the reader state machine of Modules/_csv.c (CPython 3.12: NUL is an ordinary character) for a
      dialect without escapechar and without skipinitialspace; the writer for QUOTE_MINIMAL/doublequote and
      for QUOTE_NONE on fields that need no escaping.

    Not modelled: codecs, real files, the 131072 field size limit of the csv module, non-ASCII decimal
    digits in [int()], [sys.set_int_max_str_digits].  [csv.Error] has no constructor in [exn]: it is
    represented by [csv_Error := OutOfFuel] (harness tag 9 = "other"); no function here uses fuel.
    Dumpers return plain strings: where Python raises (TypeError of [tmpl % args] when a row has not one
    cell per property, AssertionError in [iter_cxt_lines]) the model follows the [zip] truncation only. *)
From Coq Require Import ZArith List Bool Lia.
From Concepts Require Import Base.Res.
Import ListNotations.
Open Scope Z_scope.

Definition str := list Z.
Definition triple := (list str * list str * list (list bool))%type.

Definition csv_Error : exn := OutOfFuel.

(** fast reverse *)
Definition frev {A} (l : list A) : list A := rev_append l [].

Definition is_nil {A} (l : list A) : bool := match l with [] => true | _ => false end.

(* ------------------------------------------------------------------------------------------- *)
(** * str helpers *)

(** [str.isspace] / the set stripped by [strip()] and split by [split()] *)
Definition isspace (c : Z) : bool :=
  ((9 <=? c) && (c <=? 13)) || ((28 <=? c) && (c <=? 32)) || (c =? 133) || (c =? 160) || (c =? 5760)
  || ((8192 <=? c) && (c <=? 8202)) || (c =? 8232) || (c =? 8233) || (c =? 8239) || (c =? 8287)
  || (c =? 12288).

Fixpoint drop_while (p : Z -> bool) (s : str) : str :=
  match s with
  | [] => []
  | c :: t => if p c then drop_while p t else s
  end.

Definition lstrip_by (p : Z -> bool) (s : str) : str := drop_while p s.
Definition rstrip_by (p : Z -> bool) (s : str) : str := frev (drop_while p (frev s)).
Definition strip_by (p : Z -> bool) (s : str) : str := rstrip_by p (lstrip_by p s).

Definition lstrip := lstrip_by isspace.
Definition rstrip := rstrip_by isspace.
Definition strip := strip_by isspace.

Definition char_in (chars : str) (c : Z) : bool := existsb (Z.eqb c) chars.
(** [s.strip(chars)] *)
Definition strip_chars (chars : str) : str -> str := strip_by (char_in chars).

Definition cons_head (c : Z) (l : list str) : list str :=
  match l with
  | [] => [[c]]
  | h :: r => (c :: h) :: r
  end.

(** [s.split(sep)] for a one-character separator *)
Fixpoint split_on (sep : Z) (s : str) : list str :=
  match s with
  | [] => [[]]
  | c :: t => if c =? sep then [] :: split_on sep t else cons_head c (split_on sep t)
  end.

(** [s.split(sep)] for the two-character separator [a b] (leftmost, non-overlapping matches) *)
Fixpoint split_on2 (a b : Z) (s : str) : list str :=
  match s with
  | [] => [[]]
  | c :: t =>
      match t with
      | d :: t' => if (c =? a) && (d =? b) then [] :: split_on2 a b t' else cons_head c (split_on2 a b t)
      | [] => [[c]]
      end
  end.

(** [s.split()]: the pair is (word starting at the current position, later words) *)
Fixpoint split_ws_go (s : str) : str * list str :=
  match s with
  | [] => ([], [])
  | c :: t =>
      let '(w, ws) := split_ws_go t in
      if isspace c then ([], match w with [] => ws | _ => w :: ws end) else (c :: w, ws)
  end.
Definition split_ws (s : str) : list str :=
  let '(w, ws) := split_ws_go s in match w with [] => ws | _ => w :: ws end.

(** [s.partition(sep)] for a one-character separator (first occurrence; [(s, '', '')] when absent) *)
Fixpoint partition (sep : Z) (s : str) : str * str * str :=
  match s with
  | [] => ([], [], [])
  | c :: t => if c =? sep then ([], [sep], t) else let '(a, m, b) := partition sep t in (c :: a, m, b)
  end.

Definition ljust (w : nat) (s : str) : str := s ++ repeat 32 (w - length s)%nat.

(** [sep.join(l)] *)
Definition join (sep : str) (l : list str) : str :=
  match l with
  | [] => []
  | x :: xs => x ++ flat_map (fun y => sep ++ y) xs
  end.

(** iteration over [io.StringIO(source)] (newline='\n'): lines end at '\n', ends kept *)
Fixpoint lines_keepends (s : str) : list str :=
  match s with
  | [] => []
  | c :: t => if c =? 10 then [c] :: lines_keepends t else cons_head c (lines_keepends t)
  end.
Definition splitlines_keepends := lines_keepends.

(** iteration over a text file opened with newline='' : lines end at '\n', '\r\n' or a lone '\r',
    untranslated, ends kept *)
Fixpoint lines_universal (s : str) : list str :=
  match s with
  | [] => []
  | c :: t =>
      if c =? 10 then [c] :: lines_universal t
      else if c =? 13 then
        match t with
        | d :: _ => if d =? 10 then cons_head c (lines_universal t) else [c] :: lines_universal t
        | [] => [[c]]
        end
      else cons_head c (lines_universal t)
  end.

(** universal-newline translation (newline=None): '\r\n' -> '\n', '\r' -> '\n' *)
Fixpoint translate_newlines (s : str) : str :=
  match s with
  | [] => []
  | c :: t =>
      if c =? 13 then
        10 :: match t with
              | d :: t' => if d =? 10 then translate_newlines t' else translate_newlines t
              | [] => []
              end
      else c :: translate_newlines t
  end.

(** [print(x, file=f)] on an [io.StringIO(newline=None)]: two writes, each translated separately *)
Definition print_line (x : str) : str := translate_newlines x ++ [10].

(** [str(n)] for a natural number *)
Fixpoint z_to_str_aux (fuel : nat) (z : Z) (acc : str) : str :=
  match fuel with
  | O => acc
  | S f => let acc' := (48 + z mod 10) :: acc in
           if z <? 10 then acc' else z_to_str_aux f (z / 10) acc'
  end.
Definition nat_to_str (n : nat) : str := z_to_str_aux (S n) (Z.of_nat n) [].

Definition is_digit (c : Z) : bool := (48 <=? c) && (c <=? 57).

(** digits with single underscores between digits *)
Fixpoint parse_digits (prev_digit : bool) (acc : Z) (s : str) : option Z :=
  match s with
  | [] => if prev_digit then Some acc else None
  | c :: t =>
      if is_digit c then parse_digits true (acc * 10 + (c - 48)) t
      else if (c =? 95) && prev_digit then parse_digits false acc t
      else None
  end.

(** the whitespace [int()] skips: code points below 127 are passed through to [PyLong_FromString]
    (which skips ASCII whitespace only), the other [isspace] code points are turned into ' ' first *)
Definition int_space (c : Z) : bool := isspace c && negb ((28 <=? c) && (c <=? 31)).

(** [int(s)]: surrounding whitespace, optional sign, ASCII decimal digits (underscores allowed) *)
Definition py_int (s : str) : res Z :=
  let s := strip_by int_space s in
  let '(neg, ds) := match s with
                    | c :: t => if c =? 43 then (false, t) else if c =? 45 then (true, t) else (false, s)
                    | [] => (false, s)
                    end in
  match parse_digits false 0 ds with
  | Some v => Ok (if neg then - v else v)
  | None => Raise ValueError
  end.

(** [l[lo:hi]] with Python's clamping of negative / too large bounds *)
Definition clamp_index (n i : Z) : Z := if i <? 0 then Z.max 0 (i + n) else Z.min i n.
Definition py_slice {A} (l : list A) (lo hi : option Z) : list A :=
  let n := Z.of_nat (length l) in
  let a := match lo with None => 0 | Some i => clamp_index n i end in
  let b := match hi with None => n | Some i => clamp_index n i end in
  firstn (Z.to_nat (b - a)) (skipn (Z.to_nat a) l).

Fixpoint map_res {A B} (f : A -> res B) (l : list A) : res (list B) :=
  match l with
  | [] => Ok []
  | x :: xs => do y <- f x ;; do ys <- map_res f xs ;; Ok (y :: ys)
  end.

(** [tools.max_len] *)
Definition max_len (l : list str) : nat := fold_right (fun s m => Nat.max (length s) m) 0%nat l.

(* ------------------------------------------------------------------------------------------- *)
(** * table.py *)

Definition cell_X (b : bool) : str := if b then [88] else [].

(** [tmpl % cells] with [tmpl = ' ' * indent + '|'.join('%-{w}s' ...) + '|'] *)
Definition table_line (indent : nat) (wd : list nat) (cells : list str) : str :=
  repeat 32 indent ++ join [124] (map (fun wc => ljust (fst wc) (snd wc)) (combine wd cells)) ++ [124].

Definition table_lines (indent : nat) (objs props : list str) (bools : list (list bool)) : list str :=
  let wd := max_len objs :: map (@length Z) props in
  table_line indent wd ([] :: props)
  :: map (fun ob => table_line indent wd (fst ob :: map cell_X (snd ob))) (combine objs bools).

(** [Table.dumps(objects, properties, bools, indent=indent)] *)
Definition dump_table (indent : nat) (objs props : list str) (bools : list (list bool)) : str :=
  rstrip (flat_map print_line (table_lines indent objs props bools)).

Definition table_clean_line (l : str) : str := strip (fst (fst (partition 35 l))).

Definition table_row (l : str) : str * list bool :=
  let '(o, _, flags) := partition 124 l in
  (strip o, map (fun f => negb (is_nil (strip f))) (split_on 124 (strip_chars [124] flags))).

(** [Table.loads(s)] *)
Definition load_table (s : str) : res triple :=
  let lines := filter (fun l => negb (is_nil l)) (map table_clean_line (lines_keepends s)) in
  match lines with
  | [] => Raise IndexError                                        (* lines[0] *)
  | h :: rest =>
      let props := map strip (split_on 124 (strip_chars [124] h)) in
      let table := map table_row rest in
      match table with
      | [] => Raise ValueError                                    (* objects, bools = zip( *[]) *)
      | _ => Ok (map fst table, props, map snd table)
      end
  end.

(* ------------------------------------------------------------------------------------------- *)
(** * cxt.py *)

Definition cxt_symbol (b : bool) : Z := if b then 88 else 46.

Definition cxt_lines (objs props : list str) (bools : list (list bool)) : list str :=
  [[66]; []; nat_to_str (length objs); nat_to_str (length props); []]
  ++ objs ++ props ++ map (map cxt_symbol) bools.

(** [Cxt.dumps(objects, properties, bools)] *)
Definition dump_cxt (objs props : list str) (bools : list (list bool)) : str :=
  flat_map print_line (cxt_lines objs props bools).

Definition cxt_value (c : Z) : res bool :=
  if c =? 88 then Ok true else if c =? 46 then Ok false else Raise KeyError.

(** [Cxt.loads(s)] *)
Definition load_cxt (s : str) : res triple :=
  let source := strip s in
  match split_on2 10 10 source with
  | [_; yx; table] =>
      match split_ws yx with
      | [ys; xs] =>
          do y <- py_int ys ;;
          do x <- py_int xs ;;
          let lines := map strip (split_on 10 (strip table)) in
          do bools <- map_res (map_res cxt_value) (py_slice lines (Some (y + x)) None) ;;
          Ok (py_slice lines None (Some y), py_slice lines (Some y) (Some (y + x)), bools)
      | _ => (* unpacking [map(int, ...)]: int() is applied to the items that are looked at *)
          Raise ValueError
      end
  | _ => Raise ValueError
  end.

(* ------------------------------------------------------------------------------------------- *)
(** * the csv module: reader *)

Inductive cstate := START_RECORD | START_FIELD | IN_FIELD | IN_QUOTED_FIELD | QUOTE_IN_QUOTED_FIELD | EAT_CRNL.

Definition cstate_eqb (a b : cstate) : bool :=
  match a, b with
  | START_RECORD, START_RECORD | START_FIELD, START_FIELD | IN_FIELD, IN_FIELD
  | IN_QUOTED_FIELD, IN_QUOTED_FIELD | QUOTE_IN_QUOTED_FIELD, QUOTE_IN_QUOTED_FIELD | EAT_CRNL, EAT_CRNL => true
  | _, _ => false
  end.

(** [d_quote = None] is QUOTE_NONE with quotechar None; otherwise doublequote is on; no escapechar *)
Record dialect := { d_delim : Z; d_quote : option Z; d_strict : bool }.

Definition excel : dialect := {| d_delim := 44; d_quote := Some 34; d_strict := false |}.
Definition fimi_dialect : dialect := {| d_delim := 32; d_quote := None; d_strict := true |}.

(** parser state: automaton state, current field (reversed), saved fields (reversed) *)
Definition pstate := (cstate * str * list str)%type.
Definition pstate0 : pstate := (START_RECORD, [], []).

Definition is_nl (c : Z) : bool := (c =? 10) || (c =? 13).
Definition is_quote (d : dialect) (c : Z) : bool :=
  match d_quote d with Some q => c =? q | None => false end.

Definition save_field (f : str) (fs : list str) : list str := frev f :: fs.

(** [parse_process_char] for an ordinary character *)
Definition step_char (d : dialect) (st : pstate) (c : Z) : res pstate :=
  let '(s, f, fs) := st in
  let start_field :=
    if is_nl c then Ok (EAT_CRNL, [], save_field f fs)
    else if is_quote d c then Ok (IN_QUOTED_FIELD, f, fs)
    else if c =? d_delim d then Ok (START_FIELD, [], save_field f fs)
    else Ok (IN_FIELD, c :: f, fs) in
  match s with
  | START_RECORD => if is_nl c then Ok (EAT_CRNL, f, fs) else start_field
  | START_FIELD => start_field
  | IN_FIELD =>
      if is_nl c then Ok (EAT_CRNL, [], save_field f fs)
      else if c =? d_delim d then Ok (START_FIELD, [], save_field f fs)
      else Ok (IN_FIELD, c :: f, fs)
  | IN_QUOTED_FIELD =>
      if is_quote d c then Ok (QUOTE_IN_QUOTED_FIELD, f, fs) else Ok (IN_QUOTED_FIELD, c :: f, fs)
  | QUOTE_IN_QUOTED_FIELD =>
      if is_quote d c then Ok (IN_QUOTED_FIELD, c :: f, fs)
      else if c =? d_delim d then Ok (START_FIELD, [], save_field f fs)
      else if is_nl c then Ok (EAT_CRNL, [], save_field f fs)
      else if d_strict d then Raise csv_Error
      else Ok (IN_FIELD, c :: f, fs)
  | EAT_CRNL => if is_nl c then Ok st else Raise csv_Error
  end.

(** [parse_process_char] for the end-of-line pseudo character *)
Definition step_eol (st : pstate) : pstate :=
  let '(s, f, fs) := st in
  match s with
  | START_RECORD => st
  | START_FIELD | IN_FIELD | QUOTE_IN_QUOTED_FIELD => (START_RECORD, [], save_field f fs)
  | IN_QUOTED_FIELD => st
  | EAT_CRNL => (START_RECORD, f, fs)
  end.

(** end of input inside [Reader_iternext] *)
Definition csv_eof (d : dialect) (st : pstate) : list (list str) * option exn :=
  let '(s, f, fs) := st in
  if negb (is_nil f) || cstate_eqb s IN_QUOTED_FIELD then
    if d_strict d then ([], Some csv_Error) else ([frev (save_field f fs)], None)
  else ([], None).

(** does the input line end after character [c] (followed by [t])?  [univ = false]: io.StringIO(source)
    (lines end at '\n'); [univ = true]: a file opened with newline='' *)
Definition line_end (univ : bool) (c : Z) (t : str) : bool :=
  (c =? 10) || is_nil t
  || (univ && (c =? 13) && match t with d :: _ => negb (d =? 10) | [] => true end).

(** [list(csv.reader(lines))] as far as it gets: the records read, and the exception that ends the
    iteration if any.  The reader is fed line by line; each line is followed by the EOL pseudo character,
    a record is complete when the automaton is back in START_RECORD after a line. *)
Fixpoint csv_chars (d : dialect) (univ : bool) (st : pstate) (s : str) : list (list str) * option exn :=
  match s with
  | [] => csv_eof d st
  | c :: t =>
      match step_char d st c with
      | Raise e => ([], Some e)
      | Ok st1 =>
          if line_end univ c t then
            let st2 := step_eol st1 in
            if cstate_eqb (fst (fst st2)) START_RECORD then
              let '(rs, e) := csv_chars d univ pstate0 t in (frev (snd st2) :: rs, e)
            else csv_chars d univ st2 t
          else csv_chars d univ st1 t
      end
  end.

Definition csv_read (d : dialect) (univ : bool) (s : str) : list (list str) * option exn :=
  csv_chars d univ pstate0 s.

(* ------------------------------------------------------------------------------------------- *)
(** * the csv module: writer *)

Definition csv_special (c : Z) : bool := (c =? 44) || (c =? 34) || (c =? 13) || (c =? 10).

Definition csv_escape (f : str) : str := flat_map (fun c => if c =? 34 then [34; 34] else [c]) f.

(** one field under QUOTE_MINIMAL, doublequote *)
Definition csv_quote_field (f : str) : str :=
  if existsb csv_special f then 34 :: csv_escape f ++ [34] else f.

(** [writer.writerow(fields)] for the excel dialect (a lone empty field is written as [""]) *)
Definition csv_writerow (fields : list str) : str :=
  match fields with
  | [[]] => [34; 34; 13; 10]
  | _ => join [44] (map csv_quote_field fields) ++ [13; 10]
  end.

(* ------------------------------------------------------------------------------------------- *)
(** * csv_context.py *)

Definition csv_symbol (as_int b : bool) : str :=
  if as_int then (if b then [49] else [48]) else (if b then [88] else []).

(** [Csv.dumps(objects, properties, bools, bools_as_int=as_int)] *)
Definition dump_csv (as_int : bool) (objs props : list str) (bools : list (list bool)) : str :=
  csv_writerow ([] :: props)
  ++ flat_map (fun ob => csv_writerow (fst ob :: map (csv_symbol as_int) (snd ob))) (combine objs bools).

Definition str_eqb (a b : str) : bool :=
  (fix go (a b : str) : bool :=
     match a, b with
     | [], [] => true
     | x :: a', y :: b' => (x =? y) && go a' b'
     | _, _ => false
     end) a b.

(** [VALUES[as_int][s]] *)
Definition csv_value (as_int : bool) (s : str) : res bool :=
  if as_int then (if str_eqb s [48] then Ok false else if str_eqb s [49] then Ok true else Raise KeyError)
  else (if str_eqb s [] then Ok false else if str_eqb s [88] then Ok true else Raise KeyError).

(** [for obj, *symbols in rows: ...] followed by the exception that ended the reader, if any *)
Fixpoint csv_rows (as_int : bool) (rows : list (list str)) (err : option exn)
  : res (list str * list (list bool)) :=
  match rows with
  | [] => match err with Some e => Raise e | None => Ok ([], []) end
  | [] :: _ => Raise ValueError
  | (o :: syms) :: rest =>
      do bs <- map_res (csv_value as_int) syms ;;
      do '(os, bss) <- csv_rows as_int rest err ;;
      Ok (o :: os, bs :: bss)
  end.

(** [Csv.loads(s, bools_as_int=as_int)] *)
Definition load_csv (as_int : option bool) (s : str) : res triple :=
  let '(recs, err) := csv_read excel false s in
  let stop := match err with Some e => e | None => StopIteration end in
  match recs with
  | [] => Raise stop                                                   (* next(reader) *)
  | [] :: _ => Raise ValueError                                         (* object_header, *properties = [] *)
  | (_ :: props) :: rows =>
      do ai <- match as_int with
               | Some b => Ok b
               | None =>
                   match rows with
                   | [] => Raise stop                                   (* first_row = next(reader) *)
                   | [] :: _ => Raise ValueError                        (* _, *first_symbols = [] *)
                   | (_ :: syms) :: _ =>
                       if is_ok (map_res (csv_value false) syms) then Ok false
                       else if is_ok (map_res (csv_value true) syms) then Ok true
                       else Raise ValueError
                   end
               end ;;
      do '(objs, bools) <- csv_rows ai rows err ;;
      Ok (objs, props, bools)
  end.

(* ------------------------------------------------------------------------------------------- *)
(** * fimi.py *)

Fixpoint true_indexes_from (i : nat) (row : list bool) : list nat :=
  match row with
  | [] => []
  | b :: r => if b then i :: true_indexes_from (S i) r else true_indexes_from (S i) r
  end.
(** [[i for i, value in enumerate(row) if value]] *)
Definition true_indexes (row : list bool) : list nat := true_indexes_from 0 row.

(** [writer.writerow(ints)] for FimiDialect (delimiter ' ', QUOTE_NONE, lineterminator '\n') *)
Definition fimi_writerow (r : list nat) : str := join [32] (map nat_to_str r) ++ [10].

(** [write_concepts_dat] / the rows written by [tools.write_csv_file(..., dialect=FimiDialect)] *)
Definition dump_dat (rows : list (list nat)) : str := flat_map fimi_writerow rows.

(** [Fimi.dumps(objects, properties, bools)] *)
Definition dump_fimi (bools : list (list bool)) : str := dump_dat (map true_indexes bools).

(** [int(v)] restricted to the naturals: Python also accepts negative numbers, which the result type
    cannot hold; they are reported as [TypeError] (no Python exception corresponds to it). *)
Definition int_nat (s : str) : res nat :=
  do z <- py_int s ;; if z <? 0 then Raise TypeError else Ok (Z.to_nat z).

(** [list(read_concepts_dat(path))] on the decoded content [s] of the file (opened with newline='') *)
Definition read_dat (s : str) : res (list (list nat)) :=
  let '(recs, err) := csv_read fimi_dialect true s in
  do rows <- map_res (map_res int_nat) recs ;;
  match err with Some e => Raise e | None => Ok rows end.

(* ------------------------------------------------------------------------------------------- *)
(** * wiki_table.py *)

Definition wiki_head : str :=
  [123; 124; 32; 99; 108; 97; 115; 115; 61; 34; 102; 101; 97; 116; 117; 114; 101; 115; 121; 115; 116; 101; 109; 34].
(* {| class="featuresystem" *)

Definition wiki_lines (objs props : list str) (bools : list (list bool)) : list str :=
  let wp := map (@length Z) props in
  [wiki_head; [33]; 33 :: join [33; 33] props]
  ++ flat_map (fun ob =>
       [[124; 45]; 33 :: fst ob;
        124 :: join [124; 124] (map (fun wb => ljust (fst wb) (cell_X (snd wb))) (combine wp (snd ob)))])
     (combine objs bools)
  ++ [[124; 125]].

(** [WikiTable.dumps(objects, properties, bools)] *)
Definition dump_wikitable (objs props : list str) (bools : list (list bool)) : str :=
  rstrip (flat_map print_line (wiki_lines objs props bools)).

(* ------------------------------------------------------------------------------------------- *)
(** * base.py: [FormatMeta.infer_format] on the suffix given by [os.path.splitext] *)

Definition ascii_lower (c : Z) : Z := if (65 <=? c) && (c <=? 90) then c + 32 else c.

Definition name_table : str := [116; 97; 98; 108; 101].
Definition name_cxt : str := [99; 120; 116].
Definition name_csv : str := [99; 115; 118].
Definition name_fimi : str := [102; 105; 109; 105].
Definition name_python_literal : str :=
  [112; 121; 116; 104; 111; 110; 45; 108; 105; 116; 101; 114; 97; 108].

Definition format_of_suffix (suffix : str) : res str :=
  let s := map ascii_lower suffix in
  if str_eqb s [46; 116; 120; 116] then Ok name_table
  else if str_eqb s [46; 99; 120; 116] then Ok name_cxt
  else if str_eqb s [46; 99; 115; 118] then Ok name_csv
  else if str_eqb s [46; 100; 97; 116] then Ok name_fimi
  else if str_eqb s [46; 112; 121] then Ok name_python_literal
  else Raise ValueError.
