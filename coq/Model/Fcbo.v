(** Model of algorithms/fcbo.py: fast_generate_from (by intents) and fcbo_dual (by extents),
    hand-written from the source.  One generic stack machine serves both: a frame holds
    ((x, y), index, sets) where y is the side that grows (the intent for the primal
    algorithm, the extent for the dual one) and x the side that shrinks.  The list
    [next_*_sets] is shared by all children pushed during one iteration and mutated while
    the [for] loop is still running; the children are popped only afterwards, so each child
    sees its final state: the model hands the final list to every child. *)
From Coq Require Import ZArith List Bool.
From Concepts Require Import Base.Res Base.PyInt Base.BitSet Spec.FCA Spec.Context
  Model.Matrices Model.ContextApi.
Import ListNotations.
Open Scope Z_scope.

Definition frame := ((Z * Z) * nat * list Z)%type.

Fixpoint set_nth (l : list Z) (j : nat) (v : Z) : list Z :=
  match l, j with
  | [], _ => []
  | _ :: r, O => v :: r
  | x :: r, S j' => x :: set_nth r j' v
  end.

(** the body of [for j, j_atom in reversed(j_atom[index:])] for one j *)
Definition fcbo_inner (vecs : list Z) (primef : Z -> res Z) (x y : Z)
           (st : list Z * list ((Z * Z) * nat)) (j : nat) : res (list Z * list ((Z * Z) * nat)) :=
  let '(sets, children) := st in
  let j_atom := bit j in
  if truthy (Z.land j_atom y) then Ok (sets, children)
  else
    let j_mask := j_atom - 1 in
    do sj <- py_getitem sets (Z.of_nat j) ;;
    let xs := Z.land sj j_mask in
    if Z.land xs y =? xs then
      do vj <- py_getitem vecs (Z.of_nat j) ;;
      let jx := Z.land x vj in
      do jy <- primef jx ;;
      let j_lower := Z.land jy j_mask in
      if Z.land j_lower y =? j_lower
      then Ok (sets, children ++ [((jx, jy), S j)])
      else Ok (set_nth sets j jy, children)
    else Ok (sets, children).

Fixpoint fcbo_loop (fuel : nat) (n : nat) (vecs : list Z) (primef : Z -> res Z)
         (stack : list frame) (out : list (Z * Z)) : res (list (Z * Z)) :=
  match stack with
  | [] => Ok out
  | ((x, y), idx, sets) :: rest =>
      match fuel with
      | O => Raise OutOfFuel
      | S fuel' =>
          let out := out ++ [(x, y)] in
          if Nat.eqb idx n || negb (truthy x) then fcbo_loop fuel' n vecs primef rest out
          else
            do '(sets', children) <- for_fold (fcbo_inner vecs primef x y) (rev (seq idx (n - idx))) (sets, []) ;;
            (* children were appended in push order; the last pushed is popped first *)
            fcbo_loop fuel' n vecs primef
              (rev (map (fun ch : (Z * Z) * nat => (fst ch, snd ch, sets')) children) ++ rest) out
      end
  end.

(** fast_generate_from: yields (extent, intent) *)
Definition fast_generate_from (fuel dfuel : nat) (k : mctx) : res (list (Z * Z)) :=
  let n := nM (mc k) in
  do '(ext0, int0) <- objects_doubleprime dfuel k (ones (nG (mc k))) ;;
  fcbo_loop fuel n (mcols k) (objects_prime dfuel k) [((ext0, int0), O, repeat 0 n)] [].

(** fcbo_dual: frames hold (intent, extent); yields (extent, intent) *)
Definition fcbo_dual (fuel dfuel : nat) (k : mctx) : res (list (Z * Z)) :=
  let n := nG (mc k) in
  do '(ext0, int0) <- objects_doubleprime dfuel k 0 ;;
  do l <- fcbo_loop fuel n (rows (mc k)) (properties_prime dfuel k) [((int0, ext0), O, repeat 0 n)] [] ;;
  Ok (map (fun p : Z * Z => (snd p, fst p)) l).
