(** shape and fill_ratio of a Definition and of a Context (property C14: "shape, fill_ratio ... agree between a
    context and its definition").

    Python:
      Definition.shape      = Shape(len(self._objects), len(self._properties))
      Definition.fill_ratio = fractions.Fraction(len(self._pairs), self.shape.size)          (size = objects * properties)
      Context.shape         = Shape(len(objects), len(properties))
      Context.fill_ratio    = fractions.Fraction(sum(intent.count() for intent in self._intents), self.shape.size)
    [fractions.Fraction(n, d)] of two non-negative ints is the pair in lowest terms, [ZeroDivisionError] for d = 0
    (modelled as [None]; a Context is never empty, an empty Definition is). *)
From Coq Require Import ZArith List Bool.
From Concepts Require Import Base.Res Spec.Context Model.Lattice Model.Definition.
Import ListNotations.
Open Scope Z_scope.

Definition fraction (n d : Z) : option (Z * Z) :=
  if d =? 0 then None else let g := Z.gcd n d in Some (n / g, d / g).

Definition def_shape (d : defn) : nat * nat := (length (objects_of d), length (properties_of d)).
Definition def_fill_ratio (d : defn) : option (Z * Z) :=
  fraction (Z.of_nat (length (d_pairs d))) (Z.of_nat (length (objects_of d) * length (properties_of d))).

Definition ctx_shape (c : ctx) : nat * nat := (nG c, nM c).
Definition ctx_fill_ratio (c : ctx) : option (Z * Z) :=
  fraction (Z.of_nat (fold_right (fun r acc => (count r + acc)%nat) 0%nat (rows c))) (Z.of_nat (nG c * nM c)).

(** number of true cells of a boolean table *)
Definition n_true (bools : list (list bool)) : nat :=
  fold_right (fun row acc => (length (filter (fun b : bool => b) row) + acc)%nat) 0%nat bools.
