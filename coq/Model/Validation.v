(** Model of Context.__init__ validation and of the validation part of Context.fromdict.
    Names are tokens (nat); a serialized value is a [pyval]. Python's numeric equality is
    mirrored: True == 1, False == 0 (floats are not generated). *)
From Coq Require Import ZArith List Bool.
From Concepts Require Import Base.Res Base.PyInt Base.BitSet Spec.Context Model.Definition.
Import ListNotations.
Open Scope Z_scope.

Inductive pyval := VStr (s : nat) | VInt (z : Z) | VBool (b : bool) | VNone.

Definition truthy_val (v : pyval) : bool :=
  match v with VStr _ => true | VInt z => negb (z =? 0) | VBool b => b | VNone => false end.

Fixpoint has_dup (l : list nat) : bool :=
  match l with [] => false | x :: r => memn x r || has_dup r end.

Definition row_int (row : list pyval) : Z :=
  fold_right (fun v acc => (if truthy_val v then 1 else 0) + 2 * acc) 0 row.

(** Context(objects, properties, bools) : the accepted context is (objects, properties, ctx) *)
Definition context_init (objs props : list nat) (bools : list (list pyval)) : res (list nat * list nat * ctx) :=
  if (match objs with [] => true | _ => false end) then Raise ValueError
  else if has_dup objs then Raise ValueError
  else if (match props with [] => true | _ => false end) then Raise ValueError
  else if has_dup props then Raise ValueError
  else if existsb (fun o => memn o props) objs then Raise ValueError
  else if negb (Nat.eqb (length bools) (length objs))
          || negb (forallb (fun b => Nat.eqb (length b) (length props)) bools) then Raise ValueError
  else Ok (objs, props, mkCtx (length objs) (length props) (map row_int bools)).

(** a serialized dict: the three required keys and 'lattice' may each be missing; the stored
    lattice is abstracted to its number of entries (its content is property C11's business) *)
Record pydict := mkDict {
  k_objects : option (list pyval);
  k_properties : option (list pyval);
  k_context : option (list (list pyval));
  k_lattice : option (option nat)      (* missing / None / list of that many entries *)
}.

Definition as_index (v : pyval) : option Z :=
  match v with VInt z => Some z | VBool b => Some (if b then 1 else 0) | _ => None end.

Definition val_eqb (a b : pyval) : bool :=
  match as_index a, as_index b with
  | Some x, Some y => x =? y
  | _, _ => match a, b with
            | VStr s, VStr t => Nat.eqb s t
            | VNone, VNone => true
            | _, _ => false
            end
  end.

Fixpoint has_dup_val (l : list pyval) : bool :=
  match l with [] => false | x :: r => existsb (val_eqb x) r || has_dup_val r end.

(** _make_set + the bools comprehension: the row as cells *)
Definition make_row (n : nat) (r : list pyval) : res (list pyval) :=
  if has_dup_val r then Raise ValueError
  else if negb (forallb (fun v => match as_index v with
                                   | Some z => (0 <=? z) && (z <? Z.of_nat n)
                                   | None => false end) r) then Raise ValueError
  else Ok (map (fun i => VBool (existsb (fun v => match as_index v with Some z => z =? Z.of_nat i | None => false end) r))
               (seq 0 n)).

Definition all_str (l : list pyval) : option (list nat) :=
  fold_right (fun v acc => match v, acc with VStr s, Some r => Some (s :: r) | _, _ => None end) (Some []) l.

Fixpoint map_res_v {A B} (f : A -> res B) (l : list A) : res (list B) :=
  match l with
  | [] => Ok []
  | x :: r => do y <- f x ;; do ys <- map_res_v f r ;; Ok (y :: ys)
  end.

(** outcome: accepted context and whether a stored lattice is loaded *)
Definition fromdict (d : pydict) (ignore_lattice require_lattice : bool)
  : res (list nat * list nat * ctx * bool) :=
  match k_objects d, k_properties d, k_context d with
  | Some objects, Some properties, Some context =>
      match all_str objects with
      | None => Raise ValueError
      | Some objs =>
          match all_str properties with
          | None => Raise ValueError
          | Some props =>
              if negb (Nat.eqb (length context) (length objects)) then Raise ValueError
              else
                do lattice <- (if require_lattice
                               then match k_lattice d with None => Raise ValueError | Some l => Ok l end
                               else Ok (match k_lattice d with None => None | Some l => l end)) ;;
                if (match lattice with Some O => true | _ => false end) then Raise ValueError
                else
                  do rows <- map_res_v (make_row (length props)) context ;;
                  do '(o, p, c) <- context_init objs props rows ;;
                  Ok (o, p, c, negb ignore_lattice && (match lattice with Some _ => true | None => false end))
          end
      end
  | _, _, _ => Raise ValueError
  end.
