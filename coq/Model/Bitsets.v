(** Line-by-line models of the functions of the [bitsets] 0.8.4 package that the library
    calls (bases.py, integers.py, meta.py, series.py, combos.py) and of
    [concepts.matrices.Relation.__new__].

    Conventions.  A bitset instance is its Python [int] (a [Z]); the members of a bitset
    class are identified with their positions [0 .. n-1] (labels live in the harness), so
    [cls._len = n], [cls._members = range(n)].  Python loops are recursion on the structure
    of a list, or [while_fuel] with an explicit fuel; a generator is the list of the values
    it yields.  The iteration order of a Python [set] is an argument (any duplicate-free
    list with the same elements).  Nothing in this file refers to the mathematical
    definitions of the main model ([of_list], [of_pred], [cols], [reinverted], [count],
    [indexes], [atomic], [bools_of], [powerset_shortlex]); Proofs/Bitsets.v proves that the
    functions below compute exactly those. *)
From Coq Require Import ZArith List Bool Ascii.
From Concepts Require Import Base.Res Base.PyInt Base.BitSet.
Import ListNotations.
Open Scope Z_scope.

(** * Python builtins and itertools *)

(** [a << k]: ValueError("negative shift count") for k < 0 *)
Definition py_lshift (a k : Z) : res Z :=
  if k <? 0 then Raise ValueError else Ok (Z.shiftl a k).

(** [sum(iterable)]: start 0, add from the left *)
Definition py_sum (l : list Z) : Z := fold_left Z.add l 0.

(** [itertools.compress(data, selectors)] = [(d for d, s in zip(data, selectors) if s)]:
    stops at the shorter of the two *)
Fixpoint it_compress {A} (data : list A) (selectors : list bool) : list A :=
  match data, selectors with
  | d :: data', s :: selectors' =>
      if s then d :: it_compress data' selectors' else it_compress data' selectors'
  | _, _ => []
  end.

(** [zip( *ls)]: no argument yields nothing; otherwise one tuple of heads per round until
    some argument is exhausted.  [heads_tails] is one round ([None] = StopIteration of
    some argument). *)
Fixpoint heads_tails {A} (ls : list (list A)) : option (list A * list (list A)) :=
  match ls with
  | [] => Some ([], [])
  | [] :: _ => None
  | (h :: t) :: ls' =>
      match heads_tails ls' with
      | Some (hs, ts) => Some (h :: hs, t :: ts)
      | None => None
      end
  end.
Fixpoint zip_star_rounds {A} (rounds : nat) (ls : list (list A)) : list (list A) :=
  match rounds with
  | O => []
  | S rounds' =>
      match heads_tails ls with
      | Some (hs, ts) => hs :: zip_star_rounds rounds' ts
      | None => []
      end
  end.
(** the number of rounds is bounded by the length of the first argument *)
Definition py_zip_star {A} (ls : list (list A)) : list (list A) :=
  match ls with
  | [] => []
  | l0 :: _ => zip_star_rounds (length l0) ls
  end.

(** [enumerate(l)] *)
Definition py_enumerate {A} (l : list A) : list (nat * A) := combine (seq 0 (length l)) l.

(** [filter(f, l)] is [List.filter]; [itertools.filterfalse(f, l)]: *)
Definition it_filterfalse {A} (f : A -> bool) (l : list A) : list A := filter (fun x => negb (f x)) l.

(** [bin(z)] as a list of characters: sign, "0b", binary digits most significant first *)
Fixpoint pos_bin_lsb (p : positive) : list ascii :=
  match p with
  | xH => ["1"%char]
  | xO q => "0"%char :: pos_bin_lsb q
  | xI q => "1"%char :: pos_bin_lsb q
  end.
Definition py_bin (z : Z) : list ascii :=
  match z with
  | Z0 => ["0"; "b"; "0"]%char
  | Zpos p => "0"%char :: "b"%char :: rev (pos_bin_lsb p)
  | Zneg p => "-"%char :: "0"%char :: "b"%char :: rev (pos_bin_lsb p)
  end.
(** [s.count(c)] for a one-character [c] *)
Definition str_count (c : ascii) (s : list ascii) : nat := length (filter (Ascii.eqb c) s).
(** [s[2:]] and [s[:1:-1]] (from the last character down to index 2) *)
Definition slice_from2 {A} (s : list A) : list A := skipn 2 s.
Definition slice_rev_to1 {A} (s : list A) : list A := rev (skipn 2 s).

(** a [dict] built from key/value pairs (a later pair overrides an earlier one);
    [d[k]] raises KeyError for a missing key *)
Definition py_dict (kvs : list (nat * Z)) : list (nat * Z) := rev kvs.
Definition dict_getitem (d : list (nat * Z)) (k : nat) : res Z :=
  match find (fun kv => Nat.eqb (fst kv) k) d with
  | Some kv => Ok (snd kv)
  | None => Raise KeyError
  end.

(** * meta.MemberBitsMeta.__init__: the class attributes *)

(** [_atoms = tuple(self.fromint(1 << i) for i in range(self._len))] *)
Definition py_atoms (n : nat) : list Z := map (fun i => Z.shiftl 1 (Z.of_nat i)) (seq 0 n).
(** [_map = dict(zip(self._members, self._atoms))] *)
Definition py_map (n : nat) : list (nat * Z) := py_dict (combine (seq 0 n) (py_atoms n)).
(** [infimum = fromint(0)], [supremum = fromint((1 << self._len) - 1)] *)
Definition py_infimum : Z := 0.
Definition py_supremum (n : nat) : Z := Z.shiftl 1 (Z.of_nat n) - 1.

(** * bases.MemberBits *)

(** [frommembers]: [cls.fromint(sum(map(cls._map.__getitem__, set(members))))];
    [s] is the iteration order of [set(members)].  [sum] pulls the items of the lazy [map]
    one by one, so the first unknown member raises KeyError. *)
Definition is_set_of (s members : list nat) : Prop := NoDup s /\ forall x, In x s <-> In x members.
Definition py_frommembers (n : nat) (s : list nat) : res Z :=
  for_fold (fun acc m => do a <- dict_getitem (py_map n) m ;; Ok (acc + a)) s 0.

(** [frombools]: [cls.fromint(sum(compress(cls._atoms, bools)))] (itertools.compress) *)
Definition py_frombools (n : nat) (bools : list bool) : Z := py_sum (it_compress (py_atoms n) bools).

(** [bools]: [tuple(not not self & a for a in self._atoms)] *)
Definition py_bools (n : nat) (v : Z) : list bool :=
  map (fun a => negb (negb (truthy (Z.land v a)))) (py_atoms n).

(** [atoms()] / [inatoms()] (reverse=False): [filter(self.__and__, self._atoms)],
    [filterfalse(self.__and__, self._atoms)];  meta.atomic / meta.inatomic are the same
    with the bitset as the argument *)
Definition py_atomic (n : nat) (b : Z) : list Z := filter (fun a => truthy (Z.land b a)) (py_atoms n).
Definition py_inatomic (n : nat) (b : Z) : list Z := it_filterfalse (fun a => truthy (Z.land b a)) (py_atoms n).

(** [len(self)], the first component of the sort keys: [bin(self).count('1')];
    [count(value=True)]: [bin(self)[2:].count('01'[value])] *)
Definition py_count (v : Z) : nat := str_count "1"%char (py_bin v).
Definition py_count_value (v : Z) (value : bool) : nat :=
  str_count (if value then "1"%char else "0"%char) (slice_from2 (py_bin v)).

(** * integers.py *)

(** [indexes(n)] (= [iter_set]):
      i = 0
      while n:
          if n & 1: yield i
          i += 1
          n >>= 1 *)
Definition py_indexes (fuel : nat) (n : Z) : res (list nat) :=
  do st <- while_fuel fuel
             (fun st : nat * Z * list nat => let '(i, n, out) := st in truthy n)
             (fun st => let '(i, n, out) := st in
                        let out := if truthy (Z.land n 1) then out ++ [i] else out in
                        Ok (S i, Z.shiftr n 1, out))
             (O, n, []) ;;
  let '(_, _, out) := st in Ok out.

(** [indexes_optimized(n)] (= [_indexes], used by [members()]):
      for i, b in enumerate(bin(n)[:1:-1]):
          if b == '1': yield i *)
Definition py_indexes_optimized (n : Z) : list nat :=
  map fst (filter (fun ib : nat * ascii => Ascii.eqb (snd ib) "1"%char)
                  (py_enumerate (slice_rev_to1 (py_bin n)))).

(** [reinverted(n, r)]:
      result = 0
      r = 1 << (r - 1)
      while n:
          if not n & 1: result |= r
          r >>= 1
          n >>= 1
      if r: result |= (r << 1) - 1
      return result *)
Definition py_reinverted (fuel : nat) (n r : Z) : res Z :=
  do r1 <- py_lshift 1 (r - 1) ;;
  do st <- while_fuel fuel
             (fun st : Z * Z * Z => let '(n, r, result) := st in truthy n)
             (fun st => let '(n, r, result) := st in
                        let result := if negb (truthy (Z.land n 1)) then Z.lor result r else result in
                        Ok (Z.shiftr n 1, Z.shiftr r 1, result))
             (n, r1, 0) ;;
  let '(_, r, result) := st in
  Ok (if truthy r then Z.lor result (Z.shiftl r 1 - 1) else result).

(** the sort keys [shortlex()] / [longlex()] of bases.MemberBits:
    [(bin(self).count('1'), self._reinverted(self._len))] *)
Definition py_shortlex_key (fuel n : nat) (v : Z) : res (Z * Z) :=
  do r <- py_reinverted fuel v (Z.of_nat n) ;; Ok (Z.of_nat (py_count v), r).
Definition py_longlex_key (fuel n : nat) (v : Z) : res (Z * Z) :=
  do r <- py_reinverted fuel v (Z.of_nat n) ;; Ok (- Z.of_nat (py_count v), r).

(** * meta.reduce_and / meta.reduce_or
      inters = self.supremum.copy()          union = self.infimum.copy()
      for b in bitsets: inters &= b          for b in bitsets: union |= b *)
Definition py_reduce_and (n : nat) (bitsets : list Z) : Z :=
  fold_left (fun inters b => Z.land inters b) bitsets (py_supremum n).
Definition py_reduce_or (bitsets : list Z) : Z :=
  fold_left (fun union b => Z.lor union b) bitsets py_infimum.

(** * series.py: [Series.frombools] / [Series.bools] *)
Definition py_series_frombools (n : nat) (bools : list (list bool)) : list Z := map (py_frombools n) bools.
Definition py_series_bools (n : nat) (vs : list Z) : list (list bool) := map (py_bools n) vs.

(** * concepts.matrices.Relation.__new__
      x = X.Tuple.frombools(xbools)
      y = Y.Tuple.frombools(zip( *x.bools()))
    ([nX] = len(xmembers), [nY] = len(ymembers); Context passes X = Properties, Y = Objects) *)
Definition py_relation_cols (nX nY : nat) (x : list Z) : list Z :=
  py_series_frombools nY (py_zip_star (py_series_bools nX x)).
Definition py_relation_new (nX nY : nat) (xbools : list (list bool)) : list Z * list Z :=
  let x := py_series_frombools nX xbools in
  (x, py_relation_cols nX nY x).

(** * combos.shortlex(start, other, excludestart=False)
      if not excludestart: yield start
      queue = collections.deque([(start, other)])
      while queue:
          current, other = queue.popleft()
          while other:
              first, other = other[0], other[1:]
              result = current | first
              yield result
              if other: queue.append((result, other))
    The inner loop is a recursion on [other]; the outer loop has explicit fuel (one unit
    per [popleft]).  [out] is the list of the values yielded so far. *)
Fixpoint sl_inner (current : Z) (other : list Z) (queue : list (Z * list Z)) (out : list Z)
  : list (Z * list Z) * list Z :=
  match other with
  | [] => (queue, out)
  | first :: other' =>
      let result := Z.lor current first in
      let out := out ++ [result] in
      let queue := match other' with [] => queue | _ :: _ => queue ++ [(result, other')] end in
      sl_inner current other' queue out
  end.
Fixpoint sl_outer (fuel : nat) (queue : list (Z * list Z)) (out : list Z) : res (list Z) :=
  match queue with
  | [] => Ok out
  | (current, other) :: queue' =>
      match fuel with
      | O => Raise OutOfFuel
      | S fuel' => let '(queue'', out') := sl_inner current other queue' out in sl_outer fuel' queue'' out'
      end
  end.
Definition py_shortlex_combos (fuel : nat) (start : Z) (other : list Z) (excludestart : bool) : res (list Z) :=
  sl_outer fuel [(start, other)] (if excludestart then [] else [start]).

(** bases.MemberBits.powerset(start=None):
      start = self.infimum; other = self.atoms()
      return map(self.frombitset, combos.shortlex(start, list(other))) *)
Definition py_powerset (fuel n : nat) (v : Z) : res (list Z) :=
  py_shortlex_combos fuel py_infimum (py_atomic n v) false.
