(* Model of algorithms.common.iterunion: the translator's output on the pinned tree (tools/py2v.py).
   Tie/Common.v proves by reflexivity that the regenerated translation is still this model;
   Proofs/CommonEquiv.v relates it to the recursive form used in the proofs. *)
From Coq Require Import ZArith List Bool.
From Concepts Require Import Base.Res Base.PyInt Base.Heap.
Import ListNotations.
Open Scope Z_scope.


Definition iterunion (fuel : nat) (sortkey : nat -> Z) (next_concepts : nat -> list nat) (concepts : list nat) : res (list nat) :=
let out := [] in
let heap := map (fun c => ((sortkey c), c)) concepts in
let heap := heapify heap in
let seen := (- 1) in
do '(heap, seen, out) <- while_fuel fuel
(fun '(heap, seen, out) => (nonempty heap))
(fun '(heap, seen, out) =>
do '(t1, heap) <- heappop heap ;;
let '(index, concept) := t1 in
do '(seen, heap, out) <- (if (seen <? index) then
let seen := index in
let out := out ++ [concept] in
do '(heap, out) <- for_fold
(fun '(heap, out) c =>
let heap := heappush heap ((sortkey c), c) in
Ok (heap, out))
(next_concepts concept) (heap, out) ;;
Ok (seen, heap, out)
else
Ok (seen, heap, out)) ;;
Ok (heap, seen, out))
(heap, seen, out) ;;
Ok out.
