(* Model of the kernels: the translator's output on the pinned tree (tools/py2v.py).
   Tie/Matrices.v proves by reflexivity that the regenerated translation is still this model. *)
From Coq Require Import ZArith List Bool.
From Concepts Require Import Base.Res Base.PyInt.
Import ListNotations.
Open Scope Z_scope.


Definition prime (fuel : nat) (other : list Z) (Prime : Z) (bitset : Z) : res (Z) :=
let prime := Prime in
let i := 0 in
do '(prime, i, bitset) <- while_fuel fuel
(fun '(prime, i, bitset) => (truthy bitset))
(fun '(prime, i, bitset) =>
let shift := (Z.sub (bit_length (Z.land bitset (- bitset))) 1) in
do '(shift, prime) <- (if (negb (truthy shift)) then
let shift := 1 in
do t1 <- py_getitem other i ;;
let prime := (Z.land prime t1) in
Ok (shift, prime)
else
Ok (shift, prime)) ;;
let i := (Z.add i shift) in
let bitset := (Z.shiftr bitset shift) in
Ok (prime, i, bitset))
(prime, i, bitset) ;;
Ok prime.

Definition double (fuel : nat) (self : list Z) (other : list Z) (Prime : Z) (Double : Z) (bitset : Z) : res (Z) :=
let prime := Prime in
let i := 0 in
do '(prime, i, bitset) <- while_fuel fuel
(fun '(prime, i, bitset) => (truthy bitset))
(fun '(prime, i, bitset) =>
let shift := (Z.sub (bit_length (Z.land bitset (- bitset))) 1) in
do '(shift, prime) <- (if (negb (truthy shift)) then
let shift := 1 in
do t1 <- py_getitem other i ;;
let prime := (Z.land prime t1) in
Ok (shift, prime)
else
Ok (shift, prime)) ;;
let i := (Z.add i shift) in
let bitset := (Z.shiftr bitset shift) in
Ok (prime, i, bitset))
(prime, i, bitset) ;;
let double := Double in
let i := 0 in
do '(double, i, prime) <- while_fuel fuel
(fun '(double, i, prime) => (truthy prime))
(fun '(double, i, prime) =>
let shift := (Z.sub (bit_length (Z.land prime (- prime))) 1) in
do '(shift, double) <- (if (negb (truthy shift)) then
let shift := 1 in
do t2 <- py_getitem self i ;;
let double := (Z.land double t2) in
Ok (shift, double)
else
Ok (shift, double)) ;;
let i := (Z.add i shift) in
let prime := (Z.shiftr prime shift) in
Ok (double, i, prime))
(double, i, prime) ;;
Ok double.

Definition doubleprime (fuel : nat) (self : list Z) (other : list Z) (Prime : Z) (Double : Z) (bitset : Z) : res (Z * Z) :=
let prime := Prime in
let i := 0 in
do '(prime, i, bitset) <- while_fuel fuel
(fun '(prime, i, bitset) => (truthy bitset))
(fun '(prime, i, bitset) =>
let shift := (Z.sub (bit_length (Z.land bitset (- bitset))) 1) in
do '(shift, prime) <- (if (negb (truthy shift)) then
let shift := 1 in
do t1 <- py_getitem other i ;;
let prime := (Z.land prime t1) in
Ok (shift, prime)
else
Ok (shift, prime)) ;;
let i := (Z.add i shift) in
let bitset := (Z.shiftr bitset shift) in
Ok (prime, i, bitset))
(prime, i, bitset) ;;
let bitset := prime in
let double := Double in
let i := 0 in
do '(double, i, bitset) <- while_fuel fuel
(fun '(double, i, bitset) => (truthy bitset))
(fun '(double, i, bitset) =>
let shift := (Z.sub (bit_length (Z.land bitset (- bitset))) 1) in
do '(shift, double) <- (if (negb (truthy shift)) then
let shift := 1 in
do t2 <- py_getitem self i ;;
let double := (Z.land double t2) in
Ok (shift, double)
else
Ok (shift, double)) ;;
let i := (Z.add i shift) in
let bitset := (Z.shiftr bitset shift) in
Ok (double, i, bitset))
(double, i, bitset) ;;
Ok (double, prime).
