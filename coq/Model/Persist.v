(** Model of the structured persistence codec: Context.todict (index-based encoding) and
    Lattice._fromlist (ordered path: trusts the stored order; raw path: re-sorts), followed
    by Lattice._init (dindex, atoms, reduced labelling). *)
From Coq Require Import ZArith List Bool.
From Concepts Require Import Base.Res Base.PyInt Base.BitSet Spec.FCA Spec.Context
  Model.Matrices Model.ContextApi Model.Lattice.
Import ListNotations.
Open Scope Z_scope.

Definition lat_entry := (list nat * list nat * list nat * list nat)%type.

(** Context.todict()['context']: index tuple of every row *)
Definition context_index_sets (k : mctx) : list (list nat) := map indexes (rows (mc k)).

(** sum(1 << e for e in ex) *)
Definition sum_bits (l : list nat) : Z := fold_left (fun acc e => acc + bit e) l 0.

Definition nth_nat (l : list nat) (i : nat) : res nat :=
  match nth_error l i with Some x => Ok x | None => Raise IndexError end.

(** _fromlist; the result has the same shape as build_lattice's *)
Definition fromlist (dfuel : nat) (k : mctx) (lat : list lat_entry) (raw : bool) : res lattice :=
  let n := nG (mc k) in
  let exts0 := map (fun en : lat_entry => let '(ex, _, _, _) := en in sum_bits ex) lat in
  let ints0 := map (fun en : lat_entry => let '(_, it, _, _) := en in sum_bits it) lat in
  let ups0 := map (fun en : lat_entry => let '(_, _, up, _) := en in up) lat in
  let los0 := map (fun en : lat_entry => let '(_, _, _, lo) := en in lo) lat in
  let len := length lat in
  (* order: new position j holds the concept stored at original position (nth j order) *)
  let order := if raw then sort_by (fun i => shortlex n (nth i exts0 0)) (seq 0 len) else seq 0 len in
  let exts := map (fun i => nth i exts0 0) order in
  let ints := map (fun i => nth i ints0 0) order in
  let valid := forallb (fun l => forallb (fun i => (i <? len)%nat) l) (ups0 ++ los0) in
  if negb valid then Raise (if raw then KeyError else IndexError)
  else
    let ups := map (fun i => let up := nth i ups0 [] in
                             if raw then map (rank_in order) (sort_by (fun o => shortlex n (nth o exts0 0)) up) else up) order in
    let los := map (fun i => let lo := nth i los0 [] in
                             if raw then map (rank_in order) (sort_by (fun o => longlex n (nth o exts0 0)) lo) else lo) order in
    (* _init *)
    let idxs := seq 0 len in
    let dorder := sort_by (fun i => longlex n (nth_extent exts i)) idxs in
    let atoms := nth 0 ups [] in
    do olabels <- for_fold (fun acc o =>
                     do B <- intension_raw dfuel k [o] ;;
                     do A <- properties_prime dfuel k B ;;
                     do ci <- mapping_get exts A ;;
                     Ok (append_label acc ci o)) (seq 0 n) [] ;;
    do plabels <- for_fold (fun acc p =>
                     do A <- extension_raw dfuel k [p] ;;
                     do ci <- mapping_get exts A ;;
                     Ok (append_label acc ci p)) (seq 0 (nM (mc k))) [] ;;
    let concepts :=
      map (fun i => let e := nth i exts 0 in
             mkConcept e (nth i ints 0) (nth i ups []) (nth i los []) i (rank_in dorder i)
               (filter (fun a => Z.lor e (nth_extent exts a) =? e) atoms)
               (labels_of olabels i) (labels_of plabels i)) idxs in
    Ok (mkLattice k concepts exts).

(** a serialisation permuted as raw=True allows: the entry list reordered (neighbour indexes
    renamed accordingly) and every tuple shuffled *)
Definition rename_entry (newpos : nat -> nat) (e : lat_entry) : lat_entry :=
  let '(ex, it, up, lo) := e in (ex, it, map newpos up, map newpos lo).
