(** Model of lindig.lattice, Lattice.__init__/_init/_annotate and the Lattice/Concept query
    API, over indices.  Hand-written from the source (the heap/dict aliasing of
    lindig.lattice is outside the translator's subset); [neighbors] is the translated kernel. *)
From Coq Require Import ZArith List Bool.
From Concepts Require Import Base.Res Base.PyInt Base.BitSet Spec.FCA Spec.Context
  Model.Matrices Model.ContextApi Model.Lindig Model.Members.
Import ListNotations.
Open Scope Z_scope.

(** * bitsets: count, reinverted, shortlex / longlex keys, atomic *)

Fixpoint pos_count (p : positive) : nat :=
  match p with xH => 1 | xO q => pos_count q | xI q => S (pos_count q) end.
Definition count (s : Z) : nat := match s with Z.pos p => pos_count p | _ => O end.

(** integers.reinverted(n, r): bit (r-1-i) of the result is the negation of bit i of n *)
Definition reinverted (r : nat) (n : Z) : Z := of_pred r (fun j => negb (mem n (r - 1 - j))).

Definition key := (Z * Z)%type.     (* compared lexicographically, as Python tuples *)
Definition shortlex (r : nat) (s : Z) : key := (Z.of_nat (count s), reinverted r s).
Definition longlex (r : nat) (s : Z) : key := (- Z.of_nat (count s), reinverted r s).
Definition key_ltb (a b : key) : bool :=
  (fst a <? fst b) || ((fst a =? fst b) && (snd a <? snd b)).
Definition key_leb (a b : key) : bool := negb (key_ltb b a).

(** meta.atomic(bitset): the atoms 1<<i (i < n) meeting the bitset, ascending *)
Definition atomic (n : nat) (b : Z) : list Z :=
  map bit (filter (fun i => truthy (Z.land b (bit i))) (seq 0 n)).

(** * heapq as a priority queue on distinct keys *)
Fixpoint pop_min_aux {A} (best : key * A) (acc rest : list (key * A)) : (key * A) * list (key * A) :=
  match rest with
  | [] => (best, acc)
  | x :: rest' =>
      if key_ltb (fst x) (fst best) then pop_min_aux x (best :: acc) rest'
      else pop_min_aux best (x :: acc) rest'
  end.
Definition pop_min {A} (h : list (key * A)) : option ((key * A) * list (key * A)) :=
  match h with [] => None | x :: r => Some (pop_min_aux x [] r) end.

(** stable insertion sort by key, as [sorted(..., key=...)] *)
Fixpoint insert_by {A} (kf : A -> key) (x : A) (l : list A) : list A :=
  match l with
  | [] => [x]
  | y :: l' => if key_ltb (kf x) (kf y) then x :: l else y :: insert_by kf x l'
  end.
Definition sort_by {A} (kf : A -> key) (l : list A) : list A :=
  fold_left (fun acc x => insert_by kf x acc) l [].

(** * lindig.lattice *)

Definition entry := (Z * Z * list Z * list Z)%type.  (* extent, intent, upper, lower *)
Definition mapping := list (Z * entry).

Fixpoint lookup (m : mapping) (e : Z) : option entry :=
  match m with
  | [] => None
  | (k, v) :: m' => if k =? e then Some v else lookup m' e
  end.

Fixpoint update (m : mapping) (e : Z) (f : entry -> entry) : mapping :=
  match m with
  | [] => []
  | (k, v) :: m' => if k =? e then (k, f v) :: m' else (k, v) :: update m' e f
  end.

Definition add_upper (u : Z) (en : entry) : entry := let '(e, i, up, lo) := en in (e, i, up ++ [u], lo).
Definition add_lower (l : Z) (en : entry) : entry := let '(e, i, up, lo) := en in (e, i, up, lo ++ [l]).

Definition ctx_neighbors (fuel : nat) (k : mctx) (objects : Z) : res (list (Z * Z)) :=
  neighbors (objects_doubleprime fuel k) (atomic (nG (mc k))) objects.

Definition process_neighbor (n : nat) (extent : Z) (st : list (key * Z) * mapping) (nb : Z * Z)
  : list (key * Z) * mapping :=
  let '(heap, m) := st in
  let '(n_extent, n_intent) := nb in
  let m := update m extent (add_upper n_extent) in
  match lookup m n_extent with
  | Some _ => (heap, update m n_extent (add_lower extent))
  | None => ((shortlex n n_extent, n_extent) :: heap, m ++ [(n_extent, (n_extent, n_intent, [], [extent]))])
  end.

Fixpoint lindig_loop (fuel dfuel : nat) (k : mctx) (heap : list (key * Z)) (m : mapping) (out : list Z)
  : res (list Z * mapping) :=
  match pop_min heap with
  | None => Ok (out, m)
  | Some ((_, extent), heap') =>
      match fuel with
      | O => Raise OutOfFuel
      | S fuel' =>
          do ns <- ctx_neighbors dfuel k extent ;;
          let '(heap'', m') := fold_left (process_neighbor (nG (mc k)) extent) ns (heap', m) in
          lindig_loop fuel' dfuel k heap'' m' (out ++ [extent])
      end
  end.

(** yields in order, each with the final state of its (aliased) lists *)
Definition lindig_lattice (fuel dfuel : nat) (k : mctx) (infimum : list nat) : res (list entry) :=
  do A <- frommembers (nG (mc k)) infimum ;;
  do '(extent, intent) <- objects_doubleprime dfuel k A ;;
  do '(out, m) <- lindig_loop fuel dfuel k [(shortlex (nG (mc k)) extent, extent)]
                     [(extent, (extent, intent, [], []))] [] ;;
  for_fold (fun acc e => match lookup m e with Some en => Ok (acc ++ [en]) | None => Raise KeyError end) out [].

(** * Lattice.__init__ / _init / _annotate *)

Record concept := mkConcept {
  c_extent : Z; c_intent : Z;
  c_upper : list nat; c_lower : list nat;     (* indices, sorted shortlex / longlex *)
  c_index : nat; c_dindex : nat;
  c_atoms : list nat;
  c_objects : list nat; c_properties : list nat }.

Fixpoint index_of (exts : list Z) (e : Z) (i : nat) : option nat :=
  match exts with
  | [] => None
  | x :: r => if x =? e then Some i else index_of r e (S i)
  end.

Definition mapping_get (exts : list Z) (e : Z) : res nat :=
  match index_of exts e 0 with Some i => Ok i | None => Raise KeyError end.

Fixpoint map_res {A B} (f : A -> res B) (l : list A) : res (list B) :=
  match l with
  | [] => Ok []
  | x :: r => do y <- f x ;; do ys <- map_res f r ;; Ok (y :: ys)
  end.

Definition nth_extent (exts : list Z) (i : nat) : Z := nth i exts 0.

Definition rank_in (order : list nat) (i : nat) : nat :=
  (fix go (l : list nat) (r : nat) : nat :=
     match l with [] => r | x :: l' => if Nat.eqb x i then r else go l' (S r) end) order O.

Fixpoint append_label (labels : list (nat * list nat)) (ci : nat) (o : nat) : list (nat * list nat) :=
  match labels with
  | [] => [(ci, [o])]
  | (k, l) :: r => if Nat.eqb k ci then (k, l ++ [o]) :: r else (k, l) :: append_label r ci o
  end.
Definition labels_of (labels : list (nat * list nat)) (ci : nat) : list nat :=
  match find (fun p => Nat.eqb (fst p) ci) labels with Some (_, l) => l | None => [] end.

Record lattice := mkLattice { l_k : mctx; l_concepts : list concept; l_exts : list Z }.

Definition build_lattice (fuel dfuel : nat) (k : mctx) : res lattice :=
  let n := nG (mc k) in
  do raw <- lindig_lattice fuel dfuel k [] ;;
  let exts := map (fun en : entry => let '(e, _, _, _) := en in e) raw in
  (* Lattice.__init__: neighbours as concepts, sorted *)
  do ups <- map_res (fun en : entry => let '(_, _, up, _) := en in
                       do is <- map_res (mapping_get exts) up ;;
                       Ok (sort_by (fun i => shortlex n (nth_extent exts i)) is)) raw ;;
  do los <- map_res (fun en : entry => let '(_, _, _, lo) := en in
                       do is <- map_res (mapping_get exts) lo ;;
                       Ok (sort_by (fun i => longlex n (nth_extent exts i)) is)) raw ;;
  (* _init: dindex by longlex order, atoms *)
  let idxs := seq 0 (length raw) in
  let dorder := sort_by (fun i => longlex n (nth_extent exts i)) idxs in
  let atoms := nth 0 ups [] in
  (* _annotate *)
  do olabels <- for_fold (fun acc o =>
                   do B <- intension_raw dfuel k [o] ;;
                   do A <- properties_prime dfuel k B ;;
                   do ci <- mapping_get exts A ;;
                   Ok (append_label acc ci o)) (seq 0 n) [] ;;
  do plabels <- for_fold (fun acc p =>
                   do A <- extension_raw dfuel k [p] ;;
                   do ci <- mapping_get exts A ;;
                   Ok (append_label acc ci p)) (seq 0 (nM (mc k))) [] ;;
  let concepts :=
    map (fun i =>
           let '(e, it, _, _) := nth i raw (0, 0, [], []) in
           mkConcept e it (nth i ups []) (nth i los []) i (rank_in dorder i)
             (filter (fun a => Z.lor e (nth_extent exts a) =? e) atoms)
             (labels_of olabels i) (labels_of plabels i)) idxs in
  Ok (mkLattice k concepts exts).

(** * queries *)

Definition nth_concept (L : lattice) (i : nat) : res concept :=
  match nth_error (l_concepts L) i with Some c => Ok c | None => Raise IndexError end.

Definition supremum_index (L : lattice) : nat := length (l_concepts L) - 1.

(** Lattice.__getitem__ with a tuple of labels *)
Definition lattice_getitem (dfuel : nat) (L : lattice) (items : list (nat + nat)) : res nat :=
  match items with
  | [] => Ok (supremum_index L)
  | _ => do '(extent, _) <- getitem_raw dfuel (l_k L) items ;; mapping_get (l_exts L) extent
  end.

(** Lattice.__call__ *)
Definition lattice_call (dfuel : nat) (L : lattice) (props : list nat) : res nat :=
  do A <- extension_raw dfuel (l_k L) props ;; mapping_get (l_exts L) A.

(** n-ary join / meet: reduce_or / reduce_and then double() *)
Definition lattice_join (dfuel : nat) (L : lattice) (cs : list nat) : res nat :=
  let u := fold_left (fun acc i => Z.lor acc (nth_extent (l_exts L) i)) cs 0 in
  do e <- objects_double dfuel (l_k L) u ;; mapping_get (l_exts L) e.
Definition lattice_meet (dfuel : nat) (L : lattice) (cs : list nat) : res nat :=
  let u := fold_left (fun acc i => Z.land acc (nth_extent (l_exts L) i)) cs (ones (nG (mc (l_k L)))) in
  do e <- objects_double dfuel (l_k L) u ;; mapping_get (l_exts L) e.

(** binary Concept.join / meet through the translated kernels *)
Definition concept_join (dfuel : nat) (L : lattice) (i j : nat) : res nat :=
  join (objects_double dfuel (l_k L)) (mapping_get (l_exts L))
       (nth_extent (l_exts L) i) (nth_extent (l_exts L) j).
Definition concept_meet (dfuel : nat) (L : lattice) (i j : nat) : res nat :=
  meet (objects_double dfuel (l_k L)) (mapping_get (l_exts L))
       (nth_extent (l_exts L) i) (nth_extent (l_exts L) j).

(** Context.neighbors(objects) *)
Definition context_neighbors (dfuel : nat) (k : mctx) (gs : list nat) : res (list (Z * Z)) :=
  do A <- frommembers (nG (mc k)) gs ;;
  do E <- objects_double dfuel k A ;;
  ctx_neighbors dfuel k E.

(** Lattice._tolist *)
Definition tolist (L : lattice) : list (list nat * list nat * list nat * list nat) :=
  map (fun c => (indexes (c_extent c), indexes (c_intent c), c_upper c, c_lower c)) (l_concepts L).
