(** Model of iterunion, tools.maximal, upset/downset(_union), attributes/minimal, and the
    abstract DOT body of visualize.lattice. *)
From Coq Require Import ZArith List Bool.
From Concepts Require Import Base.Res Base.PyInt Base.BitSet Spec.FCA Spec.Context
  Model.Matrices Model.ContextApi Model.Members Model.Lattice.
Import ListNotations.
Open Scope Z_scope.

(** * algorithms.common.iterunion *)
Fixpoint zmin_aux (best : Z * nat) (acc rest : list (Z * nat)) : (Z * nat) * list (Z * nat) :=
  match rest with
  | [] => (best, acc)
  | x :: rest' => if fst x <? fst best then zmin_aux x (best :: acc) rest' else zmin_aux best (x :: acc) rest'
  end.

Fixpoint iterunion_loop (fuel : nat) (sortkey : nat -> Z) (next : nat -> list nat)
         (heap : list (Z * nat)) (seen : Z) (out : list nat) : res (list nat) :=
  match heap with
  | [] => Ok out
  | x :: rest =>
      match fuel with
      | O => Raise OutOfFuel
      | S fuel' =>
          let '((index, concept), heap') := zmin_aux x [] rest in
          if seen <? index then
            iterunion_loop fuel' sortkey next
              (map (fun c => (sortkey c, c)) (next concept) ++ heap') index (out ++ [concept])
          else iterunion_loop fuel' sortkey next heap' seen out
      end
  end.

Definition iterunion (fuel : nat) (concepts : list nat) (sortkey : nat -> Z) (next : nat -> list nat)
  : res (list nat) :=
  iterunion_loop fuel sortkey next (map (fun c => (sortkey c, c)) concepts) (-1) [].

Definition get_concept (L : lattice) (i : nat) : concept :=
  nth i (l_concepts L) (mkConcept 0 0 [] [] 0 0 [] [] []).

Definition upset (fuel : nat) (L : lattice) (i : nat) : res (list nat) :=
  iterunion fuel [i] (fun c => Z.of_nat (c_index (get_concept L c))) (fun c => c_upper (get_concept L c)).
Definition downset (fuel : nat) (L : lattice) (i : nat) : res (list nat) :=
  iterunion fuel [i] (fun c => Z.of_nat (c_dindex (get_concept L c))) (fun c => c_lower (get_concept L c)).

(** tools.maximal: [set(iterable)] in first-occurrence order (one admissible set order);
    keep an item unless [comparison item other] holds for some other item *)
Fixpoint dedup (l : list nat) (seen : list nat) : list nat :=
  match l with
  | [] => []
  | x :: r => if existsb (Nat.eqb x) seen then dedup r seen else x :: dedup r (x :: seen)
  end.

Definition maximal (cmp : nat -> nat -> bool) (items : list nat) : list nat :=
  let s := dedup items [] in
  match s with
  | [] | [_] => s
  | _ => filter (fun a => negb (existsb (fun b => negb (Nat.eqb a b) && cmp a b) s)) s
  end.

Definition ok_true (r : res bool) : bool := match r with Ok b => b | Raise _ => false end.

Definition upset_union (fuel : nat) (L : lattice) (cs : list nat) : res (list nat) :=
  let sup := ones (nG (mc (l_k L))) in
  let seeds := maximal (fun a b => ok_true (properly_subsumes (c_extent (get_concept L a))
                                                            (c_extent (get_concept L b)) sup)) cs in
  iterunion fuel seeds (fun c => Z.of_nat (c_index (get_concept L c))) (fun c => c_upper (get_concept L c)).
Definition downset_union (fuel : nat) (L : lattice) (cs : list nat) : res (list nat) :=
  let sup := ones (nG (mc (l_k L))) in
  let seeds := maximal (fun a b => ok_true (properly_implies (c_extent (get_concept L a))
                                                           (c_extent (get_concept L b)) sup)) cs in
  iterunion fuel seeds (fun c => Z.of_nat (c_dindex (get_concept L c))) (fun c => c_lower (get_concept L c)).

(** * bitsets powerset (combos.shortlex) and Context._minimize *)
Definition atoms_of (s : Z) : list Z := map bit (indexes s).

Fixpoint expand (cur : Z) (other : list Z) : list (Z * list Z) :=
  match other with
  | [] => []
  | f :: r => (Z.lor cur f, r) :: expand cur r
  end.
Fixpoint levels (n : nat) (lvl : list (Z * list Z)) : list Z :=
  match n with
  | O => []
  | S n' => let nxt := flat_map (fun p => expand (fst p) (snd p)) lvl in map fst nxt ++ levels n' nxt
  end.
Definition powerset_shortlex (s : Z) : list Z := 0 :: levels (count s) [(0, atoms_of s)].

Definition minimize (dfuel : nat) (k : mctx) (extent intent : Z) : res (list Z) :=
  if negb (truthy extent) then Ok [intent]
  else
    for_fold (fun acc it => do e <- properties_prime dfuel k it ;;
                            Ok (if e =? extent then acc ++ [it] else acc))
             (powerset_shortlex intent) [].

Definition attributes (dfuel : nat) (L : lattice) (i : nat) : res (list (list nat)) :=
  let c := get_concept L i in
  do l <- minimize dfuel (l_k L) (c_extent c) (c_intent c) ;; Ok (map indexes l).

(** Concept.minimal (Infimum overrides it to its full intent) *)
Definition minimal (dfuel : nat) (L : lattice) (i : nat) : res (list nat) :=
  let c := get_concept L i in
  if Nat.eqb i 0 then Ok (indexes (c_intent c))
  else do l <- minimize dfuel (l_k L) (c_extent c) (c_intent c) ;;
       match l with x :: _ => Ok (indexes x) | [] => Raise StopIteration end.

(** * visualize.lattice: abstract DOT body *)
Inductive dot_stmt :=
| DNode (i : nat)
| DHead (i : nat) (objs : list nat)
| DTail (i : nat) (props : list nat)
| DEdge (i j : nat).

Definition dot_body (L : lattice) : list dot_stmt :=
  flat_map (fun c =>
    [DNode (c_index c)]
    ++ (match c_objects c with [] => [] | o => [DHead (c_index c) o] end)
    ++ (match c_properties c with [] => [] | p => [DTail (c_index c) p] end)
    ++ map (fun j => DEdge (c_index c) j)
           (sort_by (fun j => (Z.of_nat j, 0)) (c_lower c))) (l_concepts L).
