(* Model of the junctors tables: the translator's output on the pinned tree. *)
From Coq Require Import ZArith List Bool.
From Concepts Require Import Base.Res Base.PyInt.
Import ListNotations.
Open Scope Z_scope.


Definition unary_table : list (list bool * list Z * Z) :=
[
  ([true; false], [99; 111; 110; 116; 105; 110; 103; 101; 110; 99; 121], 0);
  ([false], [99; 111; 110; 116; 114; 97; 100; 105; 99; 116; 105; 111; 110], (-2));
  ([true], [116; 97; 117; 116; 111; 108; 111; 103; 121], (-1))
].

Definition binary_table : list (list (bool * bool) * list Z * Z) :=
[
  ([(true, true); (true, false); (false, true); (false, false)], [111; 114; 116; 104; 111; 103; 111; 110; 97; 108], 7);
  ([(true, true); (true, false); (false, true)], [115; 117; 98; 99; 111; 110; 116; 114; 97; 114; 121], 6);
  ([(true, true); (false, true); (false, false)], [105; 109; 112; 108; 105; 99; 97; 116; 105; 111; 110], 4);
  ([(true, true); (true, false); (false, false)], [114; 101; 112; 108; 105; 99; 97; 116; 105; 111; 110], 5);
  ([(true, true); (false, false)], [101; 113; 117; 105; 118; 97; 108; 101; 110; 116], 1);
  ([(true, false); (false, true); (false, false)], [105; 110; 99; 111; 109; 112; 97; 116; 105; 98; 108; 101], 3);
  ([(true, false); (false, true)], [99; 111; 109; 112; 108; 101; 109; 101; 110; 116], 2)
].
