(** Model of pickling a Lattice: Concept.__getstate__ (links replaced by the stored [index]
    attribute of the linked concepts), Lattice.__getstate__ / __setstate__ (links re-resolved by
    position in the pickled concept list, mapping {extent: concept} rebuilt).  Definitions only. *)
From Coq Require Import ZArith List Bool.
From Concepts Require Import Base.Res Model.ContextApi Model.Lattice.
Import ListNotations.

(** [tuple(c.index for c in state[name])]: [js] are the positions (in [cs]) of the linked concepts;
    [c.index] is the stored attribute.  A position outside [cs] cannot occur for a Python object
    graph of one lattice; it is modelled as IndexError. *)
Definition index_attr (cs : list concept) (j : nat) : res nat :=
  match nth_error cs j with Some y => Ok (c_index y) | None => Raise IndexError end.

Definition pickle_links (cs : list concept) (js : list nat) : res (list nat) :=
  map_res (index_attr cs) js.

(** Concept.__getstate__ *)
Definition pickle_concept (cs : list concept) (x : concept) : res concept :=
  do up <- pickle_links cs (c_upper x) ;;
  do lo <- pickle_links cs (c_lower x) ;;
  do at_ <- pickle_links cs (c_atoms x) ;;
  Ok (mkConcept (c_extent x) (c_intent x) up lo (c_index x) (c_dindex x) at_
                (c_objects x) (c_properties x)).

(** Lattice.__getstate__ : (context, concepts), each concept through its own __getstate__ *)
Definition pickle_lattice (L : lattice) : res lattice :=
  do cs <- map_res (pickle_concept (l_concepts L)) (l_concepts L) ;;
  Ok (mkLattice (l_k L) cs (l_exts L)).

(** [tuple(concepts[i] for i in getattr(c, name))]: IndexError when [i] is out of range; the result
    is the list element at position [i], i.e. position [i]. *)
Definition resolve_index (n i : nat) : res nat :=
  if Nat.ltb i n then Ok i else Raise IndexError.

Definition unpickle_links (n : nat) (is : list nat) : res (list nat) :=
  map_res (resolve_index n) is.

Definition unpickle_concept (n : nat) (x : concept) : res concept :=
  do up <- unpickle_links n (c_upper x) ;;
  do lo <- unpickle_links n (c_lower x) ;;
  do at_ <- unpickle_links n (c_atoms x) ;;
  Ok (mkConcept (c_extent x) (c_intent x) up lo (c_index x) (c_dindex x) at_
                (c_objects x) (c_properties x)).

(** Lattice.__setstate__ : relink, then _init(..., unpickle=True) = store context, concepts and
    the mapping {extent: concept} (_make_mapping) *)
Definition unpickle_lattice (S : lattice) : res lattice :=
  do cs <- map_res (unpickle_concept (length (l_concepts S))) (l_concepts S) ;;
  Ok (mkLattice (l_k S) cs (map c_extent cs)).

(** pickle.loads(pickle.dumps(L)) *)
Definition copy_lattice (L : lattice) : res lattice :=
  do S <- pickle_lattice L ;; unpickle_lattice S.
