(** Model of tools.Unique and definitions.Definition as a machine over a store of
    definitions (handles are positions in the store).  Names are natural-number tokens; the
    harness maps label strings to tokens.  Python sets ([_seen], [_pairs]) are duplicate-free
    lists used only through membership, so their iteration order never matters here (the
    places where the code does iterate a set are listed in Proofs/Definition.v). *)
From Coq Require Import ZArith List Bool.
From Concepts Require Import Base.Res Base.PyInt.
Import ListNotations.
Open Scope Z_scope.

Definition memn (x : nat) (l : list nat) : bool := existsb (Nat.eqb x) l.
Definition pair_eqb (a b : nat * nat) : bool := Nat.eqb (fst a) (fst b) && Nat.eqb (snd a) (snd b).
Definition memp (x : nat * nat) (l : list (nat * nat)) : bool := existsb (pair_eqb x) l.
Definition removen (x : nat) (l : list nat) : list nat := filter (fun y => negb (Nat.eqb x y)) l.
Definition removep (x : nat * nat) (l : list (nat * nat)) : list (nat * nat) := filter (fun y => negb (pair_eqb x y)) l.
Definition addp (x : nat * nat) (l : list (nat * nat)) : list (nat * nat) := if memp x l then l else l ++ [x].

(** * tools.Unique *)
Record unique := mkU { u_seen : list nat; u_items : list nat }.

Definition u_contains (u : unique) (x : nat) : bool := memn x (u_seen u).

(** Unique(iterable) *)
Fixpoint uniq_from (l : list nat) (seen items : list nat) : unique :=
  match l with
  | [] => mkU seen items
  | x :: r => if memn x seen then uniq_from r seen items else uniq_from r (seen ++ [x]) (items ++ [x])
  end.
Definition u_new (l : list nat) : unique := uniq_from l [] [].

Definition u_add (u : unique) (x : nat) : unique :=
  if memn x (u_seen u) then u else mkU (u_seen u ++ [x]) (u_items u ++ [x]).

(** list.remove: first occurrence *)
Fixpoint remove_first (x : nat) (l : list nat) : list nat :=
  match l with [] => [] | y :: r => if Nat.eqb x y then r else y :: remove_first x r end.

Definition u_discard (u : unique) (x : nat) : unique :=
  if memn x (u_seen u) then mkU (removen x (u_seen u)) (remove_first x (u_items u)) else u.

(** MutableSet.remove *)
Definition u_remove (u : unique) (x : nat) : res unique :=
  if u_contains u x then Ok (u_discard u x) else Raise KeyError.

Fixpoint list_index (x : nat) (l : list nat) (i : nat) : option nat :=
  match l with [] => None | y :: r => if Nat.eqb x y then Some i else list_index x r (S i) end.

Fixpoint set_at (l : list nat) (i : nat) (v : nat) : list nat :=
  match l, i with
  | [], _ => []
  | _ :: r, O => v :: r
  | y :: r, S i' => y :: set_at r i' v
  end.

Definition u_replace (u : unique) (item new_item : nat) : res unique :=
  if memn new_item (u_seen u) then Raise ValueError
  else match list_index item (u_items u) 0 with
       | None => Raise ValueError
       | Some idx =>
           if memn item (u_seen u)
           then Ok (mkU (removen item (u_seen u) ++ [new_item]) (set_at (u_items u) idx new_item))
           else Raise KeyError
       end.

(** list.pop(idx) and list.insert(i, x) with CPython's index normalisation *)
Fixpoint pop_at (l : list nat) (i : nat) : list nat :=
  match l, i with [], _ => [] | _ :: r, O => r | y :: r, S i' => y :: pop_at r i' end.
Fixpoint insert_at (l : list nat) (i : nat) (x : nat) : list nat :=
  match l, i with
  | _, O => x :: l
  | [], _ => [x]
  | y :: r, S i' => y :: insert_at r i' x
  end.
Definition py_insert (l : list nat) (i : Z) (x : nat) : list nat :=
  let n := Z.of_nat (length l) in
  let j := if i <? 0 then Z.max 0 (i + n) else Z.min i n in
  insert_at l (Z.to_nat j) x.

Definition u_move (u : unique) (item : nat) (new_index : Z) : res unique :=
  match list_index item (u_items u) 0 with
  | None => Raise ValueError
  | Some idx =>
      if Z.of_nat idx =? new_index then Ok u
      else Ok (mkU (u_seen u) (py_insert (pop_at (u_items u) idx) new_index item))
  end.

(** MutableSet.__ior__ / __iand__ *)
Definition u_ior (u : unique) (l : list nat) : unique := fold_left u_add l u.
Definition u_iand (u : unique) (other : list nat) : unique :=
  fold_left u_discard (filter (fun x => negb (memn x other)) (u_items u)) u.

Definition u_copy (u : unique) : unique := u.

(** * definitions.Definition *)
Record defn := mkD { d_objs : unique; d_props : unique; d_pairs : list (nat * nat) }.

Definition objects_of (d : defn) : list nat := u_items (d_objs d).
Definition properties_of (d : defn) : list nat := u_items (d_props d).
Definition bools_of (d : defn) : list (list bool) :=
  map (fun o => map (fun p => memp (o, p) (d_pairs d)) (properties_of d)) (objects_of d).

(** Triple.__init__ (zip truncates silently) *)
Fixpoint zip_pairs (objs : list nat) (props : list nat) (bools : list (list bool)) : list (nat * nat) :=
  match objs, bools with
  | o :: objs', row :: bools' =>
      map (fun pb => (o, fst pb)) (filter (fun pb : nat * bool => snd pb) (combine props row)) ++ zip_pairs objs' props bools'
  | _, _ => []
  end.
Definition dedup_pairs (l : list (nat * nat)) : list (nat * nat) := fold_left (fun acc x => addp x acc) l [].

Definition d_init (objs props : list nat) (bools : list (list bool)) : res defn :=
  let uo := u_new objs in
  if negb (Nat.eqb (length (u_items uo)) (length objs)) then Raise ValueError
  else let up := u_new props in
       if negb (Nat.eqb (length (u_items up)) (length props)) then Raise ValueError
       else Ok (mkD uo up (dedup_pairs (zip_pairs objs props bools))).

(** Set.__eq__ on Unique: len equal and every item of self contained in other (by _seen) *)
Definition u_eq (a b : unique) : bool :=
  Nat.eqb (length (u_items a)) (length (u_items b)) && forallb (fun x => memn x (u_seen b)) (u_items a).
Definition pairs_eq (a b : list (nat * nat)) : bool :=
  forallb (fun x => memp x b) a && forallb (fun x => memp x a) b.
Definition d_eq (a b : defn) : bool :=
  u_eq (d_objs a) (d_objs b) && u_eq (d_props a) (d_props b) && pairs_eq (d_pairs a) (d_pairs b).

(** d == Definition( *d) *)
Definition eq_fresh (d : defn) : bool :=
  match d_init (objects_of d) (properties_of d) (bools_of d) with
  | Ok f => d_eq d f
  | Raise _ => false
  end.

(** ** mutators *)
Definition d_setitem (d : defn) (o p : nat) (v : bool) : defn :=
  mkD (u_add (d_objs d) o) (u_add (d_props d) p)
      (if v then addp (o, p) (d_pairs d) else removep (o, p) (d_pairs d)).

Definition d_rename_object (d : defn) (old new : nat) : res defn :=
  do uo <- u_replace (d_objs d) old new ;;
  let moved := filter (fun p => memp (old, p) (d_pairs d)) (properties_of d) in
  let pairs := fold_left (fun acc p => removep (old, p) acc) moved (d_pairs d) in
  Ok (mkD uo (d_props d) (fold_left (fun acc p => addp (new, p) acc) moved pairs)).

Definition d_rename_property (d : defn) (old new : nat) : res defn :=
  do up <- u_replace (d_props d) old new ;;
  let moved := filter (fun o => memp (o, old) (d_pairs d)) (objects_of d) in
  let pairs := fold_left (fun acc o => removep (o, old) acc) moved (d_pairs d) in
  Ok (mkD (d_objs d) up (fold_left (fun acc o => addp (o, new) acc) moved pairs)).

Definition d_move_object (d : defn) (o : nat) (i : Z) : res defn :=
  do uo <- u_move (d_objs d) o i ;; Ok (mkD uo (d_props d) (d_pairs d)).
Definition d_move_property (d : defn) (p : nat) (i : Z) : res defn :=
  do up <- u_move (d_props d) p i ;; Ok (mkD (d_objs d) up (d_pairs d)).

Definition d_add_object (d : defn) (o : nat) (ps : list nat) : defn :=
  mkD (u_add (d_objs d) o) (u_ior (d_props d) ps)
      (fold_left (fun acc p => addp (o, p) acc) ps (d_pairs d)).
Definition d_add_property (d : defn) (p : nat) (os : list nat) : defn :=
  mkD (u_ior (d_objs d) os) (u_add (d_props d) p)
      (fold_left (fun acc o => addp (o, p) acc) os (d_pairs d)).

Definition d_remove_object (d : defn) (o : nat) : res defn :=
  do uo <- u_remove (d_objs d) o ;;
  Ok (mkD uo (d_props d) (fold_left (fun acc p => removep (o, p) acc) (properties_of d) (d_pairs d))).
Definition d_remove_property (d : defn) (p : nat) : res defn :=
  do up <- u_remove (d_props d) p ;;
  Ok (mkD (d_objs d) up (fold_left (fun acc o => removep (o, p) acc) (objects_of d) (d_pairs d))).

Definition d_remove_empty_objects (d : defn) : res (defn * list nat) :=
  let empty := filter (fun o => negb (existsb (fun pr => Nat.eqb (fst pr) o) (d_pairs d))) (objects_of d) in
  do uo <- for_fold u_remove empty (d_objs d) ;;
  Ok (mkD uo (d_props d) (d_pairs d), empty).
Definition d_remove_empty_properties (d : defn) : res (defn * list nat) :=
  let empty := filter (fun p => negb (existsb (fun pr => Nat.eqb (snd pr) p) (d_pairs d))) (properties_of d) in
  do up <- for_fold u_remove empty (d_props d) ;;
  Ok (mkD (d_objs d) up (d_pairs d), empty).

Definition d_set_object (d : defn) (o : nat) (ps : list nat) : defn :=
  let uo := u_add (d_objs d) o in
  let given := u_new ps in
  let up := u_ior (d_props d) (u_items given) in
  mkD uo up
      (fold_left (fun acc p => if u_contains given p then addp (o, p) acc else removep (o, p) acc)
                 (u_items up) (d_pairs d)).
Definition d_set_property (d : defn) (p : nat) (os : list nat) : defn :=
  let up := u_add (d_props d) p in
  let given := u_new os in
  let uo := u_ior (d_objs d) (u_items given) in
  mkD uo up
      (fold_left (fun acc o => if u_contains given o then addp (o, p) acc else removep (o, p) acc)
                 (u_items uo) (d_pairs d)).

(** conflicting_pairs: common objects x common properties (iterating the right operand's
    order, as Set.__and__ does) where exactly one side has the pair *)
Definition conflicts (l r : defn) : list (nat * nat) :=
  let objs := filter (fun o => u_contains (d_objs l) o) (objects_of r) in
  let props := filter (fun p => u_contains (d_props l) p) (properties_of r) in
  flat_map (fun o => flat_map (fun p => if xorb (memp (o, p) (d_pairs l)) (memp (o, p) (d_pairs r))
                                        then [(o, p)] else []) props) objs.

Definition d_union_update (d other : defn) (ignore : bool) : res defn :=
  if negb ignore && negb (match conflicts d other with [] => true | _ => false end) then Raise ValueError
  else Ok (mkD (u_ior (d_objs d) (objects_of other)) (u_ior (d_props d) (properties_of other))
               (fold_left (fun acc x => addp x acc) (d_pairs other) (d_pairs d))).

Definition d_intersection_update (d other : defn) (ignore : bool) : res defn :=
  if negb ignore && negb (match conflicts d other with [] => true | _ => false end) then Raise ValueError
  else Ok (mkD (u_iand (d_objs d) (u_seen (d_objs other))) (u_iand (d_props d) (u_seen (d_props other)))
               (filter (fun x => memp x (d_pairs other)) (d_pairs d))).

(** ** derived definitions *)
Definition d_copy (d : defn) : defn := d.
Definition d_transposed (d : defn) : defn :=
  mkD (d_props d) (d_objs d) (map (fun x => (snd x, fst x)) (d_pairs d)).
Definition d_inverted (d : defn) : defn :=
  mkD (d_objs d) (d_props d)
      (flat_map (fun o => flat_map (fun p => if memp (o, p) (d_pairs d) then [] else [(o, p)]) (properties_of d))
                (objects_of d)).

Definition rsub (u : unique) (l : list nat) : list nat :=
  u_items (u_new (filter (fun x => negb (u_contains u x)) l)).

Definition d_take (d : defn) (objs props : option (list nat)) (reorder : bool) : res defn :=
  let bad_o := match objs with Some (x :: r) => negb (forallb (u_contains (d_objs d)) (x :: r)) | _ => false end in
  let bad_p := match props with Some (x :: r) => negb (forallb (u_contains (d_props d)) (x :: r)) | _ => false end in
  if bad_o || bad_p then Raise KeyError
  else
    let obj := if reorder then match objs with Some l => u_new l | None => d_objs d end
               else match objs with Some l => u_iand (d_objs d) l | None => d_objs d end in
    let prop := if reorder then match props with Some l => u_new l | None => d_props d end
                else match props with Some l => u_iand (d_props d) l | None => d_props d end in
    Ok (mkD obj prop
            (flat_map (fun o => flat_map (fun p => if memp (o, p) (d_pairs d) then [(o, p)] else []) (u_items prop))
                      (u_items obj))).

(** * the machine *)
Inductive op :=
| OSetItem (h o p : nat) (v : bool)
| OSetItemInt (h : nat)
| ORenameObject (h old new : nat) | ORenameProperty (h old new : nat)
| OMoveObject (h o : nat) (i : Z) | OMoveProperty (h p : nat) (i : Z)
| OAddObject (h o : nat) (ps : list nat) | OAddProperty (h p : nat) (os : list nat)
| ORemoveObject (h o : nat) | ORemoveProperty (h p : nat)
| ORemoveEmptyObjects (h : nat) | ORemoveEmptyProperties (h : nat)
| OSetObject (h o : nat) (ps : list nat) | OSetProperty (h p : nat) (os : list nat)
| OUnionUpdate (h other : nat) (ignore : bool) | OIntersectionUpdate (h other : nat) (ignore : bool)
| DCopy (h : nat) | DTransposed (h : nat) | DInverted (h : nat)
| DUnion (h other : nat) (ignore : bool) | DIntersection (h other : nat) (ignore : bool)
| DTake (h : nat) (objs props : option (list nat)) (reorder : bool)
| DRebuild (h : nat)      (* Definition( *d), also Context( *d).definition() *)
| DNew (objs props : list nat) (bools : list (list bool)).

Inductive ret := RNone | RNames (l : list nat) | RHandle (h : nat).

Definition store := list defn.

Definition get (s : store) (h : nat) : res defn :=
  match nth_error s h with Some d => Ok d | None => Raise IndexError end.
Fixpoint put (s : store) (h : nat) (d : defn) : store :=
  match s, h with
  | [], _ => []
  | _ :: r, O => d :: r
  | x :: r, S h' => x :: put r h' d
  end.

Definition upd (s : store) (h : nat) (r : res defn) : res (store * ret) :=
  do d <- r ;; Ok (put s h d, RNone).
Definition derive (s : store) (r : res defn) : res (store * ret) :=
  do d <- r ;; Ok (s ++ [d], RHandle (length s)).

Definition step (s : store) (o : op) : res (store * ret) :=
  match o with
  | OSetItem h o p v => do d <- get s h ;; upd s h (Ok (d_setitem d o p v))
  | OSetItemInt h => Raise ValueError
  | ORenameObject h a b => do d <- get s h ;; upd s h (d_rename_object d a b)
  | ORenameProperty h a b => do d <- get s h ;; upd s h (d_rename_property d a b)
  | OMoveObject h x i => do d <- get s h ;; upd s h (d_move_object d x i)
  | OMoveProperty h x i => do d <- get s h ;; upd s h (d_move_property d x i)
  | OAddObject h x l => do d <- get s h ;; upd s h (Ok (d_add_object d x l))
  | OAddProperty h x l => do d <- get s h ;; upd s h (Ok (d_add_property d x l))
  | ORemoveObject h x => do d <- get s h ;; upd s h (d_remove_object d x)
  | ORemoveProperty h x => do d <- get s h ;; upd s h (d_remove_property d x)
  | ORemoveEmptyObjects h => do d <- get s h ;; do '(d', l) <- d_remove_empty_objects d ;; Ok (put s h d', RNames l)
  | ORemoveEmptyProperties h => do d <- get s h ;; do '(d', l) <- d_remove_empty_properties d ;; Ok (put s h d', RNames l)
  | OSetObject h x l => do d <- get s h ;; upd s h (Ok (d_set_object d x l))
  | OSetProperty h x l => do d <- get s h ;; upd s h (Ok (d_set_property d x l))
  | OUnionUpdate h k ig => do d <- get s h ;; do e <- get s k ;; upd s h (d_union_update d e ig)
  | OIntersectionUpdate h k ig => do d <- get s h ;; do e <- get s k ;; upd s h (d_intersection_update d e ig)
  | DCopy h => do d <- get s h ;; derive s (Ok (d_copy d))
  | DTransposed h => do d <- get s h ;; derive s (Ok (d_transposed d))
  | DInverted h => do d <- get s h ;; derive s (Ok (d_inverted d))
  | DUnion h k ig => do d <- get s h ;; do e <- get s k ;; derive s (d_union_update (d_copy d) e ig)
  | DIntersection h k ig => do d <- get s h ;; do e <- get s k ;; derive s (d_intersection_update (d_copy d) e ig)
  | DTake h os ps re => do d <- get s h ;; derive s (d_take d os ps re)
  | DRebuild h => do d <- get s h ;; derive s (d_init (objects_of d) (properties_of d) (bools_of d))
  | DNew os ps bs => derive s (d_init os ps bs)
  end.

(** a rejected call leaves the store unchanged *)
Definition step_total (s : store) (o : op) : store * res ret :=
  match step s o with
  | Ok (s', r) => (s', Ok r)
  | Raise e => (s, Raise e)
  end.
