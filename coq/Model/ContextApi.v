(** Model of the Context query API over indices (labels live in the harness):
    bitsets.frommembers / members, Context.intension / extension / __getitem__. *)
From Coq Require Import ZArith List Bool.
From Concepts Require Import Base.Res Base.PyInt Base.BitSet Spec.FCA Spec.Context Model.Matrices.
Import ListNotations.
Open Scope Z_scope.

(** bitsets: [frommembers] = sum of the atoms of [set(members)], KeyError on an unknown
    member (an index >= n plays the unknown label). The sum of distinct atoms is modelled
    as their bitwise or. *)
Definition frommembers (n : nat) (ms : list nat) : res Z :=
  if forallb (fun i => (i <? n)%nat) ms then Ok (of_list ms) else Raise KeyError.

(** bitsets: [members()] / [iter_set()] list the positions of the 1 bits, ascending *)
Fixpoint idx_pos (p : positive) (k : nat) : list nat :=
  match p with
  | xH => [k]
  | xO q => idx_pos q (S k)
  | xI q => k :: idx_pos q (S k)
  end.
Definition indexes (s : Z) : list nat := match s with Z.pos p => idx_pos p 0 | _ => [] end.

(** Relation.__new__: row vectors as given, column vectors by transposition *)
Record mctx := mkM { mc : ctx; mcols : list Z }.
Definition relation_new (c : ctx) : mctx := mkM c (cols c).

Definition objects_prime (fuel : nat) (k : mctx) (A : Z) : res Z :=
  prime fuel (rows (mc k)) (ones (nM (mc k))) A.
Definition properties_prime (fuel : nat) (k : mctx) (B : Z) : res Z :=
  prime fuel (mcols k) (ones (nG (mc k))) B.
Definition objects_double (fuel : nat) (k : mctx) (A : Z) : res Z :=
  double fuel (mcols k) (rows (mc k)) (ones (nM (mc k))) (ones (nG (mc k))) A.
Definition properties_double (fuel : nat) (k : mctx) (B : Z) : res Z :=
  double fuel (rows (mc k)) (mcols k) (ones (nG (mc k))) (ones (nM (mc k))) B.
Definition objects_doubleprime (fuel : nat) (k : mctx) (A : Z) : res (Z * Z) :=
  doubleprime fuel (mcols k) (rows (mc k)) (ones (nM (mc k))) (ones (nG (mc k))) A.
Definition properties_doubleprime (fuel : nat) (k : mctx) (B : Z) : res (Z * Z) :=
  doubleprime fuel (rows (mc k)) (mcols k) (ones (nG (mc k))) (ones (nM (mc k))) B.

Definition intension_raw (fuel : nat) (k : mctx) (gs : list nat) : res Z :=
  do A <- frommembers (nG (mc k)) gs ;; objects_prime fuel k A.
Definition extension_raw (fuel : nat) (k : mctx) (ms : list nat) : res Z :=
  do B <- frommembers (nM (mc k)) ms ;; properties_prime fuel k B.
Definition intension (fuel : nat) (k : mctx) (gs : list nat) : res (list nat) :=
  do B <- intension_raw fuel k gs ;; Ok (indexes B).
Definition extension (fuel : nat) (k : mctx) (ms : list nat) : res (list nat) :=
  do A <- extension_raw fuel k ms ;; Ok (indexes A).

(** Context.__getitem__: items are object labels, or else property labels.  Object and
    property labels are disjoint; an item is [inl g] (object) or [inr m] (property) or an
    unknown label (index out of range on either side). *)
Definition getitem_raw (fuel : nat) (k : mctx) (items : list (nat + nat)) : res (Z * Z) :=
  let as_objects := forallb (fun it => match it with inl g => (g <? nG (mc k))%nat | inr _ => false end) items in
  if as_objects then
    objects_doubleprime fuel k (of_list (map (fun it => match it with inl g => g | inr m => m end) items))
  else
    let as_props := forallb (fun it => match it with inr m => (m <? nM (mc k))%nat | inl _ => false end) items in
    if as_props then
      do '(intent, extent) <- properties_doubleprime fuel k
            (of_list (map (fun it => match it with inl g => g | inr m => m end) items)) ;;
      Ok (extent, intent)
    else Raise KeyError.

(** Context.bools / Vectors.bools: membership of every atom *)
Definition bools_of (n : nat) (v : Z) : list bool :=
  map (fun j => truthy (Z.land v (bit j))) (seq 0 n).
Definition context_bools (k : mctx) : list (list bool) := map (bools_of (nM (mc k))) (rows (mc k)).
