(* Model of the kernels: the translator's output on the pinned tree (tools/py2v.py).
   Tie/Members.v proves by reflexivity that the regenerated translation is still this model. *)
From Coq Require Import ZArith List Bool.
From Concepts Require Import Base.Res Base.PyInt.
Import ListNotations.
Open Scope Z_scope.


Definition implies (self_extent : Z) (other_extent : Z) (sup_extent : Z) : res (bool) :=
Ok ((Z.land self_extent other_extent) =? self_extent).

Definition subsumes (self_extent : Z) (other_extent : Z) (sup_extent : Z) : res (bool) :=
Ok ((Z.lor self_extent other_extent) =? self_extent).

Definition properly_implies (self_extent : Z) (other_extent : Z) (sup_extent : Z) : res (bool) :=
Ok (((Z.land self_extent other_extent) =? self_extent) && (negb (self_extent =? other_extent))).

Definition properly_subsumes (self_extent : Z) (other_extent : Z) (sup_extent : Z) : res (bool) :=
Ok (((Z.lor self_extent other_extent) =? self_extent) && (negb (self_extent =? other_extent))).

Definition incompatible_with (self_extent : Z) (other_extent : Z) (sup_extent : Z) : res (bool) :=
Ok (negb (truthy (Z.land self_extent other_extent))).

Definition complement_of (self_extent : Z) (other_extent : Z) (sup_extent : Z) : res (bool) :=
Ok ((negb (truthy (Z.land self_extent other_extent))) && ((Z.lor self_extent other_extent) =? sup_extent)).

Definition subcontrary_with (self_extent : Z) (other_extent : Z) (sup_extent : Z) : res (bool) :=
Ok ((truthy (Z.land self_extent other_extent)) && ((Z.lor self_extent other_extent) =? sup_extent)).

Definition orthogonal_to (self_extent : Z) (other_extent : Z) (sup_extent : Z) : res (bool) :=
let meet := (Z.land self_extent other_extent) in
Ok ((negb (negb (truthy meet))) && (negb (meet =? self_extent)) && (negb (meet =? other_extent)) && (negb ((Z.lor self_extent other_extent) =? sup_extent))).

Definition join (double_ext : Z -> res Z) (mapping_get : Z -> res nat) (self_extent : Z) (other_extent : Z) : res (nat) :=
let common := (Z.lor self_extent other_extent) in
do t1 <- (double_ext common) ;;
let extent := t1 in
do t2 <- (mapping_get extent) ;;
Ok t2.

Definition meet (double_ext : Z -> res Z) (mapping_get : Z -> res nat) (self_extent : Z) (other_extent : Z) : res (nat) :=
let common := (Z.land self_extent other_extent) in
do t1 <- (double_ext common) ;;
let extent := t1 in
do t2 <- (mapping_get extent) ;;
Ok t2.
