(* Model of the kernels: the translator's output on the pinned tree (tools/py2v.py).
   Tie/Lindig.v proves by reflexivity that the regenerated translation is still this model. *)
From Coq Require Import ZArith List Bool.
From Concepts Require Import Base.Res Base.PyInt.
Import ListNotations.
Open Scope Z_scope.


Definition neighbors (doubleprime_ext : Z -> res (Z * Z)) (atomic : Z -> list Z) (objects : Z) : res (list (Z * Z)) :=
let out := [] in
let minimal := (Z.lnot objects) in
do '(minimal, out) <- for_fold
(fun '(minimal, out) add =>
let objects_and_add := (Z.lor objects add) in
do t1 <- (doubleprime_ext objects_and_add) ;;
let '(extent, intent) := t1 in
do '(minimal, out) <- (if (truthy (Z.land (Z.land extent (Z.lnot objects_and_add)) minimal)) then
let minimal := (Z.land minimal (Z.lnot add)) in
Ok (minimal, out)
else
let out := out ++ [(extent, intent)] in
Ok (minimal, out)) ;;
Ok (minimal, out))
(atomic minimal) (minimal, out) ;;
Ok out.
