(** C16 — relations() classifies each pair of contingent properties once and correctly.
    The docstring tables are regenerated from the source on every run (Tie/Junctors.v). *)
From Coq Require Import ZArith List Bool Sorted Permutation.
From Concepts Require Import Base.Res Base.PyInt Base.BitSet Spec.Context Model.JunctorsTables Model.Lattice
  Model.Junctors Proofs.Junctors.
Import ListNotations.
Open Scope Z_scope.

(** for any two contingent columns exactly one row of the binary table matches the set of
    occurring (left, right) combinations: the kind is defined and unique *)
Theorem C16_table_total_exclusive : forall lb rb, length lb = length rb -> contingent lb -> contingent rb ->
  length (matching_rows (combine lb rb)) = 1%nat.
Proof. exact table_total_exclusive. Qed.

Theorem C16_unary_table_total_exclusive : forall vals, vals <> [] -> length (matching_unary vals) = 1%nat.
Proof. exact unary_total_exclusive. Qed.

(** binary entries range over the unordered pairs, earlier property first, each once *)
Theorem C16_entries_are_pairs_of_contingent : forall (A : Type) (l : list A) x y,
  In (x, y) (combinations2 l) <-> exists l1 l2 l3, l = l1 ++ x :: l2 ++ y :: l3.
Proof. exact @In_combinations2. Qed.

(** the result is a permutation of the entries, weakly sorted by the documented rank (the
    insertion sort of the model is stable) *)
Theorem C16_sorted_by_rank : forall (A : Type) (kf : A -> key) l,
  Permutation (sort_by kf l) l /\ StronglySorted (fun a b => key_le (kf a) (kf b)) (sort_by kf l).
Proof. intros A kf l. split; [apply sort_by_perm|apply sort_by_sorted]. Qed.

(** implication rows exclude "left true, right false"; replication rows exclude "left false,
    right true" and are swapped by the code: implications go from the narrower to the wider *)
Theorem C16_implication_orientation :
  (~ In (true, false) (pattern_of_kind kind_implication) /\ ~ In (false, true) (pattern_of_kind kind_replication))
  /\ (forall pattern vals, same_set pair_bool_eqb pattern vals = true -> ~ In (true, false) pattern ->
        forall l r, In (l, r) vals -> l = true -> r = true).
Proof. split; [exact implication_pattern|exact same_set_no_tf]. Qed.

Example C16_witness :
  relations 3 [1; 5; 6] false =
  Ok [([99; 111; 109; 112; 108; 101; 109; 101; 110; 116], 0%nat, Some 2%nat, 2);
      (kind_implication, 0%nat, Some 1%nat, 4);
      ([115; 117; 98; 99; 111; 110; 116; 114; 97; 114; 121], 1%nat, Some 2%nat, 6)].
Proof. vm_compute. reflexivity. Qed.

(** * End-to-end specification of [relations] (Proofs/Relations.v).
    The mathematical classification ([occurs], [has], [contingent_col], [kind_of], [ukind_of]) is defined
    independently of the docstring tables; kinds are stated through the inductives [bkind]/[ukind] with
    [bkind_name]/[ukind_name] (kind-name strings of the tables) and [bkind_order]/[ukind_order] (ranks).
    Printing ([tostring], also of the empty result) is not modelled in Coq; the harness exercises it. *)
From Concepts Require Import Proofs.Relations.

(** never a KeyError, for any columns over at least one object *)
Theorem C16_relations_total : forall nG cols u, (1 <= nG)%nat -> exists l, relations nG cols u = Ok l.
Proof. exact relations_total. Qed.

(** without include_unary: the stable sort, by rank, of one entry per pair i < j of contingent properties,
    whose kind is the unique one determined by the occurring combinations; a "replication" i <- j is
    reported as the implication j -> i ([entry_of_kind]) *)
Theorem C16_relations_binary_spec : forall nG cols, (1 <= nG)%nat ->
  exists result, relations nG cols false = Ok result /\
    result = sort_by okey (map (binary_entry nG cols) (combinations2 (contingent_indices nG cols))) /\
    Permutation result (map (binary_entry nG cols) (combinations2 (contingent_indices nG cols))) /\
    sorted_by_rank result /\
    (forall key, filter (fun e => key_eqb (okey e) key) result =
                 filter (fun e => key_eqb (okey e) key) (map (binary_entry nG cols) (combinations2 (contingent_indices nG cols)))) /\
    StronglySorted lt (contingent_indices nG cols) /\
    (forall i, In i (contingent_indices nG cols) <-> (i < length cols)%nat /\ contingent_col nG (colat cols i)) /\
    (forall i j, In (i, j) (combinations2 (contingent_indices nG cols)) <->
       (i < j < length cols)%nat /\ contingent_col nG (colat cols i) /\ contingent_col nG (colat cols j)) /\
    NoDup (combinations2 (contingent_indices nG cols)) /\
    (forall i j k, contingent_col nG (colat cols i) -> contingent_col nG (colat cols j) ->
       kind_of nG (colat cols i) (colat cols j) k -> binary_entry nG cols (i, j) = entry_of_kind k i j) /\
    (forall i j, contingent_col nG (colat cols i) -> contingent_col nG (colat cols j) ->
       exists k, kind_of nG (colat cols i) (colat cols j) k /\ forall k', kind_of nG (colat cols i) (colat cols j) k' -> k' = k).
Proof. exact relations_binary_spec. Qed.

(** with include_unary: additionally one unary entry per property (all of them, in order, before sorting),
    of the unique kind tautology / contradiction / contingency of its column *)
Theorem C16_relations_unary_spec : forall nG cols, (1 <= nG)%nat ->
  exists result, relations nG cols true = Ok result /\
    result = sort_by okey (map (unary_entry nG cols) (seq 0 (length cols)) ++
                           map (binary_entry nG cols) (combinations2 (contingent_indices nG cols))) /\
    Permutation result (map (unary_entry nG cols) (seq 0 (length cols)) ++
                        map (binary_entry nG cols) (combinations2 (contingent_indices nG cols))) /\
    sorted_by_rank result /\
    (forall key, filter (fun e => key_eqb (okey e) key) result =
                 filter (fun e => key_eqb (okey e) key)
                   (map (unary_entry nG cols) (seq 0 (length cols)) ++
                    map (binary_entry nG cols) (combinations2 (contingent_indices nG cols)))) /\
    (forall i k, ukind_of nG (colat cols i) k -> unary_entry nG cols i = (ukind_name k, i, None, ukind_order k)) /\
    (forall i, exists k, ukind_of nG (colat cols i) k /\ forall k', ukind_of nG (colat cols i) k' -> k' = k) /\
    (forall j, (j < length cols)%nat -> length (filter (unary_of j) result) = 1%nat).
Proof. exact relations_unary_spec. Qed.

(** a binary entry relates two distinct contingent properties: none involves a universal or empty one *)
Theorem C16_binary_entry_contingent : forall nG cols u result k l r o, (1 <= nG)%nat -> relations nG cols u = Ok result ->
  In (k, l, Some r, o) result ->
  l <> r /\ (l < length cols)%nat /\ (r < length cols)%nat /\
  contingent_col nG (colat cols l) /\ contingent_col nG (colat cols r).
Proof. exact binary_entry_contingent. Qed.

Theorem C16_no_entry_for_constant : forall nG cols u result k l r o, (1 <= nG)%nat -> relations nG cols u = Ok result ->
  (universal_col nG (colat cols l) \/ empty_col nG (colat cols l) \/
   universal_col nG (colat cols r) \/ empty_col nG (colat cols r)) ->
  ~ In (k, l, Some r, o) result.
Proof. exact no_entry_for_constant. Qed.

(** exactly one entry mentions the unordered pair {i, j} of contingent properties; none any other pair *)
Theorem C16_pair_once : forall nG cols u result i j, (1 <= nG)%nat -> relations nG cols u = Ok result ->
  (i < j < length cols)%nat -> contingent_col nG (colat cols i) -> contingent_col nG (colat cols j) ->
  length (filter (mentions i j) result) = 1%nat.
Proof. exact pair_once. Qed.

Theorem C16_pair_none : forall nG cols u result i j, (1 <= nG)%nat -> relations nG cols u = Ok result ->
  ~ (i <> j /\ (i < length cols)%nat /\ (j < length cols)%nat /\ contingent_col nG (colat cols i) /\ contingent_col nG (colat cols j)) ->
  filter (mentions i j) result = [].
Proof. exact pair_none. Qed.

(** an entry of kind implication goes from a strictly narrower to a strictly wider property, and every strict
    inclusion between contingent properties is reported so *)
Theorem C16_implication_narrower_to_wider : forall nG cols u result l r o, (1 <= nG)%nat -> Forall (in_range nG) cols ->
  relations nG cols u = Ok result -> In (kind_implication, l, Some r, o) result ->
  psubset (colat cols l) (colat cols r).
Proof. exact implication_narrower_to_wider. Qed.

Theorem C16_psubset_reported : forall nG cols u result l r, (1 <= nG)%nat -> Forall (in_range nG) cols ->
  relations nG cols u = Ok result -> (l < length cols)%nat -> (r < length cols)%nat ->
  contingent_col nG (colat cols l) -> contingent_col nG (colat cols r) ->
  psubset (colat cols l) (colat cols r) ->
  In (kind_implication, l, Some r, bkind_order Implication) result.
Proof. exact psubset_reported. Qed.

(** for a context: occurrences are stated through the incidence relation [inc c g i] / [inc c g j] *)
Theorem C16_context_relations : forall c u, (1 <= nG c)%nat ->
  exists result, relations (nG c) (cols c) u = Ok result /\
    result = sort_by okey (members (nG c) (cols c) u) /\
    sorted_by_rank result /\
    (forall k l r o, In (k, l, Some r, o) result <->
       exists i j bk, (i < j < nM c)%nat /\ contingent_ctx c i /\ contingent_ctx c j /\
                      kind_of_ctx c i j bk /\ (k, l, Some r, o) = entry_of_kind bk i j) /\
    (forall i j, (i < j < nM c)%nat -> contingent_ctx c i -> contingent_ctx c j ->
       length (filter (mentions i j) result) = 1%nat) /\
    (forall i j, ~ (i <> j /\ (i < nM c)%nat /\ (j < nM c)%nat /\ contingent_ctx c i /\ contingent_ctx c j) ->
       filter (mentions i j) result = []) /\
    (forall k l o, In (k, l, None, o) result <->
       u = true /\ exists uk, (l < nM c)%nat /\ ukind_of_ctx c l uk /\ k = ukind_name uk /\ o = ukind_order uk) /\
    (u = true -> forall j, (j < nM c)%nat -> length (filter (unary_of j) result) = 1%nat) /\
    (forall l r o, In (kind_implication, l, Some r, o) result ->
       psubset (col c l) (col c r) /\
       (forall g, (g < nG c)%nat -> inc c g l = true -> inc c g r = true) /\
       (exists g, (g < nG c)%nat /\ inc c g l = false /\ inc c g r = true)).
Proof. exact context_relations. Qed.
