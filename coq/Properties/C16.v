(** C16 — relations() classifies each pair of contingent properties once and correctly.
    The docstring tables are regenerated from the source on every run (Tie/Junctors.v). *)
From Coq Require Import ZArith List Bool Sorted Permutation.
From Concepts Require Import Base.Res Base.PyInt Base.BitSet Spec.Context Model.JunctorsTables Model.Lattice
  Model.Junctors Proofs.Junctors.
Import ListNotations.
Open Scope Z_scope.

(** for any two contingent columns exactly one row of the binary table matches the set of
    occurring (left, right) combinations: the kind is defined and unique *)
Theorem C16_table_total_exclusive : forall lb rb, length lb = length rb -> contingent lb -> contingent rb ->
  length (matching_rows (combine lb rb)) = 1%nat.
Proof. exact table_total_exclusive. Qed.

Theorem C16_unary_table_total_exclusive : forall vals, vals <> [] -> length (matching_unary vals) = 1%nat.
Proof. exact unary_total_exclusive. Qed.

(** binary entries range over the unordered pairs, earlier property first, each once *)
Theorem C16_entries_are_pairs_of_contingent : forall (A : Type) (l : list A) x y,
  In (x, y) (combinations2 l) <-> exists l1 l2 l3, l = l1 ++ x :: l2 ++ y :: l3.
Proof. exact @In_combinations2. Qed.

(** the result is a permutation of the entries, weakly sorted by the documented rank (the
    insertion sort of the model is stable) *)
Theorem C16_sorted_by_rank : forall (A : Type) (kf : A -> key) l,
  Permutation (sort_by kf l) l /\ StronglySorted (fun a b => key_le (kf a) (kf b)) (sort_by kf l).
Proof. intros A kf l. split; [apply sort_by_perm|apply sort_by_sorted]. Qed.

(** implication rows exclude "left true, right false"; replication rows exclude "left false,
    right true" and are swapped by the code: implications go from the narrower to the wider *)
Theorem C16_implication_orientation :
  (~ In (true, false) (pattern_of_kind kind_implication) /\ ~ In (false, true) (pattern_of_kind kind_replication))
  /\ (forall pattern vals, same_set pair_bool_eqb pattern vals = true -> ~ In (true, false) pattern ->
        forall l r, In (l, r) vals -> l = true -> r = true).
Proof. split; [exact implication_pattern|exact same_set_no_tf]. Qed.

Example C16_witness :
  relations 3 [1; 5; 6] false =
  Ok [([99; 111; 109; 112; 108; 101; 109; 101; 110; 116], 0%nat, Some 2%nat, 2);
      (kind_implication, 0%nat, Some 1%nat, 4);
      ([115; 117; 98; 99; 111; 110; 116; 114; 97; 114; 121], 1%nat, Some 2%nat, 6)].
Proof. vm_compute. reflexivity. Qed.
