(** C14 — Derived definitions are correct and unaliased; Context <-> Definition are inverse.

    "copy, union, intersection, take, transposed and inverted return the mathematically expected
    table (cell-wise or/and with conflict detection on shared cells unless ignored, sub-table in
    original or requested order, swap of axes, complement of cells; transposed and inverted are
    involutions) as a new definition that shares no mutable state with its sources: editing either
    side afterwards never changes the other.  Context( *definition) followed by .definition() gives
    back an equal definition and vice versa, two contexts are equal exactly when their triples are
    equal, and shape, fill_ratio, table string and crc32 agree between a context and its definition."

    What is proved here.  The derivations are the operations [DCopy], [DUnion], [DIntersection],
    [DTake], [DTransposed], [DInverted], [DRebuild] of the machine of Model/Definition.v (vocabulary:
    see the header of Properties/C13.v).  A derivation appends the new definition to the store and
    returns its handle; the theorems give its (objects, properties, cells) in terms of the source(s).
    [DRebuild h] is Definition( *d), which is also what Context( *d).definition() returns: the
    definition rebuilt from the (objects, properties, bools) triple alone.
    Non-interference: the store model has value semantics, every operation touches exactly one
    position ([C14_derive_keeps_existing_handles], [C14_inplace_keeps_other_handles]); the
    correspondence check observes EVERY live handle of the real objects after every step, so state
    shared between a source and a derived object in the code would show up as a disagreement with
    the model, for which the theorems below exclude any influence.

    Context <-> Definition (second half of this file, Proofs/ContextDefinition.v): the Context
    constructor is [context_init] of Model/Validation.v (property C19); [C14_definition_to_context],
    [C14_context_to_definition], [C14_round_trip_definition], [C14_round_trip_context] and
    [C14_context_eq_iff_triples] state the two round trips and "equal exactly when the triples are
    equal" on the model.

    shape and fill_ratio (last part of this file, Model/Stats.v, Proofs/Stats.v): [C14_shape_fill_ratio_agree],
    [C14_shape_fill_ratio_agree_back]; the fraction is in lowest terms and counts exactly the true cells.

    NOT modelled here.
    - the table string and crc32 are functions of the triple (the table text is Model/Formats.v of C12); their agreement
      between a context and its definition is checked by the harness on the real objects. *)
From Coq Require Import ZArith List Bool.
From Concepts Require Import Base.Res Model.Definition Spec.DefSpec
  Proofs.DefUnique Proofs.Definition Proofs.DefFacts Proofs.DefOrder Proofs.AssembleDef.
Import ListNotations.

(** * derivations refine the plain model *)

(** general form: the new definition is appended, its handle returned, and its triple is that of
    the plain model's result *)
Theorem C14_derive_refines : forall s o h d s' r,
  Forall Inv s -> op_handle o = Some h -> nth_error s h = Some d -> is_derive o = true ->
  step s o = Ok (s', r) ->
  exists a' d', sstep1 (abs d) o (option_map abs (other_of s o)) = Ok (a', RNone) /\
                s' = s ++ [d'] /\ r = RHandle (length s) /\ nth_error s' (length s) = Some d' /\ Inv d' /\
                obs_sdef a' = obs_defn d' /\ s_ok a' /\
                (forall x p, s_cell a' x p = memp (x, p) (d_pairs d')).
Proof. exact step_ok_derive. Qed.

(** the plain model decides the outcome (success with which table, or which exception) *)
Theorem C14_derive_decided_by_model : forall s o h d,
  Forall Inv s -> op_handle o = Some h -> nth_error s h = Some d -> is_derive o = true ->
  match sstep1 (abs d) o (option_map abs (other_of s o)) with
  | Raise e => step s o = Raise e
  | Ok (a', _) => exists d', step s o = Ok (s ++ [d'], RHandle (length s)) /\
                             nth_error (s ++ [d']) (length s) = Some d' /\ Inv d' /\
                             obs_defn d' = obs_sdef a' /\ s_ok a' /\
                             (forall x p, memp (x, p) (d_pairs d') = s_cell a' x p)
  end.
Proof. exact step_derive_by_model. Qed.

(** the triple is a function of the two name lists and the cells inside the grid *)
Theorem C14_triple_determined_by_cells : forall d1 d2,
  objects_of d1 = objects_of d2 -> properties_of d1 = properties_of d2 ->
  (forall o p, In o (objects_of d1) -> In p (properties_of d1) -> memp (o, p) (d_pairs d1) = memp (o, p) (d_pairs d2)) ->
  obs_defn d1 = obs_defn d2.
Proof. exact obs_by_cells. Qed.

(** ** copy *)
Theorem C14_copy : forall s h d,
  nth_error s h = Some d -> step s (DCopy h) = Ok (s ++ [d], RHandle (length s)).
Proof. exact copy_step. Qed.

(** ** union ( | ) : cell-wise or; axes = left names followed by the new right names *)
Theorem C14_union : forall s h k ig d e,
  Forall Inv s -> nth_error s h = Some d -> nth_error s k = Some e ->
  if negb ig && s_conflict (abs d) (abs e) then step s (DUnion h k ig) = Raise ValueError
  else exists d', step s (DUnion h k ig) = Ok (s ++ [d'], RHandle (length s)) /\ Inv d' /\
                  objects_of d' = append_new (objects_of d) (objects_of e) /\
                  properties_of d' = append_new (properties_of d) (properties_of e) /\
                  forall o p, memp (o, p) (d_pairs d') = memp (o, p) (d_pairs d) || memp (o, p) (d_pairs e).
Proof. exact union_step. Qed.

(** ** intersection ( & ) : cell-wise and; axes = left names also present on the right *)
Theorem C14_intersection : forall s h k ig d e,
  Forall Inv s -> nth_error s h = Some d -> nth_error s k = Some e ->
  if negb ig && s_conflict (abs d) (abs e) then step s (DIntersection h k ig) = Raise ValueError
  else exists d', step s (DIntersection h k ig) = Ok (s ++ [d'], RHandle (length s)) /\ Inv d' /\
                  objects_of d' = filter (fun x => memn x (objects_of e)) (objects_of d) /\
                  properties_of d' = filter (fun x => memn x (properties_of e)) (properties_of d) /\
                  forall o p, memp (o, p) (d_pairs d') = memp (o, p) (d_pairs d) && memp (o, p) (d_pairs e).
Proof. exact intersection_step. Qed.

(** a conflict is a cell shared by both tables on which they differ *)
Theorem C14_conflict_meaning : forall d e,
  s_conflict (abs d) (abs e) = true <->
  exists o p, In o (objects_of d) /\ In o (objects_of e) /\ In p (properties_of d) /\ In p (properties_of e) /\
              memp (o, p) (d_pairs d) <> memp (o, p) (d_pairs e).
Proof. exact conflict_defn_iff. Qed.

(** the underlying operation on definitions *)
Theorem C14_union_cells : forall d e ig d',
  Inv d -> Inv e -> d_union_update d e ig = Ok d' ->
  Inv d' /\
  objects_of d' = append_new (objects_of d) (objects_of e) /\
  properties_of d' = append_new (properties_of d) (properties_of e) /\
  forall o p, memp (o, p) (d_pairs d') = memp (o, p) (d_pairs d) || memp (o, p) (d_pairs e).
Proof. exact union_cells. Qed.

Theorem C14_intersection_cells : forall d e ig d',
  Inv d -> Inv e -> d_intersection_update d e ig = Ok d' ->
  Inv d' /\
  objects_of d' = filter (fun x => memn x (objects_of e)) (objects_of d) /\
  properties_of d' = filter (fun x => memn x (properties_of e)) (properties_of d) /\
  forall o p, memp (o, p) (d_pairs d') = memp (o, p) (d_pairs d) && memp (o, p) (d_pairs e).
Proof. exact intersection_cells. Qed.

Theorem C14_union_raises_only_on_conflict : forall d e ig,
  Inv d -> Inv e ->
  d_union_update d e ig = (if negb ig && s_conflict (abs d) (abs e) then Raise ValueError else d_union_update d e true).
Proof. exact union_raises. Qed.

(** ** take: KeyError for an unknown requested name; otherwise the sub-table, in the original order
       ([reorder = false]: filter) or in the requested order ([reorder = true]: the requested names,
       each once); an axis that is not given is kept *)
Theorem C14_take : forall s h objs props reorder d,
  Forall Inv s -> nth_error s h = Some d ->
  (take_unknown objs (objects_of d) \/ take_unknown props (properties_of d) ->
   step s (DTake h objs props reorder) = Raise KeyError) /\
  (~ (take_unknown objs (objects_of d) \/ take_unknown props (properties_of d)) ->
   exists d', step s (DTake h objs props reorder) = Ok (s ++ [d'], RHandle (length s)) /\ Inv d' /\
              objects_of d' = take_sel objs reorder (objects_of d) /\
              properties_of d' = take_sel props reorder (properties_of d) /\
              forall o p, memp (o, p) (d_pairs d') =
                          memn o (objects_of d') && memn p (properties_of d') && memp (o, p) (d_pairs d)).
Proof. exact take_step. Qed.

Theorem C14_take_unknown_meaning : forall sel items,
  take_unknown sel items <-> exists l x, sel = Some l /\ In x l /\ ~ In x items.
Proof. intros sel items. reflexivity. Qed.

Theorem C14_take_selection_meaning : forall sel reorder items,
  take_sel sel reorder items =
  match sel with
  | Some l => if reorder then append_new [] l else filter (fun x => memn x l) items
  | None => items
  end.
Proof. reflexivity. Qed.

(** ** transposed: swap of axes; an involution *)
Theorem C14_transposed : forall s h d,
  Forall Inv s -> nth_error s h = Some d ->
  exists d', step s (DTransposed h) = Ok (s ++ [d'], RHandle (length s)) /\ Inv d' /\
             objects_of d' = properties_of d /\ properties_of d' = objects_of d /\
             forall o p, memp (o, p) (d_pairs d') = memp (p, o) (d_pairs d).
Proof. exact transposed_step. Qed.

Theorem C14_transposed_involution : forall d, d_transposed (d_transposed d) = d.
Proof. exact transposed_transposed. Qed.

Theorem C14_transposed_twice : forall s h d,
  nth_error s h = Some d ->
  exists s1, step s (DTransposed h) = Ok (s1, RHandle (length s)) /\
             step s1 (DTransposed (length s)) = Ok (s1 ++ [d], RHandle (length s1)).
Proof. exact transposed_twice. Qed.

(** ** inverted: complement of the cells inside the grid; an involution on triples *)
Theorem C14_inverted : forall s h d,
  Forall Inv s -> nth_error s h = Some d ->
  exists d', step s (DInverted h) = Ok (s ++ [d'], RHandle (length s)) /\ Inv d' /\
             objects_of d' = objects_of d /\ properties_of d' = properties_of d /\
             forall o p, memp (o, p) (d_pairs d') =
                         memn o (objects_of d) && memn p (properties_of d) && negb (memp (o, p) (d_pairs d)).
Proof. exact inverted_step. Qed.

Theorem C14_inverted_involution : forall d, Inv d -> obs_defn (d_inverted (d_inverted d)) = obs_defn d.
Proof. exact inverted_inverted_obs. Qed.

Theorem C14_inverted_twice : forall s h d,
  Forall Inv s -> nth_error s h = Some d ->
  exists s1 d2, step s (DInverted h) = Ok (s1, RHandle (length s)) /\
                step s1 (DInverted (length s)) = Ok (s1 ++ [d2], RHandle (length s1)) /\
                obs_defn d2 = obs_defn d.
Proof. exact inverted_twice. Qed.

(** * Context( *d).definition() / Definition( *d): the round trip through the triple *)

Theorem C14_rebuild_round_trip : forall d,
  Inv d -> exists d', d_init (objects_of d) (properties_of d) (bools_of d) = Ok d' /\ Inv d' /\ obs_defn d' = obs_defn d.
Proof. exact rebuild_obs. Qed.

Theorem C14_rebuild : forall s h d,
  Forall Inv s -> nth_error s h = Some d ->
  exists d', step s (DRebuild h) = Ok (s ++ [d'], RHandle (length s)) /\ Inv d' /\ obs_defn d' = obs_defn d.
Proof. exact rebuild_step. Qed.

(** the rebuilt definition compares equal to the original ( d == Definition( *d) ) *)
Theorem C14_rebuild_equal : forall d, Inv d -> eq_fresh d = true.
Proof. exact eq_fresh_Inv. Qed.

(** * no shared mutable state *)

(** a derivation leaves every existing handle (in particular its sources) as it was *)
Theorem C14_derive_keeps_existing_handles : forall s o s' r,
  is_derive o = true -> step s o = Ok (s', r) ->
  r = RHandle (length s) /\ length s' = S (length s) /\
  forall k, (k < length s)%nat -> nth_error s' k = nth_error s k.
Proof. exact derive_keeps_handles. Qed.

(** an in-place edit of one handle leaves every other handle as it was *)
Theorem C14_inplace_keeps_other_handles : forall s o s' r,
  is_derive o = false -> step s o = Ok (s', r) ->
  length s' = length s /\ forall k, op_handle o <> Some k -> nth_error s' k = nth_error s k.
Proof. exact inplace_keeps_others. Qed.

(** derive, then edit: editing the derived definition changes none of the older ones (the sources);
    editing anything else (e.g. a source) does not change the derived one *)
Theorem C14_derive_then_edit : forall s o1 s1 n o2 s2 r2,
  is_derive o1 = true -> step s o1 = Ok (s1, RHandle n) ->
  is_derive o2 = false -> step s1 o2 = Ok (s2, r2) ->
  n = length s /\
  (op_handle o2 = Some n -> forall k, (k < length s)%nat -> nth_error s2 k = nth_error s k) /\
  (op_handle o2 <> Some n -> nth_error s2 n = nth_error s1 n).
Proof. exact derive_then_edit. Qed.

(** along any later history (accepted and rejected calls): a handle changes only by an in-place
    operation addressed to it *)
Theorem C14_history_frame : forall ops s k,
  (k < length s)%nat -> Forall (fun o => is_derive o = false -> op_handle o <> Some k) ops ->
  nth_error (fold_left (fun s o => fst (step_total s o)) ops s) k = nth_error s k.
Proof. exact history_frame. Qed.

Theorem C14_one_step_frame : forall s o s' r,
  step s o = Ok (s', r) ->
  if is_derive o then exists d', s' = s ++ [d'] /\ r = RHandle (length s)
  else exists h d', op_handle o = Some h /\ (h < length s)%nat /\ s' = put s h d'.
Proof. exact step_frame. Qed.

(** * witness: all derivations from one table A (handle 0), a conflicting union (ValueError unless
      ignored), a take with an unknown name (KeyError), both involutions and the rebuild giving A
      back; then an edit of the source and an edit of the copy change exactly these two *)
Example C14_witness :
  let A := ([0; 1; 2], [10; 11; 12], [[true; false; true]; [false; true; false]; [true; true; false]])%nat in
  let B := ([2; 3], [12; 13], [[true; false]; [true; true]])%nat in
  let derivations :=
    [ DNew [0; 1; 2] [10; 11; 12] [[true; false; true]; [false; true; false]; [true; true; false]];
      DCopy 0; DTransposed 0; DInverted 0;
      DNew [2; 3] [12; 13] [[true; false]; [true; true]];
      DUnion 0 4 false; DUnion 0 4 true; DIntersection 0 4 true;
      DTake 0 (Some [2; 0]) (Some [12; 10]) true; DTake 0 (Some [2; 0]) None false; DTake 0 (Some [2; 9]) None false;
      DRebuild 0; DTransposed 2; DInverted 3 ]%nat in
  let edits := [ ORemoveObject 0 1; ORenameProperty 1 10 99 ]%nat in
  let derived :=
    [ ([10; 11; 12], [0; 1; 2], [[true; false; true]; [false; true; true]; [true; false; false]]);
      ([0; 1; 2], [10; 11; 12], [[false; true; false]; [true; false; true]; [false; false; true]]);
      B;
      ([0; 1; 2; 3], [10; 11; 12; 13],
       [[true; false; true; false]; [false; true; false; false]; [true; true; true; false]; [false; false; true; true]]);
      ([2], [12], [[false]]);
      ([2; 0], [12; 10], [[false; true]; [true; true]]);
      ([0; 2], [10; 11; 12], [[true; false; true]; [true; true; false]]);
      A; A; A ]%nat in
  snd (run (derivations ++ edits) []) =
    [ Ok (RHandle 0); Ok (RHandle 1); Ok (RHandle 2); Ok (RHandle 3); Ok (RHandle 4); Raise ValueError;
      Ok (RHandle 5); Ok (RHandle 6); Ok (RHandle 7); Ok (RHandle 8); Raise KeyError; Ok (RHandle 9);
      Ok (RHandle 10); Ok (RHandle 11); Ok RNone; Ok RNone ]%nat /\
  map obs_defn (fst (run derivations [])) = A :: A :: derived /\
  map obs_defn (fst (run (derivations ++ edits) [])) =
    ([0; 2], [10; 11; 12], [[true; false; true]; [true; true; false]])%nat ::
    ([0; 1; 2], [99; 11; 12], [[true; false; true]; [false; true; false]; [true; true; false]])%nat :: derived.
Proof. vm_compute. repeat split; reflexivity. Qed.

(** * Context <-> Definition: the round trip through a real Context, and equality of contexts

    (This section supersedes the first item of "NOT modelled here" in the header: the constructor
    Context(objects, properties, bools) is [context_init] of Model/Validation.v (property C19),
    Context.bools is [context_bools] (row g, cell m is [inc c g m]) and Context.definition() is
    Definition(context.objects, context.properties, context.bools), i.e. [d_init] on that triple.
    Context( *definition) passes the definition's bools as Python bools ([VBool]).) *)
From Concepts Require Import Base.BitSet Spec.Context Model.Validation Proofs.ContextDefinition.

(** Context.bools and the (objects, properties, bools) triple of an accepted context *)
Theorem C14_context_bools_meaning : forall c,
  context_bools c = map (fun g => map (fun m => inc c g m) (seq 0 (nM c))) (seq 0 (nG c)).
Proof. reflexivity. Qed.

Theorem C14_ctx_triple_meaning : forall objs props c,
  ctx_triple (objs, props, c) = (objs, props, context_bools c).
Proof. reflexivity. Qed.

(** Context( *d): accepted exactly when both axes are non-empty and share no name; the context then
    has the names of d and the cells of d *)
Theorem C14_definition_to_context : forall d,
  Inv d -> objects_of d <> [] -> properties_of d <> [] ->
  (forall x, In x (objects_of d) -> ~ In x (properties_of d)) ->
  exists c, context_init (objects_of d) (properties_of d) (map (map VBool) (bools_of d))
              = Ok (objects_of d, properties_of d, c)
            /\ wf_ctx c /\ context_bools c = bools_of d.
Proof. exact definition_to_context. Qed.

(** a Definition need not be a valid Context *)
Theorem C14_definition_to_context_raises : forall d,
  (objects_of d = [] \/ properties_of d = [] \/ exists x, In x (objects_of d) /\ In x (properties_of d)) ->
  context_init (objects_of d) (properties_of d) (map (map VBool) (bools_of d)) = Raise ValueError.
Proof. exact definition_to_context_raises. Qed.

Theorem C14_definition_to_context_iff : forall d,
  Inv d ->
  ((exists r, context_init (objects_of d) (properties_of d) (map (map VBool) (bools_of d)) = Ok r) <->
   objects_of d <> [] /\ properties_of d <> [] /\ (forall x, In x (objects_of d) -> ~ In x (properties_of d))).
Proof. exact definition_to_context_iff. Qed.

(** context.definition(): always succeeds, and its triple is the context's triple; the cells are the
    truth values of the cells the context was built from *)
Theorem C14_context_to_definition : forall objs props bools c,
  context_init objs props bools = Ok (objs, props, c) ->
  exists d, d_init objs props (context_bools c) = Ok d /\ Inv d /\
            obs_defn d = (objs, props, context_bools c) /\
            context_bools c = map (map truthy_val) bools.
Proof. exact context_to_definition. Qed.

(** Context( *d).definition() has the triple of d *)
Theorem C14_round_trip_definition : forall d,
  Inv d -> objects_of d <> [] -> properties_of d <> [] ->
  (forall x, In x (objects_of d) -> ~ In x (properties_of d)) ->
  exists c d',
    context_init (objects_of d) (properties_of d) (map (map VBool) (bools_of d))
      = Ok (objects_of d, properties_of d, c) /\
    d_init (objects_of d) (properties_of d) (context_bools c) = Ok d' /\
    Inv d' /\ obs_defn d' = obs_defn d.
Proof. exact round_trip_definition. Qed.

(** Context( *c.definition()) is c itself *)
Theorem C14_round_trip_context : forall objs props bools c,
  context_init objs props bools = Ok (objs, props, c) ->
  exists d c',
    d_init objs props (context_bools c) = Ok d /\ Inv d /\
    context_init (objects_of d) (properties_of d) (map (map VBool) (bools_of d)) = Ok (objs, props, c') /\
    context_bools c' = context_bools c /\ rows c' = rows c /\ c' = c.
Proof. exact round_trip_context. Qed.

(** the row integers of a context are determined by its cells *)
Theorem C14_rows_of_context_bools : forall c,
  wf_ctx c -> rows c = map (fun l => row_int (map VBool l)) (context_bools c).
Proof. exact rows_of_context_bools. Qed.

Theorem C14_ctx_ext : forall c1 c2,
  wf_ctx c1 -> wf_ctx c2 -> nG c1 = nG c2 -> nM c1 = nM c2 ->
  (forall g m, (g < nG c1)%nat -> (m < nM c1)%nat -> inc c1 g m = inc c2 g m) -> c1 = c2.
Proof. exact ctx_ext. Qed.

(** two accepted contexts are equal exactly when their triples are equal *)
Theorem C14_context_eq_iff_triples : forall o1 p1 b1 c1 o2 p2 b2 c2,
  context_init o1 p1 b1 = Ok (o1, p1, c1) -> context_init o2 p2 b2 = Ok (o2, p2, c2) ->
  ((o1, p1, context_bools c1) = (o2, p2, context_bools c2) <-> o1 = o2 /\ p1 = p2 /\ c1 = c2).
Proof. exact context_eq_iff_triples. Qed.

(** the same for any two well-formed contexts whose width is the number of property names *)
Theorem C14_ctx_eq_iff_triples : forall o1 p1 c1 o2 p2 c2,
  wf_ctx c1 -> wf_ctx c2 -> nM c1 = length p1 -> nM c2 = length p2 ->
  (ctx_triple (o1, p1, c1) = ctx_triple (o2, p2, c2) <-> o1 = o2 /\ p1 = p2 /\ c1 = c2).
Proof. exact ctx_eq_iff_triples. Qed.

(** in terms of the constructor arguments: equal names and cells of equal truth value *)
Theorem C14_context_eq_iff_args : forall o1 p1 b1 c1 o2 p2 b2 c2,
  context_init o1 p1 b1 = Ok (o1, p1, c1) -> context_init o2 p2 b2 = Ok (o2, p2, c2) ->
  (o1 = o2 /\ p1 = p2 /\ c1 = c2 <->
   o1 = o2 /\ p1 = p2 /\ map (map truthy_val) b1 = map (map truthy_val) b2).
Proof. exact context_eq_iff_args. Qed.

(** witness: a context built from truthy/falsy cells, its definition, and back to the same context *)
Example C14_context_definition_witness :
  let objs := [0; 1; 2]%nat in let props := [10; 11]%nat in
  let bools := [[VBool true; VInt 0]; [VNone; VStr 7]; [VInt 5; VBool false]] in
  exists c d,
    context_init objs props bools = Ok (objs, props, c) /\
    context_bools c = [[true; false]; [false; true]; [true; false]] /\
    d_init objs props (context_bools c) = Ok d /\
    obs_defn d = (objs, props, context_bools c) /\
    context_init (objects_of d) (properties_of d) (map (map VBool) (bools_of d)) = Ok (objs, props, c).
Proof. exact context_definition_witness. Qed.

(** * shape and fill_ratio agree between a context and its definition

    (Model/Stats.v, Proofs/Stats.v.  This section supersedes, for shape and fill_ratio, the "NOT modelled here"
    note of the header: only the table string and crc32 remain harness-only.)
    [fraction n d] is fractions.Fraction(n, d) of two non-negative ints ([None] = ZeroDivisionError);
    Definition.fill_ratio = Fraction(len(_pairs), objects * properties),
    Context.fill_ratio = Fraction(sum of the popcounts of the row integers, objects * properties);
    [n_true] is the number of true cells of a boolean table. *)
From Concepts Require Import Spec.Transform Model.Lattice Model.Stats Proofs.Stats.

(** Fraction(n, d) is the pair in lowest terms denoting n / d *)
Theorem C14_fraction_lowest_terms : forall n d,
  (0 <= n)%Z -> (0 < d)%Z ->
  exists a b, fraction n d = Some (a, b) /\ (0 < b)%Z /\ Z.gcd a b = 1%Z /\ (a * d = n * b)%Z /\ (0 <= a)%Z.
Proof. exact fraction_spec. Qed.
Print Assumptions C14_fraction_lowest_terms.

Theorem C14_fraction_zero_denominator : forall n, fraction n 0 = None.
Proof. exact fraction_zero. Qed.
Print Assumptions C14_fraction_zero_denominator.

Theorem C14_fraction_at_most_one : forall n d,
  (0 <= n <= d)%Z -> (0 < d)%Z ->
  exists a b, fraction n d = Some (a, b) /\ (0 < b)%Z /\ Z.gcd a b = 1%Z /\ (a * d = n * b)%Z /\ (0 <= a)%Z /\ (a <= b)%Z.
Proof. exact fraction_le. Qed.
Print Assumptions C14_fraction_at_most_one.

(** equal rationals have the same lowest terms: the result depends only on the value n / d *)
Theorem C14_fraction_unique : forall n d n' d',
  (0 < d)%Z -> (0 < d')%Z -> (0 <= n)%Z -> (0 <= n')%Z -> (n * d' = n' * d)%Z -> fraction n d = fraction n' d'.
Proof. exact fraction_unique. Qed.
Print Assumptions C14_fraction_unique.

(** the pair set has exactly one element per true cell *)
Theorem C14_definition_pairs_count_true_cells : forall d,
  Inv d -> length (d_pairs d) = n_true (bools_of d).
Proof. exact def_pairs_count. Qed.
Print Assumptions C14_definition_pairs_count_true_cells.

Theorem C14_definition_fill_ratio_counts_true_cells : forall d,
  Inv d ->
  def_fill_ratio d = fraction (Z.of_nat (n_true (bools_of d)))
                              (Z.of_nat (length (objects_of d) * length (properties_of d))%nat).
Proof. exact def_fill_ratio_bools. Qed.
Print Assumptions C14_definition_fill_ratio_counts_true_cells.

(** the popcounts of the row integers add up to the number of true cells *)
Theorem C14_context_rows_count_true_cells : forall c,
  wf_ctx c -> fold_right (fun r acc => (count r + acc)%nat) 0%nat (rows c) = n_true (context_bools c).
Proof. exact ctx_rows_count. Qed.
Print Assumptions C14_context_rows_count_true_cells.

Theorem C14_context_fill_ratio_counts_true_cells : forall c,
  wf_ctx c ->
  ctx_fill_ratio c = fraction (Z.of_nat (n_true (context_bools c))) (Z.of_nat (nG c * nM c)%nat).
Proof. exact ctx_fill_ratio_bools. Qed.
Print Assumptions C14_context_fill_ratio_counts_true_cells.

(** Context( *definition): same shape, same fill_ratio *)
Theorem C14_shape_fill_ratio_agree : forall d o p c,
  Inv d ->
  context_init (objects_of d) (properties_of d) (map (map VBool) (bools_of d)) = Ok (o, p, c) ->
  ctx_shape c = def_shape d /\ ctx_fill_ratio c = def_fill_ratio d.
Proof. exact definition_context_stats. Qed.
Print Assumptions C14_shape_fill_ratio_agree.

(** context.definition(): same shape, same fill_ratio *)
Theorem C14_shape_fill_ratio_agree_back : forall objs props bools o p c d,
  context_init objs props bools = Ok (o, p, c) ->
  d_init o p (context_bools c) = Ok d ->
  def_shape d = ctx_shape c /\ def_fill_ratio d = ctx_fill_ratio c.
Proof. exact context_definition_stats. Qed.
Print Assumptions C14_shape_fill_ratio_agree_back.

(** an empty Definition has no fill_ratio (ZeroDivisionError) ... *)
Theorem C14_fill_ratio_empty_definition : forall d,
  objects_of d = [] \/ properties_of d = [] -> def_fill_ratio d = None.
Proof. exact def_fill_ratio_empty. Qed.
Print Assumptions C14_fill_ratio_empty_definition.

(** ... a Context always has one, between 0 and 1, in lowest terms *)
Theorem C14_fill_ratio_context_defined : forall c,
  wf_ctx c -> (0 < nG c)%nat -> (0 < nM c)%nat ->
  exists a b, ctx_fill_ratio c = Some (a, b) /\ (0 <= a <= b)%Z /\ Z.gcd a b = 1%Z.
Proof. exact ctx_fill_ratio_some. Qed.
Print Assumptions C14_fill_ratio_context_defined.

(** ... namely (true cells) / (objects * properties) *)
Theorem C14_fill_ratio_context_value : forall c,
  wf_ctx c -> (0 < nG c)%nat -> (0 < nM c)%nat ->
  exists a b, ctx_fill_ratio c = Some (a, b) /\ (0 <= a <= b)%Z /\ (0 < b)%Z /\ Z.gcd a b = 1%Z /\
              (a * Z.of_nat (nG c * nM c)%nat = Z.of_nat (n_true (context_bools c)) * b)%Z.
Proof. exact ctx_fill_ratio_value. Qed.
Print Assumptions C14_fill_ratio_context_value.

(** fill_ratio is invariant under the transformations of property C15 (Spec/Transform.v) *)
Theorem C14_fill_ratio_transpose : forall c,
  wf_ctx c -> ctx_fill_ratio (transpose c) = ctx_fill_ratio c.
Proof. exact ctx_fill_ratio_transpose. Qed.
Print Assumptions C14_fill_ratio_transpose.

Theorem C14_fill_ratio_permutation : forall c s sinv t tinv,
  bijection_on (nG c) s sinv -> bijection_on (nM c) t tinv -> wf_ctx c ->
  ctx_fill_ratio (perm_ctx c sinv tinv) = ctx_fill_ratio c.
Proof. exact ctx_fill_ratio_perm. Qed.
Print Assumptions C14_fill_ratio_permutation.

(** witness: a 2x3 table with 4 true cells has fill ratio 2/3 on both sides (and transposed) *)
Example C14_fill_ratio_witness :
  let objs := [0; 1]%nat in let props := [10; 11; 12]%nat in
  let bools := [[true; false; true]; [true; true; false]] in
  exists d c,
    d_init objs props bools = Ok d /\ bools_of d = bools /\
    def_shape d = (2, 3)%nat /\ def_fill_ratio d = Some (2, 3)%Z /\
    context_init (objects_of d) (properties_of d) (map (map VBool) (bools_of d)) = Ok (objs, props, c) /\
    ctx_shape c = (2, 3)%nat /\ ctx_fill_ratio c = Some (2, 3)%Z /\
    ctx_fill_ratio (transpose c) = Some (2, 3)%Z /\
    fraction 1 3 = Some (1, 3)%Z /\ fraction 6 4 = Some (3, 2)%Z /\ fraction 0 6 = Some (0, 1)%Z /\ fraction 0 0 = None.
Proof. exact fill_ratio_witness. Qed.
Print Assumptions C14_fill_ratio_witness.
