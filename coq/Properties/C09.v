(** C09 — upset / downset traversals.

    "c.upset() yields exactly the concepts >= c (including c) in increasing index order and
    c.downset() exactly the concepts <= c in increasing dindex order, each once.
    lattice.upset_union / downset_union yield exactly the union of the upsets / downsets, each
    member once in the same rank orders (repeats and comparable members allowed); the empty
    collection yields nothing."

    END-TO-END: [L] is the value returned by the model of [Context.lattice] ([build_lattice],
    satisfiable by [C03_terminates]).  Concepts are positions in the lattice; the index of the
    member at position j is j (C06_index_is_position), so "increasing index order" is
    [StronglySorted lt]; [nth_extent (l_exts L) j] is the extent of the j-th member and
    [get_concept L j] that member.  The traversal is the heap merge [iterunion]; its loop needs
    fuel: one step per seed plus one per neighbour link ([edges_up L] / [edges_down L] = total
    number of upper / lower neighbour links) is enough.  The generic correctness of [iterunion]
    (not about a lattice) is [C09_iterunion_correct] / [C09_iterunion_terminates]. *)
From Coq Require Import ZArith List Bool Sorted.
From Concepts Require Import Base.Res Base.PyInt Base.BitSet Spec.FCA Spec.Context Spec.LatticeSpec
  Model.Matrices Model.ContextApi Model.Members Model.Lattice Model.LatticeApi
  Proofs.Matrices Proofs.ContextApi Proofs.Closure Proofs.LatticeBasics Proofs.LatticeFirst
  Proofs.BuildLattice Proofs.IterUnion Proofs.Assemble.
From Concepts Require Model.Common.
From Concepts Require Import Proofs.CommonEquiv.
Import ListNotations.
Open Scope Z_scope.

(** * c.upset() *)

Theorem C09_upset : forall fuel dfuel c L ufuel i x,
  wf_ctx c -> (Nat.max (nG c) (nM c) <= dfuel)%nat -> build_lattice fuel dfuel (relation_new c) = Ok L ->
  concept_at L i x -> (1 + edges_up L <= ufuel)%nat ->
  upset ufuel L i =
  Ok (filter (fun j => subsetb (c_extent x) (nth_extent (l_exts L) j)) (seq 0 (length (l_concepts L)))).
Proof.
  intros fuel dfuel c L ufuel i x Hwf Hd HB.
  exact (upset_spec c L (build_lattice_ok fuel dfuel c L Hwf Hd HB) ufuel i x).
Qed.

(** the same, read as: exactly the members above, each once, by increasing index *)
Theorem C09_upset_meaning : forall fuel dfuel c L ufuel i x,
  wf_ctx c -> (Nat.max (nG c) (nM c) <= dfuel)%nat -> build_lattice fuel dfuel (relation_new c) = Ok L ->
  concept_at L i x -> (1 + edges_up L <= ufuel)%nat ->
  exists out, upset ufuel L i = Ok out /\ StronglySorted lt out /\ NoDup out /\
    forall j, In j out <->
      (j < length (l_concepts L))%nat /\ subset (c_extent x) (nth_extent (l_exts L) j).
Proof.
  intros fuel dfuel c L ufuel i x Hwf Hd HB.
  exact (upset_meaning c L (build_lattice_ok fuel dfuel c L Hwf Hd HB) ufuel i x).
Qed.

(** * c.downset() *)

Theorem C09_downset : forall fuel dfuel c L ufuel i x,
  wf_ctx c -> (Nat.max (nG c) (nM c) <= dfuel)%nat -> build_lattice fuel dfuel (relation_new c) = Ok L ->
  concept_at L i x -> (1 + edges_down L <= ufuel)%nat ->
  exists out, downset ufuel L i = Ok out /\
    StronglySorted (fun a b => (c_dindex (get_concept L a) < c_dindex (get_concept L b))%nat) out /\
    NoDup out /\
    forall j, In j out <->
      (j < length (l_concepts L))%nat /\ subset (nth_extent (l_exts L) j) (c_extent x).
Proof.
  intros fuel dfuel c L ufuel i x Hwf Hd HB.
  exact (downset_spec c L (build_lattice_ok fuel dfuel c L Hwf Hd HB) ufuel i x).
Qed.

(** * lattice.upset_union(concepts) — any list of members: repeats and comparable ones allowed *)

Theorem C09_upset_union : forall fuel dfuel c L ufuel cs,
  wf_ctx c -> (Nat.max (nG c) (nM c) <= dfuel)%nat -> build_lattice fuel dfuel (relation_new c) = Ok L ->
  (forall i, In i cs -> (i < length (l_concepts L))%nat) -> (length cs + edges_up L <= ufuel)%nat ->
  upset_union ufuel L cs =
  Ok (filter (fun j => existsb (fun i => subsetb (nth_extent (l_exts L) i) (nth_extent (l_exts L) j)) cs)
             (seq 0 (length (l_concepts L)))).
Proof.
  intros fuel dfuel c L ufuel cs Hwf Hd HB Hcs.
  exact (upset_union_spec c L (build_lattice_ok fuel dfuel c L Hwf Hd HB) cs Hcs ufuel).
Qed.

Theorem C09_upset_union_meaning : forall fuel dfuel c L ufuel cs,
  wf_ctx c -> (Nat.max (nG c) (nM c) <= dfuel)%nat -> build_lattice fuel dfuel (relation_new c) = Ok L ->
  (forall i, In i cs -> (i < length (l_concepts L))%nat) -> (length cs + edges_up L <= ufuel)%nat ->
  exists out, upset_union ufuel L cs = Ok out /\ StronglySorted lt out /\
    forall j, In j out <->
      (j < length (l_concepts L))%nat /\
      exists i, In i cs /\ subset (nth_extent (l_exts L) i) (nth_extent (l_exts L) j).
Proof.
  intros fuel dfuel c L ufuel cs Hwf Hd HB Hcs.
  exact (upset_union_general c L (build_lattice_ok fuel dfuel c L Hwf Hd HB) cs Hcs ufuel).
Qed.

(** * lattice.downset_union(concepts) *)

Theorem C09_downset_union : forall fuel dfuel c L ufuel cs,
  wf_ctx c -> (Nat.max (nG c) (nM c) <= dfuel)%nat -> build_lattice fuel dfuel (relation_new c) = Ok L ->
  (forall i, In i cs -> (i < length (l_concepts L))%nat) -> (length cs + edges_down L <= ufuel)%nat ->
  exists out, downset_union ufuel L cs = Ok out /\
    StronglySorted (fun a b => (c_dindex (get_concept L a) < c_dindex (get_concept L b))%nat) out /\
    NoDup out /\
    forall j, In j out <->
      (j < length (l_concepts L))%nat /\
      exists i, In i cs /\ subset (nth_extent (l_exts L) j) (nth_extent (l_exts L) i).
Proof.
  intros fuel dfuel c L ufuel cs Hwf Hd HB Hcs.
  exact (downset_union_spec c L (build_lattice_ok fuel dfuel c L Hwf Hd HB) cs Hcs ufuel).
Qed.

(** * the empty collection yields nothing (any fuel, any lattice) *)

Theorem C09_empty_upset_union : forall fuel L, upset_union fuel L [] = Ok [].
Proof. exact upset_union_nil. Qed.
Theorem C09_empty_downset_union : forall fuel L, downset_union fuel L [] = Ok [].
Proof. exact downset_union_nil. Qed.
Theorem C09_iterunion_nil : forall fuel sortkey next, iterunion fuel [] sortkey next = Ok [].
Proof. exact iterunion_nil. Qed.

(** * the generic heap merge: on any finite graph [nodes] / [next] whose edges strictly increase
      an injective non-negative rank, it yields exactly the nodes reachable from the seeds, by
      increasing rank (hence each once), and terminates within [iterunion_fuel] steps *)

Theorem C09_iterunion_correct : forall (sortkey : nat -> Z) (next : nat -> list nat) (nodes seeds : list nat),
  (forall c, In c nodes -> 0 <= sortkey c) ->
  (forall c d, In c nodes -> In d nodes -> sortkey c = sortkey d -> c = d) ->
  (forall c d, In c nodes -> In d (next c) -> In d nodes /\ sortkey c < sortkey d) ->
  (forall c, In c seeds -> In c nodes) ->
  forall fuel out, iterunion fuel seeds sortkey next = Ok out ->
    StronglySorted (fun a b => sortkey a < sortkey b) out /\
    forall c, In c out <-> reach next seeds c.
Proof. exact iterunion_correct. Qed.

Theorem C09_iterunion_terminates : forall (sortkey : nat -> Z) (next : nat -> list nat) (nodes seeds : list nat),
  (forall c, In c nodes -> 0 <= sortkey c) ->
  (forall c d, In c nodes -> In d nodes -> sortkey c = sortkey d -> c = d) ->
  (forall c d, In c nodes -> In d (next c) -> In d nodes /\ sortkey c < sortkey d) ->
  (forall c, In c seeds -> In c nodes) ->
  forall fuel, (iterunion_fuel next nodes seeds <= fuel)%nat ->
    exists out, iterunion fuel seeds sortkey next = Ok out.
Proof. exact iterunion_terminates. Qed.

(** * witness: rows {0,1}, {1,2}, {2,3}, {0,1,2}: 10 links; member 5 has dindex 1, 3 -> 3, 4 -> 4,
      1 -> 5, 2 -> 6, 0 -> 7 *)
(** The kernel as regenerated from the source on every run ([Common.iterunion], tied by
    Tie/Common.v) is the recursive model the theorems above speak of, and satisfies the
    same specification directly. *)
Theorem C09_translated_kernel_is_the_model : forall (sortkey : nat -> Z) (next : nat -> list nat) (nodes : list nat),
  (forall c d, In c nodes -> In d nodes -> sortkey c = sortkey d -> c = d) ->
  (forall c d, In c nodes -> In d (next c) -> In d nodes /\ sortkey c < sortkey d) ->
  forall seeds, (forall c, In c seeds -> In c nodes) ->
  forall fuel, Common.iterunion fuel sortkey next seeds = LatticeApi.iterunion fuel seeds sortkey next.
Proof. exact common_iterunion_equiv. Qed.

Theorem C09_translated_kernel_correct : forall (sortkey : nat -> Z) (next : nat -> list nat) (nodes seeds : list nat),
  (forall c, In c nodes -> 0 <= sortkey c) ->
  (forall c d, In c nodes -> In d nodes -> sortkey c = sortkey d -> c = d) ->
  (forall c d, In c nodes -> In d (next c) -> In d nodes /\ sortkey c < sortkey d) ->
  (forall c, In c seeds -> In c nodes) ->
  forall fuel out, Common.iterunion fuel sortkey next seeds = Ok out ->
  StronglySorted (fun a b => sortkey a < sortkey b) out /\ (forall c, In c out <-> IterUnion.reach next seeds c).
Proof. exact common_iterunion_correct. Qed.

Theorem C09_translated_kernel_upset : forall fuel dfuel ufuel c L i x,
  wf_ctx c -> (Nat.max (nG c) (nM c) <= dfuel)%nat -> build_lattice fuel dfuel (relation_new c) = Ok L ->
  concept_at L i x -> (1 + IterUnion.edges_up L <= ufuel)%nat ->
  Common.iterunion ufuel (fun c0 => Z.of_nat (c_index (get_concept L c0))) (fun c0 => c_upper (get_concept L c0)) [i]
  = Ok (filter (fun j => subsetb (c_extent x) (nth_extent (l_exts L) j)) (seq 0 (length (l_concepts L)))).
Proof.
  intros fuel dfuel ufuel c L i x Hwf Hd HB Hi Hf.
  exact (common_upset_spec c L (build_lattice_ok fuel dfuel c L Hwf Hd HB) ufuel i x Hi Hf).
Qed.

Example C09_witness :
  let c := mkCtx 4 4 [3; 6; 12; 7] in
  wf_ctx c /\ (Nat.max (nG c) (nM c) <= 4)%nat /\
  exists L, build_lattice 20 4 (relation_new c) = Ok L /\
    (edges_up L, edges_down L, upset 20 L 1, downset 20 L 5,
     upset_union 20 L [1; 2; 1; 4], downset_union 20 L [4; 5; 4; 1])%nat
    = (10, 10, Ok [1; 6; 7], Ok [5; 3; 4; 2; 0], Ok [1; 2; 3; 4; 5; 6; 7], Ok [5; 3; 4; 1; 2; 0])%nat.
Proof.
  cbv zeta. split; [apply wf_ctxb_sound; vm_compute; reflexivity|]. split; [apply le_by_leb; vm_compute; reflexivity|].
  apply witness_intro. vm_compute. reflexivity.
Qed.
