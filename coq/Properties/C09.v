(** C09 — upset/downset traversals.  STATUS: [_partial].  Proved: the empty collection
    yields nothing.  The heap merge is decided by the correspondence in this revision. *)
From Coq Require Import ZArith List Bool.
From Concepts Require Import Base.Res Base.PyInt Base.BitSet Spec.FCA Spec.Context
  Model.Matrices Model.ContextApi Model.Members Model.Lattice Model.LatticeApi
  Proofs.Matrices Proofs.ContextApi Proofs.Closure Proofs.LatticeBasics Proofs.LatticeFirst.
Import ListNotations.
Open Scope Z_scope.

Theorem C09_empty_upset_union : forall fuel L, upset_union fuel L [] = Ok [].
Proof. exact upset_union_nil. Qed.
Theorem C09_empty_downset_union : forall fuel L, downset_union fuel L [] = Ok [].
Proof. exact downset_union_nil. Qed.
