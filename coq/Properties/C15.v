(** C15 — Lattice structure is invariant under relabelling, duplication and transposition.

    Property text: "Permuting the rows and/or columns of a context (labels moving with them) leaves the
    set of concepts, the covering relation, joins, meets and property relations unchanged as statements
    about labels.  Transposing the table yields exactly the dual lattice (each concept's extent and intent
    swapped, order and covers reversed, join and meet exchanged).  Adding a copy of an existing row leaves
    the family of intents unchanged, adding a copy of an existing column or a column that applies to every
    object leaves the family of extents unchanged, and in each case the number of concepts stays the same."

    Remark: every statement below is about the mathematical specification of Spec/Context.v (derivation
    operators [upO]/[upM], closure, [is_concept], [covers], columns) and the context transformations of
    Spec/Transform.v.  No algorithm is involved: the algorithms of the library are proved equal to this
    specification elsewhere (C01-C07), so the invariance of the specification transfers to them.

    Reading guide.  [map_set n finv A] is the image of the set A under a relabelling: new position k is in
    it iff old position [finv k] is in A.  [perm_ctx c sinv tinv] has as new row k the old row [sinv k]
    and as new column j the old column [tinv j].  [enumerates P l] says that l lists the elements
    satisfying P exactly once; [concepts c] is the set of (extent, intent) pairs of c; [num_concepts c]
    is the length of a concrete enumeration of them. *)
From Coq Require Import ZArith List Bool Lia.
From Concepts Require Import Base.PyInt Base.BitSet Spec.FCA Spec.Context Spec.Transform Proofs.Transform.
Import ListNotations.
Open Scope Z_scope.

(** * A. relabelling (row and column permutation) *)

Theorem C15_perm_wf : forall c sinv tinv, wf_ctx (perm_ctx c sinv tinv).
Proof. exact wf_perm. Qed.

Theorem C15_perm_incidence : forall c sinv tinv k j, (k < nG c)%nat -> (j < nM c)%nat ->
  inc (perm_ctx c sinv tinv) k j = inc c (sinv k) (tinv j).
Proof. exact inc_perm. Qed.

Theorem C15_perm_upO : forall c s sinv t tinv,
  bijection_on (nG c) s sinv -> bijection_on (nM c) t tinv -> forall A,
  upO (perm_ctx c sinv tinv) (map_set (nG c) sinv A) = map_set (nM c) tinv (upO c A).
Proof. exact upO_perm. Qed.

Theorem C15_perm_upM : forall c s sinv t tinv,
  bijection_on (nG c) s sinv -> bijection_on (nM c) t tinv -> forall B,
  upM (perm_ctx c sinv tinv) (map_set (nM c) tinv B) = map_set (nG c) sinv (upM c B).
Proof. exact upM_perm. Qed.

(** the set of concepts is unchanged, as a statement about labels *)
Theorem C15_perm_concepts : forall c s sinv t tinv,
  bijection_on (nG c) s sinv -> bijection_on (nM c) t tinv -> forall A B,
  in_range (nG c) A -> in_range (nM c) B ->
  (is_concept c A B <-> is_concept (perm_ctx c sinv tinv) (map_set (nG c) sinv A) (map_set (nM c) tinv B)).
Proof. exact is_concept_perm. Qed.

Theorem C15_perm_concepts_onto : forall c s sinv t tinv,
  bijection_on (nG c) s sinv -> bijection_on (nM c) t tinv -> forall A' B',
  is_concept (perm_ctx c sinv tinv) A' B' ->
  exists A B, is_concept c A B /\ A' = map_set (nG c) sinv A /\ B' = map_set (nM c) tinv B.
Proof. exact is_concept_perm_surj. Qed.

Theorem C15_perm_closed_extents : forall c s sinv t tinv,
  bijection_on (nG c) s sinv -> bijection_on (nM c) t tinv -> forall A, in_range (nG c) A ->
  (closedO c A <-> closedO (perm_ctx c sinv tinv) (map_set (nG c) sinv A)).
Proof. exact closedO_perm. Qed.

Theorem C15_perm_closed_intents : forall c s sinv t tinv,
  bijection_on (nG c) s sinv -> bijection_on (nM c) t tinv -> forall B, in_range (nM c) B ->
  (closedM c B <-> closedM (perm_ctx c sinv tinv) (map_set (nM c) tinv B)).
Proof. exact closedM_perm. Qed.

(** relabelling is a bijection on in-range sets and preserves the order *)
Theorem C15_relabel_inverse : forall n f finv a, bijection_on n f finv -> in_range n a ->
  map_set n f (map_set n finv a) = a.
Proof. exact map_set_inv. Qed.

Theorem C15_relabel_injective : forall n f finv a b, bijection_on n f finv -> in_range n a -> in_range n b ->
  map_set n finv a = map_set n finv b -> a = b.
Proof. exact map_set_inj. Qed.

Theorem C15_relabel_subset : forall n f finv a b, bijection_on n f finv -> in_range n a ->
  (subset a b <-> subset (map_set n finv a) (map_set n finv b)).
Proof. exact subset_map_set. Qed.

Theorem C15_relabel_psubset : forall n f finv a b, bijection_on n f finv -> in_range n a -> in_range n b ->
  (psubset a b <-> psubset (map_set n finv a) (map_set n finv b)).
Proof. exact psubset_map_set. Qed.

(** covering relation *)
Theorem C15_perm_covers : forall c s sinv t tinv,
  bijection_on (nG c) s sinv -> bijection_on (nM c) t tinv -> forall A E,
  in_range (nG c) A -> in_range (nG c) E ->
  (covers c A E <-> covers (perm_ctx c sinv tinv) (map_set (nG c) sinv A) (map_set (nG c) sinv E)).
Proof. exact covers_perm. Qed.

(** join (closure of the union of extents) and meet (intersection of extents) *)
Theorem C15_perm_join : forall c s sinv t tinv,
  bijection_on (nG c) s sinv -> bijection_on (nM c) t tinv -> forall A E,
  clO (perm_ctx c sinv tinv) (Z.lor (map_set (nG c) sinv A) (map_set (nG c) sinv E))
  = map_set (nG c) sinv (clO c (Z.lor A E)).
Proof. exact join_perm. Qed.

Theorem C15_perm_meet : forall n finv a b,
  map_set n finv (Z.land a b) = Z.land (map_set n finv a) (map_set n finv b).
Proof. exact map_set_land. Qed.

(** property relations: the column of property j in the new context is the image of the column of
    property [tinv j]; hence each of the four (left, right) combinations occurs among the objects of
    the new context iff it occurs in the old one *)
Theorem C15_perm_column : forall c s sinv, bijection_on (nG c) s sinv -> forall tinv j, (j < nM c)%nat ->
  col (perm_ctx c sinv tinv) j = map_set (nG c) sinv (col c (tinv j)).
Proof. intros c s sinv Hs tinv j. exact (col_perm c s sinv tinv Hs j). Qed.

Theorem C15_perm_property_relations : forall c s sinv, bijection_on (nG c) s sinv ->
  forall tinv j1 j2 b1 b2, (j1 < nM c)%nat -> (j2 < nM c)%nat ->
  ((exists k, (k < nG c)%nat /\ mem (col (perm_ctx c sinv tinv) j1) k = b1 /\ mem (col (perm_ctx c sinv tinv) j2) k = b2)
   <-> (exists g, (g < nG c)%nat /\ mem (col c (tinv j1)) g = b1 /\ mem (col c (tinv j2)) g = b2)).
Proof. intros c s sinv Hs tinv. exact (relation_perm c s sinv tinv Hs). Qed.

Theorem C15_perm_same_number : forall c s sinv t tinv,
  bijection_on (nG c) s sinv -> bijection_on (nM c) t tinv -> forall l l',
  enumerates (concepts c) l -> enumerates (concepts (perm_ctx c sinv tinv)) l' -> length l = length l'.
Proof. exact perm_concept_count. Qed.

(** * B. transposition: the dual lattice *)

Theorem C15_transpose_wf : forall c, wf_ctx (transpose c).
Proof. exact wf_transpose. Qed.

Theorem C15_transpose_incidence : forall c m g, (g < nG c)%nat -> (m < nM c)%nat ->
  inc (transpose c) m g = inc c g m.
Proof. exact inc_transpose. Qed.

Theorem C15_transpose_upO : forall c B, upO (transpose c) B = upM c B.
Proof. exact upO_transpose. Qed.

Theorem C15_transpose_upM : forall c A, upM (transpose c) A = upO c A.
Proof. exact upM_transpose. Qed.

(** extent and intent swapped *)
Theorem C15_transpose_concepts : forall c A B, is_concept (transpose c) B A <-> is_concept c A B.
Proof. exact is_concept_transpose. Qed.

(** order reversed *)
Theorem C15_transpose_order : forall c A1 B1 A2 B2, is_concept c A1 B1 -> is_concept c A2 B2 ->
  (subset A1 A2 <-> subset B2 B1).
Proof. exact concept_order. Qed.

(** covers reversed *)
Theorem C15_transpose_covers : forall c A1 A2, closedO c A1 -> closedO c A2 ->
  (covers c A1 A2 <-> covers (transpose c) (upO c A2) (upO c A1)).
Proof. exact covers_transpose. Qed.

(** join and meet exchanged: the intent of the join is the intersection of the intents (the meet in
    the transposed context), the intent of the meet is the closure of the union of the intents (the
    join in the transposed context) *)
Theorem C15_transpose_join_intent : forall c A1 A2, in_range (nG c) A1 -> in_range (nG c) A2 ->
  upO c (clO c (Z.lor A1 A2)) = Z.land (upO c A1) (upO c A2).
Proof. exact join_intent. Qed.

Theorem C15_transpose_meet_intent : forall c A1 A2, closedO c A1 -> closedO c A2 ->
  upO c (Z.land A1 A2) = clM c (Z.lor (upO c A1) (upO c A2)).
Proof. exact meet_intent. Qed.

Theorem C15_transpose_join_meet_exchanged : forall c A1 A2, closedO c A1 -> closedO c A2 ->
  upO c (clO c (Z.lor A1 A2)) = Z.land (upO c A1) (upO c A2) /\
  upO c (Z.land A1 A2) = clO (transpose c) (Z.lor (upO c A1) (upO c A2)).
Proof. exact join_meet_transpose. Qed.

Theorem C15_transpose_same_number : forall c l l',
  enumerates (concepts c) l -> enumerates (concepts (transpose c)) l' -> length l = length l'.
Proof. exact transpose_concept_count. Qed.

(** * C. duplicated row: the family of intents is unchanged *)

Theorem C15_dup_row_wf : forall c g, wf_ctx c -> wf_ctx (dup_row c g).
Proof. exact wf_dup_row. Qed.

Theorem C15_dup_row_intents : forall c g, wf_ctx c -> (g < nG c)%nat -> forall B,
  closedM (dup_row c g) B <-> closedM c B.
Proof. exact closedM_dup_row. Qed.

(** the closed extents correspond one to one: A |-> upM c' (upO c A), with inverse the restriction to
    the first nG positions *)
Theorem C15_dup_row_extents_forward : forall c g, wf_ctx c -> (g < nG c)%nat -> forall A, closedO c A ->
  closedO (dup_row c g) (upM (dup_row c g) (upO c A)) /\
  Z.land (upM (dup_row c g) (upO c A)) (ones (nG c)) = A.
Proof. exact dup_row_extent_fwd. Qed.

Theorem C15_dup_row_extents_backward : forall c g, wf_ctx c -> (g < nG c)%nat -> forall A',
  closedO (dup_row c g) A' ->
  closedO c (Z.land A' (ones (nG c))) /\
  upM (dup_row c g) (upO c (Z.land A' (ones (nG c)))) = A'.
Proof. exact dup_row_extent_bwd. Qed.

Theorem C15_dup_row_same_number_of_extents : forall c g, wf_ctx c -> (g < nG c)%nat -> forall le le',
  enumerates (closedO c) le -> enumerates (closedO (dup_row c g)) le' -> length le = length le'.
Proof. exact dup_row_extent_count. Qed.

Theorem C15_dup_row_same_number : forall c g, wf_ctx c -> (g < nG c)%nat -> forall l l',
  enumerates (concepts c) l -> enumerates (concepts (dup_row c g)) l' -> length l = length l'.
Proof. exact dup_row_concept_count. Qed.

(** * D. duplicated column, full column: the family of extents is unchanged *)

Theorem C15_dup_col_wf : forall c m, wf_ctx c -> wf_ctx (dup_col c m).
Proof. exact wf_dup_col. Qed.

Theorem C15_dup_col_extents : forall c m A, wf_ctx c -> (m < nM c)%nat ->
  (closedO (dup_col c m) A <-> closedO c A).
Proof. exact closedO_dup_col. Qed.

Theorem C15_dup_col_same_number : forall c m l l', wf_ctx c -> (m < nM c)%nat ->
  enumerates (concepts c) l -> enumerates (concepts (dup_col c m)) l' -> length l = length l'.
Proof. exact dup_col_concept_count. Qed.

Theorem C15_full_col_wf : forall c, wf_ctx c -> wf_ctx (full_col c).
Proof. exact wf_full_col. Qed.

Theorem C15_full_col_extents : forall c A, wf_ctx c -> (closedO (full_col c) A <-> closedO c A).
Proof. exact closedO_full_col. Qed.

Theorem C15_full_col_same_number : forall c l l', wf_ctx c ->
  enumerates (concepts c) l -> enumerates (concepts (full_col c)) l' -> length l = length l'.
Proof. exact full_col_concept_count. Qed.

(** * the number of concepts, concretely *)

(** [concepts_list c] enumerates the concepts of c, so the counting statements above are not vacuous
    and "the number of concepts" is [num_concepts c] whatever enumeration is used *)
Theorem C15_concepts_list_enumerates : forall c, enumerates (concepts c) (concepts_list c).
Proof. exact concepts_list_enumerates. Qed.

Theorem C15_num_concepts_well_defined : forall c l, enumerates (concepts c) l -> length l = num_concepts c.
Proof. exact num_concepts_spec. Qed.

Theorem C15_num_concepts_perm : forall c s sinv t tinv,
  bijection_on (nG c) s sinv -> bijection_on (nM c) t tinv ->
  num_concepts (perm_ctx c sinv tinv) = num_concepts c.
Proof. exact num_concepts_perm. Qed.

Theorem C15_num_concepts_transpose : forall c, num_concepts (transpose c) = num_concepts c.
Proof. exact num_concepts_transpose. Qed.

Theorem C15_num_concepts_dup_row : forall c g, wf_ctx c -> (g < nG c)%nat ->
  num_concepts (dup_row c g) = num_concepts c.
Proof. exact num_concepts_dup_row. Qed.

Theorem C15_num_concepts_dup_col : forall c m, wf_ctx c -> (m < nM c)%nat ->
  num_concepts (dup_col c m) = num_concepts c.
Proof. exact num_concepts_dup_col. Qed.

Theorem C15_num_concepts_full_col : forall c, wf_ctx c -> num_concepts (full_col c) = num_concepts c.
Proof. exact num_concepts_full_col. Qed.

(** * a concrete witness *)

Definition C15_c : ctx := mkCtx 3 3 [5; 3; 6].
Definition C15_sinv (i : nat) : nat := (match i with 0 => 1 | 1 => 2 | 2 => 0 | _ => i end)%nat.
Definition C15_s (i : nat) : nat := (match i with 0 => 2 | 1 => 0 | 2 => 1 | _ => i end)%nat.
Definition C15_tinv (i : nat) : nat := (match i with 0 => 1 | 1 => 0 | _ => i end)%nat.

Example C15_witness_bijections :
  bijection_on 3 C15_s C15_sinv /\ bijection_on 3 C15_tinv C15_tinv.
Proof.
  split; split; intros i Hi; destruct i as [|[|[|i]]]; cbn; try (split; [lia|reflexivity]); lia.
Qed.

Example C15_witness :
  (* the relabelled context, its concepts, and the images of the concepts of the original *)
  perm_ctx C15_c C15_sinv C15_tinv = mkCtx 3 3 [3; 5; 6] /\
  concepts_list C15_c = [(0, 7); (1, 5); (2, 3); (3, 1); (4, 6); (5, 4); (6, 2); (7, 0)] /\
  map (fun p => (map_set 3 C15_sinv (fst p), map_set 3 C15_tinv (snd p))) (concepts_list C15_c)
    = [(0, 7); (4, 6); (1, 3); (5, 2); (2, 5); (6, 4); (3, 1); (7, 0)] /\
  concepts_list (perm_ctx C15_c C15_sinv C15_tinv)
    = [(0, 7); (1, 3); (2, 5); (3, 1); (4, 6); (5, 2); (6, 4); (7, 0)] /\
  (* transposition: extents and intents swapped *)
  transpose C15_c = mkCtx 3 3 [3; 6; 5] /\
  concepts_list (transpose C15_c) = [(0, 7); (1, 3); (2, 6); (3, 2); (4, 5); (5, 1); (6, 4); (7, 0)] /\
  (* duplicated row 1: same intents; duplicated column 1 and full column: same extents *)
  dup_row C15_c 1 = mkCtx 4 3 [5; 3; 6; 3] /\
  map snd (concepts_list (dup_row C15_c 1)) = [7; 5; 6; 4; 3; 1; 2; 0] /\
  dup_col C15_c 1 = mkCtx 3 4 [5; 11; 14] /\
  map fst (concepts_list (dup_col C15_c 1)) = map fst (concepts_list C15_c) /\
  full_col C15_c = mkCtx 3 4 [13; 11; 14] /\
  map fst (concepts_list (full_col C15_c)) = map fst (concepts_list C15_c) /\
  (* a context that is not a full powerset lattice: 6 concepts before and after each transformation *)
  map num_concepts [mkCtx 3 3 [3; 1; 6]; perm_ctx (mkCtx 3 3 [3; 1; 6]) C15_sinv C15_tinv;
                    transpose (mkCtx 3 3 [3; 1; 6]); dup_row (mkCtx 3 3 [3; 1; 6]) 0;
                    dup_col (mkCtx 3 3 [3; 1; 6]) 2; full_col (mkCtx 3 3 [3; 1; 6])]
    = [6; 6; 6; 6; 6; 6]%nat.
Proof. vm_compute. repeat split. Qed.
