(** C20 — Graphviz export.  Abstract DOT body: exactly one node statement per concept named
    by its index; the plain edges are exactly concept -> each lower neighbour.  That lower
    neighbours are the lower covers is C05; the label statements follow C10 ([_partial]:
    correspondence).  Not modelled: graphviz's line syntax and quoting. *)
From Coq Require Import ZArith List Bool.
From Concepts Require Import Base.Res Base.PyInt Base.BitSet Spec.FCA Spec.Context
  Model.Matrices Model.ContextApi Model.Members Model.Lattice Model.LatticeApi
  Proofs.Matrices Proofs.ContextApi Proofs.Closure Proofs.LatticeBasics Proofs.LatticeFirst.
Import ListNotations.
Open Scope Z_scope.

Theorem C20_nodes : forall L, filter is_node (dot_body L) = map (fun c => DNode (c_index c)) (l_concepts L).
Proof. exact dot_nodes. Qed.
Theorem C20_edges : forall L,
  filter is_edge (dot_body L) =
  flat_map (fun c => map (fun j => DEdge (c_index c) j) (sort_by (fun j => (Z.of_nat j, 0)) (c_lower c))) (l_concepts L).
Proof. exact dot_edges. Qed.
