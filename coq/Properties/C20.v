(** C20 — Graphviz export.

    "the DOT source declares exactly one node per concept (named by its index), exactly one
    undirected edge per covering pair, drawn from a concept to each of its lower neighbors and
    nowhere else, and attaches an object label, resp. property label, precisely when the concept
    carries objects, resp. properties, in the reduced labelling, with the text produced from
    exactly those names."

    Scope: [dot_body L] is the ABSTRACT body of the Digraph built by visualize.lattice: a list of
    statements [DNode i] (node named by index i), [DHead i objs] / [DTail i props] (the object /
    property label attached to node i, carrying the label's names as positions in the context),
    [DEdge i j] (plain edge from node i to node j; the graph is drawn with dir=none).
    NOT MODELLED: the graphviz package's line syntax and quoting, and the rendering of a label's
    names into text (the harness parses Digraph.body back into these statements).

    END-TO-END: [L] is the value returned by the model of [Context.lattice] ([build_lattice],
    satisfiable by [C03_terminates]); [concept_at L i x]: [x] is its i-th member (whose index is
    i, C06).  That the lower neighbours are the lower covers is C05, the content of the labels
    is C10; both are composed here ([C20_edge_covers], [C20_label_content]). *)
From Coq Require Import ZArith List Bool.
From Concepts Require Import Base.Res Base.PyInt Base.BitSet Spec.FCA Spec.Context Spec.LatticeSpec
  Model.Matrices Model.ContextApi Model.Members Model.Lattice Model.LatticeApi
  Proofs.Matrices Proofs.ContextApi Proofs.Closure Proofs.LatticeBasics Proofs.LatticeFirst
  Proofs.BuildLattice Proofs.LatticeLabels Proofs.Assemble.
Import ListNotations.
Open Scope Z_scope.

(** * nodes: exactly one per concept, named by its index, in iteration order *)

Theorem C20_nodes : forall L, filter is_node (dot_body L) = map (fun c => DNode (c_index c)) (l_concepts L).
Proof. exact dot_nodes. Qed.

Theorem C20_nodes_by_index : forall fuel dfuel c L,
  wf_ctx c -> (Nat.max (nG c) (nM c) <= dfuel)%nat -> build_lattice fuel dfuel (relation_new c) = Ok L ->
  filter is_node (dot_body L) = map DNode (seq 0 (length (l_concepts L))).
Proof.
  intros fuel dfuel c L Hwf Hd HB.
  exact (dot_nodes_seq c L (build_lattice_ok fuel dfuel c L Hwf Hd HB)).
Qed.

Theorem C20_node_iff : forall fuel dfuel c L i,
  wf_ctx c -> (Nat.max (nG c) (nM c) <= dfuel)%nat -> build_lattice fuel dfuel (relation_new c) = Ok L ->
  (In (DNode i) (dot_body L) <-> (i < length (l_concepts L))%nat).
Proof.
  intros fuel dfuel c L i Hwf Hd HB.
  exact (dot_node_iff c L (build_lattice_ok fuel dfuel c L Hwf Hd HB) i).
Qed.

(** * edges: from a concept to each of its lower neighbours and nowhere else *)

Theorem C20_edges : forall L,
  filter is_edge (dot_body L) =
  flat_map (fun c => map (fun j => DEdge (c_index c) j) (sort_by (fun j => (Z.of_nat j, 0)) (c_lower c))) (l_concepts L).
Proof. exact dot_edges. Qed.

Theorem C20_edge_iff : forall fuel dfuel c L i j,
  wf_ctx c -> (Nat.max (nG c) (nM c) <= dfuel)%nat -> build_lattice fuel dfuel (relation_new c) = Ok L ->
  (In (DEdge i j) (dot_body L) <-> exists x, concept_at L i x /\ In j (c_lower x)).
Proof.
  intros fuel dfuel c L i j Hwf Hd HB.
  exact (dot_edge_iff c L (build_lattice_ok fuel dfuel c L Hwf Hd HB) i j).
Qed.

(** ... i.e. exactly the covering pairs (upper member first) *)
Theorem C20_edge_covers : forall fuel dfuel c L i j,
  wf_ctx c -> (Nat.max (nG c) (nM c) <= dfuel)%nat -> build_lattice fuel dfuel (relation_new c) = Ok L ->
  (In (DEdge i j) (dot_body L) <->
   exists x y, concept_at L i x /\ concept_at L j y /\ covers c (c_extent y) (c_extent x)).
Proof.
  intros fuel dfuel c L i j Hwf Hd HB.
  exact (dot_edge_covers c L (build_lattice_ok fuel dfuel c L Hwf Hd HB) i j).
Qed.

(** exactly one edge per covering pair; more generally no statement occurs twice *)
Theorem C20_edges_NoDup : forall fuel dfuel c L,
  wf_ctx c -> (Nat.max (nG c) (nM c) <= dfuel)%nat -> build_lattice fuel dfuel (relation_new c) = Ok L ->
  NoDup (filter is_edge (dot_body L)).
Proof.
  intros fuel dfuel c L Hwf Hd HB.
  exact (dot_edges_NoDup c L (build_lattice_ok fuel dfuel c L Hwf Hd HB)).
Qed.

Theorem C20_body_NoDup : forall fuel dfuel c L,
  wf_ctx c -> (Nat.max (nG c) (nM c) <= dfuel)%nat -> build_lattice fuel dfuel (relation_new c) = Ok L ->
  NoDup (dot_body L).
Proof.
  intros fuel dfuel c L Hwf Hd HB.
  exact (dot_body_NoDup c L (build_lattice_ok fuel dfuel c L Hwf Hd HB)).
Qed.

(** * labels: attached precisely when the concept carries objects / properties, with exactly
      those names *)

Theorem C20_labels : forall fuel dfuel c L i objs props,
  wf_ctx c -> (Nat.max (nG c) (nM c) <= dfuel)%nat -> build_lattice fuel dfuel (relation_new c) = Ok L ->
  (In (DHead i objs) (dot_body L) <-> exists x, concept_at L i x /\ c_objects x = objs /\ objs <> []) /\
  (In (DTail i props) (dot_body L) <-> exists x, concept_at L i x /\ c_properties x = props /\ props <> []).
Proof.
  intros fuel dfuel c L i objs props Hwf Hd HB.
  exact (dot_labels c L (build_lattice_ok fuel dfuel c L Hwf Hd HB) i objs props).
Qed.

Theorem C20_label_head : forall fuel dfuel c L i objs,
  wf_ctx c -> (Nat.max (nG c) (nM c) <= dfuel)%nat -> build_lattice fuel dfuel (relation_new c) = Ok L ->
  (In (DHead i objs) (dot_body L) <-> exists x, concept_at L i x /\ c_objects x = objs /\ objs <> []).
Proof.
  intros fuel dfuel c L i objs Hwf Hd HB.
  exact (dot_labels_head c L (build_lattice_ok fuel dfuel c L Hwf Hd HB) i objs).
Qed.

Theorem C20_label_tail : forall fuel dfuel c L i props,
  wf_ctx c -> (Nat.max (nG c) (nM c) <= dfuel)%nat -> build_lattice fuel dfuel (relation_new c) = Ok L ->
  (In (DTail i props) (dot_body L) <-> exists x, concept_at L i x /\ c_properties x = props /\ props <> []).
Proof.
  intros fuel dfuel c L i props Hwf Hd HB.
  exact (dot_labels_tail c L (build_lattice_ok fuel dfuel c L Hwf Hd HB) i props).
Qed.

(** the names on an attached label are those of the reduced labelling (C10): the objects whose
    object concept, resp. the properties whose attribute concept, is the labelled concept *)
Theorem C20_label_content : forall fuel dfuel c L i x,
  wf_ctx c -> (Nat.max (nG c) (nM c) <= dfuel)%nat -> build_lattice fuel dfuel (relation_new c) = Ok L ->
  concept_at L i x ->
  (forall o, In o (c_objects x) <-> (o < nG c)%nat /\ c_extent x = clO c (bit o)) /\
  (forall p, In p (c_properties x) <-> (p < nM c)%nat /\ c_extent x = upM c (bit p)).
Proof.
  intros fuel dfuel c L i x Hwf Hd HB Hx. pose proof (build_lattice_ok fuel dfuel c L Hwf Hd HB) as OK.
  split; [intros o; exact (ok_objects c L OK i x o Hx)|intros p; exact (ok_properties c L OK i x p Hx)].
Qed.

(** * witness: rows {0,1}, {1,2}, {2,3}, {0,1,2}: the whole abstract body *)
Example C20_witness :
  let c := mkCtx 4 4 [3; 6; 12; 7] in
  wf_ctx c /\ (Nat.max (nG c) (nM c) <= 4)%nat /\
  exists L, build_lattice 20 4 (relation_new c) = Ok L /\
    dot_body L
    = [DNode 0; DNode 1; DHead 1 [2]; DTail 1 [3]; DEdge 1 0; DNode 2; DHead 2 [3]; DEdge 2 0;
       DNode 3; DHead 3 [0]; DTail 3 [0]; DEdge 3 2; DNode 4; DHead 4 [1]; DEdge 4 2;
       DNode 5; DTail 5 [1]; DEdge 5 3; DEdge 5 4; DNode 6; DTail 6 [2]; DEdge 6 1; DEdge 6 4;
       DNode 7; DEdge 7 5; DEdge 7 6]%nat.
Proof.
  cbv zeta. split; [apply wf_ctxb_sound; vm_compute; reflexivity|]. split; [apply le_by_leb; vm_compute; reflexivity|].
  apply witness_intro. vm_compute. reflexivity.
Qed.
