(** C18 — attributes() / minimal().  STATUS: [_partial].  Proved: for an empty extent the
    enumeration is exactly the full intent.  The shortlex powerset filter is decided by the
    correspondence in this revision. *)
From Coq Require Import ZArith List Bool.
From Concepts Require Import Base.Res Base.PyInt Base.BitSet Spec.FCA Spec.Context
  Model.Matrices Model.ContextApi Model.Members Model.Lattice Model.LatticeApi
  Proofs.Matrices Proofs.ContextApi Proofs.Closure Proofs.LatticeBasics Proofs.LatticeFirst.
Import ListNotations.
Open Scope Z_scope.

Theorem C18_empty_extent : forall d k intent, minimize d k 0 intent = Ok [intent].
Proof. exact minimize_empty_extent. Qed.
