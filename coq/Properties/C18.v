(** C18 — attributes() / minimal().

    "For any concept with a non-empty extent, attributes() yields exactly those subsets of its
    intent whose common objects are the concept's extent, each once, ordered by size and then by
    property position, and minimal() is the first of them; every yielded set regenerates the
    concept via lattice(...).  For a concept with empty extent attributes() yields just its full
    intent, and the infimum's minimal() is its full intent."

    END-TO-END: [L] is the value returned by the model of [Context.lattice] ([build_lattice],
    satisfiable by [C03_terminates]); [concept_at L i x] says [x] is its i-th member.
    [attributes d L i] lists the yielded sets as lists of property positions ([indexes t] of the
    bitset [t]); [generators c x] is that enumeration as bitsets:
    the subsets [t] of the intent in the order of [powerset_shortlex] (all subsets, by size then
    by position: [C18_powerset_In], [C18_powerset_sorted], [C18_shortlex_meaning]) that satisfy
    [upM c t = c_extent x] (t' = extent). *)
From Coq Require Import ZArith List Bool Sorted.
From Concepts Require Import Base.Res Base.PyInt Base.BitSet Spec.FCA Spec.Context Spec.LatticeSpec
  Model.Matrices Model.ContextApi Model.Members Model.Lattice Model.LatticeApi
  Proofs.Matrices Proofs.ContextApi Proofs.Closure Proofs.LatticeBasics Proofs.LatticeFirst
  Proofs.Keys Proofs.SortBy Proofs.Powerset Proofs.BuildLattice Proofs.LatticeLabels Proofs.Assemble.
Import ListNotations.
Open Scope Z_scope.

(** * attributes() of a concept with non-empty extent *)

Theorem C18_attributes : forall fuel dfuel c L i x,
  wf_ctx c -> (Nat.max (nG c) (nM c) <= dfuel)%nat -> build_lattice fuel dfuel (relation_new c) = Ok L ->
  concept_at L i x -> c_extent x <> 0 ->
  attributes dfuel L i =
  Ok (map indexes (filter (fun t => upM c t =? c_extent x) (powerset_shortlex (c_intent x)))).
Proof.
  intros fuel dfuel c L i x Hwf Hd HB.
  exact (attributes_spec c L (build_lattice_ok fuel dfuel c L Hwf Hd HB) dfuel Hd i x).
Qed.

(** * attributes() of a concept with empty extent: just its full intent *)

Theorem C18_attributes_empty_extent : forall L dfuel i x, concept_at L i x -> c_extent x = 0 ->
  attributes dfuel L i = Ok [indexes (c_intent x)].
Proof. exact attributes_empty_extent. Qed.

(** * both cases: attributes() lists [generators c x]; what that list contains, in what order *)

Theorem C18_attributes_generators : forall fuel dfuel c L i x,
  wf_ctx c -> (Nat.max (nG c) (nM c) <= dfuel)%nat -> build_lattice fuel dfuel (relation_new c) = Ok L ->
  concept_at L i x -> attributes dfuel L i = Ok (map indexes (generators c x)).
Proof.
  intros fuel dfuel c L i x Hwf Hd HB.
  exact (attributes_generators c L (build_lattice_ok fuel dfuel c L Hwf Hd HB) dfuel Hd i x).
Qed.

(** every yielded set is a set of properties, a subset of the intent, with t' = extent *)
Theorem C18_generators_sound : forall fuel dfuel c L i x t,
  wf_ctx c -> (Nat.max (nG c) (nM c) <= dfuel)%nat -> build_lattice fuel dfuel (relation_new c) = Ok L ->
  concept_at L i x -> In t (generators c x) ->
  in_range (nM c) t /\ subset t (c_intent x) /\ upM c t = c_extent x.
Proof.
  intros fuel dfuel c L i x t Hwf Hd HB.
  exact (generators_sound c L (build_lattice_ok fuel dfuel c L Hwf Hd HB) i x t).
Qed.

(** for a non-empty extent, exactly those *)
Theorem C18_generators_complete : forall fuel dfuel c L i x t,
  wf_ctx c -> (Nat.max (nG c) (nM c) <= dfuel)%nat -> build_lattice fuel dfuel (relation_new c) = Ok L ->
  concept_at L i x -> c_extent x <> 0 ->
  (In t (generators c x) <-> 0 <= t /\ subset t (c_intent x) /\ upM c t = c_extent x).
Proof.
  intros fuel dfuel c L i x t Hwf Hd HB.
  exact (generators_complete c L (build_lattice_ok fuel dfuel c L Hwf Hd HB) i x t).
Qed.

(** each once, ordered by the shortlex key over the properties: by size, then by position *)
Theorem C18_generators_sorted : forall fuel dfuel c L i x,
  wf_ctx c -> (Nat.max (nG c) (nM c) <= dfuel)%nat -> build_lattice fuel dfuel (relation_new c) = Ok L ->
  concept_at L i x ->
  StronglySorted (klt (shortlex (nM c))) (generators c x) /\ NoDup (generators c x).
Proof.
  intros fuel dfuel c L i x Hwf Hd HB.
  exact (generators_sorted c L (build_lattice_ok fuel dfuel c L Hwf Hd HB) i x).
Qed.

Theorem C18_shortlex_meaning : forall r a b, in_range r a -> in_range r b ->
  (klt (shortlex r) a b <->
   (count a < count b)%nat \/ (count a = count b /\ lexlt a b)).
Proof. exact shortlex_meaning. Qed.

(** the full intent is always among them, last *)
Theorem C18_attributes_last_is_intent : forall fuel dfuel c L i x,
  wf_ctx c -> (Nat.max (nG c) (nM c) <= dfuel)%nat -> build_lattice fuel dfuel (relation_new c) = Ok L ->
  concept_at L i x ->
  exists l, attributes dfuel L i = Ok l /\ In (indexes (c_intent x)) l /\ l <> [] /\
            last l [] = indexes (c_intent x).
Proof.
  intros fuel dfuel c L i x Hwf Hd HB.
  exact (attributes_nonempty_last c L (build_lattice_ok fuel dfuel c L Hwf Hd HB) dfuel Hd i x).
Qed.

(** in terms of the yielded lists of property names: valid, inside the intent, generating the
    extent; no list yielded twice *)
Theorem C18_attributes_valid : forall fuel dfuel c L i x l ms,
  wf_ctx c -> (Nat.max (nG c) (nM c) <= dfuel)%nat -> build_lattice fuel dfuel (relation_new c) = Ok L ->
  concept_at L i x -> attributes dfuel L i = Ok l -> In ms l ->
  Forall (fun p => (p < nM c)%nat) ms /\ (forall p, In p ms -> mem (c_intent x) p = true) /\
  upM c (of_list ms) = c_extent x.
Proof.
  intros fuel dfuel c L i x l ms Hwf Hd HB.
  exact (attributes_valid c L (build_lattice_ok fuel dfuel c L Hwf Hd HB) dfuel Hd i x l ms).
Qed.

Theorem C18_attributes_NoDup : forall fuel dfuel c L i x l,
  wf_ctx c -> (Nat.max (nG c) (nM c) <= dfuel)%nat -> build_lattice fuel dfuel (relation_new c) = Ok L ->
  concept_at L i x -> attributes dfuel L i = Ok l -> NoDup l.
Proof.
  intros fuel dfuel c L i x l Hwf Hd HB.
  exact (attributes_NoDup c L (build_lattice_ok fuel dfuel c L Hwf Hd HB) dfuel i x l Hd).
Qed.

(** * every yielded set regenerates the concept via lattice(...) *)

Theorem C18_attributes_regenerate : forall fuel dfuel c L i x l ms,
  wf_ctx c -> (Nat.max (nG c) (nM c) <= dfuel)%nat -> build_lattice fuel dfuel (relation_new c) = Ok L ->
  concept_at L i x -> attributes dfuel L i = Ok l -> In ms l -> lattice_call dfuel L ms = Ok i.
Proof.
  intros fuel dfuel c L i x l ms Hwf Hd HB.
  exact (attributes_regenerate c L (build_lattice_ok fuel dfuel c L Hwf Hd HB) dfuel Hd i x l ms).
Qed.

(** * minimal(): the first yielded set (a smallest one); the infimum's is its full intent *)

Theorem C18_minimal_is_head : forall fuel dfuel c L i x,
  wf_ctx c -> (Nat.max (nG c) (nM c) <= dfuel)%nat -> build_lattice fuel dfuel (relation_new c) = Ok L ->
  concept_at L i x -> i <> 0%nat ->
  exists h t, attributes dfuel L i = Ok (h :: t) /\ minimal dfuel L i = Ok h /\
              forall ms, In ms (h :: t) -> (length h <= length ms)%nat.
Proof.
  intros fuel dfuel c L i x Hwf Hd HB.
  exact (minimal_is_head c L (build_lattice_ok fuel dfuel c L Hwf Hd HB) dfuel Hd i x).
Qed.

Theorem C18_minimal_infimum : forall L dfuel x0, concept_at L 0 x0 ->
  minimal dfuel L 0 = Ok (indexes (c_intent x0)).
Proof. exact minimal_infimum. Qed.

(** * the enumeration the filter runs over: all subsets, by size then position, each once *)

Theorem C18_powerset_In : forall r s, in_range r s ->
  forall t, In t (powerset_shortlex s) <-> 0 <= t /\ subset t s.
Proof. exact powerset_shortlex_In. Qed.

Theorem C18_powerset_sorted : forall r s, in_range r s ->
  StronglySorted (klt (shortlex r)) (powerset_shortlex s).
Proof. exact powerset_shortlex_sorted. Qed.

Theorem C18_powerset_NoDup : forall r s, in_range r s -> NoDup (powerset_shortlex s).
Proof. exact powerset_shortlex_NoDup. Qed.

(** * Context._minimize itself *)

Theorem C18_minimize : forall dfuel c extent intent,
  extent <> 0 -> in_range (nM c) intent -> (nM c <= dfuel)%nat ->
  minimize dfuel (relation_new c) extent intent =
  Ok (filter (fun t => upM c t =? extent) (powerset_shortlex intent)).
Proof. exact minimize_spec. Qed.

Theorem C18_empty_extent : forall d k intent, minimize d k 0 intent = Ok [intent].
Proof. exact minimize_empty_extent. Qed.

(** * witness: rows {0,1}, {1,2}, {2,3}, {0,1,2}.  Member 1 = ({2}, {2,3}) is generated by {3}
      and by {2,3}; member 3 = ({0,3}, {0,1}) by {0} and {0,1}; the infimum has empty extent. *)
Example C18_witness :
  let c := mkCtx 4 4 [3; 6; 12; 7] in
  wf_ctx c /\ (Nat.max (nG c) (nM c) <= 4)%nat /\
  exists L, build_lattice 20 4 (relation_new c) = Ok L /\
    (attributes 4 L 1, attributes 4 L 3, minimal 4 L 3, attributes 4 L 0, minimal 4 L 0)
    = (Ok [[3]; [2; 3]], Ok [[0]; [0; 1]], Ok [0], Ok [[0; 1; 2; 3]], Ok [0; 1; 2; 3])%nat.
Proof.
  cbv zeta. split; [apply wf_ctxb_sound; vm_compute; reflexivity|]. split; [apply le_by_leb; vm_compute; reflexivity|].
  apply witness_intro. vm_compute. reflexivity.
Qed.
