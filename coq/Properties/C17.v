(** C17 — All results are deterministic across processes and hash seeds.

    The only hash-seed dependent behaviour of the Python code is the iteration order of its sets
    (str hashes are randomised per process).  In the Definition machine (Model/Definition.v) the
    Python sets are [u_seen] (the membership set [_seen] of tools.Unique) and [d_pairs] (the set
    [_pairs] of true cells); the model stores them as lists, i.e. WITH an order.  The theorems below
    show that this order is irrelevant: two stores whose definitions have the same ordered items and
    whose set-valued components are arbitrary [Permutation]s of each other (relation [deq], spelled
    out by [C17_deq_meaning]; [Forall2 deq] on stores) give, for every operation, the same return
    value or the same exception, again related stores, and equal observations
    ((objects, properties, bools) triples, [obs_defn]) of every handle - for one step
    ([C17_step_order_independent]), along whole histories ([C17_history_order], [C17_run_order];
    [run] collects the list of results), and even when all sets are re-ordered arbitrarily before
    every single call ([C17_reordering_before_every_call]).  Arbitrary permutations over-approximate
    every iteration order that any hash seed (or a rehash on resize) can produce.  No invariant is
    needed.

    What is NOT modelled.
    - CPython's string hashing itself (the function from PYTHONHASHSEED to iteration orders): every
      such order is one of the permutations quantified over here.
    - The [id()]-based hashes of Concept objects in tools.maximal (used by lattice.upset_union /
      downset_union, whose seeds go through a [set]): not modelled as such; instead the C09 theorems
      [upset_union_spec] / [downset_union_spec] (Properties/C09.v) characterise the result as a
      function of the SET of seeds (members above / below some seed, in index / dindex order), and
      [C17_union_seed_order_irrelevant] / [C17_downset_union_seed_order_irrelevant] below state the
      consequence: two seed collections with the same members give the same result, whatever their
      order or multiplicity.
    - The multi-process part of the property is exercised, not proved: the harness runs a fixed corpus
      in separate interpreters with different PYTHONHASHSEED values and compares the outputs. *)
From Coq Require Import ZArith List Bool Permutation.
From Concepts Require Import Base.Res Base.PyInt Base.BitSet Spec.FCA Spec.Context Spec.LatticeSpec
  Model.Matrices Model.ContextApi Model.Members Model.Lattice Model.LatticeApi
  Proofs.Matrices Proofs.ContextApi Proofs.Closure Proofs.LatticeBasics Proofs.LatticeFirst
  Proofs.BuildLattice Proofs.IterUnion Proofs.Assemble.
From Concepts Require Import Model.Definition Spec.DefSpec Proofs.Definition Proofs.DefOrder Proofs.AssembleDef.
Import ListNotations.

(** * the relation: same ordered items, set-valued components up to permutation *)

Theorem C17_deq_meaning : forall d1 d2,
  deq d1 d2 <->
  (u_items (d_objs d1) = u_items (d_objs d2) /\ Permutation (u_seen (d_objs d1)) (u_seen (d_objs d2))) /\
  (u_items (d_props d1) = u_items (d_props d2) /\ Permutation (u_seen (d_props d1)) (u_seen (d_props d2))) /\
  Permutation (d_pairs d1) (d_pairs d2).
Proof. intros d1 d2. reflexivity. Qed.

Theorem C17_deq_same_observation : forall d1 d2, deq d1 d2 -> obs_defn d1 = obs_defn d2.
Proof. exact deq_obs. Qed.

Theorem C17_related_stores_same_observations : forall s1 s2,
  Forall2 deq s1 s2 -> map obs_defn s1 = map obs_defn s2.
Proof. exact Forall2_deq_obs. Qed.

(** * one call *)

Theorem C17_step_order_independent : forall s1 s2 o,
  Forall2 deq s1 s2 ->
  match step s1 o, step s2 o with
  | Ok (s1', r1), Ok (s2', r2) => r1 = r2 /\ Forall2 deq s1' s2'
  | Raise e1, Raise e2 => e1 = e2
  | _, _ => False
  end.
Proof. exact step_order_independent. Qed.

Theorem C17_step_total_order_independent : forall s1 s2 o,
  Forall2 deq s1 s2 ->
  Forall2 deq (fst (step_total s1 o)) (fst (step_total s2 o)) /\ snd (step_total s1 o) = snd (step_total s2 o).
Proof. exact step_total_order. Qed.

(** * whole histories *)

Theorem C17_history_order : forall ops s1 s2,
  Forall2 deq s1 s2 ->
  Forall2 deq (fold_left (fun s o => fst (step_total s o)) ops s1) (fold_left (fun s o => fst (step_total s o)) ops s2).
Proof. exact history_order. Qed.

(** same list of return values / exceptions, same observations of every handle *)
Theorem C17_run_order : forall ops s1 s2,
  Forall2 deq s1 s2 ->
  snd (run ops s1) = snd (run ops s2) /\ Forall2 deq (fst (run ops s1)) (fst (run ops s2)) /\
  map obs_defn (fst (run ops s1)) = map obs_defn (fst (run ops s2)).
Proof. exact run_order. Qed.

(** the sets may be re-ordered arbitrarily before every call ([run_shuffled shuffle i ops s] applies
    [shuffle j] to the whole store before call number j >= i, Proofs/AssembleDef.v) *)
Theorem C17_reordering_before_every_call : forall shuffle,
  (forall i s, Forall2 deq s (shuffle i s)) ->
  forall ops i s1 s2, Forall2 deq s1 s2 ->
  snd (run ops s1) = snd (run_shuffled shuffle i ops s2) /\
  Forall2 deq (fst (run ops s1)) (fst (run_shuffled shuffle i ops s2)) /\
  map obs_defn (fst (run ops s1)) = map obs_defn (fst (run_shuffled shuffle i ops s2)).
Proof. exact run_shuffled_same. Qed.

(** * tools.maximal / upset_union / downset_union: only the SET of seeds matters *)

Theorem C17_union_seed_order_irrelevant : forall c L cs1 cs2 fuel1 fuel2,
  lattice_ok c L ->
  (forall i, In i cs1 -> (i < length (l_concepts L))%nat) ->
  (forall i, In i cs1 <-> In i cs2) ->
  (length cs1 + edges_up L <= fuel1)%nat -> (length cs2 + edges_up L <= fuel2)%nat ->
  upset_union fuel1 L cs1 = upset_union fuel2 L cs2.
Proof. exact upset_union_seed_order. Qed.

Theorem C17_downset_union_seed_order_irrelevant : forall c L cs1 cs2 fuel1 fuel2,
  lattice_ok c L ->
  (forall i, In i cs1 -> (i < length (l_concepts L))%nat) ->
  (forall i, In i cs1 <-> In i cs2) ->
  (length cs1 + edges_down L <= fuel1)%nat -> (length cs2 + edges_down L <= fuel2)%nat ->
  downset_union fuel1 L cs1 = downset_union fuel2 L cs2.
Proof. exact downset_union_seed_order. Qed.

(** end to end: [L] is the value returned by the model of Context.lattice *)
Theorem C17_union_seed_order_irrelevant_built : forall fuel dfuel c L cs1 cs2 fuel1 fuel2,
  wf_ctx c -> (Nat.max (nG c) (nM c) <= dfuel)%nat -> build_lattice fuel dfuel (relation_new c) = Ok L ->
  (forall i, In i cs1 -> (i < length (l_concepts L))%nat) ->
  (forall i, In i cs1 <-> In i cs2) ->
  (length cs1 + edges_up L <= fuel1)%nat -> (length cs2 + edges_up L <= fuel2)%nat ->
  (length cs1 + edges_down L <= fuel1)%nat -> (length cs2 + edges_down L <= fuel2)%nat ->
  upset_union fuel1 L cs1 = upset_union fuel2 L cs2 /\ downset_union fuel1 L cs1 = downset_union fuel2 L cs2.
Proof. exact union_seed_order_built. Qed.

(** * witnesses.  (1) the same history run once as is and once with every set of every definition
      reversed before every call ([rev_sets]): same results, same triples, although the stored sets
      end up in different orders.  (2) the lattice of C09_witness: seeds [1; 2; 1; 4] and [4; 2; 1]. *)
Example C17_witness :
  let ops :=
    [ DNew [0; 1; 2] [10; 11; 12] [[true; false; true]; [false; true; false]; [true; true; false]];
      OAddObject 0 3 [12; 13];
      DNew [2; 3] [12; 13] [[true; false]; [true; true]];
      ORenameObject 0 1 7;
      DUnion 0 1 false;
      DUnion 0 1 true;
      ORemoveProperty 2 11;
      ORemoveEmptyObjects 2;
      DInverted 2;
      OUnionUpdate 3 1 true;
      ORemoveObject 0 9 ]%nat in
  let shuffle := fun (_ : nat) (s : store) => map rev_sets s in
  (forall i s, Forall2 deq s (shuffle i s)) /\
  snd (run ops []) = snd (run_shuffled shuffle 0 ops []) /\
  snd (run ops []) = [ Ok (RHandle 0); Ok RNone; Ok (RHandle 1); Ok RNone; Raise ValueError; Ok (RHandle 2);
                       Ok RNone; Ok (RNames [7]); Ok (RHandle 3); Ok RNone; Raise KeyError ]%nat /\
  map obs_defn (fst (run ops [])) = map obs_defn (fst (run_shuffled shuffle 0 ops [])) /\
  map d_pairs (fst (run ops [])) <> map d_pairs (fst (run_shuffled shuffle 0 ops [])).
Proof.
  cbv zeta. split; [intros i s; apply map_rev_sets_deq|]. vm_compute. repeat split; try reflexivity. discriminate.
Qed.

Example C17_witness_seeds :
  let c := mkCtx 4 4 [3; 6; 12; 7] in
  wf_ctx c /\ (Nat.max (nG c) (nM c) <= 4)%nat /\
  exists L, build_lattice 20 4 (relation_new c) = Ok L /\
    (upset_union 20 L [1; 2; 1; 4], upset_union 20 L [4; 2; 1],
     downset_union 20 L [4; 5; 4; 1], downset_union 20 L [1; 5; 4])%nat
    = (Ok [1; 2; 3; 4; 5; 6; 7], Ok [1; 2; 3; 4; 5; 6; 7], Ok [5; 3; 4; 1; 2; 0], Ok [5; 3; 4; 1; 2; 0])%nat.
Proof.
  cbv zeta. split; [apply wf_ctxb_sound; vm_compute; reflexivity|]. split; [apply le_by_leb; vm_compute; reflexivity|].
  apply witness_intro. vm_compute. reflexivity.
Qed.
