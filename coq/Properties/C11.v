(** C11 — Structured persistence reloads the same context and the same lattice.

    "todict() is the documented index-based encoding of the table and (when included) of the
    lattice - extents, intents, upper and lower neighbor indexes in canonical order - and
    fromdict/... rebuild an equal context whose stored lattice is indistinguishable, through
    every public query, from the one recomputed from scratch; with raw=True the same holds for
    any permutation of the stored sequences."

    MODELLED (Model/Persist.v, Model/Lattice.v): the codec logic.
      - Context.todict()['context'] = [context_index_sets]; Lattice._tolist = [tolist];
      - Lattice._fromlist = [fromlist]: decoding [sum(1 << e for e in ex)] = [sum_bits], the
        ordered path (raw = false: the stored order is trusted) and the raw path (raw = true:
        entries re-sorted by shortlex of the extents, neighbour tuples re-sorted by shortlex /
        longlex through the original positions and renamed), followed by Lattice._init
        (dindex, atoms, reduced labelling by _annotate).
    The theorems cover: the encoding, the ordered reload, and the raw reload under an ARBITRARY
    permutation of the entry list and of every tuple.  The reloaded lattice is EQUAL, as a
    record, to the value of [build_lattice] (the model of [Context.lattice]): every field of
    every member (extent, intent, upper, lower, index, dindex, atoms, objects, properties) and
    the extent mapping coincide, so every public query, being a function of that record, gives
    the same answer.

    NOT MODELLED, only exercised by the harness: json text and files, repr / ast.literal_eval
    (python-literal format), pickle and the bitsets class registry, recursion depth, file
    encodings, a second interpreter process; the validation performed by fromdict on malformed
    input (C19 covers the modelled part of validation).

    END-TO-END: [L] is the value returned by [build_lattice] (satisfiable by [C03_terminates]).
    Positions in a serialisation: [order] lists, for every new position, the original position
    of the entry put there; the entry originally at [old] is therefore found at
    [rank_in order old], and that is how its index is renamed inside neighbour tuples. *)
From Coq Require Import ZArith List Bool Sorted Permutation.
From Concepts Require Import Base.Res Base.PyInt Base.BitSet Spec.FCA Spec.Context Spec.LatticeSpec
  Model.Matrices Model.ContextApi Model.Members Model.Lattice Model.Persist
  Proofs.Matrices Proofs.ContextApi Proofs.Closure Proofs.LatticeBasics Proofs.LatticeFirst
  Proofs.SortBy Proofs.BuildLattice Proofs.Assemble Proofs.Persist.
Import ListNotations.
Open Scope Z_scope.

(** * decoding: the sum of the distinct powers of two of an index tuple is the bitset, in any order *)

Theorem C11_sum_bits_indexes : forall n s, in_range n s -> sum_bits (indexes s) = s.
Proof. exact sum_bits_indexes. Qed.

Theorem C11_sum_bits_any_order : forall n s l,
  in_range n s -> Permutation l (indexes s) -> sum_bits l = s.
Proof. exact sum_bits_perm_indexes. Qed.

Theorem C11_sum_bits_is_union : forall l, NoDup l -> sum_bits l = of_list l.
Proof. exact sum_bits_of_list. Qed.

(** * the encoding of the table: one ascending index tuple per row, which denotes the row again *)

Theorem C11_context_encoding : forall c, wf_ctx c ->
  context_index_sets (relation_new c) = map indexes (rows c) /\
  length (context_index_sets (relation_new c)) = nG c /\
  (forall g, (g < nG c)%nat ->
     nth g (context_index_sets (relation_new c)) [] = indexes (row c g) /\
     StronglySorted lt (indexes (row c g)) /\
     (forall m, In m (indexes (row c g)) <-> (m < nM c)%nat /\ inc c g m = true)).
Proof. exact context_encoding. Qed.

Theorem C11_context_decoding : forall c sets, wf_ctx c ->
  Forall2 (fun l l' => Permutation l' l) (context_index_sets (relation_new c)) sets ->
  map sum_bits sets = rows c.
Proof. exact context_decoding. Qed.

(** * the encoding of the lattice: per member, ascending extent / intent indexes, and the upper /
      lower neighbour positions (= covering relation) in shortlex / longlex order *)

Theorem C11_todict_encoding : forall fuel dfuel c L,
  wf_ctx c -> (Nat.max (nG c) (nM c) <= dfuel)%nat ->
  build_lattice fuel dfuel (relation_new c) = Ok L ->
  tolist L = map (fun x => (indexes (c_extent x), indexes (c_intent x), c_upper x, c_lower x)) (l_concepts L) /\
  forall i x, concept_at L i x ->
    nth_error (tolist L) i = Some (indexes (c_extent x), indexes (c_intent x), c_upper x, c_lower x) /\
    StronglySorted lt (indexes (c_extent x)) /\
    (forall g, In g (indexes (c_extent x)) <-> (g < nG c)%nat /\ mem (c_extent x) g = true) /\
    StronglySorted lt (indexes (c_intent x)) /\
    (forall m, In m (indexes (c_intent x)) <-> (m < nM c)%nat /\ mem (c_intent x) m = true) /\
    c_intent x = upO c (c_extent x) /\
    (forall j, In j (c_upper x) <-> exists y, concept_at L j y /\ covers c (c_extent x) (c_extent y)) /\
    (forall j, In j (c_lower x) <-> exists y, concept_at L j y /\ covers c (c_extent y) (c_extent x)) /\
    StronglySorted (fun a b => key_lt (shortlex (nG c) (nth_extent (l_exts L) a))
                                      (shortlex (nG c) (nth_extent (l_exts L) b))) (c_upper x) /\
    StronglySorted (fun a b => key_lt (longlex (nG c) (nth_extent (l_exts L) a))
                                      (longlex (nG c) (nth_extent (l_exts L) b))) (c_lower x).
Proof. exact todict_encoding. Qed.

(** * ordered reload: _fromlist (raw=False) + _init on the stored lattice gives back the computed one *)

Theorem C11_ordered_reload : forall fuel dfuel c L,
  wf_ctx c -> (Nat.max (nG c) (nM c) <= dfuel)%nat ->
  build_lattice fuel dfuel (relation_new c) = Ok L ->
  fromlist dfuel (relation_new c) (tolist L) false = Ok L.
Proof. exact fromlist_tolist_ordered. Qed.

(** * raw reload: any permutation of the entries (indexes renamed), every tuple shuffled *)

Theorem C11_raw_reload_any_permutation : forall fuel dfuel c L order lat',
  wf_ctx c -> (Nat.max (nG c) (nM c) <= dfuel)%nat ->
  build_lattice fuel dfuel (relation_new c) = Ok L ->
  perm_ser order (tolist L) lat' ->
  fromlist dfuel (relation_new c) lat' true = Ok L.
Proof. exact fromlist_raw_invariant. Qed.

(** [perm_ser] holds of the serialisation rebuilt from explicitly shuffled tuples *)
Theorem C11_perm_ser_of_shuffle : forall order lat lat',
  Permutation order (seq 0 (length lat)) ->
  Forall2 (fun old e' =>
             let '(ex, it, up, lo) := nth old lat dflt_entry in
             exists ex' it' up' lo',
               Permutation ex' ex /\ Permutation it' it /\ Permutation up' up /\ Permutation lo' lo /\
               e' = (ex', it', map (rank_in order) up', map (rank_in order) lo')) order lat' ->
  perm_ser order lat lat'.
Proof. exact perm_ser_of_shuffle. Qed.

(** entries permuted, tuples kept: the serialisation is obtained with [rename_entry] *)
Theorem C11_raw_entry_permutation : forall fuel dfuel c L order,
  wf_ctx c -> (Nat.max (nG c) (nM c) <= dfuel)%nat ->
  build_lattice fuel dfuel (relation_new c) = Ok L ->
  Permutation order (seq 0 (length (tolist L))) ->
  fromlist dfuel (relation_new c)
    (map (fun old => rename_entry (rank_in order) (nth old (tolist L) dflt_entry)) order) true = Ok L.
Proof. exact fromlist_raw_entry_permutation. Qed.

(** raw=True on the canonical serialisation *)
Theorem C11_raw_reload_canonical : forall fuel dfuel c L,
  wf_ctx c -> (Nat.max (nG c) (nM c) <= dfuel)%nat ->
  build_lattice fuel dfuel (relation_new c) = Ok L ->
  fromlist dfuel (relation_new c) (tolist L) true = Ok L.
Proof. exact raw_on_canonical. Qed.

(** the reloaded lattice is a correct lattice record (hence every theorem about queries on a
    [lattice_ok] record applies to it verbatim) *)
Theorem C11_reloaded_lattice_ok : forall fuel dfuel c L order lat' L',
  wf_ctx c -> (Nat.max (nG c) (nM c) <= dfuel)%nat ->
  build_lattice fuel dfuel (relation_new c) = Ok L ->
  perm_ser order (tolist L) lat' ->
  fromlist dfuel (relation_new c) lat' true = Ok L' -> L' = L /\ lattice_ok c L'.
Proof.
  intros fuel dfuel c L order lat' L' Hwf Hd HB Hser H.
  rewrite (fromlist_raw_invariant fuel dfuel c L order lat' Hwf Hd HB Hser) in H.
  injection H as <-. split; [reflexivity|exact (build_lattice_ok fuel dfuel c L Hwf Hd HB)].
Qed.

(** * witness: rows {0,2}, {0,1}, {1,2} (the 8-element boolean lattice): the serialisation, the
      entry list reversed with renamed indexes, its raw reload (equal to the computed lattice) and
      its ordered reload (which trusts the reversed order and differs) *)
Example C11_witness :
  let c := mkCtx 3 3 [5; 3; 6] in
  wf_ctx c /\ (Nat.max (nG c) (nM c) <= 3)%nat /\
  exists L, build_lattice 20 3 (relation_new c) = Ok L /\
    let lat := tolist L in
    let len := length lat in
    let lat' := map (rename_entry (fun old => (len - 1 - old)%nat)) (rev lat) in
    context_index_sets (relation_new c) = [[0; 2]; [0; 1]; [1; 2]]%nat /\
    lat = [([], [0; 1; 2], [1; 2; 3], []); ([0], [0; 2], [4; 5], [0]); ([1], [0; 1], [4; 6], [0]);
           ([2], [1; 2], [5; 6], [0]); ([0; 1], [0], [7], [1; 2]); ([0; 2], [2], [7], [1; 3]);
           ([1; 2], [1], [7], [2; 3]); ([0; 1; 2], [], [], [4; 5; 6])]%nat /\
    lat' = [([0; 1; 2], [], [], [3; 2; 1]); ([1; 2], [1], [0], [5; 4]); ([0; 2], [2], [0], [6; 4]);
            ([0; 1], [0], [0], [6; 5]); ([2], [1; 2], [2; 1], [7]); ([1], [0; 1], [3; 1], [7]);
            ([0], [0; 2], [3; 2], [7]); ([], [0; 1; 2], [6; 5; 4], [])]%nat /\
    fromlist 3 (relation_new c) lat false = Ok L /\
    fromlist 3 (relation_new c) lat true = Ok L /\
    fromlist 3 (relation_new c) lat' true = Ok L /\
    fromlist 3 (relation_new c) lat' false <> Ok L.
Proof.
  cbv zeta. split; [apply wf_ctxb_sound; vm_compute; reflexivity|]. split; [apply le_by_leb; vm_compute; reflexivity|].
  eexists. split; [vm_compute; reflexivity|].
  split; [vm_compute; reflexivity|]. split; [vm_compute; reflexivity|]. split; [vm_compute; reflexivity|].
  split; [vm_compute; reflexivity|]. split; [vm_compute; reflexivity|]. split; [vm_compute; reflexivity|].
  vm_compute. intros H. discriminate H.
Qed.
