(** C13 — Every edit history of a Definition matches the ordered-table model.

    "Starting from any definition and applying any sequence of the editing operations (cell
    assignment, add/set/remove/rename/move of objects and properties, remove_empty_*, in-place
    union/intersection), the resulting (objects, properties, bools) triple - and every return value
    along the way - equals that of a plain model consisting of two ordered name lists (new names
    appended in the order given) and a set of true cells, and a call the model rejects (unknown or
    clashing name, conflicting cells) raises and leaves the definition unchanged.  After every step the
    definition equals a fresh definition built from its own triple, so no residue of removed or
    renamed names can reappear later, and bools always has one row per object and one cell per
    property."

    Vocabulary.
    - The machine (Model/Definition.v): a [store] is the list of live Definition objects, a handle is
      a position in it; [step s o] performs one call ([op]: the in-place editing operations O..., the
      derivations D... of C14, and [DNew] = Definition(objects, properties, bools)); it returns the new
      store and the return value ([RNone], [RNames l] for remove_empty_*, [RHandle h] for a new object)
      or raises.  [step_total] is [step] with "a rejected call leaves the store unchanged" made
      explicit; a history is run with [fold_left (fun s o => fst (step_total s o)) ops s]; [run]
      (Proofs/DefOrder.v) also collects the list of results.  [obs_defn d] is the
      (objects, properties, bools) triple of [d].
    - The plain model (Spec/DefSpec.v): [sdef] = two ordered name lists and a boolean cell function;
      [sstep1 a o other] is one operation on table [a] (with the table of the second operand for
      union/intersection); [append_new l news] appends to [l], in the order given, the names of
      [news] not yet present; [obs_sdef], [s_ok] (duplicate-free lists, true cells inside the grid).
      Its store-level form ([sstep], [sstep_total], [srun]: a list of plain tables with value
      semantics) is defined in Proofs/AssembleDef.v.
    - [Inv d] (Proofs/Definition.v, spelled out by [C13_invariant_meaning]): the ordered list and the
      membership set of each axis agree and are duplicate free, [_pairs] is duplicate free and lies
      inside objects x properties.  [abs d] is the plain table denoted by [d]; [sim a d] says that
      [a] and [d] denote the same table; [op_handle o] is the handle an operation acts on,
      [other_of s o] the second operand, [is_derive o] tells derivations from in-place operations. *)
From Coq Require Import ZArith List Bool.
From Concepts Require Import Base.Res Model.Definition Spec.DefSpec
  Proofs.DefUnique Proofs.Definition Proofs.DefOrder Proofs.AssembleDef.
Import ListNotations.

(** * the invariant holds in every reachable store *)

Theorem C13_invariant_meaning : forall d,
  Inv d <->
  (NoDup (u_items (d_objs d)) /\ (forall x, In x (u_seen (d_objs d)) <-> In x (u_items (d_objs d))) /\ NoDup (u_seen (d_objs d))) /\
  (NoDup (u_items (d_props d)) /\ (forall x, In x (u_seen (d_props d)) <-> In x (u_items (d_props d))) /\ NoDup (u_seen (d_props d))) /\
  NoDup (d_pairs d) /\
  (forall o p, In (o, p) (d_pairs d) -> In o (objects_of d) /\ In p (properties_of d)).
Proof. exact Inv_flat. Qed.

Theorem C13_invariant_preserved : forall s o s' r, Forall Inv s -> step s o = Ok (s', r) -> Forall Inv s'.
Proof. exact step_Inv. Qed.

Theorem C13_invariant_every_history : forall ops,
  Forall Inv (fold_left (fun s o => fst (step_total s o)) ops []).
Proof. exact run_history. Qed.

Theorem C13_invariant_every_history_from : forall ops s,
  Forall Inv s -> Forall Inv (fold_left (fun s o => fst (step_total s o)) ops s).
Proof. exact run_history_from. Qed.

(** a definition satisfying the invariant denotes a well-formed plain table with the same triple *)
Theorem C13_abstraction : forall d, Inv d -> obs_sdef (abs d) = obs_defn d /\ s_ok (abs d).
Proof. intros d H. split; [apply abs_obs|apply abs_ok; exact H]. Qed.

(** * one call refines the plain model *)

(** one operation on one definition ([dstep1], the body of [step] once the operands are fetched):
    same exception, or same return value, the same table, and the invariant again *)
Theorem C13_operation_refines : forall d o other,
  Inv d -> (forall e, other = Some e -> Inv e) ->
  refines (dstep1 d o other) (sstep1 (abs d) o (option_map abs other)).
Proof. exact dstep1_refines. Qed.

Theorem C13_refines_meaning : forall m sp,
  refines m sp =
  match m, sp with
  | Ok (d', r), Ok (a', r') => r = r' /\ sim a' d' /\ Inv d'
  | Raise e, Raise e' => e = e'
  | _, _ => False
  end.
Proof. reflexivity. Qed.

(** general form: same exception, or same return value and the same table stored at the right place *)
Theorem C13_step_refines : forall s o h d,
  Forall Inv s -> op_handle o = Some h -> nth_error s h = Some d ->
  match step s o, sstep1 (abs d) o (option_map abs (other_of s o)) with
  | Ok (s', r), Ok (a', r') => exists d', sim a' d' /\ Inv d' /\ store_rel s o h s' r d' r'
  | Raise e, Raise e' => e = e'
  | _, _ => False
  end.
Proof. exact step_refines. Qed.

(** success of an in-place call: the triple stored under the handle is that of the plain model's
    result, the return value is the same *)
Theorem C13_step_success : forall s o h d s' r,
  Forall Inv s -> op_handle o = Some h -> nth_error s h = Some d -> is_derive o = false ->
  step s o = Ok (s', r) ->
  exists a' d', sstep1 (abs d) o (option_map abs (other_of s o)) = Ok (a', r) /\
                s' = put s h d' /\ nth_error s' h = Some d' /\ Inv d' /\
                obs_sdef a' = obs_defn d' /\ s_ok a' /\
                (forall x p, s_cell a' x p = memp (x, p) (d_pairs d')).
Proof. exact step_ok_inplace. Qed.

(** the plain model decides the outcome *)
Theorem C13_step_decided_by_model : forall s o h d,
  Forall Inv s -> op_handle o = Some h -> nth_error s h = Some d -> is_derive o = false ->
  match sstep1 (abs d) o (option_map abs (other_of s o)) with
  | Raise e => step s o = Raise e
  | Ok (a', r) => exists d', step s o = Ok (put s h d', r) /\ nth_error (put s h d') h = Some d' /\ Inv d' /\
                             obs_defn d' = obs_sdef a' /\ s_ok a' /\
                             (forall x p, memp (x, p) (d_pairs d') = s_cell a' x p)
  end.
Proof. exact step_inplace_by_model. Qed.

(** Definition(objects, properties, bools) *)
Theorem C13_new : forall s os ps bs s' r,
  step s (DNew os ps bs) = Ok (s', r) ->
  exists a' d', s_new os ps bs = Ok a' /\
                s' = s ++ [d'] /\ r = RHandle (length s) /\ Inv d' /\
                obs_sdef a' = obs_defn d' /\ s_ok a' /\
                (forall x p, s_cell a' x p = memp (x, p) (d_pairs d')).
Proof. exact step_ok_new. Qed.

(** failure: the machine raises exactly when the plain model rejects the call, with the same exception ... *)
Theorem C13_step_raises_iff : forall s o h d e,
  Forall Inv s -> op_handle o = Some h -> nth_error s h = Some d ->
  (step s o = Raise e <-> sstep1 (abs d) o (option_map abs (other_of s o)) = Raise e).
Proof. exact step_raise_iff. Qed.

Theorem C13_step_raises_iff_nohandle : forall s o a e,
  op_handle o = None -> (step s o = Raise e <-> sstep1 a o None = Raise e).
Proof. exact step_raise_iff_nohandle. Qed.

Theorem C13_bad_handle : forall s o h,
  op_handle o = Some h -> nth_error s h = None -> step s o = Raise IndexError.
Proof. exact step_bad_handle. Qed.

(** ... and the store (hence every definition) is unchanged *)
Theorem C13_rejected_call_changes_nothing : forall s o e,
  step s o = Raise e -> fst (step_total s o) = s /\ snd (step_total s o) = Raise e.
Proof. exact step_raise_unchanged. Qed.

(** an in-place call changes no other handle *)
Theorem C13_other_handles_unchanged : forall s o s' r k,
  step s o = Ok (s', r) -> (k < length s)%nat -> (is_derive o = false -> op_handle o <> Some k) ->
  nth_error s' k = nth_error s k.
Proof. exact step_old_handles. Qed.

(** * whole histories *)

(** after any history, the next call agrees with the plain model applied to the current table *)
Theorem C13_next_step_after_any_history : forall ops o h d,
  let s := fold_left (fun s o => fst (step_total s o)) ops [] in
  op_handle o = Some h -> nth_error s h = Some d ->
  match step s o, sstep1 (abs d) o (option_map abs (other_of s o)) with
  | Ok (s', r), Ok (a', r') => exists d', sim a' d' /\ Inv d' /\ store_rel s o h s' r d' r'
  | Raise e, Raise e' => e = e'
  | _, _ => False
  end.
Proof. exact history_next_step. Qed.

(** one call on related stores (every definition denotes the plain table at the same position) *)
Theorem C13_store_step : forall S s o,
  Forall2 sim S s -> Forall Inv s ->
  match step s o, sstep S o with
  | Ok (s', r), Ok (S', r') => r = r' /\ Forall2 sim S' s' /\ Forall Inv s'
  | Raise e, Raise e' => e = e'
  | _, _ => False
  end.
Proof. exact sstep_sim. Qed.

(** every history, started from any store: the machine and the plain model running on its own (never
    looking at the machine again) produce the same list of return values / exceptions and, at the
    end, the same triple under every handle *)
Theorem C13_history_matches_plain_model_from : forall ops S s,
  Forall2 sim S s -> Forall Inv s ->
  snd (run ops s) = snd (srun ops S) /\
  Forall2 sim (fst (srun ops S)) (fst (run ops s)) /\
  map obs_defn (fst (run ops s)) = map obs_sdef (fst (srun ops S)) /\
  Forall Inv (fst (run ops s)).
Proof. exact run_matches_plain_model. Qed.

Theorem C13_history_matches_plain_model : forall ops,
  snd (run ops []) = snd (srun ops []) /\
  map obs_defn (fst (run ops [])) = map obs_sdef (fst (srun ops [])) /\
  Forall Inv (fst (run ops [])).
Proof. exact history_matches_plain_model. Qed.

(** in particular after every prefix of every history *)
Theorem C13_every_prefix_matches_plain_model : forall ops1 ops2,
  map obs_defn (fst (run ops1 [])) = map obs_sdef (fst (srun ops1 [])) /\
  snd (run ops1 []) = snd (srun ops1 []) /\
  snd (run (ops1 ++ ops2) []) = snd (srun (ops1 ++ ops2) []).
Proof. exact history_prefix_matches_plain_model. Qed.

Theorem C13_run_is_the_history_fold : forall ops s,
  fst (run ops s) = fold_left (fun s o => fst (step_total s o)) ops s.
Proof. exact run_fst. Qed.

(** * no residue: d == Definition( *d) after every step; shape of bools *)

Theorem C13_eq_fresh : forall d, Inv d -> eq_fresh d = true.
Proof. exact eq_fresh_Inv. Qed.

Theorem C13_eq_fresh_every_history : forall ops,
  Forall (fun d => eq_fresh d = true) (fold_left (fun s o => fst (step_total s o)) ops []).
Proof. exact history_eq_fresh. Qed.

Theorem C13_bools_shape : forall d,
  length (bools_of d) = length (objects_of d) /\
  Forall (fun row => length row = length (properties_of d)) (bools_of d).
Proof. exact bools_shape. Qed.

(** * the operations in readable form *)

(** new names go after the existing ones, in the order given, each once *)
Theorem C13_append_new_order : forall l news,
  append_new l news = l ++ append_new [] (filter (fun x => negb (memn x l)) news).
Proof. exact append_new_prefix. Qed.

Theorem C13_append_new_members : forall l news,
  (forall y, In y (append_new l news) <-> In y l \/ In y news) /\ (NoDup l -> NoDup (append_new l news)).
Proof. exact append_new_members. Qed.

Theorem C13_append_new_one : forall l x, append_new l [x] = if memn x l then l else l ++ [x].
Proof. exact append_new_one. Qed.

(** d[o, p] = v *)
Theorem C13_setitem : forall d x q v,
  Inv d ->
  Inv (d_setitem d x q v) /\
  objects_of (d_setitem d x q v) = append_new (objects_of d) [x] /\
  properties_of (d_setitem d x q v) = append_new (properties_of d) [q] /\
  forall o p, memp (o, p) (d_pairs (d_setitem d x q v)) = if Nat.eqb o x && Nat.eqb p q then v else memp (o, p) (d_pairs d).
Proof. exact setitem_spec. Qed.

Theorem C13_setitem_int_rejected : forall s h, step s (OSetItemInt h) = Raise ValueError.
Proof. reflexivity. Qed.

(** add_object / add_property: new names appended in the order given, cells only added *)
Theorem C13_add_object : forall d x ps,
  Inv d ->
  Inv (d_add_object d x ps) /\
  objects_of (d_add_object d x ps) = append_new (objects_of d) [x] /\
  properties_of (d_add_object d x ps) = append_new (properties_of d) ps /\
  forall o p, memp (o, p) (d_pairs (d_add_object d x ps)) = (Nat.eqb o x && memn p ps) || memp (o, p) (d_pairs d).
Proof. exact add_object_spec. Qed.

Theorem C13_add_property : forall d x os,
  Inv d ->
  Inv (d_add_property d x os) /\
  objects_of (d_add_property d x os) = append_new (objects_of d) os /\
  properties_of (d_add_property d x os) = append_new (properties_of d) [x] /\
  forall o p, memp (o, p) (d_pairs (d_add_property d x os)) = (Nat.eqb p x && memn o os) || memp (o, p) (d_pairs d).
Proof. exact add_property_spec. Qed.

(** set_object / set_property: the row / column becomes exactly the given names *)
Theorem C13_set_object : forall d x ps,
  Inv d ->
  Inv (d_set_object d x ps) /\
  objects_of (d_set_object d x ps) = append_new (objects_of d) [x] /\
  properties_of (d_set_object d x ps) = append_new (properties_of d) ps /\
  forall o p, memp (o, p) (d_pairs (d_set_object d x ps)) = if Nat.eqb o x then memn p ps else memp (o, p) (d_pairs d).
Proof. exact set_object_spec. Qed.

Theorem C13_set_property : forall d x os,
  Inv d ->
  Inv (d_set_property d x os) /\
  objects_of (d_set_property d x os) = append_new (objects_of d) os /\
  properties_of (d_set_property d x os) = append_new (properties_of d) [x] /\
  forall o p, memp (o, p) (d_pairs (d_set_property d x os)) = if Nat.eqb p x then memn o os else memp (o, p) (d_pairs d).
Proof. exact set_property_spec. Qed.

(** rename: ValueError exactly for a clashing new name or an unknown old name *)
Theorem C13_rename_object_accepts_iff : forall s h d old new,
  Forall Inv s -> nth_error s h = Some d ->
  (In new (objects_of d) \/ ~ In old (objects_of d) -> step s (ORenameObject h old new) = Raise ValueError) /\
  (~ In new (objects_of d) -> In old (objects_of d) -> exists s', step s (ORenameObject h old new) = Ok (s', RNone)).
Proof. exact rename_object_rejects. Qed.

Theorem C13_rename_property_accepts_iff : forall s h d old new,
  Forall Inv s -> nth_error s h = Some d ->
  (In new (properties_of d) \/ ~ In old (properties_of d) -> step s (ORenameProperty h old new) = Raise ValueError) /\
  (~ In new (properties_of d) -> In old (properties_of d) -> exists s', step s (ORenameProperty h old new) = Ok (s', RNone)).
Proof. exact rename_property_rejects. Qed.

(** remove: KeyError exactly for an unknown name *)
Theorem C13_remove_object_accepts_iff : forall s h d x,
  Forall Inv s -> nth_error s h = Some d ->
  (~ In x (objects_of d) -> step s (ORemoveObject h x) = Raise KeyError) /\
  (In x (objects_of d) -> exists s', step s (ORemoveObject h x) = Ok (s', RNone)).
Proof. exact remove_object_rejects. Qed.

Theorem C13_remove_property_accepts_iff : forall s h d x,
  Forall Inv s -> nth_error s h = Some d ->
  (~ In x (properties_of d) -> step s (ORemoveProperty h x) = Raise KeyError) /\
  (In x (properties_of d) -> exists s', step s (ORemoveProperty h x) = Ok (s', RNone)).
Proof. exact remove_property_rejects. Qed.

(** in-place union / intersection: ValueError exactly on a conflicting shared cell unless ignored
    ([C14_conflict_meaning]); otherwise cell-wise or / and on appended / filtered axes *)
Theorem C13_union_update : forall s h k ig d e,
  Forall Inv s -> nth_error s h = Some d -> nth_error s k = Some e ->
  if negb ig && s_conflict (abs d) (abs e) then step s (OUnionUpdate h k ig) = Raise ValueError
  else exists d', step s (OUnionUpdate h k ig) = Ok (put s h d', RNone) /\ Inv d' /\
                  objects_of d' = append_new (objects_of d) (objects_of e) /\
                  properties_of d' = append_new (properties_of d) (properties_of e) /\
                  forall o p, memp (o, p) (d_pairs d') = memp (o, p) (d_pairs d) || memp (o, p) (d_pairs e).
Proof. exact union_update_step. Qed.

Theorem C13_intersection_update : forall s h k ig d e,
  Forall Inv s -> nth_error s h = Some d -> nth_error s k = Some e ->
  if negb ig && s_conflict (abs d) (abs e) then step s (OIntersectionUpdate h k ig) = Raise ValueError
  else exists d', step s (OIntersectionUpdate h k ig) = Ok (put s h d', RNone) /\ Inv d' /\
                  objects_of d' = filter (fun x => memn x (objects_of e)) (objects_of d) /\
                  properties_of d' = filter (fun x => memn x (properties_of e)) (properties_of d) /\
                  forall o p, memp (o, p) (d_pairs d') = memp (o, p) (d_pairs d) && memp (o, p) (d_pairs e).
Proof. exact intersection_update_step. Qed.

(** * witness: a history with accepted and rejected calls (clashing rename, unknown name, integer
      key, conflicting union, bad handle), run by the machine and by the plain model *)
Example C13_witness :
  let ops :=
    [ DNew [0; 1] [10; 11] [[true; false]; [false; true]];
      OAddObject 0 2 [11; 12; 11];
      ORenameObject 0 0 1;
      ORenameObject 0 0 5;
      ORemoveProperty 0 11;
      ORemoveProperty 0 11;
      ORemoveEmptyObjects 0;
      OSetItem 0 1 10 true;
      OMoveObject 0 2 (-1)%Z;
      OSetObject 0 5 [13; 10];
      OSetItemInt 0;
      DNew [1; 7] [10; 14] [[false; true]; [true; true]];
      OUnionUpdate 0 1 false;
      OUnionUpdate 0 1 true;
      OIntersectionUpdate 1 0 true;
      OSetItem 1 7 14 false;
      ORemoveEmptyProperties 1;
      OAddProperty 7 3 [1] ]%nat in
  let results :=
    [ Ok (RHandle 0); Ok RNone; Raise ValueError; Ok RNone; Ok RNone; Raise KeyError; Ok (RNames [1]);
      Ok RNone; Ok RNone; Ok RNone; Raise ValueError; Ok (RHandle 1); Raise ValueError; Ok RNone;
      Ok RNone; Ok RNone; Ok (RNames []); Raise IndexError ]%nat in
  let triples :=
    [ ([5; 2; 1; 7], [10; 12; 13; 14],
       [[true; false; true; false]; [false; true; false; false]; [true; false; false; true]; [true; false; false; true]]);
      ([1; 7], [10; 14], [[false; true]; [true; false]]) ]%nat in
  (snd (run ops []), map obs_defn (fst (run ops []))) = (results, triples) /\
  (snd (srun ops []), map obs_sdef (fst (srun ops []))) = (results, triples) /\
  forallb eq_fresh (fst (run ops [])) = true.
Proof. vm_compute. repeat split; reflexivity. Qed.
