(** C08 — Order and logical-relation predicates on concepts match their extents. *)
From Coq Require Import ZArith List Bool.
From Concepts Require Import Base.Res Base.PyInt Base.BitSet Spec.FCA Spec.Context
  Model.Members Proofs.Members.
Import ListNotations.
Open Scope Z_scope.

Section C08.
  Variables (n : nat) (a b : Z).
  Hypotheses (Ha : in_range n a) (Hb : in_range n b).

  Theorem C08_implies : implies a b (ones n) = Ok true <-> subset a b.
  Proof. exact (implies_spec n a b Ha). Qed.
  Theorem C08_subsumes : subsumes a b (ones n) = Ok true <-> subset b a.
  Proof. exact (subsumes_spec n a b Ha Hb). Qed.
  Theorem C08_properly_implies : properly_implies a b (ones n) = Ok true <-> subset a b /\ a <> b.
  Proof. exact (properly_implies_spec n a b Ha). Qed.
  Theorem C08_properly_subsumes : properly_subsumes a b (ones n) = Ok true <-> subset b a /\ a <> b.
  Proof. exact (properly_subsumes_spec n a b Ha Hb). Qed.
  Theorem C08_incompatible_with : incompatible_with a b (ones n) = Ok true <-> disjoint a b.
  Proof. exact (incompatible_with_spec n a b Ha). Qed.
  Theorem C08_complement_of :
    complement_of a b (ones n) = Ok true <-> disjoint a b /\ covers_all n a b.
  Proof. exact (complement_of_spec n a b Ha Hb). Qed.
  Theorem C08_subcontrary_with :
    subcontrary_with a b (ones n) = Ok true <-> meets a b /\ covers_all n a b.
  Proof. exact (subcontrary_with_spec n a b Ha Hb). Qed.
  Theorem C08_orthogonal_to :
    orthogonal_to a b (ones n) = Ok true <->
    meets a b /\ ~ subset a b /\ ~ subset b a /\ ~ covers_all n a b.
  Proof. exact (orthogonal_to_spec n a b Ha Hb). Qed.
End C08.

Theorem C08_order_by_intents : forall c A1 B1 A2 B2,
  is_concept c A1 B1 -> is_concept c A2 B2 ->
  (implies A1 A2 (ones (nG c)) = Ok true <-> subset B2 B1).
Proof. exact implies_iff_intents. Qed.

Theorem C08_refl : forall n a, in_range n a -> implies a a (ones n) = Ok true.
Proof. exact implies_refl. Qed.
Theorem C08_trans : forall n a b d, in_range n a -> in_range n b -> in_range n d ->
  implies a b (ones n) = Ok true -> implies b d (ones n) = Ok true -> implies a d (ones n) = Ok true.
Proof. exact implies_trans. Qed.
Theorem C08_antisym : forall n a b, in_range n a -> in_range n b ->
  implies a b (ones n) = Ok true -> implies b a (ones n) = Ok true -> a = b.
Proof. exact implies_antisym. Qed.

Example C08_witness : orthogonal_to 3 6 (ones 4) = Ok true /\ in_range 4 3 /\ in_range 4 6.
Proof. split; [reflexivity|]. split; apply in_range_of_bound; cbn; split; try apply Z.leb_le; try apply Z.ltb_lt; reflexivity. Qed.
