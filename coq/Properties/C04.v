(** C04 — All concept generators agree on the set of concepts.
    [fast_generate_from] (and therefore get_concepts / iterconcepts, which only wrap it)
    and [fcbo_dual] each emit every formal concept exactly once and nothing else; together
    with C03 (the lattice members are exactly the formal concepts) all of them agree as sets.
    Emission order is not part of the property. *)
From Coq Require Import ZArith List Bool.
From Concepts Require Import Base.Res Base.PyInt Base.BitSet Spec.FCA Spec.Context
  Model.Matrices Model.ContextApi Model.Fcbo Proofs.FcboGeneric Proofs.Fcbo.
Import ListNotations.
Open Scope Z_scope.

Theorem C04_fast_generate_from : forall fuel dfuel c l,
  wf_ctx c -> (Nat.max (nG c) (nM c) <= dfuel)%nat ->
  fast_generate_from fuel dfuel (relation_new c) = Ok l ->
  NoDup l /\ (forall A B, In (A, B) l <-> is_concept c A B).
Proof. exact fast_generate_from_correct. Qed.

Theorem C04_fcbo_dual : forall fuel dfuel c l,
  wf_ctx c -> (Nat.max (nG c) (nM c) <= dfuel)%nat ->
  fcbo_dual fuel dfuel (relation_new c) = Ok l ->
  NoDup l /\ (forall A B, In (A, B) l <-> is_concept c A B).
Proof. exact fcbo_dual_correct. Qed.

Theorem C04_fast_generate_from_terminates : forall dfuel c,
  wf_ctx c -> (Nat.max (nG c) (nM c) <= dfuel)%nat ->
  exists fuel0, forall fuel, (fuel0 <= fuel)%nat -> exists l, fast_generate_from fuel dfuel (relation_new c) = Ok l.
Proof. exact fast_generate_from_terminates. Qed.

Theorem C04_fcbo_dual_terminates : forall dfuel c,
  wf_ctx c -> (Nat.max (nG c) (nM c) <= dfuel)%nat ->
  exists fuel0, forall fuel, (fuel0 <= fuel)%nat -> exists l, fcbo_dual fuel dfuel (relation_new c) = Ok l.
Proof. exact fcbo_dual_terminates. Qed.

(** the two generators agree as sets (and both are duplicate-free) *)
Theorem C04_generators_agree : forall fuel1 fuel2 dfuel c l1 l2,
  wf_ctx c -> (Nat.max (nG c) (nM c) <= dfuel)%nat ->
  fast_generate_from fuel1 dfuel (relation_new c) = Ok l1 ->
  fcbo_dual fuel2 dfuel (relation_new c) = Ok l2 ->
  forall p, In p l1 <-> In p l2.
Proof.
  intros fuel1 fuel2 dfuel c l1 l2 Hwf Hd H1 H2 [A B].
  rewrite (proj2 (fast_generate_from_correct _ _ _ _ Hwf Hd H1) A B).
  rewrite (proj2 (fcbo_dual_correct _ _ _ _ Hwf Hd H2) A B). reflexivity.
Qed.

Example C04_witness :
  let c := mkCtx 4 6 [7; 61; 19; 6] in
  fast_generate_from 50 7 (relation_new c) =
  Ok [(15, 0); (7, 1); (5, 3); (1, 7); (0, 63); (4, 19); (3, 5); (2, 61); (6, 17); (13, 2); (9, 6); (11, 4)].
Proof. vm_compute. reflexivity. Qed.
