(** C07 — join and meet are the least upper and greatest lower bounds.

    "lattice.join returns the least concept above all of them (extent = closure of the union of
    extents), lattice.meet the greatest concept below all of them (extent = intersection); the
    empty join is the infimum and the empty meet the supremum.  The binary methods and operators
    agree with this, and therefore satisfy commutativity, associativity, idempotence, absorption
    and x <= y iff x | y is y iff x & y is x."

    END-TO-END: [L] is the value returned by the model of [Context.lattice] ([build_lattice],
    satisfiable by [C03_terminates]).  Concepts are passed and returned as positions in the
    lattice; [nth_extent (l_exts L) i] is the extent of the i-th member and [concept_at L k x]
    says [x] is the k-th member.  The code computes [double(union)] resp. [double(intersection)]
    and looks the result up in the extent mapping; the theorems say the lookup succeeds and
    returns THE member with the lub / glb extent ("is": equality of positions). *)
From Coq Require Import ZArith List Bool.
From Concepts Require Import Base.Res Base.PyInt Base.BitSet Spec.FCA Spec.Context Spec.LatticeSpec
  Model.Matrices Model.ContextApi Model.Members Model.Lattice Proofs.Matrices Proofs.ContextApi Proofs.Closure
  Proofs.LatticeBasics Proofs.BuildLattice Proofs.LatticeQueries Proofs.Assemble.
Import ListNotations.
Open Scope Z_scope.

(** * n-ary join and meet *)

Theorem C07_lattice_join : forall fuel dfuel c L cs,
  wf_ctx c -> (Nat.max (nG c) (nM c) <= dfuel)%nat -> build_lattice fuel dfuel (relation_new c) = Ok L ->
  exists k x, lattice_join dfuel L cs = Ok k /\ concept_at L k x
    (* extent = closure of the union of the extents *)
    /\ c_extent x = clO c (fold_left Z.lor (map (nth_extent (l_exts L)) cs) 0)
    /\ c_intent x = upO c (fold_left Z.lor (map (nth_extent (l_exts L)) cs) 0)
    (* upper bound *)
    /\ (forall i, In i cs -> subset (nth_extent (l_exts L) i) (c_extent x))
    (* least among the members of L *)
    /\ (forall j y, concept_at L j y ->
          (forall i, In i cs -> subset (nth_extent (l_exts L) i) (c_extent y)) ->
          subset (c_extent x) (c_extent y) /\ (k <= j)%nat)
    (* least among all closed extents *)
    /\ (forall E, closedO c E -> (forall i, In i cs -> subset (nth_extent (l_exts L) i) E) ->
          subset (c_extent x) E).
Proof.
  intros fuel dfuel c L cs Hwf Hd HB.
  exact (lattice_join_spec c L dfuel (build_lattice_ok fuel dfuel c L Hwf Hd HB) Hwf Hd cs).
Qed.

Theorem C07_lattice_meet : forall fuel dfuel c L cs,
  wf_ctx c -> (Nat.max (nG c) (nM c) <= dfuel)%nat -> build_lattice fuel dfuel (relation_new c) = Ok L ->
  Forall (fun i => (i < length (l_concepts L))%nat) cs ->
  exists k x, lattice_meet dfuel L cs = Ok k /\ concept_at L k x
    (* extent = intersection of the extents *)
    /\ c_extent x = fold_left Z.land (map (nth_extent (l_exts L)) cs) (ones (nG c))
    (* lower bound *)
    /\ (forall i, In i cs -> subset (c_extent x) (nth_extent (l_exts L) i))
    (* greatest among the members of L *)
    /\ (forall j y, concept_at L j y ->
          (forall i, In i cs -> subset (c_extent y) (nth_extent (l_exts L) i)) ->
          subset (c_extent y) (c_extent x) /\ (j <= k)%nat)
    (* greatest among all sets of objects *)
    /\ (forall E, in_range (nG c) E -> (forall i, In i cs -> subset E (nth_extent (l_exts L) i)) ->
          subset E (c_extent x)).
Proof.
  intros fuel dfuel c L cs Hwf Hd HB.
  exact (lattice_meet_spec c L dfuel (build_lattice_ok fuel dfuel c L Hwf Hd HB) Hwf Hd cs).
Qed.

(** the empty join is the infimum (position 0), the empty meet the supremum (last position) *)
Theorem C07_join_nil : forall fuel dfuel c L,
  wf_ctx c -> (Nat.max (nG c) (nM c) <= dfuel)%nat -> build_lattice fuel dfuel (relation_new c) = Ok L ->
  lattice_join dfuel L [] = Ok 0%nat.
Proof.
  intros fuel dfuel c L Hwf Hd HB.
  exact (lattice_join_nil c L dfuel (build_lattice_ok fuel dfuel c L Hwf Hd HB) Hwf Hd).
Qed.

Theorem C07_meet_nil : forall fuel dfuel c L,
  wf_ctx c -> (Nat.max (nG c) (nM c) <= dfuel)%nat -> build_lattice fuel dfuel (relation_new c) = Ok L ->
  lattice_meet dfuel L [] = Ok (length (l_concepts L) - 1)%nat.
Proof.
  intros fuel dfuel c L Hwf Hd HB.
  exact (lattice_meet_nil c L dfuel (build_lattice_ok fuel dfuel c L Hwf Hd HB) Hwf Hd).
Qed.

Theorem C07_join_single : forall fuel dfuel c L i,
  wf_ctx c -> (Nat.max (nG c) (nM c) <= dfuel)%nat -> build_lattice fuel dfuel (relation_new c) = Ok L ->
  (i < length (l_concepts L))%nat -> lattice_join dfuel L [i] = Ok i.
Proof.
  intros fuel dfuel c L i Hwf Hd HB.
  exact (lattice_join_single c L dfuel (build_lattice_ok fuel dfuel c L Hwf Hd HB) Hwf Hd i).
Qed.

Theorem C07_meet_single : forall fuel dfuel c L i,
  wf_ctx c -> (Nat.max (nG c) (nM c) <= dfuel)%nat -> build_lattice fuel dfuel (relation_new c) = Ok L ->
  (i < length (l_concepts L))%nat -> lattice_meet dfuel L [i] = Ok i.
Proof.
  intros fuel dfuel c L i Hwf Hd HB.
  exact (lattice_meet_single c L dfuel (build_lattice_ok fuel dfuel c L Hwf Hd HB) Hwf Hd i).
Qed.

(** * the binary methods / operators agree with the n-ary ones *)

Theorem C07_concept_join_is_nary : forall L dfuel i j, concept_join dfuel L i j = lattice_join dfuel L [i; j].
Proof. exact concept_join_spec. Qed.

Theorem C07_concept_meet_is_nary : forall fuel dfuel c L i j,
  wf_ctx c -> (Nat.max (nG c) (nM c) <= dfuel)%nat -> build_lattice fuel dfuel (relation_new c) = Ok L ->
  concept_meet dfuel L i j = lattice_meet dfuel L [i; j].
Proof.
  intros fuel dfuel c L i j Hwf Hd HB.
  exact (concept_meet_spec c L dfuel (build_lattice_ok fuel dfuel c L Hwf Hd HB) Hd i j).
Qed.

Theorem C07_concept_join_lub : forall fuel dfuel c L i j,
  wf_ctx c -> (Nat.max (nG c) (nM c) <= dfuel)%nat -> build_lattice fuel dfuel (relation_new c) = Ok L ->
  exists k, concept_join dfuel L i j = Ok k /\ (k < length (l_concepts L))%nat
    /\ nth_extent (l_exts L) k = clO c (Z.lor (nth_extent (l_exts L) i) (nth_extent (l_exts L) j))
    /\ subset (nth_extent (l_exts L) i) (nth_extent (l_exts L) k)
    /\ subset (nth_extent (l_exts L) j) (nth_extent (l_exts L) k)
    /\ forall u, (u < length (l_concepts L))%nat ->
         subset (nth_extent (l_exts L) i) (nth_extent (l_exts L) u) ->
         subset (nth_extent (l_exts L) j) (nth_extent (l_exts L) u) ->
         subset (nth_extent (l_exts L) k) (nth_extent (l_exts L) u).
Proof.
  intros fuel dfuel c L i j Hwf Hd HB.
  exact (concept_join_lub_ext c L (build_lattice_ok fuel dfuel c L Hwf Hd HB) dfuel Hwf Hd i j).
Qed.

Theorem C07_concept_meet_glb : forall fuel dfuel c L i j,
  wf_ctx c -> (Nat.max (nG c) (nM c) <= dfuel)%nat -> build_lattice fuel dfuel (relation_new c) = Ok L ->
  (i < length (l_concepts L))%nat -> (j < length (l_concepts L))%nat ->
  exists k, concept_meet dfuel L i j = Ok k /\ (k < length (l_concepts L))%nat
    /\ nth_extent (l_exts L) k = Z.land (nth_extent (l_exts L) i) (nth_extent (l_exts L) j)
    /\ subset (nth_extent (l_exts L) k) (nth_extent (l_exts L) i)
    /\ subset (nth_extent (l_exts L) k) (nth_extent (l_exts L) j)
    /\ forall l, subset (nth_extent (l_exts L) l) (nth_extent (l_exts L) i) ->
         subset (nth_extent (l_exts L) l) (nth_extent (l_exts L) j) ->
         subset (nth_extent (l_exts L) l) (nth_extent (l_exts L) k).
Proof.
  intros fuel dfuel c L i j Hwf Hd HB.
  exact (concept_meet_glb_ext c L (build_lattice_ok fuel dfuel c L Hwf Hd HB) dfuel Hwf Hd i j).
Qed.

(** * the lattice laws *)

Theorem C07_join_comm : forall fuel dfuel c L i j,
  wf_ctx c -> (Nat.max (nG c) (nM c) <= dfuel)%nat -> build_lattice fuel dfuel (relation_new c) = Ok L ->
  concept_join dfuel L i j = concept_join dfuel L j i.
Proof.
  intros fuel dfuel c L i j Hwf Hd HB.
  exact (concept_join_comm c L dfuel (build_lattice_ok fuel dfuel c L Hwf Hd HB) Hwf Hd i j).
Qed.

Theorem C07_meet_comm : forall L dfuel i j, concept_meet dfuel L i j = concept_meet dfuel L j i.
Proof. exact concept_meet_comm. Qed.

Theorem C07_join_idem : forall fuel dfuel c L i,
  wf_ctx c -> (Nat.max (nG c) (nM c) <= dfuel)%nat -> build_lattice fuel dfuel (relation_new c) = Ok L ->
  (i < length (l_concepts L))%nat -> concept_join dfuel L i i = Ok i.
Proof.
  intros fuel dfuel c L i Hwf Hd HB.
  exact (concept_join_idem c L dfuel (build_lattice_ok fuel dfuel c L Hwf Hd HB) Hwf Hd i).
Qed.

Theorem C07_meet_idem : forall fuel dfuel c L i,
  wf_ctx c -> (Nat.max (nG c) (nM c) <= dfuel)%nat -> build_lattice fuel dfuel (relation_new c) = Ok L ->
  (i < length (l_concepts L))%nat -> concept_meet dfuel L i i = Ok i.
Proof.
  intros fuel dfuel c L i Hwf Hd HB.
  exact (concept_meet_idem c L dfuel (build_lattice_ok fuel dfuel c L Hwf Hd HB) Hwf Hd i).
Qed.

Theorem C07_join_assoc : forall fuel dfuel c L i j k,
  wf_ctx c -> (Nat.max (nG c) (nM c) <= dfuel)%nat -> build_lattice fuel dfuel (relation_new c) = Ok L ->
  (i < length (l_concepts L))%nat -> (j < length (l_concepts L))%nat -> (k < length (l_concepts L))%nat ->
  (do a <- concept_join dfuel L i j ;; concept_join dfuel L a k)
  = (do b <- concept_join dfuel L j k ;; concept_join dfuel L i b).
Proof.
  intros fuel dfuel c L i j k Hwf Hd HB.
  exact (concept_join_assoc c L dfuel (build_lattice_ok fuel dfuel c L Hwf Hd HB) Hwf Hd i j k).
Qed.

Theorem C07_meet_assoc : forall fuel dfuel c L i j k,
  wf_ctx c -> (Nat.max (nG c) (nM c) <= dfuel)%nat -> build_lattice fuel dfuel (relation_new c) = Ok L ->
  (i < length (l_concepts L))%nat -> (j < length (l_concepts L))%nat -> (k < length (l_concepts L))%nat ->
  (do a <- concept_meet dfuel L i j ;; concept_meet dfuel L a k)
  = (do b <- concept_meet dfuel L j k ;; concept_meet dfuel L i b).
Proof.
  intros fuel dfuel c L i j k Hwf Hd HB.
  exact (concept_meet_assoc c L dfuel (build_lattice_ok fuel dfuel c L Hwf Hd HB) Hwf Hd i j k).
Qed.

(** (x | y) | z and (x & y) & z are the n-ary join / meet of the three *)
Theorem C07_join_assoc_nary : forall fuel dfuel c L i j k,
  wf_ctx c -> (Nat.max (nG c) (nM c) <= dfuel)%nat -> build_lattice fuel dfuel (relation_new c) = Ok L ->
  (i < length (l_concepts L))%nat -> (j < length (l_concepts L))%nat -> (k < length (l_concepts L))%nat ->
  (do a <- concept_join dfuel L i j ;; concept_join dfuel L a k) = lattice_join dfuel L [i; j; k].
Proof.
  intros fuel dfuel c L i j k Hwf Hd HB.
  exact (concept_join_assoc_nary c L dfuel (build_lattice_ok fuel dfuel c L Hwf Hd HB) Hwf Hd i j k).
Qed.

Theorem C07_meet_assoc_nary : forall fuel dfuel c L i j k,
  wf_ctx c -> (Nat.max (nG c) (nM c) <= dfuel)%nat -> build_lattice fuel dfuel (relation_new c) = Ok L ->
  (i < length (l_concepts L))%nat -> (j < length (l_concepts L))%nat -> (k < length (l_concepts L))%nat ->
  (do a <- concept_meet dfuel L i j ;; concept_meet dfuel L a k) = lattice_meet dfuel L [i; j; k].
Proof.
  intros fuel dfuel c L i j k Hwf Hd HB.
  exact (concept_meet_assoc_nary c L dfuel (build_lattice_ok fuel dfuel c L Hwf Hd HB) Hwf Hd i j k).
Qed.

(** x | (x & y) is x,  x & (x | y) is x *)
Theorem C07_absorption_join_meet : forall fuel dfuel c L i j,
  wf_ctx c -> (Nat.max (nG c) (nM c) <= dfuel)%nat -> build_lattice fuel dfuel (relation_new c) = Ok L ->
  (i < length (l_concepts L))%nat -> (j < length (l_concepts L))%nat ->
  (do m <- concept_meet dfuel L i j ;; concept_join dfuel L i m) = Ok i.
Proof.
  intros fuel dfuel c L i j Hwf Hd HB.
  exact (absorption_join_meet c L dfuel (build_lattice_ok fuel dfuel c L Hwf Hd HB) Hwf Hd i j).
Qed.

Theorem C07_absorption_meet_join : forall fuel dfuel c L i j,
  wf_ctx c -> (Nat.max (nG c) (nM c) <= dfuel)%nat -> build_lattice fuel dfuel (relation_new c) = Ok L ->
  (i < length (l_concepts L))%nat -> (j < length (l_concepts L))%nat ->
  (do m <- concept_join dfuel L i j ;; concept_meet dfuel L i m) = Ok i.
Proof.
  intros fuel dfuel c L i j Hwf Hd HB.
  exact (absorption_meet_join c L dfuel (build_lattice_ok fuel dfuel c L Hwf Hd HB) Hwf Hd i j).
Qed.

(** * x <= y  iff  x | y is y  iff  x & y is x   ([implies] is the kernel of [Concept.__le__]) *)

Theorem C07_order_iff_join : forall fuel dfuel c L i j,
  wf_ctx c -> (Nat.max (nG c) (nM c) <= dfuel)%nat -> build_lattice fuel dfuel (relation_new c) = Ok L ->
  (i < length (l_concepts L))%nat -> (j < length (l_concepts L))%nat ->
  (subset (nth_extent (l_exts L) i) (nth_extent (l_exts L) j) <-> concept_join dfuel L i j = Ok j).
Proof.
  intros fuel dfuel c L i j Hwf Hd HB.
  exact (order_iff_join c L dfuel (build_lattice_ok fuel dfuel c L Hwf Hd HB) Hwf Hd i j).
Qed.

Theorem C07_order_iff_meet : forall fuel dfuel c L i j,
  wf_ctx c -> (Nat.max (nG c) (nM c) <= dfuel)%nat -> build_lattice fuel dfuel (relation_new c) = Ok L ->
  (i < length (l_concepts L))%nat -> (j < length (l_concepts L))%nat ->
  (subset (nth_extent (l_exts L) i) (nth_extent (l_exts L) j) <-> concept_meet dfuel L i j = Ok i).
Proof.
  intros fuel dfuel c L i j Hwf Hd HB.
  exact (order_iff_meet c L dfuel (build_lattice_ok fuel dfuel c L Hwf Hd HB) Hwf Hd i j).
Qed.

Theorem C07_le_iff_join_iff_meet : forall fuel dfuel c L i j sup,
  wf_ctx c -> (Nat.max (nG c) (nM c) <= dfuel)%nat -> build_lattice fuel dfuel (relation_new c) = Ok L ->
  (i < length (l_concepts L))%nat -> (j < length (l_concepts L))%nat ->
  (implies (nth_extent (l_exts L) i) (nth_extent (l_exts L) j) sup = Ok true <-> concept_join dfuel L i j = Ok j)
  /\ (concept_join dfuel L i j = Ok j <-> concept_meet dfuel L i j = Ok i)
  /\ (implies (nth_extent (l_exts L) i) (nth_extent (l_exts L) j) sup = Ok true <-> concept_meet dfuel L i j = Ok i).
Proof.
  intros fuel dfuel c L i j sup Hwf Hd HB.
  exact (implies_iff_join_iff_meet c L dfuel (build_lattice_ok fuel dfuel c L Hwf Hd HB) Hwf Hd i j sup).
Qed.

(** * spec level: [double] is the closure; lub / glb among closed extents *)

Theorem C07_double_is_closure : forall fuel c A,
  wf_ctx c -> in_range (nG c) A -> (Nat.max (nG c) (nM c) <= fuel)%nat ->
  objects_double fuel (relation_new c) A = Ok (clO c A).
Proof. exact objects_double_spec. Qed.

Theorem C07_join_upper_bound : forall c a b, in_range (nG c) a -> in_range (nG c) b ->
  subset a (clO c (Z.lor a b)) /\ subset b (clO c (Z.lor a b)).
Proof. exact join_is_upper_bound. Qed.
Theorem C07_join_least : forall c a b u, in_range (nG c) a -> in_range (nG c) b -> closedO c u ->
  subset a u -> subset b u -> subset (clO c (Z.lor a b)) u.
Proof. exact join_is_least. Qed.
Theorem C07_join_is_concept_extent : forall c a b, in_range (nG c) a -> in_range (nG c) b ->
  closedO c (clO c (Z.lor a b)).
Proof. exact join_closed. Qed.

Theorem C07_meet_extent_is_intersection : forall c a b, closedO c a -> closedO c b ->
  clO c (Z.land a b) = Z.land a b.
Proof. exact meet_closed. Qed.
Theorem C07_meet_lower_bound : forall a b, subset (Z.land a b) a /\ subset (Z.land a b) b.
Proof. exact meet_is_lower_bound. Qed.
Theorem C07_meet_greatest : forall a b l, subset l a -> subset l b -> subset l (Z.land a b).
Proof. exact meet_is_greatest. Qed.

Theorem C07_nary_union : forall l acc i,
  mem (fold_left Z.lor l acc) i = mem acc i || existsb (fun x => mem x i) l.
Proof. exact mem_fold_lor. Qed.
Theorem C07_nary_intersection : forall l acc i,
  mem (fold_left Z.land l acc) i = mem acc i && forallb (fun x => mem x i) l.
Proof. exact mem_fold_land. Qed.
Theorem C07_nary_meet_closed : forall c l, Forall (closedO c) l -> forall acc, closedO c acc ->
  closedO c (fold_left Z.land l acc).
Proof. exact fold_land_closed. Qed.

Theorem C07_order_from_join_meet : forall c a b, closedO c a -> closedO c b ->
  (subset a b <-> clO c (Z.lor a b) = b) /\ (subset a b <-> Z.land a b = a).
Proof. exact order_join_meet. Qed.

(** * witnesses *)

Example C07_witness :
  let c := mkCtx 3 3 [5; 3; 6] in
  objects_double 4 (relation_new c) (Z.lor 1 2) = Ok 3 /\ closedO c 1 /\ closedO c 2.
Proof. split; [vm_compute; reflexivity|]. split; (split; [apply in_range_of_bound; cbn; split; [apply Z.leb_le|apply Z.ltb_lt]; reflexivity|vm_compute; reflexivity]). Qed.

(** rows {0,1}, {1,2}, {2,3}, {0,1,2}; members 1 = ({2}), 2 = ({3}), 4 = ({1,3}), 5 = ({0,1,3}),
    6 = ({1,2,3}) *)
Example C07_witness_lattice :
  let c := mkCtx 4 4 [3; 6; 12; 7] in
  wf_ctx c /\ (Nat.max (nG c) (nM c) <= 4)%nat /\
  exists L, build_lattice 20 4 (relation_new c) = Ok L /\
    (lattice_join 4 L [1; 2], concept_join 4 L 1 2, lattice_meet 4 L [4; 5], concept_meet 4 L 4 5,
     lattice_join 4 L [], lattice_meet 4 L [])%nat
    = (Ok 6, Ok 6, Ok 4, Ok 4, Ok 0, Ok 7)%nat.
Proof.
  cbv zeta. split; [apply wf_ctxb_sound; vm_compute; reflexivity|]. split; [apply le_by_leb; vm_compute; reflexivity|].
  apply witness_intro. vm_compute. reflexivity.
Qed.
