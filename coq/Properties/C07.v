(** C07 — join and meet are the least upper and greatest lower bounds.
    The code computes [double(union of extents)] resp. [double(intersection)] and looks
    the result up in the extent mapping.  Proved here: [double] is the closure (so the
    join extent is the closure of the union and the meet extent is the intersection
    itself), and these are the lub / glb among closed extents; the order is recovered
    from join and meet.  [_partial]: that the final mapping lookup cannot miss needs the
    completeness of the enumeration (C03); it is covered by the correspondence. *)
From Coq Require Import ZArith List Bool.
From Concepts Require Import Base.Res Base.PyInt Base.BitSet Spec.FCA Spec.Context
  Model.Matrices Model.ContextApi Model.Lattice Proofs.Matrices Proofs.ContextApi Proofs.Closure
  Proofs.LatticeBasics.
Import ListNotations.
Open Scope Z_scope.

Theorem C07_double_is_closure : forall fuel c A,
  wf_ctx c -> in_range (nG c) A -> (Nat.max (nG c) (nM c) <= fuel)%nat ->
  objects_double fuel (relation_new c) A = Ok (clO c A).
Proof. exact objects_double_spec. Qed.

Theorem C07_join_upper_bound : forall c a b, in_range (nG c) a -> in_range (nG c) b ->
  subset a (clO c (Z.lor a b)) /\ subset b (clO c (Z.lor a b)).
Proof. exact join_is_upper_bound. Qed.
Theorem C07_join_least : forall c a b u, in_range (nG c) a -> in_range (nG c) b -> closedO c u ->
  subset a u -> subset b u -> subset (clO c (Z.lor a b)) u.
Proof. exact join_is_least. Qed.
Theorem C07_join_is_concept_extent : forall c a b, in_range (nG c) a -> in_range (nG c) b ->
  closedO c (clO c (Z.lor a b)).
Proof. exact join_closed. Qed.

Theorem C07_meet_extent_is_intersection : forall c a b, closedO c a -> closedO c b ->
  clO c (Z.land a b) = Z.land a b.
Proof. exact meet_closed. Qed.
Theorem C07_meet_lower_bound : forall a b, subset (Z.land a b) a /\ subset (Z.land a b) b.
Proof. exact meet_is_lower_bound. Qed.
Theorem C07_meet_greatest : forall a b l, subset l a -> subset l b -> subset l (Z.land a b).
Proof. exact meet_is_greatest. Qed.

Theorem C07_nary_union : forall l acc i,
  mem (fold_left Z.lor l acc) i = mem acc i || existsb (fun x => mem x i) l.
Proof. exact mem_fold_lor. Qed.
Theorem C07_nary_intersection : forall l acc i,
  mem (fold_left Z.land l acc) i = mem acc i && forallb (fun x => mem x i) l.
Proof. exact mem_fold_land. Qed.
Theorem C07_nary_meet_closed : forall c l, Forall (closedO c) l -> forall acc, closedO c acc ->
  closedO c (fold_left Z.land l acc).
Proof. exact fold_land_closed. Qed.

Theorem C07_order_from_join_meet : forall c a b, closedO c a -> closedO c b ->
  (subset a b <-> clO c (Z.lor a b) = b) /\ (subset a b <-> Z.land a b = a).
Proof. exact order_join_meet. Qed.

Example C07_witness :
  let c := mkCtx 3 3 [5; 3; 6] in
  objects_double 4 (relation_new c) (Z.lor 1 2) = Ok 3 /\ closedO c 1 /\ closedO c 2.
Proof. split; [vm_compute; reflexivity|]. split; (split; [apply in_range_of_bound; cbn; split; [apply Z.leb_le|apply Z.ltb_lt]; reflexivity|vm_compute; reflexivity]). Qed.
