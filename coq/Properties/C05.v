(** C05 — Neighbor links are exactly the covering relation.
    STATUS: [_partial].  Proved: every candidate examined by the neighbour search is a
    closed extent strictly above the given one.  The minimality filter and the converse
    links of the heap loop are decided by the correspondence in this revision. *)
From Coq Require Import ZArith List Bool.
From Concepts Require Import Base.Res Base.PyInt Base.BitSet Spec.FCA Spec.Context
  Model.Matrices Model.ContextApi Model.Members Model.Lattice Model.LatticeApi
  Proofs.Matrices Proofs.ContextApi Proofs.Closure Proofs.LatticeBasics Proofs.LatticeFirst.
Import ListNotations.
Open Scope Z_scope.

Theorem C05_candidates_above_partial : forall c A g, closedO c A -> (g < nG c)%nat -> mem A g = false ->
  closedO c (clO c (Z.lor A (bit g))) /\ psubset A (clO c (Z.lor A (bit g))).
Proof. exact candidate_above. Qed.
