(** C10 — Reduced labelling.  STATUS: [_partial].  Proved: the extent under which an object
    o is filed is {o}'' and the extent under which a property p is filed is {p}'.  The
    per-concept tuples are decided by the correspondence in this revision. *)
From Coq Require Import ZArith List Bool.
From Concepts Require Import Base.Res Base.PyInt Base.BitSet Spec.FCA Spec.Context
  Model.Matrices Model.ContextApi Model.Members Model.Lattice Model.LatticeApi
  Proofs.Matrices Proofs.ContextApi Proofs.Closure Proofs.LatticeBasics Proofs.LatticeFirst.
Import ListNotations.
Open Scope Z_scope.

Theorem C10_object_concept_partial : forall fuel c o,
  wf_ctx c -> (o < nG c)%nat -> (Nat.max (nG c) (nM c) <= fuel)%nat ->
  (do B <- intension_raw fuel (relation_new c) [o] ;; properties_prime fuel (relation_new c) B)
  = Ok (clO c (bit o)).
Proof. exact object_label_extent. Qed.
Theorem C10_attribute_concept_partial : forall fuel c p,
  (p < nM c)%nat -> (Nat.max (nG c) (nM c) <= fuel)%nat ->
  extension_raw fuel (relation_new c) [p] = Ok (upM c (bit p)).
Proof. exact property_label_extent. Qed.
