(** C10 — Reduced labelling.

    "each object o appears in the objects label of exactly one concept, the object concept
    (o'', o'), and each property p in the properties label of exactly one concept, the attribute
    concept (p', p''), in context order within a label.  The extent of any concept is the union
    of the object labels in its downset and its intent the union of the property labels in its
    upset, and concept.atoms lists exactly the lattice atoms below or equal to it."

    END-TO-END: [L] is the value returned by the model of [Context.lattice] ([build_lattice]
    including Lattice._annotate; satisfiable by [C03_terminates]).  [c_objects x] /
    [c_properties x] are the positions (in the context) of the labels of member [x]; context
    order is increasing position.  [c_atoms x] / [c_upper x0] are positions of members. *)
From Coq Require Import ZArith List Bool Sorted.
From Concepts Require Import Base.Res Base.PyInt Base.BitSet Spec.FCA Spec.Context Spec.LatticeSpec
  Model.Matrices Model.ContextApi Model.Members Model.Lattice Model.LatticeApi
  Proofs.Matrices Proofs.ContextApi Proofs.Closure Proofs.LatticeBasics Proofs.LatticeFirst
  Proofs.BuildLattice Proofs.LatticeLabels Proofs.Assemble.
Import ListNotations.
Open Scope Z_scope.

(** * each object in exactly one label: that of the object concept (o'', o') *)

Theorem C10_object_label_unique : forall fuel dfuel c L o,
  wf_ctx c -> (Nat.max (nG c) (nM c) <= dfuel)%nat -> build_lattice fuel dfuel (relation_new c) = Ok L ->
  (o < nG c)%nat ->
  exists k, (exists x, concept_at L k x /\ In o (c_objects x) /\
               c_extent x = clO c (bit o) /\ c_intent x = upO c (bit o)) /\
    forall k' x', concept_at L k' x' -> In o (c_objects x') -> k' = k.
Proof.
  intros fuel dfuel c L o Hwf Hd HB.
  exact (object_label_unique c L (build_lattice_ok fuel dfuel c L Hwf Hd HB) o).
Qed.

(** * each property in exactly one label: that of the attribute concept (p', p'') *)

Theorem C10_property_label_unique : forall fuel dfuel c L p,
  wf_ctx c -> (Nat.max (nG c) (nM c) <= dfuel)%nat -> build_lattice fuel dfuel (relation_new c) = Ok L ->
  (p < nM c)%nat ->
  exists k, (exists x, concept_at L k x /\ In p (c_properties x) /\
               c_extent x = upM c (bit p) /\ c_intent x = clM c (bit p)) /\
    forall k' x', concept_at L k' x' -> In p (c_properties x') -> k' = k.
Proof.
  intros fuel dfuel c L p Hwf Hd HB.
  exact (property_label_unique c L (build_lattice_ok fuel dfuel c L Hwf Hd HB) p).
Qed.

(** the content of a label *)
Theorem C10_objects_label : forall fuel dfuel c L i x o,
  wf_ctx c -> (Nat.max (nG c) (nM c) <= dfuel)%nat -> build_lattice fuel dfuel (relation_new c) = Ok L ->
  concept_at L i x ->
  (In o (c_objects x) <-> (o < nG c)%nat /\ c_extent x = clO c (bit o)).
Proof.
  intros fuel dfuel c L i x o Hwf Hd HB.
  exact (ok_objects c L (build_lattice_ok fuel dfuel c L Hwf Hd HB) i x o).
Qed.

Theorem C10_properties_label : forall fuel dfuel c L i x p,
  wf_ctx c -> (Nat.max (nG c) (nM c) <= dfuel)%nat -> build_lattice fuel dfuel (relation_new c) = Ok L ->
  concept_at L i x ->
  (In p (c_properties x) <-> (p < nM c)%nat /\ c_extent x = upM c (bit p)).
Proof.
  intros fuel dfuel c L i x p Hwf Hd HB.
  exact (ok_properties c L (build_lattice_ok fuel dfuel c L Hwf Hd HB) i x p).
Qed.

(** * context order within a label (strictly increasing positions: in particular no repeats) *)

Theorem C10_objects_label_sorted : forall fuel dfuel c L i x,
  wf_ctx c -> (Nat.max (nG c) (nM c) <= dfuel)%nat -> build_lattice fuel dfuel (relation_new c) = Ok L ->
  concept_at L i x -> StronglySorted lt (c_objects x).
Proof.
  intros fuel dfuel c L i x Hwf Hd HB.
  exact (ok_objects_sorted c L (build_lattice_ok fuel dfuel c L Hwf Hd HB) i x).
Qed.

Theorem C10_properties_label_sorted : forall fuel dfuel c L i x,
  wf_ctx c -> (Nat.max (nG c) (nM c) <= dfuel)%nat -> build_lattice fuel dfuel (relation_new c) = Ok L ->
  concept_at L i x -> StronglySorted lt (c_properties x).
Proof.
  intros fuel dfuel c L i x Hwf Hd HB.
  exact (ok_properties_sorted c L (build_lattice_ok fuel dfuel c L Hwf Hd HB) i x).
Qed.

Theorem C10_labels_valid : forall fuel dfuel c L i x,
  wf_ctx c -> (Nat.max (nG c) (nM c) <= dfuel)%nat -> build_lattice fuel dfuel (relation_new c) = Ok L ->
  concept_at L i x ->
  Forall (fun o => (o < nG c)%nat) (c_objects x) /\ NoDup (c_objects x) /\
  Forall (fun p => (p < nM c)%nat) (c_properties x) /\ NoDup (c_properties x).
Proof.
  intros fuel dfuel c L i x Hwf Hd HB.
  exact (labels_valid c L (build_lattice_ok fuel dfuel c L Hwf Hd HB) i x).
Qed.

(** * extent = union of the object labels in the downset; intent = union of the property labels
      in the upset *)

Theorem C10_extent_is_union_of_labels_below : forall fuel dfuel c L i x,
  wf_ctx c -> (Nat.max (nG c) (nM c) <= dfuel)%nat -> build_lattice fuel dfuel (relation_new c) = Ok L ->
  concept_at L i x -> forall o,
  (mem (c_extent x) o = true <->
   exists k y, concept_at L k y /\ subset (c_extent y) (c_extent x) /\ In o (c_objects y)).
Proof.
  intros fuel dfuel c L i x Hwf Hd HB.
  exact (extent_is_union_of_labels_below c L (build_lattice_ok fuel dfuel c L Hwf Hd HB) i x).
Qed.

Theorem C10_intent_is_union_of_labels_above : forall fuel dfuel c L i x,
  wf_ctx c -> (Nat.max (nG c) (nM c) <= dfuel)%nat -> build_lattice fuel dfuel (relation_new c) = Ok L ->
  concept_at L i x -> forall p,
  (mem (c_intent x) p = true <->
   exists k y, concept_at L k y /\ subset (c_extent x) (c_extent y) /\ In p (c_properties y)).
Proof.
  intros fuel dfuel c L i x Hwf Hd HB.
  exact (intent_is_union_of_labels_above c L (build_lattice_ok fuel dfuel c L Hwf Hd HB) i x).
Qed.

(** * concept.atoms: exactly the lattice atoms (upper neighbours of the infimum [x0]) that are
      below or equal to the concept *)

Theorem C10_atoms : forall fuel dfuel c L x0 i x a,
  wf_ctx c -> (Nat.max (nG c) (nM c) <= dfuel)%nat -> build_lattice fuel dfuel (relation_new c) = Ok L ->
  concept_at L 0 x0 -> concept_at L i x ->
  (In a (c_atoms x) <->
   In a (c_upper x0) /\ exists y, concept_at L a y /\ subset (c_extent y) (c_extent x)).
Proof.
  intros fuel dfuel c L x0 i x a Hwf Hd HB.
  exact (atoms_spec c L (build_lattice_ok fuel dfuel c L Hwf Hd HB) x0 i x a).
Qed.

(** ... the atoms being the concepts covering the infimum *)
Theorem C10_atoms_cover_infimum : forall fuel dfuel c L i x a,
  wf_ctx c -> (Nat.max (nG c) (nM c) <= dfuel)%nat -> build_lattice fuel dfuel (relation_new c) = Ok L ->
  concept_at L i x ->
  (In a (c_atoms x) <-> exists y, concept_at L a y /\ covers c (clO c 0) (c_extent y)
                                  /\ subset (c_extent y) (c_extent x)).
Proof.
  intros fuel dfuel c L i x a Hwf Hd HB.
  exact (ok_atoms c L (build_lattice_ok fuel dfuel c L Hwf Hd HB) i x a).
Qed.

(** * the extents under which _annotate files a label *)

Theorem C10_object_concept : forall fuel c o,
  wf_ctx c -> (o < nG c)%nat -> (Nat.max (nG c) (nM c) <= fuel)%nat ->
  (do B <- intension_raw fuel (relation_new c) [o] ;; properties_prime fuel (relation_new c) B)
  = Ok (clO c (bit o)).
Proof. exact object_label_extent. Qed.
Theorem C10_attribute_concept : forall fuel c p,
  (p < nM c)%nat -> (Nat.max (nG c) (nM c) <= fuel)%nat ->
  extension_raw fuel (relation_new c) [p] = Ok (upM c (bit p)).
Proof. exact property_label_extent. Qed.

(** * witness: rows {0,1}, {1,2}, {2,3}, {0,1,2}: (objects label, properties label, atoms) of the
      eight members *)
Example C10_witness :
  let c := mkCtx 4 4 [3; 6; 12; 7] in
  wf_ctx c /\ (Nat.max (nG c) (nM c) <= 4)%nat /\
  exists L, build_lattice 20 4 (relation_new c) = Ok L /\
    map (fun x => (c_objects x, c_properties x, c_atoms x)) (l_concepts L)
    = [([], [], []); ([2], [3], [1]); ([3], [], [2]); ([0], [0], [2]); ([1], [], [2]);
       ([], [1], [2]); ([], [2], [1; 2]); ([], [], [1; 2])]%nat.
Proof.
  cbv zeta. split; [apply wf_ctxb_sound; vm_compute; reflexivity|]. split; [apply le_by_leb; vm_compute; reflexivity|].
  apply witness_intro. vm_compute. reflexivity.
Qed.
