(** C01 — Derivation operators are exactly the Galois connection of the table. *)
From Coq Require Import ZArith List Bool.
From Concepts Require Import Base.Res Base.PyInt Base.BitSet Spec.FCA Spec.Context
  Model.Matrices Model.ContextApi Proofs.Matrices Proofs.ContextApi.
Import ListNotations.
Open Scope Z_scope.

(** The loop of [matrices.prime] on any in-range set, any width. *)
Theorem C01_prime_objects : forall fuel c A,
  wf_ctx c -> in_range (nG c) A -> (bits_size A <= fuel)%nat ->
  objects_prime fuel (relation_new c) A = Ok (upO c A).
Proof. exact primeO_spec. Qed.

Theorem C01_prime_properties : forall fuel c B,
  in_range (nM c) B -> (bits_size B <= fuel)%nat ->
  properties_prime fuel (relation_new c) B = Ok (upM c B).
Proof. exact primeM_spec. Qed.

(** intension(objects) = exactly the properties every one has, once, in column order. *)
Theorem C01_intension : forall fuel c gs,
  wf_ctx c -> Forall (fun g => (g < nG c)%nat) gs -> (nG c <= fuel)%nat ->
  intension fuel (relation_new c) gs =
  Ok (filter (fun m => forallb (fun g => inc c g m) gs) (seq 0 (nM c))).
Proof. exact intension_spec. Qed.

Theorem C01_extension : forall fuel c ms,
  Forall (fun m => (m < nM c)%nat) ms -> (nM c <= fuel)%nat ->
  extension fuel (relation_new c) ms =
  Ok (filter (fun g => forallb (fun m => inc c g m) ms) (seq 0 (nG c))).
Proof. exact extension_spec. Qed.

Theorem C01_empty_objects : forall fuel c, wf_ctx c -> (nG c <= fuel)%nat ->
  intension fuel (relation_new c) [] = Ok (seq 0 (nM c)).
Proof. exact intension_nil. Qed.

Theorem C01_empty_properties : forall fuel c, (nM c <= fuel)%nat ->
  extension fuel (relation_new c) [] = Ok (seq 0 (nG c)).
Proof. exact extension_nil. Qed.

Theorem C01_set_only : forall fuel c gs gs',
  wf_ctx c -> Forall (fun g => (g < nG c)%nat) gs -> Forall (fun g => (g < nG c)%nat) gs' ->
  (nG c <= fuel)%nat -> (forall g, In g gs <-> In g gs') ->
  intension fuel (relation_new c) gs = intension fuel (relation_new c) gs'.
Proof. exact intension_set_only. Qed.

Theorem C01_raw_agrees : forall fuel c gs B,
  wf_ctx c -> Forall (fun g => (g < nG c)%nat) gs -> (nG c <= fuel)%nat ->
  intension_raw fuel (relation_new c) gs = Ok B ->
  intension fuel (relation_new c) gs = Ok (members (nM c) B) /\ in_range (nM c) B /\ B = upO c (of_list gs).
Proof. exact intension_raw_members. Qed.

Theorem C01_unknown_label : forall fuel c gs, ~ Forall (fun g => (g < nG c)%nat) gs ->
  intension fuel (relation_new c) gs = Raise KeyError.
Proof. exact intension_unknown. Qed.

(** non-vacuity: a concrete 3x70 table (wider than a machine word) meets the hypotheses *)
Example C01_witness :
  let c := mkCtx 3 70 [Z.shiftl 1 69 + 5; Z.shiftl 1 69 + 4; 7] in
  intension 3 (relation_new c) [0%nat; 1%nat] = Ok [2%nat; 69%nat].
Proof. vm_compute. reflexivity. Qed.
