(** C02 — Concept lookup returns the least formal concept containing the query.

    "For any non-empty collection of objects, context[items] is the pair (A'', A'), and for any
    non-empty collection of properties the pair (B', B''): always a formal concept whose extent
    (resp. intent) contains the query and is contained in that of every other concept containing
    it; the closure is extensive, monotone and idempotent.  lattice[items] and
    lattice(properties) return the very member object of the lattice that has that extent and
    intent, lattice[i] the i-th member in iteration order and lattice[()] the top concept."

    Context level: the loops of [getitem_raw] against the comprehension-defined closure.
    Lattice level: END-TO-END.  Every lattice theorem quantifies over the fuels, the context [c]
    and the value [L] returned by the model of [Context.lattice] ([build_lattice]); the only
    hypotheses are [wf_ctx c], enough fuel for the derivation loops and
    [build_lattice fuel dfuel (relation_new c) = Ok L] (satisfiable for every context:
    [C03_terminates]).  Members of the lattice are addressed by their position:
    [concept_at L k x] says that [x] is the k-th member in iteration order. *)
From Coq Require Import ZArith List Bool.
From Concepts Require Import Base.Res Base.PyInt Base.BitSet Spec.FCA Spec.Context Spec.LatticeSpec
  Model.Matrices Model.ContextApi Model.Lattice Proofs.Matrices Proofs.ContextApi Proofs.Closure
  Proofs.LatticeBasics Proofs.BuildLattice Proofs.LatticeQueries Proofs.Assemble.
Import ListNotations.
Open Scope Z_scope.

(** * context[items] *)

Theorem C02_getitem_objects : forall fuel c gs,
  wf_ctx c -> gs <> [] -> Forall (fun g => (g < nG c)%nat) gs -> (Nat.max (nG c) (nM c) <= fuel)%nat ->
  getitem_raw fuel (relation_new c) (map inl gs) = Ok (clO c (of_list gs), upO c (of_list gs)).
Proof. exact getitem_objects. Qed.

Theorem C02_getitem_properties : forall fuel c ms,
  wf_ctx c -> ms <> [] -> Forall (fun m => (m < nM c)%nat) ms -> (Nat.max (nG c) (nM c) <= fuel)%nat ->
  getitem_raw fuel (relation_new c) (map inr ms) = Ok (upM c (of_list ms), clM c (of_list ms)).
Proof. exact getitem_properties. Qed.

(** a label that is neither an object nor a property (or a mixed collection) raises KeyError *)
Theorem C02_getitem_unknown : forall fuel k items,
  ~ object_items (nG (mc k)) items -> ~ property_items (nM (mc k)) items ->
  getitem_raw fuel k items = Raise KeyError.
Proof. exact getitem_raw_unknown. Qed.

Theorem C02_intension_unknown : forall fuel c gs, ~ Forall (fun g => (g < nG c)%nat) gs ->
  intension fuel (relation_new c) gs = Raise KeyError.
Proof. exact intension_unknown. Qed.

Theorem C02_is_concept_objects : forall c A, in_range (nG c) A -> is_concept c (clO c A) (upO c A).
Proof. exact concept_of_objects. Qed.
Theorem C02_is_concept_properties : forall c B, in_range (nM c) B -> is_concept c (upM c B) (clM c B).
Proof. exact concept_of_properties. Qed.

Theorem C02_contains_query : forall c A, in_range (nG c) A -> subset A (clO c A).
Proof. exact clO_extensive. Qed.
Theorem C02_contains_query_properties : forall c B, in_range (nM c) B -> subset B (clM c B).
Proof. exact clM_extensive. Qed.

Theorem C02_least : forall c A E F, in_range (nG c) A -> is_concept c E F -> subset A E -> subset (clO c A) E.
Proof. exact clO_least. Qed.
Theorem C02_least_properties : forall c B E F, in_range (nM c) B -> is_concept c E F -> subset B F -> subset (clM c B) F.
Proof. exact clM_least. Qed.

Theorem C02_monotone : forall c A1 A2, subset A1 A2 -> subset (clO c A1) (clO c A2).
Proof. exact clO_monotone. Qed.
Theorem C02_idempotent : forall c A, in_range (nG c) A -> clO c (clO c A) = clO c A.
Proof. exact clO_idempotent. Qed.
Theorem C02_monotone_properties : forall c B1 B2, subset B1 B2 -> subset (clM c B1) (clM c B2).
Proof. exact clM_monotone. Qed.
Theorem C02_idempotent_properties : forall c B, in_range (nM c) B -> clM c (clM c B) = clM c B.
Proof. exact clM_idempotent. Qed.

(** * the extent -> member mapping *)

(** on any list: returns the (first) position holding exactly that extent; KeyError iff there is none *)
Theorem C02_mapping_lookup_sound : forall exts e i, mapping_get exts e = Ok i ->
  (i < length exts)%nat /\ nth_extent exts i = e.
Proof. exact mapping_get_ok. Qed.
Theorem C02_mapping_lookup_total : forall exts e, In e exts -> exists i, mapping_get exts e = Ok i.
Proof. exact mapping_get_in. Qed.

(** on the lattice: the lookup of any closed extent finds THE member with that extent *)
Theorem C02_mapping_total : forall fuel dfuel c L A,
  wf_ctx c -> (Nat.max (nG c) (nM c) <= dfuel)%nat -> build_lattice fuel dfuel (relation_new c) = Ok L ->
  closedO c A ->
  exists k x, mapping_get (l_exts L) A = Ok k /\ concept_at L k x /\ c_extent x = A /\ c_intent x = upO c A.
Proof.
  intros fuel dfuel c L A Hwf Hd HB.
  exact (mapping_total c L dfuel (build_lattice_ok fuel dfuel c L Hwf Hd HB) Hd A).
Qed.

Theorem C02_member_unique : forall fuel dfuel c L k x k' x',
  wf_ctx c -> (Nat.max (nG c) (nM c) <= dfuel)%nat -> build_lattice fuel dfuel (relation_new c) = Ok L ->
  concept_at L k x -> concept_at L k' x' -> c_extent x = c_extent x' -> k = k'.
Proof.
  intros fuel dfuel c L k x k' x' Hwf Hd HB.
  exact (mapping_unique c L (build_lattice_ok fuel dfuel c L Hwf Hd HB) k x k' x').
Qed.

Theorem C02_mapping_not_closed : forall fuel dfuel c L A,
  wf_ctx c -> (Nat.max (nG c) (nM c) <= dfuel)%nat -> build_lattice fuel dfuel (relation_new c) = Ok L ->
  ~ closedO c A -> mapping_get (l_exts L) A = Raise KeyError.
Proof.
  intros fuel dfuel c L A Hwf Hd HB.
  exact (mapping_get_not_closed c L (build_lattice_ok fuel dfuel c L Hwf Hd HB) A).
Qed.

(** * lattice[items] *)

Theorem C02_lattice_getitem_objects : forall fuel dfuel c L gs,
  wf_ctx c -> (Nat.max (nG c) (nM c) <= dfuel)%nat -> build_lattice fuel dfuel (relation_new c) = Ok L ->
  gs <> [] -> Forall (fun g => (g < nG c)%nat) gs ->
  exists k x, lattice_getitem dfuel L (map inl gs) = Ok k /\ concept_at L k x
    /\ c_extent x = clO c (of_list gs) /\ c_intent x = upO c (of_list gs).
Proof.
  intros fuel dfuel c L gs Hwf Hd HB.
  exact (lattice_getitem_objects c L dfuel (build_lattice_ok fuel dfuel c L Hwf Hd HB) Hwf Hd gs).
Qed.

Theorem C02_lattice_getitem_properties : forall fuel dfuel c L ms,
  wf_ctx c -> (Nat.max (nG c) (nM c) <= dfuel)%nat -> build_lattice fuel dfuel (relation_new c) = Ok L ->
  ms <> [] -> Forall (fun m => (m < nM c)%nat) ms ->
  exists k x, lattice_getitem dfuel L (map inr ms) = Ok k /\ concept_at L k x
    /\ c_extent x = upM c (of_list ms) /\ c_intent x = clM c (of_list ms).
Proof.
  intros fuel dfuel c L ms Hwf Hd HB.
  exact (lattice_getitem_properties c L dfuel (build_lattice_ok fuel dfuel c L Hwf Hd HB) Hwf Hd ms).
Qed.

(** lattice[()] is the last member, and that member is the top concept (all objects) *)
Theorem C02_lattice_getitem_nil_top : forall fuel dfuel c L,
  wf_ctx c -> (Nat.max (nG c) (nM c) <= dfuel)%nat -> build_lattice fuel dfuel (relation_new c) = Ok L ->
  exists x, lattice_getitem dfuel L [] = Ok (length (l_concepts L) - 1)%nat
    /\ concept_at L (length (l_concepts L) - 1) x
    /\ c_extent x = ones (nG c) /\ c_intent x = upO c (ones (nG c)).
Proof.
  intros fuel dfuel c L Hwf Hd HB.
  exact (lattice_getitem_nil_top c L dfuel (build_lattice_ok fuel dfuel c L Hwf Hd HB) Hd).
Qed.

Theorem C02_lattice_getitem_unknown : forall fuel dfuel c L items,
  wf_ctx c -> (Nat.max (nG c) (nM c) <= dfuel)%nat -> build_lattice fuel dfuel (relation_new c) = Ok L ->
  items <> [] -> ~ object_items (nG c) items -> ~ property_items (nM c) items ->
  lattice_getitem dfuel L items = Raise KeyError.
Proof.
  intros fuel dfuel c L items Hwf Hd HB.
  exact (lattice_getitem_unknown c L dfuel items (build_lattice_ok fuel dfuel c L Hwf Hd HB)).
Qed.

(** * lattice(properties) — any list of property labels, the empty one included *)

Theorem C02_lattice_call : forall fuel dfuel c L ms,
  wf_ctx c -> (Nat.max (nG c) (nM c) <= dfuel)%nat -> build_lattice fuel dfuel (relation_new c) = Ok L ->
  Forall (fun m => (m < nM c)%nat) ms ->
  exists k x, lattice_call dfuel L ms = Ok k /\ concept_at L k x
    /\ c_extent x = upM c (of_list ms) /\ c_intent x = clM c (of_list ms).
Proof.
  intros fuel dfuel c L ms Hwf Hd HB.
  exact (lattice_call_spec c L dfuel (build_lattice_ok fuel dfuel c L Hwf Hd HB) Hd ms).
Qed.

Theorem C02_lattice_call_nil : forall fuel dfuel c L,
  wf_ctx c -> (Nat.max (nG c) (nM c) <= dfuel)%nat -> build_lattice fuel dfuel (relation_new c) = Ok L ->
  lattice_call dfuel L [] = Ok (length (l_concepts L) - 1)%nat.
Proof.
  intros fuel dfuel c L Hwf Hd HB.
  exact (lattice_call_nil c L dfuel (build_lattice_ok fuel dfuel c L Hwf Hd HB) Hd).
Qed.

Theorem C02_lattice_call_unknown : forall fuel dfuel c L ms,
  wf_ctx c -> (Nat.max (nG c) (nM c) <= dfuel)%nat -> build_lattice fuel dfuel (relation_new c) = Ok L ->
  ~ Forall (fun m => (m < nM c)%nat) ms -> lattice_call dfuel L ms = Raise KeyError.
Proof.
  intros fuel dfuel c L ms Hwf Hd HB.
  exact (lattice_call_unknown c L dfuel (build_lattice_ok fuel dfuel c L Hwf Hd HB) ms).
Qed.

(** * lattice[i] — the i-th member in iteration order; its [index] attribute is i *)

Theorem C02_lattice_getitem_int : forall L i x, nth_concept L i = Ok x <-> concept_at L i x.
Proof. exact nth_concept_iff. Qed.

Theorem C02_lattice_getitem_int_range : forall L i, (length (l_concepts L) <= i)%nat ->
  nth_concept L i = Raise IndexError.
Proof. exact nth_concept_out_of_range. Qed.

Theorem C02_lattice_getitem_int_index : forall fuel dfuel c L i x,
  wf_ctx c -> (Nat.max (nG c) (nM c) <= dfuel)%nat -> build_lattice fuel dfuel (relation_new c) = Ok L ->
  nth_concept L i = Ok x -> c_index x = i /\ is_concept c (c_extent x) (c_intent x).
Proof.
  intros fuel dfuel c L i x Hwf Hd HB Hx. apply nth_concept_iff in Hx.
  pose proof (build_lattice_ok fuel dfuel c L Hwf Hd HB) as OK.
  exact (conj (index_is_position c L OK i x Hx) (concept_at_is_concept c L OK i x Hx)).
Qed.

(** * witnesses: the hypotheses are satisfiable and the lookups compute *)

Example C02_witness :
  let c := mkCtx 3 3 [5; 3; 6] in
  getitem_raw 4 (relation_new c) [inl 0%nat; inl 1%nat] = Ok (3, 1).
Proof. vm_compute. reflexivity. Qed.

(** objects 0..3 with rows {0,1}, {1,2}, {2,3}, {0,1,2}: eight concepts, not a Boolean lattice *)
Example C02_witness_lattice :
  let c := mkCtx 4 4 [3; 6; 12; 7] in
  wf_ctx c /\ (Nat.max (nG c) (nM c) <= 4)%nat /\
  exists L, build_lattice 20 4 (relation_new c) = Ok L /\
    (lattice_getitem 4 L [inl 0%nat; inl 1%nat], lattice_getitem 4 L [inr 1%nat], lattice_getitem 4 L [],
     lattice_call 4 L [1%nat; 2%nat], lattice_call 4 L [], lattice_call 4 L [7%nat])
    = (Ok 5%nat, Ok 5%nat, Ok 7%nat, Ok 4%nat, Ok 7%nat, Raise KeyError).
Proof.
  cbv zeta. split; [apply wf_ctxb_sound; vm_compute; reflexivity|]. split; [apply le_by_leb; vm_compute; reflexivity|].
  apply witness_intro. vm_compute. reflexivity.
Qed.
