(** C02 — Concept lookup returns the least formal concept containing the query.
    Context level: full strength.  Lattice level (lattice[items], lattice(props)): the
    lookup returns the member whose extent is the closure ([_partial]: that the lookup
    cannot miss needs the completeness of the enumeration, C03). *)
From Coq Require Import ZArith List Bool.
From Concepts Require Import Base.Res Base.PyInt Base.BitSet Spec.FCA Spec.Context
  Model.Matrices Model.ContextApi Model.Lattice Proofs.Matrices Proofs.ContextApi Proofs.Closure
  Proofs.LatticeBasics.
Import ListNotations.
Open Scope Z_scope.

Theorem C02_getitem_objects : forall fuel c gs,
  wf_ctx c -> gs <> [] -> Forall (fun g => (g < nG c)%nat) gs -> (Nat.max (nG c) (nM c) <= fuel)%nat ->
  getitem_raw fuel (relation_new c) (map inl gs) = Ok (clO c (of_list gs), upO c (of_list gs)).
Proof. exact getitem_objects. Qed.

Theorem C02_getitem_properties : forall fuel c ms,
  wf_ctx c -> ms <> [] -> Forall (fun m => (m < nM c)%nat) ms -> (Nat.max (nG c) (nM c) <= fuel)%nat ->
  getitem_raw fuel (relation_new c) (map inr ms) = Ok (upM c (of_list ms), clM c (of_list ms)).
Proof. exact getitem_properties. Qed.

Theorem C02_is_concept_objects : forall c A, in_range (nG c) A -> is_concept c (clO c A) (upO c A).
Proof. exact concept_of_objects. Qed.
Theorem C02_is_concept_properties : forall c B, in_range (nM c) B -> is_concept c (upM c B) (clM c B).
Proof. exact concept_of_properties. Qed.

Theorem C02_contains_query : forall c A, in_range (nG c) A -> subset A (clO c A).
Proof. exact clO_extensive. Qed.
Theorem C02_contains_query_properties : forall c B, in_range (nM c) B -> subset B (clM c B).
Proof. exact clM_extensive. Qed.

Theorem C02_least : forall c A E F, in_range (nG c) A -> is_concept c E F -> subset A E -> subset (clO c A) E.
Proof. exact clO_least. Qed.
Theorem C02_least_properties : forall c B E F, in_range (nM c) B -> is_concept c E F -> subset B F -> subset (clM c B) F.
Proof. exact clM_least. Qed.

Theorem C02_monotone : forall c A1 A2, subset A1 A2 -> subset (clO c A1) (clO c A2).
Proof. exact clO_monotone. Qed.
Theorem C02_idempotent : forall c A, in_range (nG c) A -> clO c (clO c A) = clO c A.
Proof. exact clO_idempotent. Qed.
Theorem C02_monotone_properties : forall c B1 B2, subset B1 B2 -> subset (clM c B1) (clM c B2).
Proof. exact clM_monotone. Qed.
Theorem C02_idempotent_properties : forall c B, in_range (nM c) B -> clM c (clM c B) = clM c B.
Proof. exact clM_idempotent. Qed.

(** the extent -> member mapping returns the (first) member with exactly that extent,
    and raises KeyError exactly when there is none *)
Theorem C02_mapping_lookup_partial : forall exts e i, mapping_get exts e = Ok i ->
  (i < length exts)%nat /\ nth_extent exts i = e.
Proof. exact mapping_get_ok. Qed.
Theorem C02_mapping_lookup_total : forall exts e, In e exts -> exists i, mapping_get exts e = Ok i.
Proof. exact mapping_get_in. Qed.

Example C02_witness :
  let c := mkCtx 3 3 [5; 3; 6] in
  getitem_raw 4 (relation_new c) [inl 0%nat; inl 1%nat] = Ok (3, 1).
Proof. vm_compute. reflexivity. Qed.
