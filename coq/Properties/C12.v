(** C12 — Text formats round-trip every representable context.

    Model: Model/Formats.v restates, over code-point lists, [Table/Cxt/Csv/Fimi/WikiTable.dumps],
    [Table/Cxt/Csv.loads], [read_concepts_dat] and [FormatMeta.infer_format] path by path, including the
    str methods they use ([strip], [split], [partition], [%-Ns], iteration over [io.StringIO]), the
    universal-newline translation of [io.StringIO(newline=None)] on write, and the reader automaton and the
    QUOTE_MINIMAL / QUOTE_NONE writers of the csv module for the excel dialect and for [FimiDialect].
    Spec: Spec/FormatSpec.v holds the label classes and four readers written from the format descriptions.

    NOT modelled: the codecs (utf-8 / utf-16 / latin-1 / ascii) and real files (the model starts from the
    decoded text; [read_dat] models the newline='' line splitting of the file object); the C [csv] module
    itself — its excel dialect and FimiDialect are re-stated as an automaton (no escapechar, no
    skipinitialspace, no field size limit; [csv.Error] is represented by the [OutOfFuel] constructor);
    [repr] / [ast.literal_eval] for the python-literal format; non-ASCII decimal digits accepted by [int()].
    The theorems are about the model; its agreement with the library is checked by differential testing. *)
From Coq Require Import ZArith List Bool Sorted.
From Concepts Require Import Base.Res Model.Formats Spec.FormatSpec Proofs.Formats.
Import ListNotations.
Open Scope Z_scope.

(** ** Round trips *)

(** table: labels non-empty, without leading/trailing white space, line boundaries, '|' or '#';
    for every indent *)
Theorem C12_table_roundtrip : forall indent objs props bools,
  well_formed objs props bools ->
  Forall (fun s => table_ok s = true) objs -> Forall (fun s => table_ok s = true) props ->
  load_table (dump_table indent objs props bools) = Ok (objs, props, bools).
Proof. exact table_roundtrip. Qed.

(** cxt: labels non-empty, without leading/trailing white space or line boundaries *)
Theorem C12_cxt_roundtrip : forall objs props bools,
  well_formed objs props bools ->
  Forall (fun s => cxt_ok s = true) objs -> Forall (fun s => cxt_ok s = true) props ->
  load_cxt (dump_cxt objs props bools) = Ok (objs, props, bools).
Proof. exact cxt_roundtrip. Qed.

(** csv with the symbol set given: ANY labels (commas, quotes, line breaks, NUL, empty strings), any
    properties list; only one row per object is needed *)
Theorem C12_csv_roundtrip : forall as_int objs props bools,
  length bools = length objs ->
  load_csv (Some as_int) (dump_csv as_int objs props bools) = Ok (objs, props, bools).
Proof. exact csv_roundtrip. Qed.

(** csv with the symbol set sniffed from the first data row, for both symbol sets *)
Theorem C12_csv_roundtrip_auto : forall as_int objs props bools,
  well_formed objs props bools ->
  load_csv None (dump_csv as_int objs props bools) = Ok (objs, props, bools).
Proof. exact csv_roundtrip_auto. Qed.

(** the statement with the label class of the property (labels without NUL) is an instance *)
Corollary C12_csv_roundtrip_csv_ok : forall as_int objs props bools,
  well_formed objs props bools ->
  Forall (fun s => csv_ok s = true) objs -> Forall (fun s => csv_ok s = true) props ->
  load_csv (Some as_int) (dump_csv as_int objs props bools) = Ok (objs, props, bools)
  /\ load_csv None (dump_csv as_int objs props bools) = Ok (objs, props, bools).
Proof.
  intros as_int objs props bools Hwf _ _. split.
  - apply csv_roundtrip. destruct Hwf as [_ [_ [H _]]]. exact H.
  - apply csv_roundtrip_auto. exact Hwf.
Qed.

(** the excel reader reads back every list of non-empty records the excel writer writes
    (the quoting lemma is [excel_quoted_body]) *)
Theorem C12_csv_records : forall rows,
  Forall (fun r : list str => r <> []) rows ->
  csv_read excel false (flat_map csv_writerow rows) = (rows, None).
Proof. exact excel_read_rows. Qed.

(** ** Index-based exports *)

(** a .dat file is read back as the rows of numbers that were written *)
Theorem C12_dat_roundtrip : forall rows, read_dat (dump_dat rows) = Ok rows.
Proof. exact dat_roundtrip. Qed.

(** the FIMI export has one line per object listing exactly its true cells, ascending *)
Theorem C12_fimi_rows_spec : forall bools, read_dat (dump_fimi bools) = Ok (map true_indexes bools).
Proof. exact fimi_rows_spec. Qed.

Theorem C12_true_indexes_spec : forall row i, In i (true_indexes row) <-> nth_error row i = Some true.
Proof. exact true_indexes_spec. Qed.

Theorem C12_true_indexes_sorted : forall row, StronglySorted lt (true_indexes row).
Proof. exact true_indexes_sorted. Qed.

(** ** infer_format *)

Theorem C12_infer_format_spec : forall suffix name,
  format_of_suffix suffix = Ok name <-> In (map ascii_lower suffix, name) suffix_table.
Proof. exact infer_format_spec. Qed.

Theorem C12_infer_format_unknown : forall suffix,
  (forall name, ~ In (map ascii_lower suffix, name) suffix_table) <-> format_of_suffix suffix = Raise ValueError.
Proof. exact infer_format_unknown. Qed.

Theorem C12_infer_format_case_insensitive : forall s s',
  map ascii_lower s = map ascii_lower s' -> format_of_suffix s = format_of_suffix s'.
Proof. exact infer_format_case_insensitive. Qed.

(** ** A reader written from the format description recovers the triple from the dump *)

Theorem C12_spec_reads_dump_table : forall indent objs props bools,
  well_formed objs props bools ->
  Forall (fun s => table_ok s = true) objs -> Forall (fun s => table_ok s = true) props ->
  spec_read_table (dump_table indent objs props bools) = Some (objs, props, bools).
Proof. exact spec_reads_dump_table. Qed.

Theorem C12_spec_reads_dump_cxt : forall objs props bools,
  well_formed objs props bools ->
  Forall (fun s => cxt_ok s = true) objs -> Forall (fun s => cxt_ok s = true) props ->
  spec_read_cxt (dump_cxt objs props bools) = Some (objs, props, bools).
Proof. exact spec_reads_dump_cxt. Qed.

Theorem C12_spec_reads_dump_csv : forall as_int objs props bools,
  length bools = length objs -> Forall (fun r => length r = length props) bools ->
  spec_read_csv as_int (dump_csv as_int objs props bools) = Some (objs, props, bools).
Proof. exact spec_reads_dump_csv. Qed.

(** wiki-table labels: non-empty, no line boundary, no '!' and no '|' *)
Theorem C12_spec_reads_dump_wikitable : forall objs props bools,
  well_formed objs props bools ->
  Forall (fun s => wiki_ok s = true) objs -> Forall (fun s => wiki_ok s = true) props ->
  spec_read_wikitable (dump_wikitable objs props bools) = Some (objs, props, bools).
Proof. exact spec_reads_dump_wikitable. Qed.

(** ** Witness: a 2x2 context, the object label "ab" forces the padding of "c" and of the header *)
Example C12_witness :
  let objs := [[97; 98]; [99]] in                      (* "ab", "c" *)
  let props := [[112]; [113; 32; 114]] in              (* "p", "q r" *)
  let bools := [[true; false]; [false; true]] in
  dump_table 1 objs props bools
  = [32; 32; 32; 124; 112; 124; 113; 32; 114; 124; 10;       (* "   |p|q r|"  *)
     32; 97; 98; 124; 88; 124; 32; 32; 32; 124; 10;          (* " ab|X|   |"  *)
     32; 99; 32; 124; 32; 124; 88; 32; 32; 124]              (* " c | |X  |"  *)
  /\ load_table (dump_table 1 objs props bools) = Ok (objs, props, bools)
  /\ load_cxt (dump_cxt objs props bools) = Ok (objs, props, bools)
  /\ load_csv None (dump_csv true objs props bools) = Ok (objs, props, bools)
  /\ dump_csv false [[97; 44; 98]; [99; 34]] props bools     (* "a,b" and c-quote need quoting *)
     = [44; 112; 44; 113; 32; 114; 13; 10;
        34; 97; 44; 98; 34; 44; 88; 44; 13; 10;
        34; 99; 34; 34; 34; 44; 44; 88; 13; 10]
  /\ read_dat (dump_fimi bools) = Ok [[0%nat]; [1%nat]]
  /\ spec_read_wikitable (dump_wikitable objs props bools) = Some (objs, props, bools).
Proof. vm_compute. repeat split; reflexivity. Qed.

(** ** The hypotheses are needed (each behaviour below is also the library's, checked against it) *)

(** an empty property name: the header 'p||' loses its last column through strip('|') *)
Example C12_boundary_table_empty_property :
  load_table (dump_table 0 [[97]] [[112]; []] [[true; false]]) = Ok ([[97]], [[112]], [[true]]).
Proof. vm_compute. reflexivity. Qed.

(** '|' inside a property name splits the column *)
Example C12_boundary_table_bar_in_label :
  load_table (dump_table 0 [[97]] [[112]; [113; 124; 114]] [[true; false]])
  = Ok ([[97]], [[112]; [113]; [114]], [[true; false]]).
Proof. vm_compute. reflexivity. Qed.

(** no objects: the table loader fails on zip( * []), the sniffing csv loader on next(reader) *)
Example C12_boundary_no_objects :
  load_table (dump_table 0 [] [[112]] []) = Raise ValueError
  /\ load_csv None (dump_csv false [] [[112]] []) = Raise StopIteration
  /\ load_csv (Some false) (dump_csv false [] [[112]] []) = Ok ([], [[112]], []).
Proof. vm_compute. repeat split; reflexivity. Qed.

(** cxt: outer white space of a label is stripped, an empty object name shifts the sections *)
Example C12_boundary_cxt_labels :
  load_cxt (dump_cxt [[32; 97]] [[112]] [[true]]) = Ok ([[97]], [[112]], [[true]])
  /\ load_cxt (dump_cxt [[97]; []] [[112]] [[true]; [false]]) = Raise ValueError
  /\ load_cxt (dump_cxt [[97; 13; 98]] [[112]] [[true]]) = Raise KeyError.
Proof. vm_compute. repeat split; reflexivity. Qed.

(** ** The loaders read the text of a writer written from the format description

    The writers [spec_write_table], [spec_write_cxt], [spec_write_csv_gen] of Spec/FormatSpec.v take every
    freedom the format descriptions leave as a parameter; the library's loaders recover the triple for
    ALL values of these parameters (Proofs/FormatsWriters.v). *)
From Concepts Require Import Proofs.FormatsWriters.

(** table: arbitrary padding on both sides of every name and cell, optional final '|', optional spaces
    and comment after every line, blank / comment-only lines anywhere.  Comments must not contain a line
    feed, and [table_edges_ok]: with two or more properties a false first / last cell is at least one
    space wide and a row ending with a false cell has the final '|' (the boundary examples below show that
    the library reads a different context otherwise). *)
Theorem C12_load_reads_spec_writer_table : forall st objs props bools,
  well_formed objs props bools ->
  Forall (fun s => table_ok s = true) objs -> Forall (fun s => table_ok s = true) props ->
  table_comments_ok st -> table_edges_ok st bools ->
  load_table (spec_write_table st objs props bools) = Ok (objs, props, bools).
Proof. exact load_table_spec_writer. Qed.

(** a layout with the final '|' everywhere and no cell of width 0 satisfies [table_edges_ok] *)
Theorem C12_table_edges_ok_wide : forall st bools,
  (forall i, ts_bar st i = true) -> (forall i j, (1 <= ts_lpad st i j + ts_rpad st i j)%nat) ->
  table_edges_ok st bools.
Proof. exact table_edges_ok_wide. Qed.

(** cxt: every non-empty line padded with spaces on both sides, white-space-only lines at the end *)
Theorem C12_load_reads_spec_writer_cxt : forall st objs props bools,
  well_formed objs props bools ->
  Forall (fun s => cxt_ok s = true) objs -> Forall (fun s => cxt_ok s = true) props ->
  load_cxt (spec_write_cxt st objs props bools) = Ok (objs, props, bools).
Proof. exact load_cxt_spec_writer. Qed.

(** csv (RFC 4180): any labels; every field quoted or only those that need it; any first header field;
    both symbol sets; symbol set given or sniffed *)
Theorem C12_load_reads_spec_writer_csv : forall quote_all as_int header0 objs props bools,
  well_formed objs props bools ->
  load_csv (Some as_int) (spec_write_csv quote_all as_int header0 objs props bools) = Ok (objs, props, bools)
  /\ load_csv None (spec_write_csv quote_all as_int header0 objs props bools) = Ok (objs, props, bools).
Proof. exact load_csv_spec_writer. Qed.

(** csv, general writer: an arbitrary choice [q i j] of the fields quoted without need, the last record
    with or without its CRLF *)
Theorem C12_load_reads_spec_writer_csv_gen : forall q final as_int header0 objs props bools,
  props <> [] -> Forall (fun r : list bool => r <> []) bools -> length bools = length objs ->
  load_csv (Some as_int) (spec_write_csv_gen q final as_int header0 objs props bools) = Ok (objs, props, bools).
Proof. exact load_csv_spec_writer_gen. Qed.

Theorem C12_load_reads_spec_writer_csv_gen_auto : forall q final as_int header0 objs props bools,
  well_formed objs props bools ->
  load_csv None (spec_write_csv_gen q final as_int header0 objs props bools) = Ok (objs, props, bools).
Proof. exact load_csv_spec_writer_gen_auto. Qed.

(** ** Witness: liberally formatted texts

    table ("ab"/"c" x "p"/"q r"):
<<
   | p |q r  # names

# rows
ab | X |   | 
 c |   |X
>>
    (header without final '|' and with a comment; a blank line and a comment line; cells padded on both
    sides; spaces after the final '|'; last row without final '|'; final line feed). *)
Definition witness_table_style : table_style := {|
  ts_lpad := fun i j => match i, j with
                        | 0, 0 => 3 | 0, 1 => 1 | 1, 1 => 1 | 1, 2 => 2 | 2, 0 => 1 | _, _ => 0
                        end%nat;
  ts_rpad := fun i j => match i, j with
                        | 0, 1 => 1 | 0, 2 => 2 | 1, 0 => 1 | 1, 1 => 1 | 1, 2 => 1 | 2, 0 => 1 | 2, 1 => 3
                        | _, _ => 0
                        end%nat;
  ts_bar := fun i => Nat.eqb i 1;
  ts_trail := fun i => if Nat.eqb i 1 then 1%nat else 0%nat;
  ts_comment := fun i => if Nat.eqb i 0 then Some [32; 110; 97; 109; 101; 115] else None;    (* " names" *)
  ts_fill := fun i => match i with
                      | 1%nat => [(0%nat, None); (0%nat, Some [32; 114; 111; 119; 115])]      (* "", "# rows" *)
                      | 3%nat => [(0%nat, None)]                                              (* final line feed *)
                      | _ => []
                      end |}.

Example C12_witness_spec_writers :
  let objs := [[97; 98]; [99]] in                      (* "ab", "c" *)
  let props := [[112]; [113; 32; 114]] in              (* "p", "q r" *)
  let bools := [[true; false]; [false; true]] in
  let text :=
    [32; 32; 32; 124; 32; 112; 32; 124; 113; 32; 114; 32; 32; 35; 32; 110; 97; 109; 101; 115; 10;
     10;
     35; 32; 114; 111; 119; 115; 10;
     97; 98; 32; 124; 32; 88; 32; 124; 32; 32; 32; 124; 32; 10;
     32; 99; 32; 124; 32; 32; 32; 124; 88; 10] in
  spec_write_table witness_table_style objs props bools = text
  /\ load_table text = Ok (objs, props, bools)
  /\ spec_read_table text = None                          (* the strict reader insists on the final '|' *)
  (* cxt: "B\n\n 2 \n2  \n\n ab\nc \n p  \nq r\n X. \n.X  \n\n  " *)
  /\ (let cxt_text := [66; 10; 10; 32; 50; 32; 10; 50; 32; 32; 10; 10; 32; 97; 98; 10; 99; 32; 10;
                       32; 112; 32; 32; 10; 113; 32; 114; 10; 32; 88; 46; 32; 10; 46; 88; 32; 32; 10;
                       10; 32; 32] in
      spec_write_cxt {| cx_lpad := fun i => (i mod 2)%nat; cx_rpad := fun i => (i mod 3)%nat;
                        cx_trailer := [0%nat; 2%nat] |} objs props bools = cxt_text
      /\ load_cxt cxt_text = Ok (objs, props, bools))
  (* csv: "\"o\",p,q r\r\n\"a,b\",\"X\",\r\n\"c\"\"\",,\"\"" (no final CRLF, some fields quoted without need) *)
  /\ (let csv_text := [34; 111; 34; 44; 112; 44; 113; 32; 114; 13; 10;
                       34; 97; 44; 98; 34; 44; 34; 88; 34; 44; 13; 10;
                       34; 99; 34; 34; 34; 44; 44; 34; 34] in
      spec_write_csv_gen (fun i j => Nat.eqb i j) false false [111] [[97; 44; 98]; [99; 34]] props
                         [[true; false]; [false; false]] = csv_text
      /\ load_csv None csv_text = Ok ([[97; 44; 98]; [99; 34]], props, [[true; false]; [false; false]])).
Proof. vm_compute. repeat split; reflexivity. Qed.

(** ** [table_edges_ok] is needed: cells of width 0 at the ends of a row, a false last cell without final '|'

    Each behaviour below is also the library's (checked against it): [flags.strip('|')] removes the
    empty cells at both ends. *)
Definition tight_table_style (bar : bool) : table_style := {|
  ts_lpad := fun _ _ => 0%nat; ts_rpad := fun _ _ => 0%nat; ts_bar := fun _ => bar;
  ts_trail := fun _ => 0%nat; ts_comment := fun _ => None; ts_fill := fun _ => [] |}.

Example C12_boundary_table_zero_width_cells :
  let a := [[97]] in let pq := [[112]; [113]] in
  (* "|p|q|\na||X|": the false first cell is lost *)
  spec_write_table (tight_table_style true) a pq [[false; true]] = [124; 112; 124; 113; 124; 10; 97; 124; 124; 88; 124]
  /\ load_table (spec_write_table (tight_table_style true) a pq [[false; true]]) = Ok (a, pq, [[true]])
  (* "|p|q|\na|X||": the false last cell is lost *)
  /\ load_table (spec_write_table (tight_table_style true) a pq [[true; false]]) = Ok (a, pq, [[true]])
  (* "|p|q|\na|||": two false cells are read as one *)
  /\ load_table (spec_write_table (tight_table_style true) a pq [[false; false]]) = Ok (a, pq, [[false]])
  (* "|p|q\na|X|": without final '|' the false last cell is lost (whatever its width) *)
  /\ load_table (spec_write_table (tight_table_style false) a pq [[true; false]]) = Ok (a, pq, [[true]])
  (* a single property: nothing is lost, "|p|\na||" *)
  /\ load_table (spec_write_table (tight_table_style true) a [[112]] [[false]]) = Ok (a, [[112]], [[false]])
  (* the strict reader of the specification reads all of the texts with final '|' as intended *)
  /\ spec_read_table (spec_write_table (tight_table_style true) a pq [[false; true]]) = Some (a, pq, [[false; true]])
  /\ spec_read_table (spec_write_table (tight_table_style true) a pq [[false; false]]) = Some (a, pq, [[false; false]]).
Proof. vm_compute. repeat split; reflexivity. Qed.
