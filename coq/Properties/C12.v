(** C12 — Text formats round-trip every representable context.

    Model: Model/Formats.v restates, over code-point lists, [Table/Cxt/Csv/Fimi/WikiTable.dumps],
    [Table/Cxt/Csv.loads], [read_concepts_dat] and [FormatMeta.infer_format] path by path, including the
    str methods they use ([strip], [split], [partition], [%-Ns], iteration over [io.StringIO]), the
    universal-newline translation of [io.StringIO(newline=None)] on write, and the reader automaton and the
    QUOTE_MINIMAL / QUOTE_NONE writers of the csv module for the excel dialect and for [FimiDialect].
    Spec: Spec/FormatSpec.v holds the label classes and four readers written from the format descriptions.

    NOT modelled: the codecs (utf-8 / utf-16 / latin-1 / ascii) and real files (the model starts from the
    decoded text; [read_dat] models the newline='' line splitting of the file object); the C [csv] module
    itself — its excel dialect and FimiDialect are re-stated as an automaton (no escapechar, no
    skipinitialspace, no field size limit; [csv.Error] is represented by the [OutOfFuel] constructor);
    [repr] / [ast.literal_eval] for the python-literal format; non-ASCII decimal digits accepted by [int()].
    The theorems are about the model; its agreement with the library is checked by differential testing. *)
From Coq Require Import ZArith List Bool Sorted.
From Concepts Require Import Base.Res Model.Formats Spec.FormatSpec Proofs.Formats.
Import ListNotations.
Open Scope Z_scope.

(** ** Round trips *)

(** table: labels non-empty, without leading/trailing white space, line boundaries, '|' or '#';
    for every indent *)
Theorem C12_table_roundtrip : forall indent objs props bools,
  well_formed objs props bools ->
  Forall (fun s => table_ok s = true) objs -> Forall (fun s => table_ok s = true) props ->
  load_table (dump_table indent objs props bools) = Ok (objs, props, bools).
Proof. exact table_roundtrip. Qed.

(** cxt: labels non-empty, without leading/trailing white space or line boundaries *)
Theorem C12_cxt_roundtrip : forall objs props bools,
  well_formed objs props bools ->
  Forall (fun s => cxt_ok s = true) objs -> Forall (fun s => cxt_ok s = true) props ->
  load_cxt (dump_cxt objs props bools) = Ok (objs, props, bools).
Proof. exact cxt_roundtrip. Qed.

(** csv with the symbol set given: ANY labels (commas, quotes, line breaks, NUL, empty strings), any
    properties list; only one row per object is needed *)
Theorem C12_csv_roundtrip : forall as_int objs props bools,
  length bools = length objs ->
  load_csv (Some as_int) (dump_csv as_int objs props bools) = Ok (objs, props, bools).
Proof. exact csv_roundtrip. Qed.

(** csv with the symbol set sniffed from the first data row, for both symbol sets *)
Theorem C12_csv_roundtrip_auto : forall as_int objs props bools,
  well_formed objs props bools ->
  load_csv None (dump_csv as_int objs props bools) = Ok (objs, props, bools).
Proof. exact csv_roundtrip_auto. Qed.

(** the statement with the label class of the property (labels without NUL) is an instance *)
Corollary C12_csv_roundtrip_csv_ok : forall as_int objs props bools,
  well_formed objs props bools ->
  Forall (fun s => csv_ok s = true) objs -> Forall (fun s => csv_ok s = true) props ->
  load_csv (Some as_int) (dump_csv as_int objs props bools) = Ok (objs, props, bools)
  /\ load_csv None (dump_csv as_int objs props bools) = Ok (objs, props, bools).
Proof.
  intros as_int objs props bools Hwf _ _. split.
  - apply csv_roundtrip. destruct Hwf as [_ [_ [H _]]]. exact H.
  - apply csv_roundtrip_auto. exact Hwf.
Qed.

(** the excel reader reads back every list of non-empty records the excel writer writes
    (the quoting lemma is [excel_quoted_body]) *)
Theorem C12_csv_records : forall rows,
  Forall (fun r : list str => r <> []) rows ->
  csv_read excel false (flat_map csv_writerow rows) = (rows, None).
Proof. exact excel_read_rows. Qed.

(** ** Index-based exports *)

(** a .dat file is read back as the rows of numbers that were written *)
Theorem C12_dat_roundtrip : forall rows, read_dat (dump_dat rows) = Ok rows.
Proof. exact dat_roundtrip. Qed.

(** the FIMI export has one line per object listing exactly its true cells, ascending *)
Theorem C12_fimi_rows_spec : forall bools, read_dat (dump_fimi bools) = Ok (map true_indexes bools).
Proof. exact fimi_rows_spec. Qed.

Theorem C12_true_indexes_spec : forall row i, In i (true_indexes row) <-> nth_error row i = Some true.
Proof. exact true_indexes_spec. Qed.

Theorem C12_true_indexes_sorted : forall row, StronglySorted lt (true_indexes row).
Proof. exact true_indexes_sorted. Qed.

(** ** infer_format *)

Theorem C12_infer_format_spec : forall suffix name,
  format_of_suffix suffix = Ok name <-> In (map ascii_lower suffix, name) suffix_table.
Proof. exact infer_format_spec. Qed.

Theorem C12_infer_format_unknown : forall suffix,
  (forall name, ~ In (map ascii_lower suffix, name) suffix_table) <-> format_of_suffix suffix = Raise ValueError.
Proof. exact infer_format_unknown. Qed.

Theorem C12_infer_format_case_insensitive : forall s s',
  map ascii_lower s = map ascii_lower s' -> format_of_suffix s = format_of_suffix s'.
Proof. exact infer_format_case_insensitive. Qed.

(** ** A reader written from the format description recovers the triple from the dump *)

Theorem C12_spec_reads_dump_table : forall indent objs props bools,
  well_formed objs props bools ->
  Forall (fun s => table_ok s = true) objs -> Forall (fun s => table_ok s = true) props ->
  spec_read_table (dump_table indent objs props bools) = Some (objs, props, bools).
Proof. exact spec_reads_dump_table. Qed.

Theorem C12_spec_reads_dump_cxt : forall objs props bools,
  well_formed objs props bools ->
  Forall (fun s => cxt_ok s = true) objs -> Forall (fun s => cxt_ok s = true) props ->
  spec_read_cxt (dump_cxt objs props bools) = Some (objs, props, bools).
Proof. exact spec_reads_dump_cxt. Qed.

Theorem C12_spec_reads_dump_csv : forall as_int objs props bools,
  length bools = length objs -> Forall (fun r => length r = length props) bools ->
  spec_read_csv as_int (dump_csv as_int objs props bools) = Some (objs, props, bools).
Proof. exact spec_reads_dump_csv. Qed.

(** wiki-table labels: non-empty, no line boundary, no '!' and no '|' *)
Theorem C12_spec_reads_dump_wikitable : forall objs props bools,
  well_formed objs props bools ->
  Forall (fun s => wiki_ok s = true) objs -> Forall (fun s => wiki_ok s = true) props ->
  spec_read_wikitable (dump_wikitable objs props bools) = Some (objs, props, bools).
Proof. exact spec_reads_dump_wikitable. Qed.

(** ** Witness: a 2x2 context, the object label "ab" forces the padding of "c" and of the header *)
Example C12_witness :
  let objs := [[97; 98]; [99]] in                      (* "ab", "c" *)
  let props := [[112]; [113; 32; 114]] in              (* "p", "q r" *)
  let bools := [[true; false]; [false; true]] in
  dump_table 1 objs props bools
  = [32; 32; 32; 124; 112; 124; 113; 32; 114; 124; 10;       (* "   |p|q r|"  *)
     32; 97; 98; 124; 88; 124; 32; 32; 32; 124; 10;          (* " ab|X|   |"  *)
     32; 99; 32; 124; 32; 124; 88; 32; 32; 124]              (* " c | |X  |"  *)
  /\ load_table (dump_table 1 objs props bools) = Ok (objs, props, bools)
  /\ load_cxt (dump_cxt objs props bools) = Ok (objs, props, bools)
  /\ load_csv None (dump_csv true objs props bools) = Ok (objs, props, bools)
  /\ dump_csv false [[97; 44; 98]; [99; 34]] props bools     (* "a,b" and c-quote need quoting *)
     = [44; 112; 44; 113; 32; 114; 13; 10;
        34; 97; 44; 98; 34; 44; 88; 44; 13; 10;
        34; 99; 34; 34; 34; 44; 44; 88; 13; 10]
  /\ read_dat (dump_fimi bools) = Ok [[0%nat]; [1%nat]]
  /\ spec_read_wikitable (dump_wikitable objs props bools) = Some (objs, props, bools).
Proof. vm_compute. repeat split; reflexivity. Qed.

(** ** The hypotheses are needed (each behaviour below is also the library's, checked against it) *)

(** an empty property name: the header 'p||' loses its last column through strip('|') *)
Example C12_boundary_table_empty_property :
  load_table (dump_table 0 [[97]] [[112]; []] [[true; false]]) = Ok ([[97]], [[112]], [[true]]).
Proof. vm_compute. reflexivity. Qed.

(** '|' inside a property name splits the column *)
Example C12_boundary_table_bar_in_label :
  load_table (dump_table 0 [[97]] [[112]; [113; 124; 114]] [[true; false]])
  = Ok ([[97]], [[112]; [113]; [114]], [[true; false]]).
Proof. vm_compute. reflexivity. Qed.

(** no objects: the table loader fails on zip( * []), the sniffing csv loader on next(reader) *)
Example C12_boundary_no_objects :
  load_table (dump_table 0 [] [[112]] []) = Raise ValueError
  /\ load_csv None (dump_csv false [] [[112]] []) = Raise StopIteration
  /\ load_csv (Some false) (dump_csv false [] [[112]] []) = Ok ([], [[112]], []).
Proof. vm_compute. repeat split; reflexivity. Qed.

(** cxt: outer white space of a label is stripped, an empty object name shifts the sections *)
Example C12_boundary_cxt_labels :
  load_cxt (dump_cxt [[32; 97]] [[112]] [[true]]) = Ok ([[97]], [[112]], [[true]])
  /\ load_cxt (dump_cxt [[97]; []] [[112]] [[true]; [false]]) = Raise ValueError
  /\ load_cxt (dump_cxt [[97; 13; 98]] [[112]] [[true]]) = Raise KeyError.
Proof. vm_compute. repeat split; reflexivity. Qed.
