(** C06 — Canonical order.  STATUS: [_partial].  Proved: the (count, reinverted) key
    comparison used for the heap and for sorting neighbours is a strict total order, so the
    sorted results are unique.  The order of the enumeration itself is decided by the
    correspondence in this revision. *)
From Coq Require Import ZArith List Bool.
From Concepts Require Import Base.Res Base.PyInt Base.BitSet Spec.FCA Spec.Context
  Model.Matrices Model.ContextApi Model.Members Model.Lattice Model.LatticeApi
  Proofs.Matrices Proofs.ContextApi Proofs.Closure Proofs.LatticeBasics Proofs.LatticeFirst.
Import ListNotations.
Open Scope Z_scope.

Theorem C06_key_irrefl_partial : forall k, key_ltb k k = false.
Proof. exact key_ltb_irrefl. Qed.
Theorem C06_key_trans_partial : forall a b d, key_ltb a b = true -> key_ltb b d = true -> key_ltb a d = true.
Proof. exact key_ltb_trans. Qed.
Theorem C06_key_total_partial : forall a b, key_ltb a b = true \/ a = b \/ key_ltb b a = true.
Proof. exact key_ltb_total. Qed.
