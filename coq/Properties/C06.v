(** C06 — Canonical order.

    "iterating the lattice visits concepts in short-lexicographic order of their extents (fewer
    objects first, ties by object position), concept.index is its position and concept.dindex
    its position in long-lexicographic order (more objects first); infimum is the first and least
    concept, supremum the last and greatest, atoms the upper covers of the infimum.  Every
    upper_neighbors tuple is in shortlex order and every lower_neighbors tuple in longlex order."

    END-TO-END: [L] is the value returned by the model of [Context.lattice] ([build_lattice],
    satisfiable by [C03_terminates]); [concept_at L i x] says [x] is the i-th concept visited.
    The order is the one the code uses, the tuple key [shortlex n s = (count s, reinverted n s)]
    resp. [longlex n s = (- count s, reinverted n s)] compared as Python tuples ([key_lt]);
    [C06_shortlex_meaning] / [C06_longlex_meaning] say what these keys MEAN: fewer (resp. more)
    members first, and among equally many, the set owning the first position where they differ
    comes first ([lexlt]). *)
From Coq Require Import ZArith List Bool Sorted.
From Concepts Require Import Base.Res Base.PyInt Base.BitSet Spec.FCA Spec.Context Spec.LatticeSpec
  Model.Matrices Model.ContextApi Model.Members Model.Lattice Model.LatticeApi
  Proofs.Matrices Proofs.ContextApi Proofs.Closure Proofs.LatticeBasics Proofs.LatticeFirst
  Proofs.Keys Proofs.BuildLattice Proofs.LatticeQueries Proofs.LatticeLabels Proofs.Assemble.
Import ListNotations.
Open Scope Z_scope.

(** * the keys and their meaning *)

Theorem C06_shortlex_meaning : forall r a b, in_range r a -> in_range r b ->
  (key_ltb (shortlex r a) (shortlex r b) = true <->
   (count a < count b)%nat \/ (count a = count b /\ lexlt a b)).
Proof. exact shortlex_meaning. Qed.

Theorem C06_longlex_meaning : forall r a b, in_range r a -> in_range r b ->
  (key_ltb (longlex r a) (longlex r b) = true <->
   (count b < count a)%nat \/ (count a = count b /\ lexlt a b)).
Proof. exact longlex_meaning. Qed.

(** [count] is the number of members *)
Theorem C06_count_is_cardinal : forall n s, in_range n s -> count s = length (members n s).
Proof. exact count_members. Qed.

(** the key comparison is a strict total order, so "sorted" determines the sequence *)
Theorem C06_key_irrefl : forall k, key_ltb k k = false.
Proof. exact key_ltb_irrefl. Qed.
Theorem C06_key_trans : forall a b d, key_ltb a b = true -> key_ltb b d = true -> key_ltb a d = true.
Proof. exact key_ltb_trans. Qed.
Theorem C06_key_total : forall a b, key_ltb a b = true \/ a = b \/ key_ltb b a = true.
Proof. exact key_ltb_total. Qed.
Theorem C06_shortlex_injective : forall r a b, in_range r a -> in_range r b -> shortlex r a = shortlex r b -> a = b.
Proof. exact shortlex_inj. Qed.
Theorem C06_longlex_injective : forall r a b, in_range r a -> in_range r b -> longlex r a = longlex r b -> a = b.
Proof. exact longlex_inj. Qed.

(** * iteration order *)

Theorem C06_iteration_sorted : forall fuel dfuel c L,
  wf_ctx c -> (Nat.max (nG c) (nM c) <= dfuel)%nat -> build_lattice fuel dfuel (relation_new c) = Ok L ->
  StronglySorted (fun a b => key_lt (shortlex (nG c) a) (shortlex (nG c) b)) (map c_extent (l_concepts L)).
Proof.
  intros fuel dfuel c L Hwf Hd HB.
  exact (iteration_sorted c L (build_lattice_ok fuel dfuel c L Hwf Hd HB)).
Qed.

(** position order = shortlex key order of the extents *)
Theorem C06_position_order : forall fuel dfuel c L i x j y,
  wf_ctx c -> (Nat.max (nG c) (nM c) <= dfuel)%nat -> build_lattice fuel dfuel (relation_new c) = Ok L ->
  concept_at L i x -> concept_at L j y ->
  ((i < j)%nat <-> key_lt (shortlex (nG c) (c_extent x)) (shortlex (nG c) (c_extent y))).
Proof.
  intros fuel dfuel c L i x j y Hwf Hd HB.
  exact (position_lt_iff c L (build_lattice_ok fuel dfuel c L Hwf Hd HB) i x j y).
Qed.

(** ... i.e. fewer objects first, ties by object position *)
Theorem C06_iteration_order_meaning : forall fuel dfuel c L i x j y,
  wf_ctx c -> (Nat.max (nG c) (nM c) <= dfuel)%nat -> build_lattice fuel dfuel (relation_new c) = Ok L ->
  concept_at L i x -> concept_at L j y ->
  ((i < j)%nat <->
   (count (c_extent x) < count (c_extent y))%nat \/
   (count (c_extent x) = count (c_extent y) /\ lexlt (c_extent x) (c_extent y))).
Proof.
  intros fuel dfuel c L i x j y Hwf Hd HB.
  exact (position_order_meaning c L (build_lattice_ok fuel dfuel c L Hwf Hd HB) i x j y).
Qed.

(** the order of iteration is a linear extension of the concept order *)
Theorem C06_order_extends_inclusion : forall fuel dfuel c L i x j y,
  wf_ctx c -> (Nat.max (nG c) (nM c) <= dfuel)%nat -> build_lattice fuel dfuel (relation_new c) = Ok L ->
  concept_at L i x -> concept_at L j y -> psubset (c_extent x) (c_extent y) -> (i < j)%nat.
Proof.
  intros fuel dfuel c L i x j y Hwf Hd HB.
  exact (order_extends_inclusion c L (build_lattice_ok fuel dfuel c L Hwf Hd HB) i x j y).
Qed.

(** * concept.index, concept.dindex *)

Theorem C06_index_is_position : forall fuel dfuel c L i x,
  wf_ctx c -> (Nat.max (nG c) (nM c) <= dfuel)%nat -> build_lattice fuel dfuel (relation_new c) = Ok L ->
  concept_at L i x -> c_index x = i.
Proof.
  intros fuel dfuel c L i x Hwf Hd HB.
  exact (index_is_position c L (build_lattice_ok fuel dfuel c L Hwf Hd HB) i x).
Qed.

(** dindex is a position (below the length, no two members share one) and dindex order =
    longlex key order of the extents: dindex is the rank in longlex order *)
Theorem C06_dindex_range : forall fuel dfuel c L i x,
  wf_ctx c -> (Nat.max (nG c) (nM c) <= dfuel)%nat -> build_lattice fuel dfuel (relation_new c) = Ok L ->
  concept_at L i x -> (c_dindex x < length (l_concepts L))%nat.
Proof.
  intros fuel dfuel c L i x Hwf Hd HB.
  exact (ok_dindex_range c L (build_lattice_ok fuel dfuel c L Hwf Hd HB) i x).
Qed.

Theorem C06_dindex_injective : forall fuel dfuel c L i x j y,
  wf_ctx c -> (Nat.max (nG c) (nM c) <= dfuel)%nat -> build_lattice fuel dfuel (relation_new c) = Ok L ->
  concept_at L i x -> concept_at L j y -> c_dindex x = c_dindex y -> i = j.
Proof.
  intros fuel dfuel c L i x j y Hwf Hd HB.
  exact (dindex_injective c L (build_lattice_ok fuel dfuel c L Hwf Hd HB) i x j y).
Qed.

Theorem C06_dindex_order : forall fuel dfuel c L i x j y,
  wf_ctx c -> (Nat.max (nG c) (nM c) <= dfuel)%nat -> build_lattice fuel dfuel (relation_new c) = Ok L ->
  concept_at L i x -> concept_at L j y ->
  ((c_dindex x < c_dindex y)%nat <-> key_lt (longlex (nG c) (c_extent x)) (longlex (nG c) (c_extent y))).
Proof.
  intros fuel dfuel c L i x j y Hwf Hd HB.
  exact (ok_dindex c L (build_lattice_ok fuel dfuel c L Hwf Hd HB) i x j y).
Qed.

(** ... i.e. more objects first, ties by object position *)
Theorem C06_dindex_order_meaning : forall fuel dfuel c L i x j y,
  wf_ctx c -> (Nat.max (nG c) (nM c) <= dfuel)%nat -> build_lattice fuel dfuel (relation_new c) = Ok L ->
  concept_at L i x -> concept_at L j y ->
  ((c_dindex x < c_dindex y)%nat <->
   (count (c_extent y) < count (c_extent x))%nat \/
   (count (c_extent x) = count (c_extent y) /\ lexlt (c_extent x) (c_extent y))).
Proof.
  intros fuel dfuel c L i x j y Hwf Hd HB.
  exact (dindex_order_meaning c L (build_lattice_ok fuel dfuel c L Hwf Hd HB) i x j y).
Qed.

(** * infimum: first and least; supremum: last and greatest *)

Theorem C06_infimum_first : forall fuel dfuel c L,
  wf_ctx c -> (Nat.max (nG c) (nM c) <= dfuel)%nat -> build_lattice fuel dfuel (relation_new c) = Ok L ->
  exists x, concept_at L 0 x /\ c_extent x = clO c 0 /\ c_intent x = upO c 0.
Proof.
  intros fuel dfuel c L Hwf Hd HB.
  exact (LatticeQueries.infimum_first c L dfuel (build_lattice_ok fuel dfuel c L Hwf Hd HB) Hd).
Qed.

Theorem C06_infimum_least : forall fuel dfuel c L x0 i x,
  wf_ctx c -> (Nat.max (nG c) (nM c) <= dfuel)%nat -> build_lattice fuel dfuel (relation_new c) = Ok L ->
  concept_at L 0 x0 -> concept_at L i x -> subset (c_extent x0) (c_extent x).
Proof.
  intros fuel dfuel c L x0 i x Hwf Hd HB.
  exact (infimum_least c L dfuel (build_lattice_ok fuel dfuel c L Hwf Hd HB) Hd x0 i x).
Qed.

Theorem C06_supremum_last : forall fuel dfuel c L,
  wf_ctx c -> (Nat.max (nG c) (nM c) <= dfuel)%nat -> build_lattice fuel dfuel (relation_new c) = Ok L ->
  exists x, concept_at L (length (l_concepts L) - 1) x
    /\ c_extent x = ones (nG c) /\ c_intent x = upO c (ones (nG c)).
Proof.
  intros fuel dfuel c L Hwf Hd HB.
  exact (supremum_last c L dfuel (build_lattice_ok fuel dfuel c L Hwf Hd HB) Hd).
Qed.

Theorem C06_supremum_greatest : forall fuel dfuel c L x1 i x,
  wf_ctx c -> (Nat.max (nG c) (nM c) <= dfuel)%nat -> build_lattice fuel dfuel (relation_new c) = Ok L ->
  concept_at L (length (l_concepts L) - 1) x1 -> concept_at L i x -> subset (c_extent x) (c_extent x1).
Proof.
  intros fuel dfuel c L x1 i x Hwf Hd HB.
  exact (supremum_greatest c L dfuel (build_lattice_ok fuel dfuel c L Hwf Hd HB) Hd x1 i x).
Qed.

(** * atoms: lattice.atoms is the upper_neighbors tuple of the infimum, i.e. exactly the
      concepts covering the infimum *)

Theorem C06_atoms_are_covers_of_infimum : forall fuel dfuel c L x0 a,
  wf_ctx c -> (Nat.max (nG c) (nM c) <= dfuel)%nat -> build_lattice fuel dfuel (relation_new c) = Ok L ->
  concept_at L 0 x0 ->
  (In a (c_upper x0) <-> exists y, concept_at L a y /\ covers c (clO c 0) (c_extent y)).
Proof.
  intros fuel dfuel c L x0 a Hwf Hd HB.
  exact (atoms_are_covers_of_infimum c L (build_lattice_ok fuel dfuel c L Hwf Hd HB) x0 a).
Qed.

(** * neighbour tuples are sorted: upper by the shortlex key, lower by the longlex key of the
      neighbours' extents ([nth_extent (l_exts L) a] is the extent of the member at position a) *)

Theorem C06_upper_neighbors_sorted : forall fuel dfuel c L i x,
  wf_ctx c -> (Nat.max (nG c) (nM c) <= dfuel)%nat -> build_lattice fuel dfuel (relation_new c) = Ok L ->
  concept_at L i x ->
  StronglySorted (fun a b => key_lt (shortlex (nG c) (nth_extent (l_exts L) a))
                                    (shortlex (nG c) (nth_extent (l_exts L) b))) (c_upper x).
Proof.
  intros fuel dfuel c L i x Hwf Hd HB.
  exact (ok_upper_sorted c L (build_lattice_ok fuel dfuel c L Hwf Hd HB) i x).
Qed.

Theorem C06_lower_neighbors_sorted : forall fuel dfuel c L i x,
  wf_ctx c -> (Nat.max (nG c) (nM c) <= dfuel)%nat -> build_lattice fuel dfuel (relation_new c) = Ok L ->
  concept_at L i x ->
  StronglySorted (fun a b => key_lt (longlex (nG c) (nth_extent (l_exts L) a))
                                    (longlex (nG c) (nth_extent (l_exts L) b))) (c_lower x).
Proof.
  intros fuel dfuel c L i x Hwf Hd HB.
  exact (ok_lower_sorted c L (build_lattice_ok fuel dfuel c L Hwf Hd HB) i x).
Qed.

Theorem C06_member_extent : forall fuel dfuel c L i x,
  wf_ctx c -> (Nat.max (nG c) (nM c) <= dfuel)%nat -> build_lattice fuel dfuel (relation_new c) = Ok L ->
  concept_at L i x -> nth_extent (l_exts L) i = c_extent x.
Proof.
  intros fuel dfuel c L i x Hwf Hd HB.
  exact (concept_at_nth_extent c L (build_lattice_ok fuel dfuel c L Hwf Hd HB) i x).
Qed.

(** equivalently: upper neighbours by increasing index, lower neighbours by increasing dindex *)
Theorem C06_upper_neighbors_by_index : forall fuel dfuel c L i x,
  wf_ctx c -> (Nat.max (nG c) (nM c) <= dfuel)%nat -> build_lattice fuel dfuel (relation_new c) = Ok L ->
  concept_at L i x -> StronglySorted lt (c_upper x).
Proof.
  intros fuel dfuel c L i x Hwf Hd HB.
  exact (upper_sorted_by_index c L (build_lattice_ok fuel dfuel c L Hwf Hd HB) i x).
Qed.

Theorem C06_lower_neighbors_by_dindex : forall fuel dfuel c L i x,
  wf_ctx c -> (Nat.max (nG c) (nM c) <= dfuel)%nat -> build_lattice fuel dfuel (relation_new c) = Ok L ->
  concept_at L i x ->
  StronglySorted (fun a b => (c_dindex (get_concept L a) < c_dindex (get_concept L b))%nat) (c_lower x).
Proof.
  intros fuel dfuel c L i x Hwf Hd HB.
  exact (lower_sorted_by_dindex c L (build_lattice_ok fuel dfuel c L Hwf Hd HB) i x).
Qed.

(** * witness: rows {0,1}, {1,2}, {2,3}, {0,1,2}.  Extents in iteration order with
      (index, dindex); note members 3 and 4 ({0,3} before {1,3}) and the lower neighbours [4; 1]
      of member 6 (the larger extent {1,3} before {2}). *)
Example C06_witness :
  let c := mkCtx 4 4 [3; 6; 12; 7] in
  wf_ctx c /\ (Nat.max (nG c) (nM c) <= 4)%nat /\
  exists L, build_lattice 20 4 (relation_new c) = Ok L /\
    (map c_extent (l_concepts L),
     map (fun x => (c_index x, c_dindex x, c_upper x, c_lower x)) (l_concepts L))
    = ([0; 4; 8; 9; 10; 11; 14; 15],
       [(0, 7, [1; 2], []); (1, 5, [6], [0]); (2, 6, [3; 4], [0]); (3, 3, [5], [2]);
        (4, 4, [5; 6], [2]); (5, 1, [7], [3; 4]); (6, 2, [7], [4; 1]); (7, 0, [], [5; 6])]%nat).
Proof.
  cbv zeta. split; [apply wf_ctxb_sound; vm_compute; reflexivity|]. split; [apply le_by_leb; vm_compute; reflexivity|].
  apply witness_intro. vm_compute. reflexivity.
Qed.
