(** C19 — Ill-formed input raises ValueError; accepted input is represented faithfully.

    What is modelled (Model/Validation.v): the validation done by Context.__init__ ([context_init]) and by
    Context.fromdict ([fromdict], with _make_set + the bools comprehension as [make_row]).
    - Object and property names are tokens ([nat]); serialized values are [pyval] (str / int / bool / None).
    - Python's numeric equality is mirrored: True == 1 and False == 0 ([as_index], [val_eqb]); floats are not
      generated.  Cells are taken by truthiness ([truthy_val]); a row is the little-endian integer of its cells
      ([row_int]: bit j = truthiness of cell j).
    - The stored lattice is abstracted to its number of entries (missing key / None / list of n entries), because
      its content is property C11's business.
    Predicates used below (Proofs/Validation.v):
      [names_ok objs props]  = both lists non-empty, duplicate free, mutually disjoint;
      [row_ok n r]           = no two entries of r equal as Python values, every entry an int/bool index 0 <= z < n;
      [cells n r]            = the n rebuilt cells, cell i = VBool (index i occurs in r)  ([occursb]);
      [lattice_loaded d]     = the lattice key is present and not None. *)
From Coq Require Import ZArith List Bool.
From Concepts Require Import Base.Res Base.PyInt Base.BitSet Spec.Context Model.Definition Model.Validation
  Proofs.Validation.
Import ListNotations.
Open Scope Z_scope.

(** ** Context(objects, properties, bools) *)

(** succeeds iff both name lists are non-empty, duplicate free, disjoint, one row per object, one cell per
    property; and then the result is exactly the given names and the rows by truthiness *)
Theorem C19_context_init_iff : forall objs props bools r,
  context_init objs props bools = Ok r <->
  (objs <> [] /\ props <> [] /\ NoDup objs /\ NoDup props /\ (forall x, In x objs -> ~ In x props) /\
   length bools = length objs /\ Forall (fun b => length b = length props) bools)
  /\ r = (objs, props, mkCtx (length objs) (length props) (map row_int bools)).
Proof. exact context_init_iff. Qed.

Theorem C19_context_init_accepts_iff : forall objs props bools,
  (exists r, context_init objs props bools = Ok r) <->
  objs <> [] /\ props <> [] /\ NoDup objs /\ NoDup props /\ (forall x, In x objs -> ~ In x props) /\
  length bools = length objs /\ Forall (fun b => length b = length props) bools.
Proof. exact context_init_accepts_iff. Qed.

(** otherwise ValueError (and no context exists) *)
Theorem C19_context_init_raises : forall objs props bools,
  ~ (objs <> [] /\ props <> [] /\ NoDup objs /\ NoDup props /\ (forall x, In x objs -> ~ In x props) /\
     length bools = length objs /\ Forall (fun b => length b = length props) bools) ->
  context_init objs props bools = Raise ValueError.
Proof. exact context_init_raises. Qed.

(** the accepted context reproduces names and cells (by truthiness) exactly *)
Theorem C19_context_init_faithful : forall objs props bools o p c,
  context_init objs props bools = Ok (o, p, c) ->
  o = objs /\ p = props /\ nG c = length objs /\ nM c = length props /\ wf_ctx c /\
  forall g m row v, nth_error bools g = Some row -> nth_error row m = Some v -> inc c g m = truthy_val v.
Proof. exact context_init_faithful. Qed.

Theorem C19_row_int_little_endian : forall row m,
  mem (row_int row) m = match nth_error row m with Some v => truthy_val v | None => false end.
Proof. exact mem_row_int. Qed.

(** ** _make_set and the rebuilt row *)

Theorem C19_make_row_iff : forall n r cs,
  make_row n r = Ok cs <->
  ((forall i j a b, i <> j -> nth_error r i = Some a -> nth_error r j = Some b -> val_eqb a b = false) /\
   Forall (fun v => exists z, as_index v = Some z /\ 0 <= z < Z.of_nat n) r)
  /\ cs = cells n r.
Proof. exact make_row_iff. Qed.

Theorem C19_make_row_raises : forall n r,
  ~ ((forall i j a b, i <> j -> nth_error r i = Some a -> nth_error r j = Some b -> val_eqb a b = false) /\
     Forall (fun v => exists z, as_index v = Some z /\ 0 <= z < Z.of_nat n) r) ->
  make_row n r = Raise ValueError.
Proof. exact make_row_raises. Qed.

Theorem C19_make_row_cells : forall n r cs,
  make_row n r = Ok cs ->
  length cs = n /\
  forall i, (i < n)%nat -> exists b, nth_error cs i = Some (VBool b) /\
                                     (b = true <-> exists v, In v r /\ as_index v = Some (Z.of_nat i)).
Proof. exact make_row_cells. Qed.

(** ** Context.fromdict *)

(** acceptance: the three keys present, all names strings, one row per object, lattice key present when
    required, stored lattice not an empty list, every row passes _make_set, names accepted by Context(...);
    the result is then determined, with lattice loaded iff not ignored and present and not None *)
Theorem C19_fromdict_iff : forall d ig rq res,
  fromdict d ig rq = Ok res <->
  exists objs props context,
    (k_objects d = Some (map VStr objs) /\ k_properties d = Some (map VStr props) /\ k_context d = Some context /\
     length context = length objs /\
     (rq = true -> k_lattice d <> None) /\
     k_lattice d <> Some (Some 0%nat) /\
     Forall (row_ok (length props)) context /\
     names_ok objs props)
    /\ res = (objs, props,
              mkCtx (length objs) (length props) (map row_int (map (cells (length props)) context)),
              negb ig && lattice_loaded d).
Proof. exact fromdict_iff. Qed.

(** the same condition phrased as the pipeline of the code: every row passes make_row and context_init accepts
    the names with the rebuilt rows *)
Theorem C19_dict_ok_as_pipeline : forall d rq objs props context,
  dict_ok d rq objs props context <->
  k_objects d = Some (map VStr objs) /\ k_properties d = Some (map VStr props) /\ k_context d = Some context /\
  length context = length objs /\
  (rq = true -> k_lattice d <> None) /\
  k_lattice d <> Some (Some 0%nat) /\
  exists rows, Forall2 (fun r cs => make_row (length props) r = Ok cs) context rows /\
               exists r, context_init objs props rows = Ok r.
Proof. exact dict_ok_as_pipeline. Qed.

Theorem C19_fromdict_raises : forall d ig rq,
  ~ (exists objs props context, dict_ok d rq objs props context) -> fromdict d ig rq = Raise ValueError.
Proof. exact fromdict_raises. Qed.

Theorem C19_fromdict_faithful : forall d ig rq o p c l,
  fromdict d ig rq = Ok (o, p, c, l) ->
  exists context,
    k_objects d = Some (map VStr o) /\ k_properties d = Some (map VStr p) /\ k_context d = Some context /\
    length context = length o /\
    nG c = length o /\ nM c = length p /\ wf_ctx c /\
    l = negb ig && lattice_loaded d /\
    forall g m r, nth_error context g = Some r -> (m < length p)%nat ->
      (inc c g m = true <-> exists v, In v r /\ as_index v = Some (Z.of_nat m)).
Proof. exact fromdict_faithful. Qed.

(** the individual rejection rules *)
Theorem C19_fromdict_missing_key : forall d ig rq,
  k_objects d = None \/ k_properties d = None \/ k_context d = None -> fromdict d ig rq = Raise ValueError.
Proof. exact fromdict_missing_key. Qed.

Theorem C19_fromdict_non_string_name : forall d ig rq l,
  k_objects d = Some l \/ k_properties d = Some l -> ~ Forall (fun v => exists s, v = VStr s) l ->
  fromdict d ig rq = Raise ValueError.
Proof. exact fromdict_non_string_name. Qed.

Theorem C19_fromdict_row_count : forall d ig rq objects context,
  k_objects d = Some objects -> k_context d = Some context -> length context <> length objects ->
  fromdict d ig rq = Raise ValueError.
Proof. exact fromdict_row_count. Qed.

(** out-of-range, non-index or repeated column indexes *)
Theorem C19_fromdict_bad_row : forall d ig rq properties context r,
  k_properties d = Some properties -> k_context d = Some context -> In r context ->
  ~ row_ok (length properties) r -> fromdict d ig rq = Raise ValueError.
Proof. exact fromdict_bad_row. Qed.

Theorem C19_fromdict_empty_lattice : forall d ig rq,
  k_lattice d = Some (Some 0%nat) -> fromdict d ig rq = Raise ValueError.
Proof. exact fromdict_empty_lattice. Qed.

Theorem C19_fromdict_lattice_required : forall d ig,
  k_lattice d = None -> fromdict d ig true = Raise ValueError.
Proof. exact fromdict_lattice_required. Qed.

Theorem C19_fromdict_bad_names : forall d ig rq objs props,
  k_objects d = Some (map VStr objs) -> k_properties d = Some (map VStr props) -> ~ names_ok objs props ->
  fromdict d ig rq = Raise ValueError.
Proof. exact fromdict_bad_names. Qed.

(** ** never another exception *)
Theorem C19_fromdict_never_other_exception : forall d ig rq e, fromdict d ig rq = Raise e -> e = ValueError.
Proof. exact fromdict_never_other_exception. Qed.

Theorem C19_context_init_never_other_exception : forall objs props bools e,
  context_init objs props bools = Raise e -> e = ValueError.
Proof. exact context_init_never_other_exception. Qed.

(** ** witnesses: an accepted triple, a rejected one (duplicate object), an accepted dict (True == 1 is column 1),
    a rejected dict (1 and True repeat the same column) *)
Example C19_witness :
  context_init [0; 1]%nat [2; 3]%nat [[VBool true; VInt 0]; [VNone; VStr 7]]
    = Ok ([0; 1]%nat, [2; 3]%nat, mkCtx 2 2 [1; 2])
  /\ context_init [0; 0]%nat [2; 3]%nat [[VBool true; VInt 0]; [VNone; VStr 7]] = Raise ValueError
  /\ fromdict (mkDict (Some [VStr 0; VStr 1]) (Some [VStr 2; VStr 3]) (Some [[VInt 0; VBool true]; []]) (Some None))
       false false
     = Ok ([0; 1]%nat, [2; 3]%nat, mkCtx 2 2 [3; 0], false)
  /\ fromdict (mkDict (Some [VStr 0; VStr 1]) (Some [VStr 2; VStr 3]) (Some [[VInt 1; VBool true]; []]) (Some None))
       false false
     = Raise ValueError.
Proof. vm_compute. repeat split; reflexivity. Qed.
