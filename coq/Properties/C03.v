(** C03 — The lattice contains exactly the formal concepts of the context, once each.

    "iterating context.lattice yields every pair (A, B) with A' = B and B' = A, and nothing else,
    with no pair repeated; len(lattice) is that number.  The bottom (closure of the empty object
    set) and the top (all objects) are always present, and an all-crosses table has a
    one-element lattice."

    END-TO-END: the theorems are about the value [L] returned by the model of [Context.lattice]
    ([build_lattice] = lindig.lattice's heap loop + Lattice.__init__), under [wf_ctx c] and
    enough fuel for the derivation loops only.  [C03_terminates] shows that the hypothesis
    [build_lattice fuel dfuel (relation_new c) = Ok L] is satisfiable for every well-formed
    context (with enough loop fuel), so none of the statements is vacuous.
    [concept_at L i x]: [x] is the i-th pair yielded by iterating the lattice. *)
From Coq Require Import ZArith List Bool Lia.
From Concepts Require Import Base.Res Base.PyInt Base.BitSet Spec.FCA Spec.Context Spec.LatticeSpec
  Model.Matrices Model.ContextApi Model.Lattice Proofs.Matrices Proofs.ContextApi Proofs.Closure
  Proofs.LatticeBasics Proofs.BuildLattice Proofs.LatticeQueries Proofs.LatticeLabels Proofs.Assemble.
Import ListNotations.
Open Scope Z_scope.

(** * termination: [Context.lattice] returns a lattice for every context *)

Theorem C03_terminates : forall dfuel c, wf_ctx c -> (Nat.max (nG c) (nM c) <= dfuel)%nat ->
  exists fuel0, forall fuel, (fuel0 <= fuel)%nat -> exists L, build_lattice fuel dfuel (relation_new c) = Ok L.
Proof. exact build_lattice_terminates. Qed.

(** * every concept, and nothing else *)

Theorem C03_exactly_the_concepts : forall fuel dfuel c L,
  wf_ctx c -> (Nat.max (nG c) (nM c) <= dfuel)%nat -> build_lattice fuel dfuel (relation_new c) = Ok L ->
  forall A B, (exists i x, concept_at L i x /\ c_extent x = A /\ c_intent x = B) <-> is_concept c A B.
Proof.
  intros fuel dfuel c L Hwf Hd HB.
  exact (members_exactly_concepts c L (build_lattice_ok fuel dfuel c L Hwf Hd HB)).
Qed.

(** * no pair repeated (already the extents are pairwise distinct) *)

Theorem C03_no_repeats : forall fuel dfuel c L,
  wf_ctx c -> (Nat.max (nG c) (nM c) <= dfuel)%nat -> build_lattice fuel dfuel (relation_new c) = Ok L ->
  NoDup (map c_extent (l_concepts L)).
Proof.
  intros fuel dfuel c L Hwf Hd HB.
  exact (members_extents_NoDup c L (build_lattice_ok fuel dfuel c L Hwf Hd HB)).
Qed.

Theorem C03_no_repeated_member : forall fuel dfuel c L,
  wf_ctx c -> (Nat.max (nG c) (nM c) <= dfuel)%nat -> build_lattice fuel dfuel (relation_new c) = Ok L ->
  NoDup (l_concepts L).
Proof.
  intros fuel dfuel c L Hwf Hd HB.
  exact (concepts_NoDup c L (build_lattice_ok fuel dfuel c L Hwf Hd HB)).
Qed.

(** * len(lattice): the number of members = the number of entries of the extent mapping, and
      that mapping lists the closed extents (= the concepts, [C03_closed_extents_are_concepts])
      once each *)

Theorem C03_len : forall fuel dfuel c L,
  wf_ctx c -> (Nat.max (nG c) (nM c) <= dfuel)%nat -> build_lattice fuel dfuel (relation_new c) = Ok L ->
  length (l_concepts L) = length (l_exts L) /\ l_exts L = map c_extent (l_concepts L) /\
  NoDup (l_exts L) /\ (forall A, In A (l_exts L) <-> closedO c A).
Proof.
  intros fuel dfuel c L Hwf Hd HB.
  exact (members_count c L (build_lattice_ok fuel dfuel c L Hwf Hd HB)).
Qed.

Theorem C03_closed_extents_are_concepts : forall c A, closedO c A <-> is_concept c A (upO c A).
Proof. intros c A. split; [apply closed_concept|apply Concepts.Spec.Context.concept_closed]. Qed.

(** * bottom and top are present: first and last *)

Theorem C03_bottom_present : forall fuel dfuel c L,
  wf_ctx c -> (Nat.max (nG c) (nM c) <= dfuel)%nat -> build_lattice fuel dfuel (relation_new c) = Ok L ->
  exists x, concept_at L 0 x /\ c_extent x = clO c 0 /\ c_intent x = upO c 0.
Proof.
  intros fuel dfuel c L Hwf Hd HB.
  exact (LatticeQueries.infimum_first c L dfuel (build_lattice_ok fuel dfuel c L Hwf Hd HB) Hd).
Qed.

Theorem C03_top_present : forall fuel dfuel c L,
  wf_ctx c -> (Nat.max (nG c) (nM c) <= dfuel)%nat -> build_lattice fuel dfuel (relation_new c) = Ok L ->
  exists x, concept_at L (length (l_concepts L) - 1) x
    /\ c_extent x = ones (nG c) /\ c_intent x = upO c (ones (nG c)).
Proof.
  intros fuel dfuel c L Hwf Hd HB.
  exact (supremum_last c L dfuel (build_lattice_ok fuel dfuel c L Hwf Hd HB) Hd).
Qed.

Theorem C03_nonempty : forall fuel dfuel c L,
  wf_ctx c -> (Nat.max (nG c) (nM c) <= dfuel)%nat -> build_lattice fuel dfuel (relation_new c) = Ok L ->
  (0 < length (l_concepts L))%nat.
Proof.
  intros fuel dfuel c L Hwf Hd HB.
  exact (size_pos c L dfuel (build_lattice_ok fuel dfuel c L Hwf Hd HB) Hd).
Qed.

(** * an all-crosses table has a one-element lattice *)

Theorem C03_all_crosses_one_element : forall fuel dfuel c L,
  wf_ctx c -> (Nat.max (nG c) (nM c) <= dfuel)%nat -> build_lattice fuel dfuel (relation_new c) = Ok L ->
  (forall g m, (g < nG c)%nat -> (m < nM c)%nat -> inc c g m = true) ->
  length (l_concepts L) = 1%nat.
Proof.
  intros fuel dfuel c L Hwf Hd HB.
  exact (all_crosses_single c L (build_lattice_ok fuel dfuel c L Hwf Hd HB) dfuel Hd).
Qed.

(** * spec-level facts used above *)

Theorem C03_candidates_are_concepts : forall fuel c A,
  wf_ctx c -> in_range (nG c) A -> (Nat.max (nG c) (nM c) <= fuel)%nat ->
  exists E F, objects_doubleprime fuel (relation_new c) A = Ok (E, F) /\ is_concept c E F.
Proof.
  intros fuel c A Hwf HA Hf. exists (clO c A), (upO c A).
  split; [apply objects_doubleprime_spec; assumption|apply concept_of_objects; exact HA].
Qed.

Theorem C03_bottom_is_least : forall c E, closedO c E -> subset (clO c 0) E.
Proof. exact bottom_least. Qed.
Theorem C03_bottom_is_concept : forall c, closedO c (clO c 0).
Proof. exact bottom_closed. Qed.
Theorem C03_top_is_concept : forall c, closedO c (ones (nG c)).
Proof. exact closed_ones. Qed.
Theorem C03_top_is_greatest : forall c E, closedO c E -> subset E (ones (nG c)).
Proof. exact top_greatest. Qed.
Theorem C03_all_crosses : forall c,
  (forall g m, (g < nG c)%nat -> (m < nM c)%nat -> inc c g m = true) ->
  forall E, closedO c E -> E = ones (nG c).
Proof. exact all_crosses_one_concept. Qed.

(** * witnesses *)

Example C03_witness :
  let c := mkCtx 3 3 [5; 3; 6] in
  (do L <- build_lattice 10 4 (relation_new c) ;; Ok (map c_extent (l_concepts L))) = Ok [0; 1; 2; 4; 3; 5; 6; 7].
Proof. vm_compute. reflexivity. Qed.

(** rows {0,1}, {1,2}, {2,3}, {0,1,2}: eight (extent, intent) pairs, not a Boolean lattice *)
Example C03_witness_lattice :
  let c := mkCtx 4 4 [3; 6; 12; 7] in
  wf_ctx c /\ (Nat.max (nG c) (nM c) <= 4)%nat /\
  exists L, build_lattice 20 4 (relation_new c) = Ok L /\
    map (fun x => (c_extent x, c_intent x)) (l_concepts L)
    = [(0, 15); (4, 12); (8, 7); (9, 3); (10, 6); (11, 2); (14, 4); (15, 0)].
Proof.
  cbv zeta. split; [apply wf_ctxb_sound; vm_compute; reflexivity|]. split; [apply le_by_leb; vm_compute; reflexivity|].
  apply witness_intro. vm_compute. reflexivity.
Qed.

(** an all-crosses table *)
Example C03_witness_all_crosses :
  let c := mkCtx 2 3 [7; 7] in
  wf_ctx c /\ (forall g m, (g < nG c)%nat -> (m < nM c)%nat -> inc c g m = true) /\
  exists L, build_lattice 5 3 (relation_new c) = Ok L /\
    map (fun x => (c_extent x, c_intent x)) (l_concepts L) = [(3, 7)].
Proof.
  cbv zeta. split; [apply wf_ctxb_sound; vm_compute; reflexivity|]. split.
  - intros [|[|g]] [|[|[|m]]] Hg Hm; cbn in Hg, Hm; try lia; reflexivity.
  - apply witness_intro. vm_compute. reflexivity.
Qed.
