(** C03 — The lattice contains exactly the formal concepts of the context, once each.
    STATUS: [_partial].  Proved: every candidate the enumeration generates (the closure
    pair returned by doubleprime) is a formal concept; the start of the enumeration is the
    least concept; the top is a concept and the greatest; an all-crosses table has exactly
    one closed extent.  Not yet proved in this revision: completeness and uniqueness of the
    Lindig heap loop as a theorem about [build_lattice]; that part is decided by the
    correspondence (model evaluated in Coq against the implementation's lattice). *)
From Coq Require Import ZArith List Bool.
From Concepts Require Import Base.Res Base.PyInt Base.BitSet Spec.FCA Spec.Context
  Model.Matrices Model.ContextApi Model.Lattice Proofs.Matrices Proofs.ContextApi Proofs.Closure
  Proofs.LatticeBasics.
Import ListNotations.
Open Scope Z_scope.

Theorem C03_candidates_are_concepts_partial : forall fuel c A,
  wf_ctx c -> in_range (nG c) A -> (Nat.max (nG c) (nM c) <= fuel)%nat ->
  exists E F, objects_doubleprime fuel (relation_new c) A = Ok (E, F) /\ is_concept c E F.
Proof.
  intros fuel c A Hwf HA Hf. exists (clO c A), (upO c A).
  split; [apply objects_doubleprime_spec; assumption|apply concept_of_objects; exact HA].
Qed.

Theorem C03_bottom_is_least : forall c E, closedO c E -> subset (clO c 0) E.
Proof. exact bottom_least. Qed.
Theorem C03_bottom_is_concept : forall c, closedO c (clO c 0).
Proof. exact bottom_closed. Qed.
Theorem C03_top_is_concept : forall c, closedO c (ones (nG c)).
Proof. exact closed_ones. Qed.
Theorem C03_top_is_greatest : forall c E, closedO c E -> subset E (ones (nG c)).
Proof. exact top_greatest. Qed.
Theorem C03_all_crosses : forall c,
  (forall g m, (g < nG c)%nat -> (m < nM c)%nat -> inc c g m = true) ->
  forall E, closedO c E -> E = ones (nG c).
Proof. exact all_crosses_one_concept. Qed.

Example C03_witness :
  let c := mkCtx 3 3 [5; 3; 6] in
  (do L <- build_lattice 10 4 (relation_new c) ;; Ok (map c_extent (l_concepts L))) = Ok [0; 1; 2; 4; 3; 5; 6; 7].
Proof. vm_compute. reflexivity. Qed.
