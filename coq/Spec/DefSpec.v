(** The plain model of a Definition that property C13/C14 speak of: two ordered name lists
    (new names appended in the order given) and a set of true cells, with value semantics.
    The set of true cells is a boolean function supported inside objects x properties. *)
From Coq Require Import ZArith List Bool.
From Concepts Require Import Base.Res Model.Definition.
Import ListNotations.
Open Scope Z_scope.

Record sdef := mkS { s_objs : list nat; s_props : list nat; s_cell : nat -> nat -> bool }.

(** append, in the order given, the names not yet present (and not repeated) *)
Fixpoint append_new (l : list nat) (news : list nat) : list nat :=
  match news with
  | [] => l
  | x :: r => if memn x l then append_new l r else append_new (l ++ [x]) r
  end.

Fixpoint replace_name (l : list nat) (old new : nat) : list nat :=
  match l with [] => [] | y :: r => if Nat.eqb y old then new :: r else y :: replace_name r old new end.

Definition s_bools (s : sdef) : list (list bool) :=
  map (fun o => map (fun p => s_cell s o p) (s_props s)) (s_objs s).

Definition s_ok (s : sdef) : Prop :=
  NoDup (s_objs s) /\ NoDup (s_props s) /\
  forall o p, s_cell s o p = true -> In o (s_objs s) /\ In p (s_props s).

(** move with list.pop / list.insert index conventions of CPython *)
Definition s_move (l : list nat) (x : nat) (i : Z) : res (list nat) :=
  match list_index x l 0 with
  | None => Raise ValueError
  | Some idx => if Z.of_nat idx =? i then Ok l else Ok (py_insert (pop_at l idx) i x)
  end.

Definition s_conflict (a b : sdef) : bool :=
  existsb (fun o => memn o (s_objs b) &&
            existsb (fun p => memn p (s_props b) && xorb (s_cell a o p) (s_cell b o p)) (s_props a)) (s_objs a).

Definition s_new (objs props : list nat) (bools : list (list bool)) : res sdef :=
  if negb (Nat.eqb (length (append_new [] objs)) (length objs)) then Raise ValueError
  else if negb (Nat.eqb (length (append_new [] props)) (length props)) then Raise ValueError
  else Ok (mkS objs props (fun o p => memp (o, p) (zip_pairs objs props bools))).

Definition sstep1 (a : sdef) (o : op) (other : option sdef) : res (sdef * ret) :=
  match o with
  | OSetItem _ x p v =>
      Ok (mkS (append_new (s_objs a) [x]) (append_new (s_props a) [p])
              (fun o' p' => if Nat.eqb o' x && Nat.eqb p' p then v else s_cell a o' p'), RNone)
  | OSetItemInt _ => Raise ValueError
  | ORenameObject _ old new =>
      if memn new (s_objs a) then Raise ValueError
      else if negb (memn old (s_objs a)) then Raise ValueError
      else Ok (mkS (replace_name (s_objs a) old new) (s_props a)
                   (fun o' p' => if Nat.eqb o' new then s_cell a old p' else if Nat.eqb o' old then false else s_cell a o' p'), RNone)
  | ORenameProperty _ old new =>
      if memn new (s_props a) then Raise ValueError
      else if negb (memn old (s_props a)) then Raise ValueError
      else Ok (mkS (s_objs a) (replace_name (s_props a) old new)
                   (fun o' p' => if Nat.eqb p' new then s_cell a o' old else if Nat.eqb p' old then false else s_cell a o' p'), RNone)
  | OMoveObject _ x i => do l <- s_move (s_objs a) x i ;; Ok (mkS l (s_props a) (s_cell a), RNone)
  | OMoveProperty _ x i => do l <- s_move (s_props a) x i ;; Ok (mkS (s_objs a) l (s_cell a), RNone)
  | OAddObject _ x ps =>
      Ok (mkS (append_new (s_objs a) [x]) (append_new (s_props a) ps)
              (fun o' p' => (Nat.eqb o' x && memn p' ps) || s_cell a o' p'), RNone)
  | OAddProperty _ x os =>
      Ok (mkS (append_new (s_objs a) os) (append_new (s_props a) [x])
              (fun o' p' => (Nat.eqb p' x && memn o' os) || s_cell a o' p'), RNone)
  | ORemoveObject _ x =>
      if memn x (s_objs a)
      then Ok (mkS (removen x (s_objs a)) (s_props a) (fun o' p' => negb (Nat.eqb o' x) && s_cell a o' p'), RNone)
      else Raise KeyError
  | ORemoveProperty _ x =>
      if memn x (s_props a)
      then Ok (mkS (s_objs a) (removen x (s_props a)) (fun o' p' => negb (Nat.eqb p' x) && s_cell a o' p'), RNone)
      else Raise KeyError
  | ORemoveEmptyObjects _ =>
      let empty := filter (fun o' => negb (existsb (fun p' => s_cell a o' p') (s_props a))) (s_objs a) in
      Ok (mkS (filter (fun o' => negb (memn o' empty)) (s_objs a)) (s_props a) (s_cell a), RNames empty)
  | ORemoveEmptyProperties _ =>
      let empty := filter (fun p' => negb (existsb (fun o' => s_cell a o' p') (s_objs a))) (s_props a) in
      Ok (mkS (s_objs a) (filter (fun p' => negb (memn p' empty)) (s_props a)) (s_cell a), RNames empty)
  | OSetObject _ x ps =>
      Ok (mkS (append_new (s_objs a) [x]) (append_new (s_props a) ps)
              (fun o' p' => if Nat.eqb o' x then memn p' ps else s_cell a o' p'), RNone)
  | OSetProperty _ x os =>
      Ok (mkS (append_new (s_objs a) os) (append_new (s_props a) [x])
              (fun o' p' => if Nat.eqb p' x then memn o' os else s_cell a o' p'), RNone)
  | OUnionUpdate _ _ ig | DUnion _ _ ig =>
      match other with
      | None => Raise IndexError
      | Some b =>
          if negb ig && s_conflict a b then Raise ValueError
          else Ok (mkS (append_new (s_objs a) (s_objs b)) (append_new (s_props a) (s_props b))
                       (fun o' p' => s_cell a o' p' || s_cell b o' p'), RNone)
      end
  | OIntersectionUpdate _ _ ig | DIntersection _ _ ig =>
      match other with
      | None => Raise IndexError
      | Some b =>
          if negb ig && s_conflict a b then Raise ValueError
          else Ok (mkS (filter (fun x => memn x (s_objs b)) (s_objs a)) (filter (fun x => memn x (s_props b)) (s_props a))
                       (fun o' p' => s_cell a o' p' && s_cell b o' p'), RNone)
      end
  | DCopy _ | DRebuild _ => Ok (a, RNone)
  | DTransposed _ => Ok (mkS (s_props a) (s_objs a) (fun o' p' => s_cell a p' o'), RNone)
  | DInverted _ =>
      Ok (mkS (s_objs a) (s_props a)
              (fun o' p' => memn o' (s_objs a) && memn p' (s_props a) && negb (s_cell a o' p')), RNone)
  | DTake _ objs props reorder =>
      let bad_o := match objs with Some (y :: r) => negb (forallb (fun x => memn x (s_objs a)) (y :: r)) | _ => false end in
      let bad_p := match props with Some (y :: r) => negb (forallb (fun x => memn x (s_props a)) (y :: r)) | _ => false end in
      if bad_o || bad_p then Raise KeyError
      else
        let obj := match objs with
                   | Some l => if reorder then append_new [] l else filter (fun x => memn x l) (s_objs a)
                   | None => s_objs a end in
        let prop := match props with
                    | Some l => if reorder then append_new [] l else filter (fun x => memn x l) (s_props a)
                    | None => s_props a end in
        Ok (mkS obj prop (fun o' p' => memn o' obj && memn p' prop && s_cell a o' p'), RNone)
  | DNew os ps bs => do s <- s_new os ps bs ;; Ok (s, RNone)
  end.

(** observation of a definition: the (objects, properties, bools) triple *)
Definition obs_defn (d : defn) : list nat * list nat * list (list bool) := (objects_of d, properties_of d, bools_of d).
Definition obs_sdef (s : sdef) : list nat * list nat * list (list bool) := (s_objs s, s_props s, s_bools s).
