(** Readers for the four human-readable layouts, written from the descriptions of the formats only.
    They are deliberately stricter and differently organised than the library's loaders (no
    [strip('|')], no [partition], no csv automaton with lenient states, counted sections for cxt) and
    answer [None] on anything that does not follow the layout.  They share only the elementary string
    functions ([split_on], [split_on2], [strip_by]) with Model/Formats.v.

    - table: lines are separated by '\n'; '#' starts a comment; blank lines are skipped.  Every line is a
      sequence of columns each terminated by '|'.  The first line holds the property names from the second
      column on; every other line holds the object name in the first column and one cell per property; a
      cell is true iff it is not blank.
    - cxt (Burmeister): 'B', an empty line, the number of objects, the number of properties, an empty line,
      the object names, the property names, one line of 'X'/'.' per object with one symbol per property.
    - csv (RFC 4180): records end with CRLF, fields are separated by ','; a field is either free of
      comma, double quote, CR and LF or enclosed in double quotes with inner double quotes doubled.  The first record is the header (first field
      ignored), every other record is an object followed by its cells.
    - wiki-table: the line [wiki_first_line], '!', '!p1!!p2...'; per object '|-', '!object', '|c1||c2...';
      finally '|}'.  A cell is true iff it is not blank. *)
From Coq Require Import ZArith List Bool Lia.
From Concepts Require Import Base.Res Model.Formats.
Import ListNotations.
Open Scope Z_scope.

Definition blank (c : Z) : bool := (c =? 32) || (c =? 9).
Definition trim (s : str) : str := strip_by blank s.
Definition is_blank (s : str) : bool := forallb blank s.

Fixpoint before (stop : Z) (s : str) : str :=
  match s with
  | [] => []
  | c :: t => if c =? stop then [] else c :: before stop t
  end.

Fixpoint all_some {A} (l : list (option A)) : option (list A) :=
  match l with
  | [] => Some []
  | None :: _ => None
  | Some a :: r => match all_some r with Some r' => Some (a :: r') | None => None end
  end.

(* ------------------------------------------------------------------------------------------- *)
(** * table *)

(** the columns of a line: every column is terminated by '|' *)
Definition table_columns (l : str) : option (list str) :=
  match rev (split_on 124 l) with
  | [] :: cols_rev => Some (rev cols_rev)
  | _ => None
  end.

Definition spec_read_table (s : str) : option triple :=
  let lines := filter (fun l => negb (is_blank l)) (map (before 35) (split_on 10 s)) in
  match all_some (map (fun l => table_columns (trim l)) lines) with
  | Some ((_ :: names) :: rows) =>
      let props := map trim names in
      match all_some (map (fun r => match r with
                                    | o :: cells =>
                                        if (length cells =? length props)%nat
                                        then Some (trim o, map (fun c => negb (is_blank c)) cells) else None
                                    | [] => None
                                    end) rows) with
      | Some t => Some (map fst t, props, map snd t)
      | None => None
      end
  | _ => None
  end.

(* ------------------------------------------------------------------------------------------- *)
(** * cxt *)

Definition read_digit (c : Z) : option nat :=
  if (48 <=? c) && (c <=? 57) then Some (Z.to_nat (c - 48)) else None.

Fixpoint read_nat_from (acc : nat) (s : str) : option nat :=
  match s with
  | [] => Some acc
  | c :: t => match read_digit c with Some d => read_nat_from (10 * acc + d) t | None => None end
  end.
Definition read_nat (s : str) : option nat :=
  match s with [] => None | _ => read_nat_from 0 s end.

Definition cxt_cell (c : Z) : option bool :=
  if c =? 88 then Some true else if c =? 46 then Some false else None.

Definition spec_read_cxt (s : str) : option triple :=
  match split_on 10 s with
  | [66] :: [] :: ny :: nx :: [] :: rest =>
      match read_nat ny, read_nat nx with
      | Some y, Some x =>
          let objs := firstn y rest in
          let props := firstn x (skipn y rest) in
          let rows := firstn y (skipn (y + x) rest) in
          let tail := skipn (y + x + y) rest in
          if (length objs =? y)%nat && (length props =? x)%nat && (length rows =? y)%nat
             && forallb (fun l : str => is_nil l) tail
             && forallb (fun r : str => (length r =? x)%nat) rows
          then match all_some (map (fun r => all_some (map cxt_cell r)) rows) with
               | Some bools => Some (objs, props, bools)
               | None => None
               end
          else None
      | _, _ => None
      end
  | _ => None
  end.

(* ------------------------------------------------------------------------------------------- *)
(** * csv (RFC 4180) *)

Inductive rfc_mode := FieldStart | Unquoted | Quoted | QuoteSeen | AfterCR.

(** [cur]: current field reversed, [fs]: fields of the current record reversed;
    the result lists the records in order *)
Fixpoint rfc_records (m : rfc_mode) (cur : str) (fs : list str) (s : str) : option (list (list str)) :=
  match s with
  | [] => match m, cur, fs with FieldStart, [], [] => Some [] | _, _, _ => None end
  | c :: t =>
      match m with
      | FieldStart =>
          if c =? 34 then rfc_records Quoted cur fs t
          else if c =? 44 then rfc_records FieldStart [] (rev cur :: fs) t
          else if c =? 13 then rfc_records AfterCR [] (rev cur :: fs) t
          else if c =? 10 then None
          else rfc_records Unquoted (c :: cur) fs t
      | Unquoted =>
          if c =? 44 then rfc_records FieldStart [] (rev cur :: fs) t
          else if c =? 13 then rfc_records AfterCR [] (rev cur :: fs) t
          else if (c =? 10) || (c =? 34) then None
          else rfc_records Unquoted (c :: cur) fs t
      | Quoted =>
          if c =? 34 then rfc_records QuoteSeen cur fs t else rfc_records Quoted (c :: cur) fs t
      | QuoteSeen =>
          if c =? 34 then rfc_records Quoted (c :: cur) fs t
          else if c =? 44 then rfc_records FieldStart [] (rev cur :: fs) t
          else if c =? 13 then rfc_records AfterCR [] (rev cur :: fs) t
          else None
      | AfterCR =>
          if c =? 10 then
            match rfc_records FieldStart [] [] t with
            | Some rs => Some (rev fs :: rs)
            | None => None
            end
          else None
      end
  end.

Definition spec_csv_cell (as_int : bool) (s : str) : option bool :=
  match as_int, s with
  | false, [] => Some false
  | false, [88] => Some true
  | true, [48] => Some false
  | true, [49] => Some true
  | _, _ => None
  end.

Definition spec_read_csv (as_int : bool) (s : str) : option triple :=
  match rfc_records FieldStart [] [] s with
  | Some ((_ :: props) :: rows) =>
      match all_some (map (fun r => match r with
                                    | o :: cells =>
                                        match all_some (map (spec_csv_cell as_int) cells) with
                                        | Some bs => if (length bs =? length props)%nat then Some (o, bs) else None
                                        | None => None
                                        end
                                    | [] => None
                                    end) rows) with
      | Some t => Some (map fst t, props, map snd t)
      | None => None
      end
  | _ => None
  end.

(* ------------------------------------------------------------------------------------------- *)
(** * wiki-table *)

Definition wiki_first_line : str :=
  [123; 124; 32; 99; 108; 97; 115; 115; 61; 34; 102; 101; 97; 116; 117; 114; 101; 115; 121; 115; 116; 101; 109; 34].

(** groups of three lines '|-', '!object', '|cells' up to the closing '|}' *)
Fixpoint wiki_groups (nprops : nat) (lines : list str) : option (list (str * list bool)) :=
  match lines with
  | [[124; 125]] => Some []
  | [124; 45] :: (33 :: o) :: (124 :: cells) :: rest =>
      let cs := split_on2 124 124 cells in
      if (length cs =? nprops)%nat then
        match wiki_groups nprops rest with
        | Some g => Some ((o, map (fun c => negb (is_blank c)) cs) :: g)
        | None => None
        end
      else None
  | _ => None
  end.

Definition spec_read_wikitable (s : str) : option triple :=
  match split_on 10 s with
  | first :: [33] :: (33 :: names) :: rest =>
      if str_eqb first wiki_first_line then
        let props := split_on2 33 33 names in
        match wiki_groups (length props) rest with
        | Some g => Some (map fst g, props, map snd g)
        | None => None
        end
      else None
  | _ => None
  end.

(* ------------------------------------------------------------------------------------------- *)
(** * label classes and well-formed triples (used by the round-trip theorems) *)

(** the line boundaries of [str.splitlines] *)
Definition linebreak (c : Z) : bool :=
  (c =? 10) || (c =? 11) || (c =? 12) || (c =? 13) || (c =? 28) || (c =? 29) || (c =? 30) || (c =? 133)
  || (c =? 8232) || (c =? 8233).

(** non-empty, neither the first nor the last character is white space *)
Definition edges_ok (s : str) : bool :=
  match s with
  | [] => false
  | c :: _ => negb (isspace c) && negb (isspace (last s 0))
  end.

Definition cxt_ok (s : str) : bool := edges_ok s && forallb (fun c => negb (linebreak c)) s.

Definition table_ok (s : str) : bool :=
  cxt_ok s && forallb (fun c => negb ((c =? 124) || (c =? 35))) s.

(** wiki-table labels: additionally no '!' and no '|' (no line break, but inner/outer blanks are fine) *)
Definition wiki_ok (s : str) : bool :=
  negb (is_nil s) && forallb (fun c => negb (linebreak c || (c =? 33) || (c =? 124))) s.

(** csv labels: any string without NUL *)
Definition csv_ok (s : str) : bool := forallb (fun c => negb (c =? 0)) s.

Definition well_formed (objs props : list str) (bools : list (list bool)) : Prop :=
  objs <> [] /\ props <> [] /\ length bools = length objs /\ Forall (fun r => length r = length props) bools.

(** the registered file suffixes and the names of their formats (base.py: [Format.by_suffix]) *)
Definition suffix_table : list (str * str) :=
  [([46; 116; 120; 116], [116; 97; 98; 108; 101]);                                            (* .txt table *)
   ([46; 99; 120; 116], [99; 120; 116]);                                                      (* .cxt cxt *)
   ([46; 99; 115; 118], [99; 115; 118]);                                                      (* .csv csv *)
   ([46; 100; 97; 116], [102; 105; 109; 105]);                                                (* .dat fimi *)
   ([46; 112; 121], [112; 121; 116; 104; 111; 110; 45; 108; 105; 116; 101; 114; 97; 108])].   (* .py python-literal *)

(* ------------------------------------------------------------------------------------------- *)
(** * writers written from the format descriptions

    They are deliberately more liberal than the library's dumpers: every freedom the descriptions above leave
    (padding, final '|', comments, blank lines; padding and trailing white space for cxt; quoting choices
    and the final CRLF for csv) is a parameter.  They share only [join] and [nat_to_str] (the decimal
    notation of a count) with Model/Formats.v.  Proofs/FormatsWriters.v shows that the library's loaders
    read their output back for all values of the parameters. *)

Definition spaces (n : nat) : str := repeat 32 n.

(** [s] with [l] spaces before and [r] spaces after *)
Definition pad_sp (l r : nat) (s : str) : str := spaces l ++ s ++ spaces r.

(** text without a line feed *)
Definition no_newline (s : str) : bool := forallb (fun c => negb (c =? 10)) s.

(** ** table *)

(** the freedoms of the table layout.  Lines are numbered from 0 (the header line), columns from 0 (the
    column of the object names).
    - [ts_lpad i j] / [ts_rpad i j]: number of spaces before / after the content of column [j] of line [i]
      (for the header, column 0 has no content: its width is [ts_lpad 0 0 + ts_rpad 0 0]);
    - [ts_bar i]: line [i] ends with a final '|';
    - [ts_trail i]: number of spaces after that (before the comment or the end of the line);
    - [ts_comment i]: the comment after line [i], if any (the text after '#');
    - [ts_fill i]: the blank / comment-only lines before line [i] (after the last line when [i] is the number
      of lines): each is a number of spaces and an optional comment.  A final [(0, None)] filler after the
      last line is a final line feed. *)
Record table_style := {
  ts_lpad : nat -> nat -> nat;
  ts_rpad : nat -> nat -> nat;
  ts_bar : nat -> bool;
  ts_trail : nat -> nat;
  ts_comment : nat -> option str;
  ts_fill : nat -> list (nat * option str) }.

Definition mark_X (b : bool) : str := if b then [88] else [].

Definition comment_text (c : option str) : str := match c with Some t => 35 :: t | None => [] end.

Definition filler_line (f : nat * option str) : str := spaces (fst f) ++ comment_text (snd f).

(** the columns [j], [j+1], ... : each is '|' followed by the padded content *)
Fixpoint table_text_cells (lp rp : nat -> nat) (j : nat) (cells : list str) : str :=
  match cells with
  | [] => []
  | c :: cs => 124 :: pad_sp (lp j) (rp j) c ++ table_text_cells lp rp (S j) cs
  end.

Definition table_text_line (st : table_style) (i : nat) (name : str) (cells : list str) : str :=
  pad_sp (ts_lpad st i 0) (ts_rpad st i 0) name
  ++ table_text_cells (ts_lpad st i) (ts_rpad st i) 1 cells
  ++ (if ts_bar st i then [124] else [])
  ++ spaces (ts_trail st i) ++ comment_text (ts_comment st i).

Fixpoint table_text_rows (st : table_style) (i : nat) (rows : list (str * list bool)) : list str :=
  map filler_line (ts_fill st i)
  ++ match rows with
     | [] => []
     | ob :: rest => table_text_line st i (fst ob) (map mark_X (snd ob)) :: table_text_rows st (S i) rest
     end.

(** the lines are joined by line feeds *)
Definition spec_write_table (st : table_style) (objs props : list str) (bools : list (list bool)) : str :=
  join [10] (map filler_line (ts_fill st 0)
             ++ table_text_line st 0 [] props :: table_text_rows st 1 (combine objs bools)).

(** comments are free of line feeds *)
Definition table_comments_ok (st : table_style) : Prop :=
  (forall i t, ts_comment st i = Some t -> no_newline t = true)
  /\ (forall i n t, In (n, Some t) (ts_fill st i) -> no_newline t = true).

(** The library's loader strips '|' from both ends of the cells part of a line ([flags.strip('|')]): with
    two or more properties, an empty cell of width 0 at the start or at the end of a row is lost, and so is
    an empty last cell that is not followed by the final '|' (see the boundary examples in
    Properties/C12.v).  Hence the condition on the layout of such rows: a false first / last cell is at
    least one space wide, and a row whose last cell is false has the final '|'.  Nothing is required of
    the other cells, of rows whose first and last cells are true, or when there is a single property. *)
Definition table_edges_ok (st : table_style) (bools : list (list bool)) : Prop :=
  forall i r, nth_error bools i = Some r -> (2 <= length r)%nat ->
    (hd true r = false -> (1 <= ts_lpad st (S i) 1 + ts_rpad st (S i) 1)%nat)
    /\ (last r true = false ->
        ts_bar st (S i) = true /\ (1 <= ts_lpad st (S i) (length r) + ts_rpad st (S i) (length r))%nat).

(** ** cxt *)

(** [cx_lpad i] / [cx_rpad i]: spaces before / after the content of the i-th non-empty line
    (0: 'B', 1 and 2: the counts, 3...: object names, property names, rows);
    [cx_trailer]: white-space-only lines after the last row, each given by its number of spaces
    ([[0]] is a final line feed). *)
Record cxt_style := {
  cx_lpad : nat -> nat;
  cx_rpad : nat -> nat;
  cx_trailer : list nat }.

Fixpoint pad_lines (lp rp : nat -> nat) (i : nat) (ls : list str) : list str :=
  match ls with
  | [] => []
  | l :: r => pad_sp (lp i) (rp i) l :: pad_lines lp rp (S i) r
  end.

Definition cxt_mark (b : bool) : Z := if b then 88 else 46.

Definition spec_write_cxt (st : cxt_style) (objs props : list str) (bools : list (list bool)) : str :=
  join [10] (pad_lines (cx_lpad st) (cx_rpad st) 0 [[66]]
             ++ [[]]
             ++ pad_lines (cx_lpad st) (cx_rpad st) 1 [nat_to_str (length objs); nat_to_str (length props)]
             ++ [[]]
             ++ pad_lines (cx_lpad st) (cx_rpad st) 3 (objs ++ props ++ map (map cxt_mark) bools))
  ++ flat_map (fun n => 10 :: spaces n) (cx_trailer st).

(** ** csv (RFC 4180) *)

Definition rfc_needs_quote (f : str) : bool :=
  existsb (fun c => (c =? 44) || (c =? 34) || (c =? 13) || (c =? 10)) f.

Definition rfc_quoted (f : str) : str :=
  34 :: flat_map (fun c => if c =? 34 then [34; 34] else [c]) f ++ [34].

(** a field is quoted when it has to be, or when the writer chooses to ([q]) *)
Definition rfc_field (q : bool) (f : str) : str :=
  if q || rfc_needs_quote f then rfc_quoted f else f.

(** one record without its line end; [q j] says whether field [j] is quoted without need *)
Definition rfc_record_text (q : nat -> bool) (fields : list str) : str :=
  join [44] (map (fun jf => rfc_field (q (fst jf)) (snd jf)) (combine (seq 0 (length fields)) fields)).

(** records [i], [i+1], ... separated by CRLF; the last record ends with CRLF iff [final] *)
Fixpoint rfc_write (q : nat -> nat -> bool) (final : bool) (i : nat) (recs : list (list str)) : str :=
  match recs with
  | [] => []
  | r :: rest =>
      rfc_record_text (q i) r
      ++ match rest with
         | [] => if final then [13; 10] else []
         | _ => [13; 10] ++ rfc_write q final (S i) rest
         end
  end.

Definition csv_mark (as_int b : bool) : str :=
  match as_int, b with
  | false, false => []
  | false, true => [88]
  | true, false => [48]
  | true, true => [49]
  end.

(** [q i j]: field [j] of record [i] (0: the header) is quoted even if it need not be;
    [final]: the last record ends with CRLF (optional in RFC 4180);
    [header0]: the first field of the header, which is not part of the context *)
Definition spec_write_csv_gen (q : nat -> nat -> bool) (final : bool) (as_int : bool) (header0 : str)
    (objs props : list str) (bools : list (list bool)) : str :=
  rfc_write q final 0
    ((header0 :: props) :: map (fun ob => fst ob :: map (csv_mark as_int) (snd ob)) (combine objs bools)).

(** the two usual policies: quote every field, or only those that need it (CRLF after every record) *)
Definition spec_write_csv (quote_all as_int : bool) (header0 : str)
    (objs props : list str) (bools : list (list bool)) : str :=
  spec_write_csv_gen (fun _ _ => quote_all) true as_int header0 objs props bools.
