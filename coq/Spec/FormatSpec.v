(** Readers for the four human-readable layouts, written from the descriptions of the formats only.
    They are deliberately stricter and differently organised than the library's loaders (no
    [strip('|')], no [partition], no csv automaton with lenient states, counted sections for cxt) and
    answer [None] on anything that does not follow the layout.  They share only the elementary string
    functions ([split_on], [split_on2], [strip_by]) with Model/Formats.v.

    - table: lines are separated by '\n'; '#' starts a comment; blank lines are skipped.  Every line is a
      sequence of columns each terminated by '|'.  The first line holds the property names from the second
      column on; every other line holds the object name in the first column and one cell per property; a
      cell is true iff it is not blank.
    - cxt (Burmeister): 'B', an empty line, the number of objects, the number of properties, an empty line,
      the object names, the property names, one line of 'X'/'.' per object with one symbol per property.
    - csv (RFC 4180): records end with CRLF, fields are separated by ','; a field is either free of
      comma, double quote, CR and LF or enclosed in double quotes with inner double quotes doubled.  The first record is the header (first field
      ignored), every other record is an object followed by its cells.
    - wiki-table: the line [wiki_first_line], '!', '!p1!!p2...'; per object '|-', '!object', '|c1||c2...';
      finally '|}'.  A cell is true iff it is not blank. *)
From Coq Require Import ZArith List Bool Lia.
From Concepts Require Import Base.Res Model.Formats.
Import ListNotations.
Open Scope Z_scope.

Definition blank (c : Z) : bool := (c =? 32) || (c =? 9).
Definition trim (s : str) : str := strip_by blank s.
Definition is_blank (s : str) : bool := forallb blank s.

Fixpoint before (stop : Z) (s : str) : str :=
  match s with
  | [] => []
  | c :: t => if c =? stop then [] else c :: before stop t
  end.

Fixpoint all_some {A} (l : list (option A)) : option (list A) :=
  match l with
  | [] => Some []
  | None :: _ => None
  | Some a :: r => match all_some r with Some r' => Some (a :: r') | None => None end
  end.

(* ------------------------------------------------------------------------------------------- *)
(** * table *)

(** the columns of a line: every column is terminated by '|' *)
Definition table_columns (l : str) : option (list str) :=
  match rev (split_on 124 l) with
  | [] :: cols_rev => Some (rev cols_rev)
  | _ => None
  end.

Definition spec_read_table (s : str) : option triple :=
  let lines := filter (fun l => negb (is_blank l)) (map (before 35) (split_on 10 s)) in
  match all_some (map (fun l => table_columns (trim l)) lines) with
  | Some ((_ :: names) :: rows) =>
      let props := map trim names in
      match all_some (map (fun r => match r with
                                    | o :: cells =>
                                        if (length cells =? length props)%nat
                                        then Some (trim o, map (fun c => negb (is_blank c)) cells) else None
                                    | [] => None
                                    end) rows) with
      | Some t => Some (map fst t, props, map snd t)
      | None => None
      end
  | _ => None
  end.

(* ------------------------------------------------------------------------------------------- *)
(** * cxt *)

Definition read_digit (c : Z) : option nat :=
  if (48 <=? c) && (c <=? 57) then Some (Z.to_nat (c - 48)) else None.

Fixpoint read_nat_from (acc : nat) (s : str) : option nat :=
  match s with
  | [] => Some acc
  | c :: t => match read_digit c with Some d => read_nat_from (10 * acc + d) t | None => None end
  end.
Definition read_nat (s : str) : option nat :=
  match s with [] => None | _ => read_nat_from 0 s end.

Definition cxt_cell (c : Z) : option bool :=
  if c =? 88 then Some true else if c =? 46 then Some false else None.

Definition spec_read_cxt (s : str) : option triple :=
  match split_on 10 s with
  | [66] :: [] :: ny :: nx :: [] :: rest =>
      match read_nat ny, read_nat nx with
      | Some y, Some x =>
          let objs := firstn y rest in
          let props := firstn x (skipn y rest) in
          let rows := firstn y (skipn (y + x) rest) in
          let tail := skipn (y + x + y) rest in
          if (length objs =? y)%nat && (length props =? x)%nat && (length rows =? y)%nat
             && forallb (fun l : str => is_nil l) tail
             && forallb (fun r : str => (length r =? x)%nat) rows
          then match all_some (map (fun r => all_some (map cxt_cell r)) rows) with
               | Some bools => Some (objs, props, bools)
               | None => None
               end
          else None
      | _, _ => None
      end
  | _ => None
  end.

(* ------------------------------------------------------------------------------------------- *)
(** * csv (RFC 4180) *)

Inductive rfc_mode := FieldStart | Unquoted | Quoted | QuoteSeen | AfterCR.

(** [cur]: current field reversed, [fs]: fields of the current record reversed;
    the result lists the records in order *)
Fixpoint rfc_records (m : rfc_mode) (cur : str) (fs : list str) (s : str) : option (list (list str)) :=
  match s with
  | [] => match m, cur, fs with FieldStart, [], [] => Some [] | _, _, _ => None end
  | c :: t =>
      match m with
      | FieldStart =>
          if c =? 34 then rfc_records Quoted cur fs t
          else if c =? 44 then rfc_records FieldStart [] (rev cur :: fs) t
          else if c =? 13 then rfc_records AfterCR [] (rev cur :: fs) t
          else if c =? 10 then None
          else rfc_records Unquoted (c :: cur) fs t
      | Unquoted =>
          if c =? 44 then rfc_records FieldStart [] (rev cur :: fs) t
          else if c =? 13 then rfc_records AfterCR [] (rev cur :: fs) t
          else if (c =? 10) || (c =? 34) then None
          else rfc_records Unquoted (c :: cur) fs t
      | Quoted =>
          if c =? 34 then rfc_records QuoteSeen cur fs t else rfc_records Quoted (c :: cur) fs t
      | QuoteSeen =>
          if c =? 34 then rfc_records Quoted (c :: cur) fs t
          else if c =? 44 then rfc_records FieldStart [] (rev cur :: fs) t
          else if c =? 13 then rfc_records AfterCR [] (rev cur :: fs) t
          else None
      | AfterCR =>
          if c =? 10 then
            match rfc_records FieldStart [] [] t with
            | Some rs => Some (rev fs :: rs)
            | None => None
            end
          else None
      end
  end.

Definition spec_csv_cell (as_int : bool) (s : str) : option bool :=
  match as_int, s with
  | false, [] => Some false
  | false, [88] => Some true
  | true, [48] => Some false
  | true, [49] => Some true
  | _, _ => None
  end.

Definition spec_read_csv (as_int : bool) (s : str) : option triple :=
  match rfc_records FieldStart [] [] s with
  | Some ((_ :: props) :: rows) =>
      match all_some (map (fun r => match r with
                                    | o :: cells =>
                                        match all_some (map (spec_csv_cell as_int) cells) with
                                        | Some bs => if (length bs =? length props)%nat then Some (o, bs) else None
                                        | None => None
                                        end
                                    | [] => None
                                    end) rows) with
      | Some t => Some (map fst t, props, map snd t)
      | None => None
      end
  | _ => None
  end.

(* ------------------------------------------------------------------------------------------- *)
(** * wiki-table *)

Definition wiki_first_line : str :=
  [123; 124; 32; 99; 108; 97; 115; 115; 61; 34; 102; 101; 97; 116; 117; 114; 101; 115; 121; 115; 116; 101; 109; 34].

(** groups of three lines '|-', '!object', '|cells' up to the closing '|}' *)
Fixpoint wiki_groups (nprops : nat) (lines : list str) : option (list (str * list bool)) :=
  match lines with
  | [[124; 125]] => Some []
  | [124; 45] :: (33 :: o) :: (124 :: cells) :: rest =>
      let cs := split_on2 124 124 cells in
      if (length cs =? nprops)%nat then
        match wiki_groups nprops rest with
        | Some g => Some ((o, map (fun c => negb (is_blank c)) cs) :: g)
        | None => None
        end
      else None
  | _ => None
  end.

Definition spec_read_wikitable (s : str) : option triple :=
  match split_on 10 s with
  | first :: [33] :: (33 :: names) :: rest =>
      if str_eqb first wiki_first_line then
        let props := split_on2 33 33 names in
        match wiki_groups (length props) rest with
        | Some g => Some (map fst g, props, map snd g)
        | None => None
        end
      else None
  | _ => None
  end.

(* ------------------------------------------------------------------------------------------- *)
(** * label classes and well-formed triples (used by the round-trip theorems) *)

(** the line boundaries of [str.splitlines] *)
Definition linebreak (c : Z) : bool :=
  (c =? 10) || (c =? 11) || (c =? 12) || (c =? 13) || (c =? 28) || (c =? 29) || (c =? 30) || (c =? 133)
  || (c =? 8232) || (c =? 8233).

(** non-empty, neither the first nor the last character is white space *)
Definition edges_ok (s : str) : bool :=
  match s with
  | [] => false
  | c :: _ => negb (isspace c) && negb (isspace (last s 0))
  end.

Definition cxt_ok (s : str) : bool := edges_ok s && forallb (fun c => negb (linebreak c)) s.

Definition table_ok (s : str) : bool :=
  cxt_ok s && forallb (fun c => negb ((c =? 124) || (c =? 35))) s.

(** wiki-table labels: additionally no '!' and no '|' (no line break, but inner/outer blanks are fine) *)
Definition wiki_ok (s : str) : bool :=
  negb (is_nil s) && forallb (fun c => negb (linebreak c || (c =? 33) || (c =? 124))) s.

(** csv labels: any string without NUL *)
Definition csv_ok (s : str) : bool := forallb (fun c => negb (c =? 0)) s.

Definition well_formed (objs props : list str) (bools : list (list bool)) : Prop :=
  objs <> [] /\ props <> [] /\ length bools = length objs /\ Forall (fun r => length r = length props) bools.

(** the registered file suffixes and the names of their formats (base.py: [Format.by_suffix]) *)
Definition suffix_table : list (str * str) :=
  [([46; 116; 120; 116], [116; 97; 98; 108; 101]);                                            (* .txt table *)
   ([46; 99; 120; 116], [99; 120; 116]);                                                      (* .cxt cxt *)
   ([46; 99; 115; 118], [99; 115; 118]);                                                      (* .csv csv *)
   ([46; 100; 97; 116], [102; 105; 109; 105]);                                                (* .dat fimi *)
   ([46; 112; 121], [112; 121; 116; 104; 111; 110; 45; 108; 105; 116; 101; 114; 97; 108])].   (* .py python-literal *)
