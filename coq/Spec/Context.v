(** Formal contexts, derivation operators on both axes, concepts, order, covers. *)
From Coq Require Import ZArith List Bool Lia.
From Concepts Require Import Base.PyInt Base.BitSet Spec.FCA.
Import ListNotations.
Open Scope Z_scope.

Record ctx := mkCtx { nG : nat; nM : nat; rows : list Z }.

Definition row (c : ctx) (g : nat) : Z := nth g (rows c) 0.
Definition inc (c : ctx) (g m : nat) : bool := mem (row c g) m.
Definition wf_ctx (c : ctx) : Prop :=
  length (rows c) = nG c /\ Forall (in_range (nM c)) (rows c).

(** A' for a set of objects, B' for a set of properties *)
Definition upO (c : ctx) : Z -> Z := up (nG c) (nM c) (inc c).
Definition upM (c : ctx) : Z -> Z := up (nM c) (nG c) (flipR (inc c)).
Definition clO (c : ctx) (A : Z) : Z := upM c (upO c A).
Definition clM (c : ctx) (B : Z) : Z := upO c (upM c B).

Definition is_concept (c : ctx) (A B : Z) : Prop :=
  in_range (nG c) A /\ in_range (nM c) B /\ upO c A = B /\ upM c B = A.
Definition closedO (c : ctx) (A : Z) : Prop := in_range (nG c) A /\ clO c A = A.
Definition closedM (c : ctx) (B : Z) : Prop := in_range (nM c) B /\ clM c B = B.

(** column vectors (extents of single properties) *)
Definition col (c : ctx) (m : nat) : Z := of_pred (nG c) (fun g => inc c g m).
Definition cols (c : ctx) : list Z := map (col c) (seq 0 (nM c)).

(** strict inclusion and covering among closed extents *)
Definition psubset (a b : Z) : Prop := subset a b /\ a <> b.
Definition covers (c : ctx) (A E : Z) : Prop :=
  closedO c A /\ closedO c E /\ psubset A E /\
  forall F, closedO c F -> subset A F -> subset F E -> F = A \/ F = E.

Lemma row_in_range c g : wf_ctx c -> in_range (nM c) (row c g).
Proof.
  intros [Hl Hf]. unfold row. destruct (Nat.lt_ge_cases g (length (rows c))) as [Hlt|Hge].
  - rewrite Forall_forall in Hf. apply Hf. apply nth_In. exact Hlt.
  - rewrite nth_overflow by exact Hge. apply in_range_0.
Qed.

Lemma mem_col c m g : mem (col c m) g = ((g <? nG c)%nat && inc c g m).
Proof. unfold col. rewrite mem_of_pred. reflexivity. Qed.

Lemma in_range_col c m : in_range (nG c) (col c m).
Proof. apply in_range_of_pred. Qed.

Lemma cols_length c : length (cols c) = nM c.
Proof. unfold cols. rewrite map_length, seq_length. reflexivity. Qed.

Lemma nth_cols c m : (m < nM c)%nat -> nth m (cols c) 0 = col c m.
Proof.
  intros H. unfold cols. rewrite (nth_indep _ 0 (col c 0)) by (rewrite map_length, seq_length; exact H).
  rewrite map_nth, seq_nth by exact H. reflexivity.
Qed.

(** closure facts on the object axis (the property axis is the same with the axes swapped) *)
Lemma in_range_upO c A : in_range (nM c) (upO c A).
Proof. apply in_range_up. Qed.
Lemma in_range_upM c B : in_range (nG c) (upM c B).
Proof. apply in_range_up. Qed.

Lemma galoisOM c A B : in_range (nG c) A -> in_range (nM c) B ->
  (subset A (upM c B) <-> subset B (upO c A)).
Proof. apply galois. Qed.

Lemma clO_extensive c A : in_range (nG c) A -> subset A (clO c A).
Proof. apply cl_extensive. Qed.

Lemma flipR_flipR R : flipR (flipR R) = R.
Proof. reflexivity. Qed.

Lemma clM_extensive c B : in_range (nM c) B -> subset B (clM c B).
Proof.
  intros HB. unfold clM, upO, upM.
  pose proof (cl_extensive (nM c) (nG c) (flipR (inc c)) B HB) as H.
  exact H.
Qed.

Lemma clO_monotone c A1 A2 : subset A1 A2 -> subset (clO c A1) (clO c A2).
Proof. intros H. apply up_antitone, up_antitone, H. Qed.
Lemma clM_monotone c B1 B2 : subset B1 B2 -> subset (clM c B1) (clM c B2).
Proof. intros H. apply up_antitone, up_antitone, H. Qed.

Lemma upO_clO c A : in_range (nG c) A -> upO c (clO c A) = upO c A.
Proof. apply up_cl. Qed.
Lemma upM_clM c B : in_range (nM c) B -> upM c (clM c B) = upM c B.
Proof. intros HB. exact (up_cl (nM c) (nG c) (flipR (inc c)) B HB). Qed.

Lemma clO_idempotent c A : in_range (nG c) A -> clO c (clO c A) = clO c A.
Proof. intros HA. unfold clO at 1. rewrite upO_clO by exact HA. reflexivity. Qed.
Lemma clM_idempotent c B : in_range (nM c) B -> clM c (clM c B) = clM c B.
Proof. intros HB. unfold clM at 1. rewrite upM_clM by exact HB. reflexivity. Qed.

Lemma concept_of_objects c A : in_range (nG c) A -> is_concept c (clO c A) (upO c A).
Proof.
  intros HA. unfold is_concept. split; [apply in_range_up|]. split; [apply in_range_up|].
  split; [apply upO_clO; exact HA|reflexivity].
Qed.

Lemma concept_of_properties c B : in_range (nM c) B -> is_concept c (upM c B) (clM c B).
Proof.
  intros HB. unfold is_concept. split; [apply in_range_up|]. split; [apply in_range_up|].
  split; [reflexivity|]. apply upM_clM; exact HB.
Qed.

(** least concept containing the query *)
Lemma clO_least c A E F : in_range (nG c) A -> is_concept c E F -> subset A E -> subset (clO c A) E.
Proof.
  intros HA (HE & HF & HEF & HFE) Hsub. rewrite <- HFE, <- HEF.
  apply clO_monotone. exact Hsub.
Qed.
Lemma clM_least c B E F : in_range (nM c) B -> is_concept c E F -> subset B F -> subset (clM c B) F.
Proof.
  intros HB (HE & HF & HEF & HFE) Hsub. rewrite <- HEF, <- HFE.
  apply clM_monotone. exact Hsub.
Qed.

Lemma concept_closed c A B : is_concept c A B -> closedO c A.
Proof. intros (HA & HB & H1 & H2). split; [exact HA|]. unfold clO. rewrite H1. exact H2. Qed.

Lemma closed_concept c A : closedO c A -> is_concept c A (upO c A).
Proof.
  intros [HA Hc]. split; [exact HA|]. split; [apply in_range_up|]. split; [reflexivity|exact Hc].
Qed.

(** order on concepts: extent inclusion iff reverse intent inclusion *)
Lemma concept_order c A1 B1 A2 B2 : is_concept c A1 B1 -> is_concept c A2 B2 ->
  (subset A1 A2 <-> subset B2 B1).
Proof.
  intros (HA1 & HB1 & E1 & F1) (HA2 & HB2 & E2 & F2). split; intros H.
  - rewrite <- E1, <- E2. apply up_antitone. exact H.
  - rewrite <- F1, <- F2. apply up_antitone. exact H.
Qed.

Lemma subset_refl a : subset a a. Proof. intros i H; exact H. Qed.
Lemma subset_trans a b d : subset a b -> subset b d -> subset a d.
Proof. intros H1 H2 i H. apply H2, H1, H. Qed.
Lemma subset_antisym n a b : in_range n a -> in_range n b -> subset a b -> subset b a -> a = b.
Proof.
  intros Ha Hb H1 H2. apply (bitset_ext n); try assumption.
  intros i _. destruct (mem a i) eqn:E1, (mem b i) eqn:E2; try reflexivity.
  - rewrite (H1 i E1) in E2. discriminate.
  - rewrite (H2 i E2) in E1. discriminate.
Qed.

(** the meet of two closed extents is closed *)
Lemma closed_land c A1 A2 : closedO c A1 -> closedO c A2 -> closedO c (Z.land A1 A2).
Proof.
  intros [H1 C1] [H2 C2]. split; [apply in_range_land; assumption|].
  apply (subset_antisym (nG c)); [apply in_range_up|apply in_range_land; assumption| |].
  - intros i Hi. rewrite mem_land. apply andb_true_iff. split.
    + rewrite <- C1. revert Hi. apply clO_monotone. intros j Hj. rewrite mem_land in Hj. apply andb_prop in Hj. tauto.
    + rewrite <- C2. revert Hi. apply clO_monotone. intros j Hj. rewrite mem_land in Hj. apply andb_prop in Hj. tauto.
  - apply clO_extensive. apply in_range_land; assumption.
Qed.

Lemma closed_ones c : closedO c (ones (nG c)).
Proof.
  split; [apply in_range_ones|].
  apply (subset_antisym (nG c)); [apply in_range_up|apply in_range_ones| |apply clO_extensive, in_range_ones].
  intros i Hi. rewrite mem_ones. apply Nat.ltb_lt. apply (mem_lt_of_in_range _ _ _ (in_range_upM c _) Hi).
Qed.

Lemma closed_upM c B : in_range (nM c) B -> closedO c (upM c B).
Proof. intros HB. split; [apply in_range_up|]. unfold clO. apply upM_clM. exact HB. Qed.
