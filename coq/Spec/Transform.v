(** Context transformations of property C15: relabelling (row / column permutation),
    transposition, duplication of a row or column, addition of a full column. *)
From Coq Require Import ZArith List Bool.
From Concepts Require Import Base.PyInt Base.BitSet Spec.FCA Spec.Context.
Import ListNotations.
Open Scope Z_scope.

(** the image of a set under a renaming of positions *)
Definition map_set (n : nat) (finv : nat -> nat) (s : Z) : Z := of_pred n (fun i => mem s (finv i)).

(** new row k is old row (sinv k); new column j is old column (tinv j) *)
Definition perm_ctx (c : ctx) (sinv tinv : nat -> nat) : ctx :=
  mkCtx (nG c) (nM c) (map (fun k => map_set (nM c) tinv (row c (sinv k))) (seq 0 (nG c))).

Definition bijection_on (n : nat) (f finv : nat -> nat) : Prop :=
  (forall i, (i < n)%nat -> (f i < n)%nat /\ finv (f i) = i) /\
  (forall i, (i < n)%nat -> (finv i < n)%nat /\ f (finv i) = i).

Definition transpose (c : ctx) : ctx := mkCtx (nM c) (nG c) (cols c).

(** append a copy of row g / of column m / a column of crosses *)
Definition dup_row (c : ctx) (g : nat) : ctx := mkCtx (S (nG c)) (nM c) (rows c ++ [row c g]).
Definition dup_col (c : ctx) (m : nat) : ctx :=
  mkCtx (nG c) (S (nM c)) (map (fun r => if mem r m then Z.lor r (bit (nM c)) else r) (rows c)).
Definition full_col (c : ctx) : ctx :=
  mkCtx (nG c) (S (nM c)) (map (fun r => Z.lor r (bit (nM c))) (rows c)).

(** the closed extents / intents of a context, as predicates *)
Definition is_extent (c : ctx) (A : Z) : Prop := closedO c A.
Definition is_intent (c : ctx) (B : Z) : Prop := closedM c B.
