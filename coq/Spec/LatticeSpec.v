(** What a correct lattice record is: the interface between the proof of the enumeration
    (Lindig loop, Lattice.__init__) and the proofs about the query API. *)
From Coq Require Import ZArith List Bool Sorted.
From Concepts Require Import Base.Res Base.PyInt Base.BitSet Spec.FCA Spec.Context
  Model.ContextApi Model.Lattice.
Import ListNotations.
Open Scope Z_scope.

Definition key_lt (a b : key) : Prop := key_ltb a b = true.

Definition concept_at (L : lattice) (i : nat) (x : concept) : Prop := nth_error (l_concepts L) i = Some x.

Record lattice_ok (c : ctx) (L : lattice) : Prop := {
  ok_ctx : l_k L = relation_new c;
  ok_exts : l_exts L = map c_extent (l_concepts L);
  (* exactly the closed extents, once each *)
  ok_nodup : NoDup (l_exts L);
  ok_complete : forall A, In A (l_exts L) <-> closedO c A;
  ok_intent : forall i x, concept_at L i x -> c_intent x = upO c (c_extent x);
  ok_index : forall i x, concept_at L i x -> c_index x = i;
  (* canonical order *)
  ok_sorted : StronglySorted (fun a b => key_lt (shortlex (nG c) a) (shortlex (nG c) b)) (l_exts L);
  ok_dindex : forall i x j y, concept_at L i x -> concept_at L j y ->
      ((c_dindex x < c_dindex y)%nat <-> key_lt (longlex (nG c) (c_extent x)) (longlex (nG c) (c_extent y)));
  ok_dindex_range : forall i x, concept_at L i x -> (c_dindex x < length (l_concepts L))%nat;
  (* neighbour links = covering relation, sorted *)
  ok_upper : forall i x j, concept_at L i x ->
      (In j (c_upper x) <-> exists y, concept_at L j y /\ covers c (c_extent x) (c_extent y));
  ok_lower : forall i x j, concept_at L i x ->
      (In j (c_lower x) <-> exists y, concept_at L j y /\ covers c (c_extent y) (c_extent x));
  ok_upper_sorted : forall i x, concept_at L i x ->
      StronglySorted (fun a b => key_lt (shortlex (nG c) (nth_extent (l_exts L) a))
                                        (shortlex (nG c) (nth_extent (l_exts L) b))) (c_upper x);
  ok_lower_sorted : forall i x, concept_at L i x ->
      StronglySorted (fun a b => key_lt (longlex (nG c) (nth_extent (l_exts L) a))
                                        (longlex (nG c) (nth_extent (l_exts L) b))) (c_lower x);
  (* reduced labelling and atoms *)
  ok_objects : forall i x o, concept_at L i x ->
      (In o (c_objects x) <-> (o < nG c)%nat /\ c_extent x = clO c (bit o));
  ok_objects_sorted : forall i x, concept_at L i x -> StronglySorted lt (c_objects x);
  ok_properties : forall i x p, concept_at L i x ->
      (In p (c_properties x) <-> (p < nM c)%nat /\ c_extent x = upM c (bit p));
  ok_properties_sorted : forall i x, concept_at L i x -> StronglySorted lt (c_properties x);
  ok_atoms : forall i x a, concept_at L i x ->
      (In a (c_atoms x) <-> exists y, concept_at L a y /\ covers c (clO c 0) (c_extent y)
                                      /\ subset (c_extent y) (c_extent x))
}.
