(** The mathematics the properties talk about: a boolean table, its two derivation
    operators (defined by comprehension, not by the loops of the code), closure, formal
    concepts, order, covers.  Everything is proved once for a generic incidence relation
    and instantiated for both axes. *)
From Coq Require Import ZArith List Bool Lia.
From Concepts Require Import Base.PyInt Base.BitSet.
Import ListNotations.
Open Scope Z_scope.

(** * generic derivation *)
Section Derivation.
  Variables (nX nY : nat) (R : nat -> nat -> bool).

  (** { y < nY | forall x < nX, x in A -> R x y } *)
  Definition up (A : Z) : Z :=
    of_pred nY (fun y => forallb (fun x => implb (mem A x) (R x y)) (seq 0 nX)).

  Lemma mem_up A y :
    mem (up A) y = true <-> (y < nY)%nat /\ forall x, (x < nX)%nat -> mem A x = true -> R x y = true.
  Proof.
    unfold up. rewrite mem_of_pred, andb_true_iff, Nat.ltb_lt, forallb_forall.
    split; intros [Hy H]; split; try exact Hy.
    - intros x Hx Hm. specialize (H x). rewrite Hm in H. cbn in H. apply H. apply in_seq. lia.
    - intros x Hx. apply in_seq in Hx. destruct (mem A x) eqn:E; cbn; [apply H; [lia|exact E]|reflexivity].
  Qed.

  Lemma in_range_up A : in_range nY (up A).
  Proof. apply in_range_of_pred. Qed.

  Lemma up_antitone A1 A2 : subset A1 A2 -> subset (up A2) (up A1).
  Proof.
    intros H y Hy. apply mem_up in Hy. destruct Hy as [Hy Hall]. apply mem_up. split; [exact Hy|].
    intros x Hx Hm. apply Hall; [exact Hx|apply H; exact Hm].
  Qed.

  Lemma up_ext A1 A2 : (forall x, (x < nX)%nat -> mem A1 x = mem A2 x) -> up A1 = up A2.
  Proof.
    intros H. apply (bitset_ext nY); try apply in_range_up.
    intros y Hy. destruct (mem (up A1) y) eqn:E1, (mem (up A2) y) eqn:E2; try reflexivity.
    - apply mem_up in E1. destruct E1 as [_ E1].
      assert (mem (up A2) y = true) as E3; [|congruence].
      apply mem_up. split; [exact Hy|]. intros x Hx Hm. apply E1; [exact Hx|]. rewrite H; assumption.
    - apply mem_up in E2. destruct E2 as [_ E2].
      assert (mem (up A1) y = true) as E3; [|congruence].
      apply mem_up. split; [exact Hy|]. intros x Hx Hm. apply E2; [exact Hx|]. rewrite <- H; assumption.
  Qed.

  Lemma up_0 : up 0 = ones nY.
  Proof.
    apply (bitset_ext nY); [apply in_range_up|apply in_range_ones|].
    intros y Hy. rewrite mem_ones. destruct (Nat.ltb_spec y nY); [|lia].
    apply mem_up. split; [exact Hy|]. intros x _ Hm. rewrite mem_0 in Hm. discriminate.
  Qed.

  Lemma up_lor A1 A2 : up (Z.lor A1 A2) = Z.land (up A1) (up A2).
  Proof.
    apply (bitset_ext nY); [apply in_range_up|apply in_range_land; apply in_range_up|].
    intros y Hy. rewrite mem_land.
    destruct (mem (up (Z.lor A1 A2)) y) eqn:E.
    - apply mem_up in E. destruct E as [_ E]. symmetry. apply andb_true_iff. split; apply mem_up; (split; [exact Hy|]);
        intros x Hx Hm; apply E; try exact Hx; rewrite mem_lor, Hm; auto using orb_true_r.
    - destruct (mem (up A1) y) eqn:E1, (mem (up A2) y) eqn:E2; try reflexivity.
      apply mem_up in E1, E2. destruct E1 as [_ E1], E2 as [_ E2].
      assert (mem (up (Z.lor A1 A2)) y = true) as E3; [|congruence].
      apply mem_up. split; [exact Hy|]. intros x Hx Hm. rewrite mem_lor in Hm.
      apply orb_true_iff in Hm. destruct Hm; [apply E1|apply E2]; assumption.
  Qed.
End Derivation.

Definition flipR (R : nat -> nat -> bool) : nat -> nat -> bool := fun y x => R x y.

Section Galois.
  Variables (nX nY : nat) (R : nat -> nat -> bool).
  Notation upX := (up nX nY R).
  Notation upY := (up nY nX (flipR R)).

  Lemma galois A B : in_range nX A -> in_range nY B -> (subset A (upY B) <-> subset B (upX A)).
  Proof.
    intros HA HB. split; intros H.
    - intros y Hy. apply mem_up. split; [apply (mem_lt_of_in_range _ _ _ HB Hy)|].
      intros x Hx Hm. specialize (H x Hm). apply mem_up in H. destruct H as [_ H].
      apply (H y); [apply (mem_lt_of_in_range _ _ _ HB Hy)|exact Hy].
    - intros x Hx. apply mem_up. split; [apply (mem_lt_of_in_range _ _ _ HA Hx)|].
      intros y Hy Hm. specialize (H y Hm). apply mem_up in H. destruct H as [_ H].
      apply (H x); [apply (mem_lt_of_in_range _ _ _ HA Hx)|exact Hx].
  Qed.

  Lemma cl_extensive A : in_range nX A -> subset A (upY (upX A)).
  Proof. intros HA. apply galois; [exact HA|apply in_range_up|]. intros y Hy; exact Hy. Qed.

  Lemma up_cl A : in_range nX A -> upX (upY (upX A)) = upX A.
  Proof.
    intros HA. apply (bitset_ext nY); try apply in_range_up.
    intros y Hy.
    destruct (mem (upX (upY (upX A))) y) eqn:E1, (mem (upX A) y) eqn:E2; try reflexivity.
    - assert (mem (upX A) y = true); [|congruence].
      revert E1. apply up_antitone. apply cl_extensive. exact HA.
    - assert (mem (upX (upY (upX A))) y = true); [|congruence].
      assert (Hsub : subset (upX A) (upX (upY (upX A)))).
      { intros z Hz. apply mem_up. split; [apply (mem_lt_of_in_range _ _ _ (in_range_up _ _ _ _) Hz)|].
        intros x Hx Hm. apply mem_up in Hm. destruct Hm as [_ Hm]. unfold flipR in Hm.
        apply Hm; [apply (mem_lt_of_in_range _ _ _ (in_range_up _ _ _ _) Hz)|exact Hz]. }
      apply Hsub. exact E2.
  Qed.
End Galois.
