(** Correspondence for C12: dumped text byte for byte, loader outcomes on dumps, on
    independently written variants and on malformed text, .dat exports, format inference. *)
From Coq Require Import ZArith List Bool.
From Concepts Require Import Base.Res Model.Formats Run.Common.
Import ListNotations.
Open Scope Z_scope.

Definition outcome := (Z * list str * list str * list (list bool))%type.

Inductive input :=
| DumpTable (indent : nat) (o p : list str) (b : list (list bool)) (text : str)
| DumpCxt (o p : list str) (b : list (list bool)) (text : str)
| DumpCsv (as_int : bool) (o p : list str) (b : list (list bool)) (text : str)
| DumpFimi (b : list (list bool)) (text : str)
| DumpDat (rows : list (list nat)) (text : str)
| DumpWiki (o p : list str) (b : list (list bool)) (text : str)
| LoadTable (src : str) (out : outcome)
| LoadCxt (src : str) (out : outcome)
| LoadCsv (as_int : option bool) (src : str) (out : outcome)
| ReadDat (src : str) (tag : Z) (rows : list (list nat))
| Infer (suffix : str) (tag : Z) (name : str).

Definition case := input.

Definition strs_eqb := list_eqb zs_eqb.
Definition bools_eqb := list_eqb (list_eqb Bool.eqb).

Definition tag_of (e : exn) : Z := exn_tag e.

Definition outcome_ok (r : res (list str * list str * list (list bool))) (out : outcome) : bool :=
  let '(tag, o, p, b) := out in
  match r with
  | Ok (o', p', b') => (tag =? 0) && strs_eqb o' o && strs_eqb p' p && bools_eqb b' b
  | Raise e => tag =? tag_of e
  end.

Definition check (c : case) : list nat :=
  let ok :=
    match c with
    | DumpTable i o p b t => zs_eqb (dump_table i o p b) t
    | DumpCxt o p b t => zs_eqb (dump_cxt o p b) t
    | DumpCsv a o p b t => zs_eqb (dump_csv a o p b) t
    | DumpFimi b t => zs_eqb (dump_fimi b) t
    | DumpDat rows t => zs_eqb (dump_dat rows) t
    | DumpWiki o p b t => zs_eqb (dump_wikitable o p b) t
    | LoadTable s out => outcome_ok (load_table s) out
    | LoadCxt s out => outcome_ok (load_cxt s) out
    | LoadCsv a s out => outcome_ok (load_csv a s) out
    | ReadDat s tag rows =>
        match read_dat s with
        | Ok r => (tag =? 0) && list_eqb nats_eqb r rows
        | Raise e => tag =? tag_of e
        end
    | Infer s tag name =>
        match format_of_suffix s with
        | Ok n => (tag =? 0) && zs_eqb n name
        | Raise e => tag =? tag_of e
        end
    end in
  if ok then [] else [0%nat].
