(** Correspondence for C11: todict encoding; every reloaded object is observed like a
    computed one (order, links, labels, atoms) and must agree with the model of the original. *)
From Coq Require Import ZArith List Bool.
From Concepts Require Import Base.Res Base.PyInt Base.BitSet Spec.Context Model.ContextApi Model.Lattice
  Model.LatticeApi Model.Persist Run.Common Run.ObsLat.
Import ListNotations.
Open Scope Z_scope.

(* per concept: objects, properties, atoms *)
Definition labels_obs := list (list nat * list nat * list nat).
(* one reloaded object: context rows (as index sets), lattice observation (None when the reloaded context carries no stored lattice
   and was not asked for one), labels *)
Definition reload_obs := (list (list nat) * option (ObsLat.obs_C06 * labels_obs))%type.
(* serialisations fed to the model's _fromlist: (entries, raw) and the observation of the implementation's result *)
Definition fromlist_obs := (list lat_entry * bool * (ObsLat.obs_C06 * labels_obs))%type.
(* context, fuel, todict()['context'], todict()['lattice'], reloaded objects, fromlist cases *)
Definition case := (ctx * nat * list (list nat) * list lat_entry * list reload_obs * list fromlist_obs)%type.

Definition entry_eqb (a b : lat_entry) : bool :=
  let '(e1, i1, u1, l1) := a in let '(e2, i2, u2, l2) := b in
  nats_eqb e1 e2 && nats_eqb i1 i2 && nats_eqb u1 u2 && nats_eqb l1 l2.

Definition labels_ok (L : lattice) (obs : labels_obs) : bool :=
  Nat.eqb (length obs) (length (l_concepts L)) &&
  forallb (fun '(x, (o, p, a)) => nats_eqb (c_objects x) o && nats_eqb (c_properties x) p && nats_eqb (c_atoms x) a)
          (combine (l_concepts L) obs).

Definition lattice_obs_ok (L : lattice) (o : ObsLat.obs_C06 * labels_obs) : bool :=
  ObsLat.check_one_C06 L (fst o) && labels_ok L (snd o).

Definition check (cs : case) : list nat :=
  let '(c, fuel, ctx_sets, lat, reloads, fromlists) := cs in
  let k := relation_new c in
  with_lattice c fuel (fun L =>
    (if list_eqb nats_eqb (context_index_sets k) ctx_sets then [] else [4001%nat])
    ++ (if list_eqb entry_eqb (tolist L) lat then [] else [4002%nat])
    ++ bad_items (fun '(sets, o) =>
          list_eqb nats_eqb (context_index_sets k) sets
          && match o with None => true | Some ob => lattice_obs_ok L ob end) reloads
    ++ map (fun i => (length reloads + i)%nat)
         (bad_items (fun '(entries, raw, ob) =>
            match fromlist (dfuel_of c) k entries raw with
            | Ok L' => lattice_obs_ok L' ob && lattice_obs_ok L ob
            | Raise _ => false
            end) fromlists)).
