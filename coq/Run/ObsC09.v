From Concepts Require Import Run.ObsLat.
Definition case := ObsLat.case_C09.
Definition check := ObsLat.check_C09.
