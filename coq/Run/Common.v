(** Helpers for the correspondence shards: boolean comparers and failure collection. *)
From Coq Require Import ZArith List Bool.
From Concepts Require Import Base.Res.
Import ListNotations.
Open Scope Z_scope.

Fixpoint failing_from {C} (check : C -> list nat) (cases : list C) (i : nat) : list (nat * list nat) :=
  match cases with
  | [] => []
  | c :: cs =>
      match check c with
      | [] => failing_from check cs (S i)
      | l => (i, l) :: failing_from check cs (S i)
      end
  end.
Definition failing {C} (check : C -> list nat) (cases : list C) : list (nat * list nat) :=
  failing_from check cases 0.

(** indices of the items on which [f] is false *)
Fixpoint bad_from {A} (f : A -> bool) (xs : list A) (i : nat) : list nat :=
  match xs with
  | [] => []
  | x :: xs' => if f x then bad_from f xs' (S i) else i :: bad_from f xs' (S i)
  end.
Definition bad_items {A} (f : A -> bool) (xs : list A) : list nat := bad_from f xs 0.

Fixpoint list_eqb {A} (eqb : A -> A -> bool) (xs ys : list A) : bool :=
  match xs, ys with
  | [], [] => true
  | x :: xs', y :: ys' => eqb x y && list_eqb eqb xs' ys'
  | _, _ => false
  end.

Definition pair_eqb {A B} (ea : A -> A -> bool) (eb : B -> B -> bool) (p q : A * B) : bool :=
  ea (fst p) (fst q) && eb (snd p) (snd q).

Definition option_eqb {A} (ea : A -> A -> bool) (p q : option A) : bool :=
  match p, q with
  | Some a, Some b => ea a b
  | None, None => true
  | _, _ => false
  end.

Definition nats_eqb := list_eqb Nat.eqb.
Definition zs_eqb := list_eqb Z.eqb.

Lemma list_eqb_spec {A} (eqb : A -> A -> bool) :
  (forall a b, eqb a b = true <-> a = b) -> forall xs ys, list_eqb eqb xs ys = true <-> xs = ys.
Proof.
  intros H. induction xs as [|x xs IH]; destruct ys as [|y ys]; cbn; split; intros E;
    try reflexivity; try discriminate.
  - apply andb_prop in E. destruct E as [E1 E2]. apply H in E1. apply IH in E2. congruence.
  - injection E as -> ->. apply andb_true_iff. split; [apply H; reflexivity|apply IH; reflexivity].
Qed.

Lemma nats_eqb_spec xs ys : nats_eqb xs ys = true <-> xs = ys.
Proof. apply list_eqb_spec. intros; apply Nat.eqb_eq. Qed.
Lemma zs_eqb_spec xs ys : zs_eqb xs ys = true <-> xs = ys.
Proof. apply list_eqb_spec. intros; apply Z.eqb_eq. Qed.

(** exception tag used by the harness: 0 ok, 1 KeyError, 2 ValueError, 3 IndexError, 9 other *)
Definition exn_tag (e : exn) : Z :=
  match e with KeyError => 1 | ValueError => 2 | IndexError => 3 | TypeError => 4
             | StopIteration => 5 | OutOfFuel => 99 end.

Definition pack (bs : list bool) : Z :=
  fold_right (fun (b : bool) acc => (if b then 1 else 0) + 2 * acc) 0 bs.

Fixpoint forall2b {A B} (f : A -> B -> bool) (xs : list A) (ys : list B) : bool :=
  match xs, ys with
  | [], [] => true
  | x :: xs', y :: ys' => f x y && forall2b f xs' ys'
  | _, _ => false
  end.
