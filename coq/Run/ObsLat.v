(** Correspondence checks for the lattice family of properties. *)
From Coq Require Import ZArith List Bool.
From Concepts Require Import Base.Res Base.PyInt Base.BitSet Spec.Context Model.Matrices
  Model.ContextApi Model.Members Model.Lattice Model.LatticeApi Run.Common.
Import ListNotations.
Open Scope Z_scope.

Definition dfuel_of (c : ctx) : nat := S (Nat.max (nG c) (nM c)).

Definition with_lattice (c : ctx) (fuel : nat) (f : lattice -> list nat) : list nat :=
  match build_lattice fuel (dfuel_of c) (relation_new c) with
  | Ok L => f L
  | Raise _ => [4888%nat]
  end.

Definition res_nat_eqb (r : res nat) (tag : Z) (v : nat) : bool :=
  match r with Ok x => (tag =? 0) && Nat.eqb x v | Raise e => tag =? exn_tag e end.
Definition res_nats_eqb (r : res (list nat)) (tag : Z) (v : list nat) : bool :=
  match r with Ok x => (tag =? 0) && nats_eqb x v | Raise e => tag =? exn_tag e end.

Fixpoint strictly_increasing (l : list Z) : bool :=
  match l with
  | a :: ((b :: _) as r) => (a <? b) && strictly_increasing r
  | _ => true
  end.

Fixpoint insert_nat (x : nat) (l : list nat) : list nat :=
  match l with [] => [x] | y :: r => if Nat.leb x y then x :: l else y :: insert_nat x r end.
Definition sort_nat (l : list nat) : list nat := fold_left (fun acc x => insert_nat x acc) l [].

(** ** C03: the concepts as a set, each once; len *)
(* context, fuel (concepts observed + 2), observed (extent, intent) pairs sorted by extent, observed len *)
Definition case_C03 := (ctx * nat * list (Z * Z) * nat)%type.
Definition check_C03 (cs : case_C03) : list nat :=
  let '(c, fuel, obs, obslen) := cs in
  with_lattice c fuel (fun L =>
    let model := map (fun x => (c_extent x, c_intent x)) (l_concepts L) in
    (if Nat.eqb (length model) (length obs) && Nat.eqb obslen (length obs) then [] else [4001%nat])
    ++ (if strictly_increasing (map fst obs) then [] else [4002%nat])
    ++ bad_items (fun '(e, i) => match find (fun p => fst p =? e) model with
                                 | Some (_, i') => i' =? i | None => false end) obs).

(** ** C05: neighbour links as sets, Context.neighbors *)
(* per concept (in iteration order): extent, sorted upper indices, sorted lower indices;
   neighbour queries: object list, tag, (extent, intent) pairs sorted by extent *)
Definition case_C05 := (ctx * nat * list (Z * list nat * list nat) * list (list nat * Z * list (Z * Z)))%type.

Fixpoint insert_pair (x : Z * Z) (l : list (Z * Z)) : list (Z * Z) :=
  match l with [] => [x] | y :: r => if fst x <=? fst y then x :: l else y :: insert_pair x r end.
Definition sort_pairs (l : list (Z * Z)) : list (Z * Z) := fold_left (fun acc x => insert_pair x acc) l [].

Definition check_C05 (cs : case_C05) : list nat :=
  let '(c, fuel, obs, queries) := cs in
  let k := relation_new c in
  with_lattice c fuel (fun L =>
    (if Nat.eqb (length obs) (length (l_concepts L)) then [] else [4001%nat])
    ++ bad_items (fun '(e, up, lo) =>
          match index_of (l_exts L) e 0 with
          | Some i => let x := get_concept L i in
                      nats_eqb (sort_nat (c_upper x)) up && nats_eqb (sort_nat (c_lower x)) lo
          | None => false
          end) obs
    ++ map (fun i => (length obs + i)%nat)
         (bad_items (fun '(gs, tag, pairs) =>
            match context_neighbors (dfuel_of c) k gs with
            | Ok l => (tag =? 0) && list_eqb (pair_eqb Z.eqb Z.eqb) (sort_pairs l) pairs
            | Raise e => tag =? exn_tag e
            end) queries)).

(** ** C06: canonical order *)
(* several observed lattices of the same context (computed; reloaded from permuted
   serialisations with raw=True): per concept in iteration order: extent, index, dindex,
   upper tuple, lower tuple; infimum, supremum, atoms *)
Definition obs_C06 := (list (Z * nat * nat * list nat * list nat) * (nat * nat * list nat))%type.
Definition case_C06 := (ctx * nat * list obs_C06)%type.
Definition check_one_C06 (L : lattice) (o : obs_C06) : bool :=
  let '(obs, (inf, sup, atoms)) := o in
  Nat.eqb (length obs) (length (l_concepts L))
  && Nat.eqb inf 0 && Nat.eqb sup (supremum_index L) && nats_eqb atoms (c_upper (get_concept L 0))
  && forallb (fun '(x, (e, idx, didx, up, lo)) =>
          (c_extent x =? e) && Nat.eqb (c_index x) idx && Nat.eqb (c_dindex x) didx
          && nats_eqb (c_upper x) up && nats_eqb (c_lower x) lo) (combine (l_concepts L) obs).
Definition check_C06 (cs : case_C06) : list nat :=
  let '(c, fuel, obss) := cs in
  with_lattice c fuel (fun L => bad_items (check_one_C06 L) obss).

(** ** C02: lookups *)
(* context queries: items, tag, extent, intent (raw), extent members, intent members;
   lattice queries: kind (0 getitem items / 1 call props), items, tag, index *)
Definition case_C02 := (ctx * nat * list (list (nat + nat) * Z * (Z * Z) * (list nat * list nat))
                        * list (list (nat + nat) * bool * Z * nat))%type.
Definition check_C02 (cs : case_C02) : list nat :=
  let '(c, fuel, cq, lq) := cs in
  let k := relation_new c in
  let d := dfuel_of c in
  bad_items (fun '(items, tag, (e, i), (em, im)) =>
      match getitem_raw d k items with
      | Ok (e', i') => (tag =? 0) && (e' =? e) && (i' =? i) && nats_eqb (indexes e') em && nats_eqb (indexes i') im
      | Raise ex => tag =? exn_tag ex
      end) cq
  ++ with_lattice c fuel (fun L =>
       map (fun i => (length cq + i)%nat)
         (bad_items (fun '(items, is_call, tag, idx) =>
            let r := if is_call : bool
                     then lattice_call d L (map (fun it => match it with inl g => g | inr m => m end) items)
                     else lattice_getitem d L items in
            res_nat_eqb r tag idx) lq)).

(** ** C07: join / meet *)
(* n-ary queries: is_join, concept indices, tag, result index;  binary: is_join, i, j, tag, result *)
Definition case_C07 := (ctx * nat * list (bool * list nat * Z * nat) * list (bool * nat * nat * Z * nat))%type.
Definition check_C07 (cs : case_C07) : list nat :=
  let '(c, fuel, nary, binary) := cs in
  let d := dfuel_of c in
  with_lattice c fuel (fun L =>
    bad_items (fun '(is_join, args, tag, r) =>
       res_nat_eqb (if is_join : bool then lattice_join d L args else lattice_meet d L args) tag r) nary
    ++ map (fun i => (length nary + i)%nat)
       (bad_items (fun '(is_join, i, j, tag, r) =>
          res_nat_eqb (if is_join : bool then concept_join d L i j else concept_meet d L i j) tag r) binary)).

(** ** C09: traversals *)
(* kind: 0 upset(i) 1 downset(i) 2 upset_union 3 downset_union; args; tag; result indices in order *)
Definition case_C09 := (ctx * nat * nat * list (Z * list nat * Z * list nat))%type.
Definition check_C09 (cs : case_C09) : list nat :=
  let '(c, fuel, ifuel, qs) := cs in
  with_lattice c fuel (fun L =>
    bad_items (fun '(kind, args, tag, r) =>
      let f := (ifuel + length args)%nat in
      let m := if kind =? 0 then upset f L (hd 0%nat args)
               else if kind =? 1 then downset f L (hd 0%nat args)
               else if kind =? 2 then upset_union f L args
               else downset_union f L args in
      res_nats_eqb m tag r) qs).

(** ** C10: reduced labelling and atoms *)
(* per concept in iteration order: objects, properties, atoms *)
Definition case_C10 := (ctx * nat * list (list nat * list nat * list nat))%type.
Definition check_C10 (cs : case_C10) : list nat :=
  let '(c, fuel, obs) := cs in
  with_lattice c fuel (fun L =>
    (if Nat.eqb (length obs) (length (l_concepts L)) then [] else [4001%nat])
    ++ bad_items (fun '(x, (o, p, a)) =>
          nats_eqb (c_objects x) o && nats_eqb (c_properties x) p && nats_eqb (c_atoms x) a)
        (combine (l_concepts L) obs)).

(** ** C18: attributes / minimal *)
(* per concept index: tag, attributes lists, tag, minimal *)
Definition case_C18 := (ctx * nat * list (nat * Z * list (list nat) * Z * list nat))%type.
Definition check_C18 (cs : case_C18) : list nat :=
  let '(c, fuel, obs) := cs in
  let d := dfuel_of c in
  with_lattice c fuel (fun L =>
    bad_items (fun '(i, tag, attrs, tag2, mini) =>
      (match attributes d L i with
       | Ok l => (tag =? 0) && list_eqb nats_eqb l attrs
       | Raise e => tag =? exn_tag e end)
      && res_nats_eqb (minimal d L i) tag2 mini) obs).

(** ** C20: DOT body as parsed statements *)
(* 0 node i; 1 head-label i objs; 2 tail-label i props; 3 edge i j *)
Definition case_C20 := (ctx * nat * list (Z * nat * list nat))%type.
Definition dot_eqb (s : dot_stmt) (o : Z * nat * list nat) : bool :=
  let '(kind, i, l) := o in
  match s with
  | DNode a => (kind =? 0) && Nat.eqb a i && nats_eqb l []
  | DHead a objs => (kind =? 1) && Nat.eqb a i && nats_eqb l objs
  | DTail a props => (kind =? 2) && Nat.eqb a i && nats_eqb l props
  | DEdge a b => (kind =? 3) && Nat.eqb a i && nats_eqb l [b]
  end.
Definition check_C20 (cs : case_C20) : list nat :=
  let '(c, fuel, obs) := cs in
  with_lattice c fuel (fun L =>
    let body := dot_body L in
    (if Nat.eqb (length obs) (length body) then [] else [4001%nat])
    ++ bad_items (fun '(s, o) => dot_eqb s o) (combine body obs)).
