From Concepts Require Import Run.ObsLat.
Definition case := ObsLat.case_C02.
Definition check := ObsLat.check_C02.
