From Concepts Require Import Run.ObsDef.
Definition case := ObsDef.case.
Definition check := ObsDef.check.
