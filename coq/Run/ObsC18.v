From Concepts Require Import Run.ObsLat.
Definition case := ObsLat.case_C18.
Definition check := ObsLat.check_C18.
