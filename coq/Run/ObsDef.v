(** Correspondence for C13 / C14 / C17: histories of the Definition machine.  After every
    step the harness observes, for EVERY live handle, the (objects, properties, bools) triple
    and whether the definition equals a fresh one built from its own triple; plus the return
    value / exception of the call. *)
From Coq Require Import ZArith List Bool.
From Concepts Require Import Base.Res Model.Definition Run.Common.
Import ListNotations.
Open Scope Z_scope.

Definition obs_handle := (list nat * list nat * list (list bool) * bool)%type.
(* tag (0 ok / exception tag), returned names (for the remove_empty calls), all handles *)
Definition obs_step := (Z * list nat * list obs_handle)%type.
Definition case := (list (op * obs_step))%type.

Definition bools_eqb := list_eqb (list_eqb Bool.eqb).

Definition handle_eqb (d : defn) (o : obs_handle) : bool :=
  let '(objs, props, bools, fresh) := o in
  nats_eqb (objects_of d) objs && nats_eqb (properties_of d) props && bools_eqb (bools_of d) bools
  && Bool.eqb (eq_fresh d) fresh.

Definition step_eqb (s : store) (r : res ret) (o : obs_step) : bool :=
  let '(tag, names, handles) := o in
  (match r with
   | Ok RNone | Ok (RHandle _) => (tag =? 0) && nats_eqb names []
   | Ok (RNames l) => (tag =? 0) && nats_eqb names l
   | Raise e => tag =? exn_tag e
   end)
  && forall2b handle_eqb s handles.

Fixpoint run (s : store) (h : list (op * obs_step)) (i : nat) : list nat :=
  match h with
  | [] => []
  | (o, ob) :: r =>
      let '(s', res) := step_total s o in
      if step_eqb s' res ob then run s' r (S i) else [i]    (* stop at the first disagreement *)
  end.

Definition check (c : case) : list nat := run [] c 0.
