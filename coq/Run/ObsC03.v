From Concepts Require Import Run.ObsLat.
Definition case := ObsLat.case_C03.
Definition check := ObsLat.check_C03.
