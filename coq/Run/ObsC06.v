From Concepts Require Import Run.ObsLat.
Definition case := ObsLat.case_C06.
Definition check := ObsLat.check_C06.
