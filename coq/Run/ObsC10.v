From Concepts Require Import Run.ObsLat.
Definition case := ObsLat.case_C10.
Definition check := ObsLat.check_C10.
