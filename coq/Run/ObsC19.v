(** Correspondence for C19: validation by Context(...) and Context.fromdict. *)
From Coq Require Import ZArith List Bool.
From Concepts Require Import Base.Res Base.PyInt Base.BitSet Spec.Context Model.Validation Run.Common.
Import ListNotations.
Open Scope Z_scope.

(* observed outcome: tag, objects, properties, rows (ints), lattice loaded *)
Definition outcome := (Z * list nat * list nat * list Z * bool)%type.

Inductive input :=
| InInit (objs props : list nat) (bools : list (list pyval))
| InDict (d : pydict) (ignore_lattice require_lattice : bool).

Definition case := (input * outcome)%type.

Definition check (cs : case) : list nat :=
  let '(inp, (tag, objs, props, rows_obs, lat)) := cs in
  let ok :=
    match inp with
    | InInit o p b =>
        match context_init o p b with
        | Ok (o', p', c) => (tag =? 0) && nats_eqb o' objs && nats_eqb p' props && zs_eqb (rows c) rows_obs
        | Raise e => tag =? exn_tag e
        end
    | InDict d ig rq =>
        match fromdict d ig rq with
        | Ok (o', p', c, l) => (tag =? 0) && nats_eqb o' objs && nats_eqb p' props && zs_eqb (rows c) rows_obs
                               && Bool.eqb l lat
        | Raise e => tag =? exn_tag e
        end
    end in
  if ok then [] else [0%nat].
