From Concepts Require Import Run.ObsLat.
Definition case := ObsLat.case_C05.
Definition check := ObsLat.check_C05.
