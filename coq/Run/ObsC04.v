(** Correspondence for C04: the FCbO generators (multiset of pairs; emission order as a diagnostic). *)
From Coq Require Import ZArith List Bool.
From Concepts Require Import Base.Res Base.PyInt Base.BitSet Spec.Context Model.ContextApi Model.Fcbo Model.Lattice Run.Common Run.ObsLat.
Import ListNotations.
Open Scope Z_scope.

(* context, fuel, for each generator (fast_generate_from, fcbo_dual, get_concepts, iterconcepts):
   tag and the emitted pairs in emission order; finally the lattice's pairs sorted *)
Definition case := (ctx * nat * list (Z * Z * list (Z * Z)))%type.

Fixpoint insert_p (x : Z * Z) (l : list (Z * Z)) : list (Z * Z) :=
  match l with
  | [] => [x]
  | y :: r => if (fst x <? fst y) || ((fst x =? fst y) && (snd x <=? snd y)) then x :: l else y :: insert_p x r
  end.
Definition sort_p (l : list (Z * Z)) : list (Z * Z) := fold_left (fun acc x => insert_p x acc) l [].

Definition pairs_eqb := list_eqb (pair_eqb Z.eqb Z.eqb).

(* which: 0 primal-based generators, 1 dual *)
Definition check (cs : case) : list nat :=
  let '(c, fuel, gens) := cs in
  let k := relation_new c in
  let d := dfuel_of c in
  bad_items (fun '(which, tag, obs) =>
    let m := if which =? 1 then fcbo_dual fuel d k else fast_generate_from fuel d k in
    match m with
    | Ok l => (tag =? 0) && pairs_eqb (sort_p l) (sort_p obs)
    | Raise e => tag =? exn_tag e
    end) gens.
