(** Correspondence for C15: the library run on contexts obtained through the Definition API
    (move, transposed, add operations) from a base context; the expected transformed table is
    computed by the harness; concepts, covers, joins/meets, relations and the order predicates / operators on all ordered
    pairs of concepts (diagonal included) are compared with the model. *)
From Coq Require Import ZArith List Bool.
From Concepts Require Import Base.Res Spec.Context Run.Common Run.ObsLat Run.ObsC16 Run.ObsC08 Run.ObsC04.
Import ListNotations.
Open Scope Z_scope.

Definition case := (ObsLat.case_C03 * ObsLat.case_C05 * ObsLat.case_C07 * ObsC16.case * ObsC08.case * ObsC04.case)%type.

Definition check (cs : case) : list nat :=
  let '(a, b, c, d, e, f) := cs in
  (match ObsLat.check_C03 a with [] => [] | _ => [0%nat] end)
  ++ (match ObsLat.check_C05 b with [] => [] | _ => [1%nat] end)
  ++ (match ObsLat.check_C07 c with [] => [] | _ => [2%nat] end)
  ++ (match ObsC16.check d with [] => [] | _ => [3%nat] end)
  ++ (match ObsC08.check e with [] => [] | _ => [4%nat] end)
  ++ (match ObsC04.check f with [] => [] | _ => [5%nat] end).
