(** Correspondence for the shape / fill_ratio clause of C14: a definition built from a triple, the context built from
    it, and the definition got back from the context; observed: the two shapes and the three fractions (numerator,
    denominator; None = the call raised). *)
From Coq Require Import ZArith List Bool.
From Concepts Require Import Base.Res Spec.Context Model.Definition Model.Validation Model.Stats Run.Common.
Import ListNotations.
Open Scope Z_scope.

Definition obs := ((nat * nat) * option (Z * Z) * option ((nat * nat) * option (Z * Z)))%type.
Definition case := (list nat * list nat * list (list bool) * obs)%type.

Definition frac_eqb (a b : option (Z * Z)) : bool :=
  match a, b with
  | None, None => true
  | Some (x, y), Some (u, v) => (x =? u) && (y =? v)
  | _, _ => false
  end.
Definition shape_eqb (a b : nat * nat) : bool := Nat.eqb (fst a) (fst b) && Nat.eqb (snd a) (snd b).

Definition expected (objs props : list nat) (bools : list (list bool)) : option obs :=
  match d_init objs props bools with
  | Raise _ => None
  | Ok d =>
      let cpart :=
        match context_init (objects_of d) (properties_of d) (map (map VBool) (bools_of d)) with
        | Ok (_, _, c) => Some (ctx_shape c, ctx_fill_ratio c)
        | Raise _ => None
        end in
      Some (def_shape d, def_fill_ratio d, cpart)
  end.

Definition check (c : case) : list nat :=
  let '(objs, props, bools, (dshape, dratio, cpart)) := c in
  match expected objs props bools with
  | None => [0%nat]
  | Some (es, er, ec) =>
      (if shape_eqb es dshape then [] else [1%nat])
      ++ (if frac_eqb er dratio then [] else [2%nat])
      ++ (match ec, cpart with
          | None, None => []
          | Some (s1, r1), Some (s2, r2) => (if shape_eqb s1 s2 then [] else [3%nat]) ++ (if frac_eqb r1 r2 then [] else [4%nat])
          | _, _ => [5%nat]
          end)
  end.
