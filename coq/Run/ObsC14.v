(** C14 cases: histories of the Definition machine (Run/ObsDef.v) or shape / fill_ratio observations (Run/ObsStats.v). *)
From Coq Require Import List.
From Concepts Require Import Run.ObsDef Run.ObsStats.
Import ListNotations.
Definition case := (ObsDef.case + ObsStats.case)%type.
Definition check (c : case) : list nat :=
  match c with
  | inl h => ObsDef.check h
  | inr s => ObsStats.check s
  end.
