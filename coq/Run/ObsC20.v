From Concepts Require Import Run.ObsLat.
Definition case := ObsLat.case_C20.
Definition check := ObsLat.check_C20.
