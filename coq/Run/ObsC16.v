(** Correspondence for C16: Context.relations(). *)
From Coq Require Import ZArith List Bool.
From Concepts Require Import Base.Res Base.PyInt Base.BitSet Spec.Context Model.Lattice Model.Junctors Run.Common.
Import ListNotations.
Open Scope Z_scope.

Definition obs_entry := (list Z * nat * option nat * Z)%type.
(* context, tag + entries without unary, tag + entries with unary *)
Definition case := (ctx * (Z * list obs_entry) * (Z * list obs_entry))%type.

Definition entry_eqb (a b : obs_entry) : bool :=
  let '(k1, l1, r1, o1) := a in let '(k2, l2, r2, o2) := b in
  zs_eqb k1 k2 && Nat.eqb l1 l2 && option_eqb Nat.eqb r1 r2 && (o1 =? o2).

Definition check_one (c : ctx) (unary : bool) (o : Z * list obs_entry) : bool :=
  match relations (nG c) (cols c) unary with
  | Ok l => (fst o =? 0) && list_eqb entry_eqb l (snd o)
  | Raise e => fst o =? exn_tag e
  end.

Definition check (cs : case) : list nat :=
  let '(c, o1, o2) := cs in
  (if check_one c false o1 then [] else [0%nat]) ++ (if check_one c true o2 then [] else [1%nat]).
