(** Correspondence for C08: the eight predicates on pairs of extents. *)
From Coq Require Import ZArith List Bool.
From Concepts Require Import Base.Res Base.PyInt Base.BitSet Model.Members Run.Common.
Import ListNotations.
Open Scope Z_scope.

(** number of objects, list of (extent x, extent y, packed observed truth values) *)
Definition case := (nat * list (Z * Z * Z))%type.

Definition preds (n : nat) (a b : Z) : res Z :=
  let sup := ones n in
  do p0 <- implies a b sup ;;
  do p1 <- subsumes a b sup ;;
  do p2 <- properly_implies a b sup ;;
  do p3 <- properly_subsumes a b sup ;;
  do p4 <- incompatible_with a b sup ;;
  do p5 <- complement_of a b sup ;;
  do p6 <- subcontrary_with a b sup ;;
  do p7 <- orthogonal_to a b sup ;;
  Ok (pack [p0; p1; p2; p3; p4; p5; p6; p7]).

Definition check (c : case) : list nat :=
  let '(n, pairs) := c in
  bad_items (fun '(a, b, obs) => match preds n a b with Ok v => v =? obs | Raise _ => false end) pairs.
