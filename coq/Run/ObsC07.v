From Concepts Require Import Run.ObsLat.
Definition case := ObsLat.case_C07.
Definition check := ObsLat.check_C07.
