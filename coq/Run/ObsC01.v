(** Correspondence for C01: intension / extension, raw and label forms, bools. *)
From Coq Require Import ZArith List Bool.
From Concepts Require Import Base.Res Base.PyInt Base.BitSet Spec.Context Model.Matrices Model.ContextApi Run.Common.
Import ListNotations.
Open Scope Z_scope.

(** side (true = intension of objects), argument indices, (tag, member indices, raw int) *)
Definition query := (bool * list nat * (Z * list nat * Z))%type.
(** context, observed Context.bools re-encoded as row ints, queries *)
Definition case := (ctx * list Z * list query)%type.

Definition encode_bools (bs : list bool) : Z :=
  fold_right (fun (b : bool) acc => (if b then 1 else 0) + 2 * acc) 0 bs.

Definition check_query (fuel : nat) (k : mctx) (q : query) : bool :=
  let '(side, args, (tag, labs, raw)) := q in
  let r := if side then (do B <- intension_raw fuel k args ;; do l <- intension fuel k args ;; Ok (l, B))
           else (do A <- extension_raw fuel k args ;; do l <- extension fuel k args ;; Ok (l, A)) in
  match r with
  | Ok (l, v) => (tag =? 0) && nats_eqb l labs && (v =? raw)
  | Raise e => tag =? exn_tag e
  end.

Definition check (c : case) : list nat :=
  let '(cx, obs_rows, queries) := c in
  let k := relation_new cx in
  let fuel := S (Nat.max (nG cx) (nM cx)) in
  let b := zs_eqb (map encode_bools (context_bools k)) obs_rows in
  (if b then [] else [9999%nat]) ++ bad_items (check_query fuel k) queries.
