(** [powerset_shortlex s] lists every subset of [s] exactly once, sorted by (size, position);
    [minimize] filters it by the derivation of the candidate. *)
From Coq Require Import ZArith List Bool Lia ZifyBool Arith Sorted Permutation.
From Concepts Require Import Base.Res Base.PyInt Base.BitSet Spec.FCA Spec.Context
  Model.Matrices Model.ContextApi Model.Members Model.Lattice Model.LatticeApi
  Proofs.Matrices Proofs.ContextApi Proofs.LatticeFirst Proofs.Keys Proofs.SortBy.
Import ListNotations.
Open Scope Z_scope.

(** * the level construction, unrolled *)

Definition step (lvl : list (Z * list Z)) : list (Z * list Z) :=
  flat_map (fun p => expand (fst p) (snd p)) lvl.

Fixpoint iter_step (k : nat) (lvl : list (Z * list Z)) : list (Z * list Z) :=
  match k with O => lvl | S k' => iter_step k' (step lvl) end.

Definition level_range (lvl : list (Z * list Z)) (a n : nat) : list Z :=
  flat_map (fun k => map fst (iter_step k lvl)) (seq a n).

Lemma level_range_step lvl n : forall a, level_range (step lvl) a n = level_range lvl (S a) n.
Proof.
  unfold level_range. induction n as [|n IH]; intros a; cbn [seq flat_map]; [reflexivity|].
  rewrite IH. reflexivity.
Qed.

Lemma levels_spec n : forall lvl, levels n lvl = level_range lvl 1 n.
Proof.
  induction n as [|n IH]; intros lvl; [reflexivity|].
  cbn [levels]. fold (step lvl). rewrite IH, level_range_step.
  unfold level_range. cbn [seq flat_map iter_step]. reflexivity.
Qed.

Lemma powerset_shortlex_levels s :
  powerset_shortlex s = level_range [(0, atoms_of s)] 0 (S (count s)).
Proof.
  unfold powerset_shortlex. rewrite levels_spec. unfold level_range. cbn [seq flat_map iter_step map fst app].
  reflexivity.
Qed.

Lemma step_app l1 l2 : step (l1 ++ l2) = step l1 ++ step l2.
Proof. unfold step. apply flat_map_app. Qed.

Lemma iter_step_app k : forall l1 l2, iter_step k (l1 ++ l2) = iter_step k l1 ++ iter_step k l2.
Proof. induction k as [|k IH]; intros l1 l2; cbn [iter_step]; [reflexivity|]. rewrite step_app. apply IH. Qed.

Lemma iter_step_nil k : iter_step k [] = [].
Proof. induction k as [|k IH]; cbn [iter_step]; [reflexivity|]. exact IH. Qed.

Lemma step_single_nil cur : step [(cur, [])] = [].
Proof. reflexivity. Qed.

Lemma step_single_cons cur f r : step [(cur, f :: r)] = (Z.lor cur f, r) :: step [(cur, r)].
Proof. unfold step. cbn [flat_map fst snd expand]. rewrite !app_nil_r. reflexivity. Qed.

(** * subsets of size k of an ascending index list, in lexicographic order *)

Fixpoint subs (js : list nat) (k : nat) (cur : Z) : list Z :=
  match k, js with
  | O, _ => [cur]
  | S k', [] => []
  | S k', j :: r => subs r k' (Z.lor cur (bit j)) ++ subs r (S k') cur
  end.

Lemma subs_0 js cur : subs js 0 cur = [cur].
Proof. destruct js; reflexivity. Qed.

Lemma subs_S_cons j r k cur : subs (j :: r) (S k) cur = subs r k (Z.lor cur (bit j)) ++ subs r (S k) cur.
Proof. reflexivity. Qed.

Lemma iter_step_subs js : forall k cur, map fst (iter_step k [(cur, map bit js)]) = subs js k cur.
Proof.
  induction js as [|j r IH]; intros k cur; destruct k as [|k]; try reflexivity.
  - cbn [map iter_step]. rewrite step_single_nil, iter_step_nil. reflexivity.
  - rewrite subs_S_cons. cbn [map iter_step]. rewrite step_single_cons.
    change ((Z.lor cur (bit j), map bit r) :: step [(cur, map bit r)])
      with ([(Z.lor cur (bit j), map bit r)] ++ step [(cur, map bit r)]).
    rewrite iter_step_app, map_app, IH. f_equal.
    change (iter_step k (step [(cur, map bit r)])) with (iter_step (S k) [(cur, map bit r)]).
    apply IH.
Qed.

Theorem powerset_shortlex_subs s :
  powerset_shortlex s = flat_map (fun k => subs (indexes s) k 0) (seq 0 (S (count s))).
Proof.
  rewrite powerset_shortlex_levels. unfold level_range, atoms_of.
  apply flat_map_ext. intros k. apply iter_step_subs.
Qed.

(** * properties of [subs] *)

Lemma subs_sound js : forall k cur t, 0 <= cur -> In t (subs js k cur) ->
  0 <= t /\ subset cur t /\ (forall i, mem t i = true -> mem cur i = true \/ In i js).
Proof.
  induction js as [|j r IH]; intros k cur t Hc Hin; destruct k as [|k].
  - destruct Hin as [<-|[]]. split; [exact Hc|]. split; [apply subset_refl|auto].
  - destruct Hin.
  - destruct Hin as [<-|[]]. split; [exact Hc|]. split; [apply subset_refl|auto].
  - rewrite subs_S_cons in Hin. apply in_app_or in Hin. destruct Hin as [Hin|Hin].
    + apply IH in Hin; [|apply Z.lor_nonneg; split; [exact Hc|apply bit_nonneg]].
      destruct Hin as [Ht [Hsub Hmem]]. split; [exact Ht|]. split.
      * intros i Hi. apply Hsub. rewrite mem_lor, Hi. reflexivity.
      * intros i Hi. destruct (Hmem i Hi) as [H|H]; [|right; right; exact H].
        rewrite mem_lor, mem_bit in H. apply orb_true_iff in H. destruct H as [H|H]; [left; exact H|].
        apply Nat.eqb_eq in H. right. left. exact H.
    + apply IH in Hin; [|exact Hc]. destruct Hin as [Ht [Hsub Hmem]]. split; [exact Ht|]. split; [exact Hsub|].
      intros i Hi. destruct (Hmem i Hi) as [H|H]; [left; exact H|right; right; exact H].
Qed.

Lemma subs_below js k cur t i : 0 <= cur -> In t (subs js k cur) ->
  (forall j, In j js -> (i < j)%nat) -> mem t i = mem cur i.
Proof.
  intros Hc Hin Hlt. destruct (subs_sound js k cur t Hc Hin) as [_ [Hsub Hmem]].
  destruct (mem t i) eqn:E1, (mem cur i) eqn:E2; try reflexivity.
  - destruct (Hmem i E1) as [H|H]; [congruence|]. specialize (Hlt i H). lia.
  - rewrite (Hsub i E2) in E1. discriminate.
Qed.

Lemma subs_count n js : forall k cur t,
  in_range n cur -> Forall (fun j => (j < n)%nat) js -> NoDup js ->
  (forall j, In j js -> mem cur j = false) ->
  In t (subs js k cur) -> count t = (count cur + k)%nat.
Proof.
  induction js as [|j r IH]; intros k cur t Hc Hlt Hnd Hfresh Hin; destruct k as [|k].
  - destruct Hin as [<-|[]]. lia.
  - destruct Hin.
  - destruct Hin as [<-|[]]. lia.
  - inversion Hlt as [|j' r' Hj Hlt']; subst. inversion Hnd as [|j' r' Hnotin Hnd']; subst.
    rewrite subs_S_cons in Hin. apply in_app_or in Hin. destruct Hin as [Hin|Hin].
    + apply IH in Hin; try assumption.
      * rewrite Hin, (count_lor_bit n cur j Hc Hj) by (apply Hfresh; left; reflexivity). lia.
      * apply in_range_lor; [exact Hc|apply in_range_bit; exact Hj].
      * intros j' Hj'. rewrite mem_lor, mem_bit, (Hfresh j') by (right; exact Hj'). cbn [orb].
        apply Nat.eqb_neq. intros ->. contradiction.
    + apply IH in Hin; try assumption. intros j' Hj'. apply Hfresh. right. exact Hj'.
Qed.

Lemma subs_complete js : forall cur t, 0 <= cur -> 0 <= t -> subset cur t ->
  (forall i, mem t i = true -> mem cur i = true \/ In i js) ->
  exists k, (k <= length js)%nat /\ In t (subs js k cur).
Proof.
  induction js as [|j r IH]; intros cur t Hc Ht Hsub Hmem.
  - exists O. split; [cbn; lia|]. left.
    apply bitset_ext_nonneg; try assumption. intros i.
    destruct (mem cur i) eqn:E1, (mem t i) eqn:E2; try reflexivity.
    + rewrite (Hsub i E1) in E2. discriminate.
    + destruct (Hmem i E2) as [H|[]]. congruence.
  - destruct (mem t j) eqn:Ej.
    + destruct (IH (Z.lor cur (bit j)) t) as [k [Hk Hin]]; try assumption.
      * apply Z.lor_nonneg. split; [exact Hc|apply bit_nonneg].
      * intros i Hi. rewrite mem_lor, mem_bit in Hi. apply orb_true_iff in Hi.
        destruct Hi as [Hi|Hi]; [apply Hsub; exact Hi|]. apply Nat.eqb_eq in Hi. subst i. exact Ej.
      * intros i Hi. destruct (Hmem i Hi) as [H|[H|H]].
        -- left. rewrite mem_lor, H. reflexivity.
        -- left. subst i. rewrite mem_lor, mem_bit, Nat.eqb_refl. apply orb_true_r.
        -- right. exact H.
      * exists (S k). split; [cbn [length]; lia|]. rewrite subs_S_cons. apply in_or_app. left. exact Hin.
    + destruct (IH cur t) as [k [Hk Hin]]; try assumption.
      * intros i Hi. destruct (Hmem i Hi) as [H|[H|H]]; [left; exact H| |right; exact H].
        subst i. congruence.
      * destruct k as [|k].
        -- exists O. split; [lia|]. rewrite subs_0 in *. exact Hin.
        -- exists (S k). split; [cbn [length]; lia|]. rewrite subs_S_cons. apply in_or_app. right. exact Hin.
Qed.

Lemma subs_sorted js : forall k cur, 0 <= cur -> StronglySorted lt js ->
  (forall i j, mem cur i = true -> In j js -> (i < j)%nat) ->
  StronglySorted lexlt (subs js k cur).
Proof.
  induction js as [|j r IH]; intros k cur Hc Hs Hfresh; destruct k as [|k].
  - constructor; constructor.
  - constructor.
  - rewrite subs_0. constructor; constructor.
  - inversion Hs as [|j' r' Hs' Hf]; subst. rewrite Forall_forall in Hf.
    assert (Hc' : 0 <= Z.lor cur (bit j)) by (apply Z.lor_nonneg; split; [exact Hc|apply bit_nonneg]).
    assert (Hcj : mem cur j = false).
    { destruct (mem cur j) eqn:E; [|reflexivity]. specialize (Hfresh j j E (or_introl eq_refl)). lia. }
    rewrite subs_S_cons. apply StronglySorted_app.
    + apply IH; try assumption. intros i j' Hi Hj'. rewrite mem_lor, mem_bit in Hi.
      apply orb_true_iff in Hi. destruct Hi as [Hi|Hi].
      * apply (Hfresh i j' Hi). right. exact Hj'.
      * apply Nat.eqb_eq in Hi. subst i. apply Hf. exact Hj'.
    + apply IH; try assumption. intros i j' Hi Hj'. apply (Hfresh i j' Hi). right. exact Hj'.
    + intros a b Ha Hb. exists j. split; [|split].
      * destruct (subs_sound r k _ a Hc' Ha) as [_ [Hsub _]]. apply Hsub.
        rewrite mem_lor, mem_bit, Nat.eqb_refl. apply orb_true_r.
      * rewrite (subs_below r (S k) cur b j Hc Hb) by (intros j' Hj'; apply Hf; exact Hj'). exact Hcj.
      * intros i Hi.
        rewrite (subs_below r k _ a i Hc' Ha) by (intros j' Hj'; specialize (Hf j' Hj'); lia).
        rewrite (subs_below r (S k) cur b i Hc Hb) by (intros j' Hj'; specialize (Hf j' Hj'); lia).
        rewrite mem_lor, mem_bit. destruct (Nat.eqb_spec j i); [lia|]. apply orb_false_r.
Qed.

(** * the members list is ascending *)

Lemma seq_sorted n : forall a, StronglySorted lt (seq a n).
Proof.
  induction n as [|n IH]; intros a; cbn [seq]; constructor; [apply IH|].
  apply Forall_forall. intros x Hx. apply in_seq in Hx. lia.
Qed.

Lemma filter_sorted {A} (R : A -> A -> Prop) (f : A -> bool) l :
  StronglySorted R l -> StronglySorted R (filter f l).
Proof.
  induction 1 as [|x l Hs IH Hf]; cbn [filter]; [constructor|].
  destruct (f x); [|exact IH]. constructor; [exact IH|].
  rewrite Forall_forall in *. intros y Hy. apply filter_In in Hy. apply Hf. tauto.
Qed.

Lemma members_sorted n s : StronglySorted lt (members n s).
Proof. unfold members. apply filter_sorted, seq_sorted. Qed.

Lemma members_NoDup n s : NoDup (members n s).
Proof. unfold members. apply NoDup_filter, seq_NoDup. Qed.

Lemma in_range_subset n t s : in_range n s -> 0 <= t -> subset t s -> in_range n t.
Proof.
  intros [_ Hr] Ht Hsub. split; [exact Ht|]. intros i Hi.
  destruct (mem t i) eqn:E; [|reflexivity]. specialize (Hsub i E).
  rewrite (Hr i Hi) in Hsub. discriminate.
Qed.

Lemma sorted_flat_map_seq {B} (R : B -> B -> Prop) (f : nat -> list B) :
  (forall k, StronglySorted R (f k)) ->
  (forall k1 k2 a b, (k1 < k2)%nat -> In a (f k1) -> In b (f k2) -> R a b) ->
  forall n a, StronglySorted R (flat_map f (seq a n)).
Proof.
  intros Hs Hc. induction n as [|n IH]; intros a; cbn [seq flat_map]; [constructor|].
  apply StronglySorted_app; [apply Hs|apply IH|].
  intros x y Hx Hy. apply in_flat_map in Hy. destruct Hy as [k [Hk Hy]]. apply in_seq in Hk.
  apply (Hc a k); [lia|exact Hx|exact Hy].
Qed.

(** * the shortlex powerset *)

Section Powerset.
  Variables (r : nat) (s : Z).
  Hypothesis Hs : in_range r s.

  Lemma powerset_level_In k t : In t (subs (indexes s) k 0) ->
    0 <= t /\ subset t s /\ in_range r t /\ count t = k.
  Proof.
    intros Hin. rewrite (indexes_members r s Hs) in Hin.
    destruct (subs_sound _ _ _ _ (Z.le_refl 0) Hin) as [Ht [_ Hmem]].
    assert (Hsub : subset t s).
    { intros i Hi. destruct (Hmem i Hi) as [H|H]; [rewrite mem_0 in H; discriminate|].
      apply In_members in H. tauto. }
    split; [exact Ht|]. split; [exact Hsub|]. split; [apply (in_range_subset r t s); assumption|].
    apply (subs_count r _ _ _ _ (in_range_0 r)) in Hin; [exact Hin| | |].
    - apply Forall_forall. intros j Hj. apply In_members in Hj. tauto.
    - apply members_NoDup.
    - intros j _. apply mem_0.
  Qed.

  Theorem powerset_shortlex_In t : In t (powerset_shortlex s) <-> 0 <= t /\ subset t s.
  Proof.
    rewrite powerset_shortlex_subs, in_flat_map. split.
    - intros [k [_ Hin]]. apply powerset_level_In in Hin. tauto.
    - intros [Ht Hsub].
      destruct (subs_complete (indexes s) 0 t (Z.le_refl 0) Ht) as [k [Hk Hin]].
      + intros i Hi. rewrite mem_0 in Hi. discriminate.
      + intros i Hi. right. rewrite (indexes_members r s Hs). apply In_members.
        split; [|apply Hsub; exact Hi]. apply (mem_lt_of_in_range r s i Hs). apply Hsub. exact Hi.
      + exists k. split; [|exact Hin]. apply in_seq. rewrite count_indexes. lia.
  Qed.

  Corollary powerset_shortlex_in_range t : In t (powerset_shortlex s) -> in_range r t.
  Proof. intros H. apply powerset_shortlex_In in H. destruct H. apply (in_range_subset r t s); assumption. Qed.

  Corollary powerset_shortlex_In_range t : in_range r t -> (In t (powerset_shortlex s) <-> subset t s).
  Proof. intros [Ht _]. rewrite powerset_shortlex_In. tauto. Qed.

  (** sorted by (size, then position) *)
  Theorem powerset_shortlex_sorted : StronglySorted (klt (shortlex r)) (powerset_shortlex s).
  Proof.
    rewrite powerset_shortlex_subs. apply sorted_flat_map_seq.
    - intros k.
      apply (StronglySorted_impl lexlt).
      + intros a b Ha Hb Hlex. apply powerset_level_In in Ha, Hb.
        destruct Ha as (_ & _ & Ra & Ca), Hb as (_ & _ & Rb & Cb).
        unfold klt. apply (shortlex_meaning r a b Ra Rb). right. split; [congruence|exact Hlex].
      + rewrite (indexes_members r s Hs). apply subs_sorted; [lia|apply members_sorted|].
        intros i j Hi. rewrite mem_0 in Hi. discriminate.
    - intros k1 k2 a b Hk Ha Hb. apply powerset_level_In in Ha, Hb.
      destruct Ha as (_ & _ & Ra & Ca), Hb as (_ & _ & Rb & Cb).
      unfold klt. apply (shortlex_meaning r a b Ra Rb). left. lia.
  Qed.

  Corollary powerset_shortlex_NoDup : NoDup (powerset_shortlex s).
  Proof. apply (StronglySorted_NoDup (klt (shortlex r))); [apply klt_irrefl|apply powerset_shortlex_sorted]. Qed.

  (** pairwise on positions *)
  Corollary powerset_shortlex_pairwise i j : (i < j)%nat -> (j < length (powerset_shortlex s))%nat ->
    key_ltb (shortlex r (nth i (powerset_shortlex s) 0)) (shortlex r (nth j (powerset_shortlex s) 0)) = true.
  Proof. intros Hij Hj. apply (StronglySorted_nth (klt (shortlex r)) _ 0 powerset_shortlex_sorted i j Hij Hj). Qed.

  (** it is the sorted list of all subsets: any enumeration of the subsets sorts to it *)
  Corollary powerset_shortlex_is_sort l :
    NoDup l -> (forall t, In t l <-> 0 <= t /\ subset t s) ->
    sort_by (shortlex r) l = powerset_shortlex s.
  Proof.
    intros Hnd Hl. apply sort_by_unique; [|apply powerset_shortlex_sorted].
    apply NoDup_Permutation; [exact Hnd|apply powerset_shortlex_NoDup|].
    intros t. rewrite Hl, powerset_shortlex_In. reflexivity.
  Qed.
End Powerset.

(** every subset is listed with smaller subsets first *)
Corollary powerset_shortlex_subset_before r s t1 t2 : in_range r s ->
  In t1 (powerset_shortlex s) -> In t2 (powerset_shortlex s) -> psubset t1 t2 ->
  key_ltb (shortlex r t1) (shortlex r t2) = true.
Proof.
  intros Hs H1 H2 Hp. apply subset_shortlex; [| |exact Hp]; apply (powerset_shortlex_in_range r s Hs); assumption.
Qed.

(** * minimize *)

Lemma minimize_fold c dfuel extent : (nM c <= dfuel)%nat -> forall l acc,
  Forall (in_range (nM c)) l ->
  for_fold (fun acc it => do e <- properties_prime dfuel (relation_new c) it ;;
                          Ok (if e =? extent then acc ++ [it] else acc)) l acc
  = Ok (acc ++ filter (fun t => upM c t =? extent) l).
Proof.
  intros Hf. induction l as [|x l IH]; intros acc Hall; cbn [for_fold filter].
  - rewrite app_nil_r. reflexivity.
  - inversion Hall as [|x' l' Hx Hall']; subst.
    change (properties_prime dfuel (relation_new c) x) with (primeM dfuel c x).
    rewrite (primeM_spec dfuel c x Hx) by (pose proof (bits_size_le _ _ Hx); lia).
    cbn [bind]. rewrite (IH _ Hall').
    destruct (upM c x =? extent); [|reflexivity]. rewrite <- app_assoc. reflexivity.
Qed.

Theorem minimize_spec dfuel c extent intent :
  extent <> 0 -> in_range (nM c) intent -> (nM c <= dfuel)%nat ->
  minimize dfuel (relation_new c) extent intent =
  Ok (filter (fun t => upM c t =? extent) (powerset_shortlex intent)).
Proof.
  intros Hne Hi Hf. unfold minimize.
  assert (truthy extent = true) as -> by (apply truthy_true_iff; exact Hne). cbn [negb].
  rewrite (minimize_fold c dfuel extent Hf); [reflexivity|].
  apply Forall_forall. intros t Ht. apply (powerset_shortlex_in_range (nM c) intent Hi t Ht).
Qed.

(** consequences: the generating sets listed are exactly the subsets of the intent deriving to the
    extent, each once, smaller (and, at equal size, positionally earlier) ones first *)
Theorem minimize_In dfuel c extent intent l t :
  extent <> 0 -> in_range (nM c) intent -> (nM c <= dfuel)%nat ->
  minimize dfuel (relation_new c) extent intent = Ok l ->
  (In t l <-> 0 <= t /\ subset t intent /\ upM c t = extent).
Proof.
  intros Hne Hi Hf H. rewrite (minimize_spec dfuel c extent intent Hne Hi Hf) in H.
  assert (l = filter (fun t => upM c t =? extent) (powerset_shortlex intent)) as -> by congruence. clear H.
  rewrite filter_In, (powerset_shortlex_In (nM c) intent Hi), Z.eqb_eq. tauto.
Qed.

Theorem minimize_sorted dfuel c extent intent l :
  extent <> 0 -> in_range (nM c) intent -> (nM c <= dfuel)%nat ->
  minimize dfuel (relation_new c) extent intent = Ok l ->
  StronglySorted (klt (shortlex (nM c))) l /\ NoDup l.
Proof.
  intros Hne Hi Hf H. rewrite (minimize_spec dfuel c extent intent Hne Hi Hf) in H.
  assert (l = filter (fun t => upM c t =? extent) (powerset_shortlex intent)) as -> by congruence. clear H.
  split.
  - apply filter_sorted, powerset_shortlex_sorted. exact Hi.
  - apply NoDup_filter, (powerset_shortlex_NoDup (nM c)). exact Hi.
Qed.
