(** The Definition machine (Model/Definition.v) refines the plain ordered-table model
    (Spec/DefSpec.v): invariant, abstraction, per-operation refinement, histories. *)
From Coq Require Import ZArith List Bool Lia ZifyBool Permutation Arith.
From Concepts Require Import Base.Res Model.Definition Spec.DefSpec Proofs.DefUnique Proofs.DefPairs.
Import ListNotations.

(** * 1. invariant, 2. abstraction *)
Definition Inv (d : defn) : Prop :=
  UInv (d_objs d) /\ UInv (d_props d) /\ NoDup (d_pairs d) /\
  (forall o p, In (o, p) (d_pairs d) -> In o (objects_of d) /\ In p (properties_of d)).

(** the invariant exactly as written in the task statement *)
Lemma Inv_flat d :
  Inv d <->
  (NoDup (u_items (d_objs d)) /\ (forall x, In x (u_seen (d_objs d)) <-> In x (u_items (d_objs d))) /\ NoDup (u_seen (d_objs d))) /\
  (NoDup (u_items (d_props d)) /\ (forall x, In x (u_seen (d_props d)) <-> In x (u_items (d_props d))) /\ NoDup (u_seen (d_props d))) /\
  NoDup (d_pairs d) /\
  (forall o p, In (o, p) (d_pairs d) -> In o (objects_of d) /\ In p (properties_of d)).
Proof. unfold Inv, UInv. tauto. Qed.

Definition abs (d : defn) : sdef :=
  mkS (objects_of d) (properties_of d) (fun o p => memp (o, p) (d_pairs d)).

(** [a] and [d] denote the same table *)
Definition sim (a : sdef) (d : defn) : Prop :=
  s_objs a = objects_of d /\ s_props a = properties_of d /\
  forall o p, s_cell a o p = memp (o, p) (d_pairs d).

Lemma sim_abs d : sim (abs d) d.
Proof. repeat split. Qed.

Lemma sim_obs a d : sim a d -> obs_sdef a = obs_defn d.
Proof.
  intros [H1 [H2 H3]]. unfold obs_sdef, obs_defn, s_bools, bools_of. rewrite H1, H2.
  f_equal. apply map_ext. intros o. apply map_ext. intros p. apply H3.
Qed.

Lemma abs_obs d : obs_sdef (abs d) = obs_defn d.
Proof. apply sim_obs, sim_abs. Qed.

Lemma abs_ok d : Inv d -> s_ok (abs d).
Proof.
  intros [[Ho _] [[Hp _] [_ Hc]]]. repeat split; auto; cbn [abs s_cell s_objs s_props] in *;
    apply memp_In in H; apply Hc in H; tauto.
Qed.

Lemma sim_ok a d : sim a d -> Inv d -> s_ok a.
Proof.
  intros [H1 [H2 H3]] [[Ho _] [[Hp _] [_ Hc]]]. unfold s_ok. rewrite H1, H2. repeat split; auto;
    rewrite H3 in H; apply memp_In in H; apply Hc in H; tauto.
Qed.

(** outcome refinement: same exception, or same return value and related, invariant-satisfying tables *)
Definition refines (m : res (defn * ret)) (sp : res (sdef * ret)) : Prop :=
  match m, sp with
  | Ok (d', r), Ok (a', r') => r = r' /\ sim a' d' /\ Inv d'
  | Raise e, Raise e' => e = e'
  | _, _ => False
  end.

Lemma mk_ref uo up pairs so sp cell r :
  UInv uo -> UInv up -> NoDup pairs ->
  so = u_items uo -> sp = u_items up ->
  (forall o p, In (o, p) pairs <-> cell o p = true) ->
  (forall o p, cell o p = true -> In o so /\ In p sp) ->
  refines (Ok (mkD uo up pairs, r)) (Ok (mkS so sp cell, r)).
Proof.
  intros Ho Hp Hn -> -> Hc Hcl. cbn. split; auto. split.
  - repeat split. cbn [s_cell d_pairs]. intros o p. apply eq_iff_eq_true. rewrite memp_In. symmetry. apply Hc.
  - split; [exact Ho|]. split; [exact Hp|]. split; [exact Hn|].
    intros o p H. cbn [d_pairs] in H. apply Hc, Hcl in H. exact H.
Qed.

Ltac inv_intro d Ho Hp Hn Hc := intros [Ho [Hp [Hn Hc]]].

(** * 3. per-operation refinement *)
Lemma ref_setitem d h x p v :
  Inv d -> refines (Ok (d_setitem d x p v, RNone)) (sstep1 (abs d) (OSetItem h x p v) None).
Proof.
  intros [Ho [Hp [Hn Hc]]]. cbn [sstep1 abs s_objs s_props s_cell]. unfold d_setitem.
  apply mk_ref.
  - apply u_add_UInv; auto.
  - apply u_add_UInv; auto.
  - destruct v; auto using NoDup_addp, NoDup_removep.
  - symmetry; apply u_add_items; auto.
  - symmetry; apply u_add_items; auto.
  - intros o q. destruct (Nat.eqb o x && Nat.eqb q p) eqn:E.
    + apply andb_true_iff in E. destruct E as [E1 E2]. apply Nat.eqb_eq in E1, E2. subst.
      destruct v; [rewrite In_addp; tauto|rewrite In_removep]. split; [intros [_ H]; congruence|discriminate].
    + assert (E' : (o, q) <> (x, p)).
      { intros E'. inversion E'; subst. rewrite !Nat.eqb_refl in E. discriminate. }
      rewrite memp_In. destruct v; [rewrite In_addp|rewrite In_removep]; intuition congruence.
  - intros o q. rewrite !In_append_new. destruct (Nat.eqb o x && Nat.eqb q p) eqn:E.
    + apply andb_true_iff in E. destruct E as [E1 E2]. apply Nat.eqb_eq in E1, E2. subst. cbn; auto.
    + intros H. apply memp_In, Hc in H. tauto.
Qed.

(** ** rename *)
Lemma rename_obj_pairs d old new o q :
  Inv d ->
  In (o, q) (fold_left (fun acc p => addp (new, p) acc) (filter (fun p => memp (old, p) (d_pairs d)) (properties_of d))
              (fold_left (fun acc p => removep (old, p) acc) (filter (fun p => memp (old, p) (d_pairs d)) (properties_of d)) (d_pairs d)))
  <-> (In (o, q) (d_pairs d) /\ o <> old) \/ (o = new /\ In (old, q) (d_pairs d)).
Proof.
  intros [Ho [Hp [Hn Hc]]]. set (moved := filter (fun p => memp (old, p) (d_pairs d)) (properties_of d)).
  assert (Hm : forall p, In p moved <-> In (old, p) (d_pairs d)).
  { intros p. unfold moved. rewrite filter_In, memp_In. split; [tauto|]. intros H; split; auto. apply Hc in H; tauto. }
  pose proof (In_fold_addp (fun p => (new, p)) moved) as E1. cbn beta in E1. rewrite E1. clear E1.
  pose proof (In_fold_removep (fun p => (old, p)) moved) as E2. cbn beta in E2. rewrite E2. clear E2.
  split.
  - intros [[H1 H2]|[p [H1 H2]]].
    + left. split; auto. intros ->. apply (H2 q); auto. apply Hm; auto.
    + inversion H2; subst. right. split; auto. apply Hm; auto.
  - intros [[H1 H2]|[-> H2]].
    + left. split; auto. intros p _ E. inversion E; subst; auto.
    + right. exists q. split; auto. apply Hm; auto.
Qed.

Lemma ref_rename_object d h old new :
  Inv d -> refines (do d' <- d_rename_object d old new ;; Ok (d', RNone)) (sstep1 (abs d) (ORenameObject h old new) None).
Proof.
  intros HI. pose proof HI as [Ho [Hp [Hn Hc]]]. cbn [sstep1 abs s_objs s_props s_cell]. unfold d_rename_object.
  rewrite u_replace_spec by auto. fold (objects_of d).
  destruct (memn new (objects_of d)) eqn:E1; [cbn; auto|].
  destruct (memn old (objects_of d)) eqn:E2; cbn [negb bind]; [|cbn; auto].
  apply mk_ref.
  - apply u_replace_UInv; auto.
  - auto.
  - apply (NoDup_fold_addp (fun p => (new, p))), (NoDup_fold_removep (fun p => (old, p))); auto.
  - reflexivity.
  - reflexivity.
  - intros o q. rewrite rename_obj_pairs by auto.
    apply memn_false in E1.
    destruct (Nat.eqb o new) eqn:E3.
    + apply Nat.eqb_eq in E3; subst. rewrite memp_In. split; [|auto].
      intros [[H _]|[_ H]]; auto. apply Hc in H. tauto.
    + apply Nat.eqb_neq in E3. destruct (Nat.eqb o old) eqn:E4.
      * apply Nat.eqb_eq in E4. split; [intros [[_ H]|[H _]]; congruence | discriminate].
      * apply Nat.eqb_neq in E4. rewrite memp_In. tauto.
  - intros o q. apply memn_In in E2. rewrite In_replace_name by (auto; apply Ho).
    destruct (Nat.eqb o new) eqn:E3.
    + intros H; apply memp_In, Hc in H. apply Nat.eqb_eq in E3. tauto.
    + destruct (Nat.eqb o old) eqn:E4; [discriminate|]. intros H. apply memp_In, Hc in H.
      apply Nat.eqb_neq in E4. tauto.
Qed.

Lemma rename_prop_pairs d old new o q :
  Inv d ->
  In (o, q) (fold_left (fun acc x => addp (x, new) acc) (filter (fun x => memp (x, old) (d_pairs d)) (objects_of d))
              (fold_left (fun acc x => removep (x, old) acc) (filter (fun x => memp (x, old) (d_pairs d)) (objects_of d)) (d_pairs d)))
  <-> (In (o, q) (d_pairs d) /\ q <> old) \/ (q = new /\ In (o, old) (d_pairs d)).
Proof.
  intros [Ho [Hp [Hn Hc]]]. set (moved := filter (fun x => memp (x, old) (d_pairs d)) (objects_of d)).
  assert (Hm : forall x, In x moved <-> In (x, old) (d_pairs d)).
  { intros x. unfold moved. rewrite filter_In, memp_In. split; [tauto|]. intros H; split; auto. apply Hc in H; tauto. }
  pose proof (In_fold_addp (fun x => (x, new)) moved) as E1. cbn beta in E1. rewrite E1. clear E1.
  pose proof (In_fold_removep (fun x => (x, old)) moved) as E2. cbn beta in E2. rewrite E2. clear E2.
  split.
  - intros [[H1 H2]|[p [H1 H2]]].
    + left. split; auto. intros ->. apply (H2 o); auto. apply Hm; auto.
    + inversion H2; subst. right. split; auto. apply Hm; auto.
  - intros [[H1 H2]|[-> H2]].
    + left. split; auto. intros p _ E. inversion E; subst; auto.
    + right. exists o. split; auto. apply Hm; auto.
Qed.

Lemma ref_rename_property d h old new :
  Inv d -> refines (do d' <- d_rename_property d old new ;; Ok (d', RNone)) (sstep1 (abs d) (ORenameProperty h old new) None).
Proof.
  intros HI. pose proof HI as [Ho [Hp [Hn Hc]]]. cbn [sstep1 abs s_objs s_props s_cell]. unfold d_rename_property.
  rewrite u_replace_spec by auto. fold (properties_of d).
  destruct (memn new (properties_of d)) eqn:E1; [cbn; auto|].
  destruct (memn old (properties_of d)) eqn:E2; cbn [negb bind]; [|cbn; auto].
  apply mk_ref.
  - auto.
  - apply u_replace_UInv; auto.
  - apply (NoDup_fold_addp (fun x => (x, new))), (NoDup_fold_removep (fun x => (x, old))); auto.
  - reflexivity.
  - reflexivity.
  - intros o q. rewrite rename_prop_pairs by auto.
    apply memn_false in E1.
    destruct (Nat.eqb q new) eqn:E3.
    + apply Nat.eqb_eq in E3; subst. rewrite memp_In. split; [|auto].
      intros [[H _]|[_ H]]; auto. apply Hc in H. tauto.
    + apply Nat.eqb_neq in E3. destruct (Nat.eqb q old) eqn:E4.
      * apply Nat.eqb_eq in E4. split; [intros [[_ H]|[H _]]; congruence | discriminate].
      * apply Nat.eqb_neq in E4. rewrite memp_In. tauto.
  - intros o q. apply memn_In in E2. rewrite In_replace_name by (auto; apply Hp).
    destruct (Nat.eqb q new) eqn:E3.
    + intros H; apply memp_In, Hc in H. apply Nat.eqb_eq in E3. tauto.
    + destruct (Nat.eqb q old) eqn:E4; [discriminate|]. intros H. apply memp_In, Hc in H.
      apply Nat.eqb_neq in E4. tauto.
Qed.

(** ** move *)
Lemma ref_move_object d h x i :
  Inv d -> refines (do d' <- d_move_object d x i ;; Ok (d', RNone)) (sstep1 (abs d) (OMoveObject h x i) None).
Proof.
  intros [Ho [Hp [Hn Hc]]]. cbn [sstep1 abs s_objs s_props s_cell]. unfold d_move_object.
  rewrite u_move_spec. fold (objects_of d).
  destruct (s_move (objects_of d) x i) as [l|e] eqn:E; cbn [bind]; [|cbn; auto].
  apply s_move_perm in E.
  apply mk_ref; auto.
  - apply UInv_perm_items; auto.
  - intros o q. symmetry. apply memp_In.
  - intros o q H. apply memp_In, Hc in H. split; [|tauto]. eapply Permutation_in; [exact E|tauto].
Qed.

Lemma ref_move_property d h x i :
  Inv d -> refines (do d' <- d_move_property d x i ;; Ok (d', RNone)) (sstep1 (abs d) (OMoveProperty h x i) None).
Proof.
  intros [Ho [Hp [Hn Hc]]]. cbn [sstep1 abs s_objs s_props s_cell]. unfold d_move_property.
  rewrite u_move_spec. fold (properties_of d).
  destruct (s_move (properties_of d) x i) as [l|e] eqn:E; cbn [bind]; [|cbn; auto].
  apply s_move_perm in E.
  apply mk_ref; auto.
  - apply UInv_perm_items; auto.
  - intros o q. symmetry. apply memp_In.
  - intros o q H. apply memp_In, Hc in H. split; [tauto|]. eapply Permutation_in; [exact E|tauto].
Qed.

(** ** add *)
Lemma ref_add_object d h x ps :
  Inv d -> refines (Ok (d_add_object d x ps, RNone)) (sstep1 (abs d) (OAddObject h x ps) None).
Proof.
  intros [Ho [Hp [Hn Hc]]]. cbn [sstep1 abs s_objs s_props s_cell]. unfold d_add_object.
  apply mk_ref.
  - apply u_add_UInv; auto.
  - apply u_ior_UInv; auto.
  - apply (NoDup_fold_addp (fun p => (x, p))); auto.
  - symmetry; apply u_add_items; auto.
  - symmetry; apply u_ior_items; auto.
  - intros o q. pose proof (In_fold_addp (fun p => (x, p)) ps) as E1. cbn beta in E1. rewrite E1. clear E1.
    rewrite orb_true_iff, andb_true_iff, Nat.eqb_eq, memn_In, memp_In. split.
    + intros [H|[p [H1 H2]]]; auto. inversion H2; subst. auto.
    + intros [[-> H]|H]; eauto.
  - intros o q. rewrite orb_true_iff, andb_true_iff, Nat.eqb_eq, memn_In, memp_In, !In_append_new. intros [[-> H]|H].
    + cbn; auto.
    + apply Hc in H. tauto.
Qed.

Lemma ref_add_property d h x os :
  Inv d -> refines (Ok (d_add_property d x os, RNone)) (sstep1 (abs d) (OAddProperty h x os) None).
Proof.
  intros [Ho [Hp [Hn Hc]]]. cbn [sstep1 abs s_objs s_props s_cell]. unfold d_add_property.
  apply mk_ref.
  - apply u_ior_UInv; auto.
  - apply u_add_UInv; auto.
  - apply (NoDup_fold_addp (fun o => (o, x))); auto.
  - symmetry; apply u_ior_items; auto.
  - symmetry; apply u_add_items; auto.
  - intros o q. pose proof (In_fold_addp (fun o => (o, x)) os) as E1. cbn beta in E1. rewrite E1. clear E1.
    rewrite orb_true_iff, andb_true_iff, Nat.eqb_eq, memn_In, memp_In. split.
    + intros [H|[p [H1 H2]]]; auto. inversion H2; subst. auto.
    + intros [[-> H]|H]; eauto.
  - intros o q. rewrite orb_true_iff, andb_true_iff, Nat.eqb_eq, memn_In, memp_In, !In_append_new. intros [[-> H]|H].
    + cbn; auto.
    + apply Hc in H. tauto.
Qed.

(** ** remove *)
Lemma ref_remove_object d h x :
  Inv d -> refines (do d' <- d_remove_object d x ;; Ok (d', RNone)) (sstep1 (abs d) (ORemoveObject h x) None).
Proof.
  intros HI. pose proof HI as [Ho [Hp [Hn Hc]]]. cbn [sstep1 abs s_objs s_props s_cell]. unfold d_remove_object.
  destruct (memn x (objects_of d)) eqn:E.
  - rewrite u_remove_ok by auto. cbn [bind].
    apply mk_ref.
    + apply u_discard_UInv; auto.
    + auto.
    + apply (NoDup_fold_removep (fun p => (x, p))); auto.
    + symmetry; apply u_discard_items; auto.
    + reflexivity.
    + intros o q. pose proof (In_fold_removep (fun p => (x, p)) (properties_of d)) as E1. cbn beta in E1. rewrite E1. clear E1.
      rewrite andb_true_iff, negb_true_iff, Nat.eqb_neq, memp_In. split.
      * intros [H1 H2]. split; auto. intros ->. apply (H2 q); auto. apply Hc in H1; tauto.
      * intros [H1 H2]. split; auto. intros p _ E'. inversion E'; subst; auto.
    + intros o q. rewrite andb_true_iff, negb_true_iff, Nat.eqb_neq, memp_In, In_removen.
      intros [H1 H2]. apply Hc in H2. split; [split; [tauto|auto]|tauto].
  - rewrite u_remove_raise by auto. cbn. auto.
Qed.

Lemma ref_remove_property d h x :
  Inv d -> refines (do d' <- d_remove_property d x ;; Ok (d', RNone)) (sstep1 (abs d) (ORemoveProperty h x) None).
Proof.
  intros HI. pose proof HI as [Ho [Hp [Hn Hc]]]. cbn [sstep1 abs s_objs s_props s_cell]. unfold d_remove_property.
  destruct (memn x (properties_of d)) eqn:E.
  - rewrite u_remove_ok by auto. cbn [bind].
    apply mk_ref.
    + auto.
    + apply u_discard_UInv; auto.
    + apply (NoDup_fold_removep (fun o => (o, x))); auto.
    + reflexivity.
    + symmetry; apply u_discard_items; auto.
    + intros o q. pose proof (In_fold_removep (fun o => (o, x)) (objects_of d)) as E1. cbn beta in E1. rewrite E1. clear E1.
      rewrite andb_true_iff, negb_true_iff, Nat.eqb_neq, memp_In. split.
      * intros [H1 H2]. split; auto. intros ->. apply (H2 o); auto. apply Hc in H1; tauto.
      * intros [H1 H2]. split; auto. intros p _ E'. inversion E'; subst; auto.
    + intros o q. rewrite andb_true_iff, negb_true_iff, Nat.eqb_neq, memp_In, In_removen.
      intros [H1 H2]. apply Hc in H2. split; [tauto|split; [tauto|auto]].
  - rewrite u_remove_raise by auto. cbn. auto.
Qed.

(** ** remove_empty_* *)
Lemma empty_objs_eq d o :
  Inv d -> existsb (fun pr => Nat.eqb (fst pr) o) (d_pairs d) = existsb (fun p' => memp (o, p') (d_pairs d)) (properties_of d).
Proof.
  intros [Ho [Hp [Hn Hc]]]. apply eq_iff_eq_true. rewrite !existsb_exists. split.
  - intros [[a b] [H1 H2]]. cbn in H2. apply Nat.eqb_eq in H2. subst. exists b.
    split; [apply Hc in H1; tauto | apply memp_In; auto].
  - intros [p [H1 H2]]. exists (o, p). split; [apply memp_In; auto | cbn; apply Nat.eqb_refl].
Qed.

Lemma empty_props_eq d p :
  Inv d -> existsb (fun pr => Nat.eqb (snd pr) p) (d_pairs d) = existsb (fun o' => memp (o', p) (d_pairs d)) (objects_of d).
Proof.
  intros [Ho [Hp [Hn Hc]]]. apply eq_iff_eq_true. rewrite !existsb_exists. split.
  - intros [[a b] [H1 H2]]. cbn in H2. apply Nat.eqb_eq in H2. subst. exists a.
    split; [apply Hc in H1; tauto | apply memp_In; auto].
  - intros [o [H1 H2]]. exists (o, p). split; [apply memp_In; auto | cbn; apply Nat.eqb_refl].
Qed.

Lemma ref_remove_empty_objects d h :
  Inv d -> refines (do '(d', l) <- d_remove_empty_objects d ;; Ok (d', RNames l)) (sstep1 (abs d) (ORemoveEmptyObjects h) None).
Proof.
  intros HI. pose proof HI as [Ho [Hp [Hn Hc]]]. cbn [sstep1 abs s_objs s_props s_cell]. unfold d_remove_empty_objects.
  set (empty := filter (fun o => negb (existsb (fun pr => Nat.eqb (fst pr) o) (d_pairs d))) (objects_of d)).
  assert (EE : filter (fun o' => negb (existsb (fun p' => memp (o', p') (d_pairs d)) (properties_of d))) (objects_of d) = empty).
  { unfold empty. apply filter_ext. intros o. rewrite empty_objs_eq; auto. }
  rewrite EE.
  rewrite for_fold_remove; auto.
  2: { apply NoDup_filter. apply Ho. }
  2: { intros x Hx. apply filter_In in Hx. apply Hx. }
  cbn [bind].
  destruct (fold_discard_items empty (d_objs d) Ho) as [I1 I2].
  apply mk_ref; auto.
  - intros o q. symmetry; apply memp_In.
  - intros o q H. apply memp_In in H. pose proof (Hc _ _ H) as [H1 H2]. split; auto.
    apply filter_In. split; auto. apply negb_true_iff, memn_false. unfold empty. rewrite filter_In.
    intros [_ H3]. apply negb_true_iff in H3.
    assert (H4 : existsb (fun pr => Nat.eqb (fst pr) o) (d_pairs d) = true); [|congruence].
    apply existsb_exists. exists (o, q). split; auto. cbn. apply Nat.eqb_refl.
Qed.

Lemma ref_remove_empty_properties d h :
  Inv d -> refines (do '(d', l) <- d_remove_empty_properties d ;; Ok (d', RNames l)) (sstep1 (abs d) (ORemoveEmptyProperties h) None).
Proof.
  intros HI. pose proof HI as [Ho [Hp [Hn Hc]]]. cbn [sstep1 abs s_objs s_props s_cell]. unfold d_remove_empty_properties.
  set (empty := filter (fun p => negb (existsb (fun pr => Nat.eqb (snd pr) p) (d_pairs d))) (properties_of d)).
  assert (EE : filter (fun p' => negb (existsb (fun o' => memp (o', p') (d_pairs d)) (objects_of d))) (properties_of d) = empty).
  { unfold empty. apply filter_ext. intros o. rewrite empty_props_eq; auto. }
  rewrite EE.
  rewrite for_fold_remove; auto.
  2: { apply NoDup_filter. apply Hp. }
  2: { intros x Hx. apply filter_In in Hx. apply Hx. }
  cbn [bind].
  destruct (fold_discard_items empty (d_props d) Hp) as [I1 I2].
  apply mk_ref; auto.
  - intros o q. symmetry; apply memp_In.
  - intros o q H. apply memp_In in H. pose proof (Hc _ _ H) as [H1 H2]. split; auto.
    apply filter_In. split; auto. apply negb_true_iff, memn_false. unfold empty. rewrite filter_In.
    intros [_ H3]. apply negb_true_iff in H3.
    assert (H4 : existsb (fun pr => Nat.eqb (snd pr) q) (d_pairs d) = true); [|congruence].
    apply existsb_exists. exists (o, q). split; auto. cbn. apply Nat.eqb_refl.
Qed.

(** ** set_object / set_property *)
Lemma ref_set_object d h x ps :
  Inv d -> refines (Ok (d_set_object d x ps, RNone)) (sstep1 (abs d) (OSetObject h x ps) None).
Proof.
  intros [Ho [Hp [Hn Hc]]]. cbn [sstep1 abs s_objs s_props s_cell]. unfold d_set_object.
  assert (EI : u_items (u_ior (d_props d) (u_items (u_new ps))) = append_new (properties_of d) ps).
  { rewrite u_ior_items by auto. rewrite u_new_items. apply append_new_dedup. }
  assert (Hinj : forall p q : nat, (x, p) = (x, q) -> p = q) by (intros p q E; inversion E; auto).
  apply mk_ref.
  - apply u_add_UInv; auto.
  - apply u_ior_UInv; auto.
  - apply (NoDup_fold_set (u_contains (u_new ps)) (fun p => (x, p))); auto.
  - symmetry; apply u_add_items; auto.
  - symmetry; exact EI.
  - intros o q.
    pose proof (In_fold_set (u_contains (u_new ps)) (fun p => (x, p)) Hinj
                  (u_items (u_ior (d_props d) (u_items (u_new ps)))) (d_pairs d) (o, q)) as E.
    unfold fold_set in E. cbn beta in E. rewrite E. clear E. rewrite EI.
    destruct (Nat.eqb o x) eqn:E3.
    + apply Nat.eqb_eq in E3. subst. split.
      * intros [[p [H1 [H2 H3]]]|[H1 H2]].
        -- inversion H2; subst. rewrite u_new_contains in H3. auto.
        -- exfalso. apply (H2 q); auto. apply In_append_new. left. apply Hc in H1; tauto.
      * intros H. left. exists q. split; [apply In_append_new; right; apply memn_In; auto|].
        split; auto. rewrite u_new_contains; auto.
    + apply Nat.eqb_neq in E3. rewrite memp_In. split.
      * intros [[p [H1 [H2 H3]]]|[H1 H2]]; auto. inversion H2; subst; tauto.
      * intros H. right. split; auto. intros p _ E'. inversion E'; subst. tauto.
  - intros o q. rewrite !In_append_new. destruct (Nat.eqb o x) eqn:E3.
    + intros H. apply memn_In in H. apply Nat.eqb_eq in E3. subst. cbn. auto.
    + intros H. apply memp_In, Hc in H. tauto.
Qed.

Lemma ref_set_property d h x os :
  Inv d -> refines (Ok (d_set_property d x os, RNone)) (sstep1 (abs d) (OSetProperty h x os) None).
Proof.
  intros [Ho [Hp [Hn Hc]]]. cbn [sstep1 abs s_objs s_props s_cell]. unfold d_set_property.
  assert (EI : u_items (u_ior (d_objs d) (u_items (u_new os))) = append_new (objects_of d) os).
  { rewrite u_ior_items by auto. rewrite u_new_items. apply append_new_dedup. }
  assert (Hinj : forall p q : nat, (p, x) = (q, x) -> p = q) by (intros p q E; inversion E; auto).
  apply mk_ref.
  - apply u_ior_UInv; auto.
  - apply u_add_UInv; auto.
  - apply (NoDup_fold_set (u_contains (u_new os)) (fun o => (o, x))); auto.
  - symmetry; exact EI.
  - symmetry; apply u_add_items; auto.
  - intros o q.
    pose proof (In_fold_set (u_contains (u_new os)) (fun o => (o, x)) Hinj
                  (u_items (u_ior (d_objs d) (u_items (u_new os)))) (d_pairs d) (o, q)) as E.
    unfold fold_set in E. cbn beta in E. rewrite E. clear E. rewrite EI.
    destruct (Nat.eqb q x) eqn:E3.
    + apply Nat.eqb_eq in E3. subst. split.
      * intros [[p [H1 [H2 H3]]]|[H1 H2]].
        -- inversion H2; subst. rewrite u_new_contains in H3. auto.
        -- exfalso. apply (H2 o); auto. apply In_append_new. left. apply Hc in H1; tauto.
      * intros H. left. exists o. split; [apply In_append_new; right; apply memn_In; auto|].
        split; auto. rewrite u_new_contains; auto.
    + apply Nat.eqb_neq in E3. rewrite memp_In. split.
      * intros [[p [H1 [H2 H3]]]|[H1 H2]]; auto. inversion H2; subst; tauto.
      * intros H. right. split; auto. intros p _ E'. inversion E'; subst. tauto.
  - intros o q. rewrite !In_append_new. destruct (Nat.eqb q x) eqn:E3.
    + intros H. apply memn_In in H. apply Nat.eqb_eq in E3. subst. cbn. auto.
    + intros H. apply memp_In, Hc in H. tauto.
Qed.

(** ** conflicts, union, intersection *)
Lemma In_conflicts l r o p :
  In (o, p) (conflicts l r) <->
  In o (objects_of r) /\ u_contains (d_objs l) o = true /\ In p (properties_of r) /\ u_contains (d_props l) p = true /\
  xorb (memp (o, p) (d_pairs l)) (memp (o, p) (d_pairs r)) = true.
Proof.
  unfold conflicts.
  rewrite (In_pgrid (fun o p => xorb (memp (o, p) (d_pairs l)) (memp (o, p) (d_pairs r)))), !filter_In. tauto.
Qed.

Lemma conflicts_spec d e : Inv d -> Inv e -> is_nil (conflicts d e) = negb (s_conflict (abs d) (abs e)).
Proof.
  intros [Ho [Hp _]] [Ho' [Hp' _]]. unfold s_conflict. cbn [abs s_objs s_props s_cell].
  match goal with |- _ = negb ?b => destruct b eqn:S end; cbn [negb].
  - apply is_nil_false. apply existsb_exists in S. destruct S as [o [H1 H2]].
    apply andb_true_iff in H2. destruct H2 as [H2 H3]. apply existsb_exists in H3. destruct H3 as [p [H3 H4]].
    apply andb_true_iff in H4. destruct H4 as [H4 H5]. exists (o, p). apply In_conflicts.
    rewrite !UInv_contains by auto. apply memn_In in H2, H4. repeat split; auto; apply memn_In; auto.
  - destruct (is_nil (conflicts d e)) eqn:N; auto. apply is_nil_false in N. destruct N as [[o p] H].
    apply In_conflicts in H. rewrite !UInv_contains in H by auto. destruct H as [H1 [H2 [H3 [H4 H5]]]].
    rewrite <- S. apply existsb_exists. exists o. split; [apply memn_In; auto|].
    apply andb_true_iff. split; [apply memn_In; auto|]. apply existsb_exists. exists p.
    split; [apply memn_In; auto|]. apply andb_true_iff. split; [apply memn_In; auto|auto].
Qed.

Lemma union_core d e ig :
  Inv d -> Inv e ->
  refines (do d' <- d_union_update d e ig ;; Ok (d', RNone))
          (if negb ig && s_conflict (abs d) (abs e) then Raise ValueError
           else Ok (mkS (append_new (objects_of d) (objects_of e)) (append_new (properties_of d) (properties_of e))
                        (fun o' p' => memp (o', p') (d_pairs d) || memp (o', p') (d_pairs e)), RNone)).
Proof.
  intros HI HI'. pose proof HI as [Ho [Hp [Hn Hc]]]. pose proof HI' as [Ho' [Hp' [Hn' Hc']]].
  unfold d_union_update.
  change (match conflicts d e with [] => true | _ :: _ => false end) with (is_nil (conflicts d e)).
  rewrite conflicts_spec, negb_involutive by auto.
  destruct (negb ig && s_conflict (abs d) (abs e)); cbn [bind]; [cbn; auto|].
  apply mk_ref.
  - apply u_ior_UInv; auto.
  - apply u_ior_UInv; auto.
  - apply NoDup_fold_addp_id; auto.
  - symmetry; apply u_ior_items; auto.
  - symmetry; apply u_ior_items; auto.
  - intros o q. rewrite In_fold_addp_id, orb_true_iff, !memp_In. tauto.
  - intros o q. rewrite orb_true_iff, !memp_In, !In_append_new. intros [H|H]; [apply Hc in H|apply Hc' in H]; tauto.
Qed.

Lemma intersection_core d e ig :
  Inv d -> Inv e ->
  refines (do d' <- d_intersection_update d e ig ;; Ok (d', RNone))
          (if negb ig && s_conflict (abs d) (abs e) then Raise ValueError
           else Ok (mkS (filter (fun x => memn x (objects_of e)) (objects_of d))
                        (filter (fun x => memn x (properties_of e)) (properties_of d))
                        (fun o' p' => memp (o', p') (d_pairs d) && memp (o', p') (d_pairs e)), RNone)).
Proof.
  intros HI HI'. pose proof HI as [Ho [Hp [Hn Hc]]]. pose proof HI' as [Ho' [Hp' [Hn' Hc']]].
  unfold d_intersection_update.
  change (match conflicts d e with [] => true | _ :: _ => false end) with (is_nil (conflicts d e)).
  rewrite conflicts_spec, negb_involutive by auto.
  destruct (negb ig && s_conflict (abs d) (abs e)); cbn [bind]; [cbn; auto|].
  apply mk_ref.
  - apply u_iand_UInv; auto.
  - apply u_iand_UInv; auto.
  - apply NoDup_filter; auto.
  - rewrite u_iand_items by auto. apply filter_ext. intros x. symmetry. apply UInv_memn; auto.
  - rewrite u_iand_items by auto. apply filter_ext. intros x. symmetry. apply UInv_memn; auto.
  - intros o q. rewrite filter_In, andb_true_iff, !memp_In. tauto.
  - intros o q. rewrite andb_true_iff, !memp_In, !filter_In, !memn_In. intros [H H']. apply Hc in H. apply Hc' in H'. tauto.
Qed.

(** ** derived definitions *)
Lemma ref_copy d h : Inv d -> refines (Ok (d_copy d, RNone)) (sstep1 (abs d) (DCopy h) None).
Proof. intros HI. cbn [sstep1]. unfold d_copy. cbn [refines]. split; auto. split; auto. apply sim_abs. Qed.

Lemma NoDup_map_swap (l : list (nat * nat)) : NoDup l -> NoDup (map (fun x => (snd x, fst x)) l).
Proof.
  induction 1 as [|x l Hx Hl IH]; cbn; constructor; auto.
  rewrite in_map_iff. intros [y [E Hy]]. destruct x, y; cbn in E. inversion E; subst. auto.
Qed.

Lemma In_map_swap (l : list (nat * nat)) o q : In (o, q) (map (fun x => (snd x, fst x)) l) <-> In (q, o) l.
Proof.
  rewrite in_map_iff. split.
  - intros [[a b] [E H]]. cbn in E. inversion E; subst. auto.
  - intros H. exists (q, o). auto.
Qed.

Lemma ref_transposed d h : Inv d -> refines (Ok (d_transposed d, RNone)) (sstep1 (abs d) (DTransposed h) None).
Proof.
  intros [Ho [Hp [Hn Hc]]]. cbn [sstep1 abs s_objs s_props s_cell]. unfold d_transposed.
  apply mk_ref; auto.
  - apply NoDup_map_swap; auto.
  - intros o q. rewrite In_map_swap, memp_In. tauto.
  - intros o q H. apply memp_In, Hc in H. tauto.
Qed.

Lemma ref_inverted d h : Inv d -> refines (Ok (d_inverted d, RNone)) (sstep1 (abs d) (DInverted h) None).
Proof.
  intros [Ho [Hp [Hn Hc]]]. cbn [sstep1 abs s_objs s_props s_cell]. unfold d_inverted.
  apply mk_ref; auto.
  - apply (NoDup_ngrid (fun o p => memp (o, p) (d_pairs d))); [apply Ho|apply Hp].
  - intros o q. rewrite (In_ngrid (fun o p => memp (o, p) (d_pairs d))).
    rewrite !andb_true_iff, negb_true_iff, !memn_In. tauto.
  - intros o q. rewrite !andb_true_iff, !memn_In. tauto.
Qed.

Definition take_sel (sel : option (list nat)) (reorder : bool) (items : list nat) : list nat :=
  match sel with
  | Some l => if reorder then append_new [] l else filter (fun x => memn x l) items
  | None => items
  end.
Definition take_u (sel : option (list nat)) (reorder : bool) (u : unique) : unique :=
  if reorder then match sel with Some l => u_new l | None => u end
  else match sel with Some l => u_iand u l | None => u end.

Lemma take_axis u sel reorder :
  UInv u -> UInv (take_u sel reorder u) /\ u_items (take_u sel reorder u) = take_sel sel reorder (u_items u).
Proof.
  intros H. unfold take_u, take_sel. destruct reorder, sel as [l|]; auto.
  - split; [apply u_new_UInv|apply u_new_items].
  - split; [apply u_iand_UInv; auto|apply u_iand_items; auto].
Qed.

Lemma bad_eq u (sel : option (list nat)) :
  UInv u ->
  match sel with Some (x :: r) => negb (forallb (u_contains u) (x :: r)) | _ => false end =
  match sel with Some (y :: r) => negb (forallb (fun x => memn x (u_items u)) (y :: r)) | _ => false end.
Proof.
  intros H. destruct sel as [[|x r]|]; auto. f_equal. apply forallb_ext'. intros; apply UInv_contains; auto.
Qed.

Lemma ref_take d h objs props reorder :
  Inv d -> refines (do d' <- d_take d objs props reorder ;; Ok (d', RNone)) (sstep1 (abs d) (DTake h objs props reorder) None).
Proof.
  intros [Ho [Hp [Hn Hc]]]. cbn [sstep1 abs s_objs s_props s_cell]. unfold d_take.
  rewrite (bad_eq (d_objs d) objs Ho), (bad_eq (d_props d) props Hp).
  fold (objects_of d) (properties_of d).
  match goal with |- context [if ?b then Raise KeyError else _] => destruct b end; [cbn; auto|].
  cbn [bind].
  change (if reorder then match objs with Some l => u_new l | None => d_objs d end
          else match objs with Some l2 => u_iand (d_objs d) l2 | None => d_objs d end) with (take_u objs reorder (d_objs d)).
  change (if reorder then match props with Some l => u_new l | None => d_props d end
          else match props with Some l2 => u_iand (d_props d) l2 | None => d_props d end) with (take_u props reorder (d_props d)).
  change (match objs with Some l => if reorder then append_new [] l else filter (fun x => memn x l) (objects_of d) | None => objects_of d end)
    with (take_sel objs reorder (objects_of d)).
  change (match props with Some l => if reorder then append_new [] l else filter (fun x => memn x l) (properties_of d) | None => properties_of d end)
    with (take_sel props reorder (properties_of d)).
  destruct (take_axis (d_objs d) objs reorder Ho) as [U1 I1].
  destruct (take_axis (d_props d) props reorder Hp) as [U2 I2].
  fold (objects_of d) in I1. fold (properties_of d) in I2.
  apply mk_ref; auto.
  - apply (NoDup_pgrid (fun o p => memp (o, p) (d_pairs d))); [apply U1|apply U2].
  - intros o q. rewrite (In_pgrid (fun o p => memp (o, p) (d_pairs d))).
    rewrite <- I1, <- I2, !andb_true_iff, !memn_In. tauto.
  - intros o q. rewrite !andb_true_iff, !memn_In. tauto.
Qed.

Lemma d_init_spec os ps bs :
  d_init os ps bs =
    if negb (Nat.eqb (length (append_new [] os)) (length os)) then Raise ValueError
    else if negb (Nat.eqb (length (append_new [] ps)) (length ps)) then Raise ValueError
    else Ok (mkD (u_new os) (u_new ps) (dedup_pairs (zip_pairs os ps bs))).
Proof. unfold d_init. cbv zeta. rewrite !u_new_items. reflexivity. Qed.

Lemma append_new_nil_length l : Nat.eqb (length (append_new [] l)) (length l) = true -> append_new [] l = l.
Proof. intros H. apply Nat.eqb_eq in H. apply (append_new_length_eq [] l). exact H. Qed.

Lemma ref_new a os ps bs :
  refines (do d' <- d_init os ps bs ;; Ok (d', RNone)) (sstep1 a (DNew os ps bs) None).
Proof.
  cbn [sstep1]. unfold s_new. rewrite d_init_spec.
  destruct (Nat.eqb (length (append_new [] os)) (length os)) eqn:E1; cbn [negb bind]; [|cbn; auto].
  destruct (Nat.eqb (length (append_new [] ps)) (length ps)) eqn:E2; cbn [negb bind]; [|cbn; auto].
  apply append_new_nil_length in E1, E2.
  apply mk_ref.
  - apply u_new_UInv.
  - apply u_new_UInv.
  - apply NoDup_dedup_pairs.
  - rewrite u_new_items; auto.
  - rewrite u_new_items; auto.
  - intros o q. rewrite In_dedup_pairs, memp_In. tauto.
  - intros o q H. apply memp_In in H. eapply In_zip_pairs_closed; eauto.
Qed.

Lemma init_self d :
  Inv d ->
  d_init (objects_of d) (properties_of d) (bools_of d) =
    Ok (mkD (mkU (objects_of d) (objects_of d)) (mkU (properties_of d) (properties_of d))
            (dedup_pairs (zip_pairs (objects_of d) (properties_of d) (bools_of d)))).
Proof.
  intros [Ho [Hp _]]. rewrite d_init_spec.
  rewrite (append_new_self_NoDup [] (objects_of d)), (append_new_self_NoDup [] (properties_of d)) by (cbn; first [apply Ho|apply Hp]).
  cbn [app]. rewrite !Nat.eqb_refl. cbn [negb].
  rewrite !u_new_NoDup by first [apply Ho|apply Hp]. reflexivity.
Qed.

Lemma In_init_pairs d o q :
  Inv d -> In (o, q) (dedup_pairs (zip_pairs (objects_of d) (properties_of d) (bools_of d))) <-> In (o, q) (d_pairs d).
Proof.
  intros [Ho [Hp [Hn Hc]]]. rewrite In_dedup_pairs. unfold bools_of.
  rewrite (In_zip_pairs_map (fun o p => memp (o, p) (d_pairs d))), memp_In. split; [tauto|].
  intros H. pose proof (Hc _ _ H). tauto.
Qed.

Lemma ref_rebuild d h :
  Inv d -> refines (do d' <- d_init (objects_of d) (properties_of d) (bools_of d) ;; Ok (d', RNone)) (sstep1 (abs d) (DRebuild h) None).
Proof.
  intros HI. pose proof HI as [Ho [Hp [Hn Hc]]]. rewrite init_self by auto. cbn [sstep1 bind]. unfold abs.
  apply mk_ref; auto.
  - rewrite <- u_new_NoDup by apply Ho. apply u_new_UInv.
  - rewrite <- u_new_NoDup by apply Hp. apply u_new_UInv.
  - apply NoDup_dedup_pairs.
  - intros o q. rewrite In_init_pairs, memp_In by auto. tauto.
  - intros o q H. apply memp_In in H. auto.
Qed.

(** * the machine: one operation on one definition, given the optional other operand *)
Definition dstep1 (d : defn) (o : op) (other : option defn) : res (defn * ret) :=
  match o with
  | OSetItem _ x p v => Ok (d_setitem d x p v, RNone)
  | OSetItemInt _ => Raise ValueError
  | ORenameObject _ a b => do d' <- d_rename_object d a b ;; Ok (d', RNone)
  | ORenameProperty _ a b => do d' <- d_rename_property d a b ;; Ok (d', RNone)
  | OMoveObject _ x i => do d' <- d_move_object d x i ;; Ok (d', RNone)
  | OMoveProperty _ x i => do d' <- d_move_property d x i ;; Ok (d', RNone)
  | OAddObject _ x l => Ok (d_add_object d x l, RNone)
  | OAddProperty _ x l => Ok (d_add_property d x l, RNone)
  | ORemoveObject _ x => do d' <- d_remove_object d x ;; Ok (d', RNone)
  | ORemoveProperty _ x => do d' <- d_remove_property d x ;; Ok (d', RNone)
  | ORemoveEmptyObjects _ => do '(d', l) <- d_remove_empty_objects d ;; Ok (d', RNames l)
  | ORemoveEmptyProperties _ => do '(d', l) <- d_remove_empty_properties d ;; Ok (d', RNames l)
  | OSetObject _ x l => Ok (d_set_object d x l, RNone)
  | OSetProperty _ x l => Ok (d_set_property d x l, RNone)
  | OUnionUpdate _ _ ig | DUnion _ _ ig =>
      match other with
      | None => Raise IndexError
      | Some e => do d' <- d_union_update d e ig ;; Ok (d', RNone)
      end
  | OIntersectionUpdate _ _ ig | DIntersection _ _ ig =>
      match other with
      | None => Raise IndexError
      | Some e => do d' <- d_intersection_update d e ig ;; Ok (d', RNone)
      end
  | DCopy _ => Ok (d_copy d, RNone)
  | DTransposed _ => Ok (d_transposed d, RNone)
  | DInverted _ => Ok (d_inverted d, RNone)
  | DTake _ os ps re => do d' <- d_take d os ps re ;; Ok (d', RNone)
  | DRebuild _ => do d' <- d_init (objects_of d) (properties_of d) (bools_of d) ;; Ok (d', RNone)
  | DNew os ps bs => do d' <- d_init os ps bs ;; Ok (d', RNone)
  end.

(** main handle, other handle, and kind of an operation *)
Definition op_handle (o : op) : option nat :=
  match o with
  | OSetItem h _ _ _ | ORenameObject h _ _ | ORenameProperty h _ _
  | OMoveObject h _ _ | OMoveProperty h _ _ | OAddObject h _ _ | OAddProperty h _ _
  | ORemoveObject h _ | ORemoveProperty h _ | ORemoveEmptyObjects h | ORemoveEmptyProperties h
  | OSetObject h _ _ | OSetProperty h _ _ | OUnionUpdate h _ _ | OIntersectionUpdate h _ _
  | DCopy h | DTransposed h | DInverted h | DUnion h _ _ | DIntersection h _ _
  | DTake h _ _ _ | DRebuild h => Some h
  | OSetItemInt _ | DNew _ _ _ => None   (* no definition is consulted *)
  end.

Definition op_other (o : op) : option nat :=
  match o with
  | OUnionUpdate _ k _ | OIntersectionUpdate _ k _ | DUnion _ k _ | DIntersection _ k _ => Some k
  | _ => None
  end.

Definition is_derive (o : op) : bool :=
  match o with
  | DCopy _ | DTransposed _ | DInverted _ | DUnion _ _ _ | DIntersection _ _ _
  | DTake _ _ _ _ | DRebuild _ | DNew _ _ _ => true
  | _ => false
  end.

Definition other_of (s : store) (o : op) : option defn :=
  match op_other o with Some k => nth_error s k | None => None end.

(** The central refinement lemma (C13): on invariant-satisfying operands, the model operation and
    the plain-table operation raise the same exception, or return the same value and
    related tables; and the invariant is preserved. *)
Theorem dstep1_refines d o other :
  Inv d -> (forall e, other = Some e -> Inv e) ->
  refines (dstep1 d o other) (sstep1 (abs d) o (option_map abs other)).
Proof.
  intros HI HO. destruct o; cbn [dstep1].
  - apply (ref_setitem d 0%nat); auto.
  - cbn. auto.
  - apply (ref_rename_object d 0%nat); auto.
  - apply (ref_rename_property d 0%nat); auto.
  - apply (ref_move_object d 0%nat); auto.
  - apply (ref_move_property d 0%nat); auto.
  - apply (ref_add_object d 0%nat); auto.
  - apply (ref_add_property d 0%nat); auto.
  - apply (ref_remove_object d 0%nat); auto.
  - apply (ref_remove_property d 0%nat); auto.
  - apply (ref_remove_empty_objects d 0%nat); auto.
  - apply (ref_remove_empty_properties d 0%nat); auto.
  - apply (ref_set_object d 0%nat); auto.
  - apply (ref_set_property d 0%nat); auto.
  - destruct other as [e|]; cbn [option_map sstep1]; [|cbn; auto]. apply union_core; auto.
  - destruct other as [e|]; cbn [option_map sstep1]; [|cbn; auto]. apply intersection_core; auto.
  - apply (ref_copy d 0%nat); auto.
  - apply (ref_transposed d 0%nat); auto.
  - apply (ref_inverted d 0%nat); auto.
  - destruct other as [e|]; cbn [option_map sstep1]; [|cbn; auto]. apply union_core; auto.
  - destruct other as [e|]; cbn [option_map sstep1]; [|cbn; auto]. apply intersection_core; auto.
  - apply (ref_take d 0%nat); auto.
  - apply (ref_rebuild d 0%nat); auto.
  - apply (ref_new (abs d)).
Qed.

(** * [step] is [dstep1] on the addressed definition(s) *)
Definition d_empty : defn := mkD (mkU [] []) (mkU [] []) [].

Definition finish (s : store) (o : op) (h : nat) (r : res (defn * ret)) : res (store * ret) :=
  do '(d', r') <- r ;;
  if is_derive o then Ok (s ++ [d'], RHandle (length s)) else Ok (put s h d', r').

Lemma step_dstep1 s o :
  step s o =
  match op_handle o with
  | Some h => do d <- get s h ;; finish s o h (dstep1 d o (other_of s o))
  | None => finish s o 0 (dstep1 d_empty o None)
  end.
Proof.
  destruct o; cbn [step dstep1 op_handle op_other other_of is_derive finish]; unfold get, upd, derive, d_copy;
    try reflexivity;
    repeat match goal with
           | |- context [nth_error s ?h] => destruct (nth_error s h); cbn [bind]; try reflexivity
           end;
    try match goal with |- context [bind ?x _] => destruct x as [[? ?]|?]; cbn [bind]; try reflexivity end;
    try match goal with |- context [bind ?x _] => destruct x; cbn [bind]; try reflexivity end.
Qed.

(** * store-level statements *)
Lemma put_length s h d : length (put s h d) = length s.
Proof. revert h; induction s as [|x r IH]; intros [|h]; cbn; auto. Qed.

Lemma nth_error_put_same s h d : (h < length s)%nat -> nth_error (put s h d) h = Some d.
Proof. revert h; induction s as [|x r IH]; intros [|h]; cbn; try lia; auto. intros H. apply IH. lia. Qed.

Lemma nth_error_put_other s h d k : k <> h -> nth_error (put s h d) k = nth_error s k.
Proof.
  revert h k; induction s as [|x r IH]; intros [|h] [|k] H; cbn; auto; try congruence.
Qed.

Lemma Forall_put (P : defn -> Prop) s h d : Forall P s -> P d -> Forall P (put s h d).
Proof.
  intros H Hd. revert h; induction H as [|x r Hx Hr IH]; intros [|h]; cbn; auto.
Qed.

Lemma Forall_nth_error (P : defn -> Prop) s h d : Forall P s -> nth_error s h = Some d -> P d.
Proof. intros H E. apply nth_error_In in E. rewrite Forall_forall in H. auto. Qed.

Lemma other_Inv s o : Forall Inv s -> forall e, other_of s o = Some e -> Inv e.
Proof.
  intros H e. unfold other_of. destruct (op_other o); [|discriminate]. intros E. eapply Forall_nth_error; eauto.
Qed.

Lemma derive_ret a o other a' r' : is_derive o = true -> sstep1 a o other = Ok (a', r') -> r' = RNone.
Proof.
  destruct o; cbn [is_derive sstep1]; try discriminate; intros _.
  - intros [= _ <-]; auto.
  - intros [= _ <-]; auto.
  - intros [= _ <-]; auto.
  - destruct other; [|discriminate]. destruct (_ && _); [discriminate|]. intros [= _ <-]; auto.
  - destruct other; [|discriminate]. destruct (_ && _); [discriminate|]. intros [= _ <-]; auto.
  - cbv zeta. destruct (_ || _); [discriminate|]. intros [= _ <-]; auto.
  - intros [= _ <-]; auto.
  - destruct (s_new objs props bools); cbn [bind]; [|discriminate]. intros [= _ <-]; auto.
Qed.

(** how the store changes: an in-place operation updates handle [h]; a deriving operation
    appends the new definition and returns its handle (the spec side returns [RNone]) *)
Definition store_rel (s : store) (o : op) (h : nat) (s' : store) (r : ret) (d' : defn) (r' : ret) : Prop :=
  if is_derive o then s' = s ++ [d'] /\ r = RHandle (length s) /\ r' = RNone
  else s' = put s h d' /\ r = r'.

Lemma finish_refines s o h m sp :
  refines m sp ->
  (forall a' r', sp = Ok (a', r') -> is_derive o = true -> r' = RNone) ->
  match finish s o h m, sp with
  | Ok (s', r), Ok (a', r') => exists d', sim a' d' /\ Inv d' /\ store_rel s o h s' r d' r'
  | Raise e, Raise e' => e = e'
  | _, _ => False
  end.
Proof.
  unfold refines, finish, store_rel. intros R HR.
  destruct m as [[d' r]|e]; destruct sp as [[a' r']|e']; try contradiction; cbn [bind]; auto.
  destruct R as [-> [Hs Hi]]. destruct (is_derive o) eqn:D.
  - exists d'. split; [exact Hs|]. split; [exact Hi|]. split; auto. split; auto. eapply HR; eauto.
  - exists d'. split; [exact Hs|]. split; [exact Hi|]. split; auto.
Qed.

(** C13, store level: operations that address a definition [h] *)
Theorem step_refines s o h d :
  Forall Inv s -> op_handle o = Some h -> nth_error s h = Some d ->
  match step s o, sstep1 (abs d) o (option_map abs (other_of s o)) with
  | Ok (s', r), Ok (a', r') => exists d', sim a' d' /\ Inv d' /\ store_rel s o h s' r d' r'
  | Raise e, Raise e' => e = e'
  | _, _ => False
  end.
Proof.
  intros HS Hh Hd. rewrite step_dstep1, Hh. unfold get. rewrite Hd. cbn [bind].
  apply finish_refines.
  - apply dstep1_refines; [eapply Forall_nth_error; eauto|apply other_Inv; auto].
  - intros a' r' E D. eapply derive_ret; eauto.
Qed.

(** operations that address no definition: [DNew] and the rejected integer-key assignment *)
Theorem step_refines_nohandle s o a :
  op_handle o = None ->
  match step s o, sstep1 a o None with
  | Ok (s', r), Ok (a', r') => exists d', sim a' d' /\ Inv d' /\ store_rel s o 0 s' r d' r'
  | Raise e, Raise e' => e = e'
  | _, _ => False
  end.
Proof.
  intros Hh. rewrite step_dstep1, Hh. apply finish_refines.
  - destruct o; try discriminate; cbn [dstep1 sstep1]; [cbn; auto|apply (ref_new a)].
  - intros a' r' E D. eapply derive_ret; eauto.
Qed.

(** an invalid main handle is an IndexError *)
Lemma step_bad_handle s o h : op_handle o = Some h -> nth_error s h = None -> step s o = Raise IndexError.
Proof. intros Hh Hn. rewrite step_dstep1, Hh. unfold get. rewrite Hn. reflexivity. Qed.

(** frame: shape of the new store (no invariant needed) *)
Theorem step_frame s o s' r :
  step s o = Ok (s', r) ->
  if is_derive o then exists d', s' = s ++ [d'] /\ r = RHandle (length s)
  else exists h d', op_handle o = Some h /\ (h < length s)%nat /\ s' = put s h d'.
Proof.
  rewrite step_dstep1. destruct (op_handle o) as [h|] eqn:Hh.
  - unfold get. destruct (nth_error s h) as [d|] eqn:Hd; cbn [bind]; [|discriminate].
    unfold finish. destruct (dstep1 d o (other_of s o)) as [[d' r']|e]; cbn [bind]; [|discriminate].
    destruct (is_derive o); cbv iota; intros [= <- <-]; eauto.
    exists h, d'. repeat split; auto. apply nth_error_Some. congruence.
  - unfold finish. destruct (dstep1 d_empty o None) as [[d' r']|e] eqn:E; cbn [bind]; [|discriminate].
    destruct (is_derive o) eqn:D; cbv iota; intros [= <- <-]; eauto.
    destruct o; cbn in Hh, D, E; discriminate.
Qed.

Corollary step_length s o s' r :
  step s o = Ok (s', r) -> length s' = if is_derive o then S (length s) else length s.
Proof.
  intros H. apply step_frame in H. destruct (is_derive o).
  - destruct H as [d' [-> _]]. rewrite app_length. cbn. lia.
  - destruct H as [h [d' [_ [_ ->]]]]. apply put_length.
Qed.

Corollary step_old_handles s o s' r k :
  step s o = Ok (s', r) -> (k < length s)%nat -> (is_derive o = false -> op_handle o <> Some k) ->
  nth_error s' k = nth_error s k.
Proof.
  intros H Hk Hne. apply step_frame in H. destruct (is_derive o).
  - destruct H as [d' [-> _]]. apply nth_error_app1; auto.
  - destruct H as [h [d' [Hh [_ ->]]]]. apply nth_error_put_other. intros ->. apply Hne; auto.
Qed.

(** 1. every successful step preserves the invariant of all definitions in the store *)
Theorem step_Inv s o s' r : Forall Inv s -> step s o = Ok (s', r) -> Forall Inv s'.
Proof.
  intros HS E. destruct (op_handle o) as [h|] eqn:Hh.
  - destruct (nth_error s h) as [d|] eqn:Hd.
    + pose proof (step_refines s o h d HS Hh Hd) as R. rewrite E in R.
      destruct (sstep1 (abs d) o (option_map abs (other_of s o))) as [[a' r']|e']; [|contradiction].
      destruct R as [d' [_ [Hi R]]]. unfold store_rel in R. destruct (is_derive o).
      * destruct R as [-> _]. apply Forall_app. split; auto.
      * destruct R as [-> _]. apply Forall_put; auto.
    + rewrite (step_bad_handle s o h Hh Hd) in E. discriminate.
  - pose proof (step_refines_nohandle s o (abs d_empty) Hh) as R. rewrite E in R.
    destruct (sstep1 (abs d_empty) o None) as [[a' r']|e']; [|contradiction].
    destruct R as [d' [_ [Hi R]]]. unfold store_rel in R. destruct (is_derive o).
    + destruct R as [-> _]. apply Forall_app. split; auto.
    + destruct R as [-> _]. apply Forall_put; auto.
Qed.

Lemma d_init_Inv os ps bs d : d_init os ps bs = Ok d -> Inv d.
Proof.
  intros E. pose proof (ref_new (abs d_empty) os ps bs) as R. rewrite E in R. cbn [bind] in R.
  unfold refines in R. destruct (sstep1 (abs d_empty) (DNew os ps bs) None) as [[a' r']|e']; [|contradiction]. tauto.
Qed.

Lemma step_total_Inv s o : Forall Inv s -> Forall Inv (fst (step_total s o)).
Proof.
  intros HS. unfold step_total. destruct (step s o) as [[s' r]|e] eqn:E; cbn [fst]; auto.
  eapply step_Inv; eauto.
Qed.

(** 5. histories *)
Lemma run_history_from ops s : Forall Inv s -> Forall Inv (fold_left (fun s o => fst (step_total s o)) ops s).
Proof.
  revert s; induction ops as [|o ops IH]; intros s HS; cbn [fold_left]; auto.
  apply IH, step_total_Inv, HS.
Qed.

Theorem run_history : forall ops, let final := fold_left (fun s o => fst (step_total s o)) ops [] in Forall Inv final.
Proof. intros ops. apply run_history_from. constructor. Qed.

(** * 4. no residue: d == Definition( *d) *)
Theorem eq_fresh_Inv d : Inv d -> eq_fresh d = true.
Proof.
  intros HI. pose proof HI as [Ho [Hp [Hn Hc]]]. unfold eq_fresh. rewrite init_self by auto.
  unfold d_eq, u_eq, pairs_eq. cbn [d_objs d_props d_pairs u_items u_seen].
  fold (objects_of d) (properties_of d). rewrite !Nat.eqb_refl. cbn [andb].
  repeat (apply andb_true_iff; split); apply forallb_forall.
  - intros x Hx. apply memn_In; auto.
  - intros x Hx. apply memn_In; auto.
  - intros [o q] Hx. apply memp_In, In_init_pairs; auto.
  - intros [o q] Hx. apply memp_In. apply In_init_pairs in Hx; auto.
Qed.

Corollary history_eq_fresh ops :
  Forall (fun d => eq_fresh d = true) (fold_left (fun s o => fst (step_total s o)) ops []).
Proof. eapply Forall_impl; [|apply run_history]. intros d. apply eq_fresh_Inv. Qed.

(** * 6. shape of bools *)
Theorem bools_shape d :
  length (bools_of d) = length (objects_of d) /\
  Forall (fun row => length row = length (properties_of d)) (bools_of d).
Proof.
  unfold bools_of. split; [apply map_length|]. apply Forall_forall. intros row H.
  apply in_map_iff in H. destruct H as [o [<- _]]. apply map_length.
Qed.

(** * the refinement in the form of the task statement *)
Lemma sim_pack a' d' :
  sim a' d' -> Inv d' ->
  Inv d' /\ obs_sdef a' = obs_defn d' /\ s_ok a' /\ (forall x p, s_cell a' x p = memp (x, p) (d_pairs d')).
Proof.
  intros Hs Hi. split; auto. split; [apply sim_obs; auto|]. split; [eapply sim_ok; eauto|apply Hs].
Qed.
Corollary step_ok_inplace s o h d s' r :
  Forall Inv s -> op_handle o = Some h -> nth_error s h = Some d -> is_derive o = false ->
  step s o = Ok (s', r) ->
  exists a' d', sstep1 (abs d) o (option_map abs (other_of s o)) = Ok (a', r) /\
                s' = put s h d' /\ nth_error s' h = Some d' /\ Inv d' /\
                obs_sdef a' = obs_defn d' /\ s_ok a' /\
                (forall x p, s_cell a' x p = memp (x, p) (d_pairs d')).
Proof.
  intros HS Hh Hd D E. pose proof (step_refines s o h d HS Hh Hd) as R. rewrite E in R.
  destruct (sstep1 (abs d) o (option_map abs (other_of s o))) as [[a' r']|e']; [|contradiction].
  destruct R as [d' [Hs [Hi R]]]. unfold store_rel in R. rewrite D in R. destruct R as [-> ->].
  exists a', d'. split; auto. split; auto.
  split; [apply nth_error_put_same; apply nth_error_Some; congruence|]. apply sim_pack; auto.
Qed.

Corollary step_ok_derive s o h d s' r :
  Forall Inv s -> op_handle o = Some h -> nth_error s h = Some d -> is_derive o = true ->
  step s o = Ok (s', r) ->
  exists a' d', sstep1 (abs d) o (option_map abs (other_of s o)) = Ok (a', RNone) /\
                s' = s ++ [d'] /\ r = RHandle (length s) /\ nth_error s' (length s) = Some d' /\ Inv d' /\
                obs_sdef a' = obs_defn d' /\ s_ok a' /\
                (forall x p, s_cell a' x p = memp (x, p) (d_pairs d')).
Proof.
  intros HS Hh Hd D E. pose proof (step_refines s o h d HS Hh Hd) as R. rewrite E in R.
  destruct (sstep1 (abs d) o (option_map abs (other_of s o))) as [[a' r']|e']; [|contradiction].
  destruct R as [d' [Hs [Hi R]]]. unfold store_rel in R. rewrite D in R. destruct R as [-> [-> ->]].
  exists a', d'. split; auto. split; auto. split; auto.
  split; [rewrite nth_error_app2, Nat.sub_diag; auto|]. apply sim_pack; auto.
Qed.

Corollary step_ok_new s os ps bs s' r :
  step s (DNew os ps bs) = Ok (s', r) ->
  exists a' d', s_new os ps bs = Ok a' /\
                s' = s ++ [d'] /\ r = RHandle (length s) /\ Inv d' /\
                obs_sdef a' = obs_defn d' /\ s_ok a' /\
                (forall x p, s_cell a' x p = memp (x, p) (d_pairs d')).
Proof.
  intros E. pose proof (step_refines_nohandle s (DNew os ps bs) (abs d_empty) eq_refl) as R. rewrite E in R.
  cbn [sstep1] in R. destruct (s_new os ps bs) as [a|e]; cbn [bind] in R; [|contradiction].
  destruct R as [d' [Hs [Hi R]]]. unfold store_rel in R. cbn [is_derive] in R. destruct R as [-> [-> _]].
  exists a, d'. split; auto. split; auto. split; auto. apply sim_pack; auto.
Qed.

Corollary step_raise_iff s o h d e :
  Forall Inv s -> op_handle o = Some h -> nth_error s h = Some d ->
  (step s o = Raise e <-> sstep1 (abs d) o (option_map abs (other_of s o)) = Raise e).
Proof.
  intros HS Hh Hd. pose proof (step_refines s o h d HS Hh Hd) as R.
  destruct (step s o) as [[s' r]|e1]; destruct (sstep1 (abs d) o (option_map abs (other_of s o))) as [[a' r']|e2];
    try contradiction.
  - split; discriminate.
  - cbv beta iota in R. subst. split; intros [= ->]; reflexivity.
Qed.

Corollary step_raise_iff_nohandle s o a e :
  op_handle o = None -> (step s o = Raise e <-> sstep1 a o None = Raise e).
Proof.
  intros Hh. pose proof (step_refines_nohandle s o a Hh) as R.
  destruct (step s o) as [[s' r]|e1]; destruct (sstep1 a o None) as [[a' r']|e2]; try contradiction.
  - split; discriminate.
  - cbv beta iota in R. subst. split; intros [= ->]; reflexivity.
Qed.

(** a rejected call leaves the store unchanged (by definition of [step_total]) *)
Lemma step_total_raise s o e : step s o = Raise e -> step_total s o = (s, Raise e).
Proof. intros H. unfold step_total. rewrite H. reflexivity. Qed.
