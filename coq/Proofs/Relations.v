(** C16 end to end: [relations nG cols include_unary] (Model/Junctors.v) computes, for every list of
    property columns over [nG >= 1] objects, exactly the entries required by the mathematical
    classification of the columns, in the documented order.

    - [occurs nG a b x y]: some object g < nG has (mem a g, mem b g) = (x, y).
    - unary classification [ukind] (tautology / contradiction / contingency) and binary classification
      [bkind] (seven kinds, [Replication] being the code's internal name of an implication right -> left),
      both given as *propositions* over [occurs]/[has] ([ukind_of], [kind_of]) independent of the tables, and as
      boolean deciders ([uclassify], [classify]) proved correct and unique w.r.t. these propositions.
    - kinds are stated through the small inductives [ukind]/[bkind] with the functions [ukind_name]/[bkind_name]
      to the kind-name strings of the tables (code points) and [ukind_order]/[bkind_order] to the ranks.
    - [relations_eq]: the result IS [sort_by okey (unary entries ++ binary entries)] (stable insertion sort).

    Printing ([tostring] of the result, in particular of the empty result) is NOT modelled in Coq; it is
    exercised by the test harness only. *)
From Coq Require Import ZArith List Bool Lia ZifyBool Sorted Permutation Arith.
From Concepts Require Import Base.Res Base.PyInt Base.BitSet Spec.Context Model.JunctorsTables Model.Lattice
  Model.Junctors Proofs.Junctors.
Import ListNotations.
Open Scope Z_scope.

(** * 1. Occurrence of combinations among the objects *)

Definition has (nG : nat) (a : Z) (x : bool) : Prop := exists g, (g < nG)%nat /\ mem a g = x.
Definition occurs (nG : nat) (a b : Z) (x y : bool) : Prop :=
  exists g, (g < nG)%nat /\ mem a g = x /\ mem b g = y.

Definition contingent_col (nG : nat) (a : Z) : Prop := has nG a true /\ has nG a false.
Definition universal_col (nG : nat) (a : Z) : Prop := forall g, (g < nG)%nat -> mem a g = true.
Definition empty_col (nG : nat) (a : Z) : Prop := forall g, (g < nG)%nat -> mem a g = false.

Definition hasb (nG : nat) (a : Z) (x : bool) : bool := existsb (bool_eqb x) (column_bools nG a).
Definition occursb (nG : nat) (a b : Z) (x y : bool) : bool :=
  occ (combine (column_bools nG a) (column_bools nG b)) (x, y).

Lemma In_column_bools nG a x : In x (column_bools nG a) <-> has nG a x.
Proof.
  unfold column_bools, has. rewrite in_map_iff. split.
  - intros [g [E Hg]]. apply in_seq in Hg. exists g. split; [lia|exact E].
  - intros [g [Hg E]]. exists g. split; [exact E|apply in_seq; lia].
Qed.

Lemma hasb_spec nG a x : hasb nG a x = true <-> has nG a x.
Proof.
  unfold hasb. rewrite existsb_exists, <- In_column_bools. split.
  - intros [y [Hy E]]. apply (proj1 (bool_eqb_eq _ _)) in E. subst. exact Hy.
  - intros H. exists x. split; [exact H|apply bool_eqb_eq; reflexivity].
Qed.

Lemma combine_map_same {A B C} (f : A -> B) (g : A -> C) l :
  combine (map f l) (map g l) = map (fun i => (f i, g i)) l.
Proof. induction l as [|x l IH]; cbn; [reflexivity|rewrite IH; reflexivity]. Qed.

Lemma In_combine_columns nG a b x y :
  In (x, y) (combine (column_bools nG a) (column_bools nG b)) <-> occurs nG a b x y.
Proof.
  unfold column_bools, occurs. rewrite combine_map_same, in_map_iff. split.
  - intros [g [E Hg]]. apply in_seq in Hg. injection E as E1 E2. exists g. repeat split; [lia|exact E1|exact E2].
  - intros [g [Hg [E1 E2]]]. exists g. split; [rewrite E1, E2; reflexivity|apply in_seq; lia].
Qed.

Lemma occursb_spec nG a b x y : occursb nG a b x y = true <-> occurs nG a b x y.
Proof. unfold occursb. rewrite occ_In. apply In_combine_columns. Qed.

Lemma length_column_bools nG a : length (column_bools nG a) = nG.
Proof. unfold column_bools. rewrite map_length, seq_length. reflexivity. Qed.

Lemma occurs_has_l nG a b x y : occurs nG a b x y -> has nG a x.
Proof. intros [g [Hg [E _]]]. exists g. split; assumption. Qed.
Lemma occurs_has_r nG a b x y : occurs nG a b x y -> has nG b y.
Proof. intros [g [Hg [_ E]]]. exists g. split; assumption. Qed.
Lemma has_occurs_l nG a b x : has nG a x -> exists y, occurs nG a b x y.
Proof. intros [g [Hg E]]. exists (mem b g), g. repeat split; assumption. Qed.
Lemma has_occurs_r nG a b y : has nG b y -> exists x, occurs nG a b x y.
Proof. intros [g [Hg E]]. exists (mem a g), g. repeat split; assumption. Qed.
Lemma occurs_swap nG a b x y : occurs nG a b x y <-> occurs nG b a y x.
Proof. split; intros [g [Hg [E1 E2]]]; exists g; repeat split; assumption. Qed.

(** * 2. Unary classification *)

Inductive ukind := Tautology | Contradiction | Contingency.

Definition kind_tautology : list Z := [116; 97; 117; 116; 111; 108; 111; 103; 121].
Definition kind_contradiction : list Z := [99; 111; 110; 116; 114; 97; 100; 105; 99; 116; 105; 111; 110].

Definition ukind_name (k : ukind) : list Z :=
  match k with Tautology => kind_tautology | Contradiction => kind_contradiction | Contingency => kind_contingency end.
Definition ukind_order (k : ukind) : Z :=
  match k with Tautology => -1 | Contradiction => -2 | Contingency => 0 end.

(** the mathematical meaning of the three unary kinds *)
Definition ukind_of (nG : nat) (a : Z) (k : ukind) : Prop :=
  match k with
  | Tautology => universal_col nG a
  | Contradiction => empty_col nG a
  | Contingency => contingent_col nG a
  end.

Definition ucl (t f : bool) : ukind := if t then (if f then Contingency else Tautology) else Contradiction.
Definition uclassify (nG : nat) (a : Z) : ukind := ucl (hasb nG a true) (hasb nG a false).
Definition contingentb (nG : nat) (a : Z) : bool := hasb nG a true && hasb nG a false.

Lemma not_has_iff nG a x : ~ has nG a x <-> forall g, (g < nG)%nat -> mem a g = negb x.
Proof.
  split.
  - intros H g Hg. destruct (mem a g) eqn:E, x; try reflexivity; exfalso; apply H; exists g; split; assumption.
  - intros H [g [Hg E]]. rewrite (H g Hg) in E. destruct x; discriminate.
Qed.

Lemma hasb_false nG a x : hasb nG a x = false <-> forall g, (g < nG)%nat -> mem a g = negb x.
Proof.
  rewrite <- not_has_iff, <- hasb_spec. destruct (hasb nG a x); split; intros H; congruence.
Qed.

Lemma contingentb_spec nG a : contingentb nG a = true <-> contingent_col nG a.
Proof. unfold contingentb, contingent_col. rewrite andb_true_iff, !hasb_spec. tauto. Qed.

Theorem uclassify_spec nG a : (1 <= nG)%nat -> ukind_of nG a (uclassify nG a).
Proof.
  intros HnG. unfold uclassify, ucl.
  destruct (hasb nG a true) eqn:Et.
  - destruct (hasb nG a false) eqn:Ef.
    + split; apply hasb_spec; assumption.
    + cbn. intros g Hg. apply (proj1 (hasb_false nG a false) Ef g Hg).
  - cbn. intros g Hg. apply (proj1 (hasb_false nG a true) Et g Hg).
Qed.

(** each column has exactly one unary kind (this is where [nG >= 1] is needed) *)
Theorem ukind_of_unique nG a k k' : (1 <= nG)%nat -> ukind_of nG a k -> ukind_of nG a k' -> k = k'.
Proof.
  intros HnG H H'.
  assert (U : forall x, (forall g, (g < nG)%nat -> mem a g = x) -> has nG a x /\ ~ has nG a (negb x)).
  { intros x Hx. split; [exists O; split; [lia|apply Hx; lia]|].
    intros [g [Hg E]]. rewrite (Hx g Hg) in E. destruct x; discriminate. }
  destruct k, k'; try reflexivity; cbn in H, H'; exfalso;
    try apply U in H; try apply U in H'; cbn [negb] in *; unfold contingent_col in *; tauto.
Qed.

Lemma ukind_of_iff nG a k : (1 <= nG)%nat -> ukind_of nG a k <-> uclassify nG a = k.
Proof.
  intros HnG. split.
  - intros H. apply (ukind_of_unique nG a _ _ HnG (uclassify_spec nG a HnG) H).
  - intros <-. apply uclassify_spec. exact HnG.
Qed.

Lemma contingentb_uclassify nG a : contingentb nG a = true <-> uclassify nG a = Contingency.
Proof.
  unfold contingentb, uclassify, ucl. destruct (hasb nG a true), (hasb nG a false); cbn; split; congruence.
Qed.

Lemma find_ext' {A} (f g : A -> bool) l : (forall x, f x = g x) -> find f l = find g l.
Proof. intros H. induction l as [|x l IH]; cbn; [reflexivity|]. rewrite H, IH. reflexivity. Qed.

Lemma unary_lookup vals : vals <> [] ->
  lookup_table bool_eqb unary_table vals =
  Ok (ukind_name (ucl (existsb (bool_eqb true) vals) (existsb (bool_eqb false) vals)),
      ukind_order (ucl (existsb (bool_eqb true) vals) (existsb (bool_eqb false) vals))).
Proof.
  intros Hne. unfold lookup_table.
  rewrite (find_ext' _ _ unary_table (fun row => same_set_bool_ext (fst (fst row)) vals (canon1 vals) (canon1_same vals))).
  unfold canon1. cbn [filter].
  destruct (existsb (bool_eqb true) vals) eqn:Et, (existsb (bool_eqb false) vals) eqn:Ef; try (vm_compute; reflexivity).
  exfalso. destruct vals as [|[|] vals]; [congruence| |]; cbn in Et, Ef; discriminate.
Qed.

Lemma unary_lookup_column nG a : (1 <= nG)%nat ->
  lookup_table bool_eqb unary_table (column_bools nG a) =
  Ok (ukind_name (uclassify nG a), ukind_order (uclassify nG a)).
Proof.
  intros HnG. apply unary_lookup. intros E. pose proof (length_column_bools nG a) as L. rewrite E in L. cbn in L. lia.
Qed.

(** * 3. Binary classification *)

Inductive bkind := Equivalent | Complement | Incompatible | Implication | Replication | Subcontrary | Orthogonal.

Definition kind_equivalent : list Z := [101; 113; 117; 105; 118; 97; 108; 101; 110; 116].
Definition kind_complement : list Z := [99; 111; 109; 112; 108; 101; 109; 101; 110; 116].
Definition kind_incompatible : list Z := [105; 110; 99; 111; 109; 112; 97; 116; 105; 98; 108; 101].
Definition kind_subcontrary : list Z := [115; 117; 98; 99; 111; 110; 116; 114; 97; 114; 121].
Definition kind_orthogonal : list Z := [111; 114; 116; 104; 111; 103; 111; 110; 97; 108].

Definition bkind_name (k : bkind) : list Z :=
  match k with
  | Equivalent => kind_equivalent | Complement => kind_complement | Incompatible => kind_incompatible
  | Implication => kind_implication | Replication => kind_replication
  | Subcontrary => kind_subcontrary | Orthogonal => kind_orthogonal
  end.
Definition bkind_order (k : bkind) : Z :=
  match k with
  | Equivalent => 1 | Complement => 2 | Incompatible => 3 | Implication => 4 | Replication => 5
  | Subcontrary => 6 | Orthogonal => 7
  end.

(** the mathematical meaning of the seven kinds for a left column [a] and a right column [b] *)
Definition kind_rel (o : bool -> bool -> Prop) (k : bkind) : Prop :=
  match k with
  | Equivalent => ~ o true false /\ ~ o false true
  | Complement => ~ o true true /\ ~ o false false
  | Incompatible => ~ o true true /\ o false false
  | Implication => ~ o true false /\ o false true
  | Replication => ~ o false true /\ o true false
  | Subcontrary => o true true /\ o true false /\ o false true /\ ~ o false false
  | Orthogonal => o true true /\ o true false /\ o false true /\ o false false
  end.
Definition kind_of (nG : nat) (a b : Z) (k : bkind) : Prop := kind_rel (occurs nG a b) k.

Lemma kind_rel_ext (o o' : bool -> bool -> Prop) k : (forall x y, o x y <-> o' x y) -> kind_rel o k <-> kind_rel o' k.
Proof. intros H. destruct k; cbn; rewrite !H; tauto. Qed.

Definition bcl (tt tf ft ff : bool) : bkind :=
  if tf then
    if ft then
      if tt then (if ff then Orthogonal else Subcontrary) else (if ff then Incompatible else Complement)
    else Replication
  else (if ft then Implication else Equivalent).

Definition classify (nG : nat) (a b : Z) : bkind :=
  bcl (occursb nG a b true true) (occursb nG a b true false) (occursb nG a b false true) (occursb nG a b false false).

Lemma occursb_false nG a b x y : occursb nG a b x y = false <-> ~ occurs nG a b x y.
Proof. rewrite <- occursb_spec. destruct (occursb nG a b x y); split; congruence. Qed.

Theorem classify_spec nG a b : kind_of nG a b (classify nG a b).
Proof.
  unfold classify, bcl.
  destruct (occursb nG a b true true) eqn:Ett, (occursb nG a b true false) eqn:Etf,
           (occursb nG a b false true) eqn:Eft, (occursb nG a b false false) eqn:Eff;
    rewrite ?occursb_spec, ?occursb_false in *; unfold kind_of; cbn; tauto.
Qed.

(** for contingent columns the seven kinds are mutually exclusive *)
Theorem kind_of_unique nG a b k k' : contingent_col nG a -> contingent_col nG b ->
  kind_of nG a b k -> kind_of nG a b k' -> k = k'.
Proof.
  intros [Hat Haf] [Hbt Hbf] H H'.
  destruct (has_occurs_l nG a b true Hat) as [y1 H1].
  destruct (has_occurs_l nG a b false Haf) as [y2 H2].
  destruct (has_occurs_r nG a b true Hbt) as [x3 H3].
  destruct (has_occurs_r nG a b false Hbf) as [x4 H4].
  destruct k, k'; try reflexivity; exfalso; unfold kind_of in H, H'; cbn in H, H'; destruct y1, y2, x3, x4; tauto.
Qed.

Lemma kind_of_iff nG a b k : contingent_col nG a -> contingent_col nG b ->
  kind_of nG a b k <-> classify nG a b = k.
Proof.
  intros Ha Hb. split.
  - intros H. apply (kind_of_unique nG a b _ _ Ha Hb (classify_spec nG a b) H).
  - intros <-. apply classify_spec.
Qed.

Lemma find_canon vals :
  find (fun row : list (bool * bool) * list Z * Z => same_set pair_bool_eqb (fst (fst row)) vals) binary_table =
  find (fun row : list (bool * bool) * list Z * Z => same_set pair_bool_eqb (fst (fst row)) (canon vals)) binary_table.
Proof. apply find_ext'. intros row. apply same_set_ext. apply canon_same. Qed.

Lemma binary_lookup vals : admissible vals = true ->
  lookup_table pair_bool_eqb binary_table vals =
  Ok (bkind_name (bcl (occ vals (true, true)) (occ vals (true, false)) (occ vals (false, true)) (occ vals (false, false))),
      bkind_order (bcl (occ vals (true, true)) (occ vals (true, false)) (occ vals (false, true)) (occ vals (false, false)))).
Proof.
  unfold lookup_table, admissible. rewrite find_canon. unfold canon, all4. cbn [filter].
  destruct (occ vals (true, true)), (occ vals (true, false)), (occ vals (false, true)), (occ vals (false, false));
    cbn [orb andb]; intros Ha; try discriminate Ha; vm_compute; reflexivity.
Qed.

Lemma In_column_contingent nG a : contingent_col nG a -> contingent (column_bools nG a).
Proof. intros [Ht Hf]. split; apply In_column_bools; assumption. Qed.

Lemma binary_lookup_columns nG a b : contingent_col nG a -> contingent_col nG b ->
  lookup_table pair_bool_eqb binary_table (combine (column_bools nG a) (column_bools nG b)) =
  Ok (bkind_name (classify nG a b), bkind_order (classify nG a b)).
Proof.
  intros Ha Hb. apply binary_lookup. apply admissible_of_contingent.
  - rewrite !length_column_bools. reflexivity.
  - apply In_column_contingent. exact Ha.
  - apply In_column_contingent. exact Hb.
Qed.

(** * 4. The value computed by [relations] *)

Definition okey (e : entry) : key := let '(_, _, _, o) := e in (o, 0).

Definition colat (cols : list Z) (i : nat) : Z := nth i cols 0.

(** indices of the contingent properties, increasing *)
Definition contingent_indices (nG : nat) (cols : list Z) : list nat :=
  filter (fun i => contingentb nG (colat cols i)) (seq 0 (length cols)).

Definition unary_entry (nG : nat) (cols : list Z) (i : nat) : entry :=
  (ukind_name (uclassify nG (colat cols i)), i, None, ukind_order (uclassify nG (colat cols i))).

(** the entry of the pair (i, j), i the earlier property: a [Replication] i <- j is reported as the
    implication j -> i (left = j, right = i), every other kind as (kind, i, j) *)
Definition entry_of_kind (k : bkind) (i j : nat) : entry :=
  match k with
  | Replication => (kind_implication, j, Some i, bkind_order Implication)
  | _ => (bkind_name k, i, Some j, bkind_order k)
  end.
Definition binary_entry (nG : nat) (cols : list Z) (p : nat * nat) : entry :=
  entry_of_kind (classify nG (colat cols (fst p)) (colat cols (snd p))) (fst p) (snd p).

Definition unary_entries nG cols : list entry := map (unary_entry nG cols) (seq 0 (length cols)).
Definition binary_entries nG cols : list entry :=
  map (binary_entry nG cols) (combinations2 (contingent_indices nG cols)).
Definition members nG cols (u : bool) : list entry :=
  if u then unary_entries nG cols ++ binary_entries nG cols else binary_entries nG cols.

Lemma combine_seq_map {B} (f : Z -> B) (l : list Z) : forall s,
  combine (seq s (length l)) (map f l) = map (fun i => (i, f (nth (i - s) l 0))) (seq s (length l)).
Proof.
  induction l as [|x l IH]; intros s; cbn [length seq map combine]; [reflexivity|].
  rewrite Nat.sub_diag. cbn [nth]. f_equal. rewrite IH. apply map_ext_in. intros i Hi. apply in_seq in Hi.
  replace (i - s)%nat with (S (i - S s)) by lia. reflexivity.
Qed.

Lemma map_res_map_ok {A B C} (f : B -> res C) (g : A -> B) (h : A -> C) l :
  (forall x, In x l -> f (g x) = Ok (h x)) -> map_res f (map g l) = Ok (map h l).
Proof.
  induction l as [|x l IH]; intros H; cbn [map map_res]; [reflexivity|].
  rewrite (H x (or_introl eq_refl)). cbn [bind]. rewrite IH by (intros y Hy; apply H; right; exact Hy).
  reflexivity.
Qed.

Lemma filter_map_comm' {A B} (h : A -> B) (p : B -> bool) l :
  filter p (map h l) = map h (filter (fun x => p (h x)) l).
Proof. induction l as [|x l IH]; cbn; [reflexivity|]. destruct (p (h x)); cbn; rewrite IH; reflexivity. Qed.

Lemma combinations2_map {A B} (h : A -> B) l :
  combinations2 (map h l) = map (fun p => (h (fst p), h (snd p))) (combinations2 l).
Proof.
  induction l as [|x l IH]; cbn [map combinations2]; [reflexivity|].
  rewrite map_app, !map_map, IH. reflexivity.
Qed.

Lemma In_combinations2_both {A} (l : list A) x y : In (x, y) (combinations2 l) -> In x l /\ In y l.
Proof.
  intros H. apply In_combinations2 in H. destruct H as (l1 & l2 & l3 & ->).
  split; [apply in_or_app; right; left; reflexivity|].
  apply in_or_app; right; right. apply in_or_app; right; left; reflexivity.
Qed.

Lemma implication_order_eq : implication_order = bkind_order Implication.
Proof. vm_compute. reflexivity. Qed.

Lemma zlist_eqb_contingency k : zlist_eqb (ukind_name k) kind_contingency = match k with Contingency => true | _ => false end.
Proof. destruct k; vm_compute; reflexivity. Qed.

Lemma zlist_eqb_replication k : zlist_eqb (bkind_name k) kind_replication = match k with Replication => true | _ => false end.
Proof. destruct k; vm_compute; reflexivity. Qed.

Lemma contingentb_uclassify_b nG a :
  contingentb nG a = match uclassify nG a with Contingency => true | _ => false end.
Proof. unfold contingentb, uclassify, ucl. destruct (hasb nG a true), (hasb nG a false); reflexivity. Qed.

Lemma In_contingent_indices nG cols i :
  In i (contingent_indices nG cols) <-> (i < length cols)%nat /\ contingent_col nG (colat cols i).
Proof.
  unfold contingent_indices. rewrite filter_In, in_seq, contingentb_spec. split; intros [H1 H2]; split; try assumption; lia.
Qed.

Theorem relations_eq nG cols u : (1 <= nG)%nat ->
  relations nG cols u = Ok (sort_by okey (members nG cols u)).
Proof.
  intros HnG. unfold relations. cbv zeta.
  rewrite (combine_seq_map (column_bools nG) cols 0).
  rewrite (map_res_map_ok _ _ (fun i => (unary_entry nG cols i, column_bools nG (colat cols i)))).
  2:{ intros i _. cbv beta iota. rewrite Nat.sub_0_r. fold (colat cols i).
      rewrite (unary_lookup_column nG (colat cols i) HnG). reflexivity. }
  cbn [bind].
  rewrite filter_map_comm'.
  rewrite (filter_ext _ (fun i => contingentb nG (colat cols i))).
  2:{ intros i. unfold unary_entry. cbv beta iota. rewrite zlist_eqb_contingency, contingentb_uclassify_b. reflexivity. }
  fold (contingent_indices nG cols).
  rewrite combinations2_map, map_map.
  rewrite (map_res_map_ok _ _ (binary_entry nG cols)).
  2:{ intros [i j] Hij. apply In_combinations2_both in Hij. destruct Hij as [Hi Hj].
      apply In_contingent_indices in Hi, Hj. destruct Hi as [_ Hi], Hj as [_ Hj].
      cbn [fst snd]. unfold unary_entry. cbv beta iota.
      rewrite (binary_lookup_columns nG _ _ Hi Hj). cbn [bind]. cbv beta iota.
      rewrite zlist_eqb_replication, implication_order_eq. unfold binary_entry, entry_of_kind. cbn [fst snd].
      destruct (classify nG (colat cols i) (colat cols j)); reflexivity. }
  cbn [bind fst].
  unfold members, unary_entries, binary_entries. destruct u; reflexivity.
Qed.

(** * 5. List facts: pairs of an increasing list, counting, stability of the sort *)

Lemma seq_sorted n : forall s, StronglySorted lt (seq s n).
Proof.
  induction n as [|n IH]; intros s; cbn [seq]; constructor; [apply IH|].
  apply Forall_forall. intros x Hx. apply in_seq in Hx. lia.
Qed.

Lemma filter_sorted {A} (R : A -> A -> Prop) (p : A -> bool) l : StronglySorted R l -> StronglySorted R (filter p l).
Proof.
  induction 1 as [|x l Hs IH Hall]; cbn [filter]; [constructor|].
  destruct (p x); [|exact IH]. constructor; [exact IH|].
  rewrite Forall_forall in *. intros y Hy. apply filter_In in Hy. apply Hall. tauto.
Qed.

Lemma contingent_indices_sorted nG cols : StronglySorted lt (contingent_indices nG cols).
Proof. apply filter_sorted. apply seq_sorted. Qed.

Lemma In_combinations2_sorted (l : list nat) x y : StronglySorted lt l ->
  In (x, y) (combinations2 l) <-> In x l /\ In y l /\ (x < y)%nat.
Proof.
  induction 1 as [|a l Hs IH Hall]; cbn [combinations2]; [cbn; tauto|].
  rewrite in_app_iff, in_map_iff, IH. rewrite Forall_forall in Hall. cbn [In]. split.
  - intros [[z [E Hz]]|[Hx [Hy Hlt]]].
    + injection E as <- <-. split; [left; reflexivity|]. split; [right; exact Hz|apply Hall; exact Hz].
    + tauto.
  - intros [[<-|Hx] [[<-|Hy] Hlt]].
    + lia.
    + left. exists y. split; [reflexivity|exact Hy].
    + apply Hall in Hx. lia.
    + right. tauto.
Qed.

Lemma NoDup_app' {A} (l1 l2 : list A) : NoDup l1 -> NoDup l2 -> (forall x, In x l1 -> ~ In x l2) -> NoDup (l1 ++ l2).
Proof.
  induction 1 as [|x l1 Hx Hn IH]; intros H2 Hd; cbn; [exact H2|].
  constructor.
  - rewrite in_app_iff. intros [H|H]; [exact (Hx H)|]. apply (Hd x (or_introl eq_refl) H).
  - apply IH; [exact H2|]. intros y Hy. apply Hd. right. exact Hy.
Qed.

Lemma NoDup_combinations2 {A} (l : list A) : NoDup l -> NoDup (combinations2 l).
Proof.
  induction 1 as [|a l Ha Hn IH]; cbn [combinations2]; [constructor|].
  apply NoDup_app'.
  - apply FinFun.Injective_map_NoDup; [|exact Hn]. intros y y' E. injection E as ->. reflexivity.
  - exact IH.
  - intros [x y] H1 H2. apply in_map_iff in H1. destruct H1 as [z [E _]]. injection E as <- <-.
    apply In_combinations2_both in H2. tauto.
Qed.

Lemma sorted_lt_NoDup (l : list nat) : StronglySorted lt l -> NoDup l.
Proof.
  induction 1 as [|a l Hs IH Hall]; constructor; [|exact IH].
  intros H. rewrite Forall_forall in Hall. apply Hall in H. lia.
Qed.

Lemma filter_none {A} (f : A -> bool) l : (forall x, In x l -> f x = false) -> filter f l = [].
Proof.
  induction l as [|x l IH]; intros H; cbn; [reflexivity|].
  rewrite (H x (or_introl eq_refl)). apply IH. intros y Hy. apply H. right. exact Hy.
Qed.

Lemma count_one {A} (f : A -> bool) (x : A) l : NoDup l -> In x l ->
  (forall y, In y l -> (f y = true <-> y = x)) -> length (filter f l) = 1%nat.
Proof.
  induction 1 as [|a l Ha Hn IH]; intros Hin Hf; [destruct Hin|]. cbn [filter].
  destruct Hin as [->|Hin].
  - rewrite (proj2 (Hf x (or_introl eq_refl)) eq_refl). cbn [length]. f_equal.
    rewrite filter_none; [reflexivity|]. intros y Hy. destruct (f y) eqn:E; [|reflexivity].
    apply (Hf y (or_intror Hy)) in E. subst. contradiction.
  - destruct (f a) eqn:E.
    + apply (Hf a (or_introl eq_refl)) in E. subst. contradiction.
    + apply IH; [exact Hin|]. intros y Hy. apply Hf. right. exact Hy.
Qed.

Lemma Permutation_filter_length {A} (f : A -> bool) l l' : Permutation l l' -> length (filter f l) = length (filter f l').
Proof.
  induction 1 as [|x l l' HP IH|x y l|l l' l'' H1 IH1 H2 IH2]; cbn [filter].
  - reflexivity.
  - destruct (f x); cbn [length]; rewrite IH; reflexivity.
  - destruct (f x), (f y); reflexivity.
  - rewrite IH1. exact IH2.
Qed.

(** stability: the elements with any given key appear in the sorted list in their original order *)
Definition key_eqb (a b : key) : bool := (fst a =? fst b) && (snd a =? snd b).

Lemma insert_by_filter {A} (kf : A -> key) (k : key) x l :
  StronglySorted (fun a b => key_le (kf a) (kf b)) l ->
  filter (fun y => key_eqb (kf y) k) (insert_by kf x l) =
  filter (fun y => key_eqb (kf y) k) l ++ (if key_eqb (kf x) k then [x] else []).
Proof.
  induction 1 as [|y l Hs IH Hall]; cbn [insert_by].
  - cbn [filter]. destruct (key_eqb (kf x) k); reflexivity.
  - destruct (key_ltb (kf x) (kf y)) eqn:E.
    + assert (Hc : forall f : A -> bool, filter f (x :: y :: l) = if f x then x :: filter f (y :: l) else filter f (y :: l)) by reflexivity.
      rewrite Hc. clear Hc.
      destruct (key_eqb (kf x) k) eqn:Ex; [|rewrite app_nil_r; reflexivity].
      rewrite (filter_none _ (y :: l)); [reflexivity|].
      intros z [<-|Hz].
      * unfold key_eqb, key_ltb in *. destruct (kf x), (kf y), k; cbn [fst snd] in *. lia.
      * rewrite Forall_forall in Hall. specialize (Hall z Hz).
        unfold key_le, key_eqb, key_ltb in *. destruct (kf x), (kf y), (kf z), k; cbn [fst snd] in *. lia.
    + cbn [filter]. rewrite IH. destruct (key_eqb (kf y) k); reflexivity.
Qed.

Lemma sort_by_fold_stable {A} (kf : A -> key) (k : key) l : forall acc,
  StronglySorted (fun a b => key_le (kf a) (kf b)) acc ->
  filter (fun y => key_eqb (kf y) k) (fold_left (fun a x => insert_by kf x a) l acc) =
  filter (fun y => key_eqb (kf y) k) acc ++ filter (fun y => key_eqb (kf y) k) l.
Proof.
  induction l as [|x l IH]; intros acc Ha; cbn [fold_left].
  - cbn [filter]. rewrite app_nil_r. reflexivity.
  - rewrite IH by (apply insert_by_sorted; exact Ha). rewrite insert_by_filter by exact Ha.
    rewrite <- app_assoc. cbn [filter]. destruct (key_eqb (kf x) k); reflexivity.
Qed.

Theorem sort_by_stable {A} (kf : A -> key) (k : key) l :
  filter (fun y => key_eqb (kf y) k) (sort_by kf l) = filter (fun y => key_eqb (kf y) k) l.
Proof. unfold sort_by. rewrite sort_by_fold_stable by constructor. reflexivity. Qed.

(** * 6. Specification theorems *)

Definition sorted_by_rank (l : list entry) : Prop := StronglySorted (fun a b => key_le (okey a) (okey b)) l.

(** Target 1: never a KeyError *)
Theorem relations_total nG cols u : (1 <= nG)%nat -> exists l, relations nG cols u = Ok l.
Proof. intros HnG. rewrite (relations_eq nG cols u HnG). eauto. Qed.

(** the pairs enumerated: i < j, both contingent, in lexicographic order *)
Lemma In_pairs nG cols i j :
  In (i, j) (combinations2 (contingent_indices nG cols)) <->
  (i < j < length cols)%nat /\ contingent_col nG (colat cols i) /\ contingent_col nG (colat cols j).
Proof.
  rewrite (In_combinations2_sorted _ i j (contingent_indices_sorted nG cols)), !In_contingent_indices.
  split.
  - intros [[H1 H2] [[H3 H4] H5]]. split; [lia|]. split; assumption.
  - intros [H1 [H2 H3]]. split; [split; [lia|exact H2]|]. split; [split; [lia|exact H3]|lia].
Qed.

(** meaning of a binary entry: its kind is the unique mathematical kind of the pair *)
Theorem binary_entry_spec nG cols i j k :
  contingent_col nG (colat cols i) -> contingent_col nG (colat cols j) ->
  kind_of nG (colat cols i) (colat cols j) k -> binary_entry nG cols (i, j) = entry_of_kind k i j.
Proof.
  intros Hi Hj Hk. unfold binary_entry. cbn [fst snd].
  rewrite (proj1 (kind_of_iff nG _ _ k Hi Hj) Hk). reflexivity.
Qed.

Theorem unary_entry_spec nG cols i k : (1 <= nG)%nat ->
  ukind_of nG (colat cols i) k -> unary_entry nG cols i = (ukind_name k, i, None, ukind_order k).
Proof. intros HnG Hk. unfold unary_entry. rewrite (proj1 (ukind_of_iff nG _ k HnG) Hk). reflexivity. Qed.

Lemma ukind_name_inj k k' : ukind_name k = ukind_name k' -> k = k'.
Proof. destruct k, k'; intros H; try reflexivity; vm_compute in H; discriminate H. Qed.
Lemma bkind_name_inj k k' : bkind_name k = bkind_name k' -> k = k'.
Proof. destruct k, k'; intros H; try reflexivity; vm_compute in H; discriminate H. Qed.

(** the names and ranks are those of the docstring tables *)
Lemma bkind_in_table k : exists pat, In (pat, bkind_name k, bkind_order k) binary_table.
Proof. destruct k; eexists; vm_compute; eauto 10. Qed.
Lemma ukind_in_table k : exists pat, In (pat, ukind_name k, ukind_order k) unary_table.
Proof. destruct k; eexists; vm_compute; eauto 10. Qed.

Lemma relations_perm nG cols u result : (1 <= nG)%nat -> relations nG cols u = Ok result ->
  Permutation result (members nG cols u) /\ sorted_by_rank result.
Proof.
  intros HnG H. rewrite (relations_eq nG cols u HnG) in H. injection H as <-.
  split; [apply sort_by_perm|apply sort_by_sorted].
Qed.

(** membership of binary entries *)
Theorem In_binary_result nG cols u result k l r o : (1 <= nG)%nat -> relations nG cols u = Ok result ->
  In (k, l, Some r, o) result <->
  exists i j, ((i < j < length cols)%nat /\ contingent_col nG (colat cols i) /\ contingent_col nG (colat cols j)) /\
              (k, l, Some r, o) = entry_of_kind (classify nG (colat cols i) (colat cols j)) i j.
Proof.
  intros HnG H. destruct (relations_perm nG cols u result HnG H) as [HP _].
  assert (Hb : In (k, l, Some r, o) (members nG cols u) <-> In (k, l, Some r, o) (binary_entries nG cols)).
  { unfold members. destruct u; [|tauto]. rewrite in_app_iff. split; [|tauto].
    intros [Hu|Hb]; [|exact Hb]. unfold unary_entries in Hu. apply in_map_iff in Hu.
    destruct Hu as [i [E _]]. unfold unary_entry in E. discriminate E. }
  split.
  - intros Hin. apply (Permutation_in _ HP) in Hin. apply Hb in Hin.
    unfold binary_entries in Hin. apply in_map_iff in Hin. destruct Hin as [[i j] [E Hij]].
    apply In_pairs in Hij. exists i, j. split; [exact Hij|]. rewrite <- E. reflexivity.
  - intros (i & j & Hij & E). apply (Permutation_in _ (Permutation_sym HP)). apply Hb.
    unfold binary_entries. apply in_map_iff. exists (i, j). split; [rewrite E; reflexivity|].
    apply In_pairs. exact Hij.
Qed.

(** membership of unary entries: none without include_unary, one per property with it *)
Theorem In_unary_result nG cols u result k l o : (1 <= nG)%nat -> relations nG cols u = Ok result ->
  In (k, l, None, o) result <->
  u = true /\ (l < length cols)%nat /\ k = ukind_name (uclassify nG (colat cols l)) /\ o = ukind_order (uclassify nG (colat cols l)).
Proof.
  intros HnG H. destruct (relations_perm nG cols u result HnG H) as [HP _].
  assert (Hnb : ~ In (k, l, None, o) (binary_entries nG cols)).
  { unfold binary_entries. rewrite in_map_iff. intros [[i j] [E _]]. unfold binary_entry, entry_of_kind in E.
    cbn [fst snd] in E. destruct (classify nG (colat cols i) (colat cols j)); discriminate E. }
  split.
  - intros Hin. apply (Permutation_in _ HP) in Hin. unfold members in Hin. destruct u; [|contradiction].
    apply in_app_iff in Hin. destruct Hin as [Hin|Hin]; [|contradiction].
    unfold unary_entries in Hin. apply in_map_iff in Hin. destruct Hin as [i [E Hi]]. apply in_seq in Hi.
    unfold unary_entry in E. injection E as E1 E2 E3. subst. repeat split; lia.
  - intros (-> & Hl & -> & ->). apply (Permutation_in _ (Permutation_sym HP)). unfold members.
    apply in_or_app. left. unfold unary_entries. apply in_map_iff. exists l. split; [reflexivity|apply in_seq; lia].
Qed.

(** Target 4(a) and 4(d) *)
Theorem binary_entry_contingent nG cols u result k l r o : (1 <= nG)%nat -> relations nG cols u = Ok result ->
  In (k, l, Some r, o) result ->
  l <> r /\ (l < length cols)%nat /\ (r < length cols)%nat /\
  contingent_col nG (colat cols l) /\ contingent_col nG (colat cols r).
Proof.
  intros HnG H Hin. apply (In_binary_result nG cols u result k l r o HnG H) in Hin.
  destruct Hin as (i & j & (Hlt & Hi & Hj) & E). unfold entry_of_kind in E.
  destruct (classify nG (colat cols i) (colat cols j)); injection E as _ -> -> _;
    (split; [lia|]; split; [lia|]; split; [lia|]; split; assumption).
Qed.

Lemma universal_not_contingent nG a : universal_col nG a -> ~ contingent_col nG a.
Proof. intros H [_ [g [Hg E]]]. rewrite (H g Hg) in E. discriminate. Qed.
Lemma empty_not_contingent nG a : empty_col nG a -> ~ contingent_col nG a.
Proof. intros H [[g [Hg E]] _]. rewrite (H g Hg) in E. discriminate. Qed.

Theorem no_entry_for_constant nG cols u result k l r o : (1 <= nG)%nat -> relations nG cols u = Ok result ->
  (universal_col nG (colat cols l) \/ empty_col nG (colat cols l) \/
   universal_col nG (colat cols r) \/ empty_col nG (colat cols r)) ->
  ~ In (k, l, Some r, o) result.
Proof.
  intros HnG H Hc Hin. destruct (binary_entry_contingent nG cols u result k l r o HnG H Hin) as (_ & _ & _ & Hl & Hr).
  destruct Hc as [Hc|[Hc|[Hc|Hc]]].
  - exact (universal_not_contingent _ _ Hc Hl).
  - exact (empty_not_contingent _ _ Hc Hl).
  - exact (universal_not_contingent _ _ Hc Hr).
  - exact (empty_not_contingent _ _ Hc Hr).
Qed.

(** Target 4(b): exactly one entry mentions the unordered pair {i, j} *)
Definition mentions (i j : nat) (e : entry) : bool :=
  match e with
  | (_, l, Some r, _) => ((l =? i)%nat && (r =? j)%nat) || ((l =? j)%nat && (r =? i)%nat)
  | (_, _, None, _) => false
  end.

Lemma mentions_binary_entry nG cols i j x y : (i < j)%nat -> (x < y)%nat ->
  mentions i j (binary_entry nG cols (x, y)) = true <-> (x, y) = (i, j).
Proof.
  intros Hij Hxy. unfold binary_entry, entry_of_kind. cbn [fst snd].
  destruct (classify nG (colat cols x) (colat cols y)); cbn [mentions];
    (split; [intros H; f_equal; lia|intros E; injection E as -> ->; rewrite !Nat.eqb_refl; cbn; try reflexivity;
                                      rewrite ?orb_true_r; reflexivity]).
Qed.

Theorem pair_once nG cols u result i j : (1 <= nG)%nat -> relations nG cols u = Ok result ->
  (i < j < length cols)%nat -> contingent_col nG (colat cols i) -> contingent_col nG (colat cols j) ->
  length (filter (mentions i j) result) = 1%nat.
Proof.
  intros HnG H Hlt Hi Hj. destruct (relations_perm nG cols u result HnG H) as [HP _].
  rewrite (Permutation_filter_length _ _ _ HP).
  assert (Hb : length (filter (mentions i j) (binary_entries nG cols)) = 1%nat).
  { unfold binary_entries. rewrite filter_map_comm', map_length.
    apply (count_one _ (i, j)).
    - apply NoDup_combinations2. apply sorted_lt_NoDup. apply contingent_indices_sorted.
    - apply In_pairs. tauto.
    - intros [x y] Hxy. apply In_pairs in Hxy. apply mentions_binary_entry; lia. }
  unfold members. destruct u; [|exact Hb].
  rewrite filter_app, app_length, Hb. rewrite filter_none; [reflexivity|].
  intros e He. unfold unary_entries in He. apply in_map_iff in He. destruct He as [x [<- _]]. reflexivity.
Qed.

(** and no entry mentions a pair that is not a pair of two distinct contingent properties *)
Theorem pair_none nG cols u result i j : (1 <= nG)%nat -> relations nG cols u = Ok result ->
  ~ (i <> j /\ (i < length cols)%nat /\ (j < length cols)%nat /\ contingent_col nG (colat cols i) /\ contingent_col nG (colat cols j)) ->
  filter (mentions i j) result = [].
Proof.
  intros HnG H Hn. apply filter_none. intros [[[k l] [r|]] o] Hin; [|reflexivity].
  destruct (mentions i j (k, l, Some r, o)) eqn:E; [|reflexivity]. exfalso. apply Hn.
  destruct (binary_entry_contingent nG cols u result k l r o HnG H Hin) as (H1 & H2 & H3 & H4 & H5).
  cbn [mentions] in E. apply orb_true_iff in E.
  destruct E as [E|E]; apply andb_true_iff in E; destruct E as [E1 E2]; apply Nat.eqb_eq in E1, E2; subst;
    (split; [intros E; apply H1; congruence|]; split; [assumption|]; split; [assumption|]; split; assumption).
Qed.

(** exactly one unary entry per property with include_unary *)
Definition unary_of (j : nat) (e : entry) : bool :=
  match e with (_, l, None, _) => (l =? j)%nat | _ => false end.

Theorem unary_once nG cols result j : (1 <= nG)%nat -> relations nG cols true = Ok result ->
  (j < length cols)%nat -> length (filter (unary_of j) result) = 1%nat.
Proof.
  intros HnG H Hj. destruct (relations_perm nG cols true result HnG H) as [HP _].
  rewrite (Permutation_filter_length _ _ _ HP). unfold members.
  rewrite filter_app, app_length.
  rewrite (filter_none _ (binary_entries nG cols)).
  2:{ intros e He. unfold binary_entries in He. apply in_map_iff in He. destruct He as [[x y] [<- _]].
      unfold binary_entry, entry_of_kind. cbn [fst snd]. destruct (classify nG (colat cols x) (colat cols y)); reflexivity. }
  cbn [length]. rewrite Nat.add_0_r. unfold unary_entries. rewrite filter_map_comm', map_length.
  apply (count_one _ j).
  - apply sorted_lt_NoDup. apply seq_sorted.
  - apply in_seq. lia.
  - intros y _. unfold unary_entry. cbn [unary_of]. apply Nat.eqb_eq.
Qed.

(** every pair of contingent columns has exactly one of the seven kinds, every column exactly one unary kind *)
Theorem kind_of_exists_unique nG a b : contingent_col nG a -> contingent_col nG b ->
  exists k, kind_of nG a b k /\ forall k', kind_of nG a b k' -> k' = k.
Proof.
  intros Ha Hb. exists (classify nG a b). split; [apply classify_spec|].
  intros k' Hk'. symmetry. apply (kind_of_iff nG a b k' Ha Hb). exact Hk'.
Qed.

Theorem ukind_of_exists_unique nG a : (1 <= nG)%nat ->
  exists k, ukind_of nG a k /\ forall k', ukind_of nG a k' -> k' = k.
Proof.
  intros HnG. exists (uclassify nG a). split; [apply uclassify_spec; exact HnG|].
  intros k' Hk'. symmetry. apply (ukind_of_iff nG a k' HnG). exact Hk'.
Qed.

(** Target 2.  Kinds are stated through the inductive [bkind] and [bkind_name]/[bkind_order]
    (the names and ranks of [binary_table], see [bkind_in_table]). *)
Theorem relations_binary_spec nG cols : (1 <= nG)%nat ->
  exists result, relations nG cols false = Ok result /\
    (* the result is the stable sort of the entries of the pairs of contingent properties *)
    result = sort_by okey (map (binary_entry nG cols) (combinations2 (contingent_indices nG cols))) /\
    Permutation result (map (binary_entry nG cols) (combinations2 (contingent_indices nG cols))) /\
    sorted_by_rank result /\
    (forall key, filter (fun e => key_eqb (okey e) key) result =
                 filter (fun e => key_eqb (okey e) key) (map (binary_entry nG cols) (combinations2 (contingent_indices nG cols)))) /\
    (* the contingent indices, increasing; the pairs enumerated *)
    StronglySorted lt (contingent_indices nG cols) /\
    (forall i, In i (contingent_indices nG cols) <-> (i < length cols)%nat /\ contingent_col nG (colat cols i)) /\
    (forall i j, In (i, j) (combinations2 (contingent_indices nG cols)) <->
       (i < j < length cols)%nat /\ contingent_col nG (colat cols i) /\ contingent_col nG (colat cols j)) /\
    NoDup (combinations2 (contingent_indices nG cols)) /\
    (* the entry of a pair carries the unique mathematical kind of the pair *)
    (forall i j k, contingent_col nG (colat cols i) -> contingent_col nG (colat cols j) ->
       kind_of nG (colat cols i) (colat cols j) k -> binary_entry nG cols (i, j) = entry_of_kind k i j) /\
    (forall i j, contingent_col nG (colat cols i) -> contingent_col nG (colat cols j) ->
       exists k, kind_of nG (colat cols i) (colat cols j) k /\ forall k', kind_of nG (colat cols i) (colat cols j) k' -> k' = k).
Proof.
  intros HnG. exists (sort_by okey (binary_entries nG cols)). split; [apply (relations_eq nG cols false HnG)|].
  split; [reflexivity|]. split; [apply sort_by_perm|]. split; [apply sort_by_sorted|].
  split; [intros key; apply sort_by_stable|].
  split; [apply contingent_indices_sorted|]. split; [apply In_contingent_indices|]. split; [apply In_pairs|].
  split; [apply NoDup_combinations2, sorted_lt_NoDup, contingent_indices_sorted|].
  split; [apply binary_entry_spec|]. intros i j. apply kind_of_exists_unique.
Qed.

(** Target 3 *)
Theorem relations_unary_spec nG cols : (1 <= nG)%nat ->
  exists result, relations nG cols true = Ok result /\
    result = sort_by okey (map (unary_entry nG cols) (seq 0 (length cols)) ++
                           map (binary_entry nG cols) (combinations2 (contingent_indices nG cols))) /\
    Permutation result (map (unary_entry nG cols) (seq 0 (length cols)) ++
                        map (binary_entry nG cols) (combinations2 (contingent_indices nG cols))) /\
    sorted_by_rank result /\
    (forall key, filter (fun e => key_eqb (okey e) key) result =
                 filter (fun e => key_eqb (okey e) key)
                   (map (unary_entry nG cols) (seq 0 (length cols)) ++
                    map (binary_entry nG cols) (combinations2 (contingent_indices nG cols)))) /\
    (* the unary entry of a property carries the unique unary kind of its column *)
    (forall i k, ukind_of nG (colat cols i) k -> unary_entry nG cols i = (ukind_name k, i, None, ukind_order k)) /\
    (forall i, exists k, ukind_of nG (colat cols i) k /\ forall k', ukind_of nG (colat cols i) k' -> k' = k) /\
    (forall j, (j < length cols)%nat -> length (filter (unary_of j) result) = 1%nat).
Proof.
  intros HnG. exists (sort_by okey (unary_entries nG cols ++ binary_entries nG cols)).
  split; [apply (relations_eq nG cols true HnG)|].
  split; [reflexivity|]. split; [apply sort_by_perm|]. split; [apply sort_by_sorted|].
  split; [intros key; apply sort_by_stable|].
  split; [intros i k; apply unary_entry_spec; exact HnG|].
  split; [intros i; apply ukind_of_exists_unique; exact HnG|].
  intros j Hj. apply (unary_once nG cols _ j HnG (relations_eq nG cols true HnG) Hj).
Qed.

(** Target 4(c): implications go from the narrower to the wider property *)
Lemma kind_of_swap_replication nG a b : kind_of nG a b Replication <-> kind_of nG b a Implication.
Proof. unfold kind_of. cbn [kind_rel]. rewrite (occurs_swap nG a b false true), (occurs_swap nG a b true false). tauto. Qed.

Lemma entry_eq_inv (k k' : list Z) (l l' r r' : nat) (o o' : Z) :
  (k, l, Some r, o) = (k', l', Some r', o') -> k = k' /\ l = l' /\ r = r' /\ o = o'.
Proof. intros H. injection H as -> -> -> ->. repeat split. Qed.

Theorem implication_entry_kind nG cols u result k l r o : (1 <= nG)%nat -> relations nG cols u = Ok result ->
  In (k, l, Some r, o) result -> k = kind_implication ->
  kind_of nG (colat cols l) (colat cols r) Implication /\ o = bkind_order Implication.
Proof.
  intros HnG H Hin ->. apply (In_binary_result nG cols u result _ l r o HnG H) in Hin.
  destruct Hin as (i & j & _ & E). pose proof (classify_spec nG (colat cols i) (colat cols j)) as Hk.
  unfold entry_of_kind in E.
  destruct (classify nG (colat cols i) (colat cols j)) eqn:Ec; apply entry_eq_inv in E; destruct E as (E1 & -> & -> & ->);
    try (vm_compute in E1; discriminate E1).
  - split; [exact Hk|reflexivity].
  - split; [apply kind_of_swap_replication; exact Hk|reflexivity].
Qed.

Lemma colat_in_range nG cols i : Forall (in_range nG) cols -> in_range nG (colat cols i).
Proof.
  intros HF. unfold colat. destruct (Nat.lt_ge_cases i (length cols)) as [Hlt|Hge].
  - rewrite Forall_forall in HF. apply HF. apply nth_In. exact Hlt.
  - rewrite nth_overflow by exact Hge. apply in_range_0.
Qed.

Lemma implication_psubset nG a b : in_range nG a -> in_range nG b ->
  kind_of nG a b Implication <-> psubset a b.
Proof.
  intros Ha Hb. unfold kind_of. cbn [kind_rel]. split.
  - intros [Hn [g [Hg [E1 E2]]]]. split.
    + intros i Hi. destruct (mem b i) eqn:Eb; [reflexivity|]. exfalso. apply Hn. exists i.
      split; [apply (mem_lt_of_in_range nG a i Ha Hi)|]. split; assumption.
    + intros ->. congruence.
  - intros [Hs Hne]. split.
    + intros [g [Hg [E1 E2]]]. apply Hs in E1. congruence.
    + destruct (occursb nG a b false true) eqn:E; [apply occursb_spec; exact E|].
      exfalso. apply Hne. apply (bitset_ext nG a b Ha Hb). intros i Hi.
      destruct (mem a i) eqn:E1.
      * symmetry. apply Hs. exact E1.
      * destruct (mem b i) eqn:E2; [|reflexivity]. exfalso.
        apply (proj1 (occursb_false nG a b false true) E). exists i. repeat split; assumption.
Qed.

Theorem implication_narrower_to_wider nG cols u result l r o : (1 <= nG)%nat -> Forall (in_range nG) cols ->
  relations nG cols u = Ok result -> In (kind_implication, l, Some r, o) result ->
  psubset (colat cols l) (colat cols r).
Proof.
  intros HnG HF H Hin.
  destruct (implication_entry_kind nG cols u result _ l r o HnG H Hin eq_refl) as [Hk _].
  apply (implication_psubset nG _ _ (colat_in_range nG cols l HF) (colat_in_range nG cols r HF)). exact Hk.
Qed.

(** conversely every strict inclusion between two contingent properties is reported, in that orientation *)
Theorem psubset_reported nG cols u result l r : (1 <= nG)%nat -> Forall (in_range nG) cols ->
  relations nG cols u = Ok result -> (l < length cols)%nat -> (r < length cols)%nat ->
  contingent_col nG (colat cols l) -> contingent_col nG (colat cols r) ->
  psubset (colat cols l) (colat cols r) ->
  In (kind_implication, l, Some r, bkind_order Implication) result.
Proof.
  intros HnG HF H Hl Hr Hcl Hcr Hps.
  apply (implication_psubset nG _ _ (colat_in_range nG cols l HF) (colat_in_range nG cols r HF)) in Hps.
  assert (Hne : l <> r).
  { intros ->. destruct Hps as [Hn [g [Hg [E1 E2]]]]. congruence. }
  apply (In_binary_result nG cols u result _ l r _ HnG H).
  destruct (Nat.lt_ge_cases l r) as [Hlt|Hge].
  - exists l, r. split; [split; [lia|split; assumption]|].
    rewrite (proj1 (kind_of_iff nG _ _ Implication Hcl Hcr) Hps). reflexivity.
  - exists r, l. split; [split; [lia|split; assumption]|].
    apply kind_of_swap_replication in Hps.
    rewrite (proj1 (kind_of_iff nG _ _ Replication Hcr Hcl) Hps). reflexivity.
Qed.

(** * 7. End to end for a context: occurrences through the incidence relation *)

Definition has_ctx (c : ctx) (j : nat) (x : bool) : Prop := exists g, (g < nG c)%nat /\ inc c g j = x.
Definition occurs_ctx (c : ctx) (i j : nat) (x y : bool) : Prop :=
  exists g, (g < nG c)%nat /\ inc c g i = x /\ inc c g j = y.
Definition contingent_ctx (c : ctx) (j : nat) : Prop := has_ctx c j true /\ has_ctx c j false.
Definition universal_ctx (c : ctx) (j : nat) : Prop := forall g, (g < nG c)%nat -> inc c g j = true.
Definition empty_ctx (c : ctx) (j : nat) : Prop := forall g, (g < nG c)%nat -> inc c g j = false.
Definition ukind_of_ctx (c : ctx) (j : nat) (k : ukind) : Prop :=
  match k with Tautology => universal_ctx c j | Contradiction => empty_ctx c j | Contingency => contingent_ctx c j end.
Definition kind_of_ctx (c : ctx) (i j : nat) (k : bkind) : Prop := kind_rel (occurs_ctx c i j) k.

Lemma mem_col_lt c m g : (g < nG c)%nat -> mem (col c m) g = inc c g m.
Proof. intros Hg. rewrite mem_col. destruct (g <? nG c)%nat eqn:E; [reflexivity|]. apply Nat.ltb_ge in E. lia. Qed.

Lemma has_col c j x : has (nG c) (col c j) x <-> has_ctx c j x.
Proof.
  split; intros [g [Hg E]]; exists g; (split; [exact Hg|]); [rewrite <- mem_col_lt by exact Hg|rewrite mem_col_lt by exact Hg]; exact E.
Qed.

Lemma occurs_col c i j x y : occurs (nG c) (col c i) (col c j) x y <-> occurs_ctx c i j x y.
Proof.
  split; intros [g [Hg [E1 E2]]]; exists g; (split; [exact Hg|]);
    [rewrite <- !mem_col_lt by exact Hg|rewrite !mem_col_lt by exact Hg]; split; assumption.
Qed.

Lemma contingent_col_ctx c j : contingent_col (nG c) (col c j) <-> contingent_ctx c j.
Proof. unfold contingent_col, contingent_ctx. rewrite !has_col. tauto. Qed.

Lemma ukind_of_col c j k : ukind_of (nG c) (col c j) k <-> ukind_of_ctx c j k.
Proof.
  destruct k; cbn [ukind_of ukind_of_ctx].
  - split; intros H g Hg; [rewrite <- mem_col_lt by exact Hg|rewrite mem_col_lt by exact Hg]; apply H; exact Hg.
  - split; intros H g Hg; [rewrite <- mem_col_lt by exact Hg|rewrite mem_col_lt by exact Hg]; apply H; exact Hg.
  - apply contingent_col_ctx.
Qed.

Lemma kind_of_col c i j k : kind_of (nG c) (col c i) (col c j) k <-> kind_of_ctx c i j k.
Proof. unfold kind_of, kind_of_ctx. apply kind_rel_ext. intros x y. apply occurs_col. Qed.

Lemma colat_cols c j : (j < nM c)%nat -> colat (cols c) j = col c j.
Proof. intros H. unfold colat. apply nth_cols. exact H. Qed.

Lemma cols_in_range c : Forall (in_range (nG c)) (cols c).
Proof. unfold cols. apply Forall_forall. intros x Hx. apply in_map_iff in Hx. destruct Hx as [m [<- _]]. apply in_range_col. Qed.

Theorem context_relations c u : (1 <= nG c)%nat ->
  exists result, relations (nG c) (cols c) u = Ok result /\
    result = sort_by okey (members (nG c) (cols c) u) /\
    sorted_by_rank result /\
    (* binary entries: exactly the classified pairs of contingent properties *)
    (forall k l r o, In (k, l, Some r, o) result <->
       exists i j bk, (i < j < nM c)%nat /\ contingent_ctx c i /\ contingent_ctx c j /\
                      kind_of_ctx c i j bk /\ (k, l, Some r, o) = entry_of_kind bk i j) /\
    (* each unordered pair of contingent properties exactly once, nothing else *)
    (forall i j, (i < j < nM c)%nat -> contingent_ctx c i -> contingent_ctx c j ->
       length (filter (mentions i j) result) = 1%nat) /\
    (forall i j, ~ (i <> j /\ (i < nM c)%nat /\ (j < nM c)%nat /\ contingent_ctx c i /\ contingent_ctx c j) ->
       filter (mentions i j) result = []) /\
    (* unary entries: only with include_unary, one per property, of the kind of its column *)
    (forall k l o, In (k, l, None, o) result <->
       u = true /\ exists uk, (l < nM c)%nat /\ ukind_of_ctx c l uk /\ k = ukind_name uk /\ o = ukind_order uk) /\
    (u = true -> forall j, (j < nM c)%nat -> length (filter (unary_of j) result) = 1%nat) /\
    (* implications go from the narrower to the wider property *)
    (forall l r o, In (kind_implication, l, Some r, o) result ->
       psubset (col c l) (col c r) /\
       (forall g, (g < nG c)%nat -> inc c g l = true -> inc c g r = true) /\
       (exists g, (g < nG c)%nat /\ inc c g l = false /\ inc c g r = true)).
Proof.
  intros HnG. pose proof (relations_eq (nG c) (cols c) u HnG) as Heq.
  exists (sort_by okey (members (nG c) (cols c) u)). split; [exact Heq|]. split; [reflexivity|].
  split; [apply sort_by_sorted|].
  pose proof (cols_length c) as HL.
  split; [|split; [|split; [|split; [|split]]]].
  - intros k l r o. rewrite (In_binary_result _ _ _ _ k l r o HnG Heq). rewrite HL. split.
    + intros (i & j & (Hlt & Hi & Hj) & E). exists i, j, (classify (nG c) (colat (cols c) i) (colat (cols c) j)).
      rewrite !colat_cols in * by lia. split; [exact Hlt|]. split; [apply contingent_col_ctx; exact Hi|].
      split; [apply contingent_col_ctx; exact Hj|]. split; [apply kind_of_col; apply classify_spec|exact E].
    + intros (i & j & bk & Hlt & Hi & Hj & Hk & E). exists i, j. rewrite !colat_cols by lia.
      apply contingent_col_ctx in Hi, Hj. apply kind_of_col in Hk.
      split; [split; [exact Hlt|split; assumption]|].
      rewrite (proj1 (kind_of_iff _ _ _ bk Hi Hj) Hk). exact E.
  - intros i j Hlt Hi Hj. apply (pair_once _ _ _ _ i j HnG Heq).
    + rewrite HL. exact Hlt.
    + rewrite colat_cols by lia. apply contingent_col_ctx. exact Hi.
    + rewrite colat_cols by lia. apply contingent_col_ctx. exact Hj.
  - intros i j Hn. apply (pair_none _ _ _ _ i j HnG Heq). rewrite HL. intros (H1 & H2 & H3 & H4 & H5).
    apply Hn. rewrite !colat_cols in * by lia. apply contingent_col_ctx in H4, H5. tauto.
  - intros k l o. rewrite (In_unary_result _ _ _ _ k l o HnG Heq). rewrite HL. split.
    + intros (Hu & Hl & -> & ->). split; [exact Hu|]. exists (uclassify (nG c) (colat (cols c) l)).
      split; [exact Hl|]. split; [|split; reflexivity].
      rewrite colat_cols by exact Hl. apply ukind_of_col. apply uclassify_spec. exact HnG.
    + intros (Hu & uk & Hl & Hk & -> & ->). split; [exact Hu|]. split; [exact Hl|].
      apply ukind_of_col in Hk. rewrite colat_cols by exact Hl.
      rewrite (proj1 (ukind_of_iff _ _ uk HnG) Hk). split; reflexivity.
  - intros -> j Hj. apply (unary_once _ _ _ j HnG Heq). rewrite HL. exact Hj.
  - intros l r o Hin.
    destruct (binary_entry_contingent _ _ _ _ _ l r o HnG Heq Hin) as (_ & Hl & Hr & _ & _). rewrite HL in Hl, Hr.
    destruct (implication_entry_kind _ _ _ _ _ l r o HnG Heq Hin eq_refl) as [Hk _].
    pose proof (implication_narrower_to_wider _ _ _ _ l r o HnG (cols_in_range c) Heq Hin) as Hps.
    rewrite !colat_cols in * by assumption. split; [exact Hps|].
    apply kind_of_col in Hk. destruct Hk as [Hn Hw]. split; [|exact Hw].
    intros g Hg E. destruct (inc c g r) eqn:Er; [reflexivity|]. exfalso. apply Hn. exists g. repeat split; assumption.
Qed.
