(** C16: the docstring tables classify every pair of contingent columns by exactly one
    kind; implications are oriented narrower -> wider; entries are sorted by rank. *)
From Coq Require Import ZArith List Bool Lia ZifyBool Sorted Permutation.
From Concepts Require Import Base.Res Base.PyInt Base.BitSet Spec.Context Model.JunctorsTables Model.Lattice Model.Junctors.
Import ListNotations.
Open Scope Z_scope.

Definition all4 : list (bool * bool) := [(true, true); (true, false); (false, true); (false, false)].
Definition occ (vals : list (bool * bool)) (c : bool * bool) : bool := existsb (pair_bool_eqb c) vals.

Lemma pair_bool_eqb_eq p q : pair_bool_eqb p q = true <-> p = q.
Proof. destruct p as [[] []], q as [[] []]; cbn; split; intros; try reflexivity; try discriminate; congruence. Qed.

Lemma occ_In vals c : occ vals c = true <-> In c vals.
Proof.
  unfold occ. rewrite existsb_exists. split.
  - intros [x [Hx E]]. apply pair_bool_eqb_eq in E. subst. exact Hx.
  - intros H. exists c. split; [exact H|apply pair_bool_eqb_eq; reflexivity].
Qed.

Lemma In_all4 c : In c all4.
Proof. destruct c as [[] []]; cbn; tauto. Qed.

Lemma same_set_iff pattern vals :
  same_set pair_bool_eqb pattern vals = true <-> (forall c, In c pattern <-> In c vals).
Proof.
  unfold same_set. rewrite andb_true_iff, !forallb_forall. split.
  - intros [H1 H2] c. split; intros Hc.
    + apply occ_In. apply (H1 c Hc).
    + specialize (H2 c Hc). apply existsb_exists in H2. destruct H2 as [x [Hx E]].
      apply pair_bool_eqb_eq in E. subst. exact Hx.
  - intros H. split; intros x Hx.
    + apply (occ_In vals x), H, Hx.
    + apply existsb_exists. exists x. split; [apply H, Hx|apply pair_bool_eqb_eq; reflexivity].
Qed.

Lemma same_set_ext pattern vals vals' : (forall c, In c vals <-> In c vals') ->
  same_set pair_bool_eqb pattern vals = same_set pair_bool_eqb pattern vals'.
Proof.
  intros H. destruct (same_set pair_bool_eqb pattern vals) eqn:E1, (same_set pair_bool_eqb pattern vals') eqn:E2; try reflexivity.
  - rewrite same_set_iff in E1. assert (same_set pair_bool_eqb pattern vals' = true); [|congruence].
    apply same_set_iff. intros c. rewrite E1. apply H.
  - rewrite same_set_iff in E2. assert (same_set pair_bool_eqb pattern vals = true); [|congruence].
    apply same_set_iff. intros c. rewrite E2. symmetry. apply H.
Qed.

(** canonical representative: the occurring combinations in table order *)
Definition canon (vals : list (bool * bool)) : list (bool * bool) := filter (occ vals) all4.

Lemma canon_same vals c : In c vals <-> In c (canon vals).
Proof.
  unfold canon. rewrite filter_In. rewrite occ_In. split; [intros H; split; [apply In_all4|exact H]|tauto].
Qed.

Definition matching_rows (vals : list (bool * bool)) :=
  filter (fun row : list (bool * bool) * list Z * Z => same_set pair_bool_eqb (fst (fst row)) vals) binary_table.

Lemma matching_rows_canon vals : matching_rows vals = matching_rows (canon vals).
Proof.
  unfold matching_rows. apply filter_ext. intros row. apply same_set_ext. apply canon_same.
Qed.

Definition admissible (s : list (bool * bool)) : bool :=
  (occ s (true, true) || occ s (true, false)) && (occ s (false, true) || occ s (false, false))
  && (occ s (true, true) || occ s (false, true)) && (occ s (true, false) || occ s (false, false)).

Fixpoint sublists {A} (l : list A) : list (list A) :=
  match l with [] => [[]] | x :: r => map (cons x) (sublists r) ++ sublists r end.

Lemma table_finite :
  forallb (fun s => implb (admissible s) (Nat.eqb (length (matching_rows s)) 1)) (sublists all4) = true.
Proof. vm_compute. reflexivity. Qed.

Lemma canon_in_sublists vals : In (canon vals) (sublists all4).
Proof.
  unfold canon, all4. cbn [filter].
  destruct (occ vals (true, true)), (occ vals (true, false)), (occ vals (false, true)), (occ vals (false, false));
    cbn; tauto.
Qed.

Lemma admissible_canon vals : admissible (canon vals) = admissible vals.
Proof.
  unfold admissible.
  assert (E : forall c, occ (canon vals) c = occ vals c).
  { intros c. destruct (occ vals c) eqn:E1.
    - apply occ_In. apply (proj1 (canon_same vals c)). apply occ_In. exact E1.
    - destruct (occ (canon vals) c) eqn:E2; [|reflexivity].
      apply occ_In in E2. apply (proj2 (canon_same vals c)) in E2. apply occ_In in E2. congruence. }
  rewrite !E. reflexivity.
Qed.

(** two columns, both contingent (some true, some false), same length *)
Definition contingent (l : list bool) : Prop := In true l /\ In false l.

Lemma In_combine_l (lb rb : list bool) b : length lb = length rb -> In b lb -> exists b', In (b, b') (combine lb rb).
Proof.
  revert rb; induction lb as [|x lb IH]; intros rb Hl Hin; [destruct Hin|].
  destruct rb as [|y rb]; [discriminate|]. cbn [combine].
  destruct Hin as [->|Hin]; [exists y; left; reflexivity|].
  destruct (IH rb ltac:(cbn in Hl; lia) Hin) as [b' Hb]. exists b'. right. exact Hb.
Qed.

Lemma In_combine_r (lb rb : list bool) b : length lb = length rb -> In b rb -> exists b', In (b', b) (combine lb rb).
Proof.
  revert rb; induction lb as [|x lb IH]; intros rb Hl Hin; destruct rb as [|y rb]; try discriminate; [destruct Hin|].
  cbn [combine]. destruct Hin as [->|Hin]; [exists x; left; reflexivity|].
  destruct (IH rb ltac:(cbn in Hl; lia) Hin) as [b' Hb]. exists b'. right. exact Hb.
Qed.

Lemma admissible_of_contingent lb rb : length lb = length rb -> contingent lb -> contingent rb ->
  admissible (combine lb rb) = true.
Proof.
  intros Hl [Ht Hf] [Ht' Hf']. unfold admissible.
  destruct (In_combine_l lb rb true Hl Ht) as [b1 H1].
  destruct (In_combine_l lb rb false Hl Hf) as [b2 H2].
  destruct (In_combine_r lb rb true Hl Ht') as [b3 H3].
  destruct (In_combine_r lb rb false Hl Hf') as [b4 H4].
  apply occ_In in H1, H2, H3, H4.
  destruct b1, b2, b3, b4; rewrite ?H1, ?H2, ?H3, ?H4, ?orb_true_r; reflexivity.
Qed.

(** exactly one kind for every pair of contingent columns *)
Theorem table_total_exclusive lb rb : length lb = length rb -> contingent lb -> contingent rb ->
  length (matching_rows (combine lb rb)) = 1%nat.
Proof.
  intros Hl H1 H2. rewrite matching_rows_canon.
  pose proof table_finite as T. rewrite forallb_forall in T.
  specialize (T _ (canon_in_sublists (combine lb rb))).
  rewrite admissible_canon, (admissible_of_contingent lb rb Hl H1 H2) in T. cbn [implb] in T.
  apply Nat.eqb_eq in T. exact T.
Qed.

Lemma find_of_single {A} (f : A -> bool) l : length (filter f l) = 1%nat ->
  exists x, find f l = Some x /\ filter f l = [x].
Proof.
  induction l as [|y l IH]; cbn; [discriminate|].
  destruct (f y) eqn:E.
  - intros H. exists y. split; [reflexivity|]. cbn in H. destruct (filter f l); [reflexivity|discriminate].
  - intros H. apply IH in H. exact H.
Qed.

Theorem binary_lookup_defined lb rb : length lb = length rb -> contingent lb -> contingent rb ->
  exists kind order, lookup_table pair_bool_eqb binary_table (combine lb rb) = Ok (kind, order).
Proof.
  intros Hl H1 H2. pose proof (table_total_exclusive lb rb Hl H1 H2) as T.
  unfold matching_rows in T. apply find_of_single in T. destruct T as [[[pat kind] order] [Hf _]].
  unfold lookup_table. rewrite Hf. eauto.
Qed.

(** unary: every non-empty column is exactly one of tautology / contradiction / contingency *)
Definition matching_unary (vals : list bool) :=
  filter (fun row : list bool * list Z * Z => same_set bool_eqb (fst (fst row)) vals) unary_table.

Lemma bool_eqb_eq p q : bool_eqb p q = true <-> p = q.
Proof. destruct p, q; cbn; split; intros; try reflexivity; try discriminate. Qed.

Lemma same_set_bool_iff pattern vals :
  same_set bool_eqb pattern vals = true <-> (forall c, In c pattern <-> In c vals).
Proof.
  unfold same_set. rewrite andb_true_iff, !forallb_forall. split.
  - intros [H1 H2] c. split; intros Hc.
    + specialize (H1 c Hc). apply existsb_exists in H1. destruct H1 as [x [Hx E]].
      apply (proj1 (bool_eqb_eq _ _)) in E. subst. exact Hx.
    + specialize (H2 c Hc). apply existsb_exists in H2. destruct H2 as [x [Hx E]].
      apply (proj1 (bool_eqb_eq _ _)) in E. subst. exact Hx.
  - intros H. split; intros x Hx; apply existsb_exists; exists x; (split; [apply H, Hx|apply bool_eqb_eq; reflexivity]).
Qed.

Lemma same_set_bool_ext pattern vals vals' : (forall c, In c vals <-> In c vals') ->
  same_set bool_eqb pattern vals = same_set bool_eqb pattern vals'.
Proof.
  intros H. destruct (same_set bool_eqb pattern vals) eqn:E1, (same_set bool_eqb pattern vals') eqn:E2; try reflexivity.
  - rewrite same_set_bool_iff in E1. assert (same_set bool_eqb pattern vals' = true); [|congruence].
    apply same_set_bool_iff. intros c. rewrite E1. apply H.
  - rewrite same_set_bool_iff in E2. assert (same_set bool_eqb pattern vals = true); [|congruence].
    apply same_set_bool_iff. intros c. rewrite E2. symmetry. apply H.
Qed.

Definition canon1 (vals : list bool) : list bool := filter (fun b => existsb (bool_eqb b) vals) [true; false].

Lemma canon1_same vals c : In c vals <-> In c (canon1 vals).
Proof.
  unfold canon1. rewrite filter_In, existsb_exists. split.
  - intros H. split; [destruct c; cbn; tauto|]. exists c. split; [exact H|apply bool_eqb_eq; reflexivity].
  - intros [_ [x [Hx E]]]. apply (proj1 (bool_eqb_eq _ _)) in E. subst. exact Hx.
Qed.

Theorem unary_total_exclusive vals : vals <> [] -> length (matching_unary vals) = 1%nat.
Proof.
  intros Hne. unfold matching_unary.
  rewrite (filter_ext _ _ (fun row => same_set_bool_ext (fst (fst row)) vals (canon1 vals) (canon1_same vals))).
  unfold canon1. cbn [filter].
  destruct (existsb (bool_eqb true) vals) eqn:Et, (existsb (bool_eqb false) vals) eqn:Ef; try (vm_compute; reflexivity).
  exfalso. destruct vals as [|[|] vals]; [congruence| |]; cbn in Et, Ef; discriminate.
Qed.

(** orientation: an implication l -> r means: wherever l holds, r holds (narrower to wider) *)
Lemma same_set_no_tf pattern vals : same_set pair_bool_eqb pattern vals = true ->
  ~ In (true, false) pattern -> forall lbv rbv, In (lbv, rbv) vals -> lbv = true -> rbv = true.
Proof.
  intros H Hn lbv rbv Hin ->. destruct rbv; [reflexivity|].
  exfalso. apply Hn. apply (same_set_iff pattern vals); assumption.
Qed.

Definition pattern_of_kind (kind : list Z) : list (bool * bool) :=
  match find (fun row : list (bool * bool) * list Z * Z => zlist_eqb (snd (fst row)) kind) binary_table with
  | Some (p, _, _) => p | None => [] end.

Theorem implication_pattern : ~ In (true, false) (pattern_of_kind kind_implication)
  /\ ~ In (false, true) (pattern_of_kind kind_replication).
Proof. split; vm_compute; intuition congruence. Qed.

(** the rows of the table have pairwise distinct kind names, so the kind determines the pattern *)
Lemma kinds_distinct : NoDup (map (fun row : list (bool * bool) * list Z * Z => snd (fst row)) binary_table).
Proof.
  vm_compute. repeat constructor; cbn; intuition congruence.
Qed.

(** combinations: one entry per unordered pair, in order *)
Lemma In_combinations2 {A} (l : list A) x y :
  In (x, y) (combinations2 l) <-> exists l1 l2 l3, l = l1 ++ x :: l2 ++ y :: l3.
Proof.
  induction l as [|a l IH]; cbn [combinations2].
  - split; [intros []|intros (l1 & l2 & l3 & H); destruct l1; discriminate].
  - rewrite in_app_iff, in_map_iff, IH. split.
    + intros [[z [E Hz]]|(l1 & l2 & l3 & ->)].
      * injection E as <- <-. apply in_split in Hz. destruct Hz as (l2 & l3 & ->). exists [], l2, l3. reflexivity.
      * exists (a :: l1), l2, l3. reflexivity.
    + intros (l1 & l2 & l3 & H). destruct l1 as [|b l1]; cbn in H; injection H as -> ->.
      * left. exists y. split; [reflexivity|]. apply in_or_app. right. left. reflexivity.
      * right. exists l1, l2, l3. reflexivity.
Qed.

Lemma length_combinations2 {A} (l : list A) : (2 * length (combinations2 l) = length l * (length l - 1))%nat.
Proof.
  induction l as [|a l IH]; cbn [combinations2 length]; [reflexivity|].
  rewrite app_length, map_length. nia.
Qed.

(** stable sort by rank: a permutation, weakly sorted *)
Lemma insert_by_perm {A} (kf : A -> key) x l : Permutation (insert_by kf x l) (x :: l).
Proof.
  induction l as [|y l IH]; cbn; [apply Permutation_refl|].
  destruct (key_ltb (kf x) (kf y)); [apply Permutation_refl|].
  rewrite IH. apply perm_swap.
Qed.

Lemma sort_by_perm_acc {A} (kf : A -> key) l : forall acc, Permutation (fold_left (fun a x => insert_by kf x a) l acc) (l ++ acc).
Proof.
  induction l as [|x l IH]; intros acc; cbn; [apply Permutation_refl|].
  rewrite IH. rewrite insert_by_perm. symmetry. apply Permutation_middle.
Qed.

Theorem sort_by_perm {A} (kf : A -> key) l : Permutation (sort_by kf l) l.
Proof. unfold sort_by. rewrite sort_by_perm_acc, app_nil_r. apply Permutation_refl. Qed.

Definition key_le (a b : key) : Prop := key_ltb b a = false.

Lemma key_le_trans a b d : key_le a b -> key_le b d -> key_le a d.
Proof. unfold key_le, key_ltb. destruct a, b, d; cbn. lia. Qed.

Lemma insert_by_sorted {A} (kf : A -> key) x l :
  StronglySorted (fun a b => key_le (kf a) (kf b)) l -> StronglySorted (fun a b => key_le (kf a) (kf b)) (insert_by kf x l).
Proof.
  induction l as [|y l IH]; intros Hs; cbn.
  - constructor; constructor.
  - inversion Hs as [|? ? Hs' Hall]; subst. destruct (key_ltb (kf x) (kf y)) eqn:E.
    + constructor; [exact Hs|]. constructor.
      * unfold key_le, key_ltb in *. destruct (kf x), (kf y); cbn in *. lia.
      * eapply Forall_impl; [|exact Hall]. intros z Hz. eapply key_le_trans; [|exact Hz].
        unfold key_le, key_ltb in *. destruct (kf x), (kf y); cbn in *. lia.
    + constructor; [apply IH; exact Hs'|].
      eapply Permutation_Forall; [symmetry; apply insert_by_perm|]. constructor; [exact E|exact Hall].
Qed.

Theorem sort_by_sorted {A} (kf : A -> key) l : StronglySorted (fun a b => key_le (kf a) (kf b)) (sort_by kf l).
Proof.
  unfold sort_by. assert (G : forall acc, StronglySorted (fun a b => key_le (kf a) (kf b)) acc ->
    StronglySorted (fun a b => key_le (kf a) (kf b)) (fold_left (fun a x => insert_by kf x a) l acc)).
  { induction l as [|x l IH]; intros acc Ha; cbn; [exact Ha|]. apply IH. apply insert_by_sorted. exact Ha. }
  apply G. constructor.
Qed.
