(** [build_lattice] establishes [lattice_ok]: Lattice.__init__ / _init / _annotate on top of
    the (already verified) Lindig enumeration. *)
From Coq Require Import ZArith List Bool Lia ZifyBool Arith Sorted Permutation.
From Concepts Require Import Base.Res Base.PyInt Base.BitSet Spec.FCA Spec.Context
  Model.Matrices Model.ContextApi Model.Members Model.Lindig Model.Lattice Spec.LatticeSpec
  Proofs.Matrices Proofs.ContextApi Proofs.Closure Proofs.LatticeBasics Proofs.LatticeFirst
  Proofs.Keys Proofs.SortBy Proofs.Lindig.
Import ListNotations.
Open Scope Z_scope.

(** * generic facts: [bind], [map_res], [for_fold], [nth] *)

Lemma bind_assoc {A B C} (r : res A) (f : A -> res B) (g : B -> res C) :
  bind (bind r f) g = bind r (fun a => bind (f a) g).
Proof. destruct r; reflexivity. Qed.

Lemma map_res_ok {A B} (f : A -> res B) l : forall ys,
  map_res f l = Ok ys -> Forall2 (fun x y => f x = Ok y) l ys.
Proof.
  induction l as [|x l IH]; intros ys H; cbn [map_res] in H.
  - injection H as <-. constructor.
  - apply bind_ok in H. destruct H as (y & Hy & H).
    apply bind_ok in H. destruct H as (ys' & Hys & H). injection H as <-.
    constructor; [exact Hy|apply IH; exact Hys].
Qed.

Lemma map_res_total {A B} (f : A -> res B) l :
  (forall x, In x l -> exists y, f x = Ok y) -> exists ys, map_res f l = Ok ys.
Proof.
  induction l as [|x l IH]; intros H; cbn [map_res].
  - eauto.
  - destruct (H x (or_introl eq_refl)) as (y & Hy). rewrite Hy. cbn [bind].
    destruct IH as (ys & Hys); [intros z Hz; apply H; right; exact Hz|].
    rewrite Hys. cbn [bind]. eauto.
Qed.

Lemma Forall2_length' {A B} (R : A -> B -> Prop) l l' : Forall2 R l l' -> length l = length l'.
Proof. induction 1; cbn; congruence. Qed.

Lemma Forall2_impl' {A B} (R1 R2 : A -> B -> Prop) :
  (forall a b, R1 a b -> R2 a b) -> forall l l', Forall2 R1 l l' -> Forall2 R2 l l'.
Proof. intros H l l'. induction 1; constructor; auto. Qed.

Lemma Forall2_nth {A B} (R : A -> B -> Prop) l l' da db :
  Forall2 R l l' -> forall i, (i < length l)%nat -> R (nth i l da) (nth i l' db).
Proof.
  induction 1 as [|x y l l' Hxy HF IH]; intros i Hi; cbn [length] in Hi; [lia|].
  destruct i as [|i]; cbn [nth]; [exact Hxy|apply IH; lia].
Qed.

Lemma Forall2_In_l {A B} (R : A -> B -> Prop) l l' y :
  Forall2 R l l' -> In y l' -> exists x, In x l /\ R x y.
Proof.
  induction 1 as [|x0 y0 l l' Hxy HF IH]; intros Hin; [destruct Hin|].
  destruct Hin as [<-|Hin]; [exists x0; split; [left; reflexivity|exact Hxy]|].
  destruct (IH Hin) as (x & Hx & HR). exists x. split; [right; exact Hx|exact HR].
Qed.

Lemma Forall2_In_r {A B} (R : A -> B -> Prop) l l' x :
  Forall2 R l l' -> In x l -> exists y, In y l' /\ R x y.
Proof.
  induction 1 as [|x0 y0 l l' Hxy HF IH]; intros Hin; [destruct Hin|].
  destruct Hin as [<-|Hin]; [exists y0; split; [left; reflexivity|exact Hxy]|].
  destruct (IH Hin) as (y & Hy & HR). exists y. split; [right; exact Hy|exact HR].
Qed.

Lemma for_fold_ext {S X} (b1 b2 : S -> X -> res S) xs :
  (forall s x, b1 s x = b2 s x) -> forall s, for_fold b1 xs s = for_fold b2 xs s.
Proof.
  intros H. induction xs as [|x xs IH]; intros s; cbn [for_fold]; [reflexivity|].
  rewrite H. destruct (b2 s x); cbn [bind]; [apply IH|reflexivity].
Qed.

Lemma nth_error_map_seq {A} (F : nat -> A) N i x :
  nth_error (map F (seq 0 N)) i = Some x -> (i < N)%nat /\ x = F i.
Proof.
  intros H.
  assert (Hi : (i < N)%nat).
  { assert (Hl : (i < length (map F (seq 0 N)))%nat) by (apply nth_error_Some; congruence).
    rewrite map_length, seq_length in Hl. exact Hl. }
  split; [exact Hi|].
  rewrite nth_error_map in H. rewrite (nth_error_nth' (seq 0 N) O) in H by (rewrite seq_length; exact Hi).
  rewrite seq_nth in H by exact Hi. cbn in H. congruence.
Qed.

Lemma nth_error_map_seq_intro {A} (F : nat -> A) N i :
  (i < N)%nat -> nth_error (map F (seq 0 N)) i = Some (F i).
Proof.
  intros Hi. rewrite nth_error_map. rewrite (nth_error_nth' (seq 0 N) O) by (rewrite seq_length; exact Hi).
  rewrite seq_nth by exact Hi. reflexivity.
Qed.

(** * labels: [append_label] / [labels_of] *)

Lemma labels_of_append acc ci o i :
  labels_of (append_label acc ci o) i =
  if Nat.eqb ci i then labels_of acc i ++ [o] else labels_of acc i.
Proof.
  induction acc as [|[k l] r IH]; cbn [append_label].
  - unfold labels_of. cbn [find fst]. destruct (Nat.eqb ci i); reflexivity.
  - destruct (Nat.eqb_spec k ci) as [->|Hk].
    + unfold labels_of. cbn [find fst]. destruct (Nat.eqb ci i); reflexivity.
    + unfold labels_of in *. cbn [find fst].
      destruct (Nat.eqb_spec k i) as [->|Hki].
      * destruct (Nat.eqb_spec ci i); [congruence|reflexivity].
      * exact IH.
Qed.

Definition files_under (g : nat -> res nat) (i : nat) (o : nat) : bool :=
  match g o with Ok ci => Nat.eqb ci i | Raise _ => false end.

Lemma labels_fold (g : nat -> res nat) xs : forall acc acc',
  for_fold (fun acc o => do ci <- g o ;; Ok (append_label acc ci o)) xs acc = Ok acc' ->
  forall i, labels_of acc' i = labels_of acc i ++ filter (files_under g i) xs.
Proof.
  induction xs as [|x xs IH]; intros acc acc' H i; cbn [for_fold] in H.
  - injection H as <-. cbn [filter]. rewrite app_nil_r. reflexivity.
  - apply bind_ok in H. destruct H as (acc1 & H1 & H).
    apply bind_ok in H1. destruct H1 as (ci & Hci & H1). injection H1 as <-.
    rewrite (IH _ _ H i). rewrite labels_of_append. cbn [filter]. unfold files_under at 2. rewrite Hci.
    destruct (Nat.eqb ci i); [rewrite <- app_assoc; reflexivity|reflexivity].
Qed.

Lemma labels_fold_total (g : nat -> res nat) xs :
  (forall o, In o xs -> exists ci, g o = Ok ci) ->
  forall acc, exists acc', for_fold (fun acc o => do ci <- g o ;; Ok (append_label acc ci o)) xs acc = Ok acc'.
Proof.
  induction xs as [|x xs IH]; intros H acc; cbn [for_fold]; [eauto|].
  destruct (H x (or_introl eq_refl)) as (ci & Hci). rewrite Hci. cbn [bind].
  apply IH. intros o Ho. apply H. right. exact Ho.
Qed.

Lemma filter_seq_sorted (f : nat -> bool) : forall n s, StronglySorted lt (filter f (seq s n)).
Proof.
  induction n as [|n IH]; intros s; cbn [seq filter]; [constructor|].
  destruct (f s); [|apply IH].
  constructor; [apply IH|]. apply Forall_forall. intros x Hx. apply filter_In in Hx.
  destruct Hx as [Hx _]. apply in_seq in Hx. lia.
Qed.

Lemma labels_of_nil i : labels_of [] i = [].
Proof. reflexivity. Qed.

(** * [build_lattice] = Lindig enumeration, then [finish_lattice] *)

Definition up_of (en : entry) : list Z := let '(_, _, up, _) := en in up.
Definition lo_of (en : entry) : list Z := let '(_, _, _, lo) := en in lo.
Definition int_of (en : entry) : Z := let '(_, i, _, _) := en in i.
Definition dentry : entry := (0, 0, [], []).

Definition obj_slot (dfuel : nat) (k : mctx) (exts : list Z) (o : nat) : res nat :=
  do A <- (do B <- intension_raw dfuel k [o] ;; properties_prime dfuel k B) ;; mapping_get exts A.
Definition prop_slot (dfuel : nat) (k : mctx) (exts : list Z) (p : nat) : res nat :=
  do A <- extension_raw dfuel k [p] ;; mapping_get exts A.

Definition mk_concept (n : nat) (raw : list entry) (exts : list Z) (ups los : list (list nat))
  (olabels plabels : list (nat * list nat)) (i : nat) : concept :=
  let en := nth i raw dentry in
  mkConcept (ext_of en) (int_of en) (nth i ups []) (nth i los []) i
    (rank_in (sort_by (fun i => longlex n (nth_extent exts i)) (seq 0 (length raw))) i)
    (filter (fun a => Z.lor (ext_of en) (nth_extent exts a) =? ext_of en) (nth 0 ups []))
    (labels_of olabels i) (labels_of plabels i).

Definition finish_lattice (dfuel : nat) (k : mctx) (raw : list entry) : res lattice :=
  let n := nG (mc k) in
  let exts := map ext_of raw in
  do ups <- map_res (fun en : entry =>
                       do is <- map_res (mapping_get exts) (up_of en) ;;
                       Ok (sort_by (fun i => shortlex n (nth_extent exts i)) is)) raw ;;
  do los <- map_res (fun en : entry =>
                       do is <- map_res (mapping_get exts) (lo_of en) ;;
                       Ok (sort_by (fun i => longlex n (nth_extent exts i)) is)) raw ;;
  do olabels <- for_fold (fun acc o => do ci <- obj_slot dfuel k exts o ;; Ok (append_label acc ci o)) (seq 0 n) [] ;;
  do plabels <- for_fold (fun acc p => do ci <- prop_slot dfuel k exts p ;; Ok (append_label acc ci p))
                  (seq 0 (nM (mc k))) [] ;;
  Ok (mkLattice k (map (mk_concept n raw exts ups los olabels plabels) (seq 0 (length raw))) exts).

Lemma map_res_ext {A B} (f g : A -> res B) l : (forall x, f x = g x) -> map_res f l = map_res g l.
Proof.
  intros H. induction l as [|x l IH]; cbn [map_res]; [reflexivity|]. rewrite H, IH. reflexivity.
Qed.

Lemma build_lattice_eq fuel dfuel k :
  build_lattice fuel dfuel k = do raw <- lindig_lattice fuel dfuel k [] ;; finish_lattice dfuel k raw.
Proof.
  unfold build_lattice, finish_lattice. cbv zeta.
  destruct (lindig_lattice fuel dfuel k []) as [raw|]; [|reflexivity]. cbn [bind].
  assert (E : map (fun en : entry => let '(e, _, _, _) := en in e) raw = map ext_of raw) by reflexivity.
  rewrite E. clear E. set (exts := map ext_of raw).
  rewrite (map_res_ext _ (fun en : entry =>
                       do is <- map_res (mapping_get exts) (up_of en) ;;
                       Ok (sort_by (fun i => shortlex (nG (mc k)) (nth_extent exts i)) is)))
    by (intros [[[e it] up] lo]; reflexivity).
  destruct (map_res _ raw) as [ups|]; [|reflexivity]. cbn [bind].
  rewrite (map_res_ext _ (fun en : entry =>
                       do is <- map_res (mapping_get exts) (lo_of en) ;;
                       Ok (sort_by (fun i => longlex (nG (mc k)) (nth_extent exts i)) is)))
    by (intros [[[e it] up] lo]; reflexivity).
  destruct (map_res _ raw) as [los|]; [|reflexivity]. cbn [bind].
  rewrite (for_fold_ext _ (fun acc o => do ci <- obj_slot dfuel k exts o ;; Ok (append_label acc ci o))).
  2:{ intros s x. unfold obj_slot. destruct (intension_raw dfuel k [x]) as [B|]; [|reflexivity]. cbn [bind].
      destruct (properties_prime dfuel k B); reflexivity. }
  destruct (for_fold _ (seq 0 (nG (mc k))) []) as [olabels|]; [|reflexivity]. cbn [bind].
  rewrite (for_fold_ext _ (fun acc p => do ci <- prop_slot dfuel k exts p ;; Ok (append_label acc ci p))).
  2:{ intros s x. unfold prop_slot. destruct (extension_raw dfuel k [x]) as [B|]; reflexivity. }
  destruct (for_fold _ (seq 0 (nM (mc k))) []) as [plabels|]; [|reflexivity]. cbn [bind].
  f_equal. f_equal. apply map_ext. intros i. unfold mk_concept.
  destruct (nth i raw dentry) as [[[e it] up] lo] eqn:E; unfold dentry in E; rewrite E. reflexivity.
Qed.

(** * facts about the enumerated entries *)

Definition raw_ok (c : ctx) (raw : list entry) : Prop :=
  NoDup (map ext_of raw) /\
  (forall A, In A (map ext_of raw) <-> closedO c A) /\
  (forall e i up lo, In (e, i, up, lo) raw ->
      i = upO c e /\ NoDup up /\ (forall u, In u up <-> covers c e u) /\
      NoDup lo /\ (forall l, In l lo <-> covers c l e)) /\
  StronglySorted (fun a b => key_ltb (shortlex (nG c) a) (shortlex (nG c) b) = true) (map ext_of raw).

Lemma lindig_raw_ok fuel dfuel c raw :
  wf_ctx c -> (Nat.max (nG c) (nM c) <= dfuel)%nat ->
  lindig_lattice fuel dfuel (relation_new c) [] = Ok raw -> raw_ok c raw.
Proof. intros Hwf Hf H. exact (lindig_lattice_correct fuel dfuel c raw Hwf Hf H). Qed.

Section Raw.
  Variables (c : ctx) (raw : list entry).
  Hypothesis Hraw : raw_ok c raw.
  Notation exts := (map ext_of raw).

  Let Hnd : NoDup exts := proj1 Hraw.
  Let Hcl : forall A, In A exts <-> closedO c A := proj1 (proj2 Hraw).
  Let Hsorted := proj2 (proj2 (proj2 Hraw)).

  Lemma exts_length : length exts = length raw.
  Proof. apply map_length. Qed.

  Lemma nth_extent_raw i : nth_extent exts i = ext_of (nth i raw dentry).
  Proof. unfold nth_extent. change 0 with (ext_of dentry) at 1. apply map_nth. Qed.

  Lemma nth_extent_In i : (i < length raw)%nat -> In (nth_extent exts i) exts.
  Proof. intros Hi. unfold nth_extent. apply nth_In. rewrite exts_length. exact Hi. Qed.

  Lemma nth_extent_closed i : (i < length raw)%nat -> closedO c (nth_extent exts i).
  Proof. intros Hi. apply Hcl, nth_extent_In, Hi. Qed.

  Lemma nth_extent_inj i j : (i < length raw)%nat -> (j < length raw)%nat ->
    nth_extent exts i = nth_extent exts j -> i = j.
  Proof.
    intros Hi Hj E. unfold nth_extent in E.
    apply (proj1 (NoDup_nth exts 0) Hnd i j); rewrite ?exts_length; assumption.
  Qed.

  Lemma In_exts_nth A : In A exts -> exists i, (i < length raw)%nat /\ nth_extent exts i = A.
  Proof.
    intros HA. destruct (In_nth exts A 0 HA) as (i & Hi & E). rewrite exts_length in Hi. exists i. split; assumption.
  Qed.

  Lemma mapping_get_iff e j : mapping_get exts e = Ok j <-> (j < length raw)%nat /\ nth_extent exts j = e.
  Proof.
    split.
    - intros H. apply mapping_get_ok in H. rewrite exts_length in H. exact H.
    - intros [Hj E]. assert (Hin : In e exts) by (rewrite <- E; apply nth_extent_In; exact Hj).
      destruct (mapping_get_in exts e Hin) as (j' & Hj'). rewrite Hj'. f_equal.
      apply mapping_get_ok in Hj'. rewrite exts_length in Hj'. destruct Hj' as [Hlt E'].
      apply nth_extent_inj; [exact Hlt|exact Hj|congruence].
  Qed.

  Lemma raw_nth_In i : (i < length raw)%nat -> In (nth i raw dentry) raw.
  Proof. apply nth_In. Qed.

  Lemma entry_eta (en : entry) : en = (ext_of en, int_of en, up_of en, lo_of en).
  Proof. destruct en as [[[e it] up] lo]. reflexivity. Qed.

  Lemma raw_entry i : (i < length raw)%nat ->
    let en := nth i raw dentry in
    int_of en = upO c (ext_of en) /\ NoDup (up_of en) /\ (forall u, In u (up_of en) <-> covers c (ext_of en) u) /\
    NoDup (lo_of en) /\ (forall l, In l (lo_of en) <-> covers c l (ext_of en)).
  Proof.
    intros Hi en. apply (proj1 (proj2 (proj2 Hraw))). rewrite <- entry_eta. apply raw_nth_In. exact Hi.
  Qed.

  (** keys of distinct indices are distinct *)
  Lemma shortlex_idx_inj i j : (i < length raw)%nat -> (j < length raw)%nat ->
    shortlex (nG c) (nth_extent exts i) = shortlex (nG c) (nth_extent exts j) -> i = j.
  Proof.
    intros Hi Hj E. apply nth_extent_inj; try assumption.
    apply (shortlex_inj (nG c)); [apply nth_extent_closed, Hi|apply nth_extent_closed, Hj|exact E].
  Qed.

  Lemma longlex_idx_inj i j : (i < length raw)%nat -> (j < length raw)%nat ->
    longlex (nG c) (nth_extent exts i) = longlex (nG c) (nth_extent exts j) -> i = j.
  Proof.
    intros Hi Hj E. apply nth_extent_inj; try assumption.
    apply (longlex_inj (nG c)); [apply nth_extent_closed, Hi|apply nth_extent_closed, Hj|exact E].
  Qed.

  (** a list of extents mapped to indices *)
  Lemma links_spec us : forall is,
    map_res (mapping_get exts) us = Ok is ->
    (forall j, In j is <-> (j < length raw)%nat /\ In (nth_extent exts j) us) /\
    (NoDup us -> NoDup is).
  Proof.
    induction us as [|u us IH]; intros is H; cbn [map_res] in H.
    - injection H as <-. split; [|intros _; constructor]. intros j. cbn [In]. tauto.
    - apply bind_ok in H. destruct H as (y & Hy & H). apply bind_ok in H. destruct H as (ys & Hys & H).
      injection H as <-. destruct (IH ys Hys) as [IH1 IH2]. apply mapping_get_iff in Hy. destruct Hy as [Hy Ey].
      split.
      + intros j. cbn [In]. rewrite IH1. split.
        * intros [<-|[Hj Hin]]; [split; [exact Hy|left; symmetry; exact Ey]|split; [exact Hj|right; exact Hin]].
        * intros [Hj [E|Hin]]; [left; apply nth_extent_inj; [exact Hy|exact Hj|congruence]|right; split; assumption].
      + intros Hndu. apply NoDup_cons_iff in Hndu. destruct Hndu as [Hnotin Hndus]. constructor; [|apply IH2; exact Hndus].
        intros Hin. apply IH1 in Hin. destruct Hin as [_ Hin]. rewrite Ey in Hin. contradiction.
  Qed.

  Lemma links_total us : (forall u, In u us -> In u exts) -> exists is, map_res (mapping_get exts) us = Ok is.
  Proof. intros H. apply map_res_total. intros u Hu. apply mapping_get_in, H, Hu. Qed.

  (** the first entry is the bottom concept *)
  Lemma raw_nonempty : (0 < length raw)%nat.
  Proof.
    assert (Hb : In (clO c 0) exts) by (apply Hcl, bottom_closed).
    destruct (In_exts_nth _ Hb) as (i & Hi & _). lia.
  Qed.

  Lemma first_is_bottom : nth_extent exts 0 = clO c 0.
  Proof.
    assert (Hb : In (clO c 0) exts) by (apply Hcl, bottom_closed).
    destruct (In_exts_nth _ Hb) as (i & Hi & Ei).
    destruct i as [|i]; [exact Ei|]. exfalso.
    pose proof (StronglySorted_nth _ exts 0 Hsorted O (S i)) as Hlt. cbv beta in Hlt.
    specialize (Hlt ltac:(lia) ltac:(rewrite exts_length; exact Hi)).
    fold (nth_extent exts 0) in Hlt. fold (nth_extent exts (S i)) in Hlt. rewrite Ei in Hlt.
    pose proof (nth_extent_closed O raw_nonempty) as Hc0.
    assert (Hps : psubset (clO c 0) (nth_extent exts 0)).
    { split; [apply bottom_least; exact Hc0|]. intros E.
      assert (O = S i); [|discriminate]. apply nth_extent_inj; [exact raw_nonempty|exact Hi|congruence]. }
    pose proof (subset_shortlex (nG c) _ _ (proj1 (bottom_closed c)) (proj1 Hc0) Hps) as Hlt'.
    apply key_ltb_asym in Hlt. congruence.
  Qed.
End Raw.

(** * [finish_lattice] on a correct enumeration *)

Section Finish.
  Variables (c : ctx) (raw : list entry) (dfuel : nat).
  Hypothesis Hwf : wf_ctx c.
  Hypothesis Hfuel : (Nat.max (nG c) (nM c) <= dfuel)%nat.
  Hypothesis Hraw : raw_ok c raw.
  Notation exts := (map ext_of raw).
  Notation k := (relation_new c).
  Notation skey := (fun i : nat => shortlex (nG c) (nth_extent exts i)).
  Notation lkey := (fun i : nat => longlex (nG c) (nth_extent exts i)).

  Definition up_row (en : entry) (y : list nat) : Prop :=
    exists is, map_res (mapping_get exts) (up_of en) = Ok is /\ y = sort_by skey is.
  Definition lo_row (en : entry) (y : list nat) : Prop :=
    exists is, map_res (mapping_get exts) (lo_of en) = Ok is /\ y = sort_by lkey is.

  Lemma finish_inv L : finish_lattice dfuel k raw = Ok L ->
    exists ups los olabels plabels,
      Forall2 up_row raw ups /\ Forall2 lo_row raw los /\
      (forall i, labels_of olabels i = filter (files_under (obj_slot dfuel k exts) i) (seq 0 (nG c))) /\
      (forall i, labels_of plabels i = filter (files_under (prop_slot dfuel k exts) i) (seq 0 (nM c))) /\
      L = mkLattice k (map (mk_concept (nG c) raw exts ups los olabels plabels) (seq 0 (length raw))) exts.
  Proof.
    intros H. unfold finish_lattice in H. cbv zeta in H. cbn [mc relation_new nG nM] in H.
    apply bind_ok in H. destruct H as (ups & Hups & H).
    apply bind_ok in H. destruct H as (los & Hlos & H).
    apply bind_ok in H. destruct H as (olabels & Hol & H).
    apply bind_ok in H. destruct H as (plabels & Hpl & H).
    injection H as <-.
    exists ups, los, olabels, plabels.
    split; [|split; [|split; [|split]]].
    - apply map_res_ok in Hups. revert Hups. apply Forall2_impl'. intros en y Hy.
      apply bind_ok in Hy. destruct Hy as (is & His & Hy). injection Hy as <-. exists is. split; [exact His|reflexivity].
    - apply map_res_ok in Hlos. revert Hlos. apply Forall2_impl'. intros en y Hy.
      apply bind_ok in Hy. destruct Hy as (is & His & Hy). injection Hy as <-. exists is. split; [exact His|reflexivity].
    - intros i. rewrite (labels_fold _ _ _ _ Hol i). reflexivity.
    - intros i. rewrite (labels_fold _ _ _ _ Hpl i). reflexivity.
    - reflexivity.
  Qed.

  Lemma obj_slot_eq o : (o < nG c)%nat -> obj_slot dfuel k exts o = mapping_get exts (clO c (bit o)).
  Proof. intros Ho. unfold obj_slot. rewrite (object_label_extent dfuel c o Hwf Ho Hfuel). reflexivity. Qed.

  Lemma prop_slot_eq p : (p < nM c)%nat -> prop_slot dfuel k exts p = mapping_get exts (upM c (bit p)).
  Proof. intros Hp. unfold prop_slot. rewrite (property_label_extent dfuel c p Hp Hfuel). reflexivity. Qed.

  Lemma In_obj_labels i o : (i < length raw)%nat ->
    In o (filter (files_under (obj_slot dfuel k exts) i) (seq 0 (nG c))) <->
    (o < nG c)%nat /\ nth_extent exts i = clO c (bit o).
  Proof.
    intros Hi. rewrite filter_In, in_seq. split.
    - intros [Ho Hf]. assert (Ho' : (o < nG c)%nat) by lia. split; [exact Ho'|].
      unfold files_under in Hf. rewrite (obj_slot_eq o Ho') in Hf.
      destruct (mapping_get exts (clO c (bit o))) as [ci|] eqn:E; [|discriminate].
      apply Nat.eqb_eq in Hf. subst ci. apply (mapping_get_iff c raw Hraw) in E. tauto.
    - intros [Ho E]. split; [lia|]. unfold files_under. rewrite (obj_slot_eq o Ho).
      rewrite (proj2 (mapping_get_iff c raw Hraw _ i) (conj Hi E)). apply Nat.eqb_refl.
  Qed.

  Lemma In_prop_labels i p : (i < length raw)%nat ->
    In p (filter (files_under (prop_slot dfuel k exts) i) (seq 0 (nM c))) <->
    (p < nM c)%nat /\ nth_extent exts i = upM c (bit p).
  Proof.
    intros Hi. rewrite filter_In, in_seq. split.
    - intros [Hp Hf]. assert (Hp' : (p < nM c)%nat) by lia. split; [exact Hp'|].
      unfold files_under in Hf. rewrite (prop_slot_eq p Hp') in Hf.
      destruct (mapping_get exts (upM c (bit p))) as [ci|] eqn:E; [|discriminate].
      apply Nat.eqb_eq in Hf. subst ci. apply (mapping_get_iff c raw Hraw) in E. tauto.
    - intros [Hp E]. split; [lia|]. unfold files_under. rewrite (prop_slot_eq p Hp).
      rewrite (proj2 (mapping_get_iff c raw Hraw _ i) (conj Hi E)). apply Nat.eqb_refl.
  Qed.

  (** neighbour rows *)
  Lemma up_row_spec i y : (i < length raw)%nat -> up_row (nth i raw dentry) y ->
    (forall j, In j y <-> (j < length raw)%nat /\ covers c (nth_extent exts i) (nth_extent exts j)) /\
    StronglySorted (fun a b => key_lt (skey a) (skey b)) y.
  Proof.
    intros Hi (is & His & ->).
    destruct (raw_entry c raw Hraw i Hi) as (_ & Hndu & Hup & _).
    destruct (links_spec c raw Hraw _ _ His) as [Hin Hndis]. specialize (Hndis Hndu).
    split.
    - intros j. rewrite sort_by_In, Hin, Hup, <- (nth_extent_raw raw i). reflexivity.
    - apply (sort_by_sorted_inj skey is); [|exact Hndis].
      intros a b Ha Hb E. apply Hin in Ha, Hb. apply (shortlex_idx_inj c raw Hraw); tauto.
  Qed.

  Lemma lo_row_spec i y : (i < length raw)%nat -> lo_row (nth i raw dentry) y ->
    (forall j, In j y <-> (j < length raw)%nat /\ covers c (nth_extent exts j) (nth_extent exts i)) /\
    StronglySorted (fun a b => key_lt (lkey a) (lkey b)) y.
  Proof.
    intros Hi (is & His & ->).
    destruct (raw_entry c raw Hraw i Hi) as (_ & _ & _ & Hndl & Hlo).
    destruct (links_spec c raw Hraw _ _ His) as [Hin Hndis]. specialize (Hndis Hndl).
    split.
    - intros j. rewrite sort_by_In, Hin, Hlo, <- (nth_extent_raw raw i). reflexivity.
    - apply (sort_by_sorted_inj lkey is); [|exact Hndis].
      intros a b Ha Hb E. apply Hin in Ha, Hb. apply (longlex_idx_inj c raw Hraw); tauto.
  Qed.
End Finish.

Lemma map_nth_seq {A B} (f : A -> B) (l : list A) d :
  map (fun i => f (nth i l d)) (seq 0 (length l)) = map f l.
Proof.
  induction l as [|x l IH]; [reflexivity|].
  cbn [length seq map nth]. f_equal. rewrite <- seq_shift, map_map. exact IH.
Qed.

Section FinishOk.
  Variables (c : ctx) (raw : list entry) (dfuel : nat).
  Hypothesis Hwf : wf_ctx c.
  Hypothesis Hfuel : (Nat.max (nG c) (nM c) <= dfuel)%nat.
  Hypothesis Hraw : raw_ok c raw.
  Notation exts := (map ext_of raw).
  Notation k := (relation_new c).
  Notation skey := (fun i : nat => shortlex (nG c) (nth_extent exts i)).
  Notation lkey := (fun i : nat => longlex (nG c) (nth_extent exts i)).

  Variables (ups los : list (list nat)) (olabels plabels : list (nat * list nat)).
  Hypothesis Hups : Forall2 (up_row c raw) raw ups.
  Hypothesis Hlos : Forall2 (lo_row c raw) raw los.
  Hypothesis Hol : forall i, labels_of olabels i = filter (files_under (obj_slot dfuel k exts) i) (seq 0 (nG c)).
  Hypothesis Hpl : forall i, labels_of plabels i = filter (files_under (prop_slot dfuel k exts) i) (seq 0 (nM c)).

  Notation mk := (mk_concept (nG c) raw exts ups los olabels plabels).
  Notation L := (mkLattice k (map mk (seq 0 (length raw))) exts).

  Lemma concept_at_inv i x : concept_at L i x -> (i < length raw)%nat /\ x = mk i.
  Proof. unfold concept_at. cbn [l_concepts]. apply nth_error_map_seq. Qed.

  Lemma concept_at_intro i : (i < length raw)%nat -> concept_at L i (mk i).
  Proof. unfold concept_at. cbn [l_concepts]. apply nth_error_map_seq_intro. Qed.

  Lemma mk_extent i : c_extent (mk i) = nth_extent exts i.
  Proof. rewrite nth_extent_raw. reflexivity. Qed.

  Lemma lkey_nodup : NoDup (map lkey (seq 0 (length raw))).
  Proof.
    apply NoDup_map_inj_in; [|apply seq_NoDup].
    intros a b Ha Hb E. apply in_seq in Ha, Hb. apply (longlex_idx_inj c raw Hraw); [lia|lia|exact E].
  Qed.

  Lemma ups_row i : (i < length raw)%nat -> up_row c raw (nth i raw dentry) (nth i ups []).
  Proof. intros Hi. apply (Forall2_nth _ _ _ dentry [] Hups i Hi). Qed.
  Lemma los_row i : (i < length raw)%nat -> lo_row c raw (nth i raw dentry) (nth i los []).
  Proof. intros Hi. apply (Forall2_nth _ _ _ dentry [] Hlos i Hi). Qed.

  Theorem finish_ok : lattice_ok c L.
  Proof.
    pose proof (raw_nonempty c raw Hraw) as Hne.
    constructor.
    - (* ok_ctx *) reflexivity.
    - (* ok_exts *) cbn [l_exts l_concepts]. rewrite map_map. symmetry.
      exact (map_nth_seq ext_of raw dentry).
    - (* ok_nodup *) exact (proj1 Hraw).
    - (* ok_complete *) exact (proj1 (proj2 Hraw)).
    - (* ok_intent *) intros i x Hx. apply concept_at_inv in Hx. destruct Hx as [Hi ->].
      exact (proj1 (raw_entry c raw Hraw i Hi)).
    - (* ok_index *) intros i x Hx. apply concept_at_inv in Hx. destruct Hx as [Hi ->]. reflexivity.
    - (* ok_sorted *) exact (proj2 (proj2 (proj2 Hraw))).
    - (* ok_dindex *) intros i x j y Hx Hy. apply concept_at_inv in Hx, Hy.
      destruct Hx as [Hi ->], Hy as [Hj ->]. rewrite !mk_extent. cbn [c_dindex mk_concept].
      apply (rank_in_sort_by lkey (seq 0 (length raw)) i j lkey_nodup); apply in_seq; lia.
    - (* ok_dindex_range *) intros i x Hx. apply concept_at_inv in Hx. destruct Hx as [Hi ->].
      cbn [c_dindex mk_concept l_concepts]. rewrite map_length, seq_length.
      pose proof (rank_in_lt (sort_by lkey (seq 0 (length raw))) i) as Hlt.
      rewrite sort_by_length, seq_length in Hlt. apply Hlt. apply sort_by_In, in_seq. lia.
    - (* ok_upper *) intros i x j Hx. apply concept_at_inv in Hx. destruct Hx as [Hi ->].
      cbn [c_upper mk_concept]. rewrite mk_extent.
      destruct (up_row_spec c raw Hraw i _ Hi (ups_row i Hi)) as [Hin _]. rewrite Hin. split.
      + intros [Hj Hc]. exists (mk j). split; [apply concept_at_intro; exact Hj|]. rewrite mk_extent. exact Hc.
      + intros (y & Hy & Hc). apply concept_at_inv in Hy. destruct Hy as [Hj ->]. rewrite mk_extent in Hc. tauto.
    - (* ok_lower *) intros i x j Hx. apply concept_at_inv in Hx. destruct Hx as [Hi ->].
      cbn [c_lower mk_concept]. rewrite mk_extent.
      destruct (lo_row_spec c raw Hraw i _ Hi (los_row i Hi)) as [Hin _]. rewrite Hin. split.
      + intros [Hj Hc]. exists (mk j). split; [apply concept_at_intro; exact Hj|]. rewrite mk_extent. exact Hc.
      + intros (y & Hy & Hc). apply concept_at_inv in Hy. destruct Hy as [Hj ->]. rewrite mk_extent in Hc. tauto.
    - (* ok_upper_sorted *) intros i x Hx. apply concept_at_inv in Hx. destruct Hx as [Hi ->].
      cbn [c_upper mk_concept l_exts].
      exact (proj2 (up_row_spec c raw Hraw i _ Hi (ups_row i Hi))).
    - (* ok_lower_sorted *) intros i x Hx. apply concept_at_inv in Hx. destruct Hx as [Hi ->].
      cbn [c_lower mk_concept l_exts].
      exact (proj2 (lo_row_spec c raw Hraw i _ Hi (los_row i Hi))).
    - (* ok_objects *) intros i x o Hx. apply concept_at_inv in Hx. destruct Hx as [Hi ->].
      rewrite mk_extent. cbn [c_objects mk_concept]. rewrite Hol.
      apply (In_obj_labels c raw dfuel Hwf Hfuel Hraw i o Hi).
    - (* ok_objects_sorted *) intros i x Hx. apply concept_at_inv in Hx. destruct Hx as [Hi ->].
      cbn [c_objects mk_concept]. rewrite Hol. apply filter_seq_sorted.
    - (* ok_properties *) intros i x p Hx. apply concept_at_inv in Hx. destruct Hx as [Hi ->].
      rewrite mk_extent. cbn [c_properties mk_concept]. rewrite Hpl.
      apply (In_prop_labels c raw dfuel Hfuel Hraw i p Hi).
    - (* ok_properties_sorted *) intros i x Hx. apply concept_at_inv in Hx. destruct Hx as [Hi ->].
      cbn [c_properties mk_concept]. rewrite Hpl. apply filter_seq_sorted.
    - (* ok_atoms *) intros i x a Hx. apply concept_at_inv in Hx. destruct Hx as [Hi ->].
      cbn [c_atoms mk_concept]. rewrite <- (nth_extent_raw raw i). rewrite mk_extent.
      rewrite filter_In.
      destruct (up_row_spec c raw Hraw O _ Hne (ups_row O Hne)) as [Hin _]. rewrite Hin.
      rewrite (first_is_bottom c raw Hraw).
      pose proof (nth_extent_closed c raw Hraw i Hi) as Hci.
      split.
      + intros [[Ha Hc] Hsub]. exists (mk a). split; [apply concept_at_intro; exact Ha|].
        rewrite mk_extent. split; [exact Hc|].
        pose proof (nth_extent_closed c raw Hraw a Ha) as Hca.
        apply (supersetb_spec (nth_extent exts i) (nth_extent exts a)); [apply Hci|apply Hca|exact Hsub].
      + intros (y & Hy & Hc & Hsub). apply concept_at_inv in Hy. destruct Hy as [Ha ->].
        rewrite mk_extent in Hc, Hsub. split; [split; assumption|].
        pose proof (nth_extent_closed c raw Hraw a Ha) as Hca.
        apply (supersetb_spec (nth_extent exts i) (nth_extent exts a)); [apply Hci|apply Hca|exact Hsub].
  Qed.
End FinishOk.

(** * main theorems *)

Theorem finish_lattice_ok dfuel c raw L :
  wf_ctx c -> (Nat.max (nG c) (nM c) <= dfuel)%nat -> raw_ok c raw ->
  finish_lattice dfuel (relation_new c) raw = Ok L -> lattice_ok c L.
Proof.
  intros Hwf Hfuel Hraw H.
  destruct (finish_inv c raw dfuel L H) as (ups & los & olabels & plabels & Hups & Hlos & Hol & Hpl & ->).
  exact (finish_ok c raw dfuel Hwf Hfuel Hraw ups los olabels plabels Hups Hlos Hol Hpl).
Qed.

Theorem build_lattice_ok : forall fuel dfuel c L,
  wf_ctx c -> (Nat.max (nG c) (nM c) <= dfuel)%nat ->
  build_lattice fuel dfuel (relation_new c) = Ok L -> lattice_ok c L.
Proof.
  intros fuel dfuel c L Hwf Hfuel H. rewrite build_lattice_eq in H.
  apply bind_ok in H. destruct H as (raw & Hraw & H).
  exact (finish_lattice_ok dfuel c raw L Hwf Hfuel (lindig_raw_ok fuel dfuel c raw Hwf Hfuel Hraw) H).
Qed.

Theorem finish_lattice_total dfuel c raw :
  wf_ctx c -> (Nat.max (nG c) (nM c) <= dfuel)%nat -> raw_ok c raw ->
  exists L, finish_lattice dfuel (relation_new c) raw = Ok L.
Proof.
  intros Hwf Hfuel Hraw. unfold finish_lattice. cbv zeta. cbn [mc relation_new nG nM].
  pose proof (proj1 (proj2 Hraw)) as Hcl.
  assert (Hent : forall en, In en raw ->
            (forall u, In u (up_of en) -> In u (map ext_of raw)) /\
            (forall l, In l (lo_of en) -> In l (map ext_of raw))).
  { intros en Hen. rewrite (entry_eta en) in Hen.
    destruct (proj1 (proj2 (proj2 Hraw)) _ _ _ _ Hen) as (_ & _ & Hup & _ & Hlo).
    split; [intros u Hu; apply Hup in Hu|intros l Hl; apply Hlo in Hl]; apply Hcl.
    - destruct Hu as (_ & Hu & _). exact Hu.
    - destruct Hl as (Hl & _). exact Hl. }
  destruct (map_res_total
    (fun en : entry => do is <- map_res (mapping_get (map ext_of raw)) (up_of en) ;;
       Ok (sort_by (fun i : nat => shortlex (nG c) (nth_extent (map ext_of raw) i)) is)) raw) as (ups & Hups).
  { intros en Hen. destruct (links_total raw _ (proj1 (Hent en Hen))) as (is & His). rewrite His. cbn [bind]. eauto. }
  rewrite Hups. cbn [bind].
  destruct (map_res_total
    (fun en : entry => do is <- map_res (mapping_get (map ext_of raw)) (lo_of en) ;;
       Ok (sort_by (fun i : nat => longlex (nG c) (nth_extent (map ext_of raw) i)) is)) raw) as (los & Hlos).
  { intros en Hen. destruct (links_total raw _ (proj2 (Hent en Hen))) as (is & His). rewrite His. cbn [bind]. eauto. }
  rewrite Hlos. cbn [bind].
  destruct (labels_fold_total (obj_slot dfuel (relation_new c) (map ext_of raw)) (seq 0 (nG c))) with (acc := @nil (nat * list nat))
    as (olabels & Hol).
  { intros o Ho. apply in_seq in Ho. rewrite (obj_slot_eq c raw dfuel Hwf Hfuel o) by lia.
    apply mapping_get_in, Hcl.
    assert (Hr : in_range (nG c) (bit o)) by (apply in_range_bit; lia).
    split; [apply in_range_upM|apply clO_idempotent; exact Hr]. }
  rewrite Hol. cbn [bind].
  destruct (labels_fold_total (prop_slot dfuel (relation_new c) (map ext_of raw)) (seq 0 (nM c))) with (acc := @nil (nat * list nat))
    as (plabels & Hpl).
  { intros p Hp. apply in_seq in Hp. rewrite (prop_slot_eq c raw dfuel Hfuel p) by lia.
    apply mapping_get_in, Hcl. apply closed_upM. apply in_range_bit. lia. }
  rewrite Hpl. cbn [bind]. eauto.
Qed.

Theorem build_lattice_terminates : forall dfuel c, wf_ctx c -> (Nat.max (nG c) (nM c) <= dfuel)%nat ->
  exists fuel0, forall fuel, (fuel0 <= fuel)%nat -> exists L, build_lattice fuel dfuel (relation_new c) = Ok L.
Proof.
  intros dfuel c Hwf Hfuel.
  destruct (lindig_lattice_terminates dfuel c Hwf Hfuel) as (fuel0 & H0).
  exists fuel0. intros fuel Hf. destruct (H0 fuel Hf) as (raw & Hraw).
  rewrite build_lattice_eq, Hraw. cbn [bind].
  exact (finish_lattice_total dfuel c raw Hwf Hfuel (lindig_raw_ok fuel dfuel c raw Hwf Hfuel Hraw)).
Qed.
