(** intension / extension return exactly the common properties / objects. *)
From Coq Require Import ZArith List Bool Lia ZifyBool.
From Concepts Require Import Base.Res Base.PyInt Base.BitSet Spec.FCA Spec.Context
  Model.Matrices Model.ContextApi Proofs.Matrices.
Import ListNotations.
Open Scope Z_scope.

Lemma filter_map_comm {A B} (f : A -> B) (p : B -> bool) l :
  filter p (map f l) = map f (filter (fun x => p (f x)) l).
Proof. induction l as [|x l IH]; cbn; [reflexivity|]. destruct (p (f x)); cbn; rewrite IH; reflexivity. Qed.

Lemma filter_ext' {A} (f g : A -> bool) l : (forall x, f x = g x) -> filter f l = filter g l.
Proof. intros H. apply filter_ext. exact H. Qed.

Lemma testbit_xI_S q i : Z.testbit (Z.pos q~1) (Z.of_nat (S i)) = Z.testbit (Z.pos q) (Z.of_nat i).
Proof. rewrite Nat2Z.inj_succ. change (Z.pos q~1) with (2 * Z.pos q + 1). apply Z.testbit_odd_succ. lia. Qed.
Lemma testbit_xO_S q i : Z.testbit (Z.pos q~0) (Z.of_nat (S i)) = Z.testbit (Z.pos q) (Z.of_nat i).
Proof. rewrite Nat2Z.inj_succ. change (Z.pos q~0) with (2 * Z.pos q). apply Z.testbit_even_succ. lia. Qed.

Lemma idx_pos_spec p : forall k,
  idx_pos p k = map (fun i => (k + i)%nat)
                    (filter (fun i => Z.testbit (Z.pos p) (Z.of_nat i)) (seq 0 (Pos.size_nat p))).
Proof.
  induction p as [q IH|q IH|]; intros k; cbn [idx_pos Pos.size_nat].
  - rewrite <- cons_seq, <- seq_shift. cbn [filter]. change (Z.testbit (Z.pos q~1) (Z.of_nat 0)) with true.
    cbn [map]. rewrite Nat.add_0_r. f_equal. rewrite IH, filter_map_comm, map_map.
    rewrite (filter_ext' _ _ _ (testbit_xI_S q)).
    apply map_ext. intros x. lia.
  - rewrite <- cons_seq, <- seq_shift. cbn [filter]. change (Z.testbit (Z.pos q~0) (Z.of_nat 0)) with false.
    rewrite IH, filter_map_comm, map_map.
    rewrite (filter_ext' _ _ _ (testbit_xO_S q)).
    apply map_ext. intros x. lia.
  - cbn. rewrite Nat.add_0_r. reflexivity.
Qed.

Lemma filter_nil {A} (p : A -> bool) l : (forall x, In x l -> p x = false) -> filter p l = [].
Proof.
  induction l as [|x l IH]; intros H; cbn; [reflexivity|].
  rewrite (H x) by (left; reflexivity). apply IH. intros y Hy. apply H. right. exact Hy.
Qed.

Lemma indexes_members n s : in_range n s -> indexes s = members n s.
Proof.
  intros Hs. unfold members. destruct s as [|p|p]; [| |destruct Hs; lia].
  - cbn [indexes]. symmetry. apply filter_nil. intros x _. apply mem_0.
  - cbn [indexes]. rewrite idx_pos_spec. cbn [Nat.add]. rewrite map_id.
    pose proof (size_nat_le_of_in_range n p Hs) as Hle.
    replace n with (Pos.size_nat p + (n - Pos.size_nat p))%nat at 1 by lia.
    rewrite seq_app, filter_app. cbn [Nat.add].
    rewrite (filter_nil (mem (Z.pos p)) (seq (Pos.size_nat p) (n - Pos.size_nat p))).
    + rewrite app_nil_r. reflexivity.
    + intros x Hx. apply in_seq in Hx. destruct (mem (Z.pos p) x) eqn:E; [|reflexivity].
      apply size_nat_bits in E. lia.
Qed.

Lemma frommembers_ok n ms : Forall (fun i => (i < n)%nat) ms -> frommembers n ms = Ok (of_list ms).
Proof.
  intros H. unfold frommembers.
  assert (E : forallb (fun i => (i <? n)%nat) ms = true).
  { apply forallb_forall. intros x Hx. rewrite Forall_forall in H. specialize (H x Hx). lia. }
  rewrite E. reflexivity.
Qed.

Lemma frommembers_unknown n ms : ~ Forall (fun i => (i < n)%nat) ms -> frommembers n ms = Raise KeyError.
Proof.
  intros H. unfold frommembers.
  destruct (forallb (fun i => (i <? n)%nat) ms) eqn:E; [|reflexivity].
  exfalso. apply H. apply Forall_forall. intros x Hx. rewrite forallb_forall in E. specialize (E x Hx). lia.
Qed.

Lemma bits_size_le n s : in_range n s -> (bits_size s <= n)%nat.
Proof.
  intros Hs. destruct s as [|p|p]; cbn [bits_size]; try lia.
  apply size_nat_le_of_in_range. exact Hs.
Qed.

Lemma mem_upO_of_list c gs m :
  Forall (fun g => (g < nG c)%nat) gs -> (m < nM c)%nat ->
  mem (upO c (of_list gs)) m = forallb (fun g => inc c g m) gs.
Proof.
  intros Hgs Hm. destruct (forallb (fun g => inc c g m) gs) eqn:E.
  - apply mem_up. split; [exact Hm|]. intros g Hg Hin. apply mem_of_list_In in Hin.
    rewrite forallb_forall in E. apply E. exact Hin.
  - destruct (mem (upO c (of_list gs)) m) eqn:E2; [|reflexivity].
    apply mem_up in E2. destruct E2 as [_ E2].
    assert (forallb (fun g => inc c g m) gs = true); [|congruence].
    apply forallb_forall. intros g Hg. apply E2.
    + rewrite Forall_forall in Hgs. apply Hgs. exact Hg.
    + apply mem_of_list_In. exact Hg.
Qed.

Lemma mem_upM_of_list c ms g :
  Forall (fun m => (m < nM c)%nat) ms -> (g < nG c)%nat ->
  mem (upM c (of_list ms)) g = forallb (fun m => inc c g m) ms.
Proof.
  intros Hms Hg. destruct (forallb (fun m => inc c g m) ms) eqn:E.
  - apply mem_up. split; [exact Hg|]. intros m Hm Hin. apply mem_of_list_In in Hin.
    rewrite forallb_forall in E. unfold flipR. apply E. exact Hin.
  - destruct (mem (upM c (of_list ms)) g) eqn:E2; [|reflexivity].
    apply mem_up in E2. destruct E2 as [_ E2].
    assert (forallb (fun m => inc c g m) ms = true); [|congruence].
    apply forallb_forall. intros m Hm. apply (E2 m).
    + rewrite Forall_forall in Hms. apply Hms. exact Hm.
    + apply mem_of_list_In. exact Hm.
Qed.

(** C01, objects -> properties *)
Theorem intension_spec fuel c gs :
  wf_ctx c -> Forall (fun g => (g < nG c)%nat) gs -> (nG c <= fuel)%nat ->
  intension fuel (relation_new c) gs =
  Ok (filter (fun m => forallb (fun g => inc c g m) gs) (seq 0 (nM c))).
Proof.
  intros Hwf Hgs Hfuel. unfold intension, intension_raw, objects_prime, relation_new. cbn [mc mcols].
  rewrite (frommembers_ok _ _ Hgs). cbn [bind].
  pose proof (in_range_of_list _ _ Hgs) as HA.
  fold (primeO fuel c (of_list gs)).
  rewrite (primeO_spec fuel c _ Hwf HA) by (pose proof (bits_size_le _ _ HA); lia).
  cbn [bind]. f_equal.
  rewrite (indexes_members (nM c)) by apply in_range_up.
  unfold members. apply filter_ext_in. intros m Hm. apply in_seq in Hm.
  apply mem_upO_of_list; [exact Hgs|lia].
Qed.

Theorem extension_spec fuel c ms :
  Forall (fun m => (m < nM c)%nat) ms -> (nM c <= fuel)%nat ->
  extension fuel (relation_new c) ms =
  Ok (filter (fun g => forallb (fun m => inc c g m) ms) (seq 0 (nG c))).
Proof.
  intros Hms Hfuel. unfold extension, extension_raw, properties_prime, relation_new. cbn [mc mcols].
  rewrite (frommembers_ok _ _ Hms). cbn [bind].
  pose proof (in_range_of_list _ _ Hms) as HB.
  fold (primeM fuel c (of_list ms)).
  rewrite (primeM_spec fuel c _ HB) by (pose proof (bits_size_le _ _ HB); lia).
  cbn [bind]. f_equal.
  rewrite (indexes_members (nG c)) by apply in_range_up.
  unfold members. apply filter_ext_in. intros g Hg. apply in_seq in Hg.
  apply mem_upM_of_list; [exact Hms|lia].
Qed.

(** raw and label-tuple forms denote the same set *)
Theorem intension_raw_members fuel c gs B :
  wf_ctx c -> Forall (fun g => (g < nG c)%nat) gs -> (nG c <= fuel)%nat ->
  intension_raw fuel (relation_new c) gs = Ok B ->
  intension fuel (relation_new c) gs = Ok (members (nM c) B) /\ in_range (nM c) B /\ B = upO c (of_list gs).
Proof.
  intros Hwf Hgs Hfuel H. unfold intension. rewrite H. cbn [bind].
  unfold intension_raw, objects_prime, relation_new in H. cbn [mc mcols] in H.
  rewrite (frommembers_ok _ _ Hgs) in H. cbn [bind] in H.
  pose proof (in_range_of_list _ _ Hgs) as HA.
  fold (primeO fuel c (of_list gs)) in H.
  rewrite (primeO_spec fuel c _ Hwf HA) in H by (pose proof (bits_size_le _ _ HA); lia).
  injection H as <-. split; [|split; [apply in_range_up|reflexivity]].
  f_equal. apply indexes_members. apply in_range_up.
Qed.

(** duplicates and argument order do not matter; the empty collection derives to everything *)
Theorem intension_set_only fuel c gs gs' :
  wf_ctx c -> Forall (fun g => (g < nG c)%nat) gs -> Forall (fun g => (g < nG c)%nat) gs' ->
  (nG c <= fuel)%nat -> (forall g, In g gs <-> In g gs') ->
  intension fuel (relation_new c) gs = intension fuel (relation_new c) gs'.
Proof.
  intros Hwf H1 H2 Hf Hiff. rewrite !intension_spec by assumption. f_equal.
  apply filter_ext. intros m.
  destruct (forallb (fun g => inc c g m) gs) eqn:E1, (forallb (fun g => inc c g m) gs') eqn:E2; try reflexivity.
  - rewrite forallb_forall in E1. assert (forallb (fun g => inc c g m) gs' = true); [|congruence].
    apply forallb_forall. intros g Hg. apply E1, Hiff, Hg.
  - rewrite forallb_forall in E2. assert (forallb (fun g => inc c g m) gs = true); [|congruence].
    apply forallb_forall. intros g Hg. apply E2, Hiff, Hg.
Qed.

Theorem intension_nil fuel c : wf_ctx c -> (nG c <= fuel)%nat ->
  intension fuel (relation_new c) [] = Ok (seq 0 (nM c)).
Proof.
  intros Hwf Hf. rewrite intension_spec by (auto; constructor). f_equal.
  cbn [forallb]. induction (seq 0 (nM c)) as [|x l IH]; cbn; [reflexivity|]. rewrite IH. reflexivity.
Qed.

Theorem extension_nil fuel c : (nM c <= fuel)%nat ->
  extension fuel (relation_new c) [] = Ok (seq 0 (nG c)).
Proof.
  intros Hf. rewrite extension_spec by (auto; constructor). f_equal.
  cbn [forallb]. induction (seq 0 (nG c)) as [|x l IH]; cbn; [reflexivity|]. rewrite IH. reflexivity.
Qed.

Theorem intension_unknown fuel c gs : ~ Forall (fun g => (g < nG c)%nat) gs ->
  intension fuel (relation_new c) gs = Raise KeyError.
Proof.
  intros H. unfold intension, intension_raw. cbn [mc relation_new].
  rewrite (frommembers_unknown _ _ H). reflexivity.
Qed.
