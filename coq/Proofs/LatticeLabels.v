(** Theorems about the query API of a correct lattice record ([lattice_ok]): neighbour links
    are the covering relation (C05), reduced labelling (C10), attributes/minimal (C18),
    DOT body (C20). *)
From Coq Require Import ZArith List Bool Lia ZifyBool Arith Sorted Permutation.
From Concepts Require Import Base.Res Base.PyInt Base.BitSet Spec.FCA Spec.Context
  Model.Matrices Model.ContextApi Model.Lindig Model.Members Model.Lattice Model.LatticeApi
  Spec.LatticeSpec
  Proofs.Matrices Proofs.ContextApi Proofs.Closure Proofs.LatticeBasics Proofs.LatticeFirst
  Proofs.Keys Proofs.SortBy Proofs.Covers Proofs.Neighbors Proofs.Powerset.
Import ListNotations.
Open Scope Z_scope.

(** * C05 (4): Context.neighbors — does not need a lattice *)

Theorem context_neighbors_spec : forall d c gs,
  wf_ctx c -> (Nat.max (nG c) (nM c) <= d)%nat ->
  Forall (fun g => (g < nG c)%nat) gs ->
  exists l, context_neighbors d (relation_new c) gs = Ok l /\
    NoDup (map fst l) /\
    (forall E F, In (E, F) l -> F = upO c E) /\
    (forall E, In E (map fst l) <-> covers c (clO c (of_list gs)) E).
Proof.
  intros d c gs Hwf Hd Hgs.
  unfold context_neighbors. cbn [mc relation_new].
  rewrite (frommembers_ok _ _ Hgs). cbn [bind].
  pose proof (in_range_of_list _ _ Hgs) as HA.
  fold (relation_new c).
  rewrite (objects_double_spec d c _ Hwf HA Hd). cbn [bind].
  apply ctx_neighbors_spec; [exact Hwf| |exact Hd].
  split; [apply in_range_up|]. apply clO_idempotent. exact HA.
Qed.

(** * generic list facts *)

Lemma last_sorted_max {A} (R : A -> A -> Prop) (l : list A) (m d : A) :
  (forall x, ~ R x x) ->
  StronglySorted R l -> In m l -> (forall x, In x l -> x <> m -> R x m) ->
  (forall x y, R x y -> R y x -> False) ->
  last l d = m.
Proof.
  intros Hirr Hs. revert m. induction Hs as [|x l Hs IH Hf]; intros m Hin Hmax Hasym; [destruct Hin|].
  destruct l as [|y l'].
  - destruct Hin as [->|[]]. reflexivity.
  - change (last (x :: y :: l') d) with (last (y :: l') d).
    rewrite Forall_forall in Hf.
    destruct Hin as [->|Hin].
    + exfalso. assert (Hy : In y (y :: l')) by (left; reflexivity).
      pose proof (Hf y Hy) as H1.
      assert (y <> m) as Hne by (intros ->; exact (Hirr _ H1)).
      apply (Hasym m y H1). apply Hmax; [right; exact Hy|exact Hne].
    + apply IH; [exact Hin| |exact Hasym].
      intros z Hz Hne. apply Hmax; [right; exact Hz|exact Hne].
Qed.

Lemma NoDup_app_disjoint {B} (r s : list B) :
  NoDup r -> NoDup s -> (forall a, In a r -> ~ In a s) -> NoDup (r ++ s).
Proof.
  induction 1 as [|a r Ha Hr IH]; intros Hs Hd; cbn [app]; [exact Hs|].
  constructor.
  - intros Hin. apply in_app_or in Hin. destruct Hin as [Hin|Hin]; [contradiction|].
    apply (Hd a); [left; reflexivity|exact Hin].
  - apply IH; [exact Hs|]. intros b Hb. apply Hd. right. exact Hb.
Qed.

Lemma NoDup_flat_map {A B} (f : A -> list B) (l : list A) :
  NoDup l -> (forall x, In x l -> NoDup (f x)) ->
  (forall x y a, In x l -> In y l -> In a (f x) -> In a (f y) -> x = y) ->
  NoDup (flat_map f l).
Proof.
  induction 1 as [|x l Hx Hnd IH]; intros Hf Hdisj; cbn [flat_map]; [constructor|].
  apply NoDup_app_disjoint.
  - apply Hf. left. reflexivity.
  - apply IH.
    + intros y Hy. apply Hf. right. exact Hy.
    + intros y z a Hy Hz. apply Hdisj; right; assumption.
  - intros a Ha Hin. apply in_flat_map in Hin. destruct Hin as [y [Hy Hay]].
    assert (x = y) by (apply (Hdisj x y a); [left; reflexivity|right; exact Hy|exact Ha|exact Hay]).
    subst y. contradiction.
Qed.

(** * basic facts about a correct lattice record *)

Section Ok.
  Variable c : ctx.
  Variable L : lattice.
  Hypothesis Hwf : wf_ctx c.
  Hypothesis HL : lattice_ok c L.

  Lemma concept_at_ext i x : concept_at L i x -> nth_error (l_exts L) i = Some (c_extent x).
  Proof. intros H. rewrite (ok_exts c L HL). apply map_nth_error. exact H. Qed.

  Lemma concept_at_nth_extent i x : concept_at L i x -> nth_extent (l_exts L) i = c_extent x.
  Proof. intros H. unfold nth_extent. apply nth_error_nth. apply concept_at_ext. exact H. Qed.

  Lemma concept_at_lt i x : concept_at L i x -> (i < length (l_concepts L))%nat.
  Proof. intros H. apply nth_error_Some. unfold concept_at in H. congruence. Qed.

  Lemma concept_at_In i x : concept_at L i x -> In x (l_concepts L).
  Proof. apply nth_error_In. Qed.

  Lemma In_concept_at x : In x (l_concepts L) -> exists i, concept_at L i x.
  Proof. apply In_nth_error. Qed.

  Lemma concept_at_fun i x y : concept_at L i x -> concept_at L i y -> x = y.
  Proof. unfold concept_at. congruence. Qed.

  Lemma get_concept_at i x : concept_at L i x -> get_concept L i = x.
  Proof. intros H. unfold get_concept. apply nth_error_nth. exact H. Qed.

  Lemma concept_closed i x : concept_at L i x -> closedO c (c_extent x).
  Proof.
    intros H. apply (ok_complete c L HL). eapply nth_error_In. apply concept_at_ext. exact H.
  Qed.

  Lemma concept_in_range i x : concept_at L i x -> in_range (nG c) (c_extent x).
  Proof. intros H. exact (proj1 (concept_closed i x H)). Qed.

  Lemma concept_intent_in_range i x : concept_at L i x -> in_range (nM c) (c_intent x).
  Proof. intros H. rewrite (ok_intent c L HL i x H). apply in_range_up. Qed.

  Lemma concept_is_concept i x : concept_at L i x -> is_concept c (c_extent x) (c_intent x).
  Proof.
    intros H. rewrite (ok_intent c L HL i x H). apply closed_concept. exact (concept_closed i x H).
  Qed.

  (** the member with a given extent is unique *)
  Lemma extent_index_inj i x j y :
    concept_at L i x -> concept_at L j y -> c_extent x = c_extent y -> i = j.
  Proof.
    intros Hx Hy E.
    pose proof (proj1 (NoDup_nth_error (l_exts L)) (ok_nodup c L HL)) as Hnd.
    apply Hnd.
    - rewrite (ok_exts c L HL), map_length. exact (concept_at_lt i x Hx).
    - rewrite (concept_at_ext i x Hx), (concept_at_ext j y Hy), E. reflexivity.
  Qed.

  Lemma extent_inj i x j y :
    concept_at L i x -> concept_at L j y -> c_extent x = c_extent y -> x = y.
  Proof.
    intros Hx Hy E. pose proof (extent_index_inj i x j y Hx Hy E) as ->.
    exact (concept_at_fun j x y Hx Hy).
  Qed.

  (** every closed extent is the extent of a member *)
  Lemma closed_has_concept A : closedO c A -> exists i x, concept_at L i x /\ c_extent x = A.
  Proof.
    intros HA. apply (ok_complete c L HL) in HA. apply In_nth_error in HA. destruct HA as [i Hi].
    rewrite (ok_exts c L HL), nth_error_map in Hi.
    destruct (nth_error (l_concepts L) i) as [x|] eqn:E; cbn in Hi; [|discriminate].
    injection Hi as Hi. exists i, x. split; [exact E|exact Hi].
  Qed.

  Lemma concepts_NoDup : NoDup (l_concepts L).
  Proof. apply (NoDup_map_inv c_extent). rewrite <- (ok_exts c L HL). exact (ok_nodup c L HL). Qed.

  Lemma mapping_get_concept i x : concept_at L i x -> mapping_get (l_exts L) (c_extent x) = Ok i.
  Proof.
    intros Hx.
    destruct (mapping_get_in (l_exts L) (c_extent x)) as [j Hj].
    { eapply nth_error_In. apply concept_at_ext. exact Hx. }
    rewrite Hj. f_equal.
    destruct (mapping_get_ok _ _ _ Hj) as [Hlt Hn].
    rewrite (ok_exts c L HL), map_length in Hlt.
    destruct (nth_error (l_concepts L) j) as [y|] eqn:Ey.
    2:{ apply nth_error_None in Ey. lia. }
    rewrite (concept_at_nth_extent j y Ey) in Hn.
    exact (extent_index_inj j y i x Ey Hx Hn).
  Qed.

  (** * C05 (1): upper and lower links are converse *)
  Theorem links_converse i x j y : concept_at L i x -> concept_at L j y ->
    (In j (c_upper x) <-> In i (c_lower y)).
  Proof.
    intros Hx Hy. rewrite (ok_upper c L HL i x j Hx), (ok_lower c L HL j y i Hy). split.
    - intros [y' [Hy' Hc]]. rewrite (concept_at_fun j y' y Hy' Hy) in Hc. exists x. split; assumption.
    - intros [x' [Hx' Hc]]. rewrite (concept_at_fun i x' x Hx' Hx) in Hc. exists y. split; assumption.
  Qed.

  (** * C05 (2): no link is listed twice *)
  Theorem links_nodup i x : concept_at L i x -> NoDup (c_upper x) /\ NoDup (c_lower x).
  Proof.
    intros Hx. split.
    - apply (StronglySorted_NoDup (klt (fun a => shortlex (nG c) (nth_extent (l_exts L) a)))).
      + intros a. apply klt_irrefl.
      + exact (ok_upper_sorted c L HL i x Hx).
    - apply (StronglySorted_NoDup (klt (fun a => longlex (nG c) (nth_extent (l_exts L) a)))).
      + intros a. apply klt_irrefl.
      + exact (ok_lower_sorted c L HL i x Hx).
  Qed.

  (** * C05 (3): links are exactly "strictly above/below with no member strictly between" *)
  Lemma covers_members_iff x i y j : concept_at L i x -> concept_at L j y ->
    (covers c (c_extent x) (c_extent y) <->
     psubset (c_extent x) (c_extent y) /\
     forall k z, concept_at L k z -> subset (c_extent x) (c_extent z) -> subset (c_extent z) (c_extent y) ->
                 z = x \/ z = y).
  Proof.
    intros Hx Hy. split.
    - intros (_ & _ & Hp & Hmin). split; [exact Hp|].
      intros k z Hz H1 H2. destruct (Hmin (c_extent z) (concept_closed k z Hz) H1 H2) as [E|E].
      + left. exact (extent_inj k z i x Hz Hx E).
      + right. exact (extent_inj k z j y Hz Hy E).
    - intros [Hp Hmin]. split; [exact (concept_closed i x Hx)|]. split; [exact (concept_closed j y Hy)|].
      split; [exact Hp|]. intros F HF H1 H2.
      destruct (closed_has_concept F HF) as (k & z & Hz & <-).
      destruct (Hmin k z Hz H1 H2) as [->| ->]; [left|right]; reflexivity.
  Qed.

  Theorem upper_are_exactly_covers i x j : concept_at L i x ->
    (In j (c_upper x) <->
     exists y, concept_at L j y /\ psubset (c_extent x) (c_extent y) /\
       forall k z, concept_at L k z -> subset (c_extent x) (c_extent z) -> subset (c_extent z) (c_extent y) ->
                   z = x \/ z = y).
  Proof.
    intros Hx. rewrite (ok_upper c L HL i x j Hx). split.
    - intros [y [Hy Hc]]. exists y. split; [exact Hy|]. apply (covers_members_iff x i y j Hx Hy). exact Hc.
    - intros [y [Hy Hc]]. exists y. split; [exact Hy|]. apply (covers_members_iff x i y j Hx Hy). exact Hc.
  Qed.

  Theorem lower_are_exactly_covers i x j : concept_at L i x ->
    (In j (c_lower x) <->
     exists y, concept_at L j y /\ psubset (c_extent y) (c_extent x) /\
       forall k z, concept_at L k z -> subset (c_extent y) (c_extent z) -> subset (c_extent z) (c_extent x) ->
                   z = y \/ z = x).
  Proof.
    intros Hx. rewrite (ok_lower c L HL i x j Hx). split.
    - intros [y [Hy Hc]]. exists y. split; [exact Hy|]. apply (covers_members_iff y j x i Hy Hx). exact Hc.
    - intros [y [Hy Hc]]. exists y. split; [exact Hy|]. apply (covers_members_iff y j x i Hy Hx). exact Hc.
  Qed.

  (** * C10 (5): every object / property labels exactly one concept, its object / attribute concept *)
  Lemma bit_subset_iff o A : subset (bit o) A <-> mem A o = true.
  Proof.
    split.
    - intros H. apply H. rewrite mem_bit. apply Nat.eqb_refl.
    - intros H i Hi. rewrite mem_bit in Hi. apply Nat.eqb_eq in Hi. subst i. exact H.
  Qed.

  Lemma object_concept_closed o : (o < nG c)%nat -> closedO c (clO c (bit o)).
  Proof. intros Ho. split; [apply in_range_up|]. apply clO_idempotent. apply in_range_bit. exact Ho. Qed.

  Theorem object_label_unique o : (o < nG c)%nat ->
    exists k, (exists x, concept_at L k x /\ In o (c_objects x) /\
                 c_extent x = clO c (bit o) /\ c_intent x = upO c (bit o)) /\
      forall k' x', concept_at L k' x' -> In o (c_objects x') -> k' = k.
  Proof.
    intros Ho.
    destruct (closed_has_concept _ (object_concept_closed o Ho)) as (k & x & Hx & E).
    exists k. split.
    - exists x. split; [exact Hx|]. split; [apply (ok_objects c L HL k x o Hx); split; assumption|].
      split; [exact E|]. rewrite (ok_intent c L HL k x Hx), E. apply upO_clO. apply in_range_bit. exact Ho.
    - intros k' x' Hx' Hin. apply (ok_objects c L HL k' x' o Hx') in Hin. destruct Hin as [_ E'].
      apply (extent_index_inj k' x' k x Hx' Hx). congruence.
  Qed.

  Corollary object_label_exists_unique o : (o < nG c)%nat ->
    exists! k, exists x, concept_at L k x /\ In o (c_objects x).
  Proof.
    intros Ho. destruct (object_label_unique o Ho) as (k & (x & Hx & Hin & _) & Huniq).
    exists k. split; [exists x; split; assumption|].
    intros k' (x' & Hx' & Hin'). symmetry. exact (Huniq k' x' Hx' Hin').
  Qed.

  Theorem property_label_unique p : (p < nM c)%nat ->
    exists k, (exists x, concept_at L k x /\ In p (c_properties x) /\
                 c_extent x = upM c (bit p) /\ c_intent x = clM c (bit p)) /\
      forall k' x', concept_at L k' x' -> In p (c_properties x') -> k' = k.
  Proof.
    intros Hp.
    destruct (closed_has_concept _ (closed_upM c (bit p) (in_range_bit _ _ Hp))) as (k & x & Hx & E).
    exists k. split.
    - exists x. split; [exact Hx|]. split; [apply (ok_properties c L HL k x p Hx); split; assumption|].
      split; [exact E|]. rewrite (ok_intent c L HL k x Hx), E. reflexivity.
    - intros k' x' Hx' Hin. apply (ok_properties c L HL k' x' p Hx') in Hin. destruct Hin as [_ E'].
      apply (extent_index_inj k' x' k x Hx' Hx). congruence.
  Qed.

  Corollary property_label_exists_unique p : (p < nM c)%nat ->
    exists! k, exists x, concept_at L k x /\ In p (c_properties x).
  Proof.
    intros Hp. destruct (property_label_unique p Hp) as (k & (x & Hx & Hin & _) & Huniq).
    exists k. split; [exists x; split; assumption|].
    intros k' (x' & Hx' & Hin'). symmetry. exact (Huniq k' x' Hx' Hin').
  Qed.

  (** labels are valid indices, listed once, ascending *)
  Theorem labels_valid i x : concept_at L i x ->
    Forall (fun o => (o < nG c)%nat) (c_objects x) /\ NoDup (c_objects x) /\
    Forall (fun p => (p < nM c)%nat) (c_properties x) /\ NoDup (c_properties x).
  Proof.
    intros Hx. split; [|split; [|split]].
    - apply Forall_forall. intros o Ho. apply (ok_objects c L HL i x o Hx) in Ho. tauto.
    - apply (StronglySorted_NoDup lt); [intros a; lia|exact (ok_objects_sorted c L HL i x Hx)].
    - apply Forall_forall. intros p Hp. apply (ok_properties c L HL i x p Hx) in Hp. tauto.
    - apply (StronglySorted_NoDup lt); [intros a; lia|exact (ok_properties_sorted c L HL i x Hx)].
  Qed.

  (** * C10 (6): extent = union of the object labels at or below; intent = union of the property labels at or above *)
  Theorem extent_is_union_of_labels_below i x : concept_at L i x -> forall o,
    (mem (c_extent x) o = true <->
     exists k y, concept_at L k y /\ subset (c_extent y) (c_extent x) /\ In o (c_objects y)).
  Proof.
    intros Hx o. pose proof (concept_closed i x Hx) as [Hr Hcl]. split.
    - intros Hm. pose proof (mem_lt_of_in_range _ _ _ Hr Hm) as Ho.
      destruct (object_label_unique o Ho) as (k & (y & Hy & Hin & E & _) & _).
      exists k, y. split; [exact Hy|]. split; [|exact Hin].
      rewrite E, <- Hcl. apply clO_monotone. apply bit_subset_iff. exact Hm.
    - intros (k & y & Hy & Hsub & Hin). apply (ok_objects c L HL k y o Hy) in Hin. destruct Hin as [Ho E].
      apply Hsub. rewrite E. apply clO_extensive; [apply in_range_bit; exact Ho|].
      rewrite mem_bit. apply Nat.eqb_refl.
  Qed.

  Theorem intent_is_union_of_labels_above i x : concept_at L i x -> forall p,
    (mem (c_intent x) p = true <->
     exists k y, concept_at L k y /\ subset (c_extent x) (c_extent y) /\ In p (c_properties y)).
  Proof.
    intros Hx p. pose proof (concept_in_range i x Hx) as Hr.
    rewrite (ok_intent c L HL i x Hx). split.
    - intros Hm. pose proof (mem_lt_of_in_range _ _ _ (in_range_upO c _) Hm) as Hp.
      destruct (property_label_unique p Hp) as (k & (y & Hy & Hin & E & _) & _).
      exists k, y. split; [exact Hy|]. split; [|exact Hin].
      rewrite E. apply (galoisOM c _ _ Hr (in_range_bit _ _ Hp)). apply bit_subset_iff. exact Hm.
    - intros (k & y & Hy & Hsub & Hin). apply (ok_properties c L HL k y p Hy) in Hin. destruct Hin as [Hp E].
      rewrite E in Hsub. apply (galoisOM c _ _ Hr (in_range_bit _ _ Hp)) in Hsub.
      apply bit_subset_iff. exact Hsub.
  Qed.

  (** * C10 (7): the infimum is the first member; atoms = upper neighbours of the infimum below the concept *)
  Theorem infimum_first x0 : concept_at L 0 x0 -> c_extent x0 = clO c 0.
  Proof.
    intros H0.
    destruct (closed_has_concept _ (bottom_closed c)) as (k & b & Hb & E).
    destruct k as [|k]; [rewrite <- E; f_equal; exact (concept_at_fun 0 x0 b H0 Hb)|].
    exfalso.
    pose proof (ok_sorted c L HL) as Hs.
    pose proof (StronglySorted_nth _ (l_exts L) 0 Hs 0 (S k) ltac:(lia)) as Hlt.
    assert (Hlen : (S k < length (l_exts L))%nat).
    { rewrite (ok_exts c L HL), map_length. exact (concept_at_lt _ _ Hb). }
    specialize (Hlt Hlen). cbv beta in Hlt.
    change (nth 0 (l_exts L) 0) with (nth_extent (l_exts L) 0) in Hlt.
    change (nth (S k) (l_exts L) 0) with (nth_extent (l_exts L) (S k)) in Hlt.
    rewrite (concept_at_nth_extent 0 x0 H0), (concept_at_nth_extent (S k) b Hb), E in Hlt.
    unfold key_lt in Hlt.
    assert (Hp : psubset (clO c 0) (c_extent x0)).
    { split; [apply bottom_least; exact (concept_closed 0 x0 H0)|].
      intros E'. rewrite <- E in E'. pose proof (extent_index_inj _ _ _ _ Hb H0 E'). discriminate. }
    pose proof (subset_shortlex (nG c) (clO c 0) (c_extent x0) (proj1 (bottom_closed c)) (concept_in_range 0 x0 H0) Hp) as Hlt'.
    rewrite (key_ltb_asym _ _ Hlt) in Hlt'. discriminate.
  Qed.

  Theorem atoms_spec x0 i x a : concept_at L 0 x0 -> concept_at L i x ->
    (In a (c_atoms x) <->
     In a (c_upper x0) /\ exists y, concept_at L a y /\ subset (c_extent y) (c_extent x)).
  Proof.
    intros H0 Hx. rewrite (ok_atoms c L HL i x a Hx), (ok_upper c L HL 0 x0 a H0), (infimum_first x0 H0). split.
    - intros (y & Hy & Hc & Hs). split; exists y; split; assumption.
    - intros [(y & Hy & Hc) (y' & Hy' & Hs)]. rewrite (concept_at_fun a y' y Hy' Hy) in Hs.
      exists y. split; [exact Hy|]. split; assumption.
  Qed.

  (** atoms of a concept are atoms of the lattice: nothing strictly between the infimum and them *)
  Corollary atoms_are_minimal_nonbottom x0 i x a : concept_at L 0 x0 -> concept_at L i x -> In a (c_atoms x) ->
    exists y, concept_at L a y /\ psubset (c_extent x0) (c_extent y) /\ subset (c_extent y) (c_extent x) /\
      forall k z, concept_at L k z -> subset (c_extent z) (c_extent y) -> z = x0 \/ z = y.
  Proof.
    intros H0 Hx Hin. apply (atoms_spec x0 i x a H0 Hx) in Hin. destruct Hin as [Hup (y & Hy & Hs)].
    apply (upper_are_exactly_covers 0 x0 a H0) in Hup. destruct Hup as (y' & Hy' & Hp & Hmin).
    pose proof (concept_at_fun a y' y Hy' Hy) as ->.
    exists y. split; [exact Hy|]. split; [exact Hp|]. split; [exact Hs|].
    intros k z Hz Hzy. apply (Hmin k z Hz); [|exact Hzy].
    rewrite (infimum_first x0 H0). apply bottom_least. exact (concept_closed k z Hz).
  Qed.

  (** * C18 (8): attributes / minimal *)
  Section Attributes.
  Variable d : nat.
  Hypothesis Hd : (Nat.max (nG c) (nM c) <= d)%nat.

  (** the generating sets listed for a concept, as bitsets *)
  Definition generators (x : concept) : list Z :=
    if c_extent x =? 0 then [c_intent x]
    else filter (fun t => upM c t =? c_extent x) (powerset_shortlex (c_intent x)).

  Theorem attributes_spec i x : concept_at L i x -> c_extent x <> 0 ->
    attributes d L i =
    Ok (map indexes (filter (fun t => upM c t =? c_extent x) (powerset_shortlex (c_intent x)))).
  Proof.
    intros Hx Hne. unfold attributes. rewrite (get_concept_at i x Hx), (ok_ctx c L HL).
    rewrite (minimize_spec d c _ _ Hne (concept_intent_in_range i x Hx)) by lia. reflexivity.
  Qed.

  Theorem attributes_empty_extent i x : concept_at L i x -> c_extent x = 0 ->
    attributes d L i = Ok [indexes (c_intent x)].
  Proof.
    intros Hx E. unfold attributes. rewrite (get_concept_at i x Hx), E. reflexivity.
  Qed.

  Lemma attributes_generators i x : concept_at L i x ->
    attributes d L i = Ok (map indexes (generators x)).
  Proof.
    intros Hx. unfold generators. destruct (Z.eqb_spec (c_extent x) 0) as [E|Hne].
    - exact (attributes_empty_extent i x Hx E).
    - exact (attributes_spec i x Hx Hne).
  Qed.

  Lemma intent_generates i x : concept_at L i x -> upM c (c_intent x) = c_extent x.
  Proof.
    intros Hx. rewrite (ok_intent c L HL i x Hx). exact (proj2 (concept_closed i x Hx)).
  Qed.

  Lemma generators_sound i x t : concept_at L i x -> In t (generators x) ->
    in_range (nM c) t /\ subset t (c_intent x) /\ upM c t = c_extent x.
  Proof.
    intros Hx Hin. pose proof (concept_intent_in_range i x Hx) as Hr. unfold generators in Hin.
    destruct (Z.eqb_spec (c_extent x) 0) as [E|Hne].
    - destruct Hin as [<-|[]]. split; [exact Hr|]. split; [apply subset_refl|exact (intent_generates i x Hx)].
    - apply filter_In in Hin. destruct Hin as [Hin Hup]. apply Z.eqb_eq in Hup.
      pose proof (powerset_shortlex_in_range (nM c) _ Hr t Hin) as Ht.
      apply (powerset_shortlex_In (nM c) _ Hr) in Hin. tauto.
  Qed.

  (** for a non-empty extent, exactly the subsets of the intent deriving to the extent *)
  Lemma generators_complete i x t : concept_at L i x -> c_extent x <> 0 ->
    (In t (generators x) <-> 0 <= t /\ subset t (c_intent x) /\ upM c t = c_extent x).
  Proof.
    intros Hx Hne. pose proof (concept_intent_in_range i x Hx) as Hr. unfold generators.
    destruct (Z.eqb_spec (c_extent x) 0) as [E|_]; [contradiction|].
    rewrite filter_In, (powerset_shortlex_In (nM c) _ Hr), Z.eqb_eq. tauto.
  Qed.

  Lemma generators_intent i x : concept_at L i x -> In (c_intent x) (generators x).
  Proof.
    intros Hx. pose proof (concept_intent_in_range i x Hx) as Hr. unfold generators.
    destruct (Z.eqb_spec (c_extent x) 0) as [E|Hne]; [left; reflexivity|].
    apply filter_In. split.
    - apply (powerset_shortlex_In (nM c) _ Hr). split; [exact (proj1 Hr)|apply subset_refl].
    - apply Z.eqb_eq. exact (intent_generates i x Hx).
  Qed.

  Lemma generators_sorted i x : concept_at L i x ->
    StronglySorted (klt (shortlex (nM c))) (generators x) /\ NoDup (generators x).
  Proof.
    intros Hx. pose proof (concept_intent_in_range i x Hx) as Hr. unfold generators.
    destruct (Z.eqb_spec (c_extent x) 0) as [E|Hne].
    - split; [repeat constructor|]. constructor; [intros []|constructor].
    - split.
      + apply filter_sorted, powerset_shortlex_sorted. exact Hr.
      + apply NoDup_filter, (powerset_shortlex_NoDup (nM c)). exact Hr.
  Qed.

  (** indexes of an in-range bitset: valid, and they denote the bitset *)
  Lemma indexes_valid n t : in_range n t ->
    Forall (fun j => (j < n)%nat) (indexes t) /\ of_list (indexes t) = t.
  Proof.
    intros Ht. rewrite (indexes_members n t Ht). split; [|apply of_list_members; exact Ht].
    apply Forall_forall. intros j Hj. apply In_members in Hj. tauto.
  Qed.

  Lemma indexes_inj n a b : in_range n a -> in_range n b -> indexes a = indexes b -> a = b.
  Proof.
    intros Ha Hb E. rewrite <- (proj2 (indexes_valid n a Ha)), <- (proj2 (indexes_valid n b Hb)), E. reflexivity.
  Qed.

  (** Lattice.__call__ on any set of properties deriving to the extent of a member finds that member *)
  Lemma lattice_call_generator i x t : concept_at L i x -> in_range (nM c) t -> upM c t = c_extent x ->
    lattice_call d L (indexes t) = Ok i.
  Proof.
    intros Hx Ht Hup. destruct (indexes_valid (nM c) t Ht) as [Hv Hof].
    unfold lattice_call, extension_raw. rewrite (ok_ctx c L HL). cbn [mc relation_new].
    rewrite (frommembers_ok _ _ Hv), Hof. cbn [bind]. fold (relation_new c).
    change (properties_prime d (relation_new c) t) with (primeM d c t).
    rewrite (primeM_spec d c t Ht) by (pose proof (bits_size_le _ _ Ht); lia).
    cbn [bind]. rewrite Hup. exact (mapping_get_concept i x Hx).
  Qed.

  Theorem attributes_regenerate i x l ms : concept_at L i x ->
    attributes d L i = Ok l -> In ms l -> lattice_call d L ms = Ok i.
  Proof.
    intros Hx Hl Hin. rewrite (attributes_generators i x Hx) in Hl. injection Hl as <-.
    apply in_map_iff in Hin. destruct Hin as (t & <- & Ht).
    destruct (generators_sound i x t Hx Ht) as (Hr & _ & Hup).
    exact (lattice_call_generator i x t Hx Hr Hup).
  Qed.

  (** every listed set is a set of valid property indices inside the intent *)
  Theorem attributes_valid i x l ms : concept_at L i x ->
    attributes d L i = Ok l -> In ms l ->
    Forall (fun p => (p < nM c)%nat) ms /\ (forall p, In p ms -> mem (c_intent x) p = true) /\
    upM c (of_list ms) = c_extent x.
  Proof.
    intros Hx Hl Hin. rewrite (attributes_generators i x Hx) in Hl. injection Hl as <-.
    apply in_map_iff in Hin. destruct Hin as (t & <- & Ht).
    destruct (generators_sound i x t Hx Ht) as (Hr & Hsub & Hup).
    destruct (indexes_valid (nM c) t Hr) as [Hv Hof]. split; [exact Hv|]. split.
    - intros p Hp. apply Hsub. rewrite <- Hof. apply mem_of_list_In. exact Hp.
    - rewrite Hof. exact Hup.
  Qed.

  (** the full intent is listed, last *)
  Theorem attributes_nonempty_last i x : concept_at L i x ->
    exists l, attributes d L i = Ok l /\ In (indexes (c_intent x)) l /\ l <> [] /\
              last l [] = indexes (c_intent x).
  Proof.
    intros Hx. exists (map indexes (generators x)). split; [exact (attributes_generators i x Hx)|].
    pose proof (generators_intent i x Hx) as Hin. pose proof (concept_intent_in_range i x Hx) as Hr.
    split; [apply in_map; exact Hin|]. split.
    { intros E. apply map_eq_nil in E. rewrite E in Hin. destruct Hin. }
    assert (Hlast : last (generators x) 0 = c_intent x).
    { apply (last_sorted_max (klt (shortlex (nM c)))).
      - intros a. apply klt_irrefl.
      - exact (proj1 (generators_sorted i x Hx)).
      - exact Hin.
      - intros t Ht Hne. destruct (generators_sound i x t Hx Ht) as (Htr & Hsub & _).
        apply subset_shortlex; [exact Htr|exact Hr|]. split; assumption.
      - intros a b H1 H2. unfold klt in *. rewrite (key_ltb_asym _ _ H1) in H2. discriminate. }
    rewrite <- Hlast. generalize (generators x) as g. clear.
    induction g as [|a g IH]; [reflexivity|]. destruct g as [|b g]; [reflexivity|].
    change (last (map indexes (a :: b :: g)) []) with (last (map indexes (b :: g)) []).
    change (last (a :: b :: g) 0) with (last (b :: g) 0). exact IH.
  Qed.

  (** Concept.minimal of a non-infimum concept is the first listed set, and no listed set is shorter *)
  Theorem minimal_is_head i x : concept_at L i x -> i <> 0%nat ->
    exists h t, attributes d L i = Ok (h :: t) /\ minimal d L i = Ok h /\
                forall ms, In ms (h :: t) -> (length h <= length ms)%nat.
  Proof.
    intros Hx Hi. pose proof (generators_intent i x Hx) as Hin.
    pose proof (attributes_generators i x Hx) as Hatt.
    pose proof (proj1 (generators_sorted i x Hx)) as Hs.
    assert (Hmin : minimize d (l_k L) (c_extent x) (c_intent x) = Ok (generators x)).
    { unfold generators. destruct (Z.eqb_spec (c_extent x) 0) as [E|Hne].
      - rewrite E. reflexivity.
      - rewrite (ok_ctx c L HL). apply minimize_spec; [exact Hne|exact (concept_intent_in_range i x Hx)|lia]. }
    destruct (generators x) as [|t0 r] eqn:Eg; [destruct Hin|].
    exists (indexes t0), (map indexes r). split; [exact Hatt|]. split.
    - unfold minimal. destruct (Nat.eqb_spec i 0) as [->|_]; [contradiction|].
      rewrite (get_concept_at i x Hx), Hmin. reflexivity.
    - intros ms Hms. change (indexes t0 :: map indexes r) with (map indexes (t0 :: r)) in Hms.
      apply in_map_iff in Hms. destruct Hms as (t & <- & Ht).
      rewrite <- !count_indexes. destruct Ht as [<-|Ht]; [lia|].
      inversion Hs as [|a l' _ Hf]; subst. rewrite Forall_forall in Hf. specialize (Hf t Ht).
      unfold klt in Hf. apply shortlex_ltb_iff in Hf. lia.
  Qed.

  Theorem minimal_infimum x0 : concept_at L 0 x0 -> minimal d L 0 = Ok (indexes (c_intent x0)).
  Proof. intros H0. unfold minimal. cbn [Nat.eqb]. rewrite (get_concept_at 0 x0 H0). reflexivity. Qed.

  End Attributes.

  (** * C20 (9): the DOT body *)
  Definition dot_of (x : concept) : list dot_stmt :=
    [DNode (c_index x)]
    ++ (match c_objects x with [] => [] | o => [DHead (c_index x) o] end)
    ++ (match c_properties x with [] => [] | p => [DTail (c_index x) p] end)
    ++ map (fun j => DEdge (c_index x) j) (sort_by (fun j => (Z.of_nat j, 0)) (c_lower x)).

  Lemma dot_body_eq : dot_body L = flat_map dot_of (l_concepts L).
  Proof. reflexivity. Qed.

  Lemma In_dot_body s : In s (dot_body L) <-> exists i x, concept_at L i x /\ In s (dot_of x).
  Proof.
    rewrite dot_body_eq, in_flat_map. split.
    - intros (x & Hx & Hs). destruct (In_concept_at x Hx) as [i Hi]. exists i, x. split; assumption.
    - intros (i & x & Hx & Hs). exists x. split; [exact (concept_at_In i x Hx)|exact Hs].
  Qed.

  Lemma In_dot_of_node x i : In (DNode i) (dot_of x) <-> c_index x = i.
  Proof.
    unfold dot_of. rewrite !in_app_iff, in_map_iff. split.
    - intros [[H|[]]|[H|[H|(j & H & _)]]]; try discriminate.
      + congruence.
      + destruct (c_objects x); [destruct H|]. destruct H as [H|[]]. discriminate.
      + destruct (c_properties x); [destruct H|]. destruct H as [H|[]]. discriminate.
    - intros <-. left. left. reflexivity.
  Qed.

  Lemma In_dot_of_head x i objs : In (DHead i objs) (dot_of x) <-> c_index x = i /\ c_objects x = objs /\ objs <> [].
  Proof.
    unfold dot_of. rewrite !in_app_iff, in_map_iff. split.
    - intros [[H|[]]|[H|[H|(j & H & _)]]]; try discriminate.
      + destruct (c_objects x) as [|o r] eqn:E; [destruct H|]. destruct H as [H|[]].
        injection H as <- <-. split; [reflexivity|]. split; [reflexivity|discriminate].
      + destruct (c_properties x); [destruct H|]. destruct H as [H|[]]. discriminate.
    - intros (<- & <- & Hne). right. left. destruct (c_objects x); [contradiction|]. left. reflexivity.
  Qed.

  Lemma In_dot_of_tail x i props : In (DTail i props) (dot_of x) <-> c_index x = i /\ c_properties x = props /\ props <> [].
  Proof.
    unfold dot_of. rewrite !in_app_iff, in_map_iff. split.
    - intros [[H|[]]|[H|[H|(j & H & _)]]]; try discriminate.
      + destruct (c_objects x); [destruct H|]. destruct H as [H|[]]. discriminate.
      + destruct (c_properties x) as [|o r] eqn:E; [destruct H|]. destruct H as [H|[]].
        injection H as <- <-. split; [reflexivity|]. split; [reflexivity|discriminate].
    - intros (<- & <- & Hne). right. right. left. destruct (c_properties x); [contradiction|]. left. reflexivity.
  Qed.

  Lemma In_dot_of_edge x i j : In (DEdge i j) (dot_of x) <-> c_index x = i /\ In j (c_lower x).
  Proof.
    unfold dot_of. rewrite !in_app_iff, in_map_iff. split.
    - intros [[H|[]]|[H|[H|(j' & H & Hj)]]]; try discriminate.
      + destruct (c_objects x); [destruct H|]. destruct H as [H|[]]. discriminate.
      + destruct (c_properties x); [destruct H|]. destruct H as [H|[]]. discriminate.
      + injection H as <- <-. split; [reflexivity|]. apply sort_by_In in Hj. exact Hj.
    - intros (<- & Hj). right. right. right. exists j. split; [reflexivity|]. apply sort_by_In. exact Hj.
  Qed.

  Lemma index_concept_at i x k : concept_at L k x -> c_index x = i -> concept_at L i x.
  Proof. intros Hx E. rewrite (ok_index c L HL k x Hx) in E. subst k. exact Hx. Qed.

  Theorem dot_node_iff i : In (DNode i) (dot_body L) <-> (i < length (l_concepts L))%nat.
  Proof.
    rewrite In_dot_body. split.
    - intros (k & x & Hx & Hs). apply In_dot_of_node in Hs.
      exact (concept_at_lt i x (index_concept_at i x k Hx Hs)).
    - intros Hlt. destruct (nth_error (l_concepts L) i) as [x|] eqn:E.
      + exists i, x. split; [exact E|]. apply In_dot_of_node. exact (ok_index c L HL i x E).
      + apply nth_error_None in E. lia.
  Qed.

  Theorem dot_labels_head i objs :
    In (DHead i objs) (dot_body L) <-> exists x, concept_at L i x /\ c_objects x = objs /\ objs <> [].
  Proof.
    rewrite In_dot_body. split.
    - intros (k & x & Hx & Hs). apply In_dot_of_head in Hs. destruct Hs as (E & Ho & Hne).
      exists x. split; [exact (index_concept_at i x k Hx E)|]. split; assumption.
    - intros (x & Hx & Ho & Hne). exists i, x. split; [exact Hx|]. apply In_dot_of_head.
      split; [exact (ok_index c L HL i x Hx)|]. split; assumption.
  Qed.

  Theorem dot_labels_tail i props :
    In (DTail i props) (dot_body L) <-> exists x, concept_at L i x /\ c_properties x = props /\ props <> [].
  Proof.
    rewrite In_dot_body. split.
    - intros (k & x & Hx & Hs). apply In_dot_of_tail in Hs. destruct Hs as (E & Ho & Hne).
      exists x. split; [exact (index_concept_at i x k Hx E)|]. split; assumption.
    - intros (x & Hx & Ho & Hne). exists i, x. split; [exact Hx|]. apply In_dot_of_tail.
      split; [exact (ok_index c L HL i x Hx)|]. split; assumption.
  Qed.

  Theorem dot_labels i objs props :
    (In (DHead i objs) (dot_body L) <-> exists x, concept_at L i x /\ c_objects x = objs /\ objs <> []) /\
    (In (DTail i props) (dot_body L) <-> exists x, concept_at L i x /\ c_properties x = props /\ props <> []).
  Proof. split; [apply dot_labels_head|apply dot_labels_tail]. Qed.

  Theorem dot_edge_iff i j :
    In (DEdge i j) (dot_body L) <-> exists x, concept_at L i x /\ In j (c_lower x).
  Proof.
    rewrite In_dot_body. split.
    - intros (k & x & Hx & Hs). apply In_dot_of_edge in Hs. destruct Hs as (E & Hj).
      exists x. split; [exact (index_concept_at i x k Hx E)|exact Hj].
    - intros (x & Hx & Hj). exists i, x. split; [exact Hx|]. apply In_dot_of_edge.
      split; [exact (ok_index c L HL i x Hx)|exact Hj].
  Qed.

  (** the plain edges are exactly the covering pairs, drawn from the upper to the lower concept *)
  Corollary dot_edge_covers i j :
    In (DEdge i j) (dot_body L) <->
    exists x y, concept_at L i x /\ concept_at L j y /\ covers c (c_extent y) (c_extent x).
  Proof.
    rewrite dot_edge_iff. split.
    - intros (x & Hx & Hj). apply (ok_lower c L HL i x j Hx) in Hj. destruct Hj as (y & Hy & Hc).
      exists x, y. auto.
    - intros (x & y & Hx & Hy & Hc). exists x. split; [exact Hx|]. apply (ok_lower c L HL i x j Hx).
      exists y. split; assumption.
  Qed.

  (** each edge statement occurs once *)
  Theorem dot_edges_NoDup : NoDup (filter is_edge (dot_body L)).
  Proof.
    rewrite dot_edges. apply NoDup_flat_map.
    - exact concepts_NoDup.
    - intros x Hx. destruct (In_concept_at x Hx) as [i Hi].
      apply FinFun.Injective_map_NoDup; [intros a b E; congruence|].
      apply (Permutation_NoDup (l := c_lower x)); [symmetry; apply sort_by_perm|].
      exact (proj2 (links_nodup i x Hi)).
    - intros x y a Hx Hy Hax Hay. apply in_map_iff in Hax, Hay.
      destruct Hax as (j & <- & _), Hay as (j' & E & _). injection E as E _.
      destruct (In_concept_at x Hx) as [i Hi]. destruct (In_concept_at y Hy) as [k Hk].
      rewrite (ok_index c L HL i x Hi), (ok_index c L HL k y Hk) in E. subst k.
      exact (concept_at_fun i x y Hi Hk).
  Qed.

  (** each label statement occurs once as well: the whole body is duplicate free *)
  Theorem dot_body_NoDup : NoDup (dot_body L).
  Proof.
    rewrite dot_body_eq. apply NoDup_flat_map.
    - exact concepts_NoDup.
    - intros x Hx. destruct (In_concept_at x Hx) as [i Hi]. unfold dot_of.
      assert (He : NoDup (map (fun j => DEdge (c_index x) j) (sort_by (fun j => (Z.of_nat j, 0)) (c_lower x)))).
      { apply FinFun.Injective_map_NoDup; [intros a b E; congruence|].
        apply (Permutation_NoDup (l := c_lower x)); [symmetry; apply sort_by_perm|].
        exact (proj2 (links_nodup i x Hi)). }
      apply NoDup_app_disjoint; [constructor; [intros []|constructor]| |].
      + apply NoDup_app_disjoint; [destruct (c_objects x); [constructor|constructor; [intros []|constructor]]| |].
        * apply NoDup_app_disjoint; [destruct (c_properties x); [constructor|constructor; [intros []|constructor]]|exact He|].
          intros a Ha Hin. apply in_map_iff in Hin. destruct Hin as (j & <- & _).
          destruct (c_properties x); [destruct Ha|]. destruct Ha as [Ha|[]]. discriminate.
        * intros a Ha Hin. destruct (c_objects x); [destruct Ha|]. destruct Ha as [<-|[]].
          apply in_app_or in Hin. destruct Hin as [Hin|Hin].
          -- destruct (c_properties x); [destruct Hin|]. destruct Hin as [Hin|[]]. discriminate.
          -- apply in_map_iff in Hin. destruct Hin as (j & Hj & _). discriminate.
      + intros a [<-|[]] Hin. apply in_app_or in Hin. destruct Hin as [Hin|Hin].
        * destruct (c_objects x); [destruct Hin|]. destruct Hin as [Hin|[]]. discriminate.
        * apply in_app_or in Hin. destruct Hin as [Hin|Hin].
          -- destruct (c_properties x); [destruct Hin|]. destruct Hin as [Hin|[]]. discriminate.
          -- apply in_map_iff in Hin. destruct Hin as (j & Hj & _). discriminate.
    - intros x y a Hx Hy Hax Hay.
      destruct (In_concept_at x Hx) as [i Hi]. destruct (In_concept_at y Hy) as [k Hk].
      assert (E : c_index x = c_index y).
      { destruct a as [n|n o|n o|n j].
        - apply In_dot_of_node in Hax, Hay. congruence.
        - apply In_dot_of_head in Hax, Hay. destruct Hax, Hay. congruence.
        - apply In_dot_of_tail in Hax, Hay. destruct Hax, Hay. congruence.
        - apply In_dot_of_edge in Hax, Hay. destruct Hax, Hay. congruence. }
      rewrite (ok_index c L HL i x Hi), (ok_index c L HL k y Hk) in E. subst k.
      exact (concept_at_fun i x y Hi Hk).
  Qed.

End Ok.
