(** The derivation loops of matrices.py compute the comprehension-style derivations. *)
From Coq Require Import ZArith List Bool Lia ZifyBool.
From Concepts Require Import Base.Res Base.PyInt Base.BitSet Spec.FCA Spec.Context Model.Matrices.
Import ListNotations.
Open Scope Z_scope.

(** reference recursion over the binary digits *)
Fixpoint and_pos (other : list Z) (k : nat) (p : positive) (acc : Z) : res Z :=
  match p with
  | xH => do t <- py_getitem other (Z.of_nat k) ;; Ok (Z.land acc t)
  | xO q => and_pos other (S k) q acc
  | xI q => do t <- py_getitem other (Z.of_nat k) ;; and_pos other (S k) q (Z.land acc t)
  end.

Fixpoint strip (p : positive) : positive :=
  match p with xO q => strip q | _ => p end.

Lemma and_pos_strip other p : forall k acc,
  and_pos other k p acc = and_pos other (k + ctz p) (strip p) acc.
Proof.
  induction p as [p IH|p IH|]; intros k acc; cbn [ctz strip]; rewrite ?Nat.add_0_r; try reflexivity.
  cbn [and_pos]. rewrite IH. f_equal. lia.
Qed.

Lemma shiftr_ctz p : Z.shiftr (Z.pos p) (Z.of_nat (ctz p)) = Z.pos (strip p).
Proof.
  induction p as [p IH|p IH|]; cbn [ctz strip]; try reflexivity.
  rewrite Nat2Z.inj_succ. rewrite <- Z.add_1_l.
  rewrite <- Z.shiftr_shiftr by lia.
  replace (Z.shiftr (Z.pos p~0) 1) with (Z.pos p); [exact IH|].
  rewrite Z.shiftr_div_pow2 by lia. change (Z.pos p~0) with (2 * Z.pos p).
  rewrite Z.pow_1_r, Z.mul_comm, Z.div_mul by lia. reflexivity.
Qed.

Lemma size_strip p : Pos.size_nat p = (ctz p + Pos.size_nat (strip p))%nat.
Proof. induction p as [p IH|p IH|]; cbn [ctz strip Pos.size_nat]; lia. Qed.

Lemma strip_odd p : ctz (strip p) = O.
Proof. induction p; cbn; auto. Qed.

Lemma shiftr1_xI p : Z.shiftr (Z.pos p~1) 1 = Z.pos p.
Proof.
  rewrite Z.shiftr_div_pow2 by lia. change (Z.pos p~1) with (2 * Z.pos p + 1).
  rewrite Z.pow_1_r. rewrite Z.mul_comm, Z.div_add_l by lia. reflexivity.
Qed.

Definition loop_cond : Z * Z * Z -> bool := fun '(prime, i, bitset) => truthy bitset.
Definition loop_body (other : list Z) : Z * Z * Z -> res (Z * Z * Z) :=
  fun '(prime, i, bitset) =>
    let shift := Z.sub (bit_length (Z.land bitset (- bitset))) 1 in
    do '(shift, prime) <- (if negb (truthy shift) then
                             let shift := 1 in
                             do t1 <- py_getitem other i ;;
                             let prime := Z.land prime t1 in
                             Ok (shift, prime)
                           else Ok (shift, prime)) ;;
    let i := Z.add i shift in
    let bitset := Z.shiftr bitset shift in
    Ok (prime, i, bitset).

Lemma prime_unfold fuel other Prime bitset :
  prime fuel other Prime bitset =
  do '(prime, i, bitset) <- while_fuel fuel loop_cond (loop_body other) (Prime, 0, bitset) ;; Ok prime.
Proof. reflexivity. Qed.

(** the loop on a positive: one iteration per set bit or run of zeros *)
Lemma loop_pos other : forall fuel p k acc,
  (Pos.size_nat p <= fuel)%nat ->
  while_fuel fuel loop_cond (loop_body other) (acc, Z.of_nat k, Z.pos p) =
  do r <- and_pos other k p acc ;; Ok (r, Z.of_nat (k + Pos.size_nat p), 0).
Proof.
  induction fuel as [|fuel IH]; intros p k acc Hsz.
  - destruct p; cbn in Hsz; lia.
  - cbn [while_fuel]. unfold loop_cond at 1. unfold truthy at 1. cbn [Z.eqb negb].
    unfold loop_body at 1.
    change (Z.sub (bit_length (Z.land (Z.pos p) (- Z.pos p))) 1) with (tz_expr (Z.pos p)).
    rewrite tz_expr_pos.
    destruct (ctz p) eqn:Hp.
    + cbn [Z.of_nat truthy Z.eqb negb].
      destruct p as [q|q|]; cbn [ctz] in Hp; try discriminate.
      * cbn [and_pos]. destruct (py_getitem other (Z.of_nat k)) as [t|e]; cbn [bind]; [|reflexivity].
        rewrite shiftr1_xI.
        replace (Z.of_nat k + 1) with (Z.of_nat (S k)) by lia.
        cbn [Pos.size_nat] in Hsz |- *.
        rewrite (IH q (S k) (Z.land acc t)) by lia.
        replace (k + S (Pos.size_nat q))%nat with (S k + Pos.size_nat q)%nat by lia. reflexivity.
      * cbn [and_pos]. destruct (py_getitem other (Z.of_nat k)) as [t|e]; cbn [bind]; [|reflexivity].
        change (Z.shiftr 1 1) with 0.
        destruct fuel; cbn [while_fuel loop_cond truthy Z.eqb negb Pos.size_nat];
          (replace (Z.of_nat k + 1) with (Z.of_nat (k + 1)) by lia); reflexivity.
    + assert (Ht : truthy (Z.of_nat (S n)) = true) by (apply truthy_pos; lia).
      rewrite Ht. cbn [negb bind].
      rewrite <- Hp, shiftr_ctz.
      replace (Z.of_nat k + Z.of_nat (ctz p)) with (Z.of_nat (k + ctz p)) by lia.
      pose proof (size_strip p) as Hs.
      rewrite (IH (strip p) (k + ctz p)%nat acc) by lia.
      rewrite (and_pos_strip other p k).
      replace (k + ctz p + Pos.size_nat (strip p))%nat with (k + Pos.size_nat p)%nat by lia.
      reflexivity.
Qed.

(** what the reference recursion computes, bit by bit *)
Lemma and_pos_mem other : forall p k acc r,
  and_pos other k p acc = Ok r ->
  forall j, mem r j = true <->
    mem acc j = true /\
    forall i, Z.testbit (Z.pos p) (Z.of_nat i) = true -> mem (nth (k + i) other 0) j = true.
Proof.
  assert (Hget : forall k t, py_getitem other (Z.of_nat k) = Ok t -> nth k other 0 = t).
  { intros k t H. unfold py_getitem in H.
    destruct (Z.of_nat k <? 0) eqn:E; [lia|].
    destruct ((Z.of_nat k <? 0) || (Z.of_nat (length other) <=? Z.of_nat k)); [discriminate|].
    rewrite Nat2Z.id in H. destruct (nth_error other k) eqn:En; [|discriminate].
    injection H as <-. apply nth_error_nth. exact En. }
  induction p as [q IH|q IH|]; intros k acc r H j; cbn [and_pos] in H.
  - destruct (py_getitem other (Z.of_nat k)) as [t|] eqn:Et; cbn [bind] in H; [|discriminate].
    apply Hget in Et. rewrite (IH _ _ _ H j), mem_land. split.
    + intros [Ha Hall]. apply andb_prop in Ha. destruct Ha as [Ha Ht]. split; [exact Ha|].
      intros i Hi. destruct i as [|i].
      * rewrite Nat.add_0_r, Et. exact Ht.
      * replace (k + S i)%nat with (S k + i)%nat by lia. apply Hall.
        rewrite Nat2Z.inj_succ in Hi. change (Z.pos q~1) with (2 * Z.pos q + 1) in Hi.
        rewrite Z.testbit_odd_succ in Hi by lia. exact Hi.
    + intros [Ha Hall]. split.
      * rewrite Ha. cbn [andb]. rewrite <- Et. specialize (Hall O). rewrite Nat.add_0_r in Hall. apply Hall. reflexivity.
      * intros i Hi. replace (S k + i)%nat with (k + S i)%nat by lia. apply Hall.
        rewrite Nat2Z.inj_succ. change (Z.pos q~1) with (2 * Z.pos q + 1).
        rewrite Z.testbit_odd_succ by lia. exact Hi.
  - rewrite (IH _ _ _ H j). split; intros [Ha Hall]; (split; [exact Ha|]).
    + intros i Hi. destruct i as [|i]; [discriminate Hi|].
      replace (k + S i)%nat with (S k + i)%nat by lia. apply Hall.
      rewrite Nat2Z.inj_succ in Hi. change (Z.pos q~0) with (2 * Z.pos q) in Hi.
      rewrite Z.testbit_even_succ in Hi by lia. exact Hi.
    + intros i Hi. replace (S k + i)%nat with (k + S i)%nat by lia. apply Hall.
      rewrite Nat2Z.inj_succ. change (Z.pos q~0) with (2 * Z.pos q).
      rewrite Z.testbit_even_succ by lia. exact Hi.
  - destruct (py_getitem other (Z.of_nat k)) as [t|] eqn:Et; cbn [bind] in H; [|discriminate].
    apply Hget in Et. injection H as <-. rewrite mem_land. split.
    + intros Ha. apply andb_prop in Ha. destruct Ha as [Ha Ht]. split; [exact Ha|].
      intros i Hi. destruct i as [|i].
      * rewrite Nat.add_0_r, Et. exact Ht.
      * rewrite Nat2Z.inj_succ in Hi. change 1 with (2 * 0 + 1) in Hi.
        rewrite Z.testbit_odd_succ, Z.testbit_0_l in Hi by lia. discriminate.
    + intros [Ha Hall]. rewrite Ha. cbn [andb]. rewrite <- Et. specialize (Hall O). rewrite Nat.add_0_r in Hall. apply Hall. reflexivity.
Qed.

Lemma and_pos_defined other : forall p k acc,
  (k + Pos.size_nat p <= length other)%nat -> exists r, and_pos other k p acc = Ok r.
Proof.
  assert (Hget : forall k, (k < length other)%nat -> exists t, py_getitem other (Z.of_nat k) = Ok t).
  { intros k Hk. destruct (nth_error other k) eqn:E.
    - exists z. apply py_getitem_nth. exact E.
    - apply nth_error_None in E. lia. }
  induction p as [q IH|q IH|]; intros k acc Hk; cbn [Pos.size_nat] in Hk; cbn [and_pos].
  - destruct (Hget k) as [t ->]; [lia|]. cbn [bind]. apply IH. lia.
  - apply IH. lia.
  - destruct (Hget k) as [t ->]; [lia|]. cbn [bind]. eauto.
Qed.

Lemma and_pos_nonneg other : Forall (fun z => 0 <= z) other -> forall p k acc r,
  0 <= acc -> and_pos other k p acc = Ok r -> 0 <= r.
Proof.
  intros Hnn.
  induction p as [q IH|q IH|]; intros k acc r Ha H; cbn [and_pos] in H.
  - destruct (py_getitem other (Z.of_nat k)) as [t|]; cbn [bind] in H; [|discriminate].
    eapply IH; [|exact H]. apply Z.land_nonneg. left; exact Ha.
  - eapply IH; eassumption.
  - destruct (py_getitem other (Z.of_nat k)) as [t|]; cbn [bind] in H; [|discriminate].
    injection H as <-. apply Z.land_nonneg. left; exact Ha.
Qed.

Lemma size_nat_bits p i : Z.testbit (Z.pos p) (Z.of_nat i) = true -> (i < Pos.size_nat p)%nat.
Proof.
  revert i; induction p as [q IH|q IH|]; intros i Hi; cbn [Pos.size_nat].
  - destruct i as [|i]; [lia|]. rewrite Nat2Z.inj_succ in Hi. change (Z.pos q~1) with (2 * Z.pos q + 1) in Hi.
    rewrite Z.testbit_odd_succ in Hi by lia. apply IH in Hi. lia.
  - destruct i as [|i]; [discriminate|]. rewrite Nat2Z.inj_succ in Hi. change (Z.pos q~0) with (2 * Z.pos q) in Hi.
    rewrite Z.testbit_even_succ in Hi by lia. apply IH in Hi. lia.
  - destruct i as [|i]; [lia|]. rewrite Nat2Z.inj_succ in Hi. change 1 with (2 * 0 + 1) in Hi.
    rewrite Z.testbit_odd_succ, Z.testbit_0_l in Hi by lia. discriminate.
Qed.

Lemma size_nat_top p : Z.testbit (Z.pos p) (Z.of_nat (Pos.size_nat p - 1)) = true.
Proof.
  induction p as [q IH|q IH|]; cbn [Pos.size_nat]; try reflexivity.
  - replace (S (Pos.size_nat q) - 1)%nat with (S (Pos.size_nat q - 1)) by (destruct q; cbn; lia).
    rewrite Nat2Z.inj_succ. change (Z.pos q~1) with (2 * Z.pos q + 1). rewrite Z.testbit_odd_succ by lia. exact IH.
  - replace (S (Pos.size_nat q) - 1)%nat with (S (Pos.size_nat q - 1)) by (destruct q; cbn; lia).
    rewrite Nat2Z.inj_succ. change (Z.pos q~0) with (2 * Z.pos q). rewrite Z.testbit_even_succ by lia. exact IH.
Qed.

Lemma size_nat_le_of_in_range n p : in_range n (Z.pos p) -> (Pos.size_nat p <= n)%nat.
Proof.
  intros [_ Hr]. destruct (Nat.le_gt_cases (Pos.size_nat p) n) as [H|H]; [exact H|].
  specialize (Hr (Pos.size_nat p - 1)%nat). unfold mem in Hr. rewrite size_nat_top in Hr.
  assert (n <= Pos.size_nat p - 1)%nat by lia. specialize (Hr H0). discriminate.
Qed.

(** Generic statement: for an in-range set [A] over [n = length other] the loop returns
    the AND of [Prime] with all [other[i]], [i] in [A]; [n + 2] iterations suffice. *)
Definition bits_size (z : Z) : nat := match z with Z.pos p => Pos.size_nat p | _ => O end.

Theorem prime_loop_spec fuel other Prime A :
  in_range (length other) A -> (bits_size A <= fuel)%nat ->
  exists r, prime fuel other Prime A = Ok r /\
    forall j, mem r j = true <->
      mem Prime j = true /\ forall i, mem A i = true -> mem (nth i other 0) j = true.
Proof.
  intros HA Hfuel. rewrite prime_unfold.
  destruct A as [|p|p]; [| |destruct HA as [HA _]; lia].
  - exists Prime. split.
    + destruct fuel; reflexivity.
    + intros j. split; [intros H; split; [exact H|]|tauto]. intros i Hi. rewrite mem_0 in Hi. discriminate.
  - cbn [bits_size] in Hfuel.
    change 0 with (Z.of_nat 0) at 1.
    rewrite loop_pos by lia.
    destruct (and_pos_defined other p 0%nat Prime) as [r Hr].
    { pose proof (size_nat_le_of_in_range _ _ HA). lia. }
    rewrite Hr. cbn [bind]. exists r. split; [reflexivity|].
    intros j. rewrite (and_pos_mem other p 0%nat Prime r Hr j). cbn [Nat.add]. unfold mem. tauto.
Qed.

Lemma prime_loop_nonneg fuel other Prime A r :
  Forall (fun z => 0 <= z) other -> 0 <= Prime -> in_range (length other) A ->
  (bits_size A <= fuel)%nat -> prime fuel other Prime A = Ok r -> 0 <= r.
Proof.
  intros Hnn HP HA Hfuel. rewrite prime_unfold.
  destruct A as [|p|p]; [| |destruct HA as [HA _]; lia].
  - destruct fuel; cbn; intros H; injection H as <-; exact HP.
  - cbn [bits_size] in Hfuel. change 0 with (Z.of_nat 0) at 1. rewrite loop_pos by lia.
    destruct (and_pos other 0 p Prime) as [r'|] eqn:E; cbn [bind]; [|discriminate].
    intros H; injection H as <-. eapply and_pos_nonneg; eassumption.
Qed.

(** * instantiation: Objects.prime and Properties.prime of a context *)

Definition primeO (fuel : nat) (c : ctx) (A : Z) : res Z := prime fuel (rows c) (ones (nM c)) A.
Definition primeM (fuel : nat) (c : ctx) (B : Z) : res Z := prime fuel (cols c) (ones (nG c)) B.

Theorem primeO_spec fuel c A :
  wf_ctx c -> in_range (nG c) A -> (bits_size A <= fuel)%nat ->
  primeO fuel c A = Ok (upO c A).
Proof.
  intros Hwf HA Hfuel. unfold primeO.
  destruct Hwf as [Hlen Hrows].
  rewrite <- Hlen in HA.
  destruct (prime_loop_spec fuel (rows c) (ones (nM c)) A HA Hfuel) as [r [Hr Hmem]].
  rewrite Hr. f_equal.
  assert (Hnn : 0 <= r).
  { eapply prime_loop_nonneg; try eassumption; [|apply ones_nonneg].
    eapply Forall_impl; [|exact Hrows]. intros z [Hz _]. exact Hz. }
  apply (bitset_ext (nM c)); [| apply in_range_up |].
  - split; [exact Hnn|]. intros i Hi. destruct (mem r i) eqn:E; [|reflexivity].
    apply Hmem in E. destruct E as [E _]. rewrite mem_ones in E. apply Nat.ltb_lt in E. lia.
  - intros m Hm. destruct (mem r m) eqn:E1, (mem (upO c A) m) eqn:E2; try reflexivity.
    + apply Hmem in E1. destruct E1 as [_ E1].
      assert (mem (upO c A) m = true); [|congruence].
      apply mem_up. split; [exact Hm|]. intros g Hg HgA. apply E1. exact HgA.
    + apply mem_up in E2. destruct E2 as [_ E2].
      assert (mem r m = true); [|congruence].
      apply Hmem. split; [rewrite mem_ones; apply Nat.ltb_lt; exact Hm|].
      intros g HgA. apply E2; [|exact HgA]. rewrite <- Hlen. apply (mem_lt_of_in_range _ _ _ HA HgA).
Qed.

Theorem primeM_spec fuel c B :
  in_range (nM c) B -> (bits_size B <= fuel)%nat ->
  primeM fuel c B = Ok (upM c B).
Proof.
  intros HB Hfuel. unfold primeM.
  rewrite <- (cols_length c) in HB.
  destruct (prime_loop_spec fuel (cols c) (ones (nG c)) B HB Hfuel) as [r [Hr Hmem]].
  rewrite Hr. f_equal.
  assert (Hnn : 0 <= r).
  { eapply prime_loop_nonneg; try eassumption; [|apply ones_nonneg].
    unfold cols. apply Forall_forall. intros z Hz. apply in_map_iff in Hz. destruct Hz as [m [<- _]].
    apply in_range_col. }
  rewrite cols_length in HB.
  apply (bitset_ext (nG c)); [| apply in_range_up |].
  - split; [exact Hnn|]. intros i Hi. destruct (mem r i) eqn:E; [|reflexivity].
    apply Hmem in E. destruct E as [E _]. rewrite mem_ones in E. apply Nat.ltb_lt in E. lia.
  - intros g Hg. destruct (mem r g) eqn:E1, (mem (upM c B) g) eqn:E2; try reflexivity.
    + apply Hmem in E1. destruct E1 as [_ E1].
      assert (mem (upM c B) g = true); [|congruence].
      apply mem_up. split; [exact Hg|]. intros m Hm HmB. specialize (E1 m HmB).
      rewrite nth_cols, mem_col in E1 by exact Hm. apply andb_prop in E1. unfold flipR. tauto.
    + apply mem_up in E2. destruct E2 as [_ E2].
      assert (mem r g = true); [|congruence].
      apply Hmem. split; [rewrite mem_ones; apply Nat.ltb_lt; exact Hg|].
      intros m HmB. pose proof (mem_lt_of_in_range _ _ _ HB HmB) as Hm.
      rewrite nth_cols, mem_col by exact Hm. apply andb_true_iff. split; [apply Nat.ltb_lt; exact Hg|].
      apply (E2 m Hm HmB).
Qed.
