(** shape and fill_ratio agree between a context and its definition (remaining clause of property C14).

    [fraction n d] is fractions.Fraction(n, d) for non-negative ints: the pair in lowest terms.
    The numerator of Definition.fill_ratio is len(_pairs), the one of Context.fill_ratio is the sum of the
    popcounts of the row integers; both are the number of true cells of the boolean table. *)
From Coq Require Import ZArith List Bool Lia ZifyBool Arith Permutation Znumtheory.
From Concepts Require Import Base.Res Base.PyInt Base.BitSet Spec.FCA Spec.Context Spec.Transform
  Model.Lattice Model.Definition Spec.DefSpec Model.Validation Model.Stats
  Proofs.DefUnique Proofs.DefPairs Proofs.Definition Proofs.DefFacts Proofs.Validation
  Proofs.Keys Proofs.ContextDefinition Proofs.Transform.
Import ListNotations.
Open Scope Z_scope.

(** * 1. fractions.Fraction of two non-negative ints *)

Theorem fraction_zero n : fraction n 0 = None.
Proof. reflexivity. Qed.

Theorem fraction_spec n d :
  0 <= n -> 0 < d ->
  exists a b, fraction n d = Some (a, b) /\ 0 < b /\ Z.gcd a b = 1 /\ a * d = n * b /\ 0 <= a.
Proof.
  intros Hn Hd. unfold fraction.
  destruct (d =? 0) eqn:E; [lia|]. clear E.
  set (g := Z.gcd n d).
  assert (Hg0 : 0 <= g) by apply Z.gcd_nonneg.
  assert (Hgn : g <> 0).
  { intros H. apply Z.gcd_eq_0_r in H. lia. }
  assert (Hg : 0 < g) by lia.
  destruct (Z.gcd_divide_l n d) as [a Ha]. destruct (Z.gcd_divide_r n d) as [b Hb].
  fold g in Ha, Hb.
  assert (Ea : n / g = a) by (rewrite Ha; apply Z.div_mul; exact Hgn).
  assert (Eb : d / g = b) by (rewrite Hb; apply Z.div_mul; exact Hgn).
  exists (n / g), (d / g). split; [reflexivity|].
  split; [rewrite Eb; nia|].
  split; [apply Z.gcd_div_gcd; [exact Hgn|reflexivity]|].
  split; [rewrite Ea, Eb; nia|].
  rewrite Ea. nia.
Qed.

Theorem fraction_le n d :
  0 <= n <= d -> 0 < d ->
  exists a b, fraction n d = Some (a, b) /\ 0 < b /\ Z.gcd a b = 1 /\ a * d = n * b /\ 0 <= a /\ a <= b.
Proof.
  intros [Hn Hnd] Hd. destruct (fraction_spec n d Hn Hd) as (a & b & E & Hb & Hg & Hm & Ha).
  exists a, b. repeat split; try assumption. nia.
Qed.

(** lowest terms are unique *)
Lemma lowest_terms_unique a b a' b' :
  0 < b -> 0 < b' -> Z.gcd a b = 1 -> Z.gcd a' b' = 1 -> a * b' = a' * b -> a = a' /\ b = b'.
Proof.
  intros Hb Hb' Hg Hg' E.
  assert (D1 : (b | b')).
  { apply (Z.gauss b a b'); [exists a'; lia|rewrite Z.gcd_comm; exact Hg]. }
  assert (D2 : (b' | b)).
  { apply (Z.gauss b' a' b); [exists a; lia|rewrite Z.gcd_comm; exact Hg']. }
  assert (Eb : b = b') by (apply Z.divide_antisym_nonneg; try assumption; lia).
  split; [|exact Eb]. subst b'. nia.
Qed.

Theorem fraction_unique n d n' d' :
  0 < d -> 0 < d' -> 0 <= n -> 0 <= n' -> n * d' = n' * d -> fraction n d = fraction n' d'.
Proof.
  intros Hd Hd' Hn Hn' E.
  destruct (fraction_spec n d Hn Hd) as (a & b & F & Hb & Hg & Hm & Ha).
  destruct (fraction_spec n' d' Hn' Hd') as (a' & b' & F' & Hb' & Hg' & Hm' & Ha').
  rewrite F, F'.
  assert (X : a * b' = a' * b).
  { assert (Y : (a * b') * (d * d') = (a' * b) * (d * d')).
    { transitivity (n * b * b' * d'); [rewrite <- Hm; ring|].
      transitivity (n' * b' * b * d); [|rewrite <- Hm'; ring].
      transitivity ((n * d') * b * b'); [ring|]. rewrite E. ring. }
    apply Z.mul_reg_r in Y; [exact Y|nia]. }
  destruct (lowest_terms_unique a b a' b' Hb Hb' Hg Hg' X) as [-> ->]. reflexivity.
Qed.

(** * list counting helpers *)

(** number of (x, y) in xs x ys with f x y *)
Definition total {A B} (f : A -> B -> bool) (xs : list A) (ys : list B) : nat :=
  fold_right (fun x acc => (length (filter (f x) ys) + acc)%nat) 0%nat xs.

Lemma filter_id_map {A} (f : A -> bool) l :
  length (filter (fun b : bool => b) (map f l)) = length (filter f l).
Proof.
  induction l as [|x l IH]; [reflexivity|]. cbn [map filter].
  destruct (f x); cbn [length]; rewrite IH; reflexivity.
Qed.

Lemma n_true_grid {A B} (f : A -> B -> bool) xs ys :
  n_true (map (fun x => map (fun y => f x y) ys) xs) = total f xs ys.
Proof.
  unfold n_true, total. induction xs as [|x xs IH]; [reflexivity|].
  cbn [map fold_right]. rewrite IH. f_equal. apply (filter_id_map (f x)).
Qed.

Lemma total_cons_r {A B} (f : A -> B -> bool) xs y ys :
  total f xs (y :: ys) = (length (filter (fun x => f x y) xs) + total f xs ys)%nat.
Proof.
  unfold total. induction xs as [|x xs IH]; [reflexivity|].
  cbn [fold_right]. rewrite IH. cbn [filter]. destruct (f x y); cbn [length]; lia.
Qed.

Lemma total_nil_r {A B} (f : A -> B -> bool) xs : total f xs [] = 0%nat.
Proof. unfold total. induction xs as [|x xs IH]; [reflexivity|]. cbn [fold_right filter length]. exact IH. Qed.

(** double counting: rows first or columns first *)
Lemma total_swap {A B} (f : A -> B -> bool) xs ys :
  total f xs ys = total (fun y x => f x y) ys xs.
Proof.
  induction ys as [|y ys IH]; [apply total_nil_r|].
  rewrite total_cons_r, IH. reflexivity.
Qed.

Lemma filter_length_perm {A} (f : A -> bool) l l' :
  Permutation l l' -> length (filter f l) = length (filter f l').
Proof.
  induction 1 as [|x l l' HP IH|x y l|l l' l'' H1 IH1 H2 IH2]; cbn [filter].
  - reflexivity.
  - destruct (f x); cbn [length]; rewrite IH; reflexivity.
  - destruct (f x), (f y); reflexivity.
  - rewrite IH1. exact IH2.
Qed.

Lemma total_perm_l {A B} (f : A -> B -> bool) xs xs' ys :
  Permutation xs xs' -> total f xs ys = total f xs' ys.
Proof.
  unfold total. induction 1 as [|x l l' HP IH|x y l|l l' l'' H1 IH1 H2 IH2]; cbn [fold_right].
  - reflexivity.
  - rewrite IH. reflexivity.
  - lia.
  - rewrite IH1. exact IH2.
Qed.

Lemma total_perm_r {A B} (f : A -> B -> bool) xs ys ys' :
  Permutation ys ys' -> total f xs ys = total f xs ys'.
Proof.
  intros HP. unfold total. induction xs as [|x xs IH]; [reflexivity|].
  cbn [fold_right]. rewrite IH, (filter_length_perm (f x) ys ys' HP). reflexivity.
Qed.

Lemma total_ext {A B} (f g : A -> B -> bool) xs ys :
  (forall x y, In x xs -> In y ys -> f x y = g x y) -> total f xs ys = total g xs ys.
Proof.
  unfold total. induction xs as [|x xs IH]; intros H; [reflexivity|].
  cbn [fold_right]. rewrite IH by (intros; apply H; [right|]; assumption).
  f_equal. f_equal. apply filter_ext_in. intros y Hy. apply H; [left; reflexivity|exact Hy].
Qed.

Lemma total_map_l {A A' B} (h : A' -> A) (f : A -> B -> bool) xs ys :
  total f (map h xs) ys = total (fun x y => f (h x) y) xs ys.
Proof.
  unfold total. induction xs as [|x xs IH]; [reflexivity|]. cbn [map fold_right]. rewrite IH. reflexivity.
Qed.

Lemma filter_len_le {A} (f : A -> bool) l : (length (filter f l) <= length l)%nat.
Proof. induction l as [|x l IH]; [apply le_n|]. cbn [filter]. destruct (f x); cbn [length]; lia. Qed.

Lemma total_le {A B} (f : A -> B -> bool) xs ys : (total f xs ys <= length xs * length ys)%nat.
Proof.
  unfold total. induction xs as [|x xs IH]; [cbn; lia|].
  cbn [fold_right length]. pose proof (filter_len_le (f x) ys). lia.
Qed.

(** * 2. Definition.fill_ratio counts the true cells *)

(** the cells of the grid, row by row *)
Definition grid (os ps : list nat) : list (nat * nat) := flat_map (fun o => map (fun p => (o, p)) ps) os.

Lemma In_grid os ps o p : In (o, p) (grid os ps) <-> In o os /\ In p ps.
Proof.
  unfold grid. rewrite in_flat_map. split.
  - intros [x [Hx H]]. apply in_map_iff in H. destruct H as [y [E Hy]]. injection E as -> ->. auto.
  - intros [Ho Hp]. exists o. split; [exact Ho|]. apply in_map_iff. exists p. auto.
Qed.

Lemma NoDup_app_intro {A} (l l' : list A) :
  NoDup l -> NoDup l' -> (forall x, In x l -> ~ In x l') -> NoDup (l ++ l').
Proof.
  induction 1 as [|a l Ha Hn IH]; intros Hl' Hd; [exact Hl'|].
  cbn [app]. constructor.
  - rewrite in_app_iff. intros [H|H]; [contradiction|]. exact (Hd a (or_introl eq_refl) H).
  - apply IH; [exact Hl'|]. intros x Hx. apply Hd. right. exact Hx.
Qed.

Lemma NoDup_grid os ps : NoDup os -> NoDup ps -> NoDup (grid os ps).
Proof.
  intros Ho Hp. induction Ho as [|o os Hno Ho IH]; [constructor|].
  unfold grid. cbn [flat_map]. apply NoDup_app_intro.
  - apply FinFun.Injective_map_NoDup; [|exact Hp]. intros x y E. injection E as ->. reflexivity.
  - exact IH.
  - intros [x y] H1 H2. apply in_map_iff in H1. destruct H1 as [z [E _]]. injection E as <- <-.
    apply (In_grid os ps) in H2. tauto.
Qed.

Lemma filter_grid_length (f : nat * nat -> bool) os ps :
  length (filter f (grid os ps)) = total (fun o p => f (o, p)) os ps.
Proof.
  unfold grid, total. induction os as [|o os IH]; [reflexivity|].
  cbn [flat_map fold_right]. rewrite filter_app, app_length, IH. f_equal.
  clear IH. induction ps as [|p ps IH]; [reflexivity|]. cbn [map filter].
  destruct (f (o, p)); cbn [length]; rewrite IH; reflexivity.
Qed.

Lemma n_true_bools_of d :
  n_true (bools_of d) = total (fun o p => memp (o, p) (d_pairs d)) (objects_of d) (properties_of d).
Proof. unfold bools_of. apply (n_true_grid (fun o p => memp (o, p) (d_pairs d))). Qed.

Theorem def_pairs_count d : Inv d -> length (d_pairs d) = n_true (bools_of d).
Proof.
  intros [[No _] [[Np _] [Npairs Hin]]].
  rewrite n_true_bools_of, <- (filter_grid_length (fun x => memp x (d_pairs d))).
  apply Permutation_length, NoDup_Permutation.
  - exact Npairs.
  - apply NoDup_filter, NoDup_grid; assumption.
  - intros [o p]. rewrite filter_In, In_grid, memp_In. split.
    + intros H. split; [apply Hin; exact H|exact H].
    + tauto.
Qed.

Theorem def_fill_ratio_bools d :
  Inv d ->
  def_fill_ratio d = fraction (Z.of_nat (n_true (bools_of d)))
                              (Z.of_nat (length (objects_of d) * length (properties_of d))).
Proof. intros HI. unfold def_fill_ratio. rewrite (def_pairs_count d HI). reflexivity. Qed.

(** * 3. Context.fill_ratio counts the true cells *)

Definition rows_count (c : ctx) : nat := fold_right (fun r acc => (count r + acc)%nat) 0%nat (rows c).

Lemma context_bools_rows c :
  nG c = length (rows c) ->
  context_bools c = map (fun r => map (fun m => mem r m) (seq 0 (nM c))) (rows c).
Proof.
  intros Hlen. unfold context_bools, inc, row. rewrite Hlen.
  apply (map_seq_nth (fun r => map (fun m => mem r m) (seq 0 (nM c))) (rows c) 0).
Qed.

Lemma rows_count_total n (rs : list Z) :
  Forall (in_range n) rs ->
  fold_right (fun r acc => (count r + acc)%nat) 0%nat rs = total (fun r m => mem r m) rs (seq 0 n).
Proof.
  unfold total. induction 1 as [|r rs Hr Hrs IH]; [reflexivity|].
  cbn [fold_right]. rewrite IH. f_equal. rewrite (count_members n r Hr). reflexivity.
Qed.

Lemma n_true_context_bools c :
  nG c = length (rows c) -> n_true (context_bools c) = total (fun r m => mem r m) (rows c) (seq 0 (nM c)).
Proof.
  intros Hlen. rewrite (context_bools_rows c Hlen). apply (n_true_grid (fun r m => mem r m)).
Qed.

Theorem ctx_rows_count c :
  wf_ctx c -> fold_right (fun r acc => (count r + acc)%nat) 0%nat (rows c) = n_true (context_bools c).
Proof.
  intros [Hlen Hf]. rewrite (n_true_context_bools c (eq_sym Hlen)). apply rows_count_total. exact Hf.
Qed.

Theorem ctx_fill_ratio_bools c :
  wf_ctx c ->
  ctx_fill_ratio c = fraction (Z.of_nat (n_true (context_bools c))) (Z.of_nat (nG c * nM c)).
Proof. intros W. unfold ctx_fill_ratio. rewrite (ctx_rows_count c W). reflexivity. Qed.

(** in terms of the incidence relation *)
Lemma n_true_context_bools_inc c :
  n_true (context_bools c) = total (inc c) (seq 0 (nG c)) (seq 0 (nM c)).
Proof. unfold context_bools. apply (n_true_grid (inc c)). Qed.

(** * 4. agreement between a context and its definition *)

Theorem definition_context_stats d o p c :
  Inv d ->
  context_init (objects_of d) (properties_of d) (map (map VBool) (bools_of d)) = Ok (o, p, c) ->
  ctx_shape c = def_shape d /\ ctx_fill_ratio c = def_fill_ratio d.
Proof.
  intros HI E.
  destruct (context_init_faithful _ _ _ _ _ _ E) as (_ & _ & HG & HM & W & _).
  pose proof (context_init_bools _ _ _ _ _ _ E) as Hb. rewrite truthy_VBool_map2 in Hb.
  split.
  - unfold ctx_shape, def_shape. rewrite HG, HM. reflexivity.
  - rewrite (ctx_fill_ratio_bools c W), (def_fill_ratio_bools d HI), Hb, HG, HM. reflexivity.
Qed.

Theorem context_definition_stats objs props bools o p c d :
  context_init objs props bools = Ok (o, p, c) ->
  d_init o p (context_bools c) = Ok d ->
  def_shape d = ctx_shape c /\ def_fill_ratio d = ctx_fill_ratio c.
Proof.
  intros E Ed.
  destruct (context_init_faithful _ _ _ _ _ _ E) as (-> & -> & HG & HM & W & _).
  destruct (context_to_definition _ _ _ _ E) as (d' & Ed' & HI & Hobs & _).
  rewrite Ed in Ed'. injection Ed' as <-.
  unfold obs_defn in Hobs. injection Hobs as Ho Hp Hb.
  split.
  - unfold ctx_shape, def_shape. rewrite HG, HM, Ho, Hp. reflexivity.
  - rewrite (ctx_fill_ratio_bools c W), (def_fill_ratio_bools d HI), Hb, HG, HM, Ho, Hp. reflexivity.
Qed.

(** * 5. when fill_ratio is defined *)

Theorem def_fill_ratio_empty d :
  objects_of d = [] \/ properties_of d = [] -> def_fill_ratio d = None.
Proof.
  intros [H|H]; unfold def_fill_ratio; rewrite H; cbn [length]; [|rewrite Nat.mul_0_r]; reflexivity.
Qed.

Lemma n_true_context_bools_le c : (n_true (context_bools c) <= nG c * nM c)%nat.
Proof.
  rewrite n_true_context_bools_inc.
  pose proof (total_le (inc c) (seq 0 (nG c)) (seq 0 (nM c))) as H. rewrite !seq_length in H. exact H.
Qed.

Theorem ctx_fill_ratio_some c :
  wf_ctx c -> (0 < nG c)%nat -> (0 < nM c)%nat ->
  exists a b, ctx_fill_ratio c = Some (a, b) /\ 0 <= a <= b /\ Z.gcd a b = 1.
Proof.
  intros W HG HM. rewrite (ctx_fill_ratio_bools c W).
  pose proof (n_true_context_bools_le c) as Hle.
  destruct (fraction_le (Z.of_nat (n_true (context_bools c))) (Z.of_nat (nG c * nM c)))
    as (a & b & E & Hb & Hg & _ & Ha & Hab); [lia|nia|].
  exists a, b. repeat split; assumption.
Qed.

(** stronger form: the value is the number of true cells over the size, in lowest terms *)
Theorem ctx_fill_ratio_value c :
  wf_ctx c -> (0 < nG c)%nat -> (0 < nM c)%nat ->
  exists a b, ctx_fill_ratio c = Some (a, b) /\ 0 <= a <= b /\ 0 < b /\ Z.gcd a b = 1 /\
              a * Z.of_nat (nG c * nM c) = Z.of_nat (n_true (context_bools c)) * b.
Proof.
  intros W HG HM. rewrite (ctx_fill_ratio_bools c W).
  pose proof (n_true_context_bools_le c) as Hle.
  destruct (fraction_le (Z.of_nat (n_true (context_bools c))) (Z.of_nat (nG c * nM c)))
    as (a & b & E & Hb & Hg & Hm & Ha & Hab); [lia|nia|].
  exists a, b. repeat split; assumption.
Qed.

(** * 6. invariance under the transformations of property C15 *)

Theorem ctx_shape_transpose c : ctx_shape (transpose c) = (snd (ctx_shape c), fst (ctx_shape c)).
Proof. reflexivity. Qed.

Lemma n_true_transpose c : n_true (context_bools (transpose c)) = n_true (context_bools c).
Proof.
  rewrite !n_true_context_bools_inc. cbn [transpose nG nM].
  rewrite (total_swap (inc c)). apply total_ext. intros m g Hm Hg. apply in_seq in Hm, Hg.
  apply inc_transpose; lia.
Qed.

Theorem ctx_fill_ratio_transpose c : wf_ctx c -> ctx_fill_ratio (transpose c) = ctx_fill_ratio c.
Proof.
  intros W. rewrite (ctx_fill_ratio_bools c W), (ctx_fill_ratio_bools _ (wf_transpose c)), n_true_transpose.
  cbn [transpose nG nM]. rewrite (Nat.mul_comm (nM c)). reflexivity.
Qed.

Lemma NoDup_map_inj_in {A B} (f : A -> B) l :
  (forall x y, In x l -> In y l -> f x = f y -> x = y) -> NoDup l -> NoDup (map f l).
Proof.
  intros Hinj Hn. induction Hn as [|a l Ha Hn IH]; [constructor|].
  cbn [map]. constructor.
  - intros H. apply in_map_iff in H. destruct H as [y [E Hy]].
    assert (y = a) by (apply Hinj; [right; exact Hy|left; reflexivity|exact E]). subst. contradiction.
  - apply IH. intros x y Hx Hy. apply Hinj; right; assumption.
Qed.

Lemma bijection_perm n f finv : bijection_on n f finv -> Permutation (map finv (seq 0 n)) (seq 0 n).
Proof.
  intros [H1 H2]. apply NoDup_Permutation_bis.
  - apply NoDup_map_inj_in; [|apply seq_NoDup].
    intros x y Hx Hy E. apply in_seq in Hx, Hy.
    destruct (H2 x) as [_ Ex]; [lia|]. destruct (H2 y) as [_ Ey]; [lia|]. congruence.
  - rewrite map_length. apply le_n.
  - intros x Hx. apply in_map_iff in Hx. destruct Hx as [i [<- Hi]]. apply in_seq in Hi.
    apply in_seq. destruct (H2 i); lia.
Qed.

Section PermStats.
  Variables (c : ctx) (s sinv t tinv : nat -> nat).
  Hypothesis Hs : bijection_on (nG c) s sinv.
  Hypothesis Ht : bijection_on (nM c) t tinv.

  Theorem ctx_shape_perm : ctx_shape (perm_ctx c sinv tinv) = ctx_shape c.
  Proof. reflexivity. Qed.

  Lemma n_true_perm : n_true (context_bools (perm_ctx c sinv tinv)) = n_true (context_bools c).
  Proof.
    rewrite !n_true_context_bools_inc. cbn [perm_ctx nG nM].
    rewrite (total_ext (inc (perm_ctx c sinv tinv)) (fun k j => inc c (sinv k) (tinv j))).
    2:{ intros k j Hk Hj. apply in_seq in Hk, Hj. apply inc_perm; lia. }
    rewrite <- (total_map_l sinv (fun g j => inc c g (tinv j))).
    rewrite (total_perm_l _ _ _ _ (bijection_perm _ _ _ Hs)).
    rewrite total_swap.
    rewrite <- (total_map_l tinv (fun m g => inc c g m)).
    rewrite (total_perm_l _ _ _ _ (bijection_perm _ _ _ Ht)).
    symmetry. apply total_swap.
  Qed.

  Theorem ctx_fill_ratio_perm : wf_ctx c -> ctx_fill_ratio (perm_ctx c sinv tinv) = ctx_fill_ratio c.
  Proof.
    intros W. rewrite (ctx_fill_ratio_bools c W), (ctx_fill_ratio_bools _ (wf_perm c sinv tinv)), n_true_perm.
    reflexivity.
  Qed.
End PermStats.

(** * non-vacuity: a 2x3 definition with fill ratio 2/3 (odd denominator), and its context *)
Example fill_ratio_witness :
  let objs := [0; 1]%nat in let props := [10; 11; 12]%nat in
  let bools := [[true; false; true]; [true; true; false]] in
  exists d c,
    d_init objs props bools = Ok d /\ bools_of d = bools /\
    def_shape d = (2, 3)%nat /\ def_fill_ratio d = Some (2, 3) /\
    context_init (objects_of d) (properties_of d) (map (map VBool) (bools_of d)) = Ok (objs, props, c) /\
    ctx_shape c = (2, 3)%nat /\ ctx_fill_ratio c = Some (2, 3) /\
    ctx_fill_ratio (transpose c) = Some (2, 3) /\
    fraction 1 3 = Some (1, 3) /\ fraction 6 4 = Some (3, 2) /\ fraction 0 6 = Some (0, 1) /\ fraction 0 0 = None.
Proof.
  exists (mkD (mkU [0; 1]%nat [0; 1]%nat) (mkU [10; 11; 12]%nat [10; 11; 12]%nat) [(0, 10); (0, 12); (1, 10); (1, 11)]%nat),
         (mkCtx 2 3 [5; 3]).
  vm_compute. repeat split; reflexivity.
Qed.

Print Assumptions fraction_spec.
Print Assumptions fraction_le.
Print Assumptions fraction_unique.
Print Assumptions def_pairs_count.
Print Assumptions def_fill_ratio_bools.
Print Assumptions ctx_rows_count.
Print Assumptions ctx_fill_ratio_bools.
Print Assumptions definition_context_stats.
Print Assumptions context_definition_stats.
Print Assumptions def_fill_ratio_empty.
Print Assumptions ctx_fill_ratio_some.
Print Assumptions ctx_fill_ratio_value.
Print Assumptions ctx_fill_ratio_transpose.
Print Assumptions ctx_fill_ratio_perm.
Print Assumptions fill_ratio_witness.
