(** Invariance of the concept lattice (as specified in Spec/Context.v) under relabelling,
    transposition and duplication of rows / columns (property C15).
    Everything here is about the mathematical specification; the algorithms are tied to it
    elsewhere (C01-C07). *)
From Coq Require Import ZArith List Bool Lia ZifyBool Permutation Arith.
From Concepts Require Import Base.PyInt Base.BitSet Spec.FCA Spec.Context Spec.Transform.
Import ListNotations.
Open Scope Z_scope.

(** * generic helpers *)

Lemma bool_eq_iff (a b : bool) : (a = true <-> b = true) -> a = b.
Proof. destruct a, b; intros [H1 H2]; try reflexivity; [symmetry; apply H1|apply H2]; reflexivity. Qed.

Lemma up_ext_R nX nY R R' A :
  (forall x y, (x < nX)%nat -> (y < nY)%nat -> R' x y = R x y) -> up nX nY R' A = up nX nY R A.
Proof.
  intros H. apply (bitset_ext nY); try apply in_range_up.
  intros y Hy. apply bool_eq_iff. rewrite !mem_up.
  split; intros [_ Hall]; (split; [exact Hy|]); intros x Hx Hm.
  - rewrite <- H by assumption. apply Hall; assumption.
  - rewrite H by assumption. apply Hall; assumption.
Qed.

Lemma concept_closedM c A B : is_concept c A B -> closedM c B.
Proof. intros (HA & HB & H1 & H2). split; [exact HB|]. unfold clM. rewrite H2. exact H1. Qed.

Lemma closedM_concept c B : closedM c B -> is_concept c (upM c B) B.
Proof.
  intros [HB Hc]. split; [apply in_range_up|]. split; [exact HB|]. split; [exact Hc|reflexivity].
Qed.

Lemma closedM_upO c A : in_range (nG c) A -> closedM c (upO c A).
Proof. intros HA. split; [apply in_range_up|]. unfold clM. apply upO_clO. exact HA. Qed.

(** * enumerations and counting *)

Definition enumerates {X : Type} (P : X -> Prop) (l : list X) : Prop :=
  NoDup l /\ forall x, In x l <-> P x.

(** the concepts of a context, as a predicate on pairs (extent, intent) *)
Definition concepts (c : ctx) (p : Z * Z) : Prop := is_concept c (fst p) (snd p).

Lemma NoDup_map_on {X Y : Type} (f : X -> Y) (l : list X) :
  (forall a b, In a l -> In b l -> f a = f b -> a = b) -> NoDup l -> NoDup (map f l).
Proof.
  induction l as [|a l IH]; intros Hinj Hnd; cbn [map]; [constructor|].
  inversion Hnd as [|a' l' Hnotin Hnd']; subst. constructor.
  - intros Hin. apply in_map_iff in Hin. destruct Hin as [b [E Hb]].
    assert (b = a) as -> by (apply Hinj; [right; exact Hb|left; reflexivity|exact E]).
    apply Hnotin. exact Hb.
  - apply IH; [|exact Hnd']. intros x y Hx Hy. apply Hinj; right; assumption.
Qed.

Lemma enumerates_bij {X Y : Type} (P : X -> Prop) (Q : Y -> Prop) (f : X -> Y) (g : Y -> X) lP lQ :
  (forall x, P x -> Q (f x)) -> (forall y, Q y -> P (g y)) ->
  (forall x, P x -> g (f x) = x) -> (forall y, Q y -> f (g y) = y) ->
  enumerates P lP -> enumerates Q lQ -> length lP = length lQ.
Proof.
  intros HPQ HQP Hgf Hfg [NP IP] [NQ IQ].
  rewrite <- (map_length f lP). apply Permutation_length. apply NoDup_Permutation.
  - apply NoDup_map_on; [|exact NP]. intros a b Ha Hb E. apply IP in Ha, Hb.
    rewrite <- (Hgf a Ha), <- (Hgf b Hb), E. reflexivity.
  - exact NQ.
  - intros y. rewrite in_map_iff. split.
    + intros [x [<- Hx]]. apply IQ, HPQ, IP, Hx.
    + intros Hy. apply IQ in Hy. exists (g y). split; [apply Hfg, Hy|apply IP, HQP, Hy].
Qed.

(** two enumerations of the same predicate have the same length: "the number of" is well defined *)
Lemma enumerates_length {X : Type} (P Q : X -> Prop) lP lQ :
  (forall x, P x <-> Q x) -> enumerates P lP -> enumerates Q lQ -> length lP = length lQ.
Proof.
  intros H. apply (enumerates_bij P Q (fun x => x) (fun x => x)); try (intros x Hx; apply H; exact Hx); reflexivity.
Qed.

(** the number of concepts is the number of closed extents, and the number of closed intents *)
Lemma concepts_extents_count c l le :
  enumerates (concepts c) l -> enumerates (closedO c) le -> length l = length le.
Proof.
  apply (enumerates_bij (concepts c) (closedO c) fst (fun A => (A, upO c A))).
  - intros [A B] H. exact (concept_closed c A B H).
  - intros A H. exact (closed_concept c A H).
  - intros [A B] (HA & HB & H1 & H2). cbn [fst snd] in *. rewrite H1. reflexivity.
  - reflexivity.
Qed.

Lemma concepts_intents_count c l li :
  enumerates (concepts c) l -> enumerates (closedM c) li -> length l = length li.
Proof.
  apply (enumerates_bij (concepts c) (closedM c) snd (fun B => (upM c B, B))).
  - intros [A B] H. exact (concept_closedM c A B H).
  - intros B H. exact (closedM_concept c B H).
  - intros [A B] (HA & HB & H1 & H2). cbn [fst snd] in *. rewrite H2. reflexivity.
  - reflexivity.
Qed.

(** * B. transposition *)

Lemma wf_transpose c : wf_ctx (transpose c).
Proof.
  unfold wf_ctx, transpose; cbn [rows nG nM]. split; [apply cols_length|].
  unfold cols. apply Forall_forall. intros x Hx. apply in_map_iff in Hx.
  destruct Hx as [m [<- _]]. apply in_range_col.
Qed.

Lemma row_transpose c m : (m < nM c)%nat -> row (transpose c) m = col c m.
Proof. intros H. unfold row, transpose; cbn [rows]. apply nth_cols. exact H. Qed.

Lemma inc_transpose c m g : (g < nG c)%nat -> (m < nM c)%nat -> inc (transpose c) m g = inc c g m.
Proof.
  intros Hg Hm. unfold inc at 1. rewrite row_transpose by exact Hm. rewrite mem_col.
  destruct (Nat.ltb_spec g (nG c)); [reflexivity|lia].
Qed.

Lemma upO_transpose c B : upO (transpose c) B = upM c B.
Proof.
  unfold upO, upM, transpose; cbn [nG nM]. apply up_ext_R.
  intros x y Hx Hy. unfold flipR. apply (inc_transpose c x y Hy Hx).
Qed.

Lemma upM_transpose c A : upM (transpose c) A = upO c A.
Proof.
  unfold upO, upM, transpose; cbn [nG nM]. apply up_ext_R.
  intros x y Hx Hy. unfold flipR. apply (inc_transpose c y x Hx Hy).
Qed.

Lemma clO_transpose c B : clO (transpose c) B = clM c B.
Proof. unfold clO, clM. rewrite upO_transpose, upM_transpose. reflexivity. Qed.

Lemma clM_transpose c A : clM (transpose c) A = clO c A.
Proof. unfold clO, clM. rewrite upO_transpose, upM_transpose. reflexivity. Qed.

Lemma is_concept_transpose c A B : is_concept (transpose c) B A <-> is_concept c A B.
Proof.
  unfold is_concept. rewrite upO_transpose, upM_transpose. unfold transpose; cbn [nG nM]. tauto.
Qed.

Lemma closedO_transpose c B : closedO (transpose c) B <-> closedM c B.
Proof. unfold closedO, closedM. rewrite clO_transpose. unfold transpose; cbn [nG nM]. tauto. Qed.

Lemma closedM_transpose c A : closedM (transpose c) A <-> closedO c A.
Proof. unfold closedO, closedM. rewrite clM_transpose. unfold transpose; cbn [nG nM]. tauto. Qed.

(** covers reversed *)
Lemma covers_transpose c A1 A2 : closedO c A1 -> closedO c A2 ->
  (covers c A1 A2 <-> covers (transpose c) (upO c A2) (upO c A1)).
Proof.
  intros [R1 C1] [R2 C2].
  assert (M1 : closedM c (upO c A1)) by (apply closedM_upO; exact R1).
  assert (M2 : closedM c (upO c A2)) by (apply closedM_upO; exact R2).
  split.
  - intros (_ & _ & [Hs Hne] & Hmin).
    split; [apply closedO_transpose; exact M2|]. split; [apply closedO_transpose; exact M1|]. split.
    + split; [apply up_antitone; exact Hs|]. intros E. apply Hne.
      rewrite <- C1, <- C2. unfold clO. rewrite E. reflexivity.
    + intros F HF S1 S2. apply closedO_transpose in HF. destruct HF as [RF CF].
      destruct (Hmin (upM c F)) as [E|E].
      * apply closed_upM; exact RF.
      * rewrite <- C1. unfold clO. apply up_antitone. exact S2.
      * rewrite <- C2. unfold clO. apply up_antitone. exact S1.
      * right. rewrite <- E. symmetry. exact CF.
      * left. rewrite <- E. symmetry. exact CF.
  - intros (_ & _ & [Hs Hne] & Hmin).
    split; [split; assumption|]. split; [split; assumption|]. split.
    + split.
      * rewrite <- C1, <- C2. unfold clO. apply up_antitone. exact Hs.
      * intros E. apply Hne. rewrite E. reflexivity.
    + intros F [RF CF] S1 S2.
      destruct (Hmin (upO c F)) as [E|E].
      * apply closedO_transpose. apply closedM_upO. exact RF.
      * apply up_antitone. exact S2.
      * apply up_antitone. exact S1.
      * right. rewrite <- CF, <- C2. unfold clO. rewrite E. reflexivity.
      * left. rewrite <- CF, <- C1. unfold clO. rewrite E. reflexivity.
Qed.

(** join and meet exchanged *)
Lemma join_intent c A1 A2 : in_range (nG c) A1 -> in_range (nG c) A2 ->
  upO c (clO c (Z.lor A1 A2)) = Z.land (upO c A1) (upO c A2).
Proof. intros H1 H2. rewrite upO_clO by (apply in_range_lor; assumption). apply up_lor. Qed.

Lemma meet_intent c A1 A2 : closedO c A1 -> closedO c A2 ->
  upO c (Z.land A1 A2) = clM c (Z.lor (upO c A1) (upO c A2)).
Proof.
  intros [R1 C1] [R2 C2].
  assert (E : upM c (Z.lor (upO c A1) (upO c A2)) = Z.land A1 A2).
  { unfold upM. rewrite up_lor. exact (f_equal2 Z.land C1 C2). }
  unfold clM. rewrite E. reflexivity.
Qed.

(** the same two facts read in the transposed context: the intent of the join of two concepts of c
    is the meet (intersection of extents) in the transposed context; the intent of the meet is the
    join (closure of the union of extents) in the transposed context *)
Lemma join_meet_transpose c A1 A2 : closedO c A1 -> closedO c A2 ->
  upO c (clO c (Z.lor A1 A2)) = Z.land (upO c A1) (upO c A2) /\
  upO c (Z.land A1 A2) = clO (transpose c) (Z.lor (upO c A1) (upO c A2)).
Proof.
  intros H1 H2. split.
  - apply join_intent; [apply H1|apply H2].
  - rewrite clO_transpose. apply meet_intent; assumption.
Qed.

Lemma transpose_concept_count c l l' :
  enumerates (concepts c) l -> enumerates (concepts (transpose c)) l' -> length l = length l'.
Proof.
  apply (enumerates_bij (concepts c) (concepts (transpose c))
           (fun p => (snd p, fst p)) (fun p => (snd p, fst p))).
  - intros [A B] H. unfold concepts in *; cbn [fst snd] in *. apply is_concept_transpose. exact H.
  - intros [B A] H. unfold concepts in *; cbn [fst snd] in *. apply is_concept_transpose. exact H.
  - intros [A B] _. reflexivity.
  - intros [A B] _. reflexivity.
Qed.

(** * A. permutation of rows and columns *)

(** ** renaming of positions on bitsets *)

Lemma mem_map_set n finv s i : mem (map_set n finv s) i = ((i <? n)%nat && mem s (finv i)).
Proof. unfold map_set. rewrite mem_of_pred. reflexivity. Qed.

Lemma in_range_map_set n finv s : in_range n (map_set n finv s).
Proof. apply in_range_of_pred. Qed.

Lemma bijection_on_sym n f finv : bijection_on n f finv -> bijection_on n finv f.
Proof. intros [H1 H2]. split; assumption. Qed.

Lemma map_set_inv n f finv a : bijection_on n f finv -> in_range n a ->
  map_set n f (map_set n finv a) = a.
Proof.
  intros [H1 H2] Ha. apply (bitset_ext n); [apply in_range_map_set|exact Ha|].
  intros i Hi. rewrite !mem_map_set. destruct (H1 i Hi) as [Hlt E]. rewrite E.
  destruct (Nat.ltb_spec i n); [|lia]. destruct (Nat.ltb_spec (f i) n); [|lia]. reflexivity.
Qed.

Lemma map_set_inj n f finv a b : bijection_on n f finv -> in_range n a -> in_range n b ->
  map_set n finv a = map_set n finv b -> a = b.
Proof.
  intros Hf Ha Hb E. rewrite <- (map_set_inv n f finv a Hf Ha), <- (map_set_inv n f finv b Hf Hb), E.
  reflexivity.
Qed.

Lemma map_set_lor n finv a b : map_set n finv (Z.lor a b) = Z.lor (map_set n finv a) (map_set n finv b).
Proof.
  apply (bitset_ext n); [apply in_range_map_set|apply in_range_lor; apply in_range_map_set|].
  intros i Hi. rewrite mem_lor, !mem_map_set, mem_lor. destruct (i <? n)%nat; reflexivity.
Qed.

Lemma map_set_land n finv a b : map_set n finv (Z.land a b) = Z.land (map_set n finv a) (map_set n finv b).
Proof.
  apply (bitset_ext n); [apply in_range_map_set|apply in_range_land; apply in_range_map_set|].
  intros i Hi. rewrite mem_land, !mem_map_set, mem_land.
  destruct (i <? n)%nat; [reflexivity|]. cbn [andb]. reflexivity.
Qed.

Lemma subset_map_set n f finv a b : bijection_on n f finv -> in_range n a ->
  (subset a b <-> subset (map_set n finv a) (map_set n finv b)).
Proof.
  intros [H1 H2] Ha. split; intros H i Hi.
  - rewrite mem_map_set in *. apply andb_true_iff in Hi. destruct Hi as [Hlt Hi].
    rewrite Hlt, (H _ Hi). reflexivity.
  - assert (Hlt : (i < n)%nat) by (apply (mem_lt_of_in_range _ _ _ Ha Hi)).
    destruct (H1 i Hlt) as [Hf E]. specialize (H (f i)). rewrite !mem_map_set, E in H.
    destruct (Nat.ltb_spec (f i) n); [|lia]. cbn [andb] in H. apply H. exact Hi.
Qed.

Lemma psubset_map_set n f finv a b : bijection_on n f finv -> in_range n a -> in_range n b ->
  (psubset a b <-> psubset (map_set n finv a) (map_set n finv b)).
Proof.
  intros Hf Ha Hb. unfold psubset. rewrite <- (subset_map_set n f finv a b Hf Ha). split; intros [Hs Hne]; (split; [exact Hs|]).
  - intros E. apply Hne. apply (map_set_inj n f finv a b Hf Ha Hb E).
  - intros E. apply Hne. rewrite E. reflexivity.
Qed.

(** ** derivation under a renaming of both axes *)
Section Rename.
  Variables (nX nY : nat) (f finv g ginv : nat -> nat) (R R' : nat -> nat -> bool).
  Hypothesis Hf : bijection_on nX f finv.
  Hypothesis Hg : bijection_on nY g ginv.
  Hypothesis HR : forall x y, (x < nX)%nat -> (y < nY)%nat -> R' x y = R (finv x) (ginv y).

  Lemma up_rename A : up nX nY R' (map_set nX finv A) = map_set nY ginv (up nX nY R A).
  Proof.
    destruct Hf as [Hf1 Hf2]. destruct Hg as [Hg1 Hg2].
    apply (bitset_ext nY); [apply in_range_up|apply in_range_map_set|].
    intros y Hy. apply bool_eq_iff. rewrite mem_map_set.
    destruct (Nat.ltb_spec y nY) as [_|Hge]; [|lia]. cbn [andb]. rewrite !mem_up.
    destruct (Hg2 y Hy) as [Hgy _].
    split.
    - intros [_ H]. split; [exact Hgy|]. intros x Hx Hm.
      destruct (Hf1 x Hx) as [Hfx E].
      specialize (H (f x) Hfx). rewrite mem_map_set, E, HR, E in H by assumption.
      apply H. destruct (Nat.ltb_spec (f x) nX); [|lia]. exact Hm.
    - intros [_ H]. split; [exact Hy|]. intros x Hx Hm.
      rewrite mem_map_set in Hm. apply andb_true_iff in Hm. destruct Hm as [_ Hm].
      rewrite HR by assumption. apply H; [|exact Hm]. apply Hf2. exact Hx.
  Qed.
End Rename.

(** ** the permuted context *)
Section Perm.
  Variables (c : ctx) (s sinv t tinv : nat -> nat).
  Hypothesis Hs : bijection_on (nG c) s sinv.
  Hypothesis Ht : bijection_on (nM c) t tinv.

  Lemma wf_perm : wf_ctx (perm_ctx c sinv tinv).
  Proof.
    unfold wf_ctx, perm_ctx; cbn [rows nG nM]. split; [rewrite map_length, seq_length; reflexivity|].
    apply Forall_forall. intros x Hx. apply in_map_iff in Hx. destruct Hx as [k [<- _]].
    apply in_range_map_set.
  Qed.

  Lemma row_perm k : (k < nG c)%nat ->
    row (perm_ctx c sinv tinv) k = map_set (nM c) tinv (row c (sinv k)).
  Proof.
    intros Hk. unfold row at 1, perm_ctx; cbn [rows].
    set (F := fun k => map_set (nM c) tinv (row c (sinv k))).
    rewrite (nth_indep _ 0 (F 0%nat)) by (rewrite map_length, seq_length; exact Hk).
    rewrite map_nth, seq_nth by exact Hk. reflexivity.
  Qed.

  Lemma inc_perm k j : (k < nG c)%nat -> (j < nM c)%nat ->
    inc (perm_ctx c sinv tinv) k j = inc c (sinv k) (tinv j).
  Proof.
    intros Hk Hj. unfold inc. rewrite row_perm by exact Hk. rewrite mem_map_set.
    destruct (Nat.ltb_spec j (nM c)); [reflexivity|lia].
  Qed.

  Lemma upO_perm A :
    upO (perm_ctx c sinv tinv) (map_set (nG c) sinv A) = map_set (nM c) tinv (upO c A).
  Proof.
    unfold upO, perm_ctx; cbn [nG nM]. apply (up_rename (nG c) (nM c) s sinv t tinv); try assumption.
    intros x y Hx Hy. apply inc_perm; assumption.
  Qed.

  Lemma upM_perm B :
    upM (perm_ctx c sinv tinv) (map_set (nM c) tinv B) = map_set (nG c) sinv (upM c B).
  Proof.
    unfold upM, perm_ctx; cbn [nG nM]. apply (up_rename (nM c) (nG c) t tinv s sinv); try assumption.
    intros x y Hx Hy. unfold flipR. apply inc_perm; assumption.
  Qed.

  Lemma clO_perm A :
    clO (perm_ctx c sinv tinv) (map_set (nG c) sinv A) = map_set (nG c) sinv (clO c A).
  Proof. unfold clO. rewrite upO_perm, upM_perm. reflexivity. Qed.

  Lemma clM_perm B :
    clM (perm_ctx c sinv tinv) (map_set (nM c) tinv B) = map_set (nM c) tinv (clM c B).
  Proof. unfold clM. rewrite upM_perm, upO_perm. reflexivity. Qed.

  Lemma is_concept_perm A B : in_range (nG c) A -> in_range (nM c) B ->
    (is_concept c A B <-> is_concept (perm_ctx c sinv tinv) (map_set (nG c) sinv A) (map_set (nM c) tinv B)).
  Proof.
    intros HA HB. unfold is_concept. rewrite upO_perm, upM_perm. cbn [perm_ctx nG nM]. split.
    - intros (_ & _ & E1 & E2). split; [apply in_range_map_set|]. split; [apply in_range_map_set|].
      rewrite E1, E2. split; reflexivity.
    - intros (_ & _ & E1 & E2). split; [exact HA|]. split; [exact HB|]. split.
      + apply (map_set_inj (nM c) t tinv); [exact Ht|apply in_range_up|exact HB|exact E1].
      + apply (map_set_inj (nG c) s sinv); [exact Hs|apply in_range_up|exact HA|exact E2].
  Qed.

  Lemma closedO_perm A : in_range (nG c) A ->
    (closedO c A <-> closedO (perm_ctx c sinv tinv) (map_set (nG c) sinv A)).
  Proof.
    intros HA. unfold closedO. rewrite clO_perm. cbn [perm_ctx nG nM]. split.
    - intros [_ E]. split; [apply in_range_map_set|]. rewrite E. reflexivity.
    - intros [_ E]. split; [exact HA|].
      apply (map_set_inj (nG c) s sinv); [exact Hs|apply in_range_up|exact HA|exact E].
  Qed.

  Lemma closedM_perm B : in_range (nM c) B ->
    (closedM c B <-> closedM (perm_ctx c sinv tinv) (map_set (nM c) tinv B)).
  Proof.
    intros HB. unfold closedM. rewrite clM_perm. cbn [perm_ctx nG nM]. split.
    - intros [_ E]. split; [apply in_range_map_set|]. rewrite E. reflexivity.
    - intros [_ E]. split; [exact HB|].
      apply (map_set_inj (nM c) t tinv); [exact Ht|apply in_range_up|exact HB|exact E].
  Qed.

  (** every closed extent / concept of the permuted context is an image *)
  Lemma closedO_perm_surj A' : closedO (perm_ctx c sinv tinv) A' ->
    exists A, closedO c A /\ A' = map_set (nG c) sinv A.
  Proof.
    intros HA'. assert (R' : in_range (nG c) A') by apply HA'.
    exists (map_set (nG c) s A').
    assert (E : map_set (nG c) sinv (map_set (nG c) s A') = A')
      by (apply map_set_inv; [apply bijection_on_sym; exact Hs|exact R']).
    split; [|symmetry; exact E].
    apply closedO_perm; [apply in_range_map_set|]. rewrite E. exact HA'.
  Qed.

  Lemma is_concept_perm_surj A' B' : is_concept (perm_ctx c sinv tinv) A' B' ->
    exists A B, is_concept c A B /\ A' = map_set (nG c) sinv A /\ B' = map_set (nM c) tinv B.
  Proof.
    intros H. assert (RA : in_range (nG c) A') by apply H. assert (RB : in_range (nM c) B') by apply H.
    exists (map_set (nG c) s A'), (map_set (nM c) t B').
    assert (EA : map_set (nG c) sinv (map_set (nG c) s A') = A')
      by (apply map_set_inv; [apply bijection_on_sym; exact Hs|exact RA]).
    assert (EB : map_set (nM c) tinv (map_set (nM c) t B') = B')
      by (apply map_set_inv; [apply bijection_on_sym; exact Ht|exact RB]).
    split; [|split; symmetry; assumption].
    apply is_concept_perm; try apply in_range_map_set. rewrite EA, EB. exact H.
  Qed.

  Lemma covers_perm A E : in_range (nG c) A -> in_range (nG c) E ->
    (covers c A E <-> covers (perm_ctx c sinv tinv) (map_set (nG c) sinv A) (map_set (nG c) sinv E)).
  Proof.
    intros HA HE. unfold covers.
    rewrite <- (closedO_perm A HA), <- (closedO_perm E HE), <- (psubset_map_set (nG c) s sinv A E Hs HA HE).
    split; intros (CA & CE & PS & Hmin); (split; [exact CA|]); (split; [exact CE|]); (split; [exact PS|]).
    - intros F' HF' S1 S2. destruct (closedO_perm_surj F' HF') as [F [CF ->]].
      assert (RF : in_range (nG c) F) by apply CF.
      apply (subset_map_set (nG c) s sinv A F Hs HA) in S1.
      apply (subset_map_set (nG c) s sinv F E Hs RF) in S2.
      destruct (Hmin F CF S1 S2) as [-> | ->]; [left|right]; reflexivity.
    - intros F CF S1 S2. assert (RF : in_range (nG c) F) by apply CF.
      destruct (Hmin (map_set (nG c) sinv F)) as [E1|E1].
      + apply closedO_perm; assumption.
      + apply (subset_map_set (nG c) s sinv A F Hs HA). exact S1.
      + apply (subset_map_set (nG c) s sinv F E Hs RF). exact S2.
      + left. apply (map_set_inj (nG c) s sinv F A Hs RF HA E1).
      + right. apply (map_set_inj (nG c) s sinv F E Hs RF HE E1).
  Qed.

  Lemma join_perm A E :
    clO (perm_ctx c sinv tinv) (Z.lor (map_set (nG c) sinv A) (map_set (nG c) sinv E))
    = map_set (nG c) sinv (clO c (Z.lor A E)).
  Proof. rewrite <- map_set_lor. apply clO_perm. Qed.

  (** property relations *)
  Lemma col_perm j : (j < nM c)%nat ->
    col (perm_ctx c sinv tinv) j = map_set (nG c) sinv (col c (tinv j)).
  Proof.
    intros Hj. apply (bitset_ext (nG c)); [apply (in_range_col (perm_ctx c sinv tinv))|apply in_range_map_set|].
    intros k Hk. rewrite mem_map_set, !mem_col. cbn [perm_ctx nG]. rewrite inc_perm by assumption.
    destruct Hs as [_ Hs2]. destruct (Hs2 k Hk) as [Hlt _].
    destruct (Nat.ltb_spec k (nG c)); [|lia]. destruct (Nat.ltb_spec (sinv k) (nG c)); [|lia]. reflexivity.
  Qed.

  Lemma relation_perm j1 j2 b1 b2 : (j1 < nM c)%nat -> (j2 < nM c)%nat ->
    ((exists k, (k < nG c)%nat /\ mem (col (perm_ctx c sinv tinv) j1) k = b1 /\ mem (col (perm_ctx c sinv tinv) j2) k = b2)
     <-> (exists g, (g < nG c)%nat /\ mem (col c (tinv j1)) g = b1 /\ mem (col c (tinv j2)) g = b2)).
  Proof.
    intros H1 H2. rewrite !col_perm by assumption. destruct Hs as [Hs1 Hs2]. split.
    - intros (k & Hk & E1 & E2). destruct (Hs2 k Hk) as [Hlt _]. exists (sinv k).
      rewrite !mem_map_set in *. destruct (Nat.ltb_spec k (nG c)); [|lia]. cbn [andb] in *. auto.
    - intros (g & Hg & E1 & E2). destruct (Hs1 g Hg) as [Hlt E]. exists (s g).
      rewrite !mem_map_set, E. destruct (Nat.ltb_spec (s g) (nG c)); [|lia]. cbn [andb]. auto.
  Qed.

  Lemma perm_concept_count l l' :
    enumerates (concepts c) l -> enumerates (concepts (perm_ctx c sinv tinv)) l' -> length l = length l'.
  Proof.
    apply (enumerates_bij (concepts c) (concepts (perm_ctx c sinv tinv))
             (fun p => (map_set (nG c) sinv (fst p), map_set (nM c) tinv (snd p)))
             (fun p => (map_set (nG c) s (fst p), map_set (nM c) t (snd p)))).
    - intros [A B] H. unfold concepts in *; cbn [fst snd] in *.
      apply is_concept_perm; [apply H|apply H|exact H].
    - intros [A' B'] H. unfold concepts in *; cbn [fst snd] in *.
      assert (RA : in_range (nG c) A') by apply H. assert (RB : in_range (nM c) B') by apply H.
      apply is_concept_perm; try apply in_range_map_set.
      rewrite (map_set_inv (nG c) sinv s A'), (map_set_inv (nM c) tinv t B');
        [exact H|apply bijection_on_sym; exact Ht|exact RB|apply bijection_on_sym; exact Hs|exact RA].
    - intros [A B] H. unfold concepts in *; cbn [fst snd] in *.
      rewrite (map_set_inv (nG c) s sinv A), (map_set_inv (nM c) t tinv B);
        [reflexivity|exact Ht|apply H|exact Hs|apply H].
    - intros [A' B'] H. unfold concepts in *; cbn [fst snd] in *.
      assert (RA : in_range (nG c) A') by apply H. assert (RB : in_range (nM c) B') by apply H.
      rewrite (map_set_inv (nG c) sinv s A'), (map_set_inv (nM c) tinv t B');
        [reflexivity|apply bijection_on_sym; exact Ht|exact RB|apply bijection_on_sym; exact Hs|exact RA].
  Qed.
End Perm.

(** * C / D. duplication of a row or column, full column *)

(** ** generic: the Y axis gains one element, a copy of [m] (Dup) or an element related to everything (Full) *)
Section Dup.
  Variables (nX nY : nat) (R R' : nat -> nat -> bool) (m : nat).
  Hypothesis Hm : (m < nY)%nat.
  Hypothesis Hlow : forall x y, (x < nX)%nat -> (y < nY)%nat -> R' x y = R x y.
  Hypothesis Htop : forall x, (x < nX)%nat -> R' x nY = R x m.

  Lemma dup_up_low A y : (y < nY)%nat -> mem (up nX (S nY) R' A) y = mem (up nX nY R A) y.
  Proof.
    intros Hy. apply bool_eq_iff. rewrite !mem_up.
    split; intros [_ H]; (split; [lia|]); intros x Hx Hmem.
    - rewrite <- Hlow by assumption. apply H; assumption.
    - rewrite Hlow by assumption. apply H; assumption.
  Qed.

  Lemma dup_up_top A : mem (up nX (S nY) R' A) nY = mem (up nX nY R A) m.
  Proof.
    apply bool_eq_iff. rewrite !mem_up.
    split; intros [_ H]; (split; [lia|]); intros x Hx Hmem.
    - rewrite <- Htop by assumption. apply H; assumption.
    - rewrite Htop by assumption. apply H; assumption.
  Qed.

  Lemma dup_restrict A : Z.land (up nX (S nY) R' A) (ones nY) = up nX nY R A.
  Proof.
    apply (bitset_ext nY); [|apply in_range_up|].
    - rewrite Z.land_comm. apply in_range_land_l; [apply in_range_ones|apply (in_range_up nX (S nY) R' A)].
    - intros y Hy. rewrite mem_land, mem_ones, dup_up_low by exact Hy.
      destruct (Nat.ltb_spec y nY); [|lia]. apply andb_true_r.
  Qed.

  Lemma dup_cl A :
    up (S nY) nX (flipR R') (up nX (S nY) R' A) = up nY nX (flipR R) (up nX nY R A).
  Proof.
    apply (bitset_ext nX); try apply in_range_up.
    intros x Hx. apply bool_eq_iff. rewrite !mem_up. unfold flipR.
    split; intros [_ H]; (split; [exact Hx|]); intros y Hy Hmem.
    - rewrite <- Hlow by assumption. apply H; [lia|]. rewrite dup_up_low by exact Hy. exact Hmem.
    - destruct (Nat.eq_dec y nY) as [->|Hne].
      + rewrite dup_up_top in Hmem. rewrite Htop by exact Hx. apply H; assumption.
      + assert (Hy' : (y < nY)%nat) by lia. rewrite dup_up_low in Hmem by exact Hy'.
        rewrite Hlow by assumption. apply H; assumption.
  Qed.
End Dup.

Section Full.
  Variables (nX nY : nat) (R R' : nat -> nat -> bool).
  Hypothesis Hlow : forall x y, (x < nX)%nat -> (y < nY)%nat -> R' x y = R x y.
  Hypothesis Htop : forall x, (x < nX)%nat -> R' x nY = true.

  Lemma full_up_low A y : (y < nY)%nat -> mem (up nX (S nY) R' A) y = mem (up nX nY R A) y.
  Proof.
    intros Hy. apply bool_eq_iff. rewrite !mem_up.
    split; intros [_ H]; (split; [lia|]); intros x Hx Hmem.
    - rewrite <- Hlow by assumption. apply H; assumption.
    - rewrite Hlow by assumption. apply H; assumption.
  Qed.

  Lemma full_cl A :
    up (S nY) nX (flipR R') (up nX (S nY) R' A) = up nY nX (flipR R) (up nX nY R A).
  Proof.
    apply (bitset_ext nX); try apply in_range_up.
    intros x Hx. apply bool_eq_iff. rewrite !mem_up. unfold flipR.
    split; intros [_ H]; (split; [exact Hx|]); intros y Hy Hmem.
    - rewrite <- Hlow by assumption. apply H; [lia|]. rewrite full_up_low by exact Hy. exact Hmem.
    - destruct (Nat.eq_dec y nY) as [->|Hne].
      + apply Htop. exact Hx.
      + assert (Hy' : (y < nY)%nat) by lia. rewrite full_up_low in Hmem by exact Hy'.
        rewrite Hlow by assumption. apply H; assumption.
  Qed.
End Full.

(** ** D. duplicated column *)
Lemma wf_dup_col c m : wf_ctx c -> wf_ctx (dup_col c m).
Proof.
  intros [Hl Hf]. unfold wf_ctx, dup_col; cbn [rows nG nM]. split; [rewrite map_length; exact Hl|].
  apply Forall_forall. intros x Hx. apply in_map_iff in Hx. destruct Hx as [r [<- Hr]].
  rewrite Forall_forall in Hf. specialize (Hf r Hr).
  assert (in_range (S (nM c)) r) by (apply (in_range_weaken (nM c)); [lia|exact Hf]).
  destruct (mem r m); [|assumption]. apply in_range_lor; [assumption|]. apply in_range_bit. lia.
Qed.

Lemma row_dup_col c m x : (x < nG c)%nat -> wf_ctx c ->
  row (dup_col c m) x = if mem (row c x) m then Z.lor (row c x) (bit (nM c)) else row c x.
Proof.
  intros Hx [Hl _]. unfold row, dup_col; cbn [rows].
  set (F := fun r => if mem r m then Z.lor r (bit (nM c)) else r).
  rewrite (nth_indep _ 0 (F 0)) by (rewrite map_length, Hl; exact Hx).
  rewrite map_nth. reflexivity.
Qed.

Lemma inc_dup_col_low c m x y : wf_ctx c -> (x < nG c)%nat -> (y < nM c)%nat ->
  inc (dup_col c m) x y = inc c x y.
Proof.
  intros Hwf Hx Hy. unfold inc. rewrite row_dup_col by assumption.
  destruct (mem (row c x) m); [|reflexivity].
  rewrite mem_lor, mem_bit. destruct (Nat.eqb_spec (nM c) y); [lia|]. apply orb_false_r.
Qed.

Lemma inc_dup_col_top c m x : wf_ctx c -> (x < nG c)%nat ->
  inc (dup_col c m) x (nM c) = inc c x m.
Proof.
  intros Hwf Hx. unfold inc. rewrite row_dup_col by assumption.
  destruct (mem (row c x) m) eqn:E.
  - rewrite mem_lor, mem_bit, Nat.eqb_refl. apply orb_true_r.
  - destruct (row_in_range c x Hwf) as [_ Hr]. apply Hr. lia.
Qed.

Lemma clO_dup_col c m A : wf_ctx c -> (m < nM c)%nat -> clO (dup_col c m) A = clO c A.
Proof.
  intros Hwf Hm. unfold clO, upO, upM, dup_col; cbn [nG nM]. fold (dup_col c m).
  apply (dup_cl (nG c) (nM c) (inc c) (inc (dup_col c m)) m Hm).
  - intros x y Hx Hy. apply inc_dup_col_low; assumption.
  - intros x Hx. apply inc_dup_col_top; assumption.
Qed.

Lemma closedO_dup_col c m A : wf_ctx c -> (m < nM c)%nat ->
  (closedO (dup_col c m) A <-> closedO c A).
Proof. intros Hwf Hm. unfold closedO. rewrite clO_dup_col by assumption. cbn [dup_col nG]. tauto. Qed.

(** ** D. full column *)
Lemma wf_full_col c : wf_ctx c -> wf_ctx (full_col c).
Proof.
  intros [Hl Hf]. unfold wf_ctx, full_col; cbn [rows nG nM]. split; [rewrite map_length; exact Hl|].
  apply Forall_forall. intros x Hx. apply in_map_iff in Hx. destruct Hx as [r [<- Hr]].
  rewrite Forall_forall in Hf. specialize (Hf r Hr).
  apply in_range_lor; [apply (in_range_weaken (nM c)); [lia|exact Hf]|]. apply in_range_bit. lia.
Qed.

Lemma row_full_col c x : (x < nG c)%nat -> wf_ctx c ->
  row (full_col c) x = Z.lor (row c x) (bit (nM c)).
Proof.
  intros Hx [Hl _]. unfold row, full_col; cbn [rows].
  set (F := fun r => Z.lor r (bit (nM c))).
  rewrite (nth_indep _ 0 (F 0)) by (rewrite map_length, Hl; exact Hx).
  rewrite map_nth. reflexivity.
Qed.

Lemma inc_full_col_low c x y : wf_ctx c -> (x < nG c)%nat -> (y < nM c)%nat ->
  inc (full_col c) x y = inc c x y.
Proof.
  intros Hwf Hx Hy. unfold inc. rewrite row_full_col by assumption.
  rewrite mem_lor, mem_bit. destruct (Nat.eqb_spec (nM c) y); [lia|]. apply orb_false_r.
Qed.

Lemma inc_full_col_top c x : wf_ctx c -> (x < nG c)%nat -> inc (full_col c) x (nM c) = true.
Proof.
  intros Hwf Hx. unfold inc. rewrite row_full_col by assumption.
  rewrite mem_lor, mem_bit, Nat.eqb_refl. apply orb_true_r.
Qed.

Lemma clO_full_col c A : wf_ctx c -> clO (full_col c) A = clO c A.
Proof.
  intros Hwf. unfold clO, upO, upM, full_col; cbn [nG nM]. fold (full_col c).
  apply (full_cl (nG c) (nM c) (inc c) (inc (full_col c))).
  - intros x y Hx Hy. apply inc_full_col_low; assumption.
  - intros x Hx. apply inc_full_col_top; assumption.
Qed.

Lemma closedO_full_col c A : wf_ctx c -> (closedO (full_col c) A <-> closedO c A).
Proof. intros Hwf. unfold closedO. rewrite clO_full_col by assumption. cbn [full_col nG]. tauto. Qed.

(** same number of concepts: the extents determine the concepts *)
Lemma same_extents_concept_count c c' l l' :
  (forall A, closedO c' A <-> closedO c A) ->
  enumerates (concepts c) l -> enumerates (concepts c') l' -> length l = length l'.
Proof.
  intros H.
  apply (enumerates_bij (concepts c) (concepts c')
           (fun p => (fst p, upO c' (fst p))) (fun p => (fst p, upO c (fst p)))).
  - intros [A B] HC. unfold concepts in *; cbn [fst snd] in *.
    apply closed_concept, H. exact (concept_closed c A B HC).
  - intros [A B] HC. unfold concepts in *; cbn [fst snd] in *.
    apply closed_concept, H. exact (concept_closed c' A B HC).
  - intros [A B] (HA & HB & H1 & H2). cbn [fst snd] in *. rewrite H1. reflexivity.
  - intros [A B] (HA & HB & H1 & H2). cbn [fst snd] in *. rewrite H1. reflexivity.
Qed.

Lemma dup_col_concept_count c m l l' : wf_ctx c -> (m < nM c)%nat ->
  enumerates (concepts c) l -> enumerates (concepts (dup_col c m)) l' -> length l = length l'.
Proof. intros Hwf Hm. apply same_extents_concept_count. intros A. apply closedO_dup_col; assumption. Qed.

Lemma full_col_concept_count c l l' : wf_ctx c ->
  enumerates (concepts c) l -> enumerates (concepts (full_col c)) l' -> length l = length l'.
Proof. intros Hwf. apply same_extents_concept_count. intros A. apply closedO_full_col; assumption. Qed.

(** ** C. duplicated row *)
Lemma wf_dup_row c g : wf_ctx c -> wf_ctx (dup_row c g).
Proof.
  intros Hwf. pose proof (row_in_range c g Hwf) as Hg. destruct Hwf as [Hl Hf].
  unfold wf_ctx, dup_row; cbn [rows nG nM]. split; [rewrite app_length, Hl; cbn; lia|].
  apply Forall_app. split; [exact Hf|]. constructor; [exact Hg|constructor].
Qed.

Lemma row_dup_row_low c g x : wf_ctx c -> (x < nG c)%nat -> row (dup_row c g) x = row c x.
Proof.
  intros [Hl _] Hx. unfold row, dup_row; cbn [rows]. apply app_nth1. rewrite Hl. exact Hx.
Qed.

Lemma row_dup_row_top c g : wf_ctx c -> row (dup_row c g) (nG c) = row c g.
Proof.
  intros [Hl _]. unfold row at 1, dup_row; cbn [rows]. rewrite app_nth2 by lia.
  rewrite Hl, Nat.sub_diag. reflexivity.
Qed.

Section DupRow.
  Variables (c : ctx) (g : nat).
  Hypothesis Hwf : wf_ctx c.
  Hypothesis Hg : (g < nG c)%nat.

  Lemma dup_row_low x y : (x < nM c)%nat -> (y < nG c)%nat ->
    flipR (inc (dup_row c g)) x y = flipR (inc c) x y.
  Proof. intros _ Hy. unfold flipR, inc. rewrite row_dup_row_low by assumption. reflexivity. Qed.

  Lemma dup_row_top x : (x < nM c)%nat ->
    flipR (inc (dup_row c g)) x (nG c) = flipR (inc c) x g.
  Proof. intros _. unfold flipR, inc. rewrite row_dup_row_top by assumption. reflexivity. Qed.

  Lemma mem_upM_dup_row_low B y : (y < nG c)%nat ->
    mem (upM (dup_row c g) B) y = mem (upM c B) y.
  Proof.
    intros Hy. unfold upM, dup_row; cbn [nG nM]. fold (dup_row c g).
    apply (dup_up_low (nM c) (nG c) (flipR (inc c)) (flipR (inc (dup_row c g))) g Hg dup_row_low B y Hy).
  Qed.

  Lemma mem_upM_dup_row_top B : mem (upM (dup_row c g) B) (nG c) = mem (upM c B) g.
  Proof.
    unfold upM, dup_row; cbn [nG nM]. fold (dup_row c g).
    apply (dup_up_top (nM c) (nG c) (flipR (inc c)) (flipR (inc (dup_row c g))) g Hg dup_row_top B).
  Qed.

  Lemma restrict_upM_dup_row B : Z.land (upM (dup_row c g) B) (ones (nG c)) = upM c B.
  Proof.
    unfold upM, dup_row; cbn [nG nM]. fold (dup_row c g).
    apply (dup_restrict (nM c) (nG c) (flipR (inc c)) (flipR (inc (dup_row c g))) g Hg dup_row_low B).
  Qed.

  Lemma clM_dup_row B : clM (dup_row c g) B = clM c B.
  Proof.
    unfold clM, upO, upM, dup_row; cbn [nG nM]. fold (dup_row c g).
    exact (dup_cl (nM c) (nG c) (flipR (inc c)) (flipR (inc (dup_row c g))) g Hg dup_row_low dup_row_top B).
  Qed.

  (** family of intents unchanged *)
  Lemma closedM_dup_row B : closedM (dup_row c g) B <-> closedM c B.
  Proof. unfold closedM. rewrite clM_dup_row. cbn [dup_row nM]. tauto. Qed.

  (** bijection between the closed extents *)
  Lemma dup_row_extent_fwd A : closedO c A ->
    closedO (dup_row c g) (upM (dup_row c g) (upO c A)) /\
    Z.land (upM (dup_row c g) (upO c A)) (ones (nG c)) = A.
  Proof.
    intros [RA CA]. split.
    - apply closed_upM. cbn [dup_row nM]. apply in_range_up.
    - rewrite restrict_upM_dup_row. exact CA.
  Qed.

  Lemma dup_row_extent_bwd A' : closedO (dup_row c g) A' ->
    closedO c (Z.land A' (ones (nG c))) /\
    upM (dup_row c g) (upO c (Z.land A' (ones (nG c)))) = A'.
  Proof.
    intros [RA CA]. set (B := upO (dup_row c g) A') in *.
    assert (RB : in_range (nM c) B) by (apply (in_range_upO (dup_row c g))).
    assert (EA : A' = upM (dup_row c g) B) by (symmetry; exact CA).
    rewrite EA at 1 2. rewrite restrict_upM_dup_row. split; [apply closed_upM; exact RB|].
    change (upO c (upM c B)) with (clM c B). rewrite <- clM_dup_row.
    rewrite upM_clM by exact RB. symmetry. exact EA.
  Qed.

  Lemma dup_row_extent_count le le' :
    enumerates (closedO c) le -> enumerates (closedO (dup_row c g)) le' -> length le = length le'.
  Proof.
    apply (enumerates_bij (closedO c) (closedO (dup_row c g))
             (fun A => upM (dup_row c g) (upO c A)) (fun A' => Z.land A' (ones (nG c)))).
    - intros A H. apply dup_row_extent_fwd. exact H.
    - intros A' H. apply dup_row_extent_bwd. exact H.
    - intros A H. apply dup_row_extent_fwd. exact H.
    - intros A' H. apply dup_row_extent_bwd. exact H.
  Qed.

  Lemma dup_row_concept_count l l' :
    enumerates (concepts c) l -> enumerates (concepts (dup_row c g)) l' -> length l = length l'.
  Proof.
    apply (enumerates_bij (concepts c) (concepts (dup_row c g))
             (fun p => (upM (dup_row c g) (snd p), snd p)) (fun p => (upM c (snd p), snd p))).
    - intros [A B] HC. unfold concepts in *; cbn [fst snd] in *.
      apply closedM_concept, closedM_dup_row. exact (concept_closedM c A B HC).
    - intros [A B] HC. unfold concepts in *; cbn [fst snd] in *.
      apply closedM_concept, closedM_dup_row. exact (concept_closedM _ A B HC).
    - intros [A B] (HA & HB & H1 & H2). cbn [fst snd] in *. rewrite H2. reflexivity.
    - intros [A B] (HA & HB & H1 & H2). cbn [fst snd] in *. rewrite H2. reflexivity.
  Qed.
End DupRow.

(** * the number of concepts as a computable quantity
    (a concrete enumeration exists, so the counting statements above are not vacuous) *)

Lemma in_range_bound_pow2 n s : in_range n s -> 0 <= s < 2 ^ Z.of_nat n.
Proof.
  intros [H0 Hr]. split; [exact H0|].
  destruct (Z_lt_le_dec s (2 ^ Z.of_nat n)) as [Hlt|Hge]; [exact Hlt|exfalso].
  assert (Hpos : 0 < s) by (pose proof (Z.pow_pos_nonneg 2 (Z.of_nat n)); lia).
  assert (Hlog : Z.of_nat n <= Z.log2 s) by (apply Z.log2_le_pow2; [exact Hpos|exact Hge]).
  pose proof (Z.bit_log2 s Hpos) as Hb.
  specialize (Hr (Z.to_nat (Z.log2 s)) ltac:(lia)). unfold mem in Hr.
  rewrite Z2Nat.id in Hr by lia. congruence.
Qed.

Definition all_sets (n : nat) : list Z := map Z.of_nat (seq 0 (2 ^ n)).

Lemma In_all_sets n s : In s (all_sets n) <-> in_range n s.
Proof.
  assert (Hp : Z.of_nat (2 ^ n) = 2 ^ Z.of_nat n) by (rewrite Nat2Z.inj_pow; reflexivity).
  unfold all_sets. rewrite in_map_iff. split.
  - intros [k [<- Hk]]. apply in_seq in Hk. apply in_range_of_bound. lia.
  - intros H. apply in_range_bound_pow2 in H. exists (Z.to_nat s). split; [lia|]. apply in_seq. lia.
Qed.

Lemma NoDup_all_sets n : NoDup (all_sets n).
Proof.
  unfold all_sets. apply NoDup_map_on; [|apply seq_NoDup]. intros a b _ _ E. apply Nat2Z.inj. exact E.
Qed.

Definition extents_list (c : ctx) : list Z := filter (fun A => clO c A =? A) (all_sets (nG c)).
Definition concepts_list (c : ctx) : list (Z * Z) := map (fun A => (A, upO c A)) (extents_list c).
Definition num_concepts (c : ctx) : nat := length (concepts_list c).

Lemma extents_list_enumerates c : enumerates (closedO c) (extents_list c).
Proof.
  split; [apply NoDup_filter, NoDup_all_sets|].
  intros A. unfold extents_list, closedO. rewrite filter_In, In_all_sets, Z.eqb_eq. tauto.
Qed.

Lemma concepts_list_enumerates c : enumerates (concepts c) (concepts_list c).
Proof.
  destruct (extents_list_enumerates c) as [Hnd Hin]. split.
  - unfold concepts_list. apply NoDup_map_on; [|exact Hnd]. intros a b _ _ E. congruence.
  - intros [A B]. unfold concepts_list, concepts; cbn [fst snd]. rewrite in_map_iff. split.
    + intros [A0 [E HA0]]. inversion E; subst. apply closed_concept, Hin, HA0.
    + intros H. exists A. split; [|apply Hin; exact (concept_closed c A B H)].
      destruct H as (_ & _ & -> & _). reflexivity.
Qed.

Lemma num_concepts_spec c l : enumerates (concepts c) l -> length l = num_concepts c.
Proof.
  intros H. apply (enumerates_length (concepts c) (concepts c)); [tauto|exact H|apply concepts_list_enumerates].
Qed.

Lemma num_concepts_extents c : num_concepts c = length (extents_list c).
Proof. unfold num_concepts, concepts_list. apply map_length. Qed.

Theorem num_concepts_perm c s sinv t tinv :
  bijection_on (nG c) s sinv -> bijection_on (nM c) t tinv ->
  num_concepts (perm_ctx c sinv tinv) = num_concepts c.
Proof.
  intros Hs Ht. symmetry. apply (perm_concept_count c s sinv t tinv Hs Ht); apply concepts_list_enumerates.
Qed.

Theorem num_concepts_transpose c : num_concepts (transpose c) = num_concepts c.
Proof. symmetry. apply (transpose_concept_count c); apply concepts_list_enumerates. Qed.

Theorem num_concepts_dup_row c g : wf_ctx c -> (g < nG c)%nat ->
  num_concepts (dup_row c g) = num_concepts c.
Proof. intros Hwf Hg. symmetry. apply (dup_row_concept_count c g Hwf Hg); apply concepts_list_enumerates. Qed.

Theorem num_concepts_dup_col c m : wf_ctx c -> (m < nM c)%nat ->
  num_concepts (dup_col c m) = num_concepts c.
Proof. intros Hwf Hm. symmetry. apply (dup_col_concept_count c m _ _ Hwf Hm); apply concepts_list_enumerates. Qed.

Theorem num_concepts_full_col c : wf_ctx c -> num_concepts (full_col c) = num_concepts c.
Proof. intros Hwf. symmetry. apply (full_col_concept_count c _ _ Hwf); apply concepts_list_enumerates. Qed.
