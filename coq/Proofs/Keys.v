(** The sort keys of the lattice ([count], [reinverted], [shortlex], [longlex]) mean what the
    properties say: size first, ties broken by the earliest differing position. *)
From Coq Require Import ZArith List Bool Lia ZifyBool Arith.
From Concepts Require Import Base.Res Base.PyInt Base.BitSet Spec.FCA Spec.Context
  Model.Matrices Model.ContextApi Model.Members Model.Lattice
  Proofs.Matrices Proofs.ContextApi Proofs.LatticeFirst.
Import ListNotations.
Open Scope Z_scope.

(** * 1. count = number of members *)

Lemma length_idx_pos p : forall k, length (idx_pos p k) = pos_count p.
Proof.
  induction p as [q IH|q IH|]; intros k; cbn [idx_pos pos_count length].
  - rewrite IH. reflexivity.
  - apply IH.
  - reflexivity.
Qed.

Lemma count_indexes s : count s = length (indexes s).
Proof. destruct s as [|p|p]; cbn [count indexes length]; try reflexivity. symmetry. apply length_idx_pos. Qed.

Theorem count_members n s : in_range n s -> count s = length (members n s).
Proof. intros Hs. rewrite count_indexes, (indexes_members n s Hs). reflexivity. Qed.

Corollary count_card n s : in_range n s -> count s = card n s.
Proof. apply count_members. Qed.

Lemma count_0 : count 0 = O.
Proof. reflexivity. Qed.

Lemma count_le_range n s : in_range n s -> (count s <= n)%nat.
Proof.
  intros Hs. rewrite (count_members n s Hs). unfold members.
  rewrite <- (seq_length n 0) at 2. generalize (seq 0 n). intros l.
  induction l as [|x l IH]; cbn [filter length]; [lia|]. destruct (mem s x); cbn [length]; lia.
Qed.

(** * 2. strict inclusion strictly increases the count *)

Lemma filter_length_mono {A} (f g : A -> bool) l :
  (forall x, In x l -> f x = true -> g x = true) ->
  (length (filter f l) <= length (filter g l))%nat.
Proof.
  induction l as [|x l IH]; intros H; cbn [filter length]; [lia|].
  assert (IH' : (length (filter f l) <= length (filter g l))%nat).
  { apply IH. intros y Hy. apply H. right. exact Hy. }
  destruct (f x) eqn:Ef.
  - rewrite (H x (or_introl eq_refl) Ef). cbn [length]. lia.
  - destruct (g x); cbn [length]; lia.
Qed.

Lemma filter_length_strict {A} (f g : A -> bool) l w :
  (forall x, In x l -> f x = true -> g x = true) ->
  In w l -> f w = false -> g w = true ->
  (length (filter f l) < length (filter g l))%nat.
Proof.
  induction l as [|x l IH]; intros H Hw Hfw Hgw; [destruct Hw|].
  cbn [filter].
  assert (Hmono : (length (filter f l) <= length (filter g l))%nat).
  { apply filter_length_mono. intros y Hy. apply H. right. exact Hy. }
  destruct Hw as [->|Hw].
  - rewrite Hfw, Hgw. cbn [length]. lia.
  - assert (IH' : (length (filter f l) < length (filter g l))%nat).
    { apply IH; try assumption. intros y Hy. apply H. right. exact Hy. }
    destruct (f x) eqn:Ef.
    + rewrite (H x (or_introl eq_refl) Ef). cbn [length]. lia.
    + destruct (g x); cbn [length]; lia.
Qed.

Lemma forallb_false_witness {A} (f : A -> bool) l :
  forallb f l = false -> exists x, In x l /\ f x = false.
Proof.
  induction l as [|x l IH]; cbn [forallb]; intros H; [discriminate|].
  destruct (f x) eqn:E.
  - cbn [andb] in H. destruct (IH H) as [y [Hy Hf]]. exists y. split; [right; exact Hy|exact Hf].
  - exists x. split; [left; reflexivity|exact E].
Qed.

(** two different in-range sets differ at some position *)
Lemma diff_witness n a b : in_range n a -> in_range n b -> a <> b ->
  exists i, (i < n)%nat /\ mem a i <> mem b i.
Proof.
  intros Ha Hb Hne.
  destruct (forallb (fun i => Bool.eqb (mem a i) (mem b i)) (seq 0 n)) eqn:E.
  - exfalso. apply Hne. apply (bitset_ext n); try assumption.
    intros i Hi. rewrite forallb_forall in E. apply eqb_prop. apply E. apply in_seq. lia.
  - apply forallb_false_witness in E. destruct E as [i [Hi E]]. apply in_seq in Hi.
    exists i. split; [lia|]. intros Heq. rewrite Heq, eqb_reflx in E. discriminate.
Qed.

(** ... and at a least one *)
Lemma least_true (P : nat -> bool) : forall n,
  (exists i, (i < n)%nat /\ P i = true) ->
  exists i, (i < n)%nat /\ P i = true /\ forall j, (j < i)%nat -> P j = false.
Proof.
  induction n as [|n IH]; intros [i [Hi HP]]; [lia|].
  destruct (existsb P (seq 0 n)) eqn:E.
  - apply existsb_exists in E. destruct E as [k [Hk HPk]]. apply in_seq in Hk.
    destruct IH as [m [Hm [HPm Hleast]]]; [exists k; split; [lia|exact HPk]|].
    exists m. split; [lia|]. split; assumption.
  - assert (Hnone : forall j, (j < n)%nat -> P j = false).
    { intros j Hj. destruct (P j) eqn:EP; [|reflexivity].
      assert (existsb P (seq 0 n) = true); [|congruence].
      apply existsb_exists. exists j. split; [apply in_seq; lia|exact EP]. }
    assert (i = n) as ->.
    { destruct (Nat.eq_dec i n); [assumption|]. rewrite Hnone in HP by lia. discriminate. }
    exists n. split; [lia|]. split; assumption.
Qed.

Lemma least_diff n a b : in_range n a -> in_range n b -> a <> b ->
  exists i, (i < n)%nat /\ mem a i <> mem b i /\ forall j, (j < i)%nat -> mem a j = mem b j.
Proof.
  intros Ha Hb Hne.
  destruct (diff_witness n a b Ha Hb Hne) as [i [Hi Hd]].
  destruct (least_true (fun i => negb (Bool.eqb (mem a i) (mem b i))) n) as [m [Hm [HP Hl]]].
  { exists i. split; [exact Hi|]. destruct (mem a i), (mem b i); try reflexivity; congruence. }
  exists m. split; [exact Hm|]. split.
  - intros Heq. rewrite Heq, eqb_reflx in HP. discriminate.
  - intros j Hj. specialize (Hl j Hj). apply negb_false_iff in Hl. apply eqb_prop. exact Hl.
Qed.

Lemma psubset_witness n a b : in_range n a -> in_range n b -> psubset a b ->
  exists i, (i < n)%nat /\ mem a i = false /\ mem b i = true.
Proof.
  intros Ha Hb [Hsub Hne].
  destruct (diff_witness n a b Ha Hb Hne) as [i [Hi Hd]].
  exists i. split; [exact Hi|].
  destruct (mem a i) eqn:E1, (mem b i) eqn:E2; try congruence; auto.
  rewrite (Hsub i E1) in E2. discriminate.
Qed.

Theorem count_subset n a b : in_range n a -> in_range n b -> subset a b -> (count a <= count b)%nat.
Proof.
  intros Ha Hb Hsub. rewrite (count_members n a Ha), (count_members n b Hb). unfold members.
  apply filter_length_mono. intros x _. apply Hsub.
Qed.

Theorem count_psubset n a b : in_range n a -> in_range n b -> psubset a b -> (count a < count b)%nat.
Proof.
  intros Ha Hb Hp. destruct (psubset_witness n a b Ha Hb Hp) as [i [Hi [E1 E2]]].
  rewrite (count_members n a Ha), (count_members n b Hb). unfold members.
  apply (filter_length_strict (mem a) (mem b) (seq 0 n) i); try assumption.
  - intros x _. apply (proj1 Hp).
  - apply in_seq. lia.
Qed.

(** subset with the same count is equality *)
Corollary subset_count_eq n a b : in_range n a -> in_range n b -> subset a b -> count a = count b -> a = b.
Proof.
  intros Ha Hb Hsub Hc. destruct (Z.eq_dec a b) as [E|E]; [exact E|].
  pose proof (count_psubset n a b Ha Hb (conj Hsub E)). lia.
Qed.

(** adding a new element increases the count by one *)
Lemma filter_length_add (f g : nat -> bool) (j : nat) l :
  NoDup l -> In j l -> f j = false -> (forall x, g x = f x || Nat.eqb x j) ->
  length (filter g l) = S (length (filter f l)).
Proof.
  intros Hnd Hin Hfj Hg. induction l as [|x l IH]; [destruct Hin|].
  inversion Hnd as [|x' l' Hnotin Hnd']; subst.
  cbn [filter]. rewrite (Hg x).
  destruct Hin as [->|Hin].
  - rewrite Hfj, Nat.eqb_refl. cbn [orb length]. f_equal.
    f_equal. apply filter_ext_in. intros y Hy. rewrite Hg.
    destruct (Nat.eqb_spec y j) as [->|Hne]; [contradiction|]. apply orb_false_r.
  - destruct (Nat.eqb_spec x j) as [->|Hne]; [contradiction|]. rewrite orb_false_r.
    destruct (f x); cbn [length]; rewrite (IH Hnd' Hin); reflexivity.
Qed.

Theorem count_lor_bit n s j : in_range n s -> (j < n)%nat -> mem s j = false ->
  count (Z.lor s (bit j)) = S (count s).
Proof.
  intros Hs Hj Hm.
  assert (Hs' : in_range n (Z.lor s (bit j))) by (apply in_range_lor; [exact Hs|apply in_range_bit; exact Hj]).
  rewrite (count_members n _ Hs'), (count_members n s Hs). unfold members.
  apply (filter_length_add (mem s) (mem (Z.lor s (bit j))) j).
  - apply seq_NoDup.
  - apply in_seq. lia.
  - exact Hm.
  - intros x. rewrite mem_lor, mem_bit, Nat.eqb_sym. reflexivity.
Qed.

(** * 3. reinverted *)

Theorem mem_reinverted r s j : (j < r)%nat -> mem (reinverted r s) j = negb (mem s (r - 1 - j)).
Proof.
  intros Hj. unfold reinverted. rewrite mem_of_pred.
  destruct (Nat.ltb_spec j r); [reflexivity|lia].
Qed.

Theorem in_range_reinverted r s : in_range r (reinverted r s).
Proof. apply in_range_of_pred. Qed.

Lemma reinverted_nonneg r s : 0 <= reinverted r s.
Proof. apply (in_range_reinverted r s). Qed.

Lemma mem_reinverted_high r s j : (r <= j)%nat -> mem (reinverted r s) j = false.
Proof. intros Hj. apply (in_range_reinverted r s). exact Hj. Qed.

Theorem reinverted_inj r a b : in_range r a -> in_range r b -> reinverted r a = reinverted r b -> a = b.
Proof.
  intros Ha Hb E. apply (bitset_ext r); try assumption.
  intros i Hi.
  assert (H : mem (reinverted r a) (r - 1 - i) = mem (reinverted r b) (r - 1 - i)) by (rewrite E; reflexivity).
  rewrite !mem_reinverted in H by lia.
  replace (r - 1 - (r - 1 - i))%nat with i in H by lia.
  destruct (mem a i), (mem b i); cbn in H; congruence.
Qed.

(** * 5. the keys identify the set; the key order is total on sets *)

Theorem shortlex_inj r a b : in_range r a -> in_range r b -> shortlex r a = shortlex r b -> a = b.
Proof.
  intros Ha Hb E. unfold shortlex in E. injection E as _ E. apply (reinverted_inj r); assumption.
Qed.

Theorem longlex_inj r a b : in_range r a -> in_range r b -> longlex r a = longlex r b -> a = b.
Proof.
  intros Ha Hb E. unfold longlex in E. injection E as _ E. apply (reinverted_inj r); assumption.
Qed.

Theorem shortlex_total r a b : in_range r a -> in_range r b -> a <> b ->
  key_ltb (shortlex r a) (shortlex r b) = true \/ key_ltb (shortlex r b) (shortlex r a) = true.
Proof.
  intros Ha Hb Hne. destruct (key_ltb_total (shortlex r a) (shortlex r b)) as [H|[H|H]]; auto.
  exfalso. apply Hne. apply (shortlex_inj r); assumption.
Qed.

Theorem longlex_total r a b : in_range r a -> in_range r b -> a <> b ->
  key_ltb (longlex r a) (longlex r b) = true \/ key_ltb (longlex r b) (longlex r a) = true.
Proof.
  intros Ha Hb Hne. destruct (key_ltb_total (longlex r a) (longlex r b)) as [H|[H|H]]; auto.
  exfalso. apply Hne. apply (longlex_inj r); assumption.
Qed.

Lemma key_ltb_asym a b : key_ltb a b = true -> key_ltb b a = false.
Proof.
  intros H. destruct (key_ltb b a) eqn:E; [|reflexivity].
  pose proof (key_ltb_trans _ _ _ H E) as H2. rewrite key_ltb_irrefl in H2. discriminate.
Qed.

(** * 6. strict inclusion is respected by shortlex, reversed by longlex *)

Theorem subset_shortlex n a b : in_range n a -> in_range n b -> psubset a b ->
  key_ltb (shortlex n a) (shortlex n b) = true.
Proof.
  intros Ha Hb Hp. pose proof (count_psubset n a b Ha Hb Hp) as Hc.
  unfold key_ltb, shortlex. cbn [fst snd]. lia.
Qed.

Theorem subset_longlex n a b : in_range n a -> in_range n b -> psubset a b ->
  key_ltb (longlex n b) (longlex n a) = true.
Proof.
  intros Ha Hb Hp. pose proof (count_psubset n a b Ha Hb Hp) as Hc.
  unfold key_ltb, longlex. cbn [fst snd]. lia.
Qed.

(** shape of the key comparisons *)
Lemma shortlex_ltb_iff r a b :
  key_ltb (shortlex r a) (shortlex r b) = true <->
  (count a < count b)%nat \/ (count a = count b /\ reinverted r a < reinverted r b).
Proof. unfold key_ltb, shortlex. cbn [fst snd]. lia. Qed.

Lemma longlex_ltb_iff r a b :
  key_ltb (longlex r a) (longlex r b) = true <->
  (count b < count a)%nat \/ (count a = count b /\ reinverted r a < reinverted r b).
Proof. unfold key_ltb, longlex. cbn [fst snd]. lia. Qed.

(** * 4. meaning of the tie-break *)

(** two non-negative integers compare as their highest differing bit *)
Lemma testbit_lt x y k : 0 <= x -> 0 <= y -> 0 <= k ->
  Z.testbit x k = false -> Z.testbit y k = true ->
  (forall j, k < j -> Z.testbit x j = Z.testbit y j) -> x < y.
Proof.
  intros Hx Hy Hk Hxk Hyk Hhi.
  assert (P : 0 < 2 ^ k) by (apply Z.pow_pos_nonneg; lia).
  assert (Hq : x / 2 ^ k / 2 = y / 2 ^ k / 2).
  { rewrite !Z.div_div by lia. replace (2 ^ k * 2) with (2 ^ (k + 1)) by (rewrite Z.pow_add_r by lia; lia).
    apply Z.bits_inj'. intros m Hm. rewrite !Z.div_pow2_bits by lia. apply Hhi. lia. }
  pose proof (Z.testbit_spec' x k Hk) as Bx. pose proof (Z.testbit_spec' y k Hk) as By.
  rewrite Hxk in Bx. rewrite Hyk in By. cbn [Z.b2z] in Bx, By.
  pose proof (Z.div_mod x (2 ^ k)) as Dx. pose proof (Z.div_mod y (2 ^ k)) as Dy.
  pose proof (Z.mod_pos_bound x (2 ^ k) P) as Mx. pose proof (Z.mod_pos_bound y (2 ^ k) P) as My.
  pose proof (Z.div_mod (x / 2 ^ k) 2) as Ex. pose proof (Z.div_mod (y / 2 ^ k) 2) as Ey.
  revert Hq Bx By Dx Dy Mx My Ex Ey.
  generalize (x mod 2 ^ k) (y mod 2 ^ k) (x / 2 ^ k) (y / 2 ^ k). intros rx ry qx qy.
  generalize (qx / 2) (qy / 2) (qx mod 2) (qy mod 2). intros hx hy mx my.
  generalize dependent (2 ^ k). intros p Pp Hq Bx By Dx Dy Mx My Ex Ey.
  assert (qy = qx + 1) by lia. subst qy. nia.
Qed.

Definition lexlt (a b : Z) : Prop :=
  exists i, mem a i = true /\ mem b i = false /\ forall j, (j < i)%nat -> mem a j = mem b j.

Lemma lexlt_reinverted r a b i : in_range r a -> in_range r b ->
  (i < r)%nat -> mem a i = true -> mem b i = false -> (forall j, (j < i)%nat -> mem a j = mem b j) ->
  reinverted r a < reinverted r b.
Proof.
  intros Ha Hb Hi Hai Hbi Hlow.
  apply (testbit_lt _ _ (Z.of_nat (r - 1 - i))); try apply reinverted_nonneg; try lia.
  - change (mem (reinverted r a) (r - 1 - i) = false). rewrite mem_reinverted by lia.
    replace (r - 1 - (r - 1 - i))%nat with i by lia. rewrite Hai. reflexivity.
  - change (mem (reinverted r b) (r - 1 - i) = true). rewrite mem_reinverted by lia.
    replace (r - 1 - (r - 1 - i))%nat with i by lia. rewrite Hbi. reflexivity.
  - intros j Hj. assert (Hj0 : 0 <= j) by lia.
    rewrite <- (Z2Nat.id j Hj0).
    change (mem (reinverted r a) (Z.to_nat j) = mem (reinverted r b) (Z.to_nat j)).
    destruct (Nat.lt_ge_cases (Z.to_nat j) r) as [Hlt|Hge].
    + rewrite !mem_reinverted by exact Hlt. f_equal. apply Hlow. lia.
    + rewrite !mem_reinverted_high by exact Hge. reflexivity.
Qed.

(** ties (equal counts) are broken by position: the set containing the earliest differing
    position comes first.  The equality of counts is not needed for the equivalence itself. *)
Theorem reinverted_lt_iff r a b : in_range r a -> in_range r b -> a <> b ->
  (reinverted r a < reinverted r b <->
   exists i, (i < r)%nat /\ mem a i = true /\ mem b i = false /\ forall j, (j < i)%nat -> mem a j = mem b j).
Proof.
  intros Ha Hb Hne. split.
  - intros Hlt. destruct (least_diff r a b Ha Hb Hne) as [i [Hi [Hd Hlow]]].
    exists i. split; [exact Hi|].
    destruct (mem a i) eqn:E1, (mem b i) eqn:E2; try congruence; auto.
    exfalso.
    assert (reinverted r b < reinverted r a); [|lia].
    apply (lexlt_reinverted r b a i); try assumption.
    intros j Hj. symmetry. apply Hlow. exact Hj.
  - intros [i [Hi [E1 [E2 Hlow]]]]. apply (lexlt_reinverted r a b i); assumption.
Qed.

Theorem reinverted_lt_iff_same_count r a b : in_range r a -> in_range r b -> count a = count b -> a <> b ->
  (reinverted r a < reinverted r b <->
   exists i, (i < r)%nat /\ mem a i = true /\ mem b i = false /\ forall j, (j < i)%nat -> mem a j = mem b j).
Proof. intros Ha Hb _ Hne. apply reinverted_lt_iff; assumption. Qed.

Theorem lexlt_iff_reinverted r a b : in_range r a -> in_range r b ->
  (lexlt a b <-> reinverted r a < reinverted r b).
Proof.
  intros Ha Hb. split.
  - intros [i [E1 [E2 Hlow]]]. apply (lexlt_reinverted r a b i); try assumption.
    apply (mem_lt_of_in_range r a i Ha E1).
  - intros Hlt. assert (Hne : a <> b) by (intros ->; lia).
    apply (reinverted_lt_iff r a b Ha Hb Hne) in Hlt. destruct Hlt as [i [_ H]]. exists i. exact H.
Qed.

(** the complete meaning of the two keys *)
Theorem shortlex_meaning r a b : in_range r a -> in_range r b ->
  (key_ltb (shortlex r a) (shortlex r b) = true <->
   (count a < count b)%nat \/ (count a = count b /\ lexlt a b)).
Proof. intros Ha Hb. rewrite shortlex_ltb_iff, (lexlt_iff_reinverted r a b Ha Hb). reflexivity. Qed.

Theorem longlex_meaning r a b : in_range r a -> in_range r b ->
  (key_ltb (longlex r a) (longlex r b) = true <->
   (count b < count a)%nat \/ (count a = count b /\ lexlt a b)).
Proof. intros Ha Hb. rewrite longlex_ltb_iff, (lexlt_iff_reinverted r a b Ha Hb). reflexivity. Qed.
