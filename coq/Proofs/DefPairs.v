(** Pair-set facts (grids, zip_pairs, conditional folds) used by Proofs/Definition.v *)
From Coq Require Import ZArith List Bool Lia ZifyBool Permutation Arith.
From Concepts Require Import Base.Res Model.Definition Spec.DefSpec Proofs.DefUnique.
Import ListNotations.

Lemma pair_eq_dec (a b : nat * nat) : {a = b} + {a <> b}.
Proof. decide equality; apply Nat.eq_dec. Qed.

Lemma forallb_ext' {A} (f g : A -> bool) l : (forall x, In x l -> f x = g x) -> forallb f l = forallb g l.
Proof.
  induction l as [|x r IH]; cbn; intros H; auto.
  rewrite (H x), IH; auto.
Qed.

Lemma existsb_ext' {A} (f g : A -> bool) l : (forall x, In x l -> f x = g x) -> existsb f l = existsb g l.
Proof.
  induction l as [|x r IH]; cbn; intros H; auto.
  rewrite (H x), IH; auto.
Qed.

(** * NoDup of app / flat_map *)
Lemma NoDup_app_intro {A} (l l' : list A) :
  NoDup l -> NoDup l' -> (forall x, In x l -> ~ In x l') -> NoDup (l ++ l').
Proof.
  induction l as [|a r IH]; cbn; intros H1 H2 H3; auto.
  inversion H1 as [|? ? Ha Hr]; subst. constructor.
  - rewrite in_app_iff. intros [H|H]; auto. apply (H3 a); auto.
  - apply IH; auto.
Qed.

Lemma NoDup_flat_map {A B} (f : A -> list B) l :
  NoDup l -> (forall x, In x l -> NoDup (f x)) ->
  (forall x x' y, In x l -> In x' l -> In y (f x) -> In y (f x') -> x = x') ->
  NoDup (flat_map f l).
Proof.
  induction l as [|a r IH]; cbn; intros H1 H2 H3; [constructor|].
  inversion H1 as [|? ? Ha Hr]; subst. apply NoDup_app_intro.
  - apply H2; auto.
  - apply IH; auto. intros x x' y Hx Hx'. apply H3; auto.
  - intros y Hy Hy'. apply in_flat_map in Hy'. destruct Hy' as [x [Hx Hy']].
    assert (a = x) by (apply (H3 a x y); auto). subst. auto.
Qed.

(** * grids: flat_map over objects x properties of at-most-singleton cells *)
Section Grid.
  Variable h : nat -> nat -> list (nat * nat).
  Hypothesis h_cell : forall o p y, In y (h o p) -> y = (o, p).
  Hypothesis h_nodup : forall o p, NoDup (h o p).

  Definition grid (os ps : list nat) : list (nat * nat) :=
    flat_map (fun o => flat_map (fun p => h o p) ps) os.

  Lemma In_grid os ps o p : In (o, p) (grid os ps) <-> In o os /\ In p ps /\ In (o, p) (h o p).
  Proof.
    unfold grid. rewrite in_flat_map. split.
    - intros [o' [Ho H]]. apply in_flat_map in H. destruct H as [p' [Hp H]].
      pose proof (h_cell _ _ _ H) as E. inversion E; subst. auto.
    - intros [Ho [Hp H]]. exists o. split; auto. apply in_flat_map. eauto.
  Qed.

  Lemma In_grid_fst os ps y : In y (grid os ps) -> In (fst y) os /\ In (snd y) ps.
  Proof. destruct y as [o p]. rewrite In_grid. cbn. tauto. Qed.

  Lemma NoDup_grid os ps : NoDup os -> NoDup ps -> NoDup (grid os ps).
  Proof.
    intros Ho Hp. unfold grid. apply NoDup_flat_map; auto.
    - intros o _. apply NoDup_flat_map; auto.
      intros p p' y _ _ H1 H2. apply h_cell in H1. apply h_cell in H2. congruence.
    - intros o o' y _ _ H1 H2. apply in_flat_map in H1. apply in_flat_map in H2.
      destruct H1 as [p [_ H1]]. destruct H2 as [p' [_ H2]].
      apply h_cell in H1. apply h_cell in H2. congruence.
  Qed.
End Grid.

Lemma cell_pos (b : bool) (o p : nat) y : In y (if b then [(o, p)] else []) -> y = (o, p).
Proof. destruct b; cbn; intuition. Qed.
Lemma cell_neg (b : bool) (o p : nat) y : In y (if b then [] else [(o, p)]) -> y = (o, p).
Proof. destruct b; cbn; intuition. Qed.
Lemma cell_pos_nodup (b : bool) (o p : nat) : NoDup (if b then [(o, p)] else []).
Proof. destruct b; repeat constructor; cbn; auto. Qed.
Lemma cell_neg_nodup (b : bool) (o p : nat) : NoDup (if b then [] else [(o, p)]).
Proof. destruct b; repeat constructor; cbn; auto. Qed.
Lemma In_cell_pos (b : bool) (o p : nat) : In (o, p) (if b then [(o, p)] else []) <-> b = true.
Proof. destruct b; cbn; intuition discriminate. Qed.
Lemma In_cell_neg (b : bool) (o p : nat) : In (o, p) (if b then [] else [(o, p)]) <-> b = false.
Proof. destruct b; cbn; intuition discriminate. Qed.

(** positive grid *)
Lemma In_pgrid (g : nat -> nat -> bool) os ps o p :
  In (o, p) (flat_map (fun o => flat_map (fun p => if g o p then [(o, p)] else []) ps) os)
  <-> In o os /\ In p ps /\ g o p = true.
Proof.
  assert (G : forall o p y, In y ((fun o p => if g o p then [(o, p)] else []) o p) -> y = (o, p))
    by (intros; eapply cell_pos; eauto).
  pose proof (In_grid _ G os ps o p) as E. unfold grid in E. rewrite E, In_cell_pos. tauto.
Qed.

Lemma NoDup_pgrid (g : nat -> nat -> bool) os ps :
  NoDup os -> NoDup ps ->
  NoDup (flat_map (fun o => flat_map (fun p => if g o p then [(o, p)] else []) ps) os).
Proof.
  apply (NoDup_grid (fun o p => if g o p then [(o, p)] else [])).
  - intros; eapply cell_pos; eauto.
  - intros; apply cell_pos_nodup.
Qed.

(** negative grid *)
Lemma In_ngrid (g : nat -> nat -> bool) os ps o p :
  In (o, p) (flat_map (fun o => flat_map (fun p => if g o p then [] else [(o, p)]) ps) os)
  <-> In o os /\ In p ps /\ g o p = false.
Proof.
  assert (G : forall o p y, In y ((fun o p => if g o p then [] else [(o, p)]) o p) -> y = (o, p))
    by (intros; eapply cell_neg; eauto).
  pose proof (In_grid _ G os ps o p) as E. unfold grid in E. rewrite E, In_cell_neg. tauto.
Qed.

Lemma NoDup_ngrid (g : nat -> nat -> bool) os ps :
  NoDup os -> NoDup ps ->
  NoDup (flat_map (fun o => flat_map (fun p => if g o p then [] else [(o, p)]) ps) os).
Proof.
  apply (NoDup_grid (fun o p => if g o p then [] else [(o, p)])).
  - intros; eapply cell_neg; eauto.
  - intros; apply cell_neg_nodup.
Qed.

(** * conditional add/remove fold (set_object / set_property) *)
Section FoldSet.
  Variable g : nat -> bool.
  Variable f : nat -> nat * nat.
  Hypothesis f_inj : forall p q, f p = f q -> p = q.

  Definition fold_set xs l :=
    fold_left (fun acc p => if g p then addp (f p) acc else removep (f p) acc) xs l.

  Lemma In_fold_set xs l y :
    In y (fold_set xs l) <->
    (exists p, In p xs /\ y = f p /\ g p = true) \/ (In y l /\ forall p, In p xs -> y <> f p).
  Proof.
    unfold fold_set. revert l; induction xs as [|p0 r IH]; intros l; cbn [fold_left].
    - split; [intros H; right; split; auto|]. intros [[p [[] _]]|[H _]]; auto.
    - rewrite IH. clear IH. destruct (g p0) eqn:G.
      + rewrite In_addp. split.
        * intros [[p [H1 [H2 H3]]]|[[H1|H1] H2]].
          -- left. exists p. cbn; auto.
          -- destruct (pair_eq_dec y (f p0)) as [E|E].
             ++ left. exists p0. cbn; auto.
             ++ right. split; auto. intros p [<-|Hp]; auto.
          -- left. exists p0. cbn; auto.
        * intros [[p [[<-|H1] [H2 H3]]]|[H1 H2]].
          -- destruct (in_dec Nat.eq_dec p0 r) as [i|n].
             ++ left. exists p0. auto.
             ++ right. split; auto. intros p Hp E. subst y. apply f_inj in E. subst. auto.
          -- left. exists p. auto.
          -- right. split; auto. intros p Hp. apply H2. cbn; auto.
      + rewrite In_removep. split.
        * intros [[p [H1 [H2 H3]]]|[[H1 H1'] H2]].
          -- left. exists p. cbn; auto.
          -- right. split; auto. intros p [<-|Hp]; auto.
        * intros [[p [[<-|H1] [H2 H3]]]|[H1 H2]].
          -- congruence.
          -- left. exists p. auto.
          -- right. repeat split; auto.
             ++ intros E. apply (H2 p0); cbn; auto.
             ++ intros p Hp. apply H2. cbn; auto.
  Qed.

  Lemma NoDup_fold_set xs l : NoDup l -> NoDup (fold_set xs l).
  Proof.
    unfold fold_set. revert l; induction xs as [|p0 r IH]; intros l H; cbn [fold_left]; auto.
    apply IH. destruct (g p0); auto using NoDup_addp, NoDup_removep.
  Qed.
End FoldSet.

(** * fold addp with the identity (union, dedup_pairs) *)
Lemma In_fold_addp_id xs l y :
  In y (fold_left (fun acc x => addp x acc) xs l) <-> In y l \/ In y xs.
Proof.
  rewrite (In_fold_addp (fun x => x)). split.
  - intros [H|[x [H ->]]]; auto.
  - intros [H|H]; eauto.
Qed.

Lemma NoDup_fold_addp_id xs l : NoDup l -> NoDup (fold_left (fun acc x => addp x acc) xs l).
Proof. apply (NoDup_fold_addp (fun x => x)). Qed.

Lemma In_dedup_pairs l y : In y (dedup_pairs l) <-> In y l.
Proof. unfold dedup_pairs. rewrite In_fold_addp_id. cbn. tauto. Qed.

Lemma NoDup_dedup_pairs l : NoDup (dedup_pairs l).
Proof. apply NoDup_fold_addp_id. constructor. Qed.

Lemma memp_dedup_pairs l y : memp y (dedup_pairs l) = memp y l.
Proof. apply memp_ext_In, In_dedup_pairs. Qed.

(** * zip_pairs *)
Lemma In_combine_map {A B} (f : A -> B) ps p b :
  In (p, b) (combine ps (map f ps)) <-> In p ps /\ b = f p.
Proof.
  induction ps as [|q r IH]; cbn; [tauto|].
  rewrite IH. split.
  - intros [E|[H1 H2]]; [inversion E; subst; auto|auto].
  - intros [[->|H] ->]; auto.
Qed.

Lemma In_zip_row (o0 : nat) (ps : list nat) (row : list bool) (o p : nat) :
  In (o, p) (map (fun pb : nat * bool => (o0, fst pb)) (filter (fun pb : nat * bool => snd pb) (combine ps row)))
  <-> o = o0 /\ In (p, true) (combine ps row).
Proof.
  rewrite in_map_iff. split.
  - intros [[q b] [E H]]. cbn in E. inversion E; subst. apply filter_In in H. cbn in H.
    destruct H as [H ->]. auto.
  - intros [-> H]. exists (p, true). split; auto. apply filter_In. auto.
Qed.

Lemma In_zip_pairs_closed os ps bools o p :
  In (o, p) (zip_pairs os ps bools) -> In o os /\ In p ps.
Proof.
  revert bools; induction os as [|o0 r IH]; intros bools; cbn; [tauto|].
  destruct bools as [|row bools']; [cbn; tauto|].
  rewrite in_app_iff, In_zip_row. intros [[-> H]|H].
  - split; auto. eapply in_combine_l; eauto.
  - apply IH in H. tauto.
Qed.

Lemma In_zip_pairs_map (g : nat -> nat -> bool) os ps o p :
  In (o, p) (zip_pairs os ps (map (fun o => map (fun p => g o p) ps) os))
  <-> In o os /\ In p ps /\ g o p = true.
Proof.
  induction os as [|o0 r IH]; cbn [zip_pairs map]; [cbn; tauto|].
  rewrite in_app_iff, In_zip_row, IH, (In_combine_map (fun p => g o0 p)). cbn [In]. split.
  - intros [[-> [H1 H2]]|[H1 [H2 H3]]]; auto.
  - intros [[<-|H1] [H2 H3]]; auto.
Qed.

(** * append_new associativity *)
Lemma append_new_app l a b : append_new l (a ++ b) = append_new (append_new l a) b.
Proof.
  revert l; induction a as [|x r IH]; intros l; cbn; auto.
  destruct (memn x l); apply IH.
Qed.

Lemma append_new_assoc l acc m : append_new l (append_new acc m) = append_new (append_new l acc) m.
Proof.
  revert acc; induction m as [|x r IH]; intros acc; cbn [append_new]; auto.
  rewrite memn_append_new. destruct (memn x acc) eqn:E.
  - rewrite orb_true_r. apply IH.
  - rewrite orb_false_r, IH, append_new_app, append_new_one, memn_append_new, E, orb_false_r.
    destruct (memn x l); reflexivity.
Qed.

Lemma append_new_dedup l m : append_new l (append_new [] m) = append_new l m.
Proof. rewrite append_new_assoc. reflexivity. Qed.

(** * emptiness test *)
Definition is_nil {A} (l : list A) : bool := match l with [] => true | _ => false end.

Lemma is_nil_false {A} (l : list A) : is_nil l = false <-> exists y, In y l.
Proof.
  destruct l as [|a r]; cbn; split; try discriminate; auto.
  - intros [y []].
  - intros _. exists a; auto.
Qed.
