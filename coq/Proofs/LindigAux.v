(** Auxiliary facts for the Lindig enumeration loop: count / shortlex keys, the priority
    queue, the association-list mapping, a finite bound on in-range bitsets. *)
From Coq Require Import ZArith List Bool Lia ZifyBool Arith Sorted Permutation.
From Concepts Require Import Base.Res Base.PyInt Base.BitSet Spec.FCA Spec.Context
  Model.Matrices Model.ContextApi Model.Lindig Model.Members Model.Lattice
  Proofs.Matrices Proofs.ContextApi Proofs.Closure Proofs.LatticeBasics Proofs.LatticeFirst
  Proofs.Covers Proofs.Neighbors.
Import ListNotations.
Open Scope Z_scope.

(** * count = cardinality *)

Lemma idx_pos_length p : forall k, length (idx_pos p k) = pos_count p.
Proof.
  induction p as [q IH|q IH|]; intros k; cbn [idx_pos pos_count length]; [rewrite IH| |]; auto.
Qed.

Lemma count_card n s : in_range n s -> count s = card n s.
Proof.
  intros Hs. unfold card. rewrite <- (indexes_members n s Hs).
  destruct s as [|p|p]; cbn [count indexes length]; try reflexivity.
  symmetry. apply idx_pos_length.
Qed.

Lemma count_psubset n a b : in_range n a -> in_range n b -> psubset a b -> (count a < count b)%nat.
Proof.
  intros Ha Hb H. rewrite (count_card n a Ha), (count_card n b Hb). apply card_psubset; assumption.
Qed.

(** * shortlex keys *)

Lemma mem_reinverted r s j : mem (reinverted r s) j = ((j <? r)%nat && negb (mem s (r - 1 - j))).
Proof. unfold reinverted. apply mem_of_pred. Qed.

Lemma reinverted_inj r a b : in_range r a -> in_range r b -> reinverted r a = reinverted r b -> a = b.
Proof.
  intros Ha Hb E. apply (bitset_ext r); try assumption.
  intros i Hi. assert (H : mem (reinverted r a) (r - 1 - i) = mem (reinverted r b) (r - 1 - i)) by (rewrite E; reflexivity).
  rewrite !mem_reinverted in H. replace (r - 1 - (r - 1 - i))%nat with i in H by lia.
  destruct (Nat.ltb_spec (r - 1 - i) r) as [_|Hge]; [|lia]. cbn in H.
  destruct (mem a i), (mem b i); cbn in H; congruence.
Qed.

Definition klt (n : nat) (a b : Z) : Prop := key_ltb (shortlex n a) (shortlex n b) = true.

Lemma shortlex_inj n a b : in_range n a -> in_range n b -> shortlex n a = shortlex n b -> a = b.
Proof.
  intros Ha Hb E. unfold shortlex in E. injection E as _ E. apply (reinverted_inj n); assumption.
Qed.

Lemma key_ltb_asym a b : key_ltb a b = true -> key_ltb b a = false.
Proof. unfold key_ltb. destruct a, b; cbn. lia. Qed.

Lemma klt_trans n a b d : klt n a b -> klt n b d -> klt n a d.
Proof. unfold klt. apply key_ltb_trans. Qed.

Lemma klt_psubset n a b : in_range n a -> in_range n b -> psubset a b -> klt n a b.
Proof.
  intros Ha Hb H. pose proof (count_psubset n a b Ha Hb H) as Hc.
  unfold klt, key_ltb, shortlex. cbn [fst snd]. lia.
Qed.

Lemma klt_of_not_lt n a b : in_range n a -> in_range n b -> a <> b ->
  key_ltb (shortlex n b) (shortlex n a) = false -> klt n a b.
Proof.
  intros Ha Hb Hne Hf. unfold klt.
  destruct (key_ltb_total (shortlex n a) (shortlex n b)) as [H|[H|H]]; [exact H| |congruence].
  exfalso. apply Hne. apply (shortlex_inj n); assumption.
Qed.

Lemma StronglySorted_snoc {X} (R : X -> X -> Prop) l e :
  StronglySorted R l -> (forall x, In x l -> R x e) -> StronglySorted R (l ++ [e]).
Proof.
  induction 1 as [|x l Hs IH Hf]; intros He; cbn.
  - constructor; constructor.
  - constructor.
    + apply IH. intros y Hy. apply He. right. exact Hy.
    + apply Forall_app. split; [exact Hf|]. constructor; [apply He; left; reflexivity|constructor].
Qed.

(** * the priority queue *)

Lemma pop_min_aux_spec {X} : forall (rest : list (key * X)) best acc b r,
  pop_min_aux best acc rest = (b, r) ->
  (forall x, In x acc -> key_ltb (fst x) (fst best) = false) ->
  Permutation (b :: r) (best :: acc ++ rest) /\ (forall x, In x r -> key_ltb (fst x) (fst b) = false).
Proof.
  induction rest as [|x rest IH]; intros best acc b r H Hacc; cbn [pop_min_aux] in H.
  - injection H as <- <-. rewrite app_nil_r. split; [apply Permutation_refl|exact Hacc].
  - destruct (key_ltb (fst x) (fst best)) eqn:E.
    + destruct (IH x (best :: acc) b r H) as [HP Hmin].
      { intros y [<-|Hy]; [apply key_ltb_asym; exact E|].
        destruct (key_ltb (fst y) (fst x)) eqn:E2; [|reflexivity].
        rewrite <- (Hacc y Hy). symmetry. apply (key_ltb_trans _ (fst x)); assumption. }
      split; [|exact Hmin].
      eapply Permutation_trans; [exact HP|]. cbn [app].
      eapply Permutation_trans; [apply perm_swap|]. apply perm_skip. apply Permutation_middle.
    + destruct (IH best (x :: acc) b r H) as [HP Hmin].
      { intros y [<-|Hy]; [exact E|apply Hacc; exact Hy]. }
      split; [|exact Hmin].
      eapply Permutation_trans; [exact HP|]. cbn [app]. apply perm_skip. apply Permutation_middle.
Qed.

Lemma pop_min_spec {X} (h : list (key * X)) b r :
  pop_min h = Some (b, r) ->
  Permutation (b :: r) h /\ (forall x, In x r -> key_ltb (fst x) (fst b) = false).
Proof.
  destruct h as [|x h]; cbn [pop_min]; [discriminate|]. intros H. injection H as H.
  apply (pop_min_aux_spec h x [] b r H). intros y [].
Qed.

Lemma pop_min_none {X} (h : list (key * X)) : pop_min h = None -> h = [].
Proof. destruct h; cbn; [reflexivity|discriminate]. Qed.

Lemma pop_min_some {X} (h : list (key * X)) : h <> [] -> exists b r, pop_min h = Some (b, r).
Proof.
  destruct h as [|x h]; [congruence|]. intros _. cbn [pop_min].
  destruct (pop_min_aux x [] h) as [b r]. eauto.
Qed.

(** * the mapping *)

Lemma lookup_update m e f q :
  lookup (update m e f) q = if e =? q then option_map f (lookup m q) else lookup m q.
Proof.
  induction m as [|[k v] m IH]; cbn [update lookup].
  - destruct (e =? q); reflexivity.
  - destruct (Z.eqb_spec k e) as [->|Hne]; cbn [lookup].
    + destruct (Z.eqb_spec e q) as [->|Hq]; reflexivity.
    + rewrite IH. destruct (Z.eqb_spec e q) as [->|Hq]; [|reflexivity].
      destruct (Z.eqb_spec k q) as [->|Hkq]; [congruence|reflexivity].
Qed.

Lemma lookup_snoc m k v q :
  lookup (m ++ [(k, v)]) q =
  match lookup m q with Some x => Some x | None => if k =? q then Some v else None end.
Proof.
  induction m as [|[k' v'] m IH]; cbn [app lookup]; [reflexivity|].
  destruct (k' =? q); [reflexivity|exact IH].
Qed.

(** * a finite bound on the number of in-range bitsets *)

Lemma in_range_lt_pow2 n s : in_range n s -> 0 <= s < 2 ^ Z.of_nat n.
Proof.
  intros [H0 Hr]. split; [exact H0|].
  destruct (Z_lt_le_dec s (2 ^ Z.of_nat n)) as [Hlt|Hge]; [exact Hlt|exfalso].
  assert (Hpos : 0 < s) by (pose proof (Z.pow_pos_nonneg 2 (Z.of_nat n)); lia).
  assert (Hlog : Z.of_nat n <= Z.log2 s) by (apply Z.log2_le_pow2; [exact Hpos|exact Hge]).
  pose proof (Z.bit_log2 s Hpos) as Hb.
  specialize (Hr (Z.to_nat (Z.log2 s)) ltac:(lia)). unfold mem in Hr.
  rewrite Z2Nat.id in Hr by lia. congruence.
Qed.

Lemma NoDup_bounded_length (l : list Z) (B : Z) :
  NoDup l -> (forall x, In x l -> 0 <= x < B) -> (length l <= Z.to_nat B)%nat.
Proof.
  intros Hnd Hb.
  rewrite <- (map_length Z.to_nat l), <- (seq_length (Z.to_nat B) 0).
  apply NoDup_incl_length.
  - apply NoDup_map_inj_in; [exact Hnd|]. intros x y Hx Hy E. pose proof (Hb x Hx). pose proof (Hb y Hy). lia.
  - intros y Hy. apply in_map_iff in Hy. destruct Hy as [x [<- Hx]]. apply in_seq. specialize (Hb x Hx). lia.
Qed.
