(** C14 corollaries of the refinement (Proofs/Definition.v) *)
From Coq Require Import ZArith List Bool Lia ZifyBool Permutation Arith.
From Concepts Require Import Base.Res Model.Definition Spec.DefSpec Proofs.DefUnique Proofs.DefPairs Proofs.Definition.
Import ListNotations.

(** transposing twice is the identity (no invariant needed) *)
Theorem transposed_transposed d : d_transposed (d_transposed d) = d.
Proof.
  destruct d as [uo up pairs]. unfold d_transposed. cbn [d_objs d_props d_pairs]. f_equal.
  rewrite map_map. rewrite <- (map_id pairs) at 2. apply map_ext. intros [a b]. reflexivity.
Qed.

Corollary transposed_transposed_obs d : obs_defn (d_transposed (d_transposed d)) = obs_defn d.
Proof. rewrite transposed_transposed. reflexivity. Qed.

Lemma transposed_Inv d : Inv d -> Inv (d_transposed d).
Proof. intros H. pose proof (ref_transposed d 0%nat H) as R. cbn [sstep1] in R. apply R. Qed.

Lemma transposed_cell d o p : memp (o, p) (d_pairs (d_transposed d)) = memp (p, o) (d_pairs d).
Proof. unfold d_transposed. cbn [d_pairs]. apply eq_iff_eq_true. rewrite !memp_In. apply In_map_swap. Qed.

(** inverting twice gives back the same table *)
Lemma inverted_Inv d : Inv d -> Inv (d_inverted d).
Proof. intros H. pose proof (ref_inverted d 0%nat H) as R. cbn [sstep1] in R. apply R. Qed.

Lemma inverted_cell d o p :
  memp (o, p) (d_pairs (d_inverted d)) = memn o (objects_of d) && memn p (properties_of d) && negb (memp (o, p) (d_pairs d)).
Proof.
  unfold d_inverted. cbn [d_pairs]. apply eq_iff_eq_true.
  rewrite memp_In, (In_ngrid (fun o p => memp (o, p) (d_pairs d))), !andb_true_iff, negb_true_iff, !memn_In. tauto.
Qed.

Theorem inverted_inverted_cell d o p :
  Inv d -> memp (o, p) (d_pairs (d_inverted (d_inverted d))) = memp (o, p) (d_pairs d).
Proof.
  intros [Ho [Hp [Hn Hc]]]. rewrite !inverted_cell.
  change (objects_of (d_inverted d)) with (objects_of d). change (properties_of (d_inverted d)) with (properties_of d).
  destruct (memp (o, p) (d_pairs d)) eqn:E.
  - apply memp_In, Hc in E. destruct E as [E1 E2]. apply memn_In in E1, E2. rewrite E1, E2. reflexivity.
  - destruct (memn o (objects_of d)), (memn p (properties_of d)); reflexivity.
Qed.

Theorem inverted_inverted_obs d : Inv d -> obs_defn (d_inverted (d_inverted d)) = obs_defn d.
Proof.
  intros H. unfold obs_defn, bools_of.
  change (objects_of (d_inverted (d_inverted d))) with (objects_of d).
  change (properties_of (d_inverted (d_inverted d))) with (properties_of d).
  f_equal. apply map_ext. intros o. apply map_ext. intros p. apply inverted_inverted_cell; auto.
Qed.

(** Definition( *d) has the observation of d *)
Theorem rebuild_obs d :
  Inv d -> exists d', d_init (objects_of d) (properties_of d) (bools_of d) = Ok d' /\ Inv d' /\ obs_defn d' = obs_defn d.
Proof.
  intros H. pose proof (ref_rebuild d 0%nat H) as R. rewrite init_self in * by auto. cbn [bind sstep1 refines] in R.
  destruct R as [_ [Hs Hi]]. eexists. split; [reflexivity|]. split; auto.
  rewrite <- (sim_obs _ _ Hs). apply abs_obs.
Qed.

(** union / intersection are cell-wise or / and, on appended / filtered axes *)
Theorem union_cells d e ig d' :
  Inv d -> Inv e -> d_union_update d e ig = Ok d' ->
  Inv d' /\
  objects_of d' = append_new (objects_of d) (objects_of e) /\
  properties_of d' = append_new (properties_of d) (properties_of e) /\
  forall o p, memp (o, p) (d_pairs d') = memp (o, p) (d_pairs d) || memp (o, p) (d_pairs e).
Proof.
  intros Hd He E. pose proof (union_core d e ig Hd He) as R. rewrite E in R. cbn [bind] in R.
  destruct (negb ig && s_conflict (abs d) (abs e)); cbn [refines] in R; [contradiction|].
  destruct R as [_ [[H1 [H2 H3]] Hi]]. cbn [s_objs s_props s_cell] in *.
  split; [exact Hi|]. split; [symmetry; exact H1|]. split; [symmetry; exact H2|].
  intros o p. symmetry. apply H3.
Qed.

Theorem intersection_cells d e ig d' :
  Inv d -> Inv e -> d_intersection_update d e ig = Ok d' ->
  Inv d' /\
  objects_of d' = filter (fun x => memn x (objects_of e)) (objects_of d) /\
  properties_of d' = filter (fun x => memn x (properties_of e)) (properties_of d) /\
  forall o p, memp (o, p) (d_pairs d') = memp (o, p) (d_pairs d) && memp (o, p) (d_pairs e).
Proof.
  intros Hd He E. pose proof (intersection_core d e ig Hd He) as R. rewrite E in R. cbn [bind] in R.
  destruct (negb ig && s_conflict (abs d) (abs e)); cbn [refines] in R; [contradiction|].
  destruct R as [_ [[H1 [H2 H3]] Hi]]. cbn [s_objs s_props s_cell] in *.
  split; [exact Hi|]. split; [symmetry; exact H1|]. split; [symmetry; exact H2|].
  intros o p. symmetry. apply H3.
Qed.

(** the only way union / intersection fail: a conflict while not ignoring *)
Theorem union_raises d e ig :
  Inv d -> Inv e ->
  d_union_update d e ig = (if negb ig && s_conflict (abs d) (abs e) then Raise ValueError else d_union_update d e true).
Proof.
  intros Hd He. unfold d_union_update.
  change (match conflicts d e with [] => true | _ :: _ => false end) with (is_nil (conflicts d e)).
  rewrite conflicts_spec, negb_involutive by auto. cbn [negb andb].
  destruct (negb ig && s_conflict (abs d) (abs e)); reflexivity.
Qed.
