(** Fast Close-by-One (Model/Fcbo.v): the generic stack machine [fcbo_loop] over an abstract
    Galois connection enumerates every closed set of the growing side exactly once. *)
From Coq Require Import ZArith List Bool Lia ZifyBool Arith.
From Concepts Require Import Base.Res Base.PyInt Base.BitSet Spec.FCA Spec.Context Model.Fcbo.
Import ListNotations.
Open Scope Z_scope.

(** * list and bit helpers *)

Lemma set_nth_length l j v : length (set_nth l j v) = length l.
Proof.
  revert j; induction l as [|a l IH]; intros j; destruct j; cbn [set_nth length]; auto.
Qed.

Lemma nth_set_nth l j v k : (j < length l)%nat ->
  nth k (set_nth l j v) 0 = if Nat.eqb k j then v else nth k l 0.
Proof.
  revert j k; induction l as [|a l IH]; intros j k Hj; cbn [length] in Hj; [lia|].
  destruct j as [|j]; cbn [set_nth].
  - destruct k; reflexivity.
  - destruct k as [|k]; [reflexivity|]. cbn [nth]. rewrite IH by lia. reflexivity.
Qed.

Lemma bit_pred_ones j : bit j - 1 = ones j.
Proof. reflexivity. Qed.

Lemma truthy_land_bit j y : truthy (Z.land (bit j) y) = mem y j.
Proof.
  assert (Hnn : 0 <= Z.land (bit j) y) by (apply Z.land_nonneg; left; apply bit_nonneg).
  destruct (mem y j) eqn:Hm.
  - apply truthy_true_iff. intros H0.
    assert (mem (Z.land (bit j) y) j = true) as Hc by (rewrite mem_land, mem_bit, Nat.eqb_refl, Hm; reflexivity).
    rewrite H0, mem_0 in Hc. discriminate.
  - apply truthy_false_iff. apply zero_iff_empty; [exact Hnn|].
    intros i. rewrite mem_land, mem_bit. destruct (Nat.eqb_spec j i) as [->|]; [rewrite Hm|]; reflexivity.
Qed.

Lemma filter_all_false {A} (f : A -> bool) l : (forall a, In a l -> f a = false) -> filter f l = [].
Proof.
  induction l as [|a l IH]; intros H; cbn [filter]; [reflexivity|].
  rewrite (H a (or_introl eq_refl)). apply IH. intros b Hb. apply H. right; exact Hb.
Qed.

Lemma filter_rev {A} (f : A -> bool) l : filter f (rev l) = rev (filter f l).
Proof.
  induction l as [|a l IH]; cbn [rev filter]; [reflexivity|].
  rewrite filter_app, IH. cbn [filter]. destruct (f a); cbn [rev]; [reflexivity|apply app_nil_r].
Qed.

Lemma map_flat_map' {A B C} (f : B -> C) (g : A -> list B) l :
  map f (flat_map g l) = flat_map (fun a => map f (g a)) l.
Proof.
  induction l as [|a l IH]; cbn [flat_map map]; [reflexivity|]. rewrite map_app, IH. reflexivity.
Qed.

Lemma flat_map_map' {A B C} (f : A -> B) (g : B -> list C) l :
  flat_map g (map f l) = flat_map (fun a => g (f a)) l.
Proof.
  induction l as [|a l IH]; cbn [flat_map map]; [reflexivity|]. rewrite IH. reflexivity.
Qed.

Lemma flat_map_ext_in {A B} (f g : A -> list B) l :
  (forall a, In a l -> f a = g a) -> flat_map f l = flat_map g l.
Proof.
  induction l as [|a l IH]; intros H; cbn [flat_map]; [reflexivity|].
  rewrite (H a (or_introl eq_refl)), IH; [reflexivity|]. intros b Hb. apply H. right; exact Hb.
Qed.

Lemma NoDup_app' {A} (l1 l2 : list A) :
  NoDup l1 -> NoDup l2 -> (forall a, In a l1 -> In a l2 -> False) -> NoDup (l1 ++ l2).
Proof.
  induction l1 as [|a l1 IH]; intros H1 H2 Hd; cbn [app]; [exact H2|].
  inversion H1 as [|? ? Hn Hnd]; subst. constructor.
  - intros Hin. apply in_app_or in Hin. destruct Hin as [Hin|Hin]; [exact (Hn Hin)|].
    apply (Hd a); [left; reflexivity|exact Hin].
  - apply IH; [exact Hnd|exact H2|]. intros b Hb1 Hb2. apply (Hd b); [right; exact Hb1|exact Hb2].
Qed.

Lemma NoDup_flat_map {A B} (f : A -> list B) l :
  NoDup l -> (forall a, In a l -> NoDup (f a)) ->
  (forall a1 a2 b, In a1 l -> In a2 l -> In b (f a1) -> In b (f a2) -> a1 = a2) ->
  NoDup (flat_map f l).
Proof.
  induction l as [|a l IH]; intros Hnd Hf Hdisj; cbn [flat_map]; [constructor|].
  inversion Hnd as [|? ? Hn Hnd']; subst.
  apply NoDup_app'.
  - apply Hf. left; reflexivity.
  - apply IH; [exact Hnd'| |].
    + intros b Hb. apply Hf. right; exact Hb.
    + intros a1 a2 b H1 H2. apply Hdisj; right; assumption.
  - intros b Hb1 Hb2. apply in_flat_map in Hb2. destruct Hb2 as [a2 [Ha2 Hb2]].
    assert (a = a2) by (apply (Hdisj a a2 b); [left; reflexivity|right; exact Ha2|exact Hb1|exact Hb2]).
    subst a2. exact (Hn Ha2).
Qed.

Lemma NoDup_map_inj {A B} (f : A -> B) l :
  (forall a1 a2, In a1 l -> In a2 l -> f a1 = f a2 -> a1 = a2) -> NoDup l -> NoDup (map f l).
Proof.
  induction l as [|a l IH]; intros Hinj Hnd; cbn [map]; [constructor|].
  inversion Hnd as [|? ? Hn Hnd']; subst. constructor.
  - intros Hin. apply in_map_iff in Hin. destruct Hin as [b [Hb Hin]].
    assert (b = a) by (apply Hinj; [right; exact Hin|left; reflexivity|exact Hb]). subst b. exact (Hn Hin).
  - apply IH; [|exact Hnd']. intros a1 a2 H1 H2. apply Hinj; right; assumption.
Qed.

Lemma least_true (p : nat -> bool) k : p k = true ->
  exists j, p j = true /\ forall i, (i < j)%nat -> p i = false.
Proof.
  induction k as [k IH] using lt_wf_ind. intros Hk.
  destruct (existsb p (seq 0 k)) eqn:E.
  - apply existsb_exists in E. destruct E as [i [Hi Hpi]]. apply in_seq in Hi.
    apply (IH i); [lia|exact Hpi].
  - exists k. split; [exact Hk|]. intros i Hi. destruct (p i) eqn:Hpi; [|reflexivity].
    assert (existsb p (seq 0 k) = true) as Hc; [|congruence].
    apply existsb_exists. exists i. split; [apply in_seq; lia|exact Hpi].
Qed.

Lemma differ_witness n a b : in_range n a -> in_range n b -> subset b a -> a <> b ->
  exists k, mem a k = true /\ mem b k = false.
Proof.
  intros Ha Hb Hsub Hne.
  destruct (existsb (fun i => mem a i && negb (mem b i)) (seq 0 n)) eqn:E.
  - apply existsb_exists in E. destruct E as [i [_ Hi]]. apply andb_prop in Hi. destruct Hi as [H1 H2].
    exists i. split; [exact H1|]. destruct (mem b i); [discriminate|reflexivity].
  - exfalso. apply Hne. apply (subset_antisym n); try assumption.
    intros i Hi. destruct (mem b i) eqn:Hbi; [reflexivity|].
    assert (existsb (fun i => mem a i && negb (mem b i)) (seq 0 n) = true) as Hc; [|congruence].
    apply existsb_exists. exists i. split.
    + apply in_seq. pose proof (mem_lt_of_in_range _ _ _ Ha Hi). lia.
    + rewrite Hi, Hbi. reflexivity.
Qed.

(** * the abstract Galois setting *)
Section Generic.
  Variables (nX n : nat) (R : nat -> nat -> bool).
  Notation upX := (up nX n R).
  Notation upY := (up n nX (flipR R)).

  Definition cl (y : Z) : Z := upX (upY y).
  Definition Dj (y : Z) (j : nat) : Z := cl (Z.lor y (bit j)).
  Definition canon (y : Z) (j : nat) : bool :=
    negb (mem y j) && subsetb (Z.land (Dj y j) (ones j)) y.
  Definition Closed (y : Z) : Prop := in_range n y /\ cl y = y.

  Lemma cl_in_range y : in_range n (cl y).
  Proof. apply in_range_up. Qed.

  Lemma cl_ext y : in_range n y -> subset y (cl y).
  Proof. intros Hy. exact (cl_extensive n nX (flipR R) y Hy). Qed.

  Lemma cl_mono a b : subset a b -> subset (cl a) (cl b).
  Proof. intros H. apply up_antitone, up_antitone, H. Qed.

  Lemma cl_idem y : cl (cl y) = cl y.
  Proof. unfold cl. apply up_cl. apply in_range_up. Qed.

  Lemma upY_cl y : in_range n y -> upY (cl y) = upY y.
  Proof. intros Hy. exact (up_cl n nX (flipR R) y Hy). Qed.

  Lemma Closed_cl y : Closed (cl y).
  Proof. split; [apply cl_in_range|apply cl_idem]. Qed.

  Lemma in_range_lor_bit y j : in_range n y -> (j < n)%nat -> in_range n (Z.lor y (bit j)).
  Proof. intros Hy Hj. apply in_range_lor; [exact Hy|apply in_range_bit; exact Hj]. Qed.

  Lemma Dj_closed y j : Closed (Dj y j).
  Proof. apply Closed_cl. Qed.

  Lemma Dj_sup y j : in_range n y -> (j < n)%nat -> subset y (Dj y j).
  Proof.
    intros Hy Hj i Hi. apply cl_ext; [apply in_range_lor_bit; assumption|].
    rewrite mem_lor, Hi. reflexivity.
  Qed.

  Lemma Dj_mem y j : in_range n y -> (j < n)%nat -> mem (Dj y j) j = true.
  Proof.
    intros Hy Hj. apply cl_ext; [apply in_range_lor_bit; assumption|].
    rewrite mem_lor, mem_bit, Nat.eqb_refl. apply orb_true_r.
  Qed.

  Lemma Dj_mono y y' j : subset y y' -> subset (Dj y j) (Dj y' j).
  Proof.
    intros H. apply cl_mono. intros i Hi. rewrite mem_lor in *.
    apply orb_true_iff in Hi. destruct Hi as [Hi|Hi]; [rewrite (H i Hi)|rewrite Hi, orb_true_r]; reflexivity.
  Qed.

  Lemma Dj_least y j E : Closed E -> subset y E -> mem E j = true -> subset (Dj y j) E.
  Proof.
    intros [HE HcE] Hsub Hj. rewrite <- HcE. apply cl_mono.
    intros i Hi. rewrite mem_lor, mem_bit in Hi. apply orb_true_iff in Hi.
    destruct Hi as [Hi|Hi]; [apply Hsub; exact Hi|]. apply Nat.eqb_eq in Hi. subst i. exact Hj.
  Qed.

  Lemma canon_spec y j :
    canon y j = true <->
    mem y j = false /\ forall i, (i < j)%nat -> mem (Dj y j) i = true -> mem y i = true.
  Proof.
    unfold canon. rewrite andb_true_iff, negb_true_iff.
    assert (Hnn : 0 <= Z.land (Dj y j) (ones j)).
    { apply Z.land_nonneg. left. apply (cl_in_range _). }
    rewrite (subsetb_spec _ _ Hnn). unfold subset.
    split; intros [H1 H2]; (split; [exact H1|]).
    - intros i Hi Hm. apply H2. rewrite mem_land, Hm, mem_ones. apply Nat.ltb_lt in Hi. rewrite Hi. reflexivity.
    - intros i Hi. rewrite mem_land, mem_ones in Hi. apply andb_prop in Hi. destruct Hi as [Hm Hi].
      apply Nat.ltb_lt in Hi. apply H2; assumption.
  Qed.

  (** * the enumeration tree (specification of the emission order) *)
  Fixpoint tree (d : nat) (y : Z) (idx : nat) : list Z :=
    match d with
    | O => []
    | S d' => y :: flat_map (fun j => tree d' (Dj y j) (S j)) (filter (canon y) (seq idx (n - idx)))
    end.

  Lemma in_children y idx j :
    In j (filter (canon y) (seq idx (n - idx))) <-> (idx <= j < n)%nat /\ canon y j = true.
  Proof. rewrite filter_In, in_seq. split; intros [H1 H2]; (split; [lia|exact H2]). Qed.

  Lemma tree_irrel : forall d1 d2 y idx, (n - idx < d1)%nat -> (n - idx < d2)%nat ->
    tree d1 y idx = tree d2 y idx.
  Proof.
    induction d1 as [|d1 IH]; intros d2 y idx H1 H2; [lia|].
    destruct d2 as [|d2]; [lia|]. cbn [tree]. f_equal.
    apply flat_map_ext_in. intros j Hj. apply in_children in Hj. destruct Hj as [Hj _].
    apply IH; lia.
  Qed.

  Lemma tree_sound : forall d y idx E, Closed y -> (idx <= n)%nat -> In E (tree d y idx) ->
    Closed E /\ subset y E /\ (forall i, (i < idx)%nat -> mem E i = true -> mem y i = true).
  Proof.
    induction d as [|d IH]; intros y idx E Hcy Hidx Hin; [destruct Hin|].
    cbn [tree] in Hin. destruct Hin as [<-|Hin].
    - split; [exact Hcy|]. split; [intros i Hi; exact Hi|]. intros i _ Hi; exact Hi.
    - apply in_flat_map in Hin. destruct Hin as [j [Hj Hin]].
      apply in_children in Hj. destruct Hj as [Hj Hcan].
      apply IH in Hin; [|apply Dj_closed|lia]. destruct Hin as [HcE [Hsub Hlow]].
      destruct Hcy as [Hy Hcy].
      apply canon_spec in Hcan. destruct Hcan as [Hnj Hcl].
      split; [exact HcE|]. split.
      + intros i Hi. apply Hsub. apply Dj_sup; [exact Hy|lia|exact Hi].
      + intros i Hi Hm. apply Hcl; [lia|]. apply Hlow; [lia|exact Hm].
  Qed.

  (** inside the subtree of child [j], [j] is the least element outside [y] *)
  Lemma tree_child_first d y j E : Closed y -> (j < n)%nat -> canon y j = true ->
    In E (tree d (Dj y j) (S j)) ->
    mem E j = true /\ mem y j = false /\ forall i, (i < j)%nat -> mem E i = true -> mem y i = true.
  Proof.
    intros [Hy Hcy] Hj Hcan Hin.
    apply tree_sound in Hin; [|apply Dj_closed|lia]. destruct Hin as [_ [Hsub Hlow]].
    apply canon_spec in Hcan. destruct Hcan as [Hnj Hcl].
    split; [apply Hsub, Dj_mem; assumption|]. split; [exact Hnj|].
    intros i Hi Hm. apply Hcl; [exact Hi|]. apply Hlow; [lia|exact Hm].
  Qed.

  Lemma tree_complete : forall d y idx E, Closed y -> (idx <= n)%nat -> (n - idx < d)%nat ->
    Closed E -> subset y E -> (forall i, (i < idx)%nat -> mem E i = true -> mem y i = true) ->
    In E (tree d y idx).
  Proof.
    induction d as [|d IH]; intros y idx E Hcy Hidx Hd HcE Hsub Hlow; [lia|].
    cbn [tree]. destruct (Z.eq_dec E y) as [->|Hne]; [left; reflexivity|right].
    destruct Hcy as [Hy Hcy]. destruct HcE as [HE HcE].
    destruct (differ_witness n E y HE Hy Hsub Hne) as [k [Hk1 Hk2]].
    destruct (least_true (fun i => mem E i && negb (mem y i)) k) as [j [Hj Hmin]].
    { rewrite Hk1, Hk2. reflexivity. }
    apply andb_prop in Hj. destruct Hj as [HjE Hjy]. apply negb_true_iff in Hjy.
    assert (Hjn : (j < n)%nat) by (apply (mem_lt_of_in_range _ _ _ HE HjE)).
    assert (Hmin' : forall i, (i < j)%nat -> mem E i = true -> mem y i = true).
    { intros i Hi Hm. specialize (Hmin i Hi). rewrite Hm in Hmin. cbn [andb] in Hmin.
      apply negb_false_iff in Hmin. exact Hmin. }
    assert (Hidxj : (idx <= j)%nat).
    { destruct (Nat.le_gt_cases idx j) as [H|H]; [exact H|]. rewrite (Hlow j H HjE) in Hjy. discriminate. }
    assert (HDE : subset (Dj y j) E) by (apply Dj_least; [split; assumption|exact Hsub|exact HjE]).
    assert (Hcan : canon y j = true).
    { apply canon_spec. split; [exact Hjy|]. intros i Hi Hm. apply Hmin'; [exact Hi|]. apply HDE. exact Hm. }
    apply in_flat_map. exists j. split; [apply in_children; split; [lia|exact Hcan]|].
    apply IH; [apply Dj_closed|lia|lia|split; assumption|exact HDE|].
    intros i Hi Hm. destruct (Nat.eq_dec i j) as [->|Hne'].
    - apply Dj_mem; assumption.
    - apply Dj_sup; [exact Hy|exact Hjn|]. apply Hmin'; [lia|exact Hm].
  Qed.

  Lemma tree_nodup : forall d y idx, Closed y -> (idx <= n)%nat -> NoDup (tree d y idx).
  Proof.
    induction d as [|d IH]; intros y idx Hcy Hidx; cbn [tree]; [constructor|].
    constructor.
    - intros Hin. apply in_flat_map in Hin. destruct Hin as [j [Hj Hin]].
      apply in_children in Hj. destruct Hj as [Hj Hcan].
      destruct (tree_child_first d y j y Hcy ltac:(lia) Hcan Hin) as [H1 [H2 _]]. congruence.
    - apply NoDup_flat_map.
      + apply NoDup_filter, seq_NoDup.
      + intros j Hj. apply in_children in Hj. apply IH; [apply Dj_closed|lia].
      + intros j1 j2 E Hj1 Hj2 H1 H2.
        apply in_children in Hj1, Hj2. destruct Hj1 as [Hj1 Hc1], Hj2 as [Hj2 Hc2].
        destruct (tree_child_first d y j1 E Hcy ltac:(lia) Hc1 H1) as [A1 [B1 C1]].
        destruct (tree_child_first d y j2 E Hcy ltac:(lia) Hc2 H2) as [A2 [B2 C2]].
        destruct (Nat.lt_trichotomy j1 j2) as [Hlt|[Heq|Hlt]]; [|exact Heq|].
        * rewrite (C2 j1 Hlt A1) in B1. discriminate.
        * rewrite (C1 j2 Hlt A2) in B2. discriminate.
  Qed.

  (** * the stack machine *)
  Definition tree_at (y : Z) (idx : nat) : list Z := tree (S (n - idx)) y idx.
  Definition pairf (y : Z) : Z * Z := (upY y, y).

  Lemma tree_at_unfold y idx : (idx <= n)%nat ->
    tree_at y idx =
      y :: flat_map (fun j => tree_at (Dj y j) (S j)) (filter (canon y) (seq idx (n - idx))).
  Proof.
    intros Hidx. unfold tree_at at 1. cbn [tree]. f_equal.
    apply flat_map_ext_in. intros j Hj. apply in_children in Hj. destruct Hj as [Hj _].
    unfold tree_at. apply tree_irrel; lia.
  Qed.

  Lemma no_children x y idx : Closed y -> x = upY y ->
    Nat.eqb idx n || negb (truthy x) = true -> filter (canon y) (seq idx (n - idx)) = [].
  Proof.
    intros [Hy Hcy] Hx Hex. apply orb_true_iff in Hex. destruct Hex as [Hex|Hex].
    - apply Nat.eqb_eq in Hex. subst idx. rewrite Nat.sub_diag. reflexivity.
    - apply negb_true_iff, truthy_false_iff in Hex.
      assert (Hones : y = ones n).
      { rewrite <- Hcy. unfold cl. rewrite <- Hx, Hex. apply up_0. }
      apply filter_all_false. intros j Hj. apply in_seq in Hj.
      unfold canon. rewrite Hones, mem_ones.
      assert ((j <? n)%nat = true) as -> by (apply Nat.ltb_lt; lia). reflexivity.
  Qed.

  (** * the whole run from the least closed set *)
  Definition result (y0 : Z) : list (Z * Z) := map pairf (tree_at y0 0).

  Theorem fcbo_generic_result y0 : Closed y0 -> (forall B, Closed B -> subset y0 B) ->
    NoDup (result y0) /\ forall A B, In (A, B) (result y0) <-> Closed B /\ A = upY B.
  Proof.
    intros Hc Hleast. unfold result. split.
    - apply NoDup_map_inj; [|apply tree_nodup; [exact Hc|lia]].
      intros a1 a2 _ _ H. unfold pairf in H. injection H as _ H. exact H.
    - intros A B. rewrite in_map_iff. split.
      + intros [y [Hy Hin]]. unfold pairf in Hy. injection Hy as <- <-.
        apply tree_sound in Hin; [|exact Hc|lia]. split; [apply Hin|reflexivity].
      + intros [HB ->]. exists B. split; [reflexivity|].
        apply tree_complete; [exact Hc|lia|lia|exact HB|apply Hleast; exact HB|].
        intros i Hi. lia.
  Qed.

  (** * the machine, given the vectors and the derivation function *)
  Section Machine.
  Variables (vecs : list Z) (primef : Z -> res Z).
  Hypothesis Hvl : length vecs = n.
  Hypothesis Hv : forall j, (j < n)%nat -> nth j vecs 0 = upY (bit j).
  Hypothesis Hp : forall x, in_range nX x -> primef x = Ok (upX x).

  (** * one step of the inner [for] loop *)
  Definition Good (y : Z) (sets : list Z) : Prop :=
    length sets = n /\
    forall j, (j < n)%nat -> 0 <= nth j sets 0 /\ subset (nth j sets 0) (Dj y j).

  Definition mkchild (x y : Z) (j : nat) : (Z * Z) * nat :=
    ((Z.land x (nth j vecs 0), Dj y j), S j).

  Lemma Good_mono y y' sets : subset y y' -> Good y sets -> Good y' sets.
  Proof.
    intros Hsub [Hl Hg]. split; [exact Hl|]. intros j Hj. destruct (Hg j Hj) as [H0 H1].
    split; [exact H0|]. intros i Hi. apply (Dj_mono y y' j Hsub). apply H1. exact Hi.
  Qed.

  Lemma Good_zeros y : Good y (repeat 0 n).
  Proof.
    split; [apply repeat_length|]. intros j Hj.
    assert (nth j (repeat 0 n) 0 = 0) as ->.
    { destruct (nth_in_or_default j (repeat 0 n) 0) as [H|H]; [|exact H]. apply repeat_spec in H. exact H. }
    split; [lia|]. intros i Hi. rewrite mem_0 in Hi. discriminate.
  Qed.

  Lemma child_x y j : in_range n y -> (j < n)%nat ->
    Z.land (upY y) (nth j vecs 0) = upY (Dj y j).
  Proof.
    intros Hy Hj. rewrite (Hv j Hj). unfold Dj. rewrite upY_cl by (apply in_range_lor_bit; assumption).
    symmetry. apply up_lor.
  Qed.

  Lemma inner_step x y sets ch j :
    in_range n y -> x = upY y -> (j < n)%nat -> Good y sets ->
    exists sets',
      fcbo_inner vecs primef x y (sets, ch) j =
        Ok (sets', if canon y j then ch ++ [mkchild x y j] else ch) /\ Good y sets'.
  Proof.
    intros Hy Hx Hj HG. destruct HG as [Hl Hg].
    unfold fcbo_inner. rewrite truthy_land_bit.
    destruct (mem y j) eqn:Hm.
    { exists sets. unfold canon. rewrite Hm. cbn [negb andb]. split; [reflexivity|split; assumption]. }
    rewrite (py_getitem_nth sets j (nth j sets 0)) by (apply nth_error_nth'; lia).
    cbn [bind]. rewrite bit_pred_ones.
    destruct (Hg j Hj) as [Hs0 Hs1].
    set (sj := nth j sets 0) in *.
    destruct (Z.land (Z.land sj (ones j)) y =? Z.land sj (ones j)) eqn:Eprune.
    - rewrite (py_getitem_nth vecs j (nth j vecs 0)) by (apply nth_error_nth'; lia).
      cbn [bind].
      assert (Hjx : Z.land x (nth j vecs 0) = upY (Dj y j)) by (subst x; apply child_x; assumption).
      rewrite Hjx. rewrite Hp by apply in_range_up.
      cbn [bind].
      assert (HD : upX (upY (Dj y j)) = Dj y j) by (apply (cl_idem _)).
      rewrite HD.
      assert (Hc : canon y j = negb (mem y j) && (Z.land (Z.land (Dj y j) (ones j)) y =? Z.land (Dj y j) (ones j)))
        by reflexivity.
      rewrite Hm in Hc. cbn [negb andb] in Hc. rewrite <- Hc.
      destruct (canon y j) eqn:Ecan.
      + exists sets. split; [|split; assumption]. unfold mkchild. rewrite Hjx. reflexivity.
      + exists (set_nth sets j (Dj y j)). split; [reflexivity|]. split; [rewrite set_nth_length; exact Hl|].
        intros k Hk. rewrite nth_set_nth by lia. destruct (Nat.eqb_spec k j) as [->|Hne].
        * split; [apply (cl_in_range _)|intros i Hi; exact Hi].
        * apply Hg; exact Hk.
    - exists sets. split; [|split; assumption]. f_equal. f_equal.
      destruct (canon y j) eqn:Ecan; [|reflexivity]. exfalso.
      apply canon_spec in Ecan. destruct Ecan as [_ Hlow].
      assert (Hsb : subsetb (Z.land sj (ones j)) y = true); [|unfold subsetb in Hsb; congruence].
      apply subsetb_spec; [apply Z.land_nonneg; left; exact Hs0|].
      intros i Hi. rewrite mem_land, mem_ones in Hi. apply andb_prop in Hi. destruct Hi as [Hi1 Hi2].
      apply Nat.ltb_lt in Hi2. apply Hlow; [exact Hi2|]. apply Hs1. exact Hi1.
  Qed.

  Lemma inner_loop x y : in_range n y -> x = upY y ->
    forall js sets ch, (forall j, In j js -> (j < n)%nat) -> Good y sets ->
    exists sets',
      for_fold (fcbo_inner vecs primef x y) js (sets, ch) =
        Ok (sets', ch ++ map (mkchild x y) (filter (canon y) js)) /\ Good y sets'.
  Proof.
    intros Hy Hx. induction js as [|j js IH]; intros sets ch Hjs HG.
    - exists sets. cbn [for_fold filter map]. rewrite app_nil_r. split; [reflexivity|exact HG].
    - cbn [for_fold filter].
      destruct (inner_step x y sets ch j Hy Hx (Hjs j (or_introl eq_refl)) HG) as [sets1 [E1 HG1]].
      rewrite E1. cbn [bind].
      destruct (IH sets1 (if canon y j then ch ++ [mkchild x y j] else ch)
                  (fun k Hk => Hjs k (or_intror Hk)) HG1) as [sets2 [E2 HG2]].
      exists sets2. split; [|exact HG2]. rewrite E2. f_equal. f_equal.
      destruct (canon y j); cbn [map]; [rewrite <- app_assoc|]; reflexivity.
  Qed.

  (** * the stack machine *)
  Definition emit_fr (fr : frame) : list (Z * Z) :=
    let '((x, y), idx, sets) := fr in map pairf (tree_at y idx).
  Definition emits (stack : list frame) : list (Z * Z) := flat_map emit_fr stack.

  Definition valid (fr : frame) : Prop :=
    let '((x, y), idx, sets) := fr in
    Closed y /\ x = upY y /\ (idx <= n)%nat /\ Good y sets.

  Definition toframe (sets : list Z) (ch : (Z * Z) * nat) : frame := (fst ch, snd ch, sets).

  Lemma child_valid x y sets' j : Closed y -> x = upY y -> Good y sets' -> (j < n)%nat ->
    valid (toframe sets' (mkchild x y j)).
  Proof.
    intros [Hy Hcy] Hx HG Hj. unfold toframe, mkchild, valid. cbn [fst snd].
    split; [apply Dj_closed|]. split; [subst x; apply child_x; assumption|]. split; [lia|].
    apply (Good_mono y); [apply Dj_sup; assumption|exact HG].
  Qed.

  Lemma emit_child sets' x y j : emit_fr (toframe sets' (mkchild x y j)) = map pairf (tree_at (Dj y j) (S j)).
  Proof. reflexivity. Qed.

  Lemma emits_app (a b : list frame) : emits (a ++ b) = emits a ++ emits b.
  Proof. apply flat_map_app. Qed.

  Lemma loop_spec : forall fuel stack out, Forall valid stack ->
    fcbo_loop fuel n vecs primef stack out =
      if (length (emits stack) <=? fuel)%nat then Ok (out ++ emits stack) else Raise OutOfFuel.
  Proof.
    induction fuel as [|fuel IH]; intros stack out Hval.
    - destruct stack as [|[[[x y] idx] sets] rest].
      + cbn. rewrite app_nil_r. reflexivity.
      + cbn [fcbo_loop]. unfold emits. cbn [flat_map emit_fr].
        inversion Hval as [|? ? Hv1 Hv2]; subst. destruct Hv1 as [_ [_ [Hidx _]]].
        rewrite (tree_at_unfold y idx Hidx). cbn [map app length]. reflexivity.
    - destruct stack as [|[[[x y] idx] sets] rest].
      + cbn. rewrite app_nil_r. reflexivity.
      + inversion Hval as [|? ? Hv1 Hv2]; subst. destruct Hv1 as [Hcy [Hx [Hidx HG]]].
        cbn [fcbo_loop].
        assert (Hem : emits (@cons frame ((x, y), idx, sets) rest) =
                      (x, y) :: map pairf (flat_map (fun j => tree_at (Dj y j) (S j))
                                             (filter (canon y) (seq idx (n - idx)))) ++ emits rest).
        { unfold emits. cbn [flat_map emit_fr]. rewrite (tree_at_unfold y idx Hidx). cbn [map app].
          unfold pairf at 1. rewrite <- Hx. reflexivity. }
        destruct (Nat.eqb idx n || negb (truthy x)) eqn:Hex.
        * rewrite IH by exact Hv2. rewrite Hem.
          rewrite (no_children x y idx Hcy Hx Hex). cbn [flat_map map app length].
          change (S (length (emits rest)) <=? S fuel)%nat with (length (emits rest) <=? fuel)%nat.
          destruct (length (emits rest) <=? fuel)%nat; [|reflexivity].
          rewrite <- app_assoc. reflexivity.
        * destruct Hcy as [Hy Hcy].
          destruct (inner_loop x y Hy Hx (rev (seq idx (n - idx))) sets []) as [sets' [E HG']].
          { intros j Hj. apply in_rev, in_seq in Hj. lia. }
          { exact HG. }
          rewrite E. cbn [bind app].
          rewrite filter_rev, map_rev, map_rev, rev_involutive.
          pose (chs := @map _ frame (toframe sets')
                         (map (mkchild x y) (filter (canon y) (seq idx (n - idx))))).
          match goal with |- _ = ?rhs =>
            change (fcbo_loop fuel n vecs primef (@app frame chs rest) (out ++ [(x, y)]) = rhs) end.
          assert (Hchv : Forall valid chs).
          { apply Forall_forall. intros fr Hfr. unfold chs in Hfr.
            apply in_map_iff in Hfr. destruct Hfr as [ch [<- Hch]].
            apply in_map_iff in Hch. destruct Hch as [j [<- Hj]].
            apply in_children in Hj.
            apply (child_valid x y sets' j); [split; assumption|exact Hx|exact HG'|lia]. }
          assert (Hche : emits chs = map pairf (flat_map (fun j => tree_at (Dj y j) (S j))
                                             (filter (canon y) (seq idx (n - idx))))).
          { unfold emits, chs. rewrite flat_map_map', flat_map_map', map_flat_map'. reflexivity. }
          rewrite IH by (apply Forall_app; split; assumption).
          rewrite Hem, emits_app, Hche. cbn [length].
          set (L := map pairf _ ++ emits rest).
          change (S (length L) <=? S fuel)%nat with (length L <=? fuel)%nat.
          destruct (length L <=? fuel)%nat; [|reflexivity].
          rewrite <- app_assoc. reflexivity.
  Qed.

  Theorem fcbo_generic_run y0 fuel : Closed y0 ->
    fcbo_loop fuel n vecs primef [((upY y0, y0), O, repeat 0 n)] [] =
      if (length (result y0) <=? fuel)%nat then Ok (result y0) else Raise OutOfFuel.
  Proof.
    intros Hc. rewrite loop_spec.
    - unfold emits. cbn [flat_map emit_fr app]. rewrite app_nil_r. reflexivity.
    - constructor; [|constructor]. cbn [valid].
      split; [exact Hc|]. split; [reflexivity|]. split; [lia|apply Good_zeros].
  Qed.

  End Machine.
End Generic.
