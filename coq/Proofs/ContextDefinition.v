(** Context <-> Definition round trip (remaining clause of property C14).

    Context( *definition) is [context_init (objects_of d) (properties_of d) (map (map VBool) (bools_of d))];
    Context.definition() is [d_init objs props (context_bools c)] where [context_bools c] is
    Context.bools (row g, cell m is [inc c g m]). *)
From Coq Require Import ZArith List Bool Lia ZifyBool Arith.
From Concepts Require Import Base.Res Base.PyInt Base.BitSet Spec.Context Model.Definition Spec.DefSpec
  Model.Validation Proofs.DefUnique Proofs.DefPairs Proofs.Definition Proofs.DefFacts Proofs.Validation.
Import ListNotations.
Open Scope Z_scope.

(** * Context.bools and the triple of an accepted context *)

Definition context_bools (c : ctx) : list (list bool) :=
  map (fun g => map (fun m => inc c g m) (seq 0 (nM c))) (seq 0 (nG c)).

Definition ctx_triple (a : list nat * list nat * ctx) : list nat * list nat * list (list bool) :=
  match a with (objs, props, c) => (objs, props, context_bools c) end.

(** the row integer of a row of booleans (what Context.__init__ computes from a bools row) *)
Definition row_of_bools (l : list bool) : Z := row_int (map VBool l).

(** * list helpers *)

Lemma map_seq_nth {A B} (F : A -> B) (l : list A) (d : A) :
  map (fun i => F (nth i l d)) (seq 0 (length l)) = map F l.
Proof.
  induction l as [|a r IH]; [reflexivity|].
  cbn [length seq map nth]. f_equal.
  rewrite <- seq_shift, map_map. exact IH.
Qed.

Lemma map_seq_shift {B} (f : nat -> B) n : map (fun i => f (S i)) (seq 0 n) = map f (seq 1 n).
Proof. rewrite <- seq_shift, map_map. reflexivity. Qed.

(** position of a name in a list *)
Fixpoint pos (x : nat) (l : list nat) : nat :=
  match l with [] => O | y :: r => if Nat.eqb x y then O else S (pos x r) end.

Lemma map_pos {B} (f : nat -> B) (l : list nat) :
  NoDup l -> map (fun x => f (pos x l)) l = map f (seq 0 (length l)).
Proof.
  revert f. induction l as [|a r IH]; intros f Hn; [reflexivity|].
  inversion Hn as [|? ? Ha Hr]; subst.
  cbn [map length seq pos]. rewrite Nat.eqb_refl. f_equal.
  rewrite <- map_seq_shift, <- (IH (fun i => f (S i)) Hr).
  apply map_ext_in. intros x Hx.
  destruct (Nat.eqb x a) eqn:E; [|reflexivity].
  apply Nat.eqb_eq in E. subst. contradiction.
Qed.

Lemma truthy_VBool_map (l : list bool) : map truthy_val (map VBool l) = l.
Proof. rewrite map_map. cbn [truthy_val]. apply map_id. Qed.

Lemma truthy_VBool_map2 (ll : list (list bool)) : map (map truthy_val) (map (map VBool) ll) = ll.
Proof.
  rewrite map_map. rewrite <- (map_id ll) at 2. apply map_ext. intros l. apply truthy_VBool_map.
Qed.

(** * rows and cells *)

Lemma mem_row_int_nth row m : mem (row_int row) m = truthy_val (nth m row VNone).
Proof.
  rewrite mem_row_int. destruct (nth_error row m) as [v|] eqn:E.
  - rewrite (nth_error_nth row m VNone E). reflexivity.
  - apply nth_error_None in E. rewrite nth_overflow by exact E. reflexivity.
Qed.

Lemma cells_of_row_int row :
  map (fun m => mem (row_int row) m) (seq 0 (length row)) = map truthy_val row.
Proof.
  rewrite <- (map_seq_nth truthy_val row VNone). apply map_ext. intros m. apply mem_row_int_nth.
Qed.

Lemma row_of_bools_cells n r :
  in_range n r -> row_of_bools (map (fun m => mem r m) (seq 0 n)) = r.
Proof.
  intros Hr. unfold row_of_bools.
  assert (Hlen : length (map VBool (map (fun m => mem r m) (seq 0 n))) = n)
    by (rewrite !map_length, seq_length; reflexivity).
  apply (bitset_ext n); [rewrite <- Hlen at 1; apply row_int_in_range|exact Hr|].
  intros i Hi. rewrite mem_row_int.
  rewrite (map_nth_error VBool i (map (fun m => mem r m) (seq 0 n)) (d := mem r i)); [reflexivity|].
  apply (map_nth_error (fun m => mem r m) i (seq 0 n)).
  rewrite (nth_error_nth' (seq 0 n) 0%nat) by (rewrite seq_length; exact Hi).
  rewrite seq_nth by exact Hi. reflexivity.
Qed.

Lemma context_bools_length c : length (context_bools c) = nG c.
Proof. unfold context_bools. rewrite map_length, seq_length. reflexivity. Qed.

Lemma context_bools_shape c : Forall (fun r => length r = nM c) (context_bools c).
Proof.
  apply Forall_forall. intros r Hr. unfold context_bools in Hr. apply in_map_iff in Hr.
  destruct Hr as [g [<- _]]. rewrite map_length, seq_length. reflexivity.
Qed.

Lemma nth_map_seq {B} (f : nat -> B) n i d : (i < n)%nat -> nth i (map f (seq 0 n)) d = f i.
Proof.
  intros H. rewrite (nth_indep _ d (f 0%nat)) by (rewrite map_length, seq_length; exact H).
  rewrite (map_nth f), seq_nth by exact H. reflexivity.
Qed.

Lemma context_bools_nth c g m :
  (g < nG c)%nat -> (m < nM c)%nat -> nth m (nth g (context_bools c) []) false = inc c g m.
Proof.
  intros Hg Hm. unfold context_bools.
  rewrite (nth_map_seq (fun g => map (fun m => inc c g m) (seq 0 (nM c)))) by exact Hg.
  rewrite (nth_map_seq (fun m => inc c g m)) by exact Hm. reflexivity.
Qed.

(** the row integers are determined by the cells *)
Theorem rows_of_context_bools c : wf_ctx c -> rows c = map row_of_bools (context_bools c).
Proof.
  intros [Hlen Hf]. unfold context_bools. rewrite map_map, <- Hlen.
  unfold inc, row.
  rewrite (map_seq_nth (fun r => row_of_bools (map (fun m => mem r m) (seq 0 (nM c)))) (rows c) 0).
  rewrite <- (map_id (rows c)) at 1. apply map_ext_in. intros r Hr.
  symmetry. apply row_of_bools_cells. rewrite Forall_forall in Hf. exact (Hf r Hr).
Qed.

(** a well-formed context is determined by its dimensions and its cells *)
Theorem ctx_ext c1 c2 :
  wf_ctx c1 -> wf_ctx c2 -> nG c1 = nG c2 -> nM c1 = nM c2 ->
  (forall g m, (g < nG c1)%nat -> (m < nM c1)%nat -> inc c1 g m = inc c2 g m) -> c1 = c2.
Proof.
  intros W1 W2 HG HM Hinc.
  assert (Hb : context_bools c1 = context_bools c2).
  { unfold context_bools. rewrite <- HG, <- HM. apply map_ext_in. intros g Hg. apply in_seq in Hg.
    apply map_ext_in. intros m Hm. apply in_seq in Hm. apply Hinc; lia. }
  pose proof (rows_of_context_bools c1 W1) as R1. pose proof (rows_of_context_bools c2 W2) as R2.
  rewrite Hb, <- R2 in R1. destruct c1 as [g1 m1 r1], c2 as [g2 m2 r2]. cbn [nG nM rows] in *. subst. reflexivity.
Qed.

Theorem ctx_eq_of_bools c1 c2 :
  wf_ctx c1 -> wf_ctx c2 -> nM c1 = nM c2 -> context_bools c1 = context_bools c2 -> c1 = c2.
Proof.
  intros W1 W2 HM Hb.
  assert (HG : nG c1 = nG c2) by (rewrite <- (context_bools_length c1), Hb; apply context_bools_length).
  pose proof (rows_of_context_bools c1 W1) as R1. pose proof (rows_of_context_bools c2 W2) as R2.
  rewrite Hb, <- R2 in R1. destruct c1 as [g1 m1 r1], c2 as [g2 m2 r2]. cbn [nG nM rows] in *. subst. reflexivity.
Qed.

(** * the context built by [context_init]: its cells are the truth values of the given cells *)

Lemma context_bools_mk no np (bools : list (list pyval)) :
  length bools = no -> Forall (fun b => length b = np) bools ->
  context_bools (mkCtx no np (map row_int bools)) = map (map truthy_val) bools.
Proof.
  intros Hlen Hshape. unfold context_bools, inc, row. cbn [nG nM rows]. rewrite <- Hlen.
  rewrite <- (map_length row_int bools).
  rewrite (map_seq_nth (fun r => map (fun m => mem r m) (seq 0 np)) (map row_int bools) 0).
  rewrite map_map. apply map_ext_in. intros b Hb.
  rewrite Forall_forall in Hshape. rewrite <- (Hshape b Hb). apply cells_of_row_int.
Qed.

Theorem context_init_bools objs props bools o p c :
  context_init objs props bools = Ok (o, p, c) -> context_bools c = map (map truthy_val) bools.
Proof.
  intros H. apply context_init_iff in H. destruct H as [Hok Hr]. injection Hr as -> -> ->.
  destruct Hok as (_ & _ & _ & _ & _ & Hlen & Hshape). apply context_bools_mk; assumption.
Qed.

(** * Definition(objects, properties, bools) on a rectangular table of duplicate-free names *)

Lemma d_init_NoDup os ps bs :
  NoDup os -> NoDup ps ->
  d_init os ps bs = Ok (mkD (mkU os os) (mkU ps ps) (dedup_pairs (zip_pairs os ps bs))).
Proof.
  intros Ho Hp. rewrite d_init_spec.
  rewrite (append_new_self_NoDup [] os), (append_new_self_NoDup [] ps) by (cbn [app]; assumption).
  cbn [app]. rewrite !Nat.eqb_refl. cbn [negb].
  rewrite !u_new_NoDup by assumption. reflexivity.
Qed.

Lemma d_init_grid (g : nat -> nat -> bool) os ps :
  NoDup os -> NoDup ps ->
  exists d, d_init os ps (map (fun o => map (fun p => g o p) ps) os) = Ok d /\ Inv d /\
            obs_defn d = (os, ps, map (fun o => map (fun p => g o p) ps) os).
Proof.
  intros Ho Hp. eexists. split; [apply d_init_NoDup; assumption|]. split.
  - eapply d_init_Inv. apply d_init_NoDup; assumption.
  - unfold obs_defn, bools_of, objects_of, properties_of. cbn [d_objs d_props d_pairs u_items].
    f_equal. apply map_ext_in. intros o Hin. apply map_ext_in. intros p Hip.
    rewrite memp_dedup_pairs. apply eq_iff_eq_true. rewrite memp_In, (In_zip_pairs_map g). tauto.
Qed.

(** every rectangular table over duplicate-free names is such a grid *)
Lemma grid_of_seq (f : nat -> nat -> bool) os ps :
  NoDup os -> NoDup ps ->
  map (fun o => map (fun p => f (pos o os) (pos p ps)) ps) os =
  map (fun g => map (fun m => f g m) (seq 0 (length ps))) (seq 0 (length os)).
Proof.
  intros Ho Hp.
  rewrite <- (map_pos (fun g => map (fun m => f g m) (seq 0 (length ps))) os Ho).
  apply map_ext. intros o. apply (map_pos (fun m => f (pos o os) m) ps Hp).
Qed.

(** * Target 1: Definition -> Context *)

Theorem definition_to_context d :
  Inv d -> objects_of d <> [] -> properties_of d <> [] ->
  (forall x, In x (objects_of d) -> ~ In x (properties_of d)) ->
  exists c, context_init (objects_of d) (properties_of d) (map (map VBool) (bools_of d))
              = Ok (objects_of d, properties_of d, c)
            /\ wf_ctx c /\ context_bools c = bools_of d.
Proof.
  intros HI Ho Hp Hdis. pose proof HI as [[No _] [[Np _] _]].
  destruct (bools_shape d) as [Hlen Hshape].
  assert (E : context_init (objects_of d) (properties_of d) (map (map VBool) (bools_of d)) =
              Ok (objects_of d, properties_of d,
                  mkCtx (length (objects_of d)) (length (properties_of d))
                        (map row_int (map (map VBool) (bools_of d))))).
  { apply context_init_iff. split; [|reflexivity].
    repeat split; try assumption.
    - rewrite map_length. exact Hlen.
    - apply Forall_forall. intros b Hb. apply in_map_iff in Hb. destruct Hb as [r [<- Hr]].
      rewrite map_length. rewrite Forall_forall in Hshape. exact (Hshape r Hr). }
  eexists. split; [exact E|]. split.
  - destruct (context_init_faithful _ _ _ _ _ _ E) as (_ & _ & _ & _ & W & _). exact W.
  - rewrite (context_init_bools _ _ _ _ _ _ E). apply truthy_VBool_map2.
Qed.

(** a Definition need not be a valid Context: empty axis or overlapping names *)
Theorem definition_to_context_raises d :
  (objects_of d = [] \/ properties_of d = [] \/ exists x, In x (objects_of d) /\ In x (properties_of d)) ->
  context_init (objects_of d) (properties_of d) (map (map VBool) (bools_of d)) = Raise ValueError.
Proof.
  intros H. apply context_init_raises. intros (Ho & Hp & _ & _ & Hdis & _).
  destruct H as [H|[H|[x [H1 H2]]]]; [contradiction|contradiction|exact (Hdis x H1 H2)].
Qed.

(** under the invariant this is an equivalence: accepted iff both axes non-empty and disjoint *)
Theorem definition_to_context_iff d :
  Inv d ->
  ((exists r, context_init (objects_of d) (properties_of d) (map (map VBool) (bools_of d)) = Ok r) <->
   objects_of d <> [] /\ properties_of d <> [] /\ (forall x, In x (objects_of d) -> ~ In x (properties_of d))).
Proof.
  intros HI. split.
  - intros [r H]. apply context_init_iff in H. tauto.
  - intros (Ho & Hp & Hdis). destruct (definition_to_context d HI Ho Hp Hdis) as [c [E _]]. eauto.
Qed.

(** * Target 2: Context -> Definition *)

Theorem context_to_definition objs props bools c :
  context_init objs props bools = Ok (objs, props, c) ->
  exists d, d_init objs props (context_bools c) = Ok d /\ Inv d /\
            obs_defn d = (objs, props, context_bools c) /\
            context_bools c = map (map truthy_val) bools.
Proof.
  intros H. pose proof (context_init_bools _ _ _ _ _ _ H) as Hb.
  destruct (context_init_faithful _ _ _ _ _ _ H) as (_ & _ & HG & HM & _ & _).
  apply context_init_iff in H. destruct H as [(_ & _ & No & Np & _) _].
  assert (Hgrid : context_bools c =
                  map (fun o => map (fun p => inc c (pos o objs) (pos p props)) props) objs).
  { rewrite (grid_of_seq (inc c) objs props No Np). unfold context_bools. rewrite HG, HM. reflexivity. }
  destruct (d_init_grid (fun o p => inc c (pos o objs) (pos p props)) objs props No Np) as [d [E [HI Hobs]]].
  rewrite <- Hgrid in E, Hobs. exists d. split; [exact E|]. split; [exact HI|]. split; [exact Hobs|exact Hb].
Qed.

(** * Target 3: the two round trips *)

Theorem round_trip_definition d :
  Inv d -> objects_of d <> [] -> properties_of d <> [] ->
  (forall x, In x (objects_of d) -> ~ In x (properties_of d)) ->
  exists c d',
    context_init (objects_of d) (properties_of d) (map (map VBool) (bools_of d))
      = Ok (objects_of d, properties_of d, c) /\
    d_init (objects_of d) (properties_of d) (context_bools c) = Ok d' /\
    Inv d' /\ obs_defn d' = obs_defn d.
Proof.
  intros HI Ho Hp Hdis. destruct (definition_to_context d HI Ho Hp Hdis) as [c [E [_ Hb]]].
  destruct (rebuild_obs d HI) as [d' [E' [HI' Hobs]]].
  exists c, d'. rewrite Hb. split; [exact E|]. split; [exact E'|]. split; [exact HI'|exact Hobs].
Qed.

Theorem round_trip_context objs props bools c :
  context_init objs props bools = Ok (objs, props, c) ->
  exists d c',
    d_init objs props (context_bools c) = Ok d /\ Inv d /\
    context_init (objects_of d) (properties_of d) (map (map VBool) (bools_of d)) = Ok (objs, props, c') /\
    context_bools c' = context_bools c /\ rows c' = rows c /\ c' = c.
Proof.
  intros H. destruct (context_to_definition _ _ _ _ H) as [d [E [HI [Hobs _]]]].
  unfold obs_defn in Hobs. injection Hobs as Ho Hp Hb.
  destruct (context_init_faithful _ _ _ _ _ _ H) as (_ & _ & HG & HM & W & _).
  pose proof H as H0. apply context_init_iff in H0. destruct H0 as [(Ne & Npe & _ & _ & Hdis & _) _].
  assert (Ne' : objects_of d <> []) by (rewrite Ho; exact Ne).
  assert (Npe' : properties_of d <> []) by (rewrite Hp; exact Npe).
  assert (Hdis' : forall x, In x (objects_of d) -> ~ In x (properties_of d)) by (rewrite Ho, Hp; exact Hdis).
  destruct (definition_to_context d HI Ne' Npe' Hdis') as [c' [E' [W' Hb']]].
  destruct (context_init_faithful _ _ _ _ _ _ E') as (_ & _ & HG' & HM' & _ & _).
  rewrite Ho, Hp in E'. rewrite Hb in Hb'.
  assert (Hc : c' = c).
  { apply ctx_eq_of_bools; try assumption. rewrite HM', HM, Hp. reflexivity. }
  exists d, c'. split; [exact E|]. split; [exact HI|]. split; [rewrite Ho, Hp; exact E'|]. split; [exact Hb'|]. split; [rewrite Hc; reflexivity|exact Hc].
Qed.

(** * Target 4: two accepted contexts are equal exactly when their triples are equal *)

Theorem ctx_eq_iff_triples o1 p1 c1 o2 p2 c2 :
  wf_ctx c1 -> wf_ctx c2 -> nM c1 = length p1 -> nM c2 = length p2 ->
  (ctx_triple (o1, p1, c1) = ctx_triple (o2, p2, c2) <-> o1 = o2 /\ p1 = p2 /\ c1 = c2).
Proof.
  intros W1 W2 M1 M2. unfold ctx_triple. split.
  - intros H. injection H as Ho Hp Hb. split; [exact Ho|]. split; [exact Hp|].
    apply ctx_eq_of_bools; try assumption. rewrite M1, M2, Hp. reflexivity.
  - intros (-> & -> & ->). reflexivity.
Qed.

Theorem context_eq_iff_triples o1 p1 b1 c1 o2 p2 b2 c2 :
  context_init o1 p1 b1 = Ok (o1, p1, c1) -> context_init o2 p2 b2 = Ok (o2, p2, c2) ->
  ((o1, p1, context_bools c1) = (o2, p2, context_bools c2) <-> o1 = o2 /\ p1 = p2 /\ c1 = c2).
Proof.
  intros H1 H2.
  destruct (context_init_faithful _ _ _ _ _ _ H1) as (_ & _ & _ & M1 & W1 & _).
  destruct (context_init_faithful _ _ _ _ _ _ H2) as (_ & _ & _ & M2 & W2 & _).
  exact (ctx_eq_iff_triples o1 p1 c1 o2 p2 c2 W1 W2 M1 M2).
Qed.

(** in terms of the constructor arguments: two accepted calls give equal contexts exactly when the
    names agree and the cells have the same truth values *)
Theorem context_eq_iff_args o1 p1 b1 c1 o2 p2 b2 c2 :
  context_init o1 p1 b1 = Ok (o1, p1, c1) -> context_init o2 p2 b2 = Ok (o2, p2, c2) ->
  (o1 = o2 /\ p1 = p2 /\ c1 = c2 <->
   o1 = o2 /\ p1 = p2 /\ map (map truthy_val) b1 = map (map truthy_val) b2).
Proof.
  intros H1 H2. rewrite <- (context_eq_iff_triples _ _ _ _ _ _ _ _ H1 H2).
  rewrite (context_init_bools _ _ _ _ _ _ H1), (context_init_bools _ _ _ _ _ _ H2).
  split.
  - intros H. injection H as -> -> ->. auto.
  - intros (-> & -> & ->). reflexivity.
Qed.

(** witness *)
Example context_definition_witness :
  let objs := [0; 1; 2]%nat in let props := [10; 11]%nat in
  let bools := [[VBool true; VInt 0]; [VNone; VStr 7]; [VInt 5; VBool false]] in
  exists c d,
    context_init objs props bools = Ok (objs, props, c) /\
    context_bools c = [[true; false]; [false; true]; [true; false]] /\
    d_init objs props (context_bools c) = Ok d /\
    obs_defn d = (objs, props, context_bools c) /\
    context_init (objects_of d) (properties_of d) (map (map VBool) (bools_of d)) = Ok (objs, props, c).
Proof. eexists. eexists. vm_compute. repeat split; reflexivity. Qed.
