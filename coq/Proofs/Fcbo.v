(** C04: fast_generate_from and fcbo_dual enumerate exactly the concepts, each once, and terminate.
    Instances of the generic theorem of Proofs/FcboGeneric.v. *)
From Coq Require Import ZArith List Bool Lia ZifyBool Arith.
From Concepts Require Import Base.Res Base.PyInt Base.BitSet Spec.FCA Spec.Context
  Model.Matrices Model.ContextApi Model.Fcbo
  Proofs.Matrices Proofs.ContextApi Proofs.Closure Proofs.FcboGeneric.
Import ListNotations.
Open Scope Z_scope.

(** * the vectors are the derivations of the atoms *)
Lemma col_upM c j : (j < nM c)%nat -> col c j = upM c (bit j).
Proof.
  intros Hj. apply (bitset_ext (nG c)); [apply in_range_col|apply in_range_upM|].
  intros g Hg. rewrite mem_col.
  assert ((g <? nG c)%nat = true) as -> by (apply Nat.ltb_lt; exact Hg). cbn [andb].
  destruct (inc c g j) eqn:E.
  - symmetry. apply mem_up. split; [exact Hg|]. intros m Hm Hb.
    rewrite mem_bit in Hb. apply Nat.eqb_eq in Hb. subst m. unfold flipR. exact E.
  - destruct (mem (upM c (bit j)) g) eqn:E2; [|reflexivity].
    apply mem_up in E2. destruct E2 as [_ E2]. specialize (E2 j Hj).
    rewrite mem_bit, Nat.eqb_refl in E2. unfold flipR in E2. rewrite E2 in E by reflexivity. discriminate.
Qed.

Lemma row_upO c g : wf_ctx c -> (g < nG c)%nat -> row c g = upO c (bit g).
Proof.
  intros Hwf Hg. apply (bitset_ext (nM c)); [apply row_in_range; exact Hwf|apply in_range_upO|].
  intros m Hm. change (mem (row c g) m) with (inc c g m).
  destruct (inc c g m) eqn:E.
  - symmetry. apply mem_up. split; [exact Hm|]. intros g' Hg' Hb.
    rewrite mem_bit in Hb. apply Nat.eqb_eq in Hb. subst g'. exact E.
  - destruct (mem (upO c (bit g)) m) eqn:E2; [|reflexivity].
    apply mem_up in E2. destruct E2 as [_ E2]. specialize (E2 g Hg).
    rewrite mem_bit, Nat.eqb_refl in E2. rewrite E2 in E by reflexivity. discriminate.
Qed.

Lemma if_leb_ok {A} (k fuel : nat) (r l : A) :
  (if (k <=? fuel)%nat then Ok r else Raise OutOfFuel) = Ok l -> l = r.
Proof. destruct (k <=? fuel)%nat; intros H; [injection H as <-; reflexivity|discriminate]. Qed.

(** * primal: x = extent, y = intent *)
Section Primal.
  Variables (c : ctx) (dfuel : nat).
  Hypothesis Hwf : wf_ctx c.
  Hypothesis Hdf : (Nat.max (nG c) (nM c) <= dfuel)%nat.

  Let y0 := upO c (ones (nG c)).
  Let resP := result (nG c) (nM c) (inc c) y0.

  Lemma primal_vecs j : (j < nM c)%nat -> nth j (cols c) 0 = up (nM c) (nG c) (flipR (inc c)) (bit j).
  Proof. intros Hj. rewrite nth_cols by exact Hj. apply col_upM. exact Hj. Qed.

  Lemma primal_prime x : in_range (nG c) x ->
    objects_prime dfuel (relation_new c) x = Ok (up (nG c) (nM c) (inc c) x).
  Proof.
    intros Hx. apply (primeO_spec dfuel c x Hwf Hx).
    pose proof (bits_size_le _ _ Hx). lia.
  Qed.

  Lemma primal_closed0 : Closed (nG c) (nM c) (inc c) y0.
  Proof.
    split; [apply in_range_up|]. unfold cl, y0, upO. apply up_cl. apply in_range_ones.
  Qed.

  Lemma primal_least B : Closed (nG c) (nM c) (inc c) B -> subset y0 B.
  Proof.
    intros [HB Hc]. rewrite <- Hc. unfold cl, y0, upO. apply up_antitone.
    intros i Hi. rewrite mem_ones. apply Nat.ltb_lt.
    apply (mem_lt_of_in_range _ _ _ (in_range_up _ _ _ _) Hi).
  Qed.

  Lemma primal_run fuel :
    fast_generate_from fuel dfuel (relation_new c) =
      if (length resP <=? fuel)%nat then Ok resP else Raise OutOfFuel.
  Proof.
    unfold fast_generate_from.
    change (mc (relation_new c)) with c. change (mcols (relation_new c)) with (cols c).
    rewrite (objects_doubleprime_spec dfuel c (ones (nG c)) Hwf (in_range_ones _) Hdf).
    cbn [bind].
    exact (fcbo_generic_run (nG c) (nM c) (inc c) (cols c) (objects_prime dfuel (relation_new c))
             (cols_length c) primal_vecs primal_prime y0 fuel primal_closed0).
  Qed.

  Lemma primal_concepts A B :
    (Closed (nG c) (nM c) (inc c) B /\ A = up (nM c) (nG c) (flipR (inc c)) B) <-> is_concept c A B.
  Proof.
    unfold Closed, cl, is_concept. fold (upO c) (upM c). split.
    - intros [[HB Hc] ->]. split; [apply in_range_up|]. split; [exact HB|]. split; [exact Hc|reflexivity].
    - intros (HA & HB & H1 & H2). subst A. split; [split; [exact HB|exact H1]|reflexivity].
  Qed.

  Theorem primal_correct fuel l :
    fast_generate_from fuel dfuel (relation_new c) = Ok l ->
    NoDup l /\ (forall A B, In (A, B) l <-> is_concept c A B).
  Proof.
    intros H. rewrite primal_run in H. apply if_leb_ok in H. subst l.
    destruct (fcbo_generic_result (nG c) (nM c) (inc c) y0 primal_closed0 primal_least) as [Hnd Hin].
    split; [exact Hnd|]. intros A B. fold resP in Hin. rewrite Hin. apply primal_concepts.
  Qed.

  Theorem primal_terminates :
    exists fuel0, forall fuel, (fuel0 <= fuel)%nat ->
      exists l, fast_generate_from fuel dfuel (relation_new c) = Ok l.
  Proof.
    exists (length resP). intros fuel Hf. exists resP. rewrite primal_run.
    apply Nat.leb_le in Hf. rewrite Hf. reflexivity.
  Qed.
End Primal.

(** * dual: x = intent, y = extent *)
Section Dual.
  Variables (c : ctx) (dfuel : nat).
  Hypothesis Hwf : wf_ctx c.
  Hypothesis Hdf : (Nat.max (nG c) (nM c) <= dfuel)%nat.

  Let y0 := clO c 0.
  Let resD := result (nM c) (nG c) (flipR (inc c)) y0.
  Let swap := fun p : Z * Z => (snd p, fst p).

  Lemma dual_vlen : length (rows c) = nG c.
  Proof. apply Hwf. Qed.

  Lemma dual_vecs g : (g < nG c)%nat ->
    nth g (rows c) 0 = up (nG c) (nM c) (flipR (flipR (inc c))) (bit g).
  Proof. intros Hg. exact (row_upO c g Hwf Hg). Qed.

  Lemma dual_prime x : in_range (nM c) x ->
    properties_prime dfuel (relation_new c) x = Ok (up (nM c) (nG c) (flipR (inc c)) x).
  Proof.
    intros Hx. apply (primeM_spec dfuel c x Hx).
    pose proof (bits_size_le _ _ Hx). lia.
  Qed.

  Lemma dual_closed0 : Closed (nM c) (nG c) (flipR (inc c)) y0.
  Proof.
    split; [apply in_range_up|].
    change (clO c (clO c 0) = clO c 0). apply clO_idempotent, in_range_0.
  Qed.

  Lemma dual_least B : Closed (nM c) (nG c) (flipR (inc c)) B -> subset y0 B.
  Proof.
    intros [HB Hc]. change (clO c B = B) in Hc. rewrite <- Hc. apply clO_monotone.
    intros i Hi. rewrite mem_0 in Hi. discriminate.
  Qed.

  Lemma dual_run fuel :
    fcbo_dual fuel dfuel (relation_new c) =
      if (length resD <=? fuel)%nat then Ok (map swap resD) else Raise OutOfFuel.
  Proof.
    unfold fcbo_dual.
    change (mc (relation_new c)) with c.
    rewrite (objects_doubleprime_spec dfuel c 0 Hwf (in_range_0 _) Hdf).
    cbn [bind].
    rewrite <- (upO_clO c 0 (in_range_0 _)).
    pose proof (fcbo_generic_run (nM c) (nG c) (flipR (inc c)) (rows c)
             (properties_prime dfuel (relation_new c))
             dual_vlen dual_vecs dual_prime y0 fuel dual_closed0) as Hrun.
    change (up (nG c) (nM c) (flipR (flipR (inc c))) y0) with (upO c (clO c 0)) in Hrun.
    fold resD in Hrun. unfold y0 in Hrun. rewrite Hrun.
    destruct (length resD <=? fuel)%nat; reflexivity.
  Qed.

  Lemma dual_concepts A B :
    (Closed (nM c) (nG c) (flipR (inc c)) A /\ B = up (nG c) (nM c) (flipR (flipR (inc c))) A)
    <-> is_concept c A B.
  Proof.
    unfold Closed, is_concept.
    change (cl (nM c) (nG c) (flipR (inc c)) A) with (upM c (upO c A)).
    change (up (nG c) (nM c) (flipR (flipR (inc c))) A) with (upO c A).
    split.
    - intros [[HA Hc] ->]. split; [exact HA|]. split; [apply in_range_up|]. split; [reflexivity|exact Hc].
    - intros (HA & HB & H1 & H2). subst B. split; [split; [exact HA|exact H2]|reflexivity].
  Qed.

  Theorem dual_correct fuel l :
    fcbo_dual fuel dfuel (relation_new c) = Ok l ->
    NoDup l /\ (forall A B, In (A, B) l <-> is_concept c A B).
  Proof.
    intros H. rewrite dual_run in H. apply if_leb_ok in H. subst l.
    destruct (fcbo_generic_result (nM c) (nG c) (flipR (inc c)) y0 dual_closed0 dual_least) as [Hnd Hin].
    fold resD in Hnd, Hin. split.
    - apply NoDup_map_inj; [|exact Hnd].
      intros [a1 b1] [a2 b2] _ _ Hs. unfold swap in Hs. cbn [fst snd] in Hs. injection Hs as -> ->. reflexivity.
    - intros A B. rewrite <- dual_concepts, <- Hin, in_map_iff. split.
      + intros [[a b] [Hs Hi]]. unfold swap in Hs. cbn [fst snd] in Hs. injection Hs as -> ->. exact Hi.
      + intros Hi. exists (B, A). split; [reflexivity|exact Hi].
  Qed.

  Theorem dual_terminates :
    exists fuel0, forall fuel, (fuel0 <= fuel)%nat ->
      exists l, fcbo_dual fuel dfuel (relation_new c) = Ok l.
  Proof.
    exists (length resD). intros fuel Hf. exists (map swap resD). rewrite dual_run.
    apply Nat.leb_le in Hf. rewrite Hf. reflexivity.
  Qed.
End Dual.

(** * the requested statements *)
Theorem fast_generate_from_correct : forall fuel dfuel c l,
  wf_ctx c -> (Nat.max (nG c) (nM c) <= dfuel)%nat ->
  fast_generate_from fuel dfuel (relation_new c) = Ok l ->
  NoDup l /\ (forall A B, In (A, B) l <-> is_concept c A B).
Proof. intros fuel dfuel c l Hwf Hdf H. exact (primal_correct c dfuel Hwf Hdf fuel l H). Qed.

Theorem fcbo_dual_correct : forall fuel dfuel c l,
  wf_ctx c -> (Nat.max (nG c) (nM c) <= dfuel)%nat ->
  fcbo_dual fuel dfuel (relation_new c) = Ok l ->
  NoDup l /\ (forall A B, In (A, B) l <-> is_concept c A B).
Proof. intros fuel dfuel c l Hwf Hdf H. exact (dual_correct c dfuel Hwf Hdf fuel l H). Qed.

Theorem fast_generate_from_terminates : forall dfuel c,
  wf_ctx c -> (Nat.max (nG c) (nM c) <= dfuel)%nat ->
  exists fuel0, forall fuel, (fuel0 <= fuel)%nat ->
    exists l, fast_generate_from fuel dfuel (relation_new c) = Ok l.
Proof. intros dfuel c Hwf Hdf. exact (primal_terminates c dfuel Hwf Hdf). Qed.

Theorem fcbo_dual_terminates : forall dfuel c,
  wf_ctx c -> (Nat.max (nG c) (nM c) <= dfuel)%nat ->
  exists fuel0, forall fuel, (fuel0 <= fuel)%nat ->
    exists l, fcbo_dual fuel dfuel (relation_new c) = Ok l.
Proof. intros dfuel c Hwf Hdf. exact (dual_terminates c dfuel Hwf Hdf). Qed.

Print Assumptions fast_generate_from_correct.
Print Assumptions fcbo_dual_correct.
Print Assumptions fast_generate_from_terminates.
Print Assumptions fcbo_dual_terminates.
