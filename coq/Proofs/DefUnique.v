(** List / tools.Unique facts used by Proofs/Definition.v *)
From Coq Require Import ZArith List Bool Lia ZifyBool Permutation Arith.
From Concepts Require Import Base.Res Model.Definition Spec.DefSpec.
Import ListNotations.

(** * membership tests *)
Lemma memn_In x l : memn x l = true <-> In x l.
Proof.
  unfold memn. rewrite existsb_exists. split.
  - intros [y [Hy E]]. apply Nat.eqb_eq in E. subst; auto.
  - intros H. exists x. split; auto. apply Nat.eqb_refl.
Qed.

Lemma memn_false x l : memn x l = false <-> ~ In x l.
Proof. rewrite <- memn_In. destruct (memn x l); intuition congruence. Qed.

Lemma memn_app x l l' : memn x (l ++ l') = memn x l || memn x l'.
Proof. unfold memn. apply existsb_app. Qed.

Lemma memn_cons x y l : memn x (y :: l) = Nat.eqb x y || memn x l.
Proof. reflexivity. Qed.

Lemma memn_nil x : memn x [] = false.
Proof. reflexivity. Qed.

Lemma memn_ext_In x l l' : (In x l <-> In x l') -> memn x l = memn x l'.
Proof.
  intros H. apply eq_iff_eq_true. rewrite !memn_In. exact H.
Qed.

Lemma memn_perm x l l' : Permutation l l' -> memn x l = memn x l'.
Proof.
  intros H. apply memn_ext_In. split; apply Permutation_in; auto using Permutation_sym.
Qed.

Lemma pair_eqb_eq a b : pair_eqb a b = true <-> a = b.
Proof.
  unfold pair_eqb. destruct a as [a1 a2], b as [b1 b2]; cbn [fst snd].
  rewrite andb_true_iff, !Nat.eqb_eq. split.
  - intros [-> ->]; auto.
  - intros H; inversion H; auto.
Qed.

Lemma pair_eqb_refl a : pair_eqb a a = true.
Proof. apply pair_eqb_eq; auto. Qed.

Lemma pair_eqb_sym a b : pair_eqb a b = pair_eqb b a.
Proof. unfold pair_eqb. rewrite (Nat.eqb_sym (fst a)), (Nat.eqb_sym (snd a)). reflexivity. Qed.

Lemma pair_eqb_neq a b : pair_eqb a b = false <-> a <> b.
Proof. rewrite <- pair_eqb_eq. destruct (pair_eqb a b); intuition congruence. Qed.

Lemma pair_eqb_pair a b c d : pair_eqb (a, b) (c, d) = Nat.eqb a c && Nat.eqb b d.
Proof. reflexivity. Qed.

Lemma memp_In x l : memp x l = true <-> In x l.
Proof.
  unfold memp. rewrite existsb_exists. split.
  - intros [y [Hy E]]. apply pair_eqb_eq in E. subst; auto.
  - intros H. exists x. split; auto. apply pair_eqb_refl.
Qed.

Lemma memp_false x l : memp x l = false <-> ~ In x l.
Proof. rewrite <- memp_In. destruct (memp x l); intuition congruence. Qed.

Lemma memp_app x l l' : memp x (l ++ l') = memp x l || memp x l'.
Proof. unfold memp. apply existsb_app. Qed.

Lemma memp_ext_In x l l' : (In x l <-> In x l') -> memp x l = memp x l'.
Proof. intros H. apply eq_iff_eq_true. rewrite !memp_In. exact H. Qed.

Lemma memp_perm x l l' : Permutation l l' -> memp x l = memp x l'.
Proof.
  intros H. apply memp_ext_In. split; apply Permutation_in; auto using Permutation_sym.
Qed.

(** * removen / removep / addp *)
Lemma In_removen y x l : In y (removen x l) <-> In y l /\ x <> y.
Proof.
  unfold removen. rewrite filter_In, negb_true_iff, Nat.eqb_neq. tauto.
Qed.

Lemma removen_notin x l : ~ In x l -> removen x l = l.
Proof.
  induction l as [|y r IH]; cbn; intros H; auto.
  destruct (Nat.eqb x y) eqn:E; cbn.
  - apply Nat.eqb_eq in E. subst. tauto.
  - f_equal. apply IH. tauto.
Qed.

Lemma NoDup_removen x l : NoDup l -> NoDup (removen x l).
Proof. apply NoDup_filter. Qed.

Lemma memn_removen y x l : memn y (removen x l) = negb (Nat.eqb x y) && memn y l.
Proof.
  apply eq_iff_eq_true. rewrite andb_true_iff, negb_true_iff, Nat.eqb_neq, !memn_In, In_removen. tauto.
Qed.

Lemma remove_first_removen x l : NoDup l -> remove_first x l = removen x l.
Proof.
  induction l as [|y r IH]; cbn; intros H; auto.
  inversion H as [|? ? Hn Hr]; subst.
  destruct (Nat.eqb x y) eqn:E; cbn.
  - apply Nat.eqb_eq in E. subst. symmetry. apply removen_notin; auto.
  - f_equal. apply IH; auto.
Qed.

Lemma In_removep y x l : In y (removep x l) <-> In y l /\ x <> y.
Proof.
  unfold removep. rewrite filter_In, negb_true_iff, pair_eqb_neq. tauto.
Qed.

Lemma memp_removep y x l : memp y (removep x l) = negb (pair_eqb x y) && memp y l.
Proof.
  apply eq_iff_eq_true. rewrite andb_true_iff, negb_true_iff, pair_eqb_neq, !memp_In, In_removep. tauto.
Qed.

Lemma NoDup_removep x l : NoDup l -> NoDup (removep x l).
Proof. apply NoDup_filter. Qed.

Lemma NoDup_snoc {A} (l : list A) x : NoDup (l ++ [x]) <-> NoDup l /\ ~ In x l.
Proof.
  split.
  - intros H. assert (H' : NoDup (x :: l)).
    { eapply Permutation_NoDup; [|exact H]. apply Permutation_sym, Permutation_cons_append. }
    inversion H'; auto.
  - intros [H1 H2]. eapply Permutation_NoDup; [apply Permutation_cons_append|]. constructor; auto.
Qed.

Lemma In_snoc {A} (l : list A) x y : In y (l ++ [x]) <-> In y l \/ y = x.
Proof. rewrite in_app_iff. cbn. intuition. Qed.

Lemma In_addp y x l : In y (addp x l) <-> In y l \/ y = x.
Proof.
  unfold addp. destruct (memp x l) eqn:E.
  - apply memp_In in E. split; [auto|]. intros [H| ->]; auto.
  - apply In_snoc.
Qed.

Lemma memp_addp y x l : memp y (addp x l) = pair_eqb y x || memp y l.
Proof.
  apply eq_iff_eq_true. rewrite orb_true_iff, pair_eqb_eq, !memp_In, In_addp. tauto.
Qed.

Lemma NoDup_addp x l : NoDup l -> NoDup (addp x l).
Proof.
  unfold addp. destruct (memp x l) eqn:E; auto.
  intros H. apply NoDup_snoc. split; auto. apply memp_false; auto.
Qed.

(** folds of addp / removep *)
Lemma In_fold_addp {X} (f : X -> nat * nat) xs l y :
  In y (fold_left (fun acc x => addp (f x) acc) xs l) <-> In y l \/ exists x, In x xs /\ y = f x.
Proof.
  revert l; induction xs as [|x xs IH]; intros l; cbn [fold_left].
  - split; auto. intros [H|[x [[] _]]]; auto.
  - rewrite IH, In_addp. split.
    + intros [[H|H]|[x' [H1 H2]]]; auto.
      * right. exists x. cbn; auto.
      * right. exists x'. cbn; auto.
    + intros [H|[x' [[->|H1] H2]]]; auto.
      right. eauto.
Qed.

Lemma NoDup_fold_addp {X} (f : X -> nat * nat) xs l :
  NoDup l -> NoDup (fold_left (fun acc x => addp (f x) acc) xs l).
Proof.
  revert l; induction xs as [|x xs IH]; intros l H; cbn [fold_left]; auto.
  apply IH, NoDup_addp, H.
Qed.

Lemma In_fold_removep {X} (f : X -> nat * nat) xs l y :
  In y (fold_left (fun acc x => removep (f x) acc) xs l) <-> In y l /\ forall x, In x xs -> y <> f x.
Proof.
  revert l; induction xs as [|x xs IH]; intros l; cbn [fold_left].
  - split; [intros H; split; auto; intros x []|tauto].
  - rewrite IH, In_removep. split.
    + intros [[H1 H2] H3]. split; auto. intros x' [->|H]; auto.
    + intros [H1 H2]. repeat split; auto.
      * intros E. apply (H2 x); cbn; auto.
      * intros x' H. apply H2; cbn; auto.
Qed.

Lemma NoDup_fold_removep {X} (f : X -> nat * nat) xs l :
  NoDup l -> NoDup (fold_left (fun acc x => removep (f x) acc) xs l).
Proof.
  revert l; induction xs as [|x xs IH]; intros l H; cbn [fold_left]; auto.
  apply IH, NoDup_removep, H.
Qed.

(** * append_new *)
Lemma append_new_one l x : append_new l [x] = if memn x l then l else l ++ [x].
Proof. reflexivity. Qed.

Lemma append_new_cons l x r : append_new l (x :: r) = append_new (append_new l [x]) r.
Proof. cbn. destruct (memn x l); reflexivity. Qed.

Lemma In_append_new y l news : In y (append_new l news) <-> In y l \/ In y news.
Proof.
  revert l; induction news as [|x r IH]; intros l; cbn.
  - tauto.
  - destruct (memn x l) eqn:E; rewrite IH.
    + apply memn_In in E. split; [tauto|]. intros [H|[->|H]]; auto.
    + rewrite In_snoc. intuition.
Qed.

Lemma NoDup_append_new l news : NoDup l -> NoDup (append_new l news).
Proof.
  revert l; induction news as [|x r IH]; intros l H; cbn; auto.
  destruct (memn x l) eqn:E; apply IH; auto.
  apply NoDup_snoc. split; auto. apply memn_false; auto.
Qed.

Lemma memn_append_new y l news : memn y (append_new l news) = memn y l || memn y news.
Proof.
  apply eq_iff_eq_true. rewrite orb_true_iff, !memn_In. apply In_append_new.
Qed.

Lemma append_new_length_le l news : (length (append_new l news) <= length l + length news)%nat.
Proof.
  revert l; induction news as [|x r IH]; intros l; cbn; [lia|].
  destruct (memn x l).
  - specialize (IH l). lia.
  - specialize (IH (l ++ [x])). rewrite app_length in IH. cbn in IH. lia.
Qed.

Lemma append_new_length_eq l news :
  length (append_new l news) = (length l + length news)%nat -> append_new l news = l ++ news.
Proof.
  revert l; induction news as [|x r IH]; intros l; cbn.
  - intros _. rewrite app_nil_r; auto.
  - destruct (memn x l).
    + intros H. pose proof (append_new_length_le l r). lia.
    + intros H. rewrite IH.
      * rewrite <- app_assoc. reflexivity.
      * rewrite app_length. cbn. lia.
Qed.

Lemma append_new_nil_NoDup l : NoDup (append_new [] l).
Proof. apply NoDup_append_new. constructor. Qed.

Lemma append_new_self_NoDup acc l : NoDup (acc ++ l) -> append_new acc l = acc ++ l.
Proof.
  revert acc; induction l as [|x r IH]; intros acc H; cbn.
  - rewrite app_nil_r; auto.
  - assert (E : memn x acc = false).
    { apply memn_false. intros Hin. apply NoDup_remove_2 in H. apply H. apply in_or_app; auto. }
    rewrite E. rewrite IH; rewrite <- app_assoc; auto.
Qed.

(** * Unique invariant *)
Definition UInv (u : unique) : Prop :=
  NoDup (u_items u) /\ (forall x, In x (u_seen u) <-> In x (u_items u)) /\ NoDup (u_seen u).

Lemma UInv_memn u x : UInv u -> memn x (u_seen u) = memn x (u_items u).
Proof. intros [_ [H _]]. apply memn_ext_In, H. Qed.

Lemma UInv_contains u x : UInv u -> u_contains u x = memn x (u_items u).
Proof. apply UInv_memn. Qed.

Lemma UInv_empty : UInv (mkU [] []).
Proof. repeat split; cbn; auto; constructor. Qed.

Lemma u_add_items u x : UInv u -> u_items (u_add u x) = append_new (u_items u) [x].
Proof.
  intros H. unfold u_add. rewrite append_new_one, <- (UInv_memn u x H).
  destruct (memn x (u_seen u)); reflexivity.
Qed.

Lemma u_add_UInv u x : UInv u -> UInv (u_add u x).
Proof.
  intros H. pose proof (UInv_memn u x H) as Hm. destruct H as [H1 [H2 H3]].
  unfold u_add. destruct (memn x (u_seen u)) eqn:E; [repeat split; auto; apply H2|].
  repeat split; cbn [u_items u_seen].
  - apply NoDup_snoc. split; auto. apply memn_false. congruence.
  - rewrite !In_snoc, H2. tauto.
  - rewrite !In_snoc, H2. tauto.
  - apply NoDup_snoc. split; auto. apply memn_false. congruence.
Qed.

Lemma u_ior_items u l : UInv u -> u_items (u_ior u l) = append_new (u_items u) l.
Proof.
  unfold u_ior. revert u; induction l as [|x r IH]; intros u H; cbn [fold_left]; auto.
  rewrite IH by (apply u_add_UInv; auto). rewrite u_add_items by auto.
  symmetry. apply append_new_cons.
Qed.

Lemma u_ior_UInv u l : UInv u -> UInv (u_ior u l).
Proof.
  unfold u_ior. revert u; induction l as [|x r IH]; intros u H; cbn [fold_left]; auto.
  apply IH, u_add_UInv, H.
Qed.

Lemma uniq_from_fold l seen items : uniq_from l seen items = fold_left u_add l (mkU seen items).
Proof.
  revert seen items; induction l as [|x r IH]; intros seen items; cbn [uniq_from fold_left]; auto.
  unfold u_add at 2. cbn [u_seen u_items]. destruct (memn x seen); apply IH.
Qed.

Lemma u_new_ior l : u_new l = u_ior (mkU [] []) l.
Proof. apply uniq_from_fold. Qed.

Lemma u_new_items l : u_items (u_new l) = append_new [] l.
Proof. rewrite u_new_ior. apply (u_ior_items (mkU [] []) l UInv_empty). Qed.

Lemma u_new_UInv l : UInv (u_new l).
Proof. rewrite u_new_ior. apply u_ior_UInv, UInv_empty. Qed.

Lemma u_new_contains l x : u_contains (u_new l) x = memn x l.
Proof.
  rewrite UInv_contains by apply u_new_UInv. rewrite u_new_items, memn_append_new. reflexivity.
Qed.

Lemma u_new_NoDup l : NoDup l -> u_new l = mkU l l.
Proof.
  intros H. unfold u_new.
  assert (G : forall l acc, NoDup (acc ++ l) -> uniq_from l acc acc = mkU (acc ++ l) (acc ++ l)).
  { clear. induction l as [|x r IH]; intros acc H; cbn [uniq_from].
    - rewrite app_nil_r; auto.
    - assert (E : memn x acc = false).
      { apply memn_false. intros Hin. apply NoDup_remove_2 in H. apply H. apply in_or_app; auto. }
      rewrite E. rewrite IH; rewrite <- app_assoc; auto. }
  apply (G l []). exact H.
Qed.

Lemma u_discard_items u x : UInv u -> u_items (u_discard u x) = removen x (u_items u).
Proof.
  intros H. pose proof (UInv_memn u x H) as Hm. destruct H as [H1 _].
  unfold u_discard. destruct (memn x (u_seen u)) eqn:E; cbn [u_items].
  - apply remove_first_removen; auto.
  - symmetry. apply removen_notin. apply memn_false. congruence.
Qed.

Lemma u_discard_UInv u x : UInv u -> UInv (u_discard u x).
Proof.
  intros H. pose proof (u_discard_items u x H) as Hi. destruct H as [H1 [H2 H3]].
  unfold u_discard in *. destruct (memn x (u_seen u)) eqn:E; [|repeat split; auto; apply H2].
  unfold UInv. cbn [u_items u_seen] in *. rewrite Hi. repeat split.
  - apply NoDup_removen; auto.
  - rewrite !In_removen, H2. tauto.
  - rewrite !In_removen, H2. tauto.
  - apply NoDup_removen; auto.
Qed.

Lemma u_remove_ok u x : UInv u -> memn x (u_items u) = true -> u_remove u x = Ok (u_discard u x).
Proof. intros H E. unfold u_remove. rewrite UInv_contains, E by auto. reflexivity. Qed.

Lemma u_remove_raise u x : UInv u -> memn x (u_items u) = false -> u_remove u x = Raise KeyError.
Proof. intros H E. unfold u_remove. rewrite UInv_contains, E by auto. reflexivity. Qed.

Lemma filter_filter {A} (f g : A -> bool) l : filter f (filter g l) = filter (fun x => g x && f x) l.
Proof.
  induction l as [|x r IH]; cbn; auto.
  destruct (g x); cbn; [destruct (f x)|]; rewrite IH; auto.
Qed.

Lemma filter_all_id {A} (f : A -> bool) l : (forall x, In x l -> f x = true) -> filter f l = l.
Proof.
  induction l as [|x r IH]; cbn; intros H; auto.
  rewrite (H x) by auto. f_equal. apply IH. auto.
Qed.

Lemma removen_filter x l : removen x l = filter (fun y => negb (memn y [x])) l.
Proof.
  unfold removen. apply filter_ext. intros y. cbn. rewrite orb_false_r, Nat.eqb_sym. reflexivity.
Qed.

Lemma fold_discard_items l u :
  UInv u -> UInv (fold_left u_discard l u) /\
            u_items (fold_left u_discard l u) = filter (fun x => negb (memn x l)) (u_items u).
Proof.
  revert u; induction l as [|x r IH]; intros u H; cbn [fold_left].
  - split; auto. symmetry. apply filter_all_id. auto.
  - destruct (IH (u_discard u x) (u_discard_UInv u x H)) as [I1 I2]. split; auto.
    rewrite I2, u_discard_items by auto. unfold removen. rewrite filter_filter.
    apply filter_ext. intros y. cbn. rewrite negb_orb, (Nat.eqb_sym y x). reflexivity.
Qed.

Lemma u_iand_items u other : UInv u -> u_items (u_iand u other) = filter (fun x => memn x other) (u_items u).
Proof.
  intros H. unfold u_iand. destruct (fold_discard_items (filter (fun x => negb (memn x other)) (u_items u)) u H) as [_ E].
  rewrite E. apply filter_ext_in. intros x Hx.
  destruct (memn x other) eqn:E1.
  - apply negb_true_iff. apply memn_false. rewrite filter_In. rewrite E1. cbn. intros [_ ?]; discriminate.
  - apply negb_false_iff. apply memn_In. rewrite filter_In. rewrite E1. auto.
Qed.

Lemma u_iand_UInv u other : UInv u -> UInv (u_iand u other).
Proof. intros H. apply fold_discard_items; auto. Qed.

(** for_fold u_remove over distinct members *)
Lemma for_fold_remove l u :
  UInv u -> NoDup l -> (forall x, In x l -> In x (u_items u)) ->
  for_fold u_remove l u = Ok (fold_left u_discard l u).
Proof.
  revert u; induction l as [|x r IH]; intros u H Hn Hin; cbn [for_fold fold_left]; auto.
  inversion Hn as [|? ? Hx Hr]; subst.
  rewrite u_remove_ok; auto.
  - cbn [bind]. apply IH; auto using u_discard_UInv.
    intros y Hy. rewrite u_discard_items by auto. apply In_removen. split; [apply Hin; cbn; auto|].
    intros ->. auto.
  - apply memn_In, Hin. cbn; auto.
Qed.

(** * replace *)
Lemma list_index_shift x l k : list_index x l (S k) = option_map S (list_index x l k).
Proof.
  revert k; induction l as [|y r IH]; intros k; cbn; auto.
  destruct (Nat.eqb x y); auto.
Qed.

Lemma list_index_None x l k : list_index x l k = None <-> ~ In x l.
Proof.
  revert k; induction l as [|y r IH]; intros k; cbn.
  - tauto.
  - destruct (Nat.eqb x y) eqn:E.
    + apply Nat.eqb_eq in E. subst. split; [discriminate|tauto].
    + apply Nat.eqb_neq in E. rewrite IH. intuition.
Qed.

Lemma list_index_Some x l : In x l -> exists idx, list_index x l 0 = Some idx.
Proof.
  intros H. destruct (list_index x l 0) eqn:E; eauto.
  apply list_index_None in E. tauto.
Qed.

Lemma list_index_Some_In x l k idx : list_index x l k = Some idx -> In x l.
Proof.
  intros H. destruct (in_dec Nat.eq_dec x l) as [i|n]; auto.
  apply (list_index_None x l k) in n. congruence.
Qed.

Lemma set_at_replace x l idx new : list_index x l 0 = Some idx -> set_at l idx new = replace_name l x new.
Proof.
  revert idx; induction l as [|y r IH]; intros idx; cbn; [discriminate|].
  rewrite (Nat.eqb_sym y x). destruct (Nat.eqb x y) eqn:E.
  - intros [= <-]. reflexivity.
  - rewrite list_index_shift. destruct (list_index x r 0) as [i|] eqn:E2; cbn; [|discriminate].
    intros [= <-]. f_equal. apply IH; auto.
Qed.

Lemma In_replace_name y l old new :
  NoDup l -> In old l -> (In y (replace_name l old new) <-> y = new \/ (In y l /\ y <> old)).
Proof.
  induction l as [|z r IH]; cbn; intros Hn Ho; [tauto|].
  inversion Hn as [|? ? Hz Hr]; subst.
  destruct (Nat.eqb z old) eqn:E.
  - apply Nat.eqb_eq in E. subst. cbn. split.
    + intros [<-|H]; auto. right. split; auto. intros ->. auto.
    + intros [->|[[<-|H] H2]]; auto. tauto.
  - apply Nat.eqb_neq in E. destruct Ho as [->|Ho]; [tauto|]. cbn. rewrite IH by auto. split.
    + intros [<-|[->|[H1 H2]]]; auto.
    + intros [->|[[<-|H] H2]]; auto.
Qed.

Lemma NoDup_replace_name l old new : NoDup l -> ~ In new l -> NoDup (replace_name l old new).
Proof.
  induction l as [|z r IH]; cbn; intros Hn Hnew; auto.
  inversion Hn as [|? ? Hz Hr]; subst.
  destruct (Nat.eqb z old) eqn:E.
  - constructor; auto.
  - assert (Hin : In old r \/ ~ In old r) by (destruct (in_dec Nat.eq_dec old r); auto).
    constructor; [|apply IH; auto].
    destruct Hin as [Hin|Hin].
    + rewrite In_replace_name by auto. intros [->|[H _]]; auto.
    + assert (G : forall r, ~ In old r -> replace_name r old new = r).
      { clear. induction r as [|a r IH]; cbn; auto. intros H.
        destruct (Nat.eqb a old) eqn:E; [apply Nat.eqb_eq in E; subst; tauto|].
        f_equal. apply IH. tauto. }
      rewrite G; auto.
Qed.

Lemma u_replace_spec u old new :
  UInv u ->
  u_replace u old new =
    if memn new (u_items u) then Raise ValueError
    else if negb (memn old (u_items u)) then Raise ValueError
    else Ok (mkU (removen old (u_seen u) ++ [new]) (replace_name (u_items u) old new)).
Proof.
  intros H. unfold u_replace. rewrite !(UInv_memn u) by auto.
  destruct (memn new (u_items u)); auto.
  destruct (memn old (u_items u)) eqn:E; cbn [negb].
  - apply memn_In in E. destruct (list_index_Some _ _ E) as [idx Hi]. rewrite Hi.
    rewrite (set_at_replace _ _ _ _ Hi). reflexivity.
  - apply memn_false in E. apply (list_index_None old (u_items u) 0) in E. rewrite E. reflexivity.
Qed.

Lemma u_replace_UInv u old new :
  UInv u -> memn new (u_items u) = false -> memn old (u_items u) = true ->
  UInv (mkU (removen old (u_seen u) ++ [new]) (replace_name (u_items u) old new)).
Proof.
  intros [H1 [H2 H3]] Hn Ho. apply memn_false in Hn. apply memn_In in Ho.
  repeat split; cbn [u_items u_seen].
  - apply NoDup_replace_name; auto.
  - rewrite In_snoc, In_removen, In_replace_name, H2 by auto. intuition.
  - rewrite In_snoc, In_removen, In_replace_name, H2 by auto. intuition.
  - apply NoDup_snoc. split; [apply NoDup_removen; auto|].
    rewrite In_removen, H2. tauto.
Qed.

(** * move *)
Lemma pop_at_perm x l idx : list_index x l 0 = Some idx -> Permutation l (x :: pop_at l idx).
Proof.
  revert idx; induction l as [|y r IH]; intros idx; cbn; [discriminate|].
  destruct (Nat.eqb x y) eqn:E.
  - intros [= <-]. apply Nat.eqb_eq in E. subst. apply Permutation_refl.
  - rewrite list_index_shift. destruct (list_index x r 0) as [i|] eqn:E2; cbn; [|discriminate].
    intros [= <-]. eapply perm_trans; [apply perm_skip, IH; reflexivity|]. apply perm_swap.
Qed.

Lemma insert_at_perm l i x : Permutation (x :: l) (insert_at l i x).
Proof.
  revert i; induction l as [|y r IH]; intros i; destruct i; cbn; auto.
  eapply perm_trans; [apply perm_swap|]. apply perm_skip, IH.
Qed.

Lemma py_insert_perm l i x : Permutation (x :: l) (py_insert l i x).
Proof. unfold py_insert. apply insert_at_perm. Qed.

Lemma move_perm x l idx i : list_index x l 0 = Some idx -> Permutation l (py_insert (pop_at l idx) i x).
Proof.
  intros H. eapply perm_trans; [apply pop_at_perm; eauto|]. apply py_insert_perm.
Qed.

Lemma u_move_spec u x i : u_move u x i = do l <- s_move (u_items u) x i ;; Ok (mkU (u_seen u) l).
Proof.
  unfold u_move, s_move. destruct (list_index x (u_items u) 0) as [idx|]; cbn [bind]; auto.
  destruct (Z.of_nat idx =? i)%Z; cbn [bind]; auto. destruct u; reflexivity.
Qed.

Lemma s_move_perm l x i l' : s_move l x i = Ok l' -> Permutation l l'.
Proof.
  unfold s_move. destruct (list_index x l 0) as [idx|] eqn:E; [|discriminate].
  destruct (Z.of_nat idx =? i)%Z; intros [= <-]; auto using move_perm.
Qed.

Lemma UInv_perm_items u l : UInv u -> Permutation (u_items u) l -> UInv (mkU (u_seen u) l).
Proof.
  intros [H1 [H2 H3]] P. repeat split; cbn [u_items u_seen]; auto.
  - eapply Permutation_NoDup; eauto.
  - intros Hx. eapply Permutation_in; eauto. apply H2; auto.
  - intros Hx. apply H2. eapply Permutation_in; [apply Permutation_sym|]; eauto.
Qed.
