(** First-pass facts for C05/C06/C09/C10/C18/C20 (model components against their meaning). *)
From Coq Require Import ZArith List Bool Lia ZifyBool.
From Concepts Require Import Base.Res Base.PyInt Base.BitSet Spec.FCA Spec.Context
  Model.Matrices Model.ContextApi Model.Members Model.Lattice Model.LatticeApi
  Proofs.Matrices Proofs.ContextApi Proofs.Closure Proofs.LatticeBasics.
Import ListNotations.
Open Scope Z_scope.

(** C05: every candidate generated from a closed extent A and an object g outside it is a
    closed extent strictly above A *)
Theorem candidate_above c A g : closedO c A -> (g < nG c)%nat -> mem A g = false ->
  closedO c (clO c (Z.lor A (bit g))) /\ psubset A (clO c (Z.lor A (bit g))).
Proof.
  intros [HA Hc] Hg Hm.
  assert (Hr : in_range (nG c) (Z.lor A (bit g))) by (apply in_range_lor; [exact HA|apply in_range_bit; exact Hg]).
  split; [split; [apply in_range_up|apply clO_idempotent; exact Hr]|].
  pose proof (clO_extensive c _ Hr) as Hext.
  split.
  - intros i Hi. apply Hext. rewrite mem_lor, Hi. reflexivity.
  - intros E. assert (mem (clO c (Z.lor A (bit g))) g = true).
    { apply Hext. rewrite mem_lor, mem_bit, Nat.eqb_refl. apply orb_true_r. }
    rewrite <- E in H. congruence.
Qed.

(** C06: the key order is a strict total order on keys *)
Theorem key_ltb_irrefl k : key_ltb k k = false.
Proof. unfold key_ltb. lia. Qed.
Theorem key_ltb_trans a b d : key_ltb a b = true -> key_ltb b d = true -> key_ltb a d = true.
Proof. unfold key_ltb. destruct a, b, d; cbn. lia. Qed.
Theorem key_ltb_total a b : key_ltb a b = true \/ a = b \/ key_ltb b a = true.
Proof.
  unfold key_ltb. destruct a as [a1 a2], b as [b1 b2]; cbn.
  destruct (Z.lt_total a1 b1) as [H|[H|H]]; [left; lia| |right; right; lia].
  destruct (Z.lt_total a2 b2) as [H2|[H2|H2]]; [left; lia|right; left; congruence|right; right; lia].
Qed.

(** C09: the empty collection yields nothing; a single seed is yielded first *)
Theorem iterunion_nil fuel sortkey next : iterunion fuel [] sortkey next = Ok [].
Proof. destruct fuel; reflexivity. Qed.
Theorem upset_union_nil fuel L : upset_union fuel L [] = Ok [].
Proof. unfold upset_union. cbn. apply iterunion_nil. Qed.
Theorem downset_union_nil fuel L : downset_union fuel L [] = Ok [].
Proof. unfold downset_union. cbn. apply iterunion_nil. Qed.

(** C10: the concept an object label is attached to has extent {o}'' ; a property label {p}' *)
Theorem object_label_extent fuel c o :
  wf_ctx c -> (o < nG c)%nat -> (Nat.max (nG c) (nM c) <= fuel)%nat ->
  (do B <- intension_raw fuel (relation_new c) [o] ;; properties_prime fuel (relation_new c) B)
  = Ok (clO c (bit o)).
Proof.
  intros Hwf Ho Hf. unfold intension_raw, objects_prime, properties_prime, relation_new. cbn [mc mcols].
  rewrite frommembers_ok by (constructor; [exact Ho|constructor]). cbn [bind].
  assert (HA : in_range (nG c) (of_list [o])) by (apply in_range_of_list; constructor; [exact Ho|constructor]).
  fold (primeO fuel c (of_list [o])).
  rewrite (primeO_spec fuel c _ Hwf HA) by (pose proof (bits_size_le _ _ HA); lia). cbn [bind].
  fold (primeM fuel c (upO c (of_list [o]))).
  rewrite (primeM_spec fuel c _ (in_range_upO c _)) by (pose proof (bits_size_le _ _ (in_range_upO c (of_list [o]))); lia).
  unfold clO. cbn [of_list fold_right]. rewrite Z.lor_0_r. reflexivity.
Qed.

Theorem property_label_extent fuel c p :
  (p < nM c)%nat -> (Nat.max (nG c) (nM c) <= fuel)%nat ->
  extension_raw fuel (relation_new c) [p] = Ok (upM c (bit p)).
Proof.
  intros Hp Hf. unfold extension_raw, properties_prime, relation_new. cbn [mc mcols].
  rewrite frommembers_ok by (constructor; [exact Hp|constructor]). cbn [bind].
  assert (HB : in_range (nM c) (of_list [p])) by (apply in_range_of_list; constructor; [exact Hp|constructor]).
  fold (primeM fuel c (of_list [p])).
  rewrite (primeM_spec fuel c _ HB) by (pose proof (bits_size_le _ _ HB); lia).
  cbn [of_list fold_right]. rewrite Z.lor_0_r. reflexivity.
Qed.

(** C18: a concept with empty extent has exactly its full intent as generating set *)
Theorem minimize_empty_extent d k intent : minimize d k 0 intent = Ok [intent].
Proof. reflexivity. Qed.

(** C20: exactly one node statement per concept, in order, named by its index *)
Definition is_node (s : dot_stmt) : bool := match s with DNode _ => true | _ => false end.
Definition is_edge (s : dot_stmt) : bool := match s with DEdge _ _ => true | _ => false end.

Lemma filter_app' {A} (f : A -> bool) l1 l2 : filter f (l1 ++ l2) = filter f l1 ++ filter f l2.
Proof. apply filter_app. Qed.

Lemma filter_map_none {A B} (f : B -> bool) (g : A -> B) l : (forall x, f (g x) = false) -> filter f (map g l) = [].
Proof. intros H. induction l as [|x l IH]; cbn; [reflexivity|]. rewrite H. exact IH. Qed.
Lemma filter_map_all {A B} (f : B -> bool) (g : A -> B) l : (forall x, f (g x) = true) -> filter f (map g l) = map g l.
Proof. intros H. induction l as [|x l IH]; cbn; [reflexivity|]. rewrite H, IH. reflexivity. Qed.

Theorem dot_nodes L : filter is_node (dot_body L) = map (fun c => DNode (c_index c)) (l_concepts L).
Proof.
  unfold dot_body. induction (l_concepts L) as [|x l IH]; cbn [flat_map map]; [reflexivity|].
  rewrite !filter_app', IH.
  rewrite (filter_map_none is_node (fun j => DEdge (c_index x) j)) by reflexivity.
  destruct (c_objects x), (c_properties x); reflexivity.
Qed.

Theorem dot_edges L :
  filter is_edge (dot_body L) =
  flat_map (fun c => map (fun j => DEdge (c_index c) j) (sort_by (fun j => (Z.of_nat j, 0)) (c_lower c))) (l_concepts L).
Proof.
  unfold dot_body. induction (l_concepts L) as [|x l IH]; cbn [flat_map map]; [reflexivity|].
  rewrite !filter_app', IH.
  rewrite (filter_map_all is_edge (fun j => DEdge (c_index x) j)) by reflexivity.
  destruct (c_objects x), (c_properties x); reflexivity.
Qed.
