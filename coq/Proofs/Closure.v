(** double / doubleprime loops compute the closure; Context.__getitem__. *)
From Coq Require Import ZArith List Bool Lia ZifyBool.
From Concepts Require Import Base.Res Base.PyInt Base.BitSet Spec.FCA Spec.Context
  Model.Matrices Model.ContextApi Proofs.Matrices Proofs.ContextApi.
Import ListNotations.
Open Scope Z_scope.

Definition loop2_cond : Z * Z * Z -> bool := fun '(double, i, bitset) => truthy bitset.

Lemma doubleprime_unfold fuel self other Prime Double bitset :
  doubleprime fuel self other Prime Double bitset =
  do '(prime, i, bitset) <- while_fuel fuel loop_cond (loop_body other) (Prime, 0, bitset) ;;
  do '(double, i, bitset) <- while_fuel fuel loop_cond (loop_body self) (Double, 0, prime) ;;
  Ok (double, prime).
Proof. reflexivity. Qed.

Lemma double_unfold fuel self other Prime Double bitset :
  double fuel self other Prime Double bitset =
  do '(prime, i, bitset) <- while_fuel fuel loop_cond (loop_body other) (Prime, 0, bitset) ;;
  do '(double, i, prime) <- while_fuel fuel loop_cond (loop_body self) (Double, 0, prime) ;;
  Ok double.
Proof. reflexivity. Qed.

Lemma prime_as_loop fuel other Prime A r :
  prime fuel other Prime A = Ok r ->
  exists i b, while_fuel fuel loop_cond (loop_body other) (Prime, 0, A) = Ok (r, i, b).
Proof.
  rewrite prime_unfold. destruct (while_fuel fuel loop_cond (loop_body other) (Prime, 0, A)) as [[[p i] b]|e];
    cbn [bind]; [|discriminate]. intros H. injection H as <-. eauto.
Qed.

Lemma loop_as_prime fuel other Prime A r i b :
  while_fuel fuel loop_cond (loop_body other) (Prime, 0, A) = Ok (r, i, b) ->
  prime fuel other Prime A = Ok r.
Proof. intros H. rewrite prime_unfold, H. reflexivity. Qed.

Theorem objects_doubleprime_spec fuel c A :
  wf_ctx c -> in_range (nG c) A -> (Nat.max (nG c) (nM c) <= fuel)%nat ->
  objects_doubleprime fuel (relation_new c) A = Ok (clO c A, upO c A).
Proof.
  intros Hwf HA Hfuel. unfold objects_doubleprime, relation_new. cbn [mc mcols].
  rewrite doubleprime_unfold.
  pose proof (primeO_spec fuel c A Hwf HA) as H1. unfold primeO in H1.
  destruct (prime_as_loop _ _ _ _ _ (H1 ltac:(pose proof (bits_size_le _ _ HA); lia))) as (i & b & ->).
  cbn [bind].
  pose proof (primeM_spec fuel c (upO c A) (in_range_upO c A)) as H2. unfold primeM in H2.
  destruct (prime_as_loop _ _ _ _ _ (H2 ltac:(pose proof (bits_size_le _ _ (in_range_upO c A)); lia))) as (i2 & b2 & ->).
  reflexivity.
Qed.

Theorem properties_doubleprime_spec fuel c B :
  wf_ctx c -> in_range (nM c) B -> (Nat.max (nG c) (nM c) <= fuel)%nat ->
  properties_doubleprime fuel (relation_new c) B = Ok (clM c B, upM c B).
Proof.
  intros Hwf HB Hfuel. unfold properties_doubleprime, relation_new. cbn [mc mcols].
  rewrite doubleprime_unfold.
  pose proof (primeM_spec fuel c B HB) as H1. unfold primeM in H1.
  destruct (prime_as_loop _ _ _ _ _ (H1 ltac:(pose proof (bits_size_le _ _ HB); lia))) as (i & b & ->).
  cbn [bind].
  pose proof (primeO_spec fuel c (upM c B) Hwf (in_range_upM c B)) as H2. unfold primeO in H2.
  destruct (prime_as_loop _ _ _ _ _ (H2 ltac:(pose proof (bits_size_le _ _ (in_range_upM c B)); lia))) as (i2 & b2 & ->).
  reflexivity.
Qed.

Theorem objects_double_spec fuel c A :
  wf_ctx c -> in_range (nG c) A -> (Nat.max (nG c) (nM c) <= fuel)%nat ->
  objects_double fuel (relation_new c) A = Ok (clO c A).
Proof.
  intros Hwf HA Hfuel. unfold objects_double, relation_new. cbn [mc mcols].
  rewrite double_unfold.
  pose proof (primeO_spec fuel c A Hwf HA) as H1. unfold primeO in H1.
  destruct (prime_as_loop _ _ _ _ _ (H1 ltac:(pose proof (bits_size_le _ _ HA); lia))) as (i & b & ->).
  cbn [bind].
  pose proof (primeM_spec fuel c (upO c A) (in_range_upO c A)) as H2. unfold primeM in H2.
  destruct (prime_as_loop _ _ _ _ _ (H2 ltac:(pose proof (bits_size_le _ _ (in_range_upO c A)); lia))) as (i2 & b2 & ->).
  reflexivity.
Qed.

(** Context.__getitem__ *)
Definition item_index (it : nat + nat) : nat := match it with inl g => g | inr m => m end.

Theorem getitem_objects fuel c gs :
  wf_ctx c -> gs <> [] -> Forall (fun g => (g < nG c)%nat) gs -> (Nat.max (nG c) (nM c) <= fuel)%nat ->
  getitem_raw fuel (relation_new c) (map inl gs) = Ok (clO c (of_list gs), upO c (of_list gs)).
Proof.
  intros Hwf Hne Hgs Hfuel. unfold getitem_raw. cbn [mc relation_new].
  assert (E : forallb (fun it : nat + nat => match it with inl g => (g <? nG c)%nat | inr _ => false end) (map inl gs) = true).
  { apply forallb_forall. intros it Hit. apply in_map_iff in Hit. destruct Hit as [g [<- Hg]].
    rewrite Forall_forall in Hgs. specialize (Hgs g Hg). lia. }
  rewrite E. rewrite map_map. cbn. rewrite map_id.
  apply objects_doubleprime_spec; try assumption. apply in_range_of_list. exact Hgs.
Qed.

Theorem getitem_properties fuel c ms :
  wf_ctx c -> ms <> [] -> Forall (fun m => (m < nM c)%nat) ms -> (Nat.max (nG c) (nM c) <= fuel)%nat ->
  getitem_raw fuel (relation_new c) (map inr ms) = Ok (upM c (of_list ms), clM c (of_list ms)).
Proof.
  intros Hwf Hne Hms Hfuel. unfold getitem_raw. cbn [mc relation_new].
  assert (E0 : forallb (fun it : nat + nat => match it with inl g => (g <? nG c)%nat | inr _ => false end) (map inr ms) = false).
  { destruct ms as [|m0 ms']; [congruence|]. reflexivity. }
  assert (E : forallb (fun it : nat + nat => match it with inr m => (m <? nM c)%nat | inl _ => false end) (map inr ms) = true).
  { apply forallb_forall. intros it Hit. apply in_map_iff in Hit. destruct Hit as [m [<- Hm]].
    rewrite Forall_forall in Hms. specialize (Hms m Hm). lia. }
  rewrite E0, E. rewrite map_map. cbn [item_index]. rewrite map_id.
  rewrite properties_doubleprime_spec; try assumption; [reflexivity|].
  apply in_range_of_list. exact Hms.
Qed.
