(** The lattice query API under [lattice_ok]: extent lookups (C02), order facts (C06),
    n-ary and binary join / meet with their lub / glb properties and algebra (C07). *)
From Coq Require Import ZArith List Bool Lia ZifyBool Sorted Arith.
From Concepts Require Import Base.Res Base.PyInt Base.BitSet Spec.FCA Spec.Context
  Model.Matrices Model.ContextApi Model.Members Model.Lattice Spec.LatticeSpec
  Proofs.Matrices Proofs.ContextApi Proofs.Closure Proofs.LatticeBasics Proofs.LatticeFirst
  Proofs.Keys Proofs.SortBy Proofs.Members.
Import ListNotations.
Open Scope Z_scope.

(** * generic helpers *)

Lemma bind_ret {A} (r : res A) : bind r (fun x => Ok x) = r.
Proof. destruct r; reflexivity. Qed.

Lemma fold_left_map_gen {A B S} (f : S -> B -> S) (g : A -> B) l : forall acc,
  fold_left (fun a i => f a (g i)) l acc = fold_left f (map g l) acc.
Proof. induction l as [|x l IH]; intros acc; cbn; [reflexivity|apply IH]. Qed.

Lemma nth_error_nth_extent exts k e : nth_error exts k = Some e -> nth_extent exts k = e.
Proof. intros H. unfold nth_extent. apply nth_error_nth. exact H. Qed.

Lemma psubset_irrefl a : ~ psubset a a.
Proof. intros [_ H]. apply H. reflexivity. Qed.

(** closure absorbs an inner closure under union *)
Lemma clO_lor_clO_l c a b : in_range (nG c) a -> in_range (nG c) b ->
  clO c (Z.lor (clO c a) b) = clO c (Z.lor a b).
Proof.
  intros Ha Hb.
  assert (Hab : in_range (nG c) (Z.lor a b)) by (apply in_range_lor; assumption).
  assert (Hca : in_range (nG c) (clO c a)) by apply in_range_up.
  apply (subset_antisym (nG c)); try apply in_range_up.
  - rewrite <- (clO_idempotent c (Z.lor a b) Hab). apply clO_monotone.
    intros i Hi. rewrite mem_lor in Hi. apply orb_true_iff in Hi. destruct Hi as [Hi|Hi].
    + revert Hi. apply clO_monotone. intros j Hj. rewrite mem_lor, Hj. reflexivity.
    + apply clO_extensive; [exact Hab|]. rewrite mem_lor, Hi. apply orb_true_r.
  - apply clO_monotone. intros i Hi. rewrite mem_lor in Hi. rewrite mem_lor.
    apply orb_true_iff in Hi. destruct Hi as [Hi|Hi]; [|rewrite Hi; apply orb_true_r].
    rewrite (clO_extensive c a Ha i Hi). reflexivity.
Qed.

Lemma clO_lor_clO_r c a b : in_range (nG c) a -> in_range (nG c) b ->
  clO c (Z.lor a (clO c b)) = clO c (Z.lor a b).
Proof.
  intros Ha Hb. rewrite Z.lor_comm, clO_lor_clO_l by assumption. rewrite Z.lor_comm. reflexivity.
Qed.

Lemma closedO_clO c A : in_range (nG c) A -> closedO c (clO c A).
Proof. intros HA. split; [apply in_range_up|apply clO_idempotent; exact HA]. Qed.

Section Queries.
  Variables (c : ctx) (L : lattice) (d : nat).
  Hypothesis OK : lattice_ok c L.
  Hypothesis Hwf : wf_ctx c.
  Hypothesis Hd : (Nat.max (nG c) (nM c) <= d)%nat.

  Notation exts := (l_exts L).
  Notation ext := (nth_extent (l_exts L)).
  Notation size := (length (l_concepts L)).

  (** ** the record: positions, extents *)

  Lemma exts_length : length exts = size.
  Proof. rewrite (ok_exts c L OK), map_length. reflexivity. Qed.

  Lemma nG_lk : nG (mc (l_k L)) = nG c.
  Proof. rewrite (ok_ctx c L OK). reflexivity. Qed.

  Lemma concept_at_lt k x : concept_at L k x -> (k < size)%nat.
  Proof. intros H. apply nth_error_Some. unfold concept_at in H. congruence. Qed.

  Lemma concept_at_exists k : (k < size)%nat -> exists x, concept_at L k x.
  Proof.
    intros H. unfold concept_at. destruct (nth_error (l_concepts L) k) as [x|] eqn:E; [eauto|].
    apply nth_error_None in E. lia.
  Qed.

  Lemma concept_at_fun k x x' : concept_at L k x -> concept_at L k x' -> x = x'.
  Proof. unfold concept_at. intros H1 H2. congruence. Qed.

  Lemma concept_at_exts k x : concept_at L k x -> nth_error exts k = Some (c_extent x).
  Proof. intros H. rewrite (ok_exts c L OK). apply map_nth_error. exact H. Qed.

  Lemma concept_at_ext k x : concept_at L k x -> ext k = c_extent x.
  Proof. intros H. apply nth_error_nth_extent, concept_at_exts, H. Qed.

  Lemma concept_at_closed k x : concept_at L k x -> closedO c (c_extent x).
  Proof. intros H. apply (ok_complete c L OK). eapply nth_error_In. apply concept_at_exts. exact H. Qed.

  Lemma concept_at_is_concept k x : concept_at L k x -> is_concept c (c_extent x) (c_intent x).
  Proof.
    intros H. rewrite (ok_intent c L OK k x H). apply closed_concept. eapply concept_at_closed. exact H.
  Qed.

  Lemma ext_closed k : (k < size)%nat -> closedO c (ext k).
  Proof.
    intros H. destruct (concept_at_exists k H) as [x Hx]. rewrite (concept_at_ext k x Hx).
    eapply concept_at_closed. exact Hx.
  Qed.

  (** out-of-range indices read the default 0, still a set of objects *)
  Lemma ext_in_range k : in_range (nG c) (ext k).
  Proof.
    destruct (Nat.lt_ge_cases k size) as [Hlt|Hge]; [exact (proj1 (ext_closed k Hlt))|].
    unfold nth_extent. rewrite nth_overflow by (rewrite exts_length; exact Hge). apply in_range_0.
  Qed.

  Lemma ext_inj i j : (i < size)%nat -> (j < size)%nat -> ext i = ext j -> i = j.
  Proof.
    intros Hi Hj E. unfold nth_extent in E.
    apply (proj1 (NoDup_nth exts 0) (ok_nodup c L OK)); rewrite ?exts_length; assumption.
  Qed.

  (** ** 1. the extent -> member mapping is total and injective on closed extents *)

  Lemma mapping_get_closed A : closedO c A ->
    exists k, mapping_get exts A = Ok k /\ (k < size)%nat /\ ext k = A.
  Proof.
    intros HA. apply (ok_complete c L OK) in HA.
    destruct (mapping_get_in _ _ HA) as [k Hk]. exists k. split; [exact Hk|].
    apply mapping_get_ok in Hk. rewrite exts_length in Hk. exact Hk.
  Qed.

  Theorem mapping_total A : closedO c A ->
    exists k x, mapping_get exts A = Ok k /\ concept_at L k x /\ c_extent x = A /\ c_intent x = upO c A.
  Proof.
    intros HA. destruct (mapping_get_closed A HA) as (k & Hk & Hlt & He).
    destruct (concept_at_exists k Hlt) as [x Hx]. exists k, x.
    split; [exact Hk|]. split; [exact Hx|].
    assert (E : c_extent x = A) by (rewrite <- (concept_at_ext k x Hx); exact He).
    split; [exact E|]. rewrite (ok_intent c L OK k x Hx), E. reflexivity.
  Qed.

  Theorem mapping_unique k x k' x' :
    concept_at L k x -> concept_at L k' x' -> c_extent x = c_extent x' -> k = k'.
  Proof.
    intros H1 H2 E. apply ext_inj; [eapply concept_at_lt; eassumption..|].
    rewrite (concept_at_ext _ _ H1), (concept_at_ext _ _ H2). exact E.
  Qed.

  (** looking up the extent of member k returns k *)
  Theorem mapping_get_ext k : (k < size)%nat -> mapping_get exts (ext k) = Ok k.
  Proof.
    intros Hk. destruct (mapping_get_closed _ (ext_closed k Hk)) as (k' & Hk' & Hlt & He).
    rewrite Hk'. f_equal. apply ext_inj; assumption.
  Qed.

  Theorem mapping_get_iff A k : closedO c A -> (mapping_get exts A = Ok k <-> (k < size)%nat /\ ext k = A).
  Proof.
    intros HA. split.
    - intros H. apply mapping_get_ok in H. rewrite exts_length in H. exact H.
    - intros [Hk <-]. apply mapping_get_ext. exact Hk.
  Qed.

  Theorem mapping_get_not_closed A : ~ closedO c A -> mapping_get exts A = Raise KeyError.
  Proof. intros H. apply mapping_get_raises. intros Hin. apply H, (ok_complete c L OK), Hin. Qed.

  (** the lattice is not empty *)
  Lemma size_pos : (0 < size)%nat.
  Proof.
    destruct (mapping_get_closed _ (closed_ones c)) as (k & _ & Hk & _). lia.
  Qed.

  (** ** 3. C06 order facts *)

  Theorem index_is_position k x : concept_at L k x -> c_index x = k.
  Proof. apply (ok_index c L OK). Qed.

  Theorem iteration_sorted :
    StronglySorted (fun a b => key_lt (shortlex (nG c) a) (shortlex (nG c) b)) (map c_extent (l_concepts L)).
  Proof. rewrite <- (ok_exts c L OK). apply (ok_sorted c L OK). Qed.

  Theorem iteration_sorted_positions i x j y : concept_at L i x -> concept_at L j y -> (i < j)%nat ->
    key_lt (shortlex (nG c) (c_extent x)) (shortlex (nG c) (c_extent y)).
  Proof.
    intros Hx Hy Hij. rewrite <- (concept_at_ext i x Hx), <- (concept_at_ext j y Hy). unfold nth_extent.
    apply (StronglySorted_nth _ _ 0 (ok_sorted c L OK)); [exact Hij|].
    rewrite exts_length. eapply concept_at_lt. exact Hy.
  Qed.

  Theorem order_extends_inclusion i x j y : concept_at L i x -> concept_at L j y ->
    psubset (c_extent x) (c_extent y) -> (i < j)%nat.
  Proof.
    intros Hx Hy Hp.
    pose proof (subset_shortlex (nG c) _ _ (proj1 (concept_at_closed i x Hx))
                  (proj1 (concept_at_closed j y Hy)) Hp) as Hlt.
    destruct (lt_eq_lt_dec i j) as [[Hij|Hij]|Hij]; [exact Hij| |].
    - subst j. rewrite (concept_at_fun i x y Hx Hy) in Hp. destruct (psubset_irrefl _ Hp).
    - pose proof (iteration_sorted_positions j y i x Hy Hx Hij) as Hgt. unfold key_lt in Hgt.
      apply key_ltb_asym in Hgt. congruence.
  Qed.

  Corollary order_extends_inclusion_le i x j y : concept_at L i x -> concept_at L j y ->
    subset (c_extent x) (c_extent y) -> (i <= j)%nat.
  Proof.
    intros Hx Hy Hs. destruct (Z.eq_dec (c_extent x) (c_extent y)) as [E|NE].
    - rewrite (mapping_unique i x j y Hx Hy E). lia.
    - apply Nat.lt_le_incl. apply (order_extends_inclusion i x j y Hx Hy). split; assumption.
  Qed.

  (** the infimum is the first member, the supremum the last *)
  Theorem infimum_first : exists x, concept_at L 0 x /\ c_extent x = clO c 0 /\ c_intent x = upO c 0.
  Proof.
    destruct (mapping_total _ (bottom_closed c)) as (k & x & _ & Hx & E & Hi).
    destruct (concept_at_exists 0 size_pos) as [y Hy].
    assert (Hle : (0 <= k)%nat) by lia.
    assert (Hs : subset (c_extent x) (c_extent y)).
    { rewrite E. apply bottom_least. eapply concept_at_closed. exact Hy. }
    pose proof (order_extends_inclusion_le k x 0 y Hx Hy Hs) as Hk.
    assert (k = 0)%nat by lia. subst k. exists x. rewrite upO_clO in Hi by apply in_range_0. auto.
  Qed.

  Theorem supremum_last :
    exists x, concept_at L (supremum_index L) x /\ c_extent x = ones (nG c) /\ c_intent x = upO c (ones (nG c)).
  Proof.
    destruct (mapping_total _ (closed_ones c)) as (k & x & _ & Hx & E & Hi).
    assert (Hs : (supremum_index L < size)%nat) by (unfold supremum_index; pose proof size_pos; lia).
    destruct (concept_at_exists _ Hs) as [y Hy].
    assert (Hsub : subset (c_extent y) (c_extent x)).
    { rewrite E. apply top_greatest. eapply concept_at_closed. exact Hy. }
    pose proof (order_extends_inclusion_le _ y k x Hy Hx Hsub) as Hk.
    pose proof (concept_at_lt k x Hx) as Hlt.
    assert (k = supremum_index L) by (unfold supremum_index in *; lia). subst k. exists x. auto.
  Qed.

  Theorem infimum_least x0 i x : concept_at L 0 x0 -> concept_at L i x -> subset (c_extent x0) (c_extent x).
  Proof.
    intros H0 Hx. destruct infimum_first as (y & Hy & E & _).
    rewrite (concept_at_fun 0 x0 y H0 Hy), E. apply bottom_least. eapply concept_at_closed. exact Hx.
  Qed.

  Theorem supremum_greatest x1 i x :
    concept_at L (supremum_index L) x1 -> concept_at L i x -> subset (c_extent x) (c_extent x1).
  Proof.
    intros H1 Hx. destruct supremum_last as (y & Hy & E & _).
    rewrite (concept_at_fun _ x1 y H1 Hy), E. apply top_greatest. eapply concept_at_closed. exact Hx.
  Qed.

  Lemma ext_0 : ext 0 = clO c 0.
  Proof. destruct infimum_first as (x & Hx & E & _). rewrite (concept_at_ext 0 x Hx). exact E. Qed.

  Lemma ext_sup : ext (supremum_index L) = ones (nG c).
  Proof. destruct supremum_last as (x & Hx & E & _). rewrite (concept_at_ext _ x Hx). exact E. Qed.

  Lemma sup_lt : (supremum_index L < size)%nat.
  Proof. unfold supremum_index. pose proof size_pos. lia. Qed.

  (** ** 2. C02: lattice[items], lattice(props) *)

  Theorem lattice_getitem_objects gs :
    gs <> [] -> Forall (fun g => (g < nG c)%nat) gs ->
    exists k x, lattice_getitem d L (map inl gs) = Ok k /\ concept_at L k x
      /\ c_extent x = clO c (of_list gs) /\ c_intent x = upO c (of_list gs).
  Proof.
    intros Hne Hgs.
    assert (HA : in_range (nG c) (of_list gs)) by (apply in_range_of_list; exact Hgs).
    destruct (mapping_total _ (closedO_clO c _ HA)) as (k & x & Hk & Hx & E & Hi).
    exists k, x. split; [|split; [exact Hx|split; [exact E|]]].
    - assert (Hg : getitem_raw d (l_k L) (map inl gs) = Ok (clO c (of_list gs), upO c (of_list gs))).
      { rewrite (ok_ctx c L OK). apply getitem_objects; assumption. }
      unfold lattice_getitem. destruct gs as [|g gs']; [congruence|].
      cbn [map] in *. rewrite Hg. cbn [bind]. exact Hk.
    - rewrite Hi. apply upO_clO. exact HA.
  Qed.

  Theorem lattice_getitem_properties ms :
    ms <> [] -> Forall (fun m => (m < nM c)%nat) ms ->
    exists k x, lattice_getitem d L (map inr ms) = Ok k /\ concept_at L k x
      /\ c_extent x = upM c (of_list ms) /\ c_intent x = clM c (of_list ms).
  Proof.
    intros Hne Hms.
    assert (HB : in_range (nM c) (of_list ms)) by (apply in_range_of_list; exact Hms).
    destruct (mapping_total _ (closed_upM c _ HB)) as (k & x & Hk & Hx & E & Hi).
    exists k, x. split; [|split; [exact Hx|split; [exact E|exact Hi]]].
    assert (Hg : getitem_raw d (l_k L) (map inr ms) = Ok (upM c (of_list ms), clM c (of_list ms))).
    { rewrite (ok_ctx c L OK). apply getitem_properties; assumption. }
    unfold lattice_getitem. destruct ms as [|m ms']; [congruence|].
    cbn [map] in *. rewrite Hg. cbn [bind]. exact Hk.
  Qed.

  Lemma extension_raw_spec ms : Forall (fun m => (m < nM c)%nat) ms ->
    extension_raw d (l_k L) ms = Ok (upM c (of_list ms)).
  Proof.
    intros Hms. rewrite (ok_ctx c L OK). unfold extension_raw, properties_prime, relation_new. cbn [mc mcols].
    rewrite (frommembers_ok _ _ Hms). cbn [bind].
    pose proof (in_range_of_list _ _ Hms) as HB.
    fold (primeM d c (of_list ms)).
    apply primeM_spec; [exact HB|]. pose proof (bits_size_le _ _ HB). lia.
  Qed.

  (** lattice(props), for any tuple of property labels, the empty one included *)
  Theorem lattice_call_spec ms : Forall (fun m => (m < nM c)%nat) ms ->
    exists k x, lattice_call d L ms = Ok k /\ concept_at L k x
      /\ c_extent x = upM c (of_list ms) /\ c_intent x = clM c (of_list ms).
  Proof.
    intros Hms.
    assert (HB : in_range (nM c) (of_list ms)) by (apply in_range_of_list; exact Hms).
    destruct (mapping_total _ (closed_upM c _ HB)) as (k & x & Hk & Hx & E & Hi).
    exists k, x. split; [|split; [exact Hx|split; [exact E|exact Hi]]].
    unfold lattice_call. rewrite (extension_raw_spec ms Hms). cbn [bind]. exact Hk.
  Qed.

  Theorem lattice_call_nil : lattice_call d L [] = Ok (supremum_index L).
  Proof.
    unfold lattice_call. rewrite (extension_raw_spec [] (Forall_nil _)). cbn [bind of_list fold_right].
    unfold upM. rewrite up_0, <- ext_sup. apply mapping_get_ext. exact sup_lt.
  Qed.

  Theorem lattice_getitem_nil : lattice_getitem d L [] = Ok (supremum_index L).
  Proof. reflexivity. Qed.

  Theorem lattice_getitem_nil_top :
    exists x, lattice_getitem d L [] = Ok (supremum_index L) /\ concept_at L (supremum_index L) x
      /\ c_extent x = ones (nG c) /\ c_intent x = upO c (ones (nG c)).
  Proof. destruct supremum_last as (x & H). exists x. split; [reflexivity|exact H]. Qed.

  (** unknown labels *)
  Theorem lattice_call_unknown ms : ~ Forall (fun m => (m < nM c)%nat) ms ->
    lattice_call d L ms = Raise KeyError.
  Proof.
    intros H. unfold lattice_call, extension_raw. rewrite (ok_ctx c L OK). cbn [mc relation_new].
    rewrite (frommembers_unknown _ _ H). reflexivity.
  Qed.

  (** ** 4. C07: n-ary join and meet *)

  Definition union_of (cs : list nat) : Z := fold_left Z.lor (map ext cs) 0.
  Definition inter_of (cs : list nat) : Z := fold_left Z.land (map ext cs) (ones (nG c)).

  Lemma model_union cs : fold_left (fun acc i => Z.lor acc (ext i)) cs 0 = union_of cs.
  Proof. apply (fold_left_map_gen Z.lor ext). Qed.

  Lemma model_inter cs :
    fold_left (fun acc i => Z.land acc (ext i)) cs (ones (nG (mc (l_k L)))) = inter_of cs.
  Proof. rewrite nG_lk. apply (fold_left_map_gen Z.land ext). Qed.

  Lemma union_of_in_range cs : in_range (nG c) (union_of cs).
  Proof.
    unfold union_of. apply fold_lor_in_range; [|apply in_range_0].
    apply Forall_forall. intros e He. apply in_map_iff in He. destruct He as [i [<- _]]. apply ext_in_range.
  Qed.

  Lemma mem_union_of cs g : mem (union_of cs) g = true <-> exists i, In i cs /\ mem (ext i) g = true.
  Proof.
    unfold union_of. rewrite mem_fold_lor, mem_0. cbn [orb]. rewrite existsb_exists. split.
    - intros [e [He Hm]]. apply in_map_iff in He. destruct He as [i [<- Hi]]. eauto.
    - intros [i [Hi Hm]]. exists (ext i). split; [apply in_map; exact Hi|exact Hm].
  Qed.

  Lemma mem_inter_of cs g :
    mem (inter_of cs) g = true <-> (g < nG c)%nat /\ forall i, In i cs -> mem (ext i) g = true.
  Proof.
    unfold inter_of. rewrite mem_fold_land, mem_ones, andb_true_iff, Nat.ltb_lt, forallb_forall. split.
    - intros [Hg H]. split; [exact Hg|]. intros i Hi. apply H. apply in_map. exact Hi.
    - intros [Hg H]. split; [exact Hg|]. intros e He. apply in_map_iff in He. destruct He as [i [<- Hi]]. auto.
  Qed.

  Lemma inter_of_closed cs : Forall (fun i => (i < size)%nat) cs -> closedO c (inter_of cs).
  Proof.
    intros Hcs. unfold inter_of. apply fold_land_closed; [|apply closed_ones].
    apply Forall_forall. intros e He. apply in_map_iff in He. destruct He as [i [<- Hi]].
    apply ext_closed. rewrite Forall_forall in Hcs. auto.
  Qed.

  Lemma objects_double_lk A : in_range (nG c) A -> objects_double d (l_k L) A = Ok (clO c A).
  Proof. intros HA. rewrite (ok_ctx c L OK). apply objects_double_spec; assumption. Qed.

  (** functional forms: the result is the lookup of the join / meet extent *)
  Lemma lattice_join_eq cs : lattice_join d L cs = mapping_get exts (clO c (union_of cs)).
  Proof.
    unfold lattice_join. rewrite model_union, (objects_double_lk _ (union_of_in_range cs)). reflexivity.
  Qed.

  Lemma lattice_meet_eq cs : Forall (fun i => (i < size)%nat) cs ->
    lattice_meet d L cs = mapping_get exts (inter_of cs).
  Proof.
    intros Hcs. unfold lattice_meet. rewrite model_inter.
    pose proof (inter_of_closed cs Hcs) as [Hr Hc].
    rewrite (objects_double_lk _ Hr). cbn [bind]. rewrite Hc. reflexivity.
  Qed.

  Theorem lattice_join_spec cs :
    exists k x, lattice_join d L cs = Ok k /\ concept_at L k x
      /\ c_extent x = clO c (fold_left Z.lor (map (nth_extent (l_exts L)) cs) 0)
      /\ c_intent x = upO c (fold_left Z.lor (map (nth_extent (l_exts L)) cs) 0)
      (* upper bound *)
      /\ (forall i, In i cs -> subset (nth_extent (l_exts L) i) (c_extent x))
      (* least among the members of L *)
      /\ (forall j y, concept_at L j y ->
            (forall i, In i cs -> subset (nth_extent (l_exts L) i) (c_extent y)) ->
            subset (c_extent x) (c_extent y) /\ (k <= j)%nat)
      (* least among all closed extents *)
      /\ (forall E, closedO c E -> (forall i, In i cs -> subset (nth_extent (l_exts L) i) E) ->
            subset (c_extent x) E).
  Proof.
    fold (union_of cs). pose proof (union_of_in_range cs) as Hr.
    destruct (mapping_total _ (closedO_clO c _ Hr)) as (k & x & Hk & Hx & E & Hi).
    exists k, x. split; [rewrite lattice_join_eq; exact Hk|]. split; [exact Hx|]. split; [exact E|].
    split; [rewrite Hi; apply upO_clO; exact Hr|].
    assert (Hleast : forall E', closedO c E' -> (forall i, In i cs -> subset (ext i) E') ->
                                subset (c_extent x) E').
    { intros E' [HE' Hc'] Hall. rewrite E, <- Hc'. apply clO_monotone.
      intros g Hg. apply mem_union_of in Hg. destruct Hg as [i [Hi' Hm]]. exact (Hall i Hi' g Hm). }
    split; [|split; [|exact Hleast]].
    - intros i Hin g Hg. rewrite E. apply clO_extensive; [exact Hr|]. apply mem_union_of. eauto.
    - intros j y Hy Hall.
      assert (Hs : subset (c_extent x) (c_extent y)).
      { apply Hleast; [eapply concept_at_closed; exact Hy|exact Hall]. }
      split; [exact Hs|]. exact (order_extends_inclusion_le k x j y Hx Hy Hs).
  Qed.

  Theorem lattice_join_nil : lattice_join d L [] = Ok 0%nat.
  Proof.
    rewrite lattice_join_eq. unfold union_of. cbn [map fold_left].
    rewrite <- ext_0. apply mapping_get_ext. exact size_pos.
  Qed.

  Theorem lattice_meet_spec cs : Forall (fun i => (i < length (l_concepts L))%nat) cs ->
    exists k x, lattice_meet d L cs = Ok k /\ concept_at L k x
      /\ c_extent x = fold_left Z.land (map (nth_extent (l_exts L)) cs) (ones (nG c))
      (* lower bound *)
      /\ (forall i, In i cs -> subset (c_extent x) (nth_extent (l_exts L) i))
      (* greatest among the members of L *)
      /\ (forall j y, concept_at L j y ->
            (forall i, In i cs -> subset (c_extent y) (nth_extent (l_exts L) i)) ->
            subset (c_extent y) (c_extent x) /\ (j <= k)%nat)
      (* greatest among all sets of objects *)
      /\ (forall E, in_range (nG c) E -> (forall i, In i cs -> subset E (nth_extent (l_exts L) i)) ->
            subset E (c_extent x)).
  Proof.
    intros Hcs. fold (inter_of cs).
    destruct (mapping_total _ (inter_of_closed cs Hcs)) as (k & x & Hk & Hx & E & Hi).
    exists k, x. split; [rewrite lattice_meet_eq by exact Hcs; exact Hk|]. split; [exact Hx|]. split; [exact E|].
    assert (Hgreatest : forall E', in_range (nG c) E' -> (forall i, In i cs -> subset E' (ext i)) ->
                                   subset E' (c_extent x)).
    { intros E' HE' Hall g Hg. rewrite E. apply mem_inter_of.
      split; [exact (mem_lt_of_in_range _ _ _ HE' Hg)|]. intros i Hin. exact (Hall i Hin g Hg). }
    split; [|split; [|exact Hgreatest]].
    - intros i Hin g Hg. rewrite E in Hg. apply mem_inter_of in Hg. destruct Hg as [_ Hg]. auto.
    - intros j y Hy Hall.
      assert (Hs : subset (c_extent y) (c_extent x)).
      { apply Hgreatest; [exact (proj1 (concept_at_closed j y Hy))|exact Hall]. }
      split; [exact Hs|]. exact (order_extends_inclusion_le j y k x Hy Hx Hs).
  Qed.

  Theorem lattice_meet_nil : lattice_meet d L [] = Ok (supremum_index L).
  Proof.
    rewrite lattice_meet_eq by constructor. unfold inter_of. cbn [map fold_left].
    rewrite <- ext_sup. apply mapping_get_ext. exact sup_lt.
  Qed.

  (** singletons: join / meet of one member is that member *)
  Theorem lattice_join_single i : (i < size)%nat -> lattice_join d L [i] = Ok i.
  Proof.
    intros Hi. rewrite lattice_join_eq. unfold union_of. cbn [map fold_left]. rewrite Z.lor_0_l.
    rewrite (proj2 (ext_closed i Hi)). apply mapping_get_ext. exact Hi.
  Qed.

  Theorem lattice_meet_single i : (i < size)%nat -> lattice_meet d L [i] = Ok i.
  Proof.
    intros Hi. rewrite lattice_meet_eq by (constructor; [exact Hi|constructor]).
    unfold inter_of. cbn [map fold_left].
    assert (E : Z.land (ones (nG c)) (ext i) = ext i).
    { rewrite Z.land_comm. apply (land_eq_l_iff (nG c) _ _ (ext_in_range i)).
      apply top_greatest. apply ext_closed. exact Hi. }
    rewrite E. apply mapping_get_ext. exact Hi.
  Qed.

  (** ** binary forms through the translated kernels *)

  Theorem concept_join_spec i j : concept_join d L i j = lattice_join d L [i; j].
  Proof.
    unfold concept_join, join, lattice_join. cbn [fold_left]. rewrite Z.lor_0_l.
    destruct (objects_double d (l_k L) (Z.lor (ext i) (ext j))) as [e|e]; cbn [bind]; [|reflexivity].
    apply bind_ret.
  Qed.

  Lemma land_ones_ext i : Z.land (ones (nG c)) (ext i) = ext i.
  Proof.
    rewrite Z.land_comm. apply (land_eq_l_iff (nG c) _ _ (ext_in_range i)).
    intros g Hg. rewrite mem_ones. apply Nat.ltb_lt. exact (mem_lt_of_in_range _ _ _ (ext_in_range i) Hg).
  Qed.

  Theorem concept_meet_spec i j : concept_meet d L i j = lattice_meet d L [i; j].
  Proof.
    unfold concept_meet, meet, lattice_meet. cbn [fold_left]. rewrite nG_lk, land_ones_ext.
    destruct (objects_double d (l_k L) (Z.land (ext i) (ext j))) as [e|e]; cbn [bind]; [|reflexivity].
    apply bind_ret.
  Qed.

  Lemma concept_join_eq i j : concept_join d L i j = mapping_get exts (clO c (Z.lor (ext i) (ext j))).
  Proof.
    rewrite concept_join_spec, lattice_join_eq. unfold union_of. cbn [map fold_left]. rewrite Z.lor_0_l. reflexivity.
  Qed.

  Lemma concept_meet_eq i j : (i < size)%nat -> (j < size)%nat ->
    concept_meet d L i j = mapping_get exts (Z.land (ext i) (ext j)).
  Proof.
    intros Hi Hj. rewrite concept_meet_spec, lattice_meet_eq by (repeat constructor; assumption).
    unfold inter_of. cbn [map fold_left]. rewrite land_ones_ext. reflexivity.
  Qed.

  (** the result exists, is a member, and has the join / meet extent *)
  Theorem concept_join_ok i j :
    exists k, concept_join d L i j = Ok k /\ (k < size)%nat /\ ext k = clO c (Z.lor (ext i) (ext j)).
  Proof.
    rewrite concept_join_eq. apply mapping_get_closed, closedO_clO.
    apply in_range_lor; apply ext_in_range.
  Qed.

  Theorem concept_meet_ok i j : (i < size)%nat -> (j < size)%nat ->
    exists k, concept_meet d L i j = Ok k /\ (k < size)%nat /\ ext k = Z.land (ext i) (ext j).
  Proof.
    intros Hi Hj. rewrite concept_meet_eq by assumption.
    apply mapping_get_closed, closed_land; apply ext_closed; assumption.
  Qed.

  (** binary lub / glb *)
  Theorem concept_join_lub i j :
    exists k, concept_join d L i j = Ok k /\ (k < size)%nat
      /\ subset (ext i) (ext k) /\ subset (ext j) (ext k)
      /\ forall u, (u < size)%nat -> subset (ext i) (ext u) -> subset (ext j) (ext u) ->
           subset (ext k) (ext u).
  Proof.
    destruct (concept_join_ok i j) as (k & Hk & Hlt & E). exists k. split; [exact Hk|]. split; [exact Hlt|].
    rewrite E. pose proof (join_is_upper_bound c _ _ (ext_in_range i) (ext_in_range j)) as [H1 H2].
    split; [exact H1|]. split; [exact H2|]. intros u Hu Hiu Hju.
    apply join_is_least; try apply ext_in_range; try assumption. apply ext_closed. exact Hu.
  Qed.

  Theorem concept_meet_glb i j : (i < size)%nat -> (j < size)%nat ->
    exists k, concept_meet d L i j = Ok k /\ (k < size)%nat
      /\ subset (ext k) (ext i) /\ subset (ext k) (ext j)
      /\ forall l, subset (ext l) (ext i) -> subset (ext l) (ext j) -> subset (ext l) (ext k).
  Proof.
    intros Hi Hj. destruct (concept_meet_ok i j Hi Hj) as (k & Hk & Hlt & E).
    exists k. split; [exact Hk|]. split; [exact Hlt|].
    rewrite E. pose proof (meet_is_lower_bound (ext i) (ext j)) as [H1 H2].
    split; [exact H1|]. split; [exact H2|]. intros l. apply meet_is_greatest.
  Qed.

  (** ** algebra *)

  Theorem concept_join_comm i j : concept_join d L i j = concept_join d L j i.
  Proof. rewrite !concept_join_eq, Z.lor_comm. reflexivity. Qed.

  Theorem concept_meet_comm i j : concept_meet d L i j = concept_meet d L j i.
  Proof. unfold concept_meet, meet. rewrite Z.land_comm. reflexivity. Qed.

  Theorem concept_join_idem i : (i < size)%nat -> concept_join d L i i = Ok i.
  Proof.
    intros Hi. rewrite concept_join_eq, Z.lor_diag, (proj2 (ext_closed i Hi)).
    apply mapping_get_ext. exact Hi.
  Qed.

  Theorem concept_meet_idem i : (i < size)%nat -> concept_meet d L i i = Ok i.
  Proof.
    intros Hi. rewrite concept_meet_eq, Z.land_diag by assumption. apply mapping_get_ext. exact Hi.
  Qed.

  Theorem concept_join_assoc i j k : (i < size)%nat -> (j < size)%nat -> (k < size)%nat ->
    (do a <- concept_join d L i j ;; concept_join d L a k)
    = (do b <- concept_join d L j k ;; concept_join d L i b).
  Proof.
    intros Hi Hj Hk.
    destruct (concept_join_ok i j) as (a & Ha & _ & Ea).
    destruct (concept_join_ok j k) as (b & Hb & _ & Eb).
    rewrite Ha, Hb. cbn [bind]. rewrite !concept_join_eq, Ea, Eb.
    rewrite clO_lor_clO_l, clO_lor_clO_r; try apply in_range_lor; try apply ext_in_range.
    rewrite Z.lor_assoc. reflexivity.
  Qed.

  Theorem concept_meet_assoc i j k : (i < size)%nat -> (j < size)%nat -> (k < size)%nat ->
    (do a <- concept_meet d L i j ;; concept_meet d L a k)
    = (do b <- concept_meet d L j k ;; concept_meet d L i b).
  Proof.
    intros Hi Hj Hk.
    destruct (concept_meet_ok i j Hi Hj) as (a & Ha & Hla & Ea).
    destruct (concept_meet_ok j k Hj Hk) as (b & Hb & Hlb & Eb).
    rewrite Ha, Hb. cbn [bind]. rewrite !concept_meet_eq by assumption. rewrite Ea, Eb.
    rewrite Z.land_assoc. reflexivity.
  Qed.

  (** both associations are the n-ary form *)
  Theorem concept_join_assoc_nary i j k : (i < size)%nat -> (j < size)%nat -> (k < size)%nat ->
    (do a <- concept_join d L i j ;; concept_join d L a k) = lattice_join d L [i; j; k].
  Proof.
    intros Hi Hj Hk. destruct (concept_join_ok i j) as (a & Ha & _ & Ea).
    rewrite Ha. cbn [bind]. rewrite concept_join_eq, Ea, lattice_join_eq.
    unfold union_of. cbn [map fold_left]. rewrite Z.lor_0_l.
    rewrite clO_lor_clO_l; try apply in_range_lor; try apply ext_in_range. reflexivity.
  Qed.

  Theorem concept_meet_assoc_nary i j k : (i < size)%nat -> (j < size)%nat -> (k < size)%nat ->
    (do a <- concept_meet d L i j ;; concept_meet d L a k) = lattice_meet d L [i; j; k].
  Proof.
    intros Hi Hj Hk. destruct (concept_meet_ok i j Hi Hj) as (a & Ha & Hla & Ea).
    rewrite Ha. cbn [bind]. rewrite concept_meet_eq, Ea, lattice_meet_eq by (repeat constructor; assumption).
    unfold inter_of. cbn [map fold_left]. rewrite land_ones_ext. reflexivity.
  Qed.

  (** absorption *)
  Theorem absorption_join_meet i j : (i < size)%nat -> (j < size)%nat ->
    (do m <- concept_meet d L i j ;; concept_join d L i m) = Ok i.
  Proof.
    intros Hi Hj. destruct (concept_meet_ok i j Hi Hj) as (m & Hm & Hlm & Em).
    rewrite Hm. cbn [bind]. rewrite concept_join_eq, Em.
    assert (E : Z.lor (ext i) (Z.land (ext i) (ext j)) = ext i).
    { apply (bitset_ext (nG c)); [apply in_range_lor; [|apply in_range_land]; apply ext_in_range|apply ext_in_range|].
      intros g _. rewrite mem_lor, mem_land. destruct (mem (ext i) g); reflexivity. }
    rewrite E, (proj2 (ext_closed i Hi)). apply mapping_get_ext. exact Hi.
  Qed.

  Theorem absorption_meet_join i j : (i < size)%nat -> (j < size)%nat ->
    (do m <- concept_join d L i j ;; concept_meet d L i m) = Ok i.
  Proof.
    intros Hi Hj. destruct (concept_join_ok i j) as (m & Hm & Hlm & Em).
    rewrite Hm. cbn [bind]. rewrite concept_meet_eq, Em by assumption.
    assert (E : Z.land (ext i) (clO c (Z.lor (ext i) (ext j))) = ext i).
    { apply (land_eq_l_iff (nG c) _ _ (ext_in_range i)).
      apply (join_is_upper_bound c _ _ (ext_in_range i) (ext_in_range j)). }
    rewrite E. apply mapping_get_ext. exact Hi.
  Qed.

  (** the order is recovered from join and from meet *)
  Theorem order_iff_join i j : (i < size)%nat -> (j < size)%nat ->
    (subset (ext i) (ext j) <-> concept_join d L i j = Ok j).
  Proof.
    intros Hi Hj. rewrite concept_join_eq.
    rewrite (proj1 (order_join_meet c _ _ (ext_closed i Hi) (ext_closed j Hj))). split.
    - intros ->. apply mapping_get_ext. exact Hj.
    - intros H. apply mapping_get_ok in H. symmetry. exact (proj2 H).
  Qed.

  Theorem order_iff_meet i j : (i < size)%nat -> (j < size)%nat ->
    (subset (ext i) (ext j) <-> concept_meet d L i j = Ok i).
  Proof.
    intros Hi Hj. rewrite concept_meet_eq by assumption.
    rewrite (proj2 (order_join_meet c _ _ (ext_closed i Hi) (ext_closed j Hj))). split.
    - intros ->. apply mapping_get_ext. exact Hi.
    - intros H. apply mapping_get_ok in H. symmetry. exact (proj2 H).
  Qed.

  Theorem implies_iff_join_iff_meet i j sup : (i < size)%nat -> (j < size)%nat ->
    (implies (ext i) (ext j) sup = Ok true <-> concept_join d L i j = Ok j)
    /\ (concept_join d L i j = Ok j <-> concept_meet d L i j = Ok i)
    /\ (implies (ext i) (ext j) sup = Ok true <-> concept_meet d L i j = Ok i).
  Proof.
    intros Hi Hj.
    assert (Himp : implies (ext i) (ext j) sup = Ok true <-> subset (ext i) (ext j)).
    { exact (implies_spec (nG c) (ext i) (ext j) (ext_in_range i)). }
    pose proof (order_iff_join i j Hi Hj) as H1. pose proof (order_iff_meet i j Hi Hj) as H2.
    rewrite Himp. tauto.
  Qed.
End Queries.
