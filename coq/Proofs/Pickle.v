(** Pickled copies of a lattice are the same lattice (copies clause of C05, C06, C10, C11).

    [copy_lattice L] models [pickle.loads(pickle.dumps(L))]: Concept.__getstate__ replaces the
    linked concepts by their stored [index] attribute, Lattice.__setstate__ resolves these numbers
    as positions in the pickled concept list and rebuilds the {extent: concept} mapping.

    Main results:
    - [copy_lattice_iff]: the copy equals the original EXACTLY WHEN every link position is in range
      and carries its own position as [index] attribute, and the mapping is the list of extents;
    - [copy_lattice_ok], [copy_lattice_twice]: so it does for every [lattice_ok] record;
    - [pickle_concept_uses_index]: and it does not as soon as one linked concept has a wrong index;
    - [copy_lattice_end_to_end]: for the value returned by [build_lattice]. *)
From Coq Require Import ZArith List Bool Lia Arith.
From Concepts Require Import Base.Res Base.PyInt Base.BitSet Spec.FCA Spec.Context Spec.LatticeSpec
  Model.Matrices Model.ContextApi Model.Lattice Model.Pickle Proofs.BuildLattice.
Import ListNotations.
Local Open Scope nat_scope.

(** * map_res *)

Lemma map_res_id_in {A} (f : A -> res A) l :
  (forall x, In x l -> f x = Ok x) -> map_res f l = Ok l.
Proof.
  induction l as [|a l IH]; intros H; cbn [map_res]; [reflexivity|].
  rewrite (H a (or_introl eq_refl)). cbn [bind].
  rewrite IH by (intros x Hx; apply H; right; exact Hx). reflexivity.
Qed.

Lemma map_res_cons_inv {A B} (f : A -> res B) a l ys :
  map_res f (a :: l) = Ok ys -> exists y ys', ys = y :: ys' /\ f a = Ok y /\ map_res f l = Ok ys'.
Proof.
  cbn [map_res]. destruct (f a) as [y|e]; cbn [bind]; [|discriminate].
  destruct (map_res f l) as [ys'|e]; cbn [bind]; [|discriminate].
  intros H; injection H as <-. eauto.
Qed.

Lemma map_res_nth {A B} (f : A -> res B) l : forall ys i x,
  map_res f l = Ok ys -> nth_error l i = Some x -> exists y, nth_error ys i = Some y /\ f x = Ok y.
Proof.
  induction l as [|a l IH]; intros ys i x H Hn.
  - destruct i; discriminate.
  - destruct (map_res_cons_inv f a l ys H) as (y & ys' & -> & Hy & Hr).
    destruct i as [|i]; cbn [nth_error] in *.
    + injection Hn as <-. eauto.
    + eapply IH; eauto.
Qed.

Lemma map_res_length {A B} (f : A -> res B) l : forall ys, map_res f l = Ok ys -> length ys = length l.
Proof.
  induction l as [|a l IH]; intros ys H.
  - cbn in H. injection H as <-. reflexivity.
  - destruct (map_res_cons_inv f a l ys H) as (y & ys' & -> & _ & Hr). cbn [length]. f_equal. auto.
Qed.

Lemma map_res_in_ok {A B} (f : A -> res B) l : forall ys x,
  map_res f l = Ok ys -> In x l -> exists y, f x = Ok y /\ In y ys.
Proof.
  induction l as [|a l IH]; intros ys x H Hx; [destruct Hx|].
  destruct (map_res_cons_inv f a l ys H) as (y & ys' & -> & Hy & Hr).
  destruct Hx as [<-|Hx].
  - exists y. split; [exact Hy|left; reflexivity].
  - destruct (IH ys' x Hr Hx) as (z & Hz & Hin). exists z. split; [exact Hz|right; exact Hin].
Qed.

(** a [map_res] whose successes are the identity returns its argument *)
Lemma map_res_id_result {A} (f : A -> res A) l :
  (forall x y, f x = Ok y -> y = x) -> forall ys, map_res f l = Ok ys -> ys = l.
Proof.
  intros Hid. induction l as [|a l IH]; intros ys H.
  - cbn in H. injection H as <-. reflexivity.
  - destruct (map_res_cons_inv f a l ys H) as (y & ys' & -> & Hy & Hr).
    rewrite (Hid a y Hy), (IH ys' Hr). reflexivity.
Qed.

(** the same, position by position: [map_res f l = Ok l] forces [f x = Ok x] on members *)
Lemma map_res_fix_in {A} (f : A -> res A) l : map_res f l = Ok l -> forall x, In x l -> f x = Ok x.
Proof.
  induction l as [|a l IH]; intros H x Hx; [destruct Hx|].
  destruct (map_res_cons_inv f a l (a :: l) H) as (y & ys' & Heq & Hy & Hr).
  injection Heq as <- <-.
  destruct Hx as [<-|Hx]; [exact Hy|]. apply IH; assumption.
Qed.

(** * the links of a concept; what "well linked" means *)

Definition links (x : concept) : list nat := c_upper x ++ c_lower x ++ c_atoms x.

(** position [j] of [cs] holds a concept whose stored index attribute is [j] *)
Definition self_indexed (cs : list concept) (j : nat) : Prop :=
  exists y, nth_error cs j = Some y /\ c_index y = j.

Definition links_wf (L : lattice) : Prop :=
  forall i x j, concept_at L i x -> In j (links x) -> self_indexed (l_concepts L) j.

Lemma index_attr_self cs j : self_indexed cs j -> index_attr cs j = Ok j.
Proof. intros (y & Hy & Hi). unfold index_attr. rewrite Hy, Hi. reflexivity. Qed.

Lemma index_attr_fix cs j : index_attr cs j = Ok j -> self_indexed cs j.
Proof.
  unfold index_attr. destruct (nth_error cs j) as [y|] eqn:E; [|discriminate].
  intros H; injection H as H. exists y. split; [exact E|exact H].
Qed.

Lemma self_indexed_lt cs j : self_indexed cs j -> j < length cs.
Proof. intros (y & Hy & _). apply nth_error_Some. congruence. Qed.

Lemma resolve_index_lt n i : i < n -> resolve_index n i = Ok i.
Proof. intros H. unfold resolve_index. apply Nat.ltb_lt in H. rewrite H. reflexivity. Qed.

Lemma resolve_index_ok n i j : resolve_index n i = Ok j -> j = i /\ i < n.
Proof.
  unfold resolve_index. destruct (Nat.ltb i n) eqn:E; [|discriminate].
  intros H; injection H as <-. split; [reflexivity|apply Nat.ltb_lt; exact E].
Qed.

Lemma pickle_links_self cs js :
  (forall j, In j js -> self_indexed cs j) -> pickle_links cs js = Ok js.
Proof. intros H. apply map_res_id_in. intros j Hj. apply index_attr_self, H, Hj. Qed.

Lemma pickle_links_fix cs js : pickle_links cs js = Ok js -> forall j, In j js -> self_indexed cs j.
Proof. intros H j Hj. apply index_attr_fix. exact (map_res_fix_in _ _ H j Hj). Qed.

Lemma unpickle_links_lt n js : (forall j, In j js -> j < n) -> unpickle_links n js = Ok js.
Proof. intros H. apply map_res_id_in. intros j Hj. apply resolve_index_lt, H, Hj. Qed.

Lemma unpickle_links_ok n is js : unpickle_links n is = Ok js -> js = is.
Proof.
  apply map_res_id_result. intros x y H. exact (proj1 (resolve_index_ok n x y H)).
Qed.

(** * one concept *)

Lemma concept_eta x :
  mkConcept (c_extent x) (c_intent x) (c_upper x) (c_lower x) (c_index x) (c_dindex x) (c_atoms x)
            (c_objects x) (c_properties x) = x.
Proof. destruct x; reflexivity. Qed.

Lemma pickle_concept_self cs x :
  (forall j, In j (links x) -> self_indexed cs j) -> pickle_concept cs x = Ok x.
Proof.
  intros H. unfold pickle_concept, links in *.
  rewrite (pickle_links_self cs (c_upper x)) by (intros j Hj; apply H, in_or_app; left; exact Hj).
  cbn [bind].
  rewrite (pickle_links_self cs (c_lower x))
    by (intros j Hj; apply H, in_or_app; right; apply in_or_app; left; exact Hj).
  cbn [bind].
  rewrite (pickle_links_self cs (c_atoms x))
    by (intros j Hj; apply H, in_or_app; right; apply in_or_app; right; exact Hj).
  cbn [bind]. rewrite concept_eta. reflexivity.
Qed.

Lemma unpickle_concept_lt n x : (forall j, In j (links x) -> j < n) -> unpickle_concept n x = Ok x.
Proof.
  intros H. unfold unpickle_concept, links in *.
  rewrite (unpickle_links_lt n (c_upper x)) by (intros j Hj; apply H, in_or_app; left; exact Hj).
  cbn [bind].
  rewrite (unpickle_links_lt n (c_lower x))
    by (intros j Hj; apply H, in_or_app; right; apply in_or_app; left; exact Hj).
  cbn [bind].
  rewrite (unpickle_links_lt n (c_atoms x))
    by (intros j Hj; apply H, in_or_app; right; apply in_or_app; right; exact Hj).
  cbn [bind]. rewrite concept_eta. reflexivity.
Qed.

(** unpickling never changes a concept: when it succeeds the result is the argument *)
Lemma unpickle_concept_ok n x y : unpickle_concept n x = Ok y -> y = x.
Proof.
  unfold unpickle_concept.
  destruct (unpickle_links n (c_upper x)) as [up|e] eqn:Eu; cbn [bind]; [|discriminate].
  destruct (unpickle_links n (c_lower x)) as [lo|e] eqn:El; cbn [bind]; [|discriminate].
  destruct (unpickle_links n (c_atoms x)) as [at_|e] eqn:Ea; cbn [bind]; [|discriminate].
  intros H; injection H as <-.
  rewrite (unpickle_links_ok _ _ _ Eu), (unpickle_links_ok _ _ _ El), (unpickle_links_ok _ _ _ Ea).
  apply concept_eta.
Qed.

(** what pickling does to the links, field by field *)
Lemma pickle_concept_fields cs x y : pickle_concept cs x = Ok y ->
  pickle_links cs (c_upper x) = Ok (c_upper y) /\
  pickle_links cs (c_lower x) = Ok (c_lower y) /\
  pickle_links cs (c_atoms x) = Ok (c_atoms y) /\
  c_extent y = c_extent x /\ c_intent y = c_intent x /\ c_index y = c_index x /\
  c_dindex y = c_dindex x /\ c_objects y = c_objects x /\ c_properties y = c_properties x.
Proof.
  unfold pickle_concept.
  destruct (pickle_links cs (c_upper x)) as [up|e]; cbn [bind]; [|discriminate].
  destruct (pickle_links cs (c_lower x)) as [lo|e]; cbn [bind]; [|discriminate].
  destruct (pickle_links cs (c_atoms x)) as [at_|e]; cbn [bind]; [|discriminate].
  intros H; injection H as <-. cbn. repeat split; reflexivity.
Qed.

Lemma pickle_concept_fix cs x : pickle_concept cs x = Ok x ->
  forall j, In j (links x) -> self_indexed cs j.
Proof.
  intros H. destruct (pickle_concept_fields cs x x H) as (Hu & Hl & Ha & _).
  intros j Hj. unfold links in Hj.
  apply in_app_or in Hj. destruct Hj as [Hj|Hj]; [exact (pickle_links_fix _ _ Hu j Hj)|].
  apply in_app_or in Hj. destruct Hj as [Hj|Hj];
    [exact (pickle_links_fix _ _ Hl j Hj)|exact (pickle_links_fix _ _ Ha j Hj)].
Qed.

(** * the lattice *)

Lemma lattice_eta L : mkLattice (l_k L) (l_concepts L) (l_exts L) = L.
Proof. destruct L; reflexivity. Qed.

Lemma pickle_lattice_self L : links_wf L -> pickle_lattice L = Ok L.
Proof.
  intros H. unfold pickle_lattice.
  rewrite (map_res_id_in (pickle_concept (l_concepts L)) (l_concepts L)).
  - cbn [bind]. rewrite lattice_eta. reflexivity.
  - intros x Hx. destruct (In_nth_error _ _ Hx) as (i & Hi).
    apply pickle_concept_self. intros j Hj. exact (H i x j Hi Hj).
Qed.

Lemma unpickle_lattice_self L :
  links_wf L -> l_exts L = map c_extent (l_concepts L) -> unpickle_lattice L = Ok L.
Proof.
  intros H He. unfold unpickle_lattice.
  rewrite (map_res_id_in (unpickle_concept (length (l_concepts L))) (l_concepts L)).
  - cbn [bind]. rewrite <- He, lattice_eta. reflexivity.
  - intros x Hx. destruct (In_nth_error _ _ Hx) as (i & Hi).
    apply unpickle_concept_lt. intros j Hj. exact (self_indexed_lt _ _ (H i x j Hi Hj)).
Qed.

(** unpickling only recomputes the mapping *)
Lemma unpickle_lattice_ok S L : unpickle_lattice S = Ok L ->
  l_k L = l_k S /\ l_concepts L = l_concepts S /\ l_exts L = map c_extent (l_concepts S).
Proof.
  unfold unpickle_lattice.
  destruct (map_res (unpickle_concept (length (l_concepts S))) (l_concepts S)) as [cs|e] eqn:E;
    cbn [bind]; [|discriminate].
  intros H; injection H as <-. cbn [l_k l_concepts l_exts].
  assert (cs = l_concepts S) as ->.
  { apply (map_res_id_result (unpickle_concept (length (l_concepts S)))); [|exact E].
    intros x y. apply unpickle_concept_ok. }
  repeat split; reflexivity.
Qed.

(** ** characterisation: the copy is the original exactly when the record is well linked *)
Theorem copy_lattice_iff L :
  copy_lattice L = Ok L <-> links_wf L /\ l_exts L = map c_extent (l_concepts L).
Proof.
  split.
  - unfold copy_lattice. destruct (pickle_lattice L) as [S|e] eqn:EP; cbn [bind]; [|discriminate].
    intros HU. destruct (unpickle_lattice_ok S L HU) as (_ & Hc & He).
    unfold pickle_lattice in EP.
    destruct (map_res (pickle_concept (l_concepts L)) (l_concepts L)) as [cs|e] eqn:E;
      cbn [bind] in EP; [|discriminate].
    injection EP as <-. cbn [l_concepts] in Hc, He. subst cs.
    split; [|exact He].
    intros i x j Hi Hj. unfold concept_at in Hi.
    apply (pickle_concept_fix (l_concepts L) x); [|exact Hj].
    exact (map_res_fix_in _ _ E x (nth_error_In _ _ Hi)).
  - intros (H & He). unfold copy_lattice. rewrite (pickle_lattice_self L H). cbn [bind].
    exact (unpickle_lattice_self L H He).
Qed.

(** * 1. a correct lattice record is well linked, hence equal to its pickled copy *)

Lemma lattice_ok_links_wf c L : lattice_ok c L -> links_wf L.
Proof.
  intros OK i x j Hi Hj. unfold links in Hj.
  assert (Hy : exists y, concept_at L j y).
  { apply in_app_or in Hj. destruct Hj as [Hj|Hj].
    - destruct (proj1 (ok_upper c L OK i x j Hi) Hj) as (y & Hy & _). eauto.
    - apply in_app_or in Hj. destruct Hj as [Hj|Hj].
      + destruct (proj1 (ok_lower c L OK i x j Hi) Hj) as (y & Hy & _). eauto.
      + destruct (proj1 (ok_atoms c L OK i x j Hi) Hj) as (y & Hy & _). eauto. }
  destruct Hy as (y & Hy). exists y. split; [exact Hy|exact (ok_index c L OK j y Hy)].
Qed.

Theorem copy_lattice_ok c L : lattice_ok c L -> copy_lattice L = Ok L.
Proof.
  intros OK. apply copy_lattice_iff. split; [exact (lattice_ok_links_wf c L OK)|exact (ok_exts c L OK)].
Qed.

(** the pickled state itself is the same record (indices = positions), and loading it too *)
Theorem pickle_lattice_ok c L : lattice_ok c L -> pickle_lattice L = Ok L.
Proof. intros OK. exact (pickle_lattice_self L (lattice_ok_links_wf c L OK)). Qed.

Theorem unpickle_lattice_of_ok c L : lattice_ok c L -> unpickle_lattice L = Ok L.
Proof. intros OK. exact (unpickle_lattice_self L (lattice_ok_links_wf c L OK) (ok_exts c L OK)). Qed.

(** so the copy is again a correct lattice of the same context *)
Corollary copy_lattice_lattice_ok c L L' : lattice_ok c L -> copy_lattice L = Ok L' -> lattice_ok c L'.
Proof. intros OK H. rewrite (copy_lattice_ok c L OK) in H. injection H as <-. exact OK. Qed.

(** * 2. copies of copies *)
Theorem copy_lattice_twice c L :
  lattice_ok c L -> (do L1 <- copy_lattice L ;; copy_lattice L1) = Ok L.
Proof. intros OK. rewrite (copy_lattice_ok c L OK). cbn [bind]. exact (copy_lattice_ok c L OK). Qed.

(** * 3. pickling goes through the stored [index] attribute: without [ok_index] the copy differs *)

(** a link to a position whose concept carries another index: the copy (if any) is not [L] *)
Theorem pickle_concept_uses_index L i x j y :
  concept_at L i x -> In j (links x) -> concept_at L j y -> c_index y <> j ->
  copy_lattice L <> Ok L.
Proof.
  intros Hi Hj Hy Hne H. apply copy_lattice_iff in H. destruct H as (H & _).
  destruct (H i x j Hi Hj) as (y' & Hy' & Hidx). unfold concept_at in Hy.
  rewrite Hy in Hy'. injection Hy' as <-. exact (Hne Hidx).
Qed.

(** a dangling link (no Python counterpart) makes pickling raise *)
Theorem pickle_dangling_link L i x j :
  concept_at L i x -> In j (links x) -> length (l_concepts L) <= j -> copy_lattice L <> Ok L.
Proof.
  intros Hi Hj Hlen H. apply copy_lattice_iff in H. destruct H as (H & _).
  pose proof (self_indexed_lt _ _ (H i x j Hi Hj)). lia.
Qed.

(** more precisely: in the copy, the link is redirected to the stored index *)
Theorem copy_lattice_links L L' i x :
  copy_lattice L = Ok L' -> concept_at L i x ->
  exists x', concept_at L' i x' /\
    pickle_links (l_concepts L) (c_upper x) = Ok (c_upper x') /\
    pickle_links (l_concepts L) (c_lower x) = Ok (c_lower x') /\
    pickle_links (l_concepts L) (c_atoms x) = Ok (c_atoms x') /\
    c_extent x' = c_extent x /\ c_intent x' = c_intent x /\ c_index x' = c_index x /\
    c_dindex x' = c_dindex x /\ c_objects x' = c_objects x /\ c_properties x' = c_properties x.
Proof.
  unfold copy_lattice. destruct (pickle_lattice L) as [S|e] eqn:EP; cbn [bind]; [|discriminate].
  intros HU Hi. destruct (unpickle_lattice_ok S L' HU) as (_ & Hc & _).
  unfold pickle_lattice in EP.
  destruct (map_res (pickle_concept (l_concepts L)) (l_concepts L)) as [cs|e] eqn:E;
    cbn [bind] in EP; [|discriminate].
  injection EP as <-. cbn [l_concepts] in Hc.
  destruct (map_res_nth _ _ _ i x E Hi) as (x' & Hx' & Hp).
  exists x'. split; [unfold concept_at; rewrite Hc; exact Hx'|].
  exact (pickle_concept_fields _ _ _ Hp).
Qed.

(** concrete counter-example: two concepts linked to each other whose stored indexes are swapped;
    every link is in range, pickling and unpickling succeed, and the copy has each concept linked
    to itself *)
Definition swapped_lattice : lattice :=
  mkLattice (relation_new (mkCtx 1 1 [0%Z]))
    [mkConcept 0%Z 1%Z [1] [] 1 1 [1] [] [0]; mkConcept 1%Z 0%Z [] [0] 0 0 [1] [0] []]
    [0%Z; 1%Z].

Example pickle_concept_uses_index_example :
  copy_lattice swapped_lattice =
    Ok (mkLattice (relation_new (mkCtx 1 1 [0%Z]))
          [mkConcept 0%Z 1%Z [0] [] 1 1 [0] [] [0]; mkConcept 1%Z 0%Z [] [1] 0 0 [0] [0] []]
          [0%Z; 1%Z])
  /\ copy_lattice swapped_lattice <> Ok swapped_lattice.
Proof.
  split; [vm_compute; reflexivity|].
  apply (pickle_concept_uses_index swapped_lattice 0
           (mkConcept 0%Z 1%Z [1] [] 1 1 [1] [] [0]) 1 (mkConcept 1%Z 0%Z [] [0] 0 0 [1] [0] []));
    [reflexivity|cbn; left; reflexivity|reflexivity|cbn; discriminate].
Qed.

(** * 4. end to end: the lattice built from a context *)
Theorem copy_lattice_end_to_end : forall fuel dfuel c L,
  wf_ctx c -> Nat.max (nG c) (nM c) <= dfuel ->
  build_lattice fuel dfuel (relation_new c) = Ok L ->
  copy_lattice L = Ok L.
Proof.
  intros fuel dfuel c L Hwf Hd HB. exact (copy_lattice_ok c L (build_lattice_ok fuel dfuel c L Hwf Hd HB)).
Qed.

Theorem copy_lattice_twice_end_to_end : forall fuel dfuel c L,
  wf_ctx c -> Nat.max (nG c) (nM c) <= dfuel ->
  build_lattice fuel dfuel (relation_new c) = Ok L ->
  (do L1 <- copy_lattice L ;; copy_lattice L1) = Ok L.
Proof.
  intros fuel dfuel c L Hwf Hd HB. exact (copy_lattice_twice c L (build_lattice_ok fuel dfuel c L Hwf Hd HB)).
Qed.

Print Assumptions copy_lattice_iff.
Print Assumptions copy_lattice_ok.
Print Assumptions pickle_lattice_ok.
Print Assumptions unpickle_lattice_of_ok.
Print Assumptions copy_lattice_lattice_ok.
Print Assumptions copy_lattice_twice.
Print Assumptions pickle_concept_uses_index.
Print Assumptions pickle_dangling_link.
Print Assumptions copy_lattice_links.
Print Assumptions pickle_concept_uses_index_example.
Print Assumptions copy_lattice_end_to_end.
Print Assumptions copy_lattice_twice_end_to_end.
