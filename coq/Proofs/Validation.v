(** Validation theorems for Context(...) and Context.fromdict (property C19). *)
From Coq Require Import ZArith List Bool Lia ZifyBool Arith.
From Concepts Require Import Base.Res Base.PyInt Base.BitSet Spec.Context Model.Definition Model.Validation.
Import ListNotations.
Open Scope Z_scope.

(** * small list facts *)

Lemma memn_In x l : memn x l = true <-> In x l.
Proof.
  unfold memn. rewrite existsb_exists. split.
  - intros [y [Hy E]]. apply Nat.eqb_eq in E. subst. exact Hy.
  - intros H. exists x. split; [exact H|apply Nat.eqb_refl].
Qed.

Lemma existsb_false {A} (f : A -> bool) l : existsb f l = false <-> forall x, In x l -> f x = false.
Proof.
  induction l as [|y l IH]; cbn [existsb In].
  - split; [intros _ x []|reflexivity].
  - rewrite orb_false_iff, IH. split.
    + intros [H1 H2] x [<-|Hx]; auto.
    + intros H. split; [apply H; left; reflexivity|intros x Hx; apply H; right; exact Hx].
Qed.

Lemma has_dup_NoDup l : has_dup l = false <-> NoDup l.
Proof.
  induction l as [|x r IH]; cbn [has_dup].
  - split; [intros _; constructor|reflexivity].
  - rewrite orb_false_iff, IH. split.
    + intros [H1 H2]. constructor; [|exact H2]. intros Hin. apply memn_In in Hin. congruence.
    + intros H. inversion H as [|? ? Hn Hd]; subst. split; [|exact Hd].
      destruct (memn x r) eqn:E; [|reflexivity]. apply memn_In in E. contradiction.
Qed.

(** * Context(objects, properties, bools) *)

Definition names_ok (objs props : list nat) : Prop :=
  objs <> [] /\ props <> [] /\ NoDup objs /\ NoDup props /\ (forall x, In x objs -> ~ In x props).

Definition init_ok (objs props : list nat) (bools : list (list pyval)) : Prop :=
  objs <> [] /\ props <> [] /\ NoDup objs /\ NoDup props /\ (forall x, In x objs -> ~ In x props) /\
  length bools = length objs /\ Forall (fun b => length b = length props) bools.

Definition init_result (objs props : list nat) (bools : list (list pyval)) : list nat * list nat * ctx :=
  (objs, props, mkCtx (length objs) (length props) (map row_int bools)).

Lemma init_ok_split objs props bools :
  init_ok objs props bools <->
  names_ok objs props /\ length bools = length objs /\ Forall (fun b => length b = length props) bools.
Proof. unfold init_ok, names_ok. tauto. Qed.

Lemma disjoint_spec objs props :
  existsb (fun o => memn o props) objs = false <-> (forall x, In x objs -> ~ In x props).
Proof.
  rewrite existsb_false. split; intros H x Hx.
  - intros Hp. apply memn_In in Hp. rewrite (H x Hx) in Hp. discriminate.
  - destruct (memn x props) eqn:E; [|reflexivity]. apply memn_In in E. exfalso. exact (H x Hx E).
Qed.

Lemma shape_spec (bools : list (list pyval)) n :
  forallb (fun b => Nat.eqb (length b) n) bools = true <-> Forall (fun b => length b = n) bools.
Proof.
  rewrite forallb_forall, Forall_forall. split; intros H x Hx.
  - apply Nat.eqb_eq. exact (H x Hx).
  - apply Nat.eqb_eq. exact (H x Hx).
Qed.

(** the decision made by [context_init] *)
Lemma context_init_dec objs props bools :
  (init_ok objs props bools /\ context_init objs props bools = Ok (init_result objs props bools))
  \/ (~ init_ok objs props bools /\ context_init objs props bools = Raise ValueError).
Proof.
  unfold context_init, init_result.
  destruct objs as [|o objs'].
  { right. split; [intros (H & _); congruence|reflexivity]. }
  cbv iota. remember (o :: objs') as objs eqn:Hobjs.
  destruct (has_dup objs) eqn:E1.
  { right. split; [|reflexivity]. intros (_ & _ & H & _). apply has_dup_NoDup in H. congruence. }
  apply has_dup_NoDup in E1.
  destruct props as [|p props'].
  { right. split; [intros (_ & H & _); congruence|reflexivity]. }
  cbv iota. remember (p :: props') as props eqn:Hprops.
  destruct (has_dup props) eqn:E2.
  { right. split; [|reflexivity]. intros (_ & _ & _ & H & _). apply has_dup_NoDup in H. congruence. }
  apply has_dup_NoDup in E2.
  destruct (existsb (fun o0 => memn o0 props) objs) eqn:E3.
  { right. split; [|reflexivity]. intros (_ & _ & _ & _ & H & _). pose proof (proj2 (disjoint_spec _ _) H). congruence. }
  pose proof (proj1 (disjoint_spec _ _) E3) as E3'.
  destruct (Nat.eqb (length bools) (length objs)) eqn:E4; cbn [negb orb].
  2:{ right. split; [|reflexivity]. intros (_ & _ & _ & _ & _ & H & _). apply Nat.eqb_neq in E4. contradiction. }
  apply Nat.eqb_eq in E4.
  destruct (forallb (fun b => Nat.eqb (length b) (length props)) bools) eqn:E5; cbn [negb].
  2:{ right. split; [|reflexivity]. intros (_ & _ & _ & _ & _ & _ & H). apply shape_spec in H. congruence. }
  apply shape_spec in E5.
  left. split; [|reflexivity].
  unfold init_ok. repeat split; try assumption; subst objs props; discriminate.
Qed.

(** target 1 *)
Theorem context_init_iff objs props bools r :
  context_init objs props bools = Ok r <->
  (objs <> [] /\ props <> [] /\ NoDup objs /\ NoDup props /\ (forall x, In x objs -> ~ In x props) /\
   length bools = length objs /\ Forall (fun b => length b = length props) bools)
  /\ r = (objs, props, mkCtx (length objs) (length props) (map row_int bools)).
Proof.
  destruct (context_init_dec objs props bools) as [[Hok E]|[Hno E]]; rewrite E; split.
  - intros H. injection H as <-. split; [exact Hok|reflexivity].
  - intros [_ ->]. reflexivity.
  - discriminate.
  - intros [H _]. contradiction.
Qed.

Theorem context_init_accepts_iff objs props bools :
  (exists r, context_init objs props bools = Ok r) <->
  objs <> [] /\ props <> [] /\ NoDup objs /\ NoDup props /\ (forall x, In x objs -> ~ In x props) /\
  length bools = length objs /\ Forall (fun b => length b = length props) bools.
Proof.
  split.
  - intros [r H]. apply context_init_iff in H. tauto.
  - intros H. eexists. apply context_init_iff. split; [exact H|reflexivity].
Qed.

Theorem context_init_raises objs props bools :
  ~ (objs <> [] /\ props <> [] /\ NoDup objs /\ NoDup props /\ (forall x, In x objs -> ~ In x props) /\
     length bools = length objs /\ Forall (fun b => length b = length props) bools) ->
  context_init objs props bools = Raise ValueError.
Proof.
  intros Hno. destruct (context_init_dec objs props bools) as [[Hok _]|[_ E]]; [contradiction|exact E].
Qed.

Theorem context_init_never_other_exception objs props bools e :
  context_init objs props bools = Raise e -> e = ValueError.
Proof.
  destruct (context_init_dec objs props bools) as [[_ E]|[_ E]]; rewrite E; intros H; [discriminate|].
  injection H as <-. reflexivity.
Qed.

(** * rows as little-endian integers *)

Lemma row_int_nil : row_int [] = 0.
Proof. reflexivity. Qed.

Lemma row_int_cons v r : row_int (v :: r) = 2 * row_int r + Z.b2z (truthy_val v).
Proof.
  unfold row_int. cbn [fold_right].
  assert (Hb : forall b : bool, (if b then 1 else 0) = Z.b2z b) by (intros []; reflexivity).
  rewrite Hb. lia.
Qed.

Lemma mem_row_int row m :
  mem (row_int row) m = match nth_error row m with Some v => truthy_val v | None => false end.
Proof.
  revert m. induction row as [|v r IH]; intros m.
  - rewrite row_int_nil, mem_0. destruct m; reflexivity.
  - rewrite row_int_cons. destruct m as [|m]; cbn [nth_error]; unfold mem.
    + change (Z.of_nat 0) with 0. apply Z.testbit_0_r.
    + rewrite Nat2Z.inj_succ, Z.testbit_succ_r by lia. apply IH.
Qed.

Lemma row_int_nonneg row : 0 <= row_int row.
Proof.
  induction row as [|v r IH]; [rewrite row_int_nil; lia|].
  rewrite row_int_cons. destruct (truthy_val v); cbn [Z.b2z]; lia.
Qed.

Lemma row_int_in_range row : in_range (length row) (row_int row).
Proof.
  split; [apply row_int_nonneg|].
  intros i Hi. rewrite mem_row_int.
  assert (E : nth_error row i = None) by (apply nth_error_None; exact Hi).
  rewrite E. reflexivity.
Qed.

Lemma row_int_bound row : 0 <= row_int row < 2 ^ Z.of_nat (length row).
Proof.
  induction row as [|v r IH].
  - rewrite row_int_nil. cbn. lia.
  - rewrite row_int_cons. cbn [length]. rewrite Nat2Z.inj_succ, Z.pow_succ_r by lia.
    destruct (truthy_val v); cbn [Z.b2z]; lia.
Qed.

(** target 2 *)
Theorem context_init_faithful objs props bools o p c :
  context_init objs props bools = Ok (o, p, c) ->
  o = objs /\ p = props /\ nG c = length objs /\ nM c = length props /\ wf_ctx c /\
  forall g m row v, nth_error bools g = Some row -> nth_error row m = Some v -> inc c g m = truthy_val v.
Proof.
  intros H. apply context_init_iff in H. destruct H as [Hok Hr].
  injection Hr as -> -> ->.
  destruct Hok as (_ & _ & _ & _ & _ & Hlen & Hshape).
  split; [reflexivity|]. split; [reflexivity|]. split; [reflexivity|]. split; [reflexivity|]. split.
  - unfold wf_ctx. cbn [rows nG nM]. split; [rewrite map_length; exact Hlen|].
    apply Forall_forall. intros z Hz. apply in_map_iff in Hz. destruct Hz as [row [<- Hrow]].
    rewrite Forall_forall in Hshape. rewrite <- (Hshape row Hrow). apply row_int_in_range.
  - intros g m row v Hg Hm. unfold inc, Context.row. cbn [rows].
    rewrite (nth_error_nth (map row_int bools) g 0 (map_nth_error row_int g bools Hg)).
    rewrite mem_row_int, Hm. reflexivity.
Qed.

(** cells beyond the given columns are absent *)
Lemma context_init_no_extra objs props bools o p c g m :
  context_init objs props bools = Ok (o, p, c) -> (length props <= m)%nat -> inc c g m = false.
Proof.
  intros H Hm. destruct (context_init_faithful _ _ _ _ _ _ H) as (_ & _ & _ & HnM & Hwf & _).
  destruct (row_in_range c g Hwf) as [_ Hr]. unfold inc. apply Hr. rewrite HnM. exact Hm.
Qed.

(** * _make_set / make_row *)

Lemma val_eqb_sym a b : val_eqb a b = val_eqb b a.
Proof.
  destruct a as [s|z|x|], b as [t|w|y|]; unfold val_eqb; cbn [as_index]; try reflexivity;
    try apply Z.eqb_sym; apply Nat.eqb_sym.
Qed.

(** no two entries (at different positions) are equal as Python values *)
Definition distinct_vals (r : list pyval) : Prop :=
  forall i j a b, i <> j -> nth_error r i = Some a -> nth_error r j = Some b -> val_eqb a b = false.

(** the entry is an int or a bool denoting a column index below n *)
Definition index_ok (n : nat) (v : pyval) : Prop :=
  exists z, as_index v = Some z /\ 0 <= z < Z.of_nat n.

Definition row_ok (n : nat) (r : list pyval) : Prop :=
  distinct_vals r /\ Forall (index_ok n) r.

(** does column index i occur in the serialized row? *)
Definition occursb (i : nat) (r : list pyval) : bool :=
  existsb (fun v => match as_index v with Some z => z =? Z.of_nat i | None => false end) r.

Definition cells (n : nat) (r : list pyval) : list pyval :=
  map (fun i => VBool (occursb i r)) (seq 0 n).

Lemma occursb_spec i r : occursb i r = true <-> exists v, In v r /\ as_index v = Some (Z.of_nat i).
Proof.
  unfold occursb. rewrite existsb_exists. split; intros [v [Hv H]]; exists v; split; try exact Hv.
  - destruct (as_index v) as [z|]; [|discriminate]. apply Z.eqb_eq in H. subst. reflexivity.
  - rewrite H. apply Z.eqb_refl.
Qed.

Lemma has_dup_val_spec r : has_dup_val r = false <-> distinct_vals r.
Proof.
  induction r as [|x r IH]; cbn [has_dup_val].
  - split; [|reflexivity]. intros _ i j a b _ Hi. destruct i; discriminate.
  - rewrite orb_false_iff, IH, existsb_false. split.
    + intros [Hx Hr] i j a b Hij Hi Hj. destruct i as [|i], j as [|j]; cbn [nth_error] in Hi, Hj.
      * congruence.
      * injection Hi as <-. apply Hx. eapply nth_error_In. exact Hj.
      * injection Hj as <-. rewrite val_eqb_sym. apply Hx. eapply nth_error_In. exact Hi.
      * apply (Hr i j); auto.
    + intros H. split.
      * intros b Hb. apply In_nth_error in Hb. destruct Hb as [j Hj].
        apply (H 0%nat (S j)); [discriminate|reflexivity|exact Hj].
      * intros i j a b Hij Hi Hj. apply (H (S i) (S j)); auto.
Qed.

Lemma index_okb_spec n v :
  (match as_index v with Some z => (0 <=? z) && (z <? Z.of_nat n) | None => false end) = true <-> index_ok n v.
Proof.
  unfold index_ok. destruct (as_index v) as [z|]; split.
  - intros H. exists z. split; [reflexivity|lia].
  - intros [z' [E H]]. injection E as <-. lia.
  - discriminate.
  - intros [z' [E _]]. discriminate.
Qed.

Lemma make_row_dec n r :
  (row_ok n r /\ make_row n r = Ok (cells n r)) \/ (~ row_ok n r /\ make_row n r = Raise ValueError).
Proof.
  unfold make_row, row_ok.
  destruct (has_dup_val r) eqn:E1.
  { right. split; [|reflexivity]. intros [H _]. apply has_dup_val_spec in H. congruence. }
  apply has_dup_val_spec in E1.
  destruct (forallb _ r) eqn:E2; cbn [negb].
  - left. split; [|reflexivity]. split; [exact E1|].
    apply Forall_forall. intros v Hv. rewrite forallb_forall in E2. apply index_okb_spec. exact (E2 v Hv).
  - right. split; [|reflexivity]. intros [_ H].
    assert (forallb (fun v => match as_index v with Some z => (0 <=? z) && (z <? Z.of_nat n) | None => false end) r = true) as E3.
    { apply forallb_forall. intros v Hv. apply index_okb_spec. rewrite Forall_forall in H. exact (H v Hv). }
    congruence.
Qed.

Lemma cells_length n r : length (cells n r) = n.
Proof. unfold cells. rewrite map_length, seq_length. reflexivity. Qed.

Lemma cells_nth n r i : (i < n)%nat -> nth_error (cells n r) i = Some (VBool (occursb i r)).
Proof.
  intros Hi. unfold cells. apply (map_nth_error (fun i => VBool (occursb i r)) i (seq 0 n)).
  rewrite (nth_error_nth' (seq 0 n) 0%nat) by (rewrite seq_length; exact Hi).
  rewrite seq_nth by exact Hi. reflexivity.
Qed.

(** target 3 *)
Theorem make_row_iff n r cs :
  make_row n r = Ok cs <->
  ((forall i j a b, i <> j -> nth_error r i = Some a -> nth_error r j = Some b -> val_eqb a b = false) /\
   Forall (fun v => exists z, as_index v = Some z /\ 0 <= z < Z.of_nat n) r)
  /\ cs = cells n r.
Proof.
  destruct (make_row_dec n r) as [[Hok E]|[Hno E]]; rewrite E; split.
  - intros H. injection H as <-. split; [exact Hok|reflexivity].
  - intros [_ ->]. reflexivity.
  - discriminate.
  - intros [H _]. contradiction.
Qed.

Theorem make_row_raises n r : ~ row_ok n r -> make_row n r = Raise ValueError.
Proof. intros Hno. destruct (make_row_dec n r) as [[Hok _]|[_ E]]; [contradiction|exact E]. Qed.

Theorem make_row_never_other_exception n r e : make_row n r = Raise e -> e = ValueError.
Proof.
  destruct (make_row_dec n r) as [[_ E]|[_ E]]; rewrite E; intros H; [discriminate|].
  injection H as <-. reflexivity.
Qed.

Theorem make_row_cells n r cs :
  make_row n r = Ok cs ->
  length cs = n /\
  forall i, (i < n)%nat -> exists b, nth_error cs i = Some (VBool b) /\
                                     (b = true <-> exists v, In v r /\ as_index v = Some (Z.of_nat i)).
Proof.
  intros H. apply make_row_iff in H. destruct H as [_ ->]. split; [apply cells_length|].
  intros i Hi. exists (occursb i r). split; [apply cells_nth; exact Hi|apply occursb_spec].
Qed.

(** * fromdict *)

Lemma all_str_cons v r :
  all_str (v :: r) = match v, all_str r with VStr s, Some r' => Some (s :: r') | _, _ => None end.
Proof. reflexivity. Qed.

Lemma all_str_map ns : all_str (map VStr ns) = Some ns.
Proof.
  induction ns as [|s ns IH]; [reflexivity|]. cbn [map]. rewrite all_str_cons, IH. reflexivity.
Qed.

Lemma all_str_spec l ns : all_str l = Some ns <-> l = map VStr ns.
Proof.
  split; [|intros ->; apply all_str_map].
  revert ns. induction l as [|v r IH]; intros ns H.
  - cbn in H. injection H as <-. reflexivity.
  - rewrite all_str_cons in H. destruct v as [s| | |]; try discriminate.
    destruct (all_str r) as [r'|]; [|discriminate]. injection H as <-.
    cbn [map]. f_equal. apply IH. reflexivity.
Qed.

(** "every entry is a string" *)
Lemma all_str_none l : all_str l = None <-> ~ Forall (fun v => exists s, v = VStr s) l.
Proof.
  split.
  - intros H HF. assert (exists ns, l = map VStr ns) as [ns ->].
    { clear H. induction HF as [|v r [s ->] _ [ns ->]]; [exists []; reflexivity|exists (s :: ns); reflexivity]. }
    rewrite all_str_map in H. discriminate.
  - intros H. destruct (all_str l) as [ns|] eqn:E; [|reflexivity]. exfalso. apply H.
    apply all_str_spec in E. subst l. apply Forall_forall. intros v Hv.
    apply in_map_iff in Hv. destruct Hv as [s [<- _]]. exists s. reflexivity.
Qed.

Lemma map_VStr_inj a b : map VStr a = map VStr b -> a = b.
Proof.
  intros H. apply (f_equal all_str) in H. rewrite !all_str_map in H. injection H as ->. reflexivity.
Qed.

Lemma map_res_make_row_dec n context :
  (Forall (row_ok n) context /\ map_res_v (make_row n) context = Ok (map (cells n) context))
  \/ (~ Forall (row_ok n) context /\ map_res_v (make_row n) context = Raise ValueError).
Proof.
  induction context as [|r rest IH]; cbn [map_res_v map].
  - left. split; [constructor|reflexivity].
  - destruct (make_row_dec n r) as [[Hok E]|[Hno E]]; rewrite E; cbn [bind].
    + destruct IH as [[Hall E2]|[Hnall E2]]; rewrite E2; cbn [bind].
      * left. split; [constructor; assumption|reflexivity].
      * right. split; [|reflexivity]. intros H. inversion H; subst. contradiction.
    + right. split; [|reflexivity]. intros H. inversion H; subst. contradiction.
Qed.

Definition lattice_loaded (d : pydict) : bool :=
  match k_lattice d with Some (Some _) => true | _ => false end.

(** acceptance condition of [fromdict]; the names and rows are those stored in the dict *)
Definition dict_ok (d : pydict) (rq : bool) (objs props : list nat) (context : list (list pyval)) : Prop :=
  k_objects d = Some (map VStr objs) /\ k_properties d = Some (map VStr props) /\ k_context d = Some context /\
  length context = length objs /\
  (rq = true -> k_lattice d <> None) /\
  k_lattice d <> Some (Some 0%nat) /\
  Forall (row_ok (length props)) context /\
  names_ok objs props.

Definition fromdict_result (d : pydict) (ig : bool) (objs props : list nat) (context : list (list pyval))
  : list nat * list nat * ctx * bool :=
  (objs, props, mkCtx (length objs) (length props) (map row_int (map (cells (length props)) context)),
   negb ig && lattice_loaded d).

(** once every row passes [make_row] and there is one row per object, [context_init] only looks at the names *)
Lemma init_ok_rebuilt objs props context :
  length context = length objs ->
  (init_ok objs props (map (cells (length props)) context) <-> names_ok objs props).
Proof.
  intros Hlen. rewrite init_ok_split. split; [tauto|]. intros H. split; [exact H|]. split.
  - rewrite map_length. exact Hlen.
  - apply Forall_forall. intros b Hb. apply in_map_iff in Hb. destruct Hb as [r [<- _]]. apply cells_length.
Qed.

Lemma dict_ok_inv objs props context kl rq o p c :
  dict_ok (mkDict (Some (map VStr objs)) (Some (map VStr props)) (Some context) kl) rq o p c ->
  o = objs /\ p = props /\ c = context.
Proof.
  intros (H1 & H2 & H3 & _). cbn [k_objects k_properties k_context] in *.
  injection H1 as H1. injection H2 as H2. injection H3 as H3.
  apply map_VStr_inj in H1. apply map_VStr_inj in H2. subst. auto.
Qed.

Lemma fromdict_dec d ig rq :
  (exists objs props context, dict_ok d rq objs props context /\
                              fromdict d ig rq = Ok (fromdict_result d ig objs props context))
  \/ ((forall objs props context, ~ dict_ok d rq objs props context) /\ fromdict d ig rq = Raise ValueError).
Proof.
  destruct d as [ko kp kc kl]. unfold fromdict, fromdict_result, lattice_loaded.
  cbn [k_objects k_properties k_context k_lattice].
  destruct ko as [objects|]; [|right; split; [intros ? ? ? (H & _); discriminate|reflexivity]].
  destruct kp as [properties|]; [|right; split; [intros ? ? ? (_ & H & _); discriminate|reflexivity]].
  destruct kc as [context|]; [|right; split; [intros ? ? ? (_ & _ & H & _); discriminate|reflexivity]].
  destruct (all_str objects) as [objs|] eqn:Eo.
  2:{ right. split; [|reflexivity]. intros o p c (H & _). cbn [k_objects] in H. injection H as ->.
      rewrite all_str_map in Eo. discriminate. }
  apply all_str_spec in Eo. subst objects.
  destruct (all_str properties) as [props|] eqn:Ep.
  2:{ right. split; [|reflexivity]. intros o p c (_ & H & _). cbn [k_properties] in H. injection H as ->.
      rewrite all_str_map in Ep. discriminate. }
  apply all_str_spec in Ep. subst properties.
  rewrite map_length.
  destruct (Nat.eqb (length context) (length objs)) eqn:El; cbn [negb].
  2:{ right. split; [|reflexivity]. intros o p c H.
      destruct (dict_ok_inv _ _ _ _ _ _ _ _ H) as (-> & -> & ->).
      destruct H as (_ & _ & _ & H & _). apply Nat.eqb_neq in El. contradiction. }
  apply Nat.eqb_eq in El.
  destruct (map_res_make_row_dec (length props) context) as [[Hrows Er]|[Hrows Er]]; rewrite Er; cbn [bind].
  2:{ right. split.
      - intros o p c H. destruct (dict_ok_inv _ _ _ _ _ _ _ _ H) as (-> & -> & ->).
        destruct H as (_ & _ & _ & _ & _ & _ & H & _). contradiction.
      - destruct rq, kl as [[[|k]|]|]; reflexivity. }
  destruct (context_init_dec objs props (map (cells (length props)) context)) as [[Hi Ei]|[Hi Ei]]; rewrite Ei.
  2:{ right. split.
      - intros o p c H. destruct (dict_ok_inv _ _ _ _ _ _ _ _ H) as (-> & -> & ->).
        destruct H as (_ & _ & _ & _ & _ & _ & _ & H). apply Hi. apply init_ok_rebuilt; assumption.
      - destruct rq, kl as [[[|k]|]|]; reflexivity. }
  apply init_ok_rebuilt in Hi; [|exact El].
  destruct rq, kl as [[[|k]|]|]; cbn [bind];
    first [ left; exists objs, props, context; split; [|reflexivity];
            unfold dict_ok; cbn [k_objects k_properties k_context k_lattice];
            repeat split; try assumption; try discriminate; try (apply Hi); intros; discriminate
          | right; split; [|reflexivity]; intros o p c (_ & _ & _ & _ & H1 & H2 & _);
            cbn [k_lattice] in H1, H2; first [apply H2; reflexivity | apply H1; reflexivity] ].
Qed.

(** target 4 *)
Theorem fromdict_iff d ig rq res :
  fromdict d ig rq = Ok res <->
  exists objs props context, dict_ok d rq objs props context /\ res = fromdict_result d ig objs props context.
Proof.
  destruct (fromdict_dec d ig rq) as [(objs & props & context & Hok & E)|[Hno E]]; rewrite E; split.
  - intros H. injection H as <-. exists objs, props, context. split; [exact Hok|reflexivity].
  - intros (o & p & c & Hok' & ->).
    destruct d as [ko kp kc kl]. destruct Hok as (H1 & H2 & H3 & _), Hok' as (H1' & H2' & H3' & _).
    cbn [k_objects k_properties k_context] in *.
    rewrite H1 in H1'. rewrite H2 in H2'. rewrite H3 in H3'.
    injection H1' as H1'. injection H2' as H2'. injection H3' as H3'.
    apply map_VStr_inj in H1'. apply map_VStr_inj in H2'. subst. reflexivity.
  - discriminate.
  - intros (o & p & c & Hok' & _). exfalso. exact (Hno o p c Hok').
Qed.

Theorem fromdict_accepts d ig rq objs props context :
  dict_ok d rq objs props context -> fromdict d ig rq = Ok (fromdict_result d ig objs props context).
Proof. intros H. apply fromdict_iff. exists objs, props, context. split; [exact H|reflexivity]. Qed.

Theorem fromdict_raises d ig rq :
  ~ (exists objs props context, dict_ok d rq objs props context) -> fromdict d ig rq = Raise ValueError.
Proof.
  intros Hno. destruct (fromdict_dec d ig rq) as [(objs & props & context & Hok & _)|[_ E]]; [|exact E].
  exfalso. apply Hno. exists objs, props, context. exact Hok.
Qed.

(** the row/names part of [dict_ok] is exactly "make_row passes on every row and context_init accepts the
    rebuilt rows" *)
Theorem dict_ok_as_pipeline d rq objs props context :
  dict_ok d rq objs props context <->
  k_objects d = Some (map VStr objs) /\ k_properties d = Some (map VStr props) /\ k_context d = Some context /\
  length context = length objs /\
  (rq = true -> k_lattice d <> None) /\
  k_lattice d <> Some (Some 0%nat) /\
  exists rows, Forall2 (fun r cs => make_row (length props) r = Ok cs) context rows /\
               exists r, context_init objs props rows = Ok r.
Proof.
  unfold dict_ok. split.
  - intros (H1 & H2 & H3 & H4 & H5 & H6 & H7 & H8). repeat (split; [assumption|]).
    exists (map (cells (length props)) context). split.
    + clear -H7. induction H7 as [|r rest Hr _ IH]; cbn [map]; constructor; [|exact IH].
      apply make_row_iff. split; [exact Hr|reflexivity].
    + apply context_init_accepts_iff. apply (init_ok_rebuilt objs props context H4). exact H8.
  - intros (H1 & H2 & H3 & H4 & H5 & H6 & rows & HF & Hinit). repeat (split; [assumption|]).
    assert (Forall (row_ok (length props)) context /\ rows = map (cells (length props)) context) as [HR ->].
    { clear -HF. induction HF as [|r cs rest rows' Hr _ [IH1 IH2]]; [split; [constructor|reflexivity]|].
      apply make_row_iff in Hr. destruct Hr as [Hr ->]. split; [constructor; assumption|].
      cbn [map]. f_equal. exact IH2. }
    split; [exact HR|]. apply context_init_accepts_iff in Hinit.
    apply (init_ok_rebuilt objs props context H4). exact Hinit.
Qed.

(** whatever [fromdict] accepts is reproduced exactly *)
Theorem fromdict_faithful d ig rq o p c l :
  fromdict d ig rq = Ok (o, p, c, l) ->
  exists context,
    k_objects d = Some (map VStr o) /\ k_properties d = Some (map VStr p) /\ k_context d = Some context /\
    length context = length o /\
    nG c = length o /\ nM c = length p /\ wf_ctx c /\
    l = negb ig && lattice_loaded d /\
    forall g m r, nth_error context g = Some r -> (m < length p)%nat ->
      (inc c g m = true <-> exists v, In v r /\ as_index v = Some (Z.of_nat m)).
Proof.
  intros H. apply fromdict_iff in H. destruct H as (objs & props & context & Hok & Hr).
  unfold fromdict_result in Hr. injection Hr as -> -> -> ->.
  destruct Hok as (H1 & H2 & H3 & H4 & _ & _ & _ & _).
  exists context. repeat (split; [assumption|]).
  split; [reflexivity|]. split; [reflexivity|]. split.
  { unfold wf_ctx. cbn [rows nG nM]. split; [rewrite !map_length; exact H4|].
    apply Forall_forall. intros z Hz. apply in_map_iff in Hz. destruct Hz as [row [<- Hrow]].
    apply in_map_iff in Hrow. destruct Hrow as [r [<- _]].
    pose proof (row_int_in_range (cells (length props) r)) as Hrg. rewrite cells_length in Hrg. exact Hrg. }
  split; [reflexivity|].
  intros g m r Hg Hm. unfold inc, Context.row. cbn [rows].
  rewrite (nth_error_nth _ g 0 (map_nth_error row_int g _ (map_nth_error (cells (length props)) g context Hg))).
  rewrite mem_row_int, (cells_nth _ _ _ Hm). cbn [truthy_val]. apply occursb_spec.
Qed.

(** target 5 *)
Theorem fromdict_never_other_exception d ig rq e : fromdict d ig rq = Raise e -> e = ValueError.
Proof.
  destruct (fromdict_dec d ig rq) as [(objs & props & context & _ & E)|[_ E]]; rewrite E; intros H; [discriminate|].
  injection H as <-. reflexivity.
Qed.

(** * the individual rejection rules of [fromdict], as corollaries *)

Theorem fromdict_missing_key d ig rq :
  k_objects d = None \/ k_properties d = None \/ k_context d = None -> fromdict d ig rq = Raise ValueError.
Proof.
  intros H. apply fromdict_raises. intros (o & p & c & H1 & H2 & H3 & _).
  destruct H as [H|[H|H]]; congruence.
Qed.

Theorem fromdict_non_string_name d ig rq l :
  k_objects d = Some l \/ k_properties d = Some l -> ~ Forall (fun v => exists s, v = VStr s) l ->
  fromdict d ig rq = Raise ValueError.
Proof.
  intros H Hl. apply fromdict_raises. intros (o & p & c & H1 & H2 & _).
  apply all_str_none in Hl.
  destruct H as [H|H]; [rewrite H in H1; injection H1 as ->|rewrite H in H2; injection H2 as ->];
    rewrite all_str_map in Hl; discriminate.
Qed.

Theorem fromdict_row_count d ig rq objects context :
  k_objects d = Some objects -> k_context d = Some context -> length context <> length objects ->
  fromdict d ig rq = Raise ValueError.
Proof.
  intros Ho Hc Hne. apply fromdict_raises. intros (o & p & c & H1 & _ & H3 & H4 & _).
  rewrite Ho in H1. injection H1 as ->. rewrite Hc in H3. injection H3 as ->.
  rewrite map_length in Hne. contradiction.
Qed.

Theorem fromdict_bad_row d ig rq properties context r :
  k_properties d = Some properties -> k_context d = Some context -> In r context ->
  ~ row_ok (length properties) r -> fromdict d ig rq = Raise ValueError.
Proof.
  intros Hp Hc Hin Hbad. apply fromdict_raises. intros (o & p & c & _ & H2 & H3 & _ & _ & _ & H7 & _).
  rewrite Hp in H2. injection H2 as ->. rewrite Hc in H3. injection H3 as ->.
  rewrite map_length in Hbad. rewrite Forall_forall in H7. exact (Hbad (H7 r Hin)).
Qed.

Theorem fromdict_empty_lattice d ig rq :
  k_lattice d = Some (Some 0%nat) -> fromdict d ig rq = Raise ValueError.
Proof.
  intros H. apply fromdict_raises. intros (o & p & c & _ & _ & _ & _ & _ & H6 & _). contradiction.
Qed.

Theorem fromdict_lattice_required d ig :
  k_lattice d = None -> fromdict d ig true = Raise ValueError.
Proof.
  intros H. apply fromdict_raises. intros (o & p & c & _ & _ & _ & _ & H5 & _). exact (H5 eq_refl H).
Qed.

Theorem fromdict_bad_names d ig rq objs props :
  k_objects d = Some (map VStr objs) -> k_properties d = Some (map VStr props) -> ~ names_ok objs props ->
  fromdict d ig rq = Raise ValueError.
Proof.
  intros Ho Hp Hbad. apply fromdict_raises. intros (o & p & c & H1 & H2 & _ & _ & _ & _ & _ & H8).
  rewrite Ho in H1. injection H1 as H1. apply map_VStr_inj in H1.
  rewrite Hp in H2. injection H2 as H2. apply map_VStr_inj in H2. subst. contradiction.
Qed.
