(** Spec-level theory of upper covers of a closed extent (Lindig's argument):
    generators [gen g = (A ∪ {g})''], characterisation of covers, existence of a cover
    below every closed superset, cardinality. *)
From Coq Require Import ZArith List Bool Lia ZifyBool Arith.
From Concepts Require Import Base.Res Base.PyInt Base.BitSet Spec.FCA Spec.Context
  Proofs.LatticeBasics Proofs.LatticeFirst.
Import ListNotations.
Open Scope Z_scope.

(** * finite search *)

Lemma find_below (p : nat -> bool) n :
  (exists x, (x < n)%nat /\ p x = true) \/ (forall x, (x < n)%nat -> p x = false).
Proof.
  induction n as [|n IH].
  - right. intros x Hx. lia.
  - destruct IH as [[x [Hx Hp]]|Hnone].
    + left. exists x. split; [lia|exact Hp].
    + destruct (p n) eqn:E.
      * left. exists n. split; [lia|exact E].
      * right. intros x Hx. destruct (Nat.eq_dec x n) as [->|Hne]; [exact E|apply Hnone; lia].
Qed.

Lemma max_below (p : nat -> bool) n :
  (exists x, (x < n)%nat /\ p x = true) ->
  exists x, (x < n)%nat /\ p x = true /\ forall y, (y < n)%nat -> p y = true -> (y <= x)%nat.
Proof.
  induction n as [|n IH]; intros [x [Hx Hp]]; [lia|].
  destruct (p n) eqn:E.
  - exists n. split; [lia|]. split; [exact E|]. intros y Hy _. lia.
  - assert (Hxn : (x < n)%nat).
    { destruct (Nat.eq_dec x n) as [->|Hne]; [congruence|lia]. }
    destruct (IH (ex_intro _ x (conj Hxn Hp))) as [m [Hm [Hpm Hmax]]].
    exists m. split; [lia|]. split; [exact Hpm|].
    intros y Hy Hpy. destruct (Nat.eq_dec y n) as [->|Hne]; [congruence|apply Hmax; [lia|exact Hpy]].
Qed.

Lemma forallb_false_exists {X} (f : X -> bool) l :
  forallb f l = false -> exists x, In x l /\ f x = false.
Proof.
  induction l as [|x l IH]; cbn; intros H; [discriminate|].
  destruct (f x) eqn:E.
  - cbn in H. destruct (IH H) as [y [Hy Hf]]. exists y. split; [right; exact Hy|exact Hf].
  - exists x. split; [left; reflexivity|exact E].
Qed.

(** * cardinality *)

Lemma filter_length_le {X} (f g : X -> bool) l :
  (forall x, In x l -> f x = true -> g x = true) -> (length (filter f l) <= length (filter g l))%nat.
Proof.
  induction l as [|x l IH]; intros H; cbn; [lia|].
  assert (IH' := IH (fun y Hy => H y (or_intror Hy))).
  destruct (f x) eqn:Ef.
  - rewrite (H x (or_introl eq_refl) Ef). cbn. lia.
  - destruct (g x); cbn; lia.
Qed.

Lemma filter_length_lt {X} (f g : X -> bool) l x0 :
  (forall x, In x l -> f x = true -> g x = true) -> In x0 l -> f x0 = false -> g x0 = true ->
  (length (filter f l) < length (filter g l))%nat.
Proof.
  induction l as [|a l IH]; intros H Hin Hf Hg; [destruct Hin|].
  cbn. destruct Hin as [->|Hin].
  - rewrite Hf, Hg. cbn.
    pose proof (filter_length_le f g l (fun y Hy => H y (or_intror Hy))). lia.
  - assert (IH' := IH (fun y Hy => H y (or_intror Hy)) Hin Hf Hg).
    destruct (f a) eqn:Ef.
    + rewrite (H a (or_introl eq_refl) Ef). cbn. lia.
    + destruct (g a); cbn; lia.
Qed.

Lemma psubset_witness n a b : in_range n a -> in_range n b -> subset a b -> a <> b ->
  exists h, (h < n)%nat /\ mem b h = true /\ mem a h = false.
Proof.
  intros Ha Hb Hsub Hne.
  destruct (find_below (fun h => mem b h && negb (mem a h)) n) as [[h [Hh Hp]]|Hnone].
  - exists h. apply andb_prop in Hp. destruct Hp as [H1 H2]. apply negb_true_iff in H2. auto.
  - exfalso. apply Hne. apply (subset_antisym n); try assumption.
    intros i Hi. pose proof (mem_lt_of_in_range _ _ _ Hb Hi) as Hlt.
    specialize (Hnone i Hlt). rewrite Hi in Hnone. cbn in Hnone.
    apply negb_false_iff in Hnone. exact Hnone.
Qed.

Lemma card_subset n a b : subset a b -> (card n a <= card n b)%nat.
Proof. intros H. unfold card, members. apply filter_length_le. intros x _. apply H. Qed.

Lemma card_psubset n a b : in_range n a -> in_range n b -> psubset a b -> (card n a < card n b)%nat.
Proof.
  intros Ha Hb [Hsub Hne].
  destruct (psubset_witness n a b Ha Hb Hsub Hne) as [h [Hh [Hbh Hah]]].
  unfold card, members. apply (filter_length_lt _ _ _ h); try assumption.
  - intros x _. apply Hsub.
  - apply in_seq. lia.
Qed.

(** * generators above a closed extent *)

Section Gen.
  Variable c : ctx.
  Variable A : Z.
  Hypothesis HA : closedO c A.

  Definition gen (g : nat) : Z := clO c (Z.lor A (bit g)).

  Lemma lor_bit_in_range g : (g < nG c)%nat -> in_range (nG c) (Z.lor A (bit g)).
  Proof. intros Hg. apply in_range_lor; [exact (proj1 HA)|apply in_range_bit; exact Hg]. Qed.

  Lemma gen_in_range g : in_range (nG c) (gen g).
  Proof. apply in_range_up. Qed.

  Lemma gen_closed g : (g < nG c)%nat -> closedO c (gen g).
  Proof.
    intros Hg. split; [apply gen_in_range|]. apply clO_idempotent. apply lor_bit_in_range. exact Hg.
  Qed.

  Lemma gen_extends g : (g < nG c)%nat -> subset A (gen g).
  Proof.
    intros Hg i Hi. apply (clO_extensive c _ (lor_bit_in_range g Hg)). rewrite mem_lor, Hi. reflexivity.
  Qed.

  Lemma gen_self g : (g < nG c)%nat -> mem (gen g) g = true.
  Proof.
    intros Hg. apply (clO_extensive c _ (lor_bit_in_range g Hg)).
    rewrite mem_lor, mem_bit, Nat.eqb_refl. apply orb_true_r.
  Qed.

  Lemma gen_least F g : closedO c F -> subset A F -> mem F g = true -> subset (gen g) F.
  Proof.
    intros [HF HcF] Hsub Hg. rewrite <- HcF. apply clO_monotone.
    intros i Hi. rewrite mem_lor, mem_bit in Hi. apply orb_true_iff in Hi.
    destruct Hi as [Hi|Hi]; [apply Hsub; exact Hi|]. apply Nat.eqb_eq in Hi. subst. exact Hg.
  Qed.

  Lemma gen_mono g h : (g < nG c)%nat -> mem (gen g) h = true -> subset (gen h) (gen g).
  Proof.
    intros Hg Hh. apply gen_least; [apply gen_closed; exact Hg|apply gen_extends; exact Hg|exact Hh].
  Qed.

  Lemma gen_psubset g : (g < nG c)%nat -> mem A g = false -> psubset A (gen g).
  Proof.
    intros Hg Hm. split; [apply gen_extends; exact Hg|].
    intros E. pose proof (gen_self g Hg) as H. rewrite <- E in H. congruence.
  Qed.

  Definition outside (g h : nat) : bool := mem (gen g) h && negb (mem A h).
  Definition coverb (g : nat) : bool :=
    forallb (fun h => implb (outside g h) (gen h =? gen g)) (seq 0 (nG c)).
  Definition goodb (g : nat) : bool :=
    forallb (fun h => implb (outside g h) ((gen h =? gen g) && (h <=? g)%nat)) (seq 0 (nG c)).

  Lemma coverb_spec g : coverb g = true <->
    forall h, mem (gen g) h = true -> mem A h = false -> gen h = gen g.
  Proof.
    unfold coverb. rewrite forallb_forall. split.
    - intros H h Hh HAh. pose proof (mem_lt_of_in_range _ _ _ (gen_in_range g) Hh) as Hlt.
      specialize (H h ltac:(apply in_seq; lia)). unfold outside in H. rewrite Hh, HAh in H. cbn in H.
      apply Z.eqb_eq. exact H.
    - intros H h _. unfold outside. destruct (mem (gen g) h) eqn:E1; [|reflexivity].
      destruct (mem A h) eqn:E2; [reflexivity|]. cbn. apply Z.eqb_eq. apply H; assumption.
  Qed.

  Lemma goodb_spec g : goodb g = true <->
    forall h, mem (gen g) h = true -> mem A h = false -> gen h = gen g /\ (h <= g)%nat.
  Proof.
    unfold goodb. rewrite forallb_forall. split.
    - intros H h Hh HAh. pose proof (mem_lt_of_in_range _ _ _ (gen_in_range g) Hh) as Hlt.
      specialize (H h ltac:(apply in_seq; lia)). unfold outside in H. rewrite Hh, HAh in H. cbn in H.
      apply andb_prop in H. destruct H as [H1 H2]. split; [apply Z.eqb_eq; exact H1|apply Nat.leb_le; exact H2].
    - intros H h _. unfold outside. destruct (mem (gen g) h) eqn:E1; [|reflexivity].
      destruct (mem A h) eqn:E2; [reflexivity|]. cbn. destruct (H h E1 E2) as [H1 H2].
      apply andb_true_iff. split; [apply Z.eqb_eq; exact H1|apply Nat.leb_le; exact H2].
  Qed.

  Lemma goodb_coverb g : goodb g = true -> coverb g = true.
  Proof. rewrite goodb_spec, coverb_spec. intros H h H1 H2. apply (H h H1 H2). Qed.

  (** (a) cover characterisation *)
  Lemma cover_iff g : (g < nG c)%nat -> mem A g = false ->
    (covers c A (gen g) <-> coverb g = true).
  Proof.
    intros Hg Hm. rewrite coverb_spec. split.
    - intros (_ & _ & _ & Hcov) h Hh HAh.
      pose proof (mem_lt_of_in_range _ _ _ (gen_in_range g) Hh) as Hlt.
      destruct (Hcov (gen h) (gen_closed h Hlt) (gen_extends h Hlt) (gen_mono g h Hg Hh)) as [E|E]; [|exact E].
      exfalso. pose proof (gen_self h Hlt) as Hs. rewrite E in Hs. congruence.
    - intros H. split; [exact HA|]. split; [apply gen_closed; exact Hg|].
      split; [apply gen_psubset; assumption|].
      intros F HF HAF HFg.
      destruct (find_below (fun h => mem F h && negb (mem A h)) (nG c)) as [[h [Hh Hp]]|Hnone].
      + right. apply andb_prop in Hp. destruct Hp as [H1 H2]. apply negb_true_iff in H2.
        apply (subset_antisym (nG c)); [exact (proj1 HF)|apply gen_in_range|exact HFg|].
        rewrite <- (H h (HFg h H1) H2). apply gen_least; assumption.
      + left. apply (subset_antisym (nG c)); [exact (proj1 HF)|exact (proj1 HA)| |exact HAF].
        intros i Hi. pose proof (mem_lt_of_in_range _ _ _ (proj1 HF) Hi) as Hlt.
        specialize (Hnone i Hlt). rewrite Hi in Hnone. cbn in Hnone.
        apply negb_false_iff in Hnone. exact Hnone.
  Qed.

  Lemma cover_is_gen E h : covers c A E -> mem E h = true -> mem A h = false -> E = gen h.
  Proof.
    intros (_ & HE & [HAE _] & Hcov) Hh HAh.
    pose proof (mem_lt_of_in_range _ _ _ (proj1 HE) Hh) as Hlt.
    destruct (Hcov (gen h) (gen_closed h Hlt) (gen_extends h Hlt) (gen_least E h HE HAE Hh)) as [E1|E1].
    - exfalso. pose proof (gen_self h Hlt) as Hs. rewrite E1 in Hs. congruence.
    - symmetry. exact E1.
  Qed.

  Lemma cover_has_outside E : covers c A E ->
    exists h, (h < nG c)%nat /\ mem E h = true /\ mem A h = false.
  Proof.
    intros (_ & HE & [HAE Hne] & _).
    exact (psubset_witness (nG c) A E (proj1 HA) (proj1 HE) HAE Hne).
  Qed.

  (** (b) there is a cover of A below every generated extent *)
  Lemma cover_below_aux : forall k g, (card (nG c) (gen g) < k)%nat -> (g < nG c)%nat -> mem A g = false ->
    exists h, mem (gen g) h = true /\ mem A h = false /\ coverb h = true.
  Proof.
    induction k as [|k IH]; intros g Hk Hg Hm; [lia|].
    destruct (coverb g) eqn:Ec.
    - exists g. split; [apply gen_self; exact Hg|]. split; [exact Hm|exact Ec].
    - unfold coverb in Ec. apply forallb_false_exists in Ec. destruct Ec as [h [Hh Hf]].
      apply in_seq in Hh. unfold outside in Hf.
      destruct (mem (gen g) h) eqn:E1; [|discriminate]. destruct (mem A h) eqn:E2; [discriminate|].
      cbn in Hf. apply Z.eqb_neq in Hf.
      assert (Hlt : (h < nG c)%nat) by lia.
      assert (Hps : psubset (gen h) (gen g)) by (split; [apply gen_mono; assumption|exact Hf]).
      pose proof (card_psubset (nG c) _ _ (gen_in_range h) (gen_in_range g) Hps) as Hcard.
      destruct (IH h ltac:(lia) Hlt E2) as [h' [H1 [H2 H3]]].
      exists h'. split; [apply (proj1 Hps); exact H1|]. split; assumption.
  Qed.

  Lemma cover_below g : (g < nG c)%nat -> mem A g = false ->
    exists h, mem (gen g) h = true /\ mem A h = false /\ coverb h = true.
  Proof. intros Hg Hm. apply (cover_below_aux (S (card (nG c) (gen g)))); [lia|exact Hg|exact Hm]. Qed.

  Lemma cover_inside E : closedO c E -> subset A E -> A <> E ->
    exists C, covers c A C /\ subset C E.
  Proof.
    intros HE HAE Hne.
    destruct (psubset_witness (nG c) A E (proj1 HA) (proj1 HE) HAE Hne) as [g [Hg [HEg HAg]]].
    destruct (cover_below g Hg HAg) as [h [H1 [H2 H3]]].
    pose proof (mem_lt_of_in_range _ _ _ (gen_in_range g) H1) as Hlt.
    exists (gen h). split; [apply cover_iff; assumption|].
    apply (subset_trans _ (gen g)); [apply gen_mono; assumption|apply gen_least; assumption].
  Qed.

  (** largest generator of a cover *)
  Lemma good_generator E : covers c A E ->
    exists g, (g < nG c)%nat /\ mem A g = false /\ E = gen g /\ goodb g = true.
  Proof.
    intros Hcov. destruct (cover_has_outside E Hcov) as [h [Hh [HEh HAh]]].
    destruct (max_below (fun x => mem E x && negb (mem A x)) (nG c)) as [g [Hg [Hp Hmax]]].
    { exists h. split; [exact Hh|]. rewrite HEh, HAh. reflexivity. }
    apply andb_prop in Hp. destruct Hp as [H1 H2]. apply negb_true_iff in H2.
    pose proof (cover_is_gen E g Hcov H1 H2) as EE.
    exists g. split; [exact Hg|]. split; [exact H2|]. split; [exact EE|].
    apply goodb_spec. intros x Hx HAx. rewrite <- EE in Hx.
    split; [rewrite <- EE; symmetry; apply cover_is_gen; assumption|].
    apply Hmax; [exact (mem_lt_of_in_range _ _ _ (proj1 (proj1 (proj2 Hcov))) Hx)|].
    rewrite Hx, HAx. reflexivity.
  Qed.

  Lemma goodb_covers g : (g < nG c)%nat -> mem A g = false -> goodb g = true -> covers c A (gen g).
  Proof. intros Hg Hm H. apply cover_iff; [exact Hg|exact Hm|apply goodb_coverb; exact H]. Qed.

  Lemma goodb_inj g1 g2 : (g1 < nG c)%nat -> (g2 < nG c)%nat -> mem A g1 = false -> mem A g2 = false ->
    goodb g1 = true -> goodb g2 = true -> gen g1 = gen g2 -> g1 = g2.
  Proof.
    intros H1 H2 M1 M2 G1 G2 E. rewrite goodb_spec in G1, G2.
    assert ((g2 <= g1)%nat) by (apply (G1 g2); [rewrite E; apply gen_self; exact H2|exact M2]).
    assert ((g1 <= g2)%nat) by (apply (G2 g1); [rewrite <- E; apply gen_self; exact H1|exact M1]).
    lia.
  Qed.
End Gen.
