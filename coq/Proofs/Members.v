(** Order and logical-relation predicates of lattice_members.py versus their set meaning. *)
From Coq Require Import ZArith List Bool Lia ZifyBool.
From Concepts Require Import Base.Res Base.PyInt Base.BitSet Spec.FCA Spec.Context Model.Members.
Import ListNotations.
Open Scope Z_scope.

Definition disjoint (a b : Z) : Prop := forall i, ~ (mem a i = true /\ mem b i = true).
Definition meets (a b : Z) : Prop := exists i, mem a i = true /\ mem b i = true.
Definition covers_all (n : nat) (a b : Z) : Prop := forall i, (i < n)%nat -> mem a i = true \/ mem b i = true.

Section Preds.
  Variables (n : nat) (a b : Z).
  Hypotheses (Ha : in_range n a) (Hb : in_range n b).
  Let sup := ones n.

  Lemma a_nonneg : 0 <= a. Proof. exact (proj1 Ha). Qed.
  Lemma b_nonneg : 0 <= b. Proof. exact (proj1 Hb). Qed.

  Lemma implies_spec : implies a b sup = Ok true <-> subset a b.
  Proof.
    unfold implies. fold (subsetb a b). rewrite <- (subsetb_spec a b a_nonneg).
    split; [intros H; injection H; auto|intros ->; reflexivity].
  Qed.

  Lemma subsumes_spec : subsumes a b sup = Ok true <-> subset b a.
  Proof.
    unfold subsumes. rewrite <- (supersetb_spec a b a_nonneg b_nonneg).
    split; [intros H; injection H; auto|intros ->; reflexivity].
  Qed.

  Lemma properly_implies_spec : properly_implies a b sup = Ok true <-> subset a b /\ a <> b.
  Proof.
    unfold properly_implies. fold (subsetb a b).
    rewrite <- (subsetb_spec a b a_nonneg). split.
    - intros H. injection H as H. apply andb_prop in H. destruct H as [H1 H2]. split; [exact H1|lia].
    - intros [H1 H2]. rewrite H1. cbn. f_equal. lia.
  Qed.

  Lemma properly_subsumes_spec : properly_subsumes a b sup = Ok true <-> subset b a /\ a <> b.
  Proof.
    unfold properly_subsumes.
    rewrite <- (supersetb_spec a b a_nonneg b_nonneg). split.
    - intros H. injection H as H. apply andb_prop in H. destruct H as [H1 H2]. split; [exact H1|lia].
    - intros [H1 H2]. rewrite H1. cbn. f_equal. lia.
  Qed.

  Lemma land_zero_iff : Z.land a b = 0 <-> disjoint a b.
  Proof.
    assert (Hn : 0 <= Z.land a b) by (apply Z.land_nonneg; left; apply a_nonneg).
    rewrite (zero_iff_empty _ Hn). unfold disjoint. split; intros H i.
    - intros [H1 H2]. specialize (H i). rewrite mem_land, H1, H2 in H. discriminate.
    - rewrite mem_land. destruct (mem a i) eqn:E1, (mem b i) eqn:E2; try reflexivity.
      exfalso. apply (H i). split; assumption.
  Qed.

  Lemma land_nonzero_iff : Z.land a b <> 0 <-> meets a b.
  Proof.
    rewrite land_zero_iff. unfold disjoint, meets. split.
    - intros H. destruct (existsb (fun i => mem a i && mem b i) (seq 0 n)) eqn:E.
      + apply existsb_exists in E. destruct E as [i [_ Hi]]. apply andb_prop in Hi. exists i. exact Hi.
      + exfalso. apply H. intros i [H1 H2].
        assert (Hin : In i (seq 0 n)) by (apply in_seq; pose proof (mem_lt_of_in_range _ _ _ Ha H1); lia).
        assert (existsb (fun i => mem a i && mem b i) (seq 0 n) = true); [|congruence].
        apply existsb_exists. exists i. split; [exact Hin|]. rewrite H1, H2. reflexivity.
    - intros [i Hi] H. apply (H i). exact Hi.
  Qed.

  Lemma lor_sup_iff : Z.lor a b = sup <-> covers_all n a b.
  Proof.
    unfold covers_all, sup. split.
    - intros H i Hi. assert (E : mem (Z.lor a b) i = true).
      { rewrite H, mem_ones. apply Nat.ltb_lt. exact Hi. }
      rewrite mem_lor in E. apply orb_true_iff in E. exact E.
    - intros H. apply (bitset_ext n); [apply in_range_lor; assumption|apply in_range_ones|].
      intros i Hi. rewrite mem_lor, mem_ones. destruct (Nat.ltb_spec i n); [|lia].
      apply orb_true_iff. apply H. exact Hi.
  Qed.

  Lemma incompatible_with_spec : incompatible_with a b sup = Ok true <-> disjoint a b.
  Proof.
    unfold incompatible_with. rewrite <- land_zero_iff. split.
    - intros H. injection H as H. apply negb_true_iff, truthy_false_iff in H. exact H.
    - intros H. rewrite H. reflexivity.
  Qed.

  Lemma complement_of_spec : complement_of a b sup = Ok true <-> disjoint a b /\ covers_all n a b.
  Proof.
    unfold complement_of. rewrite <- land_zero_iff, <- lor_sup_iff. split.
    - intros H. injection H as H. apply andb_prop in H. destruct H as [H1 H2].
      apply negb_true_iff, truthy_false_iff in H1. split; [exact H1|lia].
    - intros [H1 H2]. rewrite H1, H2. cbn. f_equal. fold sup. lia.
  Qed.

  Lemma subcontrary_with_spec : subcontrary_with a b sup = Ok true <-> meets a b /\ covers_all n a b.
  Proof.
    unfold subcontrary_with. rewrite <- land_nonzero_iff, <- lor_sup_iff. split.
    - intros H. injection H as H. apply andb_prop in H. destruct H as [H1 H2].
      apply truthy_true_iff in H1. split; [exact H1|lia].
    - intros [H1 H2]. apply truthy_true_iff in H1. rewrite H1, H2. cbn. f_equal. fold sup. lia.
  Qed.

  Lemma land_eq_l_iff : Z.land a b = a <-> subset a b.
  Proof. rewrite <- (subsetb_spec a b a_nonneg). unfold subsetb. lia. Qed.
  Lemma land_eq_r_iff : Z.land a b = b <-> subset b a.
  Proof. rewrite Z.land_comm. rewrite <- (subsetb_spec b a b_nonneg). unfold subsetb. lia. Qed.

  Lemma orthogonal_to_spec :
    orthogonal_to a b sup = Ok true <->
    meets a b /\ ~ subset a b /\ ~ subset b a /\ ~ covers_all n a b.
  Proof.
    unfold orthogonal_to. rewrite <- land_nonzero_iff, <- land_eq_l_iff, <- land_eq_r_iff, <- lor_sup_iff.
    rewrite negb_involutive. split.
    - intros H. injection H as H.
      apply andb_prop in H. destruct H as [H H4]. apply andb_prop in H. destruct H as [H H3].
      apply andb_prop in H. destruct H as [H1 H2]. apply truthy_true_iff in H1.
      repeat split; try exact H1; fold sup; lia.
    - intros (H1 & H2 & H3 & H4). apply truthy_true_iff in H1. rewrite H1. cbn [andb]. f_equal.
      fold sup in H4. lia.
  Qed.
End Preds.

(** On concepts the order is also the reverse inclusion of intents, and it is a partial
    order: distinct concepts are never mutually <=. *)
Theorem implies_iff_intents c A1 B1 A2 B2 :
  is_concept c A1 B1 -> is_concept c A2 B2 ->
  (implies A1 A2 (ones (nG c)) = Ok true <-> subset B2 B1).
Proof.
  intros H1 H2. rewrite (implies_spec (nG c) A1 A2 (proj1 H1)).
  apply (concept_order c A1 B1 A2 B2); assumption.
Qed.

Theorem implies_refl n a : in_range n a -> implies a a (ones n) = Ok true.
Proof. intros Ha. apply (implies_spec n a a Ha). apply subset_refl. Qed.

Theorem implies_trans n a b d : in_range n a -> in_range n b -> in_range n d ->
  implies a b (ones n) = Ok true -> implies b d (ones n) = Ok true -> implies a d (ones n) = Ok true.
Proof.
  intros Ha Hb Hd H1 H2. apply (implies_spec n a d Ha).
  apply (implies_spec n a b Ha) in H1. apply (implies_spec n b d Hb) in H2.
  eapply subset_trans; eassumption.
Qed.

Theorem implies_antisym n a b : in_range n a -> in_range n b ->
  implies a b (ones n) = Ok true -> implies b a (ones n) = Ok true -> a = b.
Proof.
  intros Ha Hb H1 H2. apply (implies_spec n a b Ha) in H1. apply (implies_spec n b a Hb) in H2.
  apply (subset_antisym n); assumption.
Qed.
