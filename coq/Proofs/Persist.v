(** The persistence codec (Context.todict / Lattice._tolist, Lattice._fromlist + _init):
    encoding, ordered reload, raw reload of an arbitrarily permuted serialisation. *)
From Coq Require Import ZArith List Bool Lia ZifyBool Arith Sorted Permutation.
From Concepts Require Import Base.Res Base.PyInt Base.BitSet Spec.FCA Spec.Context
  Model.Matrices Model.ContextApi Model.Members Model.Lindig Model.Lattice Model.Persist Spec.LatticeSpec
  Proofs.Matrices Proofs.ContextApi Proofs.Closure Proofs.LatticeBasics Proofs.LatticeFirst
  Proofs.Keys Proofs.SortBy Proofs.Powerset Proofs.Lindig Proofs.BuildLattice.
Import ListNotations.
Open Scope Z_scope.

(** * 1. [sum(1 << e for e in ex)] of distinct members is the bitset *)

Fixpoint sum_list (l : list nat) : Z :=
  match l with [] => 0 | e :: r => bit e + sum_list r end.

Lemma sum_bits_fold l : forall a, fold_left (fun acc e => acc + bit e) l a = a + sum_list l.
Proof.
  induction l as [|x l IH]; intros a; cbn [fold_left sum_list]; [lia|]. rewrite IH. lia.
Qed.

Lemma sum_bits_sum_list l : sum_bits l = sum_list l.
Proof. unfold sum_bits. rewrite sum_bits_fold. lia. Qed.

Lemma sum_list_perm l l' : Permutation l l' -> sum_list l = sum_list l'.
Proof. induction 1; cbn [sum_list]; lia. Qed.

Theorem sum_bits_perm l l' : Permutation l l' -> sum_bits l = sum_bits l'.
Proof. intros P. rewrite !sum_bits_sum_list. apply sum_list_perm, P. Qed.

Lemma land_bit_of_list x l : ~ In x l -> Z.land (bit x) (of_list l) = 0.
Proof.
  intros Hn. apply bitset_ext_nonneg; [apply Z.land_nonneg; left; apply bit_nonneg|lia|].
  intros i. rewrite mem_land, mem_bit, mem_0.
  destruct (Nat.eqb_spec x i) as [<-|Hne]; [|reflexivity]. cbn [andb].
  destruct (mem (of_list l) x) eqn:E; [|reflexivity]. apply mem_of_list_In in E. contradiction.
Qed.

Theorem sum_list_of_list l : NoDup l -> sum_list l = of_list l.
Proof.
  induction 1 as [|x l Hn Hnd IH]; [reflexivity|].
  cbn [sum_list of_list fold_right]. fold (of_list l). rewrite IH.
  pose proof (land_bit_of_list x l Hn) as H0.
  rewrite (Z.add_nocarry_lxor _ _ H0). apply Z.lxor_lor, H0.
Qed.

Theorem sum_bits_of_list l : NoDup l -> sum_bits l = of_list l.
Proof. intros H. rewrite sum_bits_sum_list. apply sum_list_of_list, H. Qed.

Lemma members_NoDup n s : NoDup (members n s).
Proof. unfold members. apply NoDup_filter, seq_NoDup. Qed.

Theorem sum_bits_indexes n s : in_range n s -> sum_bits (indexes s) = s.
Proof.
  intros Hs. rewrite (indexes_members n s Hs), sum_bits_of_list by apply members_NoDup.
  apply of_list_members, Hs.
Qed.

Theorem sum_bits_perm_indexes n s l : in_range n s -> Permutation l (indexes s) -> sum_bits l = s.
Proof. intros Hs P. rewrite (sum_bits_perm _ _ P). apply (sum_bits_indexes n), Hs. Qed.

Lemma indexes_sorted n s : in_range n s -> StronglySorted lt (indexes s).
Proof. intros Hs. rewrite (indexes_members n s Hs). apply members_sorted. Qed.

Lemma In_indexes n s i : in_range n s -> (In i (indexes s) <-> (i < n)%nat /\ mem s i = true).
Proof. intros Hs. rewrite (indexes_members n s Hs). apply In_members. Qed.

(** * generic list facts *)

Lemma nth_map_seq {A} (f : nat -> A) len i d : (i < len)%nat -> nth i (map f (seq 0 len)) d = f i.
Proof.
  intros Hi. rewrite (nth_indep _ d (f O)) by (rewrite map_length, seq_length; exact Hi).
  rewrite map_nth, seq_nth by exact Hi. reflexivity.
Qed.

Lemma map_nth_seq_id {A} (l : list A) d : map (fun i => nth i l d) (seq 0 (length l)) = l.
Proof.
  pose proof (map_nth_seq (fun x : A => x) l d) as H. cbv beta in H. rewrite H. apply map_id.
Qed.

Lemma map_rank_self l : NoDup l -> map (rank_in l) l = seq 0 (length l).
Proof.
  induction 1 as [|x l Hn Hnd IH]; [reflexivity|].
  cbn [map length seq]. rewrite rank_in_cons, Nat.eqb_refl. f_equal.
  rewrite <- seq_shift, <- IH, map_map. apply map_ext_in. intros a Ha.
  rewrite rank_in_cons. destruct (Nat.eqb_spec x a) as [->|Hne]; [contradiction|reflexivity].
Qed.

Lemma rank_in_seq len u : (u < len)%nat -> rank_in (seq 0 len) u = u.
Proof.
  intros Hu. pose proof (rank_in_of_nth (seq 0 len) u O (seq_NoDup len 0)) as H.
  rewrite seq_length in H. specialize (H Hu). rewrite seq_nth in H by exact Hu. exact H.
Qed.

Lemma Forall2_map_eq_in {A B C} (R : A -> B -> Prop) (f : A -> C) (g : B -> C) l l' :
  Forall2 R l l' -> (forall a b, In a l -> R a b -> g b = f a) -> map g l' = map f l.
Proof.
  induction 1 as [|a b l l' Hab HF IH]; intros H; [reflexivity|].
  cbn [map]. f_equal; [apply H; [left; reflexivity|exact Hab]|].
  apply IH. intros a0 b0 Ha0. apply H. right. exact Ha0.
Qed.

Lemma Forall2_seq_nth {A} (R : nat -> A -> Prop) (l : list A) d :
  (forall i, (i < length l)%nat -> R i (nth i l d)) -> Forall2 R (seq 0 (length l)) l.
Proof.
  assert (G : forall (l : list A) s, (forall i, (i < length l)%nat -> R (s + i)%nat (nth i l d)) ->
                Forall2 R (seq s (length l)) l).
  { clear l. induction l as [|x l IH]; intros s H; cbn [length seq]; constructor.
    - specialize (H O). cbn [length nth] in H. rewrite Nat.add_0_r in H. apply H. lia.
    - apply IH. intros i Hi. specialize (H (S i)). cbn [length nth] in H.
      replace (S s + i)%nat with (s + S i)%nat by lia. apply H. lia. }
  intros H. apply G. exact H.
Qed.

(** * the inverse of a permutation of [0..len-1], through [rank_in] *)

Section Inverse.
  Variables (order0 : list nat) (len : nat).
  Hypothesis Hperm : Permutation order0 (seq 0 len).
  Notation r := (rank_in order0).

  Definition inv_order : list nat := map r (seq 0 len).

  Lemma order0_length : length order0 = len.
  Proof. rewrite (Permutation_length Hperm). apply seq_length. Qed.

  Lemma order0_NoDup : NoDup order0.
  Proof. apply (Permutation_NoDup (Permutation_sym Hperm)), seq_NoDup. Qed.

  Lemma order0_In i : In i order0 <-> (i < len)%nat.
  Proof.
    split; intros H.
    - apply (Permutation_in _ Hperm) in H. apply in_seq in H. lia.
    - apply (Permutation_in _ (Permutation_sym Hperm)). apply in_seq. lia.
  Qed.

  Lemma r_lt i : (i < len)%nat -> (r i < len)%nat.
  Proof. intros Hi. rewrite <- order0_length. apply rank_in_lt, order0_In, Hi. Qed.

  Lemma nth_r i : (i < len)%nat -> nth (r i) order0 O = i.
  Proof. intros Hi. apply rank_in_nth, order0_In, Hi. Qed.

  Lemma inv_perm : Permutation (seq 0 len) inv_order.
  Proof.
    assert (E : map r order0 = seq 0 len) by (rewrite (map_rank_self _ order0_NoDup), order0_length; reflexivity).
    unfold inv_order. rewrite <- E at 1. apply Permutation_map, Hperm.
  Qed.

  Lemma inv_NoDup : NoDup inv_order.
  Proof. apply (Permutation_NoDup inv_perm), seq_NoDup. Qed.

  Lemma inv_length : length inv_order = len.
  Proof. unfold inv_order. rewrite map_length, seq_length. reflexivity. Qed.

  Lemma nth_inv i : (i < len)%nat -> nth i inv_order O = r i.
  Proof. apply nth_map_seq. Qed.

  Lemma rank_inv_r u : (u < len)%nat -> rank_in inv_order (r u) = u.
  Proof.
    intros Hu. rewrite <- (nth_inv u Hu).
    apply rank_in_of_nth; [apply inv_NoDup|rewrite inv_length; exact Hu].
  Qed.

  (** a table stored in the order [order0], read at the new position of [i] *)
  Lemma nth_through {A} (g : nat -> A) d i : (i < len)%nat -> nth (r i) (map g order0) d = g i.
  Proof.
    intros Hi. rewrite (nth_indep _ d (g O)) by (rewrite map_length, order0_length; apply r_lt, Hi).
    rewrite map_nth, nth_r by exact Hi. reflexivity.
  Qed.

  (** sorting the stored positions by a key that is strictly increasing along the canonical
      order yields the inverse permutation *)
  Lemma inverse_is_sorted (kf key0 : nat -> key) :
    (forall i, (i < len)%nat -> kf (r i) = key0 i) ->
    StronglySorted (klt key0) (seq 0 len) ->
    sort_by kf (seq 0 len) = inv_order.
  Proof.
    intros Hk S. apply sort_by_unique; [apply inv_perm|]. unfold inv_order.
    apply (proj1 (StronglySorted_map r (klt kf) (seq 0 len))).
    revert S. apply StronglySorted_impl. intros a b Ha Hb. apply in_seq in Ha, Hb.
    unfold klt. rewrite !Hk by lia. exact (fun H => H).
  Qed.

  (** a neighbour tuple, renamed and shuffled, is sorted back and renamed back *)
  Lemma sort_renamed (kf key0 : nat -> key) (us up' : list nat) :
    (forall i, (i < len)%nat -> kf (r i) = key0 i) ->
    (forall u, In u us -> (u < len)%nat) ->
    StronglySorted (klt key0) us ->
    Permutation up' (map r us) ->
    map (rank_in inv_order) (sort_by kf up') = us.
  Proof.
    intros Hk Hlt S P. rewrite (sort_by_unique kf up' (map r us) P).
    - rewrite map_map. rewrite <- (map_id us) at 2. apply map_ext_in. intros u Hu. apply rank_inv_r, Hlt, Hu.
    - apply (proj1 (StronglySorted_map r (klt kf) us)).
      revert S. apply StronglySorted_impl. intros a b Ha Hb.
      unfold klt. rewrite !Hk by (apply Hlt; assumption). exact (fun H => H).
  Qed.
End Inverse.

(** * the raw path of _fromlist on abstract tables *)

Section RawPath.
  Variables (n len : nat) (E I : list Z) (U Lo : list (list nat)).
  Hypothesis HlE : length E = len.
  Hypothesis HlI : length I = len.
  Hypothesis HlU : length U = len.
  Hypothesis HlLo : length Lo = len.
  Hypothesis HEs : StronglySorted (klt (shortlex n)) E.
  Hypothesis HUlt : forall i u, (i < len)%nat -> In u (nth i U []) -> (u < len)%nat.
  Hypothesis HLlt : forall i u, (i < len)%nat -> In u (nth i Lo []) -> (u < len)%nat.
  Hypothesis HUs : forall i, (i < len)%nat -> StronglySorted (klt (fun a => shortlex n (nth a E 0))) (nth i U []).
  Hypothesis HLs : forall i, (i < len)%nat -> StronglySorted (klt (fun a => longlex n (nth a E 0))) (nth i Lo []).

  Variables (order0 : list nat) (exts0 ints0 : list Z) (ups0 los0 : list (list nat)).
  Hypothesis Hperm : Permutation order0 (seq 0 len).
  Hypothesis Hexts0 : exts0 = map (fun o => nth o E 0) order0.
  Hypothesis Hints0 : ints0 = map (fun o => nth o I 0) order0.
  Hypothesis Hups0 : Forall2 (fun o up' => Permutation up' (map (rank_in order0) (nth o U []))) order0 ups0.
  Hypothesis Hlos0 : Forall2 (fun o lo' => Permutation lo' (map (rank_in order0) (nth o Lo []))) order0 los0.

  Notation r := (rank_in order0).
  Notation inv := (inv_order order0 len).
  Notation G := (fun j : nat => nth j exts0 0).

  Lemma G_r i : (i < len)%nat -> nth (r i) exts0 0 = nth i E 0.
  Proof. intros Hi. rewrite Hexts0. apply (nth_through order0 len Hperm (fun o => nth o E 0) 0 i Hi). Qed.

  Lemma E_positions_sorted : StronglySorted (klt (fun i => shortlex n (nth i E 0))) (seq 0 len).
  Proof.
    apply (proj2 (StronglySorted_map (fun i => nth i E 0) (klt (shortlex n)) (seq 0 len))).
    rewrite <- HlE, map_nth_seq_id. exact HEs.
  Qed.

  Lemma raw_order_eq : sort_by (fun i => shortlex n (G i)) (seq 0 len) = inv.
  Proof.
    apply (inverse_is_sorted order0 len Hperm _ (fun i => shortlex n (nth i E 0))).
    - intros i Hi. cbv beta. rewrite G_r by exact Hi. reflexivity.
    - exact E_positions_sorted.
  Qed.

  Lemma raw_exts_eq : map (fun i => nth i exts0 0) inv = E.
  Proof.
    unfold inv_order. rewrite map_map.
    transitivity (map (fun i => nth i E 0) (seq 0 len)).
    - apply map_ext_in. intros i Hi. apply in_seq in Hi. apply G_r. lia.
    - rewrite <- HlE. apply map_nth_seq_id.
  Qed.

  Lemma raw_ints_eq : map (fun i => nth i ints0 0) inv = I.
  Proof.
    unfold inv_order. rewrite map_map.
    transitivity (map (fun i => nth i I 0) (seq 0 len)).
    - apply map_ext_in. intros i Hi. apply in_seq in Hi. rewrite Hints0.
      apply (nth_through order0 len Hperm (fun o => nth o I 0) 0 i). lia.
    - rewrite <- HlI. apply map_nth_seq_id.
  Qed.

  Lemma raw_valid : forallb (fun l => forallb (fun i => (i <? len)%nat) l) (ups0 ++ los0) = true.
  Proof.
    apply forallb_forall. intros l Hl. apply forallb_forall. intros x Hx. apply Nat.ltb_lt.
    apply in_app_or in Hl. destruct Hl as [Hl|Hl].
    - destruct (Forall2_In_l _ _ _ _ Hups0 Hl) as (o & Ho & P).
      apply (Permutation_in _ P) in Hx. apply in_map_iff in Hx. destruct Hx as (u & <- & Hu).
      apply (order0_In order0 len Hperm) in Ho. apply (r_lt order0 len Hperm). exact (HUlt o u Ho Hu).
    - destruct (Forall2_In_l _ _ _ _ Hlos0 Hl) as (o & Ho & P).
      apply (Permutation_in _ P) in Hx. apply in_map_iff in Hx. destruct Hx as (u & <- & Hu).
      apply (order0_In order0 len Hperm) in Ho. apply (r_lt order0 len Hperm). exact (HLlt o u Ho Hu).
  Qed.

  Lemma raw_ups_eq :
    map (fun i => map (rank_in inv) (sort_by (fun o => shortlex n (nth o exts0 0)) (nth i ups0 []))) inv = U.
  Proof.
    unfold inv_order at 2. rewrite map_map.
    transitivity (map (fun i => nth i U []) (seq 0 len)); [|rewrite <- HlU; apply map_nth_seq_id].
    apply map_ext_in. intros i Hi. apply in_seq in Hi. assert (Hi' : (i < len)%nat) by lia.
    apply (sort_renamed order0 len Hperm _ (fun a => shortlex n (nth a E 0))).
    - intros a Ha. cbv beta. rewrite G_r by exact Ha. reflexivity.
    - intros u Hu. exact (HUlt i u Hi' Hu).
    - exact (HUs i Hi').
    - pose proof (Forall2_nth _ _ _ O [] Hups0 (r i)) as P. cbv beta in P.
      rewrite (order0_length order0 len Hperm) in P. specialize (P (r_lt order0 len Hperm i Hi')).
      rewrite (nth_r order0 len Hperm i Hi') in P. exact P.
  Qed.

  Lemma raw_los_eq :
    map (fun i => map (rank_in inv) (sort_by (fun o => longlex n (nth o exts0 0)) (nth i los0 []))) inv = Lo.
  Proof.
    unfold inv_order at 2. rewrite map_map.
    transitivity (map (fun i => nth i Lo []) (seq 0 len)); [|rewrite <- HlLo; apply map_nth_seq_id].
    apply map_ext_in. intros i Hi. apply in_seq in Hi. assert (Hi' : (i < len)%nat) by lia.
    apply (sort_renamed order0 len Hperm _ (fun a => longlex n (nth a E 0))).
    - intros a Ha. cbv beta. rewrite G_r by exact Ha. reflexivity.
    - intros u Hu. exact (HLlt i u Hi' Hu).
    - exact (HLs i Hi').
    - pose proof (Forall2_nth _ _ _ O [] Hlos0 (r i)) as P. cbv beta in P.
      rewrite (order0_length order0 len Hperm) in P. specialize (P (r_lt order0 len Hperm i Hi')).
      rewrite (nth_r order0 len Hperm i Hi') in P. exact P.
  Qed.
  Definition raw_order (n0 : nat) (xs : list Z) (l : nat) : list nat :=
    sort_by (fun i => shortlex n0 (nth i xs 0)) (seq 0 l).

  Theorem raw_tables :
    forallb (fun l => forallb (fun i => (i <? len)%nat) l) (ups0 ++ los0) = true /\
    map (fun i => nth i exts0 0) (raw_order n exts0 len) = E /\
    map (fun i => nth i ints0 0) (raw_order n exts0 len) = I /\
    map (fun i => map (rank_in (raw_order n exts0 len))
                    (sort_by (fun o => shortlex n (nth o exts0 0)) (nth i ups0 []))) (raw_order n exts0 len) = U /\
    map (fun i => map (rank_in (raw_order n exts0 len))
                    (sort_by (fun o => longlex n (nth o exts0 0)) (nth i los0 []))) (raw_order n exts0 len) = Lo.
  Proof.
    unfold raw_order. rewrite raw_order_eq.
    split; [exact raw_valid|]. split; [exact raw_exts_eq|]. split; [exact raw_ints_eq|].
    split; [exact raw_ups_eq|exact raw_los_eq].
  Qed.
End RawPath.

(** * [fromlist] = decode, reorder, then [_init] *)

Definition dec_ext (en : lat_entry) : Z := let '(ex, _, _, _) := en in sum_bits ex.
Definition dec_int (en : lat_entry) : Z := let '(_, it, _, _) := en in sum_bits it.
Definition ent_up (en : lat_entry) : list nat := let '(_, _, up, _) := en in up.
Definition ent_lo (en : lat_entry) : list nat := let '(_, _, _, lo) := en in lo.

Definition init_part (dfuel : nat) (k : mctx) (len : nat) (exts ints : list Z) (ups los : list (list nat))
  : res lattice :=
  let n := nG (mc k) in
  let idxs := seq 0 len in
  let dorder := sort_by (fun i => longlex n (nth_extent exts i)) idxs in
  let atoms := nth 0 ups [] in
  do olabels <- for_fold (fun acc o =>
                   do B <- intension_raw dfuel k [o] ;;
                   do A <- properties_prime dfuel k B ;;
                   do ci <- mapping_get exts A ;;
                   Ok (append_label acc ci o)) (seq 0 n) [] ;;
  do plabels <- for_fold (fun acc p =>
                   do A <- extension_raw dfuel k [p] ;;
                   do ci <- mapping_get exts A ;;
                   Ok (append_label acc ci p)) (seq 0 (nM (mc k))) [] ;;
  let concepts :=
    map (fun i => let e := nth i exts 0 in
           mkConcept e (nth i ints 0) (nth i ups []) (nth i los []) i (rank_in dorder i)
             (filter (fun a => Z.lor e (nth_extent exts a) =? e) atoms)
             (labels_of olabels i) (labels_of plabels i)) idxs in
  Ok (mkLattice k concepts exts).

Lemma fromlist_eq dfuel k lat raw :
  fromlist dfuel k lat raw =
  let n := nG (mc k) in
  let exts0 := map dec_ext lat in
  let ints0 := map dec_int lat in
  let ups0 := map ent_up lat in
  let los0 := map ent_lo lat in
  let len := length lat in
  let order := if raw then sort_by (fun i => shortlex n (nth i exts0 0)) (seq 0 len) else seq 0 len in
  if negb (forallb (fun l => forallb (fun i => (i <? len)%nat) l) (ups0 ++ los0))
  then Raise (if raw then KeyError else IndexError)
  else init_part dfuel k len
         (map (fun i => nth i exts0 0) order) (map (fun i => nth i ints0 0) order)
         (map (fun i => let up := nth i ups0 [] in
                        if raw then map (rank_in order) (sort_by (fun o => shortlex n (nth o exts0 0)) up) else up) order)
         (map (fun i => let lo := nth i los0 [] in
                        if raw then map (rank_in order) (sort_by (fun o => longlex n (nth o exts0 0)) lo) else lo) order).
Proof. reflexivity. Qed.

(** * [_init] on the tables of a built lattice rebuilds it *)

Theorem init_rebuilds fuel dfuel c L :
  wf_ctx c -> (Nat.max (nG c) (nM c) <= dfuel)%nat ->
  build_lattice fuel dfuel (relation_new c) = Ok L ->
  init_part dfuel (relation_new c) (length (l_concepts L)) (l_exts L)
    (map c_intent (l_concepts L)) (map c_upper (l_concepts L)) (map c_lower (l_concepts L)) = Ok L.
Proof.
  intros Hwf Hd HB. rewrite build_lattice_eq in HB.
  apply bind_ok in HB. destruct HB as (raw & Hraw & HF).
  unfold finish_lattice in HF. cbv zeta in HF.
  apply bind_ok in HF. destruct HF as (ups & Hups & HF).
  apply bind_ok in HF. destruct HF as (los & Hlos & HF).
  apply bind_ok in HF. destruct HF as (olabels & Hol & HF).
  apply bind_ok in HF. destruct HF as (plabels & Hpl & HF).
  injection HF as <-.
  pose proof (Forall2_length' _ _ _ (map_res_ok _ _ _ Hups)) as Hlu.
  pose proof (Forall2_length' _ _ _ (map_res_ok _ _ _ Hlos)) as Hll.
  cbn [l_concepts l_exts].
  set (k := relation_new c) in *.
  set (exts := map ext_of raw) in *.
  set (mk := mk_concept (nG c) raw exts ups los olabels plabels).
  assert (HU : map c_upper (map mk (seq 0 (length raw))) = ups).
  { rewrite map_map. change (map (fun i => nth i ups []) (seq 0 (length raw)) = ups).
    rewrite Hlu. apply map_nth_seq_id. }
  assert (HL : map c_lower (map mk (seq 0 (length raw))) = los).
  { rewrite map_map. change (map (fun i => nth i los []) (seq 0 (length raw)) = los).
    rewrite Hll. apply map_nth_seq_id. }
  assert (HI : map c_intent (map mk (seq 0 (length raw))) = map int_of raw).
  { rewrite map_map. exact (map_nth_seq int_of raw dentry). }
  rewrite HU, HL, HI, map_length, seq_length.
  unfold init_part. cbv zeta.
  rewrite (for_fold_ext _ (fun acc o => do ci <- obj_slot dfuel k exts o ;; Ok (append_label acc ci o))).
  2:{ intros s x. unfold obj_slot. destruct (intension_raw dfuel k [x]) as [B|]; [|reflexivity]. cbn [bind].
      destruct (properties_prime dfuel k B); reflexivity. }
  rewrite Hol. cbn [bind].
  rewrite (for_fold_ext _ (fun acc p => do ci <- prop_slot dfuel k exts p ;; Ok (append_label acc ci p))).
  2:{ intros s x. unfold prop_slot. destruct (extension_raw dfuel k [x]) as [B|]; reflexivity. }
  rewrite Hpl. cbn [bind].
  f_equal. f_equal. apply map_ext. intros i. unfold mk, mk_concept.
  pose proof (nth_extent_raw raw i) as He. unfold nth_extent in He. fold exts in He. rewrite He.
  assert (Hi : nth i (map int_of raw) 0 = int_of (nth i raw dentry)).
  { change 0 with (int_of dentry) at 1. apply map_nth. }
  rewrite Hi. reflexivity.
Qed.

Lemma fromlist_true_eq dfuel k lat :
  fromlist dfuel k lat true =
  let n := nG (mc k) in
  let exts0 := map dec_ext lat in
  let len := length lat in
  if negb (forallb (fun l => forallb (fun i => (i <? len)%nat) l) (map ent_up lat ++ map ent_lo lat))
  then Raise KeyError
  else init_part dfuel k len
         (map (fun i => nth i exts0 0) (raw_order n exts0 len))
         (map (fun i => nth i (map dec_int lat) 0) (raw_order n exts0 len))
         (map (fun i => map (rank_in (raw_order n exts0 len))
                          (sort_by (fun o => shortlex n (nth o exts0 0)) (nth i (map ent_up lat) []))) (raw_order n exts0 len))
         (map (fun i => map (rank_in (raw_order n exts0 len))
                          (sort_by (fun o => longlex n (nth o exts0 0)) (nth i (map ent_lo lat) []))) (raw_order n exts0 len)).
Proof. reflexivity. Qed.

Lemma fromlist_false_eq dfuel k lat :
  fromlist dfuel k lat false =
  let len := length lat in
  if negb (forallb (fun l => forallb (fun i => (i <? len)%nat) l) (map ent_up lat ++ map ent_lo lat))
  then Raise IndexError
  else init_part dfuel k len
         (map (fun i => nth i (map dec_ext lat) 0) (seq 0 len))
         (map (fun i => nth i (map dec_int lat) 0) (seq 0 len))
         (map (fun i => nth i (map ent_up lat) []) (seq 0 len))
         (map (fun i => nth i (map ent_lo lat) []) (seq 0 len)).
Proof. reflexivity. Qed.

(** * permuted serialisations *)

Definition dflt_entry : lat_entry := ([], [], [], []).

(** [e'] may stand at a new position for the entry stored at position [old] of [lat]: same
    members in any order, neighbour indexes renamed to the new positions, in any order *)
Definition perm_entry (order : list nat) (lat : list lat_entry) (old : nat) (e' : lat_entry) : Prop :=
  let '(ex, it, up, lo) := nth old lat dflt_entry in
  let '(ex', it', up', lo') := e' in
  Permutation ex' ex /\ Permutation it' it /\
  Permutation up' (map (rank_in order) up) /\ Permutation lo' (map (rank_in order) lo).

(** [order] lists, for every new position, the original position of the entry put there *)
Definition perm_ser (order : list nat) (lat lat' : list lat_entry) : Prop :=
  Permutation order (seq 0 (length lat)) /\ Forall2 (perm_entry order lat) order lat'.

(** the formulation with an explicit shuffle of every tuple *)
Lemma perm_ser_of_shuffle order lat lat' :
  Permutation order (seq 0 (length lat)) ->
  Forall2 (fun old e' =>
             let '(ex, it, up, lo) := nth old lat dflt_entry in
             exists ex' it' up' lo',
               Permutation ex' ex /\ Permutation it' it /\ Permutation up' up /\ Permutation lo' lo /\
               e' = (ex', it', map (rank_in order) up', map (rank_in order) lo')) order lat' ->
  perm_ser order lat lat'.
Proof.
  intros P F. split; [exact P|]. revert F. apply Forall2_impl'. intros old e' H. unfold perm_entry.
  destruct (nth old lat dflt_entry) as [[[ex it] up] lo].
  destruct H as (ex' & it' & up' & lo' & P1 & P2 & P3 & P4 & ->).
  split; [exact P1|]. split; [exact P2|]. split; apply Permutation_map; assumption.
Qed.

Lemma Forall2_map_r {A B C} (R : A -> C -> Prop) (g : B -> C) l l' :
  Forall2 (fun a b => R a (g b)) l l' -> Forall2 R l (map g l').
Proof. induction 1; cbn [map]; constructor; assumption. Qed.

Lemma Forall2_with_In {A B} (R : A -> B -> Prop) l l' :
  Forall2 R l l' -> Forall2 (fun a b => In a l /\ R a b) l l'.
Proof.
  induction 1 as [|a b l l' Hab HF IH]; constructor.
  - split; [left; reflexivity|exact Hab].
  - revert IH. apply Forall2_impl'. intros a0 b0 [Hin Hp]. split; [right; exact Hin|exact Hp].
Qed.

(** * reload of the serialisation of a correct lattice *)

Definition dconcept : concept := mkConcept 0 0 [] [] 0 0 [] [] [].
Definition enc (x : concept) : lat_entry :=
  (indexes (c_extent x), indexes (c_intent x), c_upper x, c_lower x).

Section Reload.
  Variables (c : ctx) (L : lattice).
  Hypothesis Hok : lattice_ok c L.
  Notation cs := (l_concepts L).
  Notation len := (length (l_concepts L)).

  Lemma tolist_enc : tolist L = map enc cs.
  Proof. reflexivity. Qed.

  Lemma tolist_length : @length lat_entry (tolist L) = len.
  Proof. unfold tolist. apply map_length. Qed.

  Lemma tolist_nth o : @nth lat_entry o (tolist L) dflt_entry = enc (nth o cs dconcept).
  Proof. rewrite tolist_enc. change dflt_entry with (enc dconcept). apply map_nth. Qed.

  Lemma concept_at_nth i : (i < len)%nat -> concept_at L i (nth i cs dconcept).
  Proof. intros Hi. unfold concept_at. apply nth_error_nth'. exact Hi. Qed.

  Lemma concept_at_lt i x : concept_at L i x -> (i < len)%nat.
  Proof. unfold concept_at. intros H. apply nth_error_Some. congruence. Qed.

  Lemma exts_length : length (l_exts L) = len.
  Proof. rewrite (ok_exts c L Hok). apply map_length. Qed.

  Lemma exts_nth o : nth o (l_exts L) 0 = c_extent (nth o cs dconcept).
  Proof. rewrite (ok_exts c L Hok). change 0 with (c_extent dconcept) at 1. apply map_nth. Qed.

  Lemma ints_nth o : nth o (map c_intent cs) 0 = c_intent (nth o cs dconcept).
  Proof. change 0 with (c_intent dconcept) at 1. apply map_nth. Qed.

  Lemma ups_nth o : nth o (map c_upper cs) [] = c_upper (nth o cs dconcept).
  Proof. change (@nil nat) with (c_upper dconcept) at 1. apply map_nth. Qed.

  Lemma los_nth o : nth o (map c_lower cs) [] = c_lower (nth o cs dconcept).
  Proof. change (@nil nat) with (c_lower dconcept) at 1. apply map_nth. Qed.

  Lemma extent_range i : (i < len)%nat -> in_range (nG c) (c_extent (nth i cs dconcept)).
  Proof.
    intros Hi. apply (ok_complete c L Hok). rewrite (ok_exts c L Hok). apply in_map, nth_In, Hi.
  Qed.

  Lemma intent_range i : (i < len)%nat -> in_range (nM c) (c_intent (nth i cs dconcept)).
  Proof. intros Hi. rewrite (ok_intent c L Hok i _ (concept_at_nth i Hi)). apply in_range_upO. Qed.

  Lemma upper_lt i u : (i < len)%nat -> In u (nth i (map c_upper cs) []) -> (u < len)%nat.
  Proof.
    intros Hi Hu. rewrite ups_nth in Hu.
    apply (ok_upper c L Hok i _ u (concept_at_nth i Hi)) in Hu. destruct Hu as (y & Hy & _).
    exact (concept_at_lt u y Hy).
  Qed.

  Lemma lower_lt i u : (i < len)%nat -> In u (nth i (map c_lower cs) []) -> (u < len)%nat.
  Proof.
    intros Hi Hu. rewrite los_nth in Hu.
    apply (ok_lower c L Hok i _ u (concept_at_nth i Hi)) in Hu. destruct Hu as (y & Hy & _).
    exact (concept_at_lt u y Hy).
  Qed.

  Lemma upper_sorted i : (i < len)%nat ->
    StronglySorted (klt (fun a => shortlex (nG c) (nth a (l_exts L) 0))) (nth i (map c_upper cs) []).
  Proof. intros Hi. rewrite ups_nth. exact (ok_upper_sorted c L Hok i _ (concept_at_nth i Hi)). Qed.

  Lemma lower_sorted i : (i < len)%nat ->
    StronglySorted (klt (fun a => longlex (nG c) (nth a (l_exts L) 0))) (nth i (map c_lower cs) []).
  Proof. intros Hi. rewrite los_nth. exact (ok_lower_sorted c L Hok i _ (concept_at_nth i Hi)). Qed.

  Lemma exts_sorted : StronglySorted (klt (shortlex (nG c))) (l_exts L).
  Proof. exact (ok_sorted c L Hok). Qed.

  (** decoding a shuffled entry *)
  Lemma perm_entry_decode order old e' : (old < len)%nat -> perm_entry order (tolist L) old e' ->
    dec_ext e' = nth old (l_exts L) 0 /\ dec_int e' = nth old (map c_intent cs) 0 /\
    Permutation (ent_up e') (map (rank_in order) (nth old (map c_upper cs) [])) /\
    Permutation (ent_lo e') (map (rank_in order) (nth old (map c_lower cs) [])).
  Proof.
    intros Ho H. unfold perm_entry in H. rewrite tolist_nth in H. unfold enc in H.
    destruct e' as [[[ex' it'] up'] lo']. destruct H as (P1 & P2 & P3 & P4).
    rewrite exts_nth, ints_nth, ups_nth, los_nth. cbn [dec_ext dec_int ent_up ent_lo].
    split; [exact (sum_bits_perm_indexes (nG c) _ _ (extent_range old Ho) P1)|].
    split; [exact (sum_bits_perm_indexes (nM c) _ _ (intent_range old Ho) P2)|].
    split; assumption.
  Qed.

  Variables (order : list nat) (lat' : list lat_entry).
  Hypothesis Hser : perm_ser order (tolist L) lat'.

  Lemma ser_perm : Permutation order (seq 0 len).
  Proof. rewrite <- tolist_length. exact (proj1 Hser). Qed.

  Lemma ser_length : length lat' = len.
  Proof.
    rewrite <- (Forall2_length' _ _ _ (proj2 Hser)). apply (order0_length order len ser_perm).
  Qed.

  Lemma ser_tables :
    map dec_ext lat' = map (fun o => nth o (l_exts L) 0) order /\
    map dec_int lat' = map (fun o => nth o (map c_intent cs) 0) order /\
    Forall2 (fun o up' => Permutation up' (map (rank_in order) (nth o (map c_upper cs) []))) order (map ent_up lat') /\
    Forall2 (fun o lo' => Permutation lo' (map (rank_in order) (nth o (map c_lower cs) []))) order (map ent_lo lat').
  Proof.
    destruct Hser as [_ F].
    assert (F' : Forall2 (fun old e' => In old order /\ perm_entry order (tolist L) old e') order lat').
    { apply Forall2_with_In. exact F. }
    assert (D : forall a b, In a order /\ perm_entry order (tolist L) a b ->
                dec_ext b = nth a (l_exts L) 0 /\ dec_int b = nth a (map c_intent cs) 0 /\
                Permutation (ent_up b) (map (rank_in order) (nth a (map c_upper cs) [])) /\
                Permutation (ent_lo b) (map (rank_in order) (nth a (map c_lower cs) []))).
    { intros a b [Hin Hp]. apply perm_entry_decode; [|exact Hp]. apply (order0_In order len ser_perm). exact Hin. }
    split; [|split; [|split]].
    - apply (Forall2_map_eq_in _ _ _ _ _ F'). intros a b _ H. exact (proj1 (D a b H)).
    - apply (Forall2_map_eq_in _ _ _ _ _ F'). intros a b _ H. exact (proj1 (proj2 (D a b H))).
    - apply Forall2_map_r. revert F'. apply Forall2_impl'. intros a b H. exact (proj1 (proj2 (proj2 (D a b H)))).
    - apply Forall2_map_r. revert F'. apply Forall2_impl'. intros a b H. exact (proj2 (proj2 (proj2 (D a b H)))).
  Qed.

  (** the raw path recovers the canonical tables *)
  Lemma raw_reload_tables dfuel :
    fromlist dfuel (relation_new c) lat' true =
    init_part dfuel (relation_new c) len (l_exts L) (map c_intent cs) (map c_upper cs) (map c_lower cs).
  Proof.
    destruct ser_tables as (T1 & T2 & T3 & T4).
    destruct (raw_tables (nG c) len (l_exts L) (map c_intent cs) (map c_upper cs) (map c_lower cs)
                exts_length (map_length _ _) (map_length _ _) (map_length _ _) exts_sorted
                upper_lt lower_lt upper_sorted lower_sorted
                order (map dec_ext lat') (map dec_int lat') (map ent_up lat') (map ent_lo lat')
                ser_perm T1 T2 T3 T4) as (V & R1 & R2 & R3 & R4).
    rewrite fromlist_true_eq. cbv zeta. cbn [mc relation_new nG]. rewrite ser_length.
    rewrite V, R1, R2, R3, R4. reflexivity.
  Qed.
End Reload.

(** * main theorems *)

(** 4. raw reload of any permuted serialisation *)
Theorem fromlist_raw_invariant fuel dfuel c L order lat' :
  wf_ctx c -> (Nat.max (nG c) (nM c) <= dfuel)%nat ->
  build_lattice fuel dfuel (relation_new c) = Ok L ->
  perm_ser order (tolist L) lat' ->
  fromlist dfuel (relation_new c) lat' true = Ok L.
Proof.
  intros Hwf Hd HB Hser.
  rewrite (raw_reload_tables c L (build_lattice_ok fuel dfuel c L Hwf Hd HB) order lat' Hser dfuel).
  exact (init_rebuilds fuel dfuel c L Hwf Hd HB).
Qed.

(** the canonical serialisation is a (trivially) permuted one *)
Lemma perm_ser_refl c L : lattice_ok c L -> perm_ser (seq 0 (length (tolist L))) (tolist L) (tolist L).
Proof.
  intros Hok. split; [apply Permutation_refl|].
  apply (Forall2_seq_nth _ _ dflt_entry). intros i Hi. unfold perm_entry.
  rewrite tolist_length in *. rewrite tolist_nth. unfold enc.
  assert (Hid : forall l, (forall u, In u l -> (u < length (l_concepts L))%nat) ->
                  Permutation l (map (rank_in (seq 0 (length (l_concepts L)))) l)).
  { intros l Hl. rewrite (map_ext_in _ (fun u => u)); [rewrite map_id; apply Permutation_refl|].
    intros u Hu. apply rank_in_seq, Hl, Hu. }
  split; [apply Permutation_refl|]. split; [apply Permutation_refl|]. split; apply Hid; intros u Hu.
  - apply (upper_lt c L Hok i u Hi). rewrite ups_nth. exact Hu.
  - apply (lower_lt c L Hok i u Hi). rewrite los_nth. exact Hu.
Qed.

(** 5. raw reload of the canonical serialisation *)
Corollary raw_on_canonical fuel dfuel c L :
  wf_ctx c -> (Nat.max (nG c) (nM c) <= dfuel)%nat ->
  build_lattice fuel dfuel (relation_new c) = Ok L ->
  fromlist dfuel (relation_new c) (tolist L) true = Ok L.
Proof.
  intros Hwf Hd HB.
  apply (fromlist_raw_invariant fuel dfuel c L (seq 0 (length (tolist L))) (tolist L) Hwf Hd HB).
  apply (perm_ser_refl c), (build_lattice_ok fuel dfuel c L Hwf Hd HB).
Qed.

(** 3. ordered reload: the stored order is trusted *)
Theorem fromlist_tolist_ordered fuel dfuel c L :
  wf_ctx c -> (Nat.max (nG c) (nM c) <= dfuel)%nat ->
  build_lattice fuel dfuel (relation_new c) = Ok L ->
  fromlist dfuel (relation_new c) (tolist L) false = Ok L.
Proof.
  intros Hwf Hd HB. pose proof (build_lattice_ok fuel dfuel c L Hwf Hd HB) as Hok.
  rewrite fromlist_false_eq. cbv zeta. rewrite tolist_length.
  assert (T1 : map dec_ext (tolist L) = l_exts L).
  { rewrite (ok_exts c L Hok), tolist_enc, map_map.
    rewrite <- (map_nth_seq_id (l_concepts L) dconcept) at 1 2. rewrite !map_map.
    apply map_ext_in. intros i Hi. apply in_seq in Hi. cbn [enc dec_ext].
    apply (sum_bits_indexes (nG c)), (extent_range c L Hok). lia. }
  assert (T2 : map dec_int (tolist L) = map c_intent (l_concepts L)).
  { rewrite tolist_enc, map_map.
    rewrite <- (map_nth_seq_id (l_concepts L) dconcept) at 1 2. rewrite !map_map.
    apply map_ext_in. intros i Hi. apply in_seq in Hi. cbn [enc dec_int].
    apply (sum_bits_indexes (nM c)), (intent_range c L Hok). lia. }
  assert (T3 : map ent_up (tolist L) = map c_upper (l_concepts L))
    by (rewrite tolist_enc, map_map; reflexivity).
  assert (T4 : map ent_lo (tolist L) = map c_lower (l_concepts L))
    by (rewrite tolist_enc, map_map; reflexivity).
  rewrite T1, T2, T3, T4.
  assert (V : forallb (fun l => forallb (fun i => (i <? length (l_concepts L))%nat) l)
                (map c_upper (l_concepts L) ++ map c_lower (l_concepts L)) = true).
  { apply forallb_forall. intros l Hl. apply forallb_forall. intros u Hu. apply Nat.ltb_lt.
    apply in_app_or in Hl. destruct Hl as [Hl|Hl].
    - destruct (In_nth _ _ [] Hl) as (i & Hi & E). rewrite map_length in Hi.
      apply (upper_lt c L Hok i u Hi). rewrite E. exact Hu.
    - destruct (In_nth _ _ [] Hl) as (i & Hi & E). rewrite map_length in Hi.
      apply (lower_lt c L Hok i u Hi). rewrite E. exact Hu. }
  rewrite V. cbn [negb].
  rewrite <- (exts_length c L Hok) at 2. rewrite map_nth_seq_id.
  rewrite <- (map_length c_intent (l_concepts L)) at 2. rewrite map_nth_seq_id.
  rewrite <- (map_length c_upper (l_concepts L)) at 2. rewrite map_nth_seq_id.
  rewrite <- (map_length c_lower (l_concepts L)) at 2. rewrite map_nth_seq_id.
  exact (init_rebuilds fuel dfuel c L Hwf Hd HB).
Qed.

(** * 2. the encoding *)

Theorem context_encoding c : wf_ctx c ->
  context_index_sets (relation_new c) = map indexes (rows c) /\
  length (context_index_sets (relation_new c)) = nG c /\
  (forall g, (g < nG c)%nat ->
     nth g (context_index_sets (relation_new c)) [] = indexes (row c g) /\
     StronglySorted lt (indexes (row c g)) /\
     (forall m, In m (indexes (row c g)) <-> (m < nM c)%nat /\ inc c g m = true)).
Proof.
  intros Hwf. split; [reflexivity|]. split.
  - unfold context_index_sets. rewrite map_length. exact (proj1 Hwf).
  - intros g Hg. pose proof (row_in_range c g Hwf) as Hr. split; [|split].
    + unfold context_index_sets, row. cbn [mc relation_new].
      change (@nil nat) with (indexes 0). apply map_nth.
    + exact (indexes_sorted _ _ Hr).
    + intros m. exact (In_indexes _ _ m Hr).
Qed.

(** the index sets denote the rows again, whatever the order inside each tuple *)
Lemma decode_rows n rs : forall sets, Forall (in_range n) rs ->
  Forall2 (fun l l' => Permutation l' l) (map indexes rs) sets -> map sum_bits sets = rs.
Proof.
  induction rs as [|x l IH]; intros sets Hr F; cbn [map] in F; inversion F as [|a b l0 l1 Hab HF]; subst; [reflexivity|].
  inversion Hr as [|x' l' Hx Hl]; subst. cbn [map]. f_equal.
  - exact (sum_bits_perm_indexes _ _ _ Hx Hab).
  - apply IH; assumption.
Qed.

Theorem context_decoding c sets : wf_ctx c ->
  Forall2 (fun l l' => Permutation l' l) (context_index_sets (relation_new c)) sets ->
  map sum_bits sets = rows c.
Proof. intros [_ Hr] F. exact (decode_rows (nM c) (rows c) sets Hr F). Qed.

Theorem todict_encoding fuel dfuel c L :
  wf_ctx c -> (Nat.max (nG c) (nM c) <= dfuel)%nat ->
  build_lattice fuel dfuel (relation_new c) = Ok L ->
  tolist L = map (fun x => (indexes (c_extent x), indexes (c_intent x), c_upper x, c_lower x)) (l_concepts L) /\
  forall i x, concept_at L i x ->
    nth_error (tolist L) i = Some (indexes (c_extent x), indexes (c_intent x), c_upper x, c_lower x) /\
    StronglySorted lt (indexes (c_extent x)) /\
    (forall g, In g (indexes (c_extent x)) <-> (g < nG c)%nat /\ mem (c_extent x) g = true) /\
    StronglySorted lt (indexes (c_intent x)) /\
    (forall m, In m (indexes (c_intent x)) <-> (m < nM c)%nat /\ mem (c_intent x) m = true) /\
    c_intent x = upO c (c_extent x) /\
    (forall j, In j (c_upper x) <-> exists y, concept_at L j y /\ covers c (c_extent x) (c_extent y)) /\
    (forall j, In j (c_lower x) <-> exists y, concept_at L j y /\ covers c (c_extent y) (c_extent x)) /\
    StronglySorted (fun a b => key_lt (shortlex (nG c) (nth_extent (l_exts L) a))
                                      (shortlex (nG c) (nth_extent (l_exts L) b))) (c_upper x) /\
    StronglySorted (fun a b => key_lt (longlex (nG c) (nth_extent (l_exts L) a))
                                      (longlex (nG c) (nth_extent (l_exts L) b))) (c_lower x).
Proof.
  intros Hwf Hd HB. pose proof (build_lattice_ok fuel dfuel c L Hwf Hd HB) as Hok.
  split; [reflexivity|]. intros i x Hx.
  assert (He : in_range (nG c) (c_extent x)).
  { apply (ok_complete c L Hok). rewrite (ok_exts c L Hok). apply in_map. exact (nth_error_In _ _ Hx). }
  assert (Hi : in_range (nM c) (c_intent x)) by (rewrite (ok_intent c L Hok i x Hx); apply in_range_upO).
  split; [unfold tolist; rewrite nth_error_map; unfold concept_at in Hx; rewrite Hx; reflexivity|].
  split; [exact (indexes_sorted _ _ He)|]. split; [intros g; exact (In_indexes _ _ g He)|].
  split; [exact (indexes_sorted _ _ Hi)|]. split; [intros m; exact (In_indexes _ _ m Hi)|].
  split; [exact (ok_intent c L Hok i x Hx)|].
  split; [intros j; exact (ok_upper c L Hok i x j Hx)|].
  split; [intros j; exact (ok_lower c L Hok i x j Hx)|].
  split; [exact (ok_upper_sorted c L Hok i x Hx)|exact (ok_lower_sorted c L Hok i x Hx)].
Qed.

(** entry permutation only (tuples unshuffled): [newpos] renames through [rename_entry] *)
Lemma perm_entry_rename order (lat : list lat_entry) a :
  perm_entry order lat a (rename_entry (rank_in order) (nth a lat dflt_entry)).
Proof.
  unfold perm_entry, rename_entry. destruct (nth a lat dflt_entry) as [[[ex it] up] lo].
  repeat split; apply Permutation_refl.
Qed.

Lemma perm_ser_rename order (lat : list lat_entry) :
  Permutation order (seq 0 (length lat)) ->
  perm_ser order lat (map (fun old => rename_entry (rank_in order) (nth old lat dflt_entry)) order).
Proof.
  intros P. split; [exact P|]. apply Forall2_map_r.
  assert (G : forall l : list nat, Forall2 (fun a b : nat =>
             perm_entry order lat a (rename_entry (rank_in order) (nth b lat dflt_entry))) l l).
  { induction l as [|a l IH]; constructor; [apply perm_entry_rename|exact IH]. }
  apply G.
Qed.

Corollary fromlist_raw_entry_permutation fuel dfuel c L order :
  wf_ctx c -> (Nat.max (nG c) (nM c) <= dfuel)%nat ->
  build_lattice fuel dfuel (relation_new c) = Ok L ->
  Permutation order (seq 0 (length (tolist L))) ->
  fromlist dfuel (relation_new c)
    (map (fun old => rename_entry (rank_in order) (nth old (tolist L) dflt_entry)) order) true = Ok L.
Proof.
  intros Hwf Hd HB P. apply (fromlist_raw_invariant fuel dfuel c L order _ Hwf Hd HB).
  exact (perm_ser_rename order (tolist L) P).
Qed.
